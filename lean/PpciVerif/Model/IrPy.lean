import PpciVerif.Model.PyInt
import PpciVerif.Spec.IR
/-!
# Model.IrPy — hand model of `ppci/lang/python/ir2py.py` (IR → Python backend)

Core Lean only (imports the import-free `Model.PyInt` and the syntax of `Spec.IR`).
The model follows the source **after** the two `fix:` commits recorded in
findings/C24.json (float→int cast by `int(x)`, phis filled per taken edge through
`fetch_value`).  The behaviour before the fixes is kept as `…Legacy` definitions
for the kernel-checked witnesses in `Props/C24.lean`.

Three layers:

1. **runtime helpers** — `correct/idiv/irem/ishl/ishr` mirror, statement by statement, the
   Python text that `IrToPythonCompiler.generate_builtins` emits (`helperText` below is that
   text; `Props.C24.helpers_match_source` compares it with `Gen.IrPyHelpers.lines`, which
   `regen` re-dumps from the live generator on every run).  Python semantics used:
   `int` unbounded; `//` floor; `%` sign of the divisor; `x << n = x·2ⁿ`; `x >> n = ⌊x/2ⁿ⌋`;
   `& | ^ ~` on infinite two's complement (`Model.PyInt`); `int.bit_length`.
2. **lowering plans** — `binopPlan/unopPlan/castPlan` mirror the dispatch of
   `gen_binop`, the `Unop` case of `generate_instruction`, and `gen_cast`; a plan has a
   `render` (the emitted text) and an `exec` (what that text computes).
3. **text emitter** — `emitModule` reproduces the whole text `IrToPythonCompiler.generate`
   emits for a `Spec.IR.Module` (block-dispatch loop, every instruction kind, per-edge phi
   filling, stack bookkeeping).  It is compared line by line with the real output for every
   generated module by harness/c24.py (float constants are placeholders `<float:bits>`).
-/
namespace Model.IrPy
open Spec.IR

inductive PyErr
  | ZeroDivisionError | TypeError | ValueError | KeyError | NotImplementedError | SyntaxError
  deriving DecidableEq, Repr

def PyErr.name : PyErr → String
  | .ZeroDivisionError => "ZeroDivisionError" | .TypeError => "TypeError" | .ValueError => "ValueError"
  | .KeyError => "KeyError" | .NotImplementedError => "NotImplementedError" | .SyntaxError => "SyntaxError"

/-! ## 1. runtime helpers -/

/-- the emitted text of the arithmetic helpers (class body, one level of indentation, trailing blanks removed) -/
def helperText : List String := [
  "    @staticmethod",
  "    def correct(value, bits, signed):",
  "        base = 1 << bits",
  "        value %= base",
  "        if signed and value.bit_length() == bits:",
  "            return value - base",
  "        return value",
  "",
  "    @staticmethod",
  "    def idiv(x, y):",
  "        sign = False",
  "        if x < 0: x = -x; sign = not sign",
  "        if y < 0: y = -y; sign = not sign",
  "        v = x // y",
  "        return -v if sign else v",
  "",
  "    @staticmethod",
  "    def irem(x, y):",
  "        if x < 0:",
  "            x = -x",
  "            sign = True",
  "        else:",
  "            sign = False",
  "        if y < 0: y = -y",
  "        v = x % y",
  "        return -v if sign else v",
  "",
  "    @staticmethod",
  "    def ishl(x, amount, bits):",
  "        amount = amount % bits",
  "        return x << amount",
  "",
  "    @staticmethod",
  "    def ishr(x, amount, bits):",
  "        amount = amount % bits",
  "        return x >> amount",
  ""]

/-- `correct(value, bits, signed)` -/
def correct (value : Int) (bits : Nat) (signed : Bool) : Int :=
  let base : Int := 2 ^ bits                        -- base = 1 << bits
  let value := value % base                         -- value %= base      (base > 0)
  if signed && Model.PyInt.bitLength value == bits then value - base else value

/-- `idiv(x, y)` -/
def idiv (x y : Int) : Except PyErr Int :=
  let sign := false
  let (x, sign) := if x < 0 then (-x, !sign) else (x, sign)
  let (y, sign) := if y < 0 then (-y, !sign) else (y, sign)
  if y = 0 then .error .ZeroDivisionError else
  let v := Int.fdiv x y                             -- v = x // y
  .ok (if sign then -v else v)

/-- `irem(x, y)` -/
def irem (x y : Int) : Except PyErr Int :=
  let (x, sign) := if x < 0 then (-x, true) else (x, false)
  let y := if y < 0 then -y else y
  if y = 0 then .error .ZeroDivisionError else
  let v := Int.fmod x y                             -- v = x % y
  .ok (if sign then -v else v)

/-- Python `a % b` for `b : Nat` written as a literal in the emitted call -/
def pyModNat (a : Int) (b : Nat) : Except PyErr Int :=
  if b = 0 then .error .ZeroDivisionError else .ok (a % (b : Int))

/-- `ishl(x, amount, bits)` -/
def ishl (x amount : Int) (bits : Nat) : Except PyErr Int := do
  let amount ← pyModNat amount bits                 -- amount = amount % bits   (≥ 0)
  pure (x * 2 ^ amount.toNat)                       -- x << amount

/-- `ishr(x, amount, bits)` -/
def ishr (x amount : Int) (bits : Nat) : Except PyErr Int := do
  let amount ← pyModNat amount bits
  pure (x / 2 ^ amount.toNat)                       -- x >> amount  (floor)

/-! ## 2. lowering plans -/

def pyBool (b : Bool) : String := if b then "True" else "False"

inductive Core
  | idiv | irem
  | ishl (bits : Nat) | ishr (bits : Nat)
  | infix (sym : String)
  deriving DecidableEq, Repr

/-- what `gen_binop` emits: one statement computing the raw value, then `rt.correct` for integer types -/
structure Plan where
  core : Core
  corr : Option (Nat × Bool)
  deriving DecidableEq, Repr

def corrOf : Ty → Option (Nat × Bool)
  | .int t => some (t.bits, t.signed)
  | _ => none

/-- dispatch of `gen_binop` -/
def binopPlan (ty : Ty) (op : BinOp) : Plan :=
  let sym := op.symbol
  let core : Core :=
    match ty with
    | .int t =>
      if sym = "/" then .idiv                        -- int_ops
      else if sym = "%" then .irem
      else if sym = ">>" then .ishr t.bits           -- shift_ops
      else if sym = "<<" then .ishl t.bits
      else .infix sym
    | _ => .infix sym
  { core := core, corr := corrOf ty }

def corrLine (dst : String) : Option (Nat × Bool) → List String
  | some (n, sg) => [s!"{dst} = rt.correct({dst}, {n}, {pyBool sg})"]
  | none => []

def Plan.render (p : Plan) (dst a b : String) : List String :=
  (match p.core with
   | .idiv => s!"{dst} = rt.idiv({a}, {b})"
   | .irem => s!"{dst} = rt.irem({a}, {b})"
   | .ishl n => s!"{dst} = rt.ishl({a}, {b}, {n})"
   | .ishr n => s!"{dst} = rt.ishr({a}, {b}, {n})"
   | .infix s => s!"{dst} = {a} {s} {b}") :: corrLine dst p.corr

/-- Python `a sym b` on ints (the operators that keep ints ints) -/
def pyInfix (sym : String) (a b : Int) : Except PyErr Int :=
  if sym = "+" then .ok (a + b)
  else if sym = "-" then .ok (a - b)
  else if sym = "*" then .ok (a * b)
  else if sym = "|" then .ok (Model.PyInt.or a b)
  else if sym = "&" then .ok (Model.PyInt.and a b)
  else if sym = "^" then .ok (Model.PyInt.xor a b)
  else if sym = "rol" ∨ sym = "ror" then .error .SyntaxError      -- `a rol b` is not Python
  else .error .NotImplementedError                               -- `/` true division etc.: not modelled

def applyCorr (r : Int) : Option (Nat × Bool) → Int
  | some (n, sg) => correct r n sg
  | none => r

/-- value left in `dst` by the statements of `render` -/
def Plan.exec (p : Plan) (a b : Int) : Except PyErr Int := do
  let r ← match p.core with
    | .idiv => idiv a b
    | .irem => irem a b
    | .ishl n => ishl a b n
    | .ishr n => ishr a b n
    | .infix s => pyInfix s a b
  pure (applyCorr r p.corr)

/-- `Unop`: `{dst} = {op}{a}` then `rt.correct` for integer types -/
def unopSym : UnOp → String | .neg => "-" | .not => "~"

def unopRender (ty : Ty) (op : UnOp) (dst a : String) : List String :=
  s!"{dst} = {unopSym op}{a}" :: corrLine dst (corrOf ty)

def unopExec (ty : Ty) (op : UnOp) (a : Int) : Int :=
  applyCorr (match op with | .neg => -a | .not => Model.PyInt.not a) (corrOf ty)

/-- a Python number: an `int`, or a finite `float` given exactly as `m · 2^e` -/
inductive PyNum
  | int (v : Int)
  | flt (m : Int) (e : Int)
  deriving DecidableEq, Repr

/-- `int(x)`: identity on ints, truncation toward zero on floats -/
def pyInt : PyNum → Int
  | .int v => v
  | .flt m e => if 0 ≤ e then m * 2 ^ e.toNat else Int.tdiv m (2 ^ (-e).toNat)

/-- `round(x)` (one argument): identity on ints, round-half-to-even on floats -/
def pyRound : PyNum → Int
  | .int v => v
  | .flt m e =>
    if 0 ≤ e then m * 2 ^ e.toNat else
    let d : Int := 2 ^ (-e).toNat
    let q := m / d                      -- floor
    let r := m % d                      -- 0 ≤ r < d
    if 2 * r < d then q else if 2 * r > d then q + 1 else if q % 2 = 0 then q else q + 1

inductive CastKind | toInt (bits : Nat) (signed : Bool) | toPtr | toFloat | unsupported
  deriving DecidableEq, Repr

/-- dispatch of `gen_cast` on the result type -/
def castPlan : Ty → CastKind
  | .int t => .toInt t.bits t.signed
  | .ptr => .toPtr
  | .f32 | .f64 => .toFloat
  | .blob _ _ => .unsupported

def castRender (k : CastKind) (dst src : String) : Except PyErr (List String) :=
  match k with
  | .toInt n sg => .ok [s!"{dst} = rt.correct(int({src}), {n}, {pyBool sg})"]
  | .toPtr => .ok [s!"{dst} = int({src})"]
  | .toFloat => .ok [s!"{dst} = float({src})"]
  | .unsupported => .error .NotImplementedError

/-- value computed by the emitted cast (conversion *to* float is not modelled) -/
def castExec (k : CastKind) (x : PyNum) : Except PyErr Int :=
  match k with
  | .toInt n sg => .ok (correct (pyInt x) n sg)
  | .toPtr => .ok (pyInt x)
  | _ => .error .NotImplementedError

/-- before the fix: `rt.correct(int(round(src)), bits, signed)` -/
def castExecLegacy (k : CastKind) (x : PyNum) : Except PyErr Int :=
  match k with
  | .toInt n sg => .ok (correct (pyRound x) n sg)
  | .toPtr => .ok (pyRound x)
  | _ => .error .NotImplementedError

/-! ### phi filling -/

/-- `fill_phis(block, target)`: names of the phis of `target` and, for each, the expression
    of its input for predecessor `pred` (`KeyError` when a phi has no input for `pred`) -/
def phiPairs (fetch : Operand → String) (pred : String) : List Instr → Except PyErr (List (String × String))
  | [] => .ok []
  | .phi d _ ins :: r =>
    match lookupStr ins pred with
    | some o => do
      let rest ← phiPairs fetch pred r
      pure ((d, fetch o) :: rest)
    | none => .error .KeyError
  | _ :: r => phiPairs fetch pred r

/-- the emitted tuple assignment `d1, d2, … = v1, v2, …` (nothing when there is no phi) -/
def phiLine (pairs : List (String × String)) : List String :=
  if pairs.isEmpty then [] else
  [", ".intercalate (pairs.map (·.1)) ++ " = " ++ ", ".intercalate (pairs.map (·.2))]

/-- Python semantics of `d1, …, dn = x1, …, xn` where the `xi` are local names: all right-hand
    sides are read first (`none` = NameError), then the targets are bound left to right -/
def tupleAssign (env : Env) (dsts srcs : List String) : Option Env := do
  let vals ← srcs.mapM env.get
  pure (env.setMany (dsts.zip vals))

/-- what a *sequence* of single assignments `d1 = x1; d2 = x2; …` would do (for the witness only) -/
def seqAssign (env : Env) : List (String × String) → Option Env
  | [] => some env
  | (d, s) :: r => do
    let v ← env.get s
    seqAssign (env.set d v) r

/-- before the fix: at the end of block `b` the phis of **all** successors were assigned -/
def legacyPhiPairs (f : Func) (b : Block) : Except PyErr (List (String × String)) :=
  b.succs.foldlM (fun acc t =>
    match f.findBlock t with
    | some tb => do
      let ps ← phiPairs (fun o => match o with | .loc n => n | .glob n => n) b.name tb.instrs
      pure (acc ++ ps)
    | none => .error .KeyError) []

/-! ## 3. text emitter -/

def ind (lvl : Nat) (s : String) : String :=
  if s.isEmpty then "" else String.ofList (List.replicate (4 * lvl) ' ') ++ s

def isSubroutineName (m : Module) (g : String) : Bool :=
  (m.findFunc g).isSome ||
  (match m.findExtern g with
   | some { kind := .proc _, .. } | some { kind := .func _ _, .. } => true
   | _ => false)

/-- `fetch_value` -/
def fetchValue (m : Module) : Operand → String
  | .loc n => n
  | .glob g =>
    if isSubroutineName m g then s!"rt.f_ptrs_by_name['{g}']"
    else match m.findExtern g with
      | some { kind := .var, .. } => s!"rt.externals['{g}']"
      | _ => g

/-- `_fetch_callee` -/
def fetchCallee (m : Module) : Operand → String
  | .loc n => s!"rt.func_pointers[{n}]"
  | .glob g =>
    if (m.findFunc g).isSome then g
    else match m.findExtern g with
      | some { kind := .proc _, .. } | some { kind := .func _ _, .. } => s!"rt.externals['{g}']"
      | _ => s!"rt.func_pointers[{g}]"

def rawName : Operand → String
  | .loc n => n
  | .glob n => n

/-- `emit_jump(block, target)` at indentation `lvl` -/
def emitJump (m : Module) (f : Func) (pred : String) (lvl : Nat) (t : String) : Except PyErr (List String) := do
  let tb ← match f.findBlock t with
    | some b => pure b
    | none => throw .KeyError
  let pairs ← phiPairs (fetchValue m) pred tb.instrs
  pure ((phiLine pairs ++ ["_irpy_prev_block = _irpy_current_block", s!"_irpy_current_block = \"{t}\""]).map (ind lvl))

def constText : ConstVal → String
  | .int v => toString v
  | .fbits b => s!"<float:{b}>"        -- Python's repr of the float; expanded by the harness

/-- `generate_instruction`; state = `stack_size`; literals are collected by the caller -/
def emitInstr (m : Module) (f : Func) (b : Block) (lvl : Nat) (ss : Nat) : Instr → Except PyErr (List String × Nat)
  | .cjump x c y yes no => do
    let jy ← emitJump m f b.name (lvl + 1) yes
    let jn ← emitJump m f b.name (lvl + 1) no
    pure ([ind lvl s!"if {fetchValue m x} {c.symbol} {fetchValue m y}:"] ++ jy ++ [ind lvl "else:"] ++ jn, ss)
  | .jump t => do
    let j ← emitJump m f b.name lvl t
    pure (j, ss)
  | .alloc d size _ => pure ([ind lvl s!"{d} = rt.alloca({size})"], ss + size)
  | .addrof d src => pure ([ind lvl s!"{d} = {fetchValue m src}[0]"], ss)
  | .const d _ c => pure ([ind lvl s!"{d} = {constText c}"], ss)
  | .literal d data => pure ([ind lvl s!"{d} = ({f.name}_{d},{data.length})"], ss)
  | .unop d ty op a => pure ((unopRender ty op d (fetchValue m a)).map (ind lvl), ss)
  | .binop d ty op x y => pure (((binopPlan ty op).render d (fetchValue m x) (fetchValue m y)).map (ind lvl), ss)
  | .cast d ty a => do
    let ls ← castRender (castPlan ty) d (rawName a)
    pure (ls.map (ind lvl), ss)
  | .store ty v a _ =>
    match ty with
    | .blob size _ => pure ([ind lvl s!"rt.write_mem({rawName a}, {size}, {rawName v})"], ss)
    | _ => pure ([ind lvl s!"rt.store_{ty.name}({rawName a}, {fetchValue m v})"], ss)
  | .load d ty a _ =>
    match ty with
    | .blob size _ => pure ([ind lvl s!"{d} = rt.read_mem({fetchValue m a}, {size})"], ss)
    | _ => pure ([ind lvl s!"{d} = rt.load_{ty.name}({fetchValue m a})"], ss)
  | .fcall d _ callee args =>
    pure ([ind lvl s!"{d} = {fetchCallee m callee}({", ".intercalate (args.map (fetchValue m))})"], ss)
  | .pcall callee args =>
    pure ([ind lvl s!"{fetchCallee m callee}({", ".intercalate (args.map (fetchValue m))})"], ss)
  | .phi .. => pure ([], ss)
  | .ret v => pure ([ind lvl s!"rt.free({ss})", ind lvl s!"return {fetchValue m v}"], 0)
  | .exit => pure ([ind lvl s!"rt.free({ss})", ind lvl "return"], 0)
  | .undefined d _ => pure ([ind lvl s!"{d} = 0"], ss)
  | .copyblob .. => throw .NotImplementedError
  | .asm .. => throw .NotImplementedError

def emitInstrs (m : Module) (f : Func) (b : Block) (lvl : Nat) : Nat → List Instr → Except PyErr (List String × Nat)
  | ss, [] => pure ([], ss)
  | ss, i :: r => do
    let (l1, ss1) ← emitInstr m f b lvl ss i
    let (l2, ss2) ← emitInstrs m f b lvl ss1 r
    pure (l1 ++ l2, ss2)

def emitBlocks (m : Module) (f : Func) : Nat → List Block → Except PyErr (List String)
  | _, [] => pure []
  | ss, b :: r => do
    let (l1, ss1) ← emitInstrs m f b 3 ss b.instrs
    let l2 ← emitBlocks m f ss1 r
    pure ([ind 2 s!"if _irpy_current_block == \"{b.name}\":"] ++ l1 ++ l2)

/-- `generate_function` -/
def emitFunc (m : Module) (f : Func) : Except PyErr (List String) := do
  let body ← emitBlocks m f 0 f.blocks
  pure ([s!"def {f.name}({",".intercalate (f.params.map (·.1))}):",
         ind 1 "_irpy_prev_block = None",
         ind 1 s!"_irpy_current_block = '{f.entry}'",
         ind 1 "while True:"] ++ body ++
        ["", "", s!"rt.register_function('{f.name}', {f.name})", ""])

/-- `generate_global_variable` (`none` when an initialiser part is not plain bytes) -/
def emitVar (v : GVar) : Except PyErr (List String) := do
  let initLines : List String ← match v.init with
    | some parts =>
      if parts.isEmpty then pure [s!"rt.heap.extend(bytes({v.size}))"] else
      parts.foldlM (fun acc p => match p with
        | .bytes bs => pure (acc ++ bs.map (fun b => s!"rt.heap.append({b})"))
        | .ref _ => throw PyErr.NotImplementedError) []
    | none => pure [s!"rt.heap.extend(bytes({v.size}))"]
  pure ([s!"{v.name} = rt.heap_top()"] ++ initLines ++ [s!"rt.externals['{v.name}'] = {v.name}"])

def emitLiterals (m : Module) : List String :=
  m.literals.flatMap (fun (f, d, data) =>
    s!"{f}_{d} = rt.heap_top()" :: data.map (fun b => s!"rt.heap.append({b})"))

/-- `IrToPythonCompiler.generate(ir_mod)` (lines, trailing blanks removed) -/
def emitModule (m : Module) : Except PyErr (List String) := do
  let vs ← m.vars.foldlM (fun acc v => do pure (acc ++ (← emitVar v))) []
  let fs ← m.funcs.foldlM (fun acc f => do pure (acc ++ (← emitFunc m f))) []
  pure (["", s!"# Module {m.name}"] ++ vs ++ fs ++ emitLiterals m ++ [""])

/-! ### memory helpers: `struct` formats used by `load_T` / `store_T` -/

/-- (type name, struct format character, size) in the order of `generate_memory_builtins` -/
def memFormats : List (String × String × Nat) :=
  [("f64", "d", 8), ("f32", "f", 4), ("i64", "q", 8), ("u64", "Q", 8), ("i32", "i", 4), ("u32", "I", 4),
   ("ptr", "i", 4), ("i16", "h", 2), ("u16", "H", 2), ("i8", "b", 1), ("u8", "B", 1)]

/-- `struct.pack(fmt, v)` for an integer format of `size` bytes: little-endian two's complement,
    `none` = `struct.error` (value out of the format's range) -/
def structPack (size : Nat) (signed : Bool) (v : Int) : Option (List Nat) :=
  let lo : Int := if signed then -(2 ^ (8 * size - 1)) else 0
  let hi : Int := if signed then 2 ^ (8 * size - 1) - 1 else 2 ^ (8 * size) - 1
  if lo ≤ v ∧ v ≤ hi then some (Spec.IR.toBytesLE size (v % 2 ^ (8 * size)).toNat) else none

/-- `struct.unpack(fmt, bytes)[0]` -/
def structUnpack (size : Nat) (signed : Bool) (bs : List Nat) : Int :=
  let n : Int := (Spec.IR.fromBytesLE bs : Nat)
  if signed && decide (2 ^ (8 * size - 1) ≤ n) then n - 2 ^ (8 * size) else n

/-! ### tables compared with `Gen.IrPyHelpers` (statements for `d = a op b`, `d = op a`, `d = cast a`) -/

def allTys : List Ty :=
  [.int .i8, .int .i16, .int .i32, .int .i64, .int .u8, .int .u16, .int .u32, .int .u64, .ptr, .f32, .f64]

def binopTable : List (String × String × List String) :=
  allTys.flatMap fun t => BinOp.all.map fun o => (t.name, o.name, (binopPlan t o).render "d" "a" "b")

def unopTable : List (String × String × List String) :=
  allTys.flatMap fun t => [UnOp.neg, UnOp.not].map fun o => (t.name, o.name, unopRender t o "d" "a")

def castTable : List (String × List String) :=
  allTys.map fun t => (t.name, match castRender (castPlan t) "d" "a" with | .ok l => l | .error _ => [])

end Model.IrPy
