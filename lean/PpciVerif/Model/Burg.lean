/-!
# Model.Burg — bottom-up tree labelling (BURS) as `ppci/codegen/instructionselector.py` does it

Import-free, executable.  Mirrors

* `BurgSystem` (burg.py): rules `nt -> tree` with an optional acceptance
  (`condition`) callable; a rule whose tree is a bare non-terminal is a *chain
  rule*; `tree_terminal_equal`, `get_kids`, `get_nts` (all three use `zip`, i.e.
  they truncate to the shorter child list — mirrored);
* `TreeSelector.burm_label / mark_tree`: children first; then every rule whose
  root terminal equals the node name, whose terminal skeleton matches, whose
  open ends (`kids`) carry the required non-terminal goals and whose acceptance
  holds marks its non-terminal and, transitively, every non-terminal reachable
  through chain rules;
* `TreeSelector.gen`: the tree is covered iff the root state `has_goal("stm")`.

Costs and the chosen rule numbers are not modelled (they do not influence which
goals a node has).  Acceptance callables are opaque Python: a tree node carries
the list `acc` of the numbers of the *conditional* rules whose acceptance
returned true at that node (the harness evaluates them on the real tree); the
totality theorem quantifies over every such oracle.

Symbols are numbers (`Nat`): terminals, non-terminals and sorts live in three
separate id spaces; the name tables are in the generated `Gen.Burg_*` files.
-/
namespace Model.Burg

/-- A selection tree: terminal id, accepted conditional rule numbers, children. -/
inductive Tree where
  | node (name : Nat) (acc : List Nat) (kids : List Tree)
  deriving Repr

/-- A rule pattern: an open end (non-terminal) or a terminal with sub-patterns. -/
inductive Pat where
  | nt (n : Nat)
  | term (name : Nat) (kids : List Pat)
  deriving Repr

structure Rule where
  nr : Nat
  nt : Nat
  pat : Pat
  cond : Bool

/-- A tree annotated with the set of goals (non-terminals) of every node. -/
inductive LTree where
  | node (name : Nat) (labels : List Nat) (kids : List LTree)

def LTree.labels : LTree → List Nat
  | .node _ ls _ => ls

/-! ### chain rules (`mark_tree`) -/

def chainRules (rules : List Rule) : List (Nat × Nat) :=
  rules.filterMap fun r => match r.pat with
    | .nt src => some (src, r.nt)
    | .term _ _ => none

/-- one sweep over the chain rules: add `dst` when `src` is already marked -/
def chainStep (cr : List (Nat × Nat)) (s : List Nat) : List Nat :=
  cr.foldl (fun acc p => if acc.contains p.1 && !acc.contains p.2 then acc ++ [p.2] else acc) s

/-- sweep until nothing is added (at most one sweep per chain rule) -/
def closeLoop (cr : List (Nat × Nat)) : Nat → List Nat → List Nat → List Nat
  | 0, s, _ => s
  | fuel + 1, s, s' => if s'.length == s.length then s else closeLoop cr fuel s' (chainStep cr s')

def closeCR (cr : List (Nat × Nat)) (nt : Nat) : List Nat :=
  closeLoop cr cr.length [nt] (chainStep cr [nt])

/-- every non-terminal marked by `mark_tree` starting from rule non-terminal `nt` -/
def close (rules : List Rule) (nt : Nat) : List Nat :=
  closeCR (chainRules rules) nt

/-! ### matching (`tree_terminal_equal` + goals of the kids) -/

mutual
def matchPat : Pat → LTree → Bool
  | .nt n, t => t.labels.contains n
  | .term nm ps, .node nm' _ ks => nm == nm' && matchPats ps ks
def matchPats : List Pat → List LTree → Bool
  | p :: ps, k :: ks => matchPat p k && matchPats ps ks
  | _, _ => true
end

def ruleFires (r : Rule) (name : Nat) (acc : List Nat) (ks : List LTree) : Bool :=
  match r.pat with
  | .term nm ps => nm == name && matchPats ps ks && (!r.cond || acc.contains r.nr)
  | .nt _ => false

def labelsAt (rules : List Rule) (name : Nat) (acc : List Nat) (ks : List LTree) : List Nat :=
  (rules.filter (fun r => ruleFires r name acc ks)).flatMap (fun r => close rules r.nt)

mutual
def annot (rules : List Rule) : Tree → LTree
  | .node n acc kids =>
      let ks := annotL rules kids
      .node n (labelsAt rules n acc ks) ks
def annotL (rules : List Rule) : List Tree → List LTree
  | [] => []
  | t :: ts => annot rules t :: annotL rules ts
end

/-- `burm_label(tree); tree.state.has_goal(nt)` -/
def covers (rules : List Rule) (t : Tree) (nt : Nat) : Bool :=
  (annot rules t).labels.contains nt

/-! ### the sorted alphabet of trees irdag/dagsplit can emit -/

structure Sym where
  name : Nat
  args : List Nat
  res : Nat
  deriving DecidableEq

def lookupSym (sig : List Sym) (n : Nat) : Option Sym := sig.find? (fun f => f.name == n)

mutual
def wellSorted (sig : List Sym) : Tree → Nat → Bool
  | .node n _ kids, s =>
      match lookupSym sig n with
      | some f => f.res == s && wellSortedL sig kids f.args
      | none => false
def wellSortedL (sig : List Sym) : List Tree → List Nat → Bool
  | [], [] => true
  | t :: ts, s :: ss => wellSorted sig t s && wellSortedL sig ts ss
  | _, _ => false
end

def restrict (sig : List Sym) (excluded : List Nat) : List Sym :=
  sig.filter (fun f => !excluded.contains f.name)

/-! ### the decidable sufficient condition for totality -/

def guarOf (g : List (Nat × List Nat)) (s : Nat) : List Nat :=
  match g.find? (fun p => p.1 == s) with
  | some p => p.2
  | none => []

/-- the pattern children are plain non-terminals, one per argument sort, each guaranteed for that sort -/
def flatFor (g : List (Nat × List Nat)) : List Pat → List Nat → Bool
  | [], [] => true
  | .nt n :: ps, s :: ss => (guarOf g s).contains n && flatFor g ps ss
  | _, _ => false

/-- `r` is an unconditional rule `_ -> f(c₁,…,cₙ)` with plain guaranteed non-terminal children -/
def flatRule (g : List (Nat × List Nat)) (f : Sym) (r : Rule) : Bool :=
  !r.cond &&
  (match r.pat with
   | .term nm ps => nm == f.name && flatFor g ps f.args
   | .nt _ => false)

def subsetB (l c : List Nat) : Bool := l.all c.contains

/-- a chain-closure table `ct` (non-terminal ↦ some of the non-terminals its closure contains) is sound -/
def ctSound (rules : List Rule) (ct : List (Nat × List Nat)) : Bool :=
  ct.all fun p => subsetB p.2 (close rules p.1)

/-- skip rules until the one numbered `w` (rules are numbered in list order) -/
def dropTo (w : Nat) : List Rule → List Rule
  | [] => []
  | r :: rs => if r.nr == w then r :: rs else dropTo w rs

/-- `r` alone witnesses symbol `f`: flat, unconditional, and every non-terminal guaranteed for the
result sort is in the (tabulated) chain closure of `r.nt` -/
def witnessOk (g ct : List (Nat × List Nat)) (f : Sym) (r : Rule) : Bool :=
  flatRule g f r && subsetB (guarOf g f.res) (guarOf ct r.nt)

/-- certificate check in one merge pass: `wit` gives, per symbol of `sig` (same order), the number of
its witness rule; the numbers must be non-decreasing along `sig` -/
def checkW (g ct : List (Nat × List Nat)) : List Rule → List Sym → List Nat → Bool
  | _, [], [] => true
  | rs, f :: fs, w :: ws =>
      match dropTo w rs with
      | r :: rs' => witnessOk g ct f r && checkW g ct (r :: rs') fs ws
      | [] => false
  | _, _, _ => false

/-- **The decidable sufficient condition.**  For every symbol `f : s₁ … sₙ → s` of the alphabet there is
(the certificate `wit` names it) an UNCONDITIONAL rule `nt' -> f(c₁,…,cₙ)` of `rules` whose children are
plain non-terminals `cᵢ` guaranteed for sort `sᵢ` (`cᵢ ∈ g sᵢ`), and every non-terminal guaranteed for
the result sort (`g s`) is in the chain-rule closure of `nt'`: `g s ⊆ ct nt'`, where the table `ct` is
checked against the executable closure `close` (`ctSound`). -/
def premise (rules : List Rule) (sig : List Sym) (g ct : List (Nat × List Nat)) (wit : List Nat) : Bool :=
  ctSound rules ct && checkW g ct rules sig wit

/-- certificate-free version (searches the witness): used by the driver to recompute, independently of
the translator, the symbols that have no witness -/
def symOk (g : List (Nat × List Nat)) (rules : List Rule) (f : Sym) : Bool :=
  rules.any fun r => flatRule g f r && subsetB (guarOf g f.res) (close rules r.nt)

def failing (rules : List Rule) (sig : List Sym) (g : List (Nat × List Nat)) : List Nat :=
  (sig.filter (fun f => !symOk g rules f)).map (·.name)

def Tree.heads : Tree → List Nat
  | .node n _ kids => n :: headsL kids
where headsL : List Tree → List Nat
  | [] => []
  | t :: ts => t.heads ++ headsL ts

end Model.Burg
