/-!
# Model.Burg — bottom-up tree labelling (BURS) as `ppci/codegen/instructionselector.py` does it

Import-free, executable.  Mirrors

* `BurgSystem` (burg.py): rules `nt -> tree` with an optional acceptance
  (`condition`) callable; a rule whose tree is a bare non-terminal is a *chain
  rule*; `tree_terminal_equal`, `get_kids`, `get_nts` (all three use `zip`, i.e.
  they truncate to the shorter child list — mirrored);
* `TreeSelector.burm_label / mark_tree`: children first; then every rule whose
  root terminal equals the node name, whose terminal skeleton matches, whose
  open ends (`kids`) carry the required non-terminal goals and whose acceptance
  holds marks its non-terminal and, transitively, every non-terminal reachable
  through chain rules;
* `TreeSelector.gen`: the tree is covered iff the root state `has_goal("stm")`.

Costs and the chosen rule numbers are not modelled (they do not influence which
goals a node has).  Acceptance callables are opaque Python: a tree node carries
the list `acc` of the numbers of the *conditional* rules whose acceptance
returned true at that node (the harness evaluates them on the real tree); the
totality theorem quantifies over every such oracle.

Symbols are numbers (`Nat`): terminals, non-terminals and sorts live in three
separate id spaces; the name tables are in the generated `Gen.Burg_*` files.
-/
namespace Model.Burg

/-- A selection tree: terminal id, accepted conditional rule numbers, children. -/
inductive Tree where
  | node (name : Nat) (acc : List Nat) (kids : List Tree)
  deriving Repr

/-- A rule pattern: an open end (non-terminal) or a terminal with sub-patterns. -/
inductive Pat where
  | nt (n : Nat)
  | term (name : Nat) (kids : List Pat)
  deriving Repr

structure Rule where
  nr : Nat
  nt : Nat
  pat : Pat
  cond : Bool

/-- A tree annotated with the set of goals (non-terminals) of every node. -/
inductive LTree where
  | node (name : Nat) (labels : List Nat) (kids : List LTree)

def LTree.labels : LTree → List Nat
  | .node _ ls _ => ls

/-! ### chain rules (`mark_tree`) -/

def chainRules (rules : List Rule) : List (Nat × Nat) :=
  rules.filterMap fun r => match r.pat with
    | .nt src => some (src, r.nt)
    | .term _ _ => none

/-- one sweep over the chain rules: add `dst` when `src` is already marked -/
def chainStep (cr : List (Nat × Nat)) (s : List Nat) : List Nat :=
  cr.foldl (fun acc p => if acc.contains p.1 && !acc.contains p.2 then acc ++ [p.2] else acc) s

def iter {α} (f : α → α) : Nat → α → α
  | 0, a => a
  | n + 1, a => iter f n (f a)

/-- every non-terminal marked by `mark_tree` starting from rule non-terminal `nt` -/
def close (rules : List Rule) (nt : Nat) : List Nat :=
  let cr := chainRules rules
  iter (chainStep cr) cr.length [nt]

/-! ### matching (`tree_terminal_equal` + goals of the kids) -/

mutual
def matchPat : Pat → LTree → Bool
  | .nt n, t => t.labels.contains n
  | .term nm ps, .node nm' _ ks => nm == nm' && matchPats ps ks
def matchPats : List Pat → List LTree → Bool
  | p :: ps, k :: ks => matchPat p k && matchPats ps ks
  | _, _ => true
end

def ruleFires (r : Rule) (name : Nat) (acc : List Nat) (ks : List LTree) : Bool :=
  match r.pat with
  | .term nm ps => nm == name && matchPats ps ks && (!r.cond || acc.contains r.nr)
  | .nt _ => false

def labelsAt (rules : List Rule) (name : Nat) (acc : List Nat) (ks : List LTree) : List Nat :=
  (rules.filter (fun r => ruleFires r name acc ks)).flatMap (fun r => close rules r.nt)

mutual
def annot (rules : List Rule) : Tree → LTree
  | .node n acc kids =>
      let ks := annotL rules kids
      .node n (labelsAt rules n acc ks) ks
def annotL (rules : List Rule) : List Tree → List LTree
  | [] => []
  | t :: ts => annot rules t :: annotL rules ts
end

/-- `burm_label(tree); tree.state.has_goal(nt)` -/
def covers (rules : List Rule) (t : Tree) (nt : Nat) : Bool :=
  (annot rules t).labels.contains nt

/-! ### the sorted alphabet of trees irdag/dagsplit can emit -/

structure Sym where
  name : Nat
  args : List Nat
  res : Nat

def lookupSym (sig : List Sym) (n : Nat) : Option Sym := sig.find? (fun f => f.name == n)

mutual
def wellSorted (sig : List Sym) : Tree → Nat → Bool
  | .node n _ kids, s =>
      match lookupSym sig n with
      | some f => f.res == s && wellSortedL sig kids f.args
      | none => false
def wellSortedL (sig : List Sym) : List Tree → List Nat → Bool
  | [], [] => true
  | t :: ts, s :: ss => wellSorted sig t s && wellSortedL sig ts ss
  | _, _ => false
end

def restrict (sig : List Sym) (excluded : List Nat) : List Sym :=
  sig.filter (fun f => !excluded.contains f.name)

/-! ### the decidable sufficient condition for totality -/

def guarOf (g : List (Nat × List Nat)) (s : Nat) : List Nat :=
  match g.find? (fun p => p.1 == s) with
  | some p => p.2
  | none => []

/-- the pattern children are plain non-terminals, one per argument sort, each guaranteed for that sort -/
def flatFor (g : List (Nat × List Nat)) : List Pat → List Nat → Bool
  | [], [] => true
  | .nt n :: ps, s :: ss => (guarOf g s).contains n && flatFor g ps ss
  | _, _ => false

def ruleWitness (g : List (Nat × List Nat)) (rules : List Rule) (f : Sym) (nt : Nat) (r : Rule) : Bool :=
  !r.cond &&
  (match r.pat with
   | .term nm ps => nm == f.name && flatFor g ps f.args
   | .nt _ => false) &&
  (close rules r.nt).contains nt

def symOk (g : List (Nat × List Nat)) (rules : List Rule) (f : Sym) : Bool :=
  (guarOf g f.res).all fun nt => rules.any (ruleWitness g rules f nt)

/-- For every symbol `f : s₁ … sₙ → s` of the alphabet and every non-terminal `nt`
guaranteed for sort `s` there is an UNCONDITIONAL rule `nt' -> f(c₁,…,cₙ)` whose
children are plain non-terminals `cᵢ` guaranteed for sort `sᵢ`, and `nt` is in
the chain-rule closure of `nt'`. -/
def premise (rules : List Rule) (sig : List Sym) (g : List (Nat × List Nat)) : Bool :=
  sig.all (symOk g rules)

/-- the symbols for which the premise fails (used by the driver to explain a failure) -/
def failing (rules : List Rule) (sig : List Sym) (g : List (Nat × List Nat)) : List Nat :=
  (sig.filter (fun f => !symOk g rules f)).map (·.name)

def Tree.heads : Tree → List Nat
  | .node n _ kids => n :: headsL kids
where headsL : List Tree → List Nat
  | [] => []
  | t :: ts => t.heads ++ headsL ts

end Model.Burg
