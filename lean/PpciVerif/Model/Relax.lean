import PpciVerif.Model.Linker
/-
Hand model of linker relaxation: ppci/binutils/linker.py `Linker.do_relaxations`,
`Linker._apply_relaxation_holes` and the shrinkable relocation types of
ppci/arch/riscv/rvc_relocations.py (`CBImm11Relocation`, `CBlImm11Relocation`: `can_shrink`,
`do_shrink`), AS THE CODE IS.  Core Lean only (imports the C12 object model `Model.Linker`).

What is mirrored
* the object under construction (`self.dst`) is a `Model.Linker.Obj`; Python mutates `Section`
  objects in place ↦ `updSec` by name (section names are unique in `section_map`); an `Image`
  holds `Section` objects ↦ names, so a section listed twice is shifted twice, as in Python.
* the candidate loop: for every relocation IN LIST ORDER: `get_symbol_value` (KeyError /
  ValueError), `get_section` (KeyError), `relocation_map[reloc_type]` (KeyError), `can_shrink`
  (base class: False; cb_imm11 / cbl_imm11: two parity asserts, then `isinsrange(12, S - P)`),
  the slice `data[begin:end]` with `assert len(data) == size`, `do_shrink` (parity asserts,
  `bv[0:2] = 0b01`, `bv[13:16] = 0b101 | 0b001`, `data[:2]`, new relocation `bc_imm11`), the three
  size asserts, the in-place patch `data[begin:new_end] = data`, the hole `(new_end, diff)`.
* the replacement of relocation entries: `list.remove` (first EQUAL entry) then append of the new
  entry (same symbol id, section, offset, addend) – so the shrunk entries move to the end of the list.
* `holes_map` (defaultdict keyed by section name, each list sorted by offset with a stable sort) ↦
  the flat list of `(section, hole)` in registration order; `holesOf` filters and sorts (stable
  insertion sort).
* `_apply_relaxation_holes`: `count_holes` with its early `break`, symbols (section-less skipped;
  `None` value ↦ TypeError), relocation offsets (`assert relocation.section`), data deletion
  (holes in reverse, `pop` ↦ IndexError when out of range), `section_changes`, the per-image
  running `delta`.
* Python ints ↦ `Nat` for addresses/offsets (as in `Model.Linker`); the one subtraction that could go
  below zero (`section.address -= delta`, `symbol.value -= delta`, `relocation.offset -= delta`)
  answers `OutOfDomain` instead (never reached on a laid-out object: `Proofs.Relax`).

NOT modelled: logging, `debug_info` (not adjusted by the code either), relocation application
(`do_relocations` is in `Model.RelaxLink`).
-/
namespace Model.Relax
open Model.Linker

inductive Err | KeyError | ValueError | AssertionError | TypeError | IndexError | OutOfDomain
  deriving Repr, DecidableEq

def Err.name : Err → String
  | .KeyError => "KeyError" | .ValueError => "ValueError" | .AssertionError => "AssertionError"
  | .TypeError => "TypeError" | .IndexError => "IndexError" | .OutOfDomain => "OutOfDomain"

def ofLinkErr : Model.Linker.Err → Err
  | .KeyError => .KeyError | .ValueError => .ValueError | .AssertionError => .AssertionError
  | .CompilerError => .OutOfDomain | .ZeroDivisionError => .OutOfDomain

def assert (c : Bool) : Except Err Unit := if c then .ok () else .error .AssertionError

/-! ### the relocation types of the riscv:rvc ISA as far as relaxation needs them -/

/-- which compressed opcode `do_shrink` writes: `bv[13:16] = 0b101` (C.J) or `0b001` (C.JAL) -/
inductive Shrink | cj | cjal
  deriving Repr, DecidableEq

def Shrink.funct3 : Shrink → Nat
  | .cj => 5 | .cjal => 1

structure RelocInfo where
  size : Nat                      -- `cls.size()` = token size in bytes
  shrink : Option Shrink          -- `none`: `can_shrink` is the base-class `return False`
  deriving Repr, DecidableEq

/-- `arch.isa.relocation_map` of `riscv:rvc` (name, size, shrink kind); `Props.C13.table_matches`
    proves this literal equal to the table regenerated from the live ISA (`Gen.RelaxTab`). -/
def rvcTable : List (String × RelocInfo) := [
  ("abs32_imm12", ⟨4, none⟩), ("abs32_imm20", ⟨4, none⟩), ("absaddr16", ⟨2, none⟩),
  ("absaddr32", ⟨4, none⟩), ("absaddr64", ⟨8, none⟩), ("b_imm12", ⟨4, none⟩), ("b_imm20", ⟨4, none⟩),
  ("bc_imm11", ⟨2, none⟩), ("bc_imm8", ⟨2, none⟩), ("cb_imm11", ⟨4, some .cj⟩),
  ("cbl_imm11", ⟨4, some .cjal⟩), ("rel_imm12", ⟨4, none⟩), ("rel_imm20", ⟨4, none⟩)]

/-- the name of the relocation `do_shrink` returns (`BcImm11Relocation.name`) -/
def shrunkType : String := "bc_imm11"

def relocInfo (typ : String) : Option RelocInfo :=
  match rvcTable.find? (fun p => p.1 == typ) with
  | some p => some p.2
  | none => none

/-- `isinsrange(12, val)`: `val <= 2047 and val >= -2048` -/
def isInsRange12 (v : Int) : Bool := decide (v ≤ 2047 ∧ v ≥ -2048)

/-- `can_shrink(sym_value, reloc_value)` of `CBImm11Relocation` / `CBlImm11Relocation` -/
def canShrink (S P : Nat) : Except Err Bool := do
  assert (S % 2 == 0)
  assert (P % 2 == 0)
  .ok (isInsRange12 ((S : Int) - (P : Int)))

/-- the two bytes `do_shrink` returns for the instruction bytes `data` (`len(data) = 4`):
    `bv[0:2] = 0b01` rewrites bits 0..1 of byte 0, `bv[13:16] = f3` bits 5..7 of byte 1; `data[:2]` -/
def patch (k : Shrink) (data : List Nat) : List Nat :=
  match data with
  | b0 :: b1 :: _ => [b0 - b0 % 4 + 1, b1 % 32 + 32 * k.funct3]
  | _ => data.take 2

/-- `data[begin:begin+len(new)] = new` (equal lengths: an in-place overwrite) -/
def splice (data : List Nat) (off : Nat) (new : List Nat) : List Nat :=
  data.take off ++ new ++ data.drop (off + new.length)

abbrev Hole := Nat × Nat          -- (hole_offset, hole_size)

/-- one entry of `lst`: the hole and the superseded relocation entry -/
structure Cand where
  hole : Hole
  reloc : Reloc
  deriving Repr, DecidableEq

def liftL {α} : Except Model.Linker.Err α → Except Err α
  | .ok a => .ok a
  | .error e => .error (ofLinkErr e)

/-- body of `for relocation in self.dst.relocations:` in `do_relaxations`; the symbol table and the
    section addresses are not touched by the loop, only section data is patched -/
def scanStep (o : Obj) (secs : List Section) (r : Reloc) : Except Err (List Section × Option Cand) := do
  let S ← liftL (getSymbolIdValue { o with sections := secs } r.symbolId)
  match getSec secs r.sect with
  | none => .error .KeyError
  | some sec =>
    let P := sec.address + r.offset
    match relocInfo r.typ with
    | none => .error .KeyError
    | some info =>
      match info.shrink with
      | none => .ok (secs, none)
      | some k =>
        let can ← canShrink S P
        if !can then .ok (secs, none)
        else
          let begin_ := r.offset
          let size := info.size
          let data := (sec.data.drop begin_).take size
          assert (data.length == size)
          -- do_shrink: the same two asserts (they hold), the patch, `data[:2]`
          let data2 := patch k data
          let newSize := data2.length
          assert (decide (newSize ≤ size))                       -- `assert 0 <= diff <= size`
          let diff := size - newSize
          let newEnd := begin_ + newSize
          assert (newEnd + newSize == begin_ + size)             -- `assert new_end + new_size == end`
          let secs' := updSec secs r.sect (fun s => { s with data := splice s.data begin_ data2 })
          .ok (secs', some { hole := (newEnd, diff), reloc := r })

def scan (o : Obj) : List Section → List Reloc → Except Err (List Section × List Cand)
  | secs, [] => .ok (secs, [])
  | secs, r :: rest =>
    match scanStep o secs r with
    | .error e => .error e
    | .ok (secs1, c) =>
      match scan o secs1 rest with
      | .error e => .error e
      | .ok (secs2, cs) => .ok (secs2, (match c with | some x => [x] | none => []) ++ cs)

/-- `list.remove(x)`: drop the first element equal to `x` (ValueError if there is none) -/
def removeFirst (r : Reloc) : List Reloc → Except Err (List Reloc)
  | [] => .error .ValueError
  | x :: rest =>
    if x == r then .ok rest
    else match removeFirst r rest with
      | .error e => .error e
      | .ok rest' => .ok (x :: rest')

/-- the loop `for hole, relocation, _, new_relocs in lst:` – relocation entries -/
def replaceRelocs : List Reloc → List Cand → Except Err (List Reloc)
  | rels, [] => .ok rels
  | rels, c :: cs =>
    match removeFirst c.reloc rels with
    | .error e => .error e
    | .ok rels1 =>
      if c.reloc.sect == "" then .error .AssertionError          -- `assert relocation.section`
      else replaceRelocs (rels1 ++ [{ c.reloc with typ := shrunkType }]) cs

/-! ### holes -/

/-- stable insertion: `h` goes in front of the first hole whose offset is not smaller -/
def insertHole (h : Hole) : List Hole → List Hole
  | [] => [h]
  | g :: rest => if h.1 ≤ g.1 then h :: g :: rest else g :: insertHole h rest

/-- `holes.sort(key=lambda x: x[0])` -/
def sortHoles : List Hole → List Hole
  | [] => []
  | h :: rest => insertHole h (sortHoles rest)

abbrev HoleMap := List (String × Hole)

/-- `hole_map[name]` after the sort -/
def holesOf (m : HoleMap) (n : String) : List Hole :=
  sortHoles ((m.filter (fun p => p.1 == n)).map (·.2))

/-- `count_holes(offset, holes)`: sizes of the leading holes with `hole_offset < offset` -/
def countHoles (offset : Nat) : List Hole → Nat
  | [] => 0
  | h :: rest => if h.1 < offset then h.2 + countHoles offset rest else 0

/-- `for _ in range(hole_size): data.pop(hole_offset)` -/
def popHole (data : List Nat) (h : Hole) : Except Err (List Nat) :=
  if h.1 + h.2 ≤ data.length then .ok (data.take h.1 ++ data.drop (h.1 + h.2))
  else .error .IndexError

/-- `for hole in reversed(holes): ...`: the LAST hole is removed first -/
def punch (data : List Nat) : List Hole → Except Err (List Nat)
  | [] => .ok data
  | h :: rest =>
    match punch data rest with
    | .error e => .error e
    | .ok d => popHole d h

def sub? (a d : Nat) : Except Err Nat := if d ≤ a then .ok (a - d) else .error .OutOfDomain

def shiftSymbol (m : HoleMap) (s : Symbol) : Except Err Symbol :=
  match s.sect with
  | none => .ok s                                               -- `if symbol.section is None: continue`
  | some n =>
    match s.value with
    | none => .error .TypeError                                 -- `None - delta` / `offset < None`
    | some v =>
      match sub? v (countHoles v (holesOf m n)) with
      | .error e => .error e
      | .ok v' => .ok { s with value := some v' }

def shiftSymbols (m : HoleMap) : List Symbol → Except Err (List Symbol)
  | [] => .ok []
  | s :: rest =>
    match shiftSymbol m s with
    | .error e => .error e
    | .ok s' =>
      match shiftSymbols m rest with
      | .error e => .error e
      | .ok r => .ok (s' :: r)

def shiftReloc (m : HoleMap) (r : Reloc) : Except Err Reloc :=
  if r.sect == "" then .error .AssertionError
  else match sub? r.offset (countHoles r.offset (holesOf m r.sect)) with
    | .error e => .error e
    | .ok o => .ok { r with offset := o }

def shiftRelocs (m : HoleMap) : List Reloc → Except Err (List Reloc)
  | [] => .ok []
  | r :: rest =>
    match shiftReloc m r with
    | .error e => .error e
    | .ok r' =>
      match shiftRelocs m rest with
      | .error e => .error e
      | .ok rs => .ok (r' :: rs)

def punchSection (m : HoleMap) (s : Section) : Except Err Section :=
  match punch s.data (holesOf m s.name) with
  | .error e => .error e
  | .ok d => .ok { s with data := d }

def punchSections (m : HoleMap) : List Section → Except Err (List Section)
  | [] => .ok []
  | s :: rest =>
    match punchSection m s with
    | .error e => .error e
    | .ok s' =>
      match punchSections m rest with
      | .error e => .error e
      | .ok r => .ok (s' :: r)

/-- `section_changes[name]` -/
def change (m : HoleMap) (n : String) : Nat := ((holesOf m n).map (·.2)).sum

/-- `for section in image.sections: section.address -= delta; delta += section_changes[section.name]` -/
def shiftImage (m : HoleMap) : List Section → Nat → List String → Except Err (List Section)
  | secs, _, [] => .ok secs
  | secs, delta, n :: rest =>
    match getSec secs n with
    | none => .error .OutOfDomain                               -- an image only holds existing sections
    | some sec =>
      match sub? sec.address delta with
      | .error e => .error e
      | .ok a => shiftImage m (updSec secs n (setAddress a)) (delta + change m n) rest

def shiftImages (m : HoleMap) : List Section → List Image → Except Err (List Section)
  | secs, [] => .ok secs
  | secs, img :: rest =>
    match shiftImage m secs 0 img.sections with
    | .error e => .error e
    | .ok secs1 => shiftImages m secs1 rest

/-- `Linker._apply_relaxation_holes(hole_map)` -/
def applyHoles (m : HoleMap) (o : Obj) : Except Err Obj := do
  let syms ← shiftSymbols m o.symbols
  let rels ← shiftRelocs m o.relocs
  let secs ← punchSections m o.sections
  let secs ← shiftImages m secs o.images
  .ok { o with sections := secs, symbols := syms, relocs := rels }

/-- `Linker.do_relaxations`; also returns the registered holes (`holes_map` before sorting) -/
def doRelaxations (o : Obj) : Except Err (Obj × HoleMap) := do
  let (secs, lst) ← scan o o.sections o.relocs
  if lst.isEmpty then .ok ({ o with sections := secs }, [])       -- "No linker relaxations found"
  else
    let rels ← replaceRelocs o.relocs lst
    let m : HoleMap := lst.map (fun c => (c.reloc.sect, c.hole))
    let o' ← applyHoles m { o with sections := secs, relocs := rels }
    .ok (o', m)

end Model.Relax
