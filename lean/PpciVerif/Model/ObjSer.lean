/-
Hand model (import-free) of ppci's object-file persistence:

  ppci/binutils/objectfile.py   serialize / deserialize            (`serialize`, `deserialize`)
  ppci/binutils/debuginfo.py    DictSerializer / DictDeserializer  (`serDebug`, `deDebug`)
  ppci/utils/binary_txt.py      bin2asc / asc2bin                  (`bin2asc`, `asc2bin`)
  ppci/common.py                make_num, builtin hex()            (`makeNum`, `pyHex`)
  ppci/binutils/archive.py      Archive.save / load                (`archiveSave`, `archiveLoad`)

Between the object record and a JSON *tree*.  JSON text <-> tree is Python's
`json` module and is not modelled (trusted).  Python `str` is `List Char`
(`PyStr`); dictionary keys of the file format are Lean `String` literals and are
only ever compared, never taken apart.  Pass-through fields (values the code
copies without looking at them) are kept as `Json` values.

Debug info is modelled at the record level: a debug type is identified by its
position in `DebugInfo.types` (Python: object identity), references are such
positions; a reference `≥ types.length` stands for a type object that is
referenced but was never registered with `add_type`.  `DictSerializer.get_type_id`
hands out ids in order of first visit — `seen : List Nat` is its `type_ids`
dictionary (id = index).  `DictDeserializer.get_type` is the recursive,
worklist-popping traversal `getType` (explicit fuel = recursion depth bound).

The model mirrors the code as it is at the pinned tree + the `fix:` commit that
added `"encoding"` / fprel `"size"`; it keeps the loader's KeyError on a type
cycle that is entered through a pointer or array (open finding).
Tied to the source by the correspondence check (harness/c14.py).
-/
namespace Model.ObjSer

abbrev PyStr := List Char

inductive Json where
  | null
  | bool (b : Bool)
  | num (n : Int)
  | str (s : PyStr)
  | arr (xs : List Json)
  | obj (kvs : List (String × Json))

inductive Err
  | KeyError | ValueError | TypeError | AttributeError | AssertionError | CompilerError
  | BinasciiError | UnicodeEncodeError | NotImplementedError
  | Unsupported      -- input outside the modelled fragment (never produced for tested inputs)
  | FuelExhausted    -- recursion-depth bound of `getType` hit (never happens: depth ≤ #types)
  deriving DecidableEq, Repr

def Err.name : Err → String
  | .KeyError => "KeyError" | .ValueError => "ValueError" | .TypeError => "TypeError"
  | .AttributeError => "AttributeError" | .AssertionError => "AssertionError"
  | .CompilerError => "CompilerError" | .BinasciiError => "Error"
  | .UnicodeEncodeError => "UnicodeEncodeError" | .NotImplementedError => "NotImplementedError"
  | .Unsupported => "Unsupported" | .FuelExhausted => "FuelExhausted"

/-- `mapM` in `Except`, structurally recursive (easy to reason about) -/
def mapE {α β : Type} (f : α → Except Err β) : List α → Except Err (List β)
  | [] => .ok []
  | a :: as => do
    let b ← f a
    let bs ← mapE f as
    pure (b :: bs)

/-- left fold in `Except` -/
def foldE {α σ : Type} (f : σ → α → Except Err σ) : σ → List α → Except Err σ
  | s, [] => .ok s
  | s, a :: as => do
    let s' ← f s a
    foldE f s' as

/-! ## numbers: builtin `hex()` and `ppci.common.make_num` -/

def hexDigit (n : Nat) : Char :=
  if n < 10 then Char.ofNat (48 + n) else Char.ofNat (87 + n)

/-- value of a digit character in `int(_, 16)` / `unhexlify` (either case) -/
def hexVal (c : Char) : Option Nat :=
  let n := c.toNat
  if 48 ≤ n ∧ n ≤ 57 then some (n - 48)
  else if 97 ≤ n ∧ n ≤ 102 then some (n - 87)
  else if 65 ≤ n ∧ n ≤ 70 then some (n - 55)
  else none

/-- digits of `hex(n)[2:]` for `n ≥ 0` -/
def natToHex (n : Nat) : List Char :=
  if n < 16 then [hexDigit n] else natToHex (n / 16) ++ [hexDigit (n % 16)]
termination_by n
decreasing_by omega

/-- builtin `hex(x)` -/
def pyHex (x : Int) : PyStr :=
  if x < 0 then '-' :: '0' :: 'x' :: natToHex (-x).toNat else '0' :: 'x' :: natToHex x.toNat

/-- digit-by-digit accumulation of `int(s, base)` on a plain digit string -/
def parseDigits (base : Nat) : Nat → List Char → Option Nat
  | acc, [] => some acc
  | acc, c :: cs =>
    match hexVal c with
    | some d => if d < base then parseDigits base (acc * base + d) cs else none
    | none => none

/-- `int(s, base)` for a string of plain digits (no sign, `_`, blanks); `ValueError` otherwise -/
def parseNat (base : Nat) (s : List Char) : Except Err Nat :=
  if s.isEmpty then .error .ValueError else
  match parseDigits base 0 s with
  | some n => .ok n
  | none => .error .ValueError

/-- result of `int(..)` / `-int(..)` as a Python int -/
def toInt (neg : Bool) : Except Err Nat → Except Err Int
  | .ok n => .ok (if neg then -(Int.ofNat n) else Int.ofNat n)
  | .error e => .error e

/-- `int(s)` : optional sign, decimal digits -/
def parseDec (s : List Char) : Except Err Int :=
  match s with
  | '-' :: rest => toInt true (parseNat 10 rest)
  | '+' :: rest => toInt false (parseNat 10 rest)
  | _ => toInt false (parseNat 10 s)

/-- `ppci.common.make_num` on a `str` -/
def makeNum (s : PyStr) : Except Err Int :=
  if ['0', 'x'].isPrefixOf s then toInt false (parseNat 16 (s.drop 2))
  else if ['-', '0', 'x'].isPrefixOf s then toInt true (parseNat 16 (s.drop 3))
  else if ['$'].isPrefixOf s then toInt false (parseNat 16 (s.drop 1))
  else if ['0', 'b'].isPrefixOf s then toInt false (parseNat 2 (s.drop 2))
  else if ['%'].isPrefixOf s then toInt false (parseNat 2 (s.drop 1))
  else parseDec s

/-- `make_num(j)` on a JSON value: `.startswith` exists on `str` only -/
def makeNumJ : Json → Except Err Int
  | .str s => makeNum s
  | _ => .error .AttributeError

/-! ## bytes: `binascii.hexlify/unhexlify`, `bin2asc`, `asc2bin` -/

def hexlify : List Nat → List Char
  | [] => []
  | b :: bs => hexDigit (b / 16 % 16) :: hexDigit (b % 16) :: hexlify bs

def unhexPairs : List Char → Except Err (List Nat)
  | [] => .ok []
  | [_] => .error .BinasciiError
  | a :: b :: rest =>
    match hexVal a, hexVal b with
    | some x, some y => do
      let r ← unhexPairs rest
      pure ((x * 16 + y) :: r)
    | _, _ => .error .BinasciiError

/-- `binascii.unhexlify(s.encode("ascii"))` -/
def unhexlify (s : PyStr) : Except Err (List Nat) :=
  if s.any (fun c => c.toNat ≥ 128) then .error .UnicodeEncodeError else unhexPairs s

/-- `ppci.utils.chunk.chunks(data, 30)` -/
def chunks (n : Nat) (xs : List Nat) : List (List Nat) :=
  if _h : xs = [] ∨ n = 0 then [] else xs.take n :: chunks n (xs.drop n)
termination_by xs.length
decreasing_by
  have : xs ≠ [] := fun e => _h (Or.inl e)
  have : 0 < xs.length := List.length_pos_iff.mpr this
  simp only [List.length_drop]; omega

def bin2asc (data : List Nat) : Json :=
  if data.length > 30 then .arr ((chunks 30 data).map (fun p => .str (hexlify p)))
  else .str (hexlify data)

def asc2binParts : List Json → Except Err (List Nat)
  | [] => .ok []
  | .str s :: rest => do
    let a ← unhexlify s
    let r ← asc2binParts rest
    pure (a ++ r)
  | _ :: _ => .error .AttributeError      -- part.encode on a non-str

def asc2bin : Json → Except Err (List Nat)
  | .str s => unhexlify s
  | .arr parts => asc2binParts parts
  | _ => .error .NotImplementedError

/-! ## JSON access -/

def lookup (k : String) : List (String × Json) → Option Json
  | [] => none
  | (k', v) :: rest => if k' = k then some v else lookup k rest

/-- `k in d` / `d.get(k)` for a dict -/
def Json.get? : Json → String → Option Json
  | .obj kvs, k => lookup k kvs
  | _, _ => none

/-- `d[k]` -/
def getKey (j : Json) (k : String) : Except Err Json :=
  match j with
  | .obj kvs => match lookup k kvs with
    | some v => .ok v
    | none => .error .KeyError
  | _ => .error .TypeError

def asArr : Json → Except Err (List Json)
  | .arr xs => .ok xs
  | _ => .error .Unsupported

def asStr : Json → Except Err PyStr
  | .str s => .ok s
  | _ => .error .Unsupported

def asOptStr : Json → Except Err (Option PyStr)
  | .str s => .ok (some s)
  | .null => .ok none
  | _ => .error .Unsupported

/-- builtin `int(v)` of a JSON value -/
def pyInt : Json → Except Err Int
  | .num n => .ok n
  | .bool b => .ok (if b then 1 else 0)
  | .str _ => .error .Unsupported
  | _ => .error .TypeError

def optStrJ : Option PyStr → Json
  | some s => .str s
  | none => .null

/-! ## the object record -/

structure Section where
  name : PyStr
  address : Int
  alignment : Int
  data : List Nat
  deriving DecidableEq

structure Symbol where
  id : Int
  name : PyStr
  binding : PyStr
  value : Option Int          -- `None` = undefined
  sect : Option PyStr         -- `section`; `None` = absolute (or undefined)
  typ : Json                  -- pass-through
  size : Json                 -- pass-through

structure Reloc where
  relocType : Json            -- pass-through
  symbolId : Int
  sect : PyStr                -- `section`
  offset : Int
  addend : Int

structure Image where
  name : PyStr
  address : Int
  sections : List Section

structure SrcLoc where
  filename : Json
  row : Json
  col : Json
  length : Json

inductive Addr
  | fixed (symbolId : Int)
  | fprel (offset : Json) (size : Json)     -- FpOffsetAddress(StackLocation(offset, size))
  | unknown

structure Field where
  name : Json
  typ : Nat
  offset : Json

inductive TypeDesc
  | base (name size encoding : Json)
  | struct (fields : List Field)
  | array (elem : Nat) (size : Int)
  | pointer (target : Nat)

structure DbgLoc where
  loc : SrcLoc
  address : Addr

structure DbgVar where
  name : Json
  typ : Nat
  loc : SrcLoc
  address : Addr

structure DbgParam where
  name : Json
  typ : Nat

structure DbgFunc where
  name : Json
  loc : SrcLoc
  returnType : Nat
  arguments : List DbgParam
  begin_ : Addr
  end_ : Addr
  variables : List DbgVar

structure DebugInfo where
  locations : List DbgLoc
  types : List TypeDesc
  variables : List DbgVar
  functions : List DbgFunc

structure Obj where
  arch : PyStr                       -- `arch.make_id_str()`; get_arch is not modelled
  entry : Option Int
  sections : List Section
  symbols : List Symbol
  relocations : List Reloc
  images : List Image
  debug : Option DebugInfo

structure Archive where
  objs : List Obj

/-! ## string constants of the format (explicit character lists: `decide`-friendly) -/
def kGlobal : PyStr := ['g', 'l', 'o', 'b', 'a', 'l']
def kFixed : PyStr := ['f', 'i', 'x', 'e', 'd']
def kFprel : PyStr := ['f', 'p', 'r', 'e', 'l']
def kUnknown : PyStr := ['u', 'n', 'k', 'n', 'o', 'w', 'n']
def kBase : PyStr := ['b', 'a', 's', 'e']
def kStruct : PyStr := ['s', 't', 'r', 'u', 'c', 't']
def kArray : PyStr := ['a', 'r', 'r', 'a', 'y']
def kPointer : PyStr := ['p', 'o', 'i', 'n', 't', 'e', 'r']

/-! ## debuginfo.DictSerializer -/

/-- position of the first occurrence (`= length` if absent) -/
def idx (t : Nat) : List Nat → Nat
  | [] => 0
  | x :: xs => if x = t then 0 else idx t xs + 1

/-- `if typ not in type_ids: type_ids[typ] = len(type_ids)` -/
def visit (seen : List Nat) (t : Nat) : List Nat :=
  if t ∈ seen then seen else seen ++ [t]

/-- `get_type_id` : returns the id and the updated dictionary -/
def getId (seen : List Nat) (t : Nat) : Json × List Nat :=
  (.num (idx t (visit seen t)), visit seen t)

def serSrc (l : SrcLoc) : Json :=
  .obj [("filename", l.filename), ("row", l.row), ("column", l.col), ("length", l.length)]

def serAddr : Addr → Json
  | .fixed sid => .obj [("kind", .str kFixed), ("symbol_id", .num sid)]
  | .fprel off size => .obj [("kind", .str kFprel), ("offset", off), ("size", size)]
  | .unknown => .obj [("kind", .str kUnknown)]

def serLocation (l : DbgLoc) : Json :=
  .obj [("source", serSrc l.loc), ("address", serAddr l.address)]

def serFields : List Field → List Nat → List Json × List Nat
  | [], seen => ([], seen)
  | f :: fs, seen =>
    let (i, s1) := getId seen f.typ
    let (js, s2) := serFields fs s1
    (.obj [("name", f.name), ("type", i), ("offset", f.offset)] :: js, s2)

/-- `serialize_type(typ)` where `typ` is the type object at position `p` -/
def serType (p : Nat) (t : TypeDesc) (seen : List Nat) : Json × List Nat :=
  let (i, s1) := getId seen p
  match t with
  | .base name size enc =>
    (.obj [("id", i), ("kind", .str kBase), ("name", name), ("size", size), ("encoding", enc)], s1)
  | .struct fields =>
    let (fs, s2) := serFields fields s1
    (.obj [("id", i), ("kind", .str kStruct), ("fields", .arr fs)], s2)
  | .array elem size =>
    let (e, s2) := getId s1 elem
    (.obj [("id", i), ("kind", .str kArray), ("element_type", e), ("size", .num size)], s2)
  | .pointer target =>
    let (e, s2) := getId s1 target
    (.obj [("id", i), ("kind", .str kPointer), ("pointed_type", e)], s2)

/-- `list(map(self.serialize_type, dbi.types))`, `p` = position of the head of the list -/
def serTypes : Nat → List TypeDesc → List Nat → List Json × List Nat
  | _, [], seen => ([], seen)
  | p, t :: ts, seen =>
    let (j, s1) := serType p t seen
    let (js, s2) := serTypes (p + 1) ts s1
    (j :: js, s2)

def serVar (v : DbgVar) (seen : List Nat) : Json × List Nat :=
  let address := serAddr v.address
  let (i, s1) := getId seen v.typ
  (.obj [("source", serSrc v.loc), ("name", v.name), ("type", i), ("address", address)], s1)

def serVars : List DbgVar → List Nat → List Json × List Nat
  | [], seen => ([], seen)
  | v :: vs, seen =>
    let (j, s1) := serVar v seen
    let (js, s2) := serVars vs s1
    (j :: js, s2)

def serArgs : List DbgParam → List Nat → List Json × List Nat
  | [], seen => ([], seen)
  | a :: as, seen =>
    let (i, s1) := getId seen a.typ
    let (js, s2) := serArgs as s1
    (.obj [("name", a.name), ("type", i)] :: js, s2)

def serFunc (f : DbgFunc) (seen : List Nat) : Json × List Nat :=
  let (args, s1) := serArgs f.arguments seen
  let (vars, s2) := serVars f.variables s1
  let (rt, s3) := getId s2 f.returnType
  (.obj [("source", serSrc f.loc), ("function_name", f.name), ("return_type", rt),
         ("arguments", .arr args), ("begin", serAddr f.begin_), ("end", serAddr f.end_),
         ("variables", .arr vars)], s3)

def serFuncs : List DbgFunc → List Nat → List Json × List Nat
  | [], seen => ([], seen)
  | f :: fs, seen =>
    let (j, s1) := serFunc f seen
    let (js, s2) := serFuncs fs s1
    (j :: js, s2)

/-- `DictSerializer().serialize(dbi)` -/
def serDebug (d : DebugInfo) : Json :=
  let locations := d.locations.map serLocation
  let (types, s1) := serTypes 0 d.types []
  let (variables, s2) := serVars d.variables s1
  let (functions, _) := serFuncs d.functions s2
  .obj [("locations", .arr locations), ("types", .arr types),
        ("variables", .arr variables), ("functions", .arr functions)]

/-! ## debuginfo.DictDeserializer -/

def readSrc (x : Json) : Except Err SrcLoc := do
  let filename ← getKey x "filename"
  let row ← getKey x "row"
  let col ← getKey x "column"
  let length ← getKey x "length"
  pure ⟨filename, row, col, length⟩

def readAddr (x : Json) : Except Err Addr := do
  let kind ← getKey x "kind"
  match kind with
  | .str k =>
    if k = kFixed then do
      let sid ← getKey x "symbol_id"
      match sid with
      | .num n => pure (.fixed n)
      | .bool _ => .error .Unsupported
      | _ => .error .ValueError            -- DebugAddress: "symbol_id must be int"
    else if k = kFprel then do
      let off ← getKey x "offset"
      let size := match x.get? "size" with     -- x.get("size", 1)
        | some s => s
        | none => .num 1
      pure (.fprel off size)
    else if k = kUnknown then pure .unknown
    else .error .NotImplementedError
  | _ => .error .NotImplementedError

def asTypeId : Json → Except Err Int
  | .num n => .ok n
  | _ => .error .Unsupported

def lookupId (i : Int) : List (Int × Json) → Option Json
  | [] => none
  | (k, v) :: rest => if k = i then some v else lookupId i rest

/-- state of the loader: ids popped from `type_worklist`, ids present in `self.types` -/
structure TState where
  popped : List Int
  cached : List Int

/-- `DictDeserializer.get_type(idx)`, only its effect on worklist/cache and its errors
    (the objects it builds are described by `convType` below).  `fuel` bounds the
    recursion depth. -/
def getType (wl : List (Int × Json)) : Nat → TState → Int → Except Err TState
  | 0, _, _ => .error .FuelExhausted
  | fuel + 1, st, i =>
    if i ∈ st.cached then .ok st
    else if i ∈ st.popped then .error .KeyError          -- type_worklist.pop(idx)
    else match lookupId i wl with
      | none => .error .KeyError
      | some t => do
        let st := { st with popped := i :: st.popped }
        let kind ← getKey t "kind"
        match kind with
        | .str k =>
          if k = kBase then do
            let _ ← getKey t "name"
            let _ ← getKey t "size"
            pure { st with cached := i :: st.cached }
          else if k = kStruct then do
            let st := { st with cached := i :: st.cached }
            let fields ← (getKey t "fields") >>= asArr
            foldE (fun st fj => do
              let _ ← getKey fj "name"
              let _ ← getKey fj "offset"
              let r ← (getKey fj "type") >>= asTypeId
              getType wl fuel st r) st fields
          else if k = kPointer then do
            let r ← (getKey t "pointed_type") >>= asTypeId
            let st ← getType wl fuel st r
            pure { st with cached := i :: st.cached }
          else if k = kArray then do
            let r ← (getKey t "element_type") >>= asTypeId
            let st ← getType wl fuel st r
            let size ← getKey t "size"
            match size with
            | .num _ => pure { st with cached := i :: st.cached }
            | .bool _ => .error .Unsupported
            | _ => .error .AssertionError             -- assert isinstance(size, int)
          else .error .NotImplementedError
        | _ => .error .NotImplementedError

/-- position (in the loaded `DebugInfo.types`) of the type object with id `i` -/
def idxI (i : Int) : List Int → Nat
  | [] => 0
  | x :: xs => if x = i then 0 else idxI i xs + 1

/-- `self.get_type(i)` once every listed type is loaded -/
def refOf (ids : List Int) (j : Json) : Except Err Nat := do
  let i ← asTypeId j
  if i ∈ ids then pure (idxI i ids) else .error .KeyError

/-- one `dt.add_field(name, field_typ, offset)` -/
def convField (ids : List Int) (fj : Json) : Except Err Field := do
  let name ← getKey fj "name"
  let offset ← getKey fj "offset"
  let r ← (getKey fj "type") >>= refOf ids
  pure ⟨name, r, offset⟩

/-- the record of the type object built for one entry of `x["types"]` -/
def convType (ids : List Int) (t : Json) : Except Err TypeDesc := do
  let kind ← getKey t "kind"
  match kind with
  | .str k =>
    if k = kBase then do
      let name ← getKey t "name"
      let size ← getKey t "size"
      let enc := match t.get? "encoding" with      -- t.get("encoding", 1)
        | some e => e
        | none => .num 1
      pure (.base name size enc)
    else if k = kStruct then do
      let fields ← (getKey t "fields") >>= asArr
      let fs ← mapE (convField ids) fields
      pure (.struct fs)
    else if k = kPointer then do
      let r ← (getKey t "pointed_type") >>= refOf ids
      pure (.pointer r)
    else if k = kArray then do
      let r ← (getKey t "element_type") >>= refOf ids
      let size ← getKey t "size"
      match size with
      | .num n => pure (.array r n)
      | _ => .error .Unsupported
    else .error .NotImplementedError
  | _ => .error .NotImplementedError

def readVar (ids : List Int) (v : Json) : Except Err DbgVar := do
  let name ← getKey v "name"
  let loc ← (getKey v "source") >>= readSrc
  let typ ← (getKey v "type") >>= refOf ids
  let address ← (getKey v "address") >>= readAddr
  pure ⟨name, typ, loc, address⟩

def readParam (ids : List Int) (v : Json) : Except Err DbgParam := do
  let name ← getKey v "name"
  let typ ← (getKey v "type") >>= refOf ids
  pure ⟨name, typ⟩

def readFunc (ids : List Int) (f : Json) : Except Err DbgFunc := do
  let loc ← (getKey f "source") >>= readSrc
  let rt ← (getKey f "return_type") >>= refOf ids
  let args ← (getKey f "arguments") >>= asArr >>= mapE (readParam ids)
  let b ← (getKey f "begin") >>= readAddr
  let e ← (getKey f "end") >>= readAddr
  let vars ← (getKey f "variables") >>= asArr >>= mapE (readVar ids)
  let name ← getKey f "function_name"
  pure ⟨name, loc, rt, args, b, e, vars⟩

def readLocation (l : Json) : Except Err DbgLoc := do
  let loc ← (getKey l "source") >>= readSrc
  let address ← (getKey l "address") >>= readAddr
  pure ⟨loc, address⟩

def typeEntry (t : Json) : Except Err (Int × Json) := do
  let i ← (getKey t "id") >>= asTypeId
  pure (i, t)

/-- the `get_type` traversal over `x["types"]` in list order -/
def loadTypes (wl : List (Int × Json)) : Except Err TState :=
  foldE (fun st (e : Int × Json) => getType wl (wl.length + 2) st e.1) ⟨[], []⟩ wl

/-- `DictDeserializer().deserialize(x)` -/
def deDebug (x : Json) : Except Err DebugInfo := do
  let locations ← (getKey x "locations") >>= asArr >>= mapE readLocation
  let typesJ ← (getKey x "types") >>= asArr
  let wl ← mapE typeEntry typesJ
  let ids := wl.map (·.1)
  if ¬ ids.Nodup then .error .Unsupported else      -- duplicate ids: dict collapse not modelled
  let _ ← loadTypes wl
  let types ← mapE (convType ids) typesJ
  let variables ← (getKey x "variables") >>= asArr >>= mapE (readVar ids)
  let functions ← (getKey x "functions") >>= asArr >>= mapE (readFunc ids)
  pure ⟨locations, types, variables, functions⟩

/-- Does the loader's `get_type` traversal accept the type table that `serDebug d` writes?
    (`false` exactly when loading the saved debug info raises `KeyError` from
    `type_worklist.pop`: a type cycle entered through a pointer or array — the open finding.) -/
def loadable (d : DebugInfo) : Bool :=
  match mapE typeEntry (serTypes 0 d.types []).1 with
  | .ok wl => match loadTypes wl with
    | .ok _ => true
    | .error _ => false
  | .error _ => false

/-! ## objectfile.serialize -/

def serSection (s : Section) : Json :=
  .obj [("name", .str s.name), ("address", .str (pyHex s.address)),
        ("data", bin2asc s.data), ("alignment", .str (pyHex s.alignment))]

def serSymbol (s : Symbol) : Json :=
  .obj ([("id", .num s.id), ("name", .str s.name), ("binding", .str s.binding)]
        ++ (match s.value with
            | some v => [("value", .str (pyHex v)), ("section", optStrJ s.sect)]
            | none => [])
        ++ [("typ", s.typ), ("size", s.size)])

def serReloc (r : Reloc) : Json :=
  .obj [("symbol_id", .num r.symbolId), ("type", r.relocType), ("section", .str r.sect),
        ("offset", .str (pyHex r.offset)), ("addend", .str (pyHex r.addend))]

def serImage (i : Image) : Json :=
  .obj [("name", .str i.name), ("address", .str (pyHex i.address)),
        ("sections", .arr (i.sections.map (fun s => .str s.name)))]

/-- `ObjectFile.serialize()` -/
def serialize (o : Obj) : Json :=
  .obj ([("sections", .arr (o.sections.map serSection)),
         ("symbols", .arr (o.symbols.map serSymbol)),
         ("relocations", .arr (o.relocations.map serReloc)),
         ("images", .arr (o.images.map serImage))]
        ++ (match o.debug with
            | some d => [("debug", serDebug d)]
            | none => [])
        ++ [("arch", .str o.arch)]
        ++ (match o.entry with
            | some e => [("entry_symbol_id", .num e)]
            | none => []))

/-! ## objectfile.deserialize -/

def deSection (j : Json) : Except Err Section := do
  let name ← (getKey j "name") >>= asStr
  let address ← (getKey j "address") >>= makeNumJ
  let data ← (getKey j "data") >>= asc2bin
  let alignment ← (getKey j "alignment") >>= makeNumJ
  pure ⟨name, address, alignment, data⟩

/-- `section_map[name]` after all `add_section` calls: the last section with that name -/
def lookupSec : List Section → PyStr → Option Section
  | [], _ => none
  | s :: rest, n =>
    match lookupSec rest n with
    | some r => some r
    | none => if s.name = n then some s else none

def deReloc (secs : List Section) (j : Json) : Except Err Reloc := do
  let typ ← getKey j "type"
  let sid ← (getKey j "symbol_id") >>= pyInt
  let sect ← (getKey j "section") >>= asStr
  let offset ← (getKey j "offset") >>= makeNumJ
  let addend ← (getKey j "addend") >>= makeNumJ
  if (lookupSec secs sect).isNone then .error .AssertionError   -- assert self.has_section(..)
  else pure ⟨typ, sid, sect, offset, addend⟩

def deSymbol (j : Json) : Except Err Symbol := do
  let (value, sect) ← (match j.get? "value" with
    | some v => do
      let value ← makeNumJ v
      let sect ← (getKey j "section") >>= asOptStr
      pure (some value, sect)
    | none => (match j with
      | .obj _ => pure (none, none)
      | _ => .error .Unsupported) : Except Err (Option Int × Option PyStr))
  let id ← (getKey j "id") >>= pyInt
  let name ← (getKey j "name") >>= asStr
  let binding ← (getKey j "binding") >>= asStr
  let typ ← getKey j "typ"
  let size ← getKey j "size"
  pure ⟨id, name, binding, value, sect, typ, size⟩

/-- the `add_symbol` calls of the loader: duplicate global name → CompilerError,
    duplicate id → AssertionError -/
def addSymbols : List Json → List Symbol → Except Err (List Symbol)
  | [], acc => .ok acc
  | j :: rest, acc => do
    let s ← deSymbol j
    if s.binding = kGlobal ∧ acc.any (fun t => decide (t.binding = kGlobal ∧ t.name = s.name)) then
      .error .CompilerError
    else if acc.any (fun t => decide (t.id = s.id)) then .error .AssertionError
    else addSymbols rest (acc ++ [s])

/-- `assert obj.has_section(section_name)`; `obj.get_section(section_name)` -/
def resolveSection (secs : List Section) (nj : Json) : Except Err Section := do
  let n ← asStr nj
  match lookupSec secs n with
  | some s => pure s
  | none => .error .AssertionError

def deImage (secs : List Section) (j : Json) : Except Err Image := do
  let name ← (getKey j "name") >>= asStr
  let address ← (getKey j "address") >>= makeNumJ
  let names ← (getKey j "sections") >>= asArr
  let sections ← mapE (resolveSection secs) names
  pure ⟨name, address, sections⟩

/-- `objectfile.deserialize(data)` -/
def deserialize (data : Json) : Except Err Obj := do
  let arch ← (getKey data "arch") >>= asStr
  let entry ← (match data.get? "entry_symbol_id" with
    | none => pure none
    | some (.num n) => pure (some n)
    | some .null => pure none
    | some _ => .error .Unsupported : Except Err (Option Int))
  let sections ← (getKey data "sections") >>= asArr >>= mapE deSection
  let relocations ← (getKey data "relocations") >>= asArr >>= mapE (deReloc sections)
  let symsJ ← (getKey data "symbols") >>= asArr
  let symbols ← addSymbols symsJ []
  let images ← (getKey data "images") >>= asArr >>= mapE (deImage sections)
  let debug ← (match data.get? "debug" with
    | some d => (deDebug d).map some
    | none => pure none : Except Err (Option DebugInfo))
  pure ⟨arch, entry, sections, symbols, relocations, images, debug⟩

/-! ## archive.Archive.save / load (tree level) -/

def archiveSave (a : Archive) : Json :=
  .obj [("objects", .arr (a.objs.map serialize))]

def archiveLoad (d : Json) : Except Err Archive := do
  let objs ← (getKey d "objects") >>= asArr >>= mapE deserialize
  pure ⟨objs⟩

end Model.ObjSer
