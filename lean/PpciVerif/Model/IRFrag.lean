import PpciVerif.Model.IRText
/-!
# Model.IRFrag — the explicitly delimited fragments of the round-trip theorems (C15, C16)

`fragCore m`  : what both file formats need of a module (every conjunct is a Boolean check):

* names are unambiguous: module-level names pairwise distinct; per function the parameters
  and instruction values pairwise distinct, block names and instruction values pairwise
  distinct (`make_unique_name` never has to rename), **no value of a function has the name
  of a module-level value** (the formats refer to values by bare name: name capture, open
  finding), every operand names a value of its function / of the module, every block
  reference names a block of the function;
* the constructor checks of `ppci/ir.py` hold (`typedOk`): operand types of binop / unop / phi,
  `ptr` addresses and callees, blob source of `&`, non-zero `alloc`, and the type recorded
  for a `store` is the type of the stored value (every module built through `ppci.ir`
  satisfies these);
* a block has no instruction after a terminator, the entry is the first block, phi inputs
  have distinct blocks, byte strings are bytes;
* no inline assembly (open finding: neither format can express it).

`fragText fmt m` adds what the *text* format needs: identifiers that the tokenizer reads as
one ID token, and float constants whose printed form `fmt b` is ASCII and is read as one token (a FLOAT
literal, or the quoted string of `float 'inf'` / `float 'nan'`).
-/
namespace Model.IRFrag
open Spec.IR Model.IRBuild Model.IRText

def nodupB : List String → Bool
  | [] => true
  | x :: r => !r.contains x && nodupB r

def isByte (b : Nat) : Bool := b < 256

def instrDsts (is : List Instr) : List (String × Ty) := is.filterMap Instr.dst?

def Func.instrs (f : Func) : List Instr := f.blocks.flatMap (·.instrs)

/-- the values of a function with their types: parameters, then instruction values in text order -/
def Func.env (f : Func) : TyEnv := f.params ++ instrDsts (Func.instrs f)

def tyOf (globals : List String) (env : TyEnv) : Operand → Option Ty
  | .loc x => lookupTy env x
  | .glob g => if globals.contains g then some .ptr else none

/-- all operands of an instruction, phi inputs included -/
def operands : Instr → List Operand
  | .phi _ _ ins => ins.map (·.2)
  | i => i.uses

/-- block names an instruction refers to -/
def blockRefsOf : Instr → List String
  | .phi _ _ ins => ins.map (·.1)
  | i => i.targets

/-- the checks of the `ppci/ir.py` constructors -/
def typedOk (globals : List String) (env : TyEnv) : Instr → Bool
  | .alloc _ s _ => s != 0
  | .addrof _ s => (match tyOf globals env s with | some t => t.isBlob | none => false)
  | .binop _ ty _ a b => tyOf globals env a == some ty && tyOf globals env b == some ty
  | .unop _ ty _ a => tyOf globals env a == some ty
  | .load _ ty a _ => tyOf globals env a == some .ptr && !ty.isBlob
  | .store ty v a _ => tyOf globals env v == some ty && tyOf globals env a == some .ptr
  | .phi _ ty ins => ins.all (fun p => tyOf globals env p.2 == some ty)
  | .fcall _ _ c _ => tyOf globals env c == some .ptr
  | .pcall c _ => tyOf globals env c == some .ptr
  | .literal _ data => data.all isByte
  | .asm .. => false
  | _ => true

def noEarlyTerminator : List Instr → Bool
  | [] => true
  | [_] => true
  | i :: r => !i.isTerminator && noEarlyTerminator r

def funcCore (globals : List String) (f : Func) : Bool :=
  let env := Func.env f
  let is := Func.instrs f
  let dsts := (instrDsts is).map (·.1)
  let bnames := f.blocks.map (·.name)
  nodupB (env.map (·.1)) &&
  nodupB (bnames ++ dsts) &&
  (env.map (·.1)).all (fun x => !globals.contains x) &&
  is.all (fun i => (operands i).all (fun o => (tyOf globals env o).isSome)) &&
  is.all (fun i => (blockRefsOf i).all bnames.contains) &&
  is.all (typedOk globals env) &&
  f.blocks.all (fun b => noEarlyTerminator b.instrs) &&
  (f.blocks.head?.map (·.name)) == some f.entry &&
  is.all (fun i => nodupB (i.phiIns.map (·.1)))

def initOk : Option (List InitPart) → Bool
  | none => true
  | some ps => ps.all (fun p => match p with | .bytes bs => bs.all isByte | .ref _ => true)

def fragCore (m : Module) : Bool :=
  let globals := m.globalNames
  nodupB globals && m.vars.all (fun v => initOk v.init) && m.funcs.all (funcCore globals)

/-! ## the text format -/

def identOk (s : String) : Bool :=
  match s.toList with
  | [] => false
  | c :: r => isIdStart c && r.all isIdChar

/-- `cs` is read as exactly one FLOAT token (it is always followed by `;` in a printed module) -/
def floatLexOk (cs : List Char) : Bool :=
  match lexOne (cs ++ [';']) with
  | .tok (.flt s) [';'] => s == String.ofList cs
  | _ => false

def assignKeywords : List String :=
  ["phi", "alloc", "load", "cast", "call", "literal", "volatile", "undefined", "float"]

/-- the printed form of a float constant is ASCII and is read back as one token: a FLOAT literal, or (inf, nan)
    a quoted string -/
def floatTextOk (fmt : Nat → List Char) (b : Nat) : Bool :=
  (fmt b).all (fun c => decide (c.toNat < 128)) &&
    (if nonFinite b then (fmt b).all isStrChar else floatLexOk (fmt b))

def instrText (fmt : Nat → List Char) : Instr → Bool
  | .const _ _ (.fbits b) => floatTextOk fmt b
  | _ => true

def instrNames (i : Instr) : List String :=
  (match i.dst? with | some (d, _) => [d] | none => []) ++ (operands i).map opName ++ blockRefsOf i

def funcText (fmt : Nat → List Char) (f : Func) : Bool :=
  identOk f.name && f.params.all (fun p => identOk p.1) &&
  f.blocks.all (fun b => identOk b.name &&
    b.instrs.all (fun i => (instrNames i).all identOk && instrText fmt i))

def initText : Option (List InitPart) → Bool
  | none => true
  | some ps => ps.all (fun p => match p with | .bytes _ => true | .ref n => identOk n)

def fragText (fmt : Nat → List Char) (m : Module) : Bool :=
  fragCore m && identOk m.name && m.externs.all (fun e => identOk e.name) &&
  m.vars.all (fun v => identOk v.name && initText v.init) && m.funcs.all (funcText fmt)

/-- the reasons (in words) why a module is outside the text fragment: for the harness -/
def fragReport (fmt : Nat → List Char) (m : Module) : List String :=
  let globals := m.globalNames
  (if nodupB globals then [] else ["global-names"]) ++
  (if m.vars.all (fun v => initOk v.init) then [] else ["init-bytes"]) ++
  (m.funcs.flatMap (fun f =>
    let env := Func.env f
    let is := Func.instrs f
    let dsts := (instrDsts is).map (·.1)
    let bnames := f.blocks.map (·.name)
    (if nodupB (env.map (·.1)) && nodupB (bnames ++ dsts) then [] else ["local-names"]) ++
    (if (env.map (·.1)).all (fun x => !globals.contains x) then [] else ["name-capture"]) ++
    (if is.all (fun i => (operands i).all (fun o => (tyOf globals env o).isSome)) then [] else ["dangling-operand"]) ++
    (if is.all (fun i => (blockRefsOf i).all bnames.contains) then [] else ["dangling-block"]) ++
    (if is.any (fun i => match i with | .asm .. => true | _ => false) then ["inline-asm"] else []) ++
    (if is.all (fun i => (match i with | .asm .. => true | _ => typedOk globals env i)) then [] else ["types"]) ++
    (if f.blocks.all (fun b => noEarlyTerminator b.instrs) then [] else ["early-terminator"]) ++
    (if (f.blocks.head?.map (·.name)) == some f.entry then [] else ["entry"]) ++
    (if is.all (fun i => nodupB (i.phiIns.map (·.1))) then [] else ["phi-keys"]) ++
    (if is.all (fun i => match i with | .const _ _ (.fbits b) => floatTextOk fmt b | _ => true) then []
     else ["float-text"]) ++
    (if identOk f.name && f.params.all (fun p => identOk p.1) &&
        f.blocks.all (fun b => identOk b.name && b.instrs.all (fun i => (instrNames i).all identOk)) then []
     else ["identifier"]))) ++
  (if identOk m.name && m.externs.all (fun e => identOk e.name) &&
      m.vars.all (fun v => identOk v.name && initText v.init) then [] else ["identifier"])

/-! ## the module as the text reader rebuilds it: phi inputs in the order of the text -/

def keyOf (q : String × Operand) : String × String := (q.1, opName q.2)

def insertIn (q : String × Operand) : List (String × Operand) → List (String × Operand)
  | [] => [q]
  | p :: r => if pairLe (keyOf q) (keyOf p) then q :: p :: r else p :: insertIn q r

/-- `pairs.sort()` of `Phi.__str__`, on the inputs themselves -/
def sortIns : List (String × Operand) → List (String × Operand)
  | [] => []
  | q :: r => insertIn q (sortIns r)

def normPhiInstr : Instr → Instr
  | .phi d ty ins => .phi d ty (sortIns ins)
  | i => i

def normPhiBlock (b : Block) : Block := { b with instrs := b.instrs.map normPhiInstr }
def normPhiFunc (f : Func) : Func := { f with blocks := f.blocks.map normPhiBlock }

/-- `m` with the inputs of every phi sorted by (block name, value name) -/
def normPhi (m : Module) : Module := { m with funcs := m.funcs.map normPhiFunc }

end Model.IRFrag
