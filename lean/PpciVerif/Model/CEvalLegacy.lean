import PpciVerif.Model.CEval
/-!
The C constant-expression code **before** the `fix:` commits 4536e8c / 21f7d05
(ppci/lang/c/eval.py, context.py, semantics.py at 4e7434c), kept only for the
negation witnesses of `Props/C27.lean` and `Props/C28.lean`.

`eval`     the old `ConstantExpressionEvaluator`: no `TernaryOperator` branch, unary
           table `- ~` only, binary table `+ - * / >> << | & ^` with `/` = Python
           floor division, no conversion of any result or cast to its type;
`pack`     the old `CContext.pack`: `struct.pack` of the unconverted value;
`elaborate` the old typing: no promotion for unary `- ~ +` and comparisons, shifts
           typed by the common type, `get_common_type` = higher `basic_ranks`,
           `?:` condition coerced to `int`, arms not promoted, character constants
           of type `char` with the raw code, unsuffixed constants
           `int, unsigned, long, unsigned long, long long, unsigned long long`
           regardless of the base, suffixed constants of exactly the suffix type.
-/
namespace Model.CEvalLegacy
open Model.CEval

def pack (τ : Ty) (value : Int) : Except Err (List Nat) :=
  match fmtInfo τ.fmt with
  | some (s, sg) => if τ.size ≠ s then .error .AssertionError else structPack s sg value
  | none => .error .KeyError

def eval : TExpr → Except Err Int
  | .num _ v => .ok v
  | .chr _ v => .ok v
  | .cast _ a => eval a                                   -- `value = int(value)`
  | .tern _ _ _ _ => .error .NotImplementedError          -- no branch for TernaryOperator
  | .un op _ a =>
      if op = .minus then do let x ← eval a; pure (-x)
      else if op = .tilde then do let x ← eval a; pure (-x - 1)
      else .error .NotImplementedError
  | .bin op _ a b => do
      let lhs ← eval a
      let rhs ← eval b
      match op with
      | .plus => pure (lhs + rhs)
      | .minus => pure (lhs - rhs)
      | .star => pure (lhs * rhs)
      | .slash => if rhs = 0 then .error .ZeroDivisionError else pure (Int.fdiv lhs rhs)   -- x // y
      | .shr => if rhs < 0 then .error .ValueError else pure (lhs / 2 ^ rhs.toNat)
      | .shl => if rhs < 0 then .error .ValueError else pure (lhs * 2 ^ rhs.toNat)
      | .bar => pure (PyOr lhs rhs)
      | .amp => pure (PyAnd lhs rhs)
      | .caret => pure (PyXor lhs rhs)
      | _ => .error .KeyError                             -- op_map[op]

def commonType (t1 t2 : Ty) : Ty := if t1.rank ≥ t2.rank then t1 else t2   -- max(.., key=rank), first wins ties

def promote (e : TExpr) : TExpr := if e.ty.isPromotable then coerce e .int else e

def onNumber (unsigned : Bool) (longs : Nat) (v : Nat) : Except Err TExpr :=
  let τ : Ty :=
    if unsigned || longs != 0 then
      (match unsigned, longs with
       | false, 1 => .long | false, _ => .llong
       | true, 0 => .uint | true, 1 => .ulong | true, _ => .ullong)
    else if (v : Int) ≤ limitMax .int then .int
    else if (v : Int) ≤ limitMax .uint then .uint
    else if (v : Int) ≤ limitMax .long then .long
    else if (v : Int) ≤ limitMax .ulong then .ulong
    else if (v : Int) ≤ limitMax .llong then .llong
    else .ullong
  if (v : Int) > limitMax τ then .error .CompilerError else .ok (.num τ v)

def arithOperands (a b : TExpr) : Ty × TExpr × TExpr :=
  let a := promote a
  let b := promote b
  let τ := commonType a.ty b.ty
  (τ, coerce a τ, coerce b τ)

def onBinop (op : Sym) (a b : TExpr) : Except Err TExpr :=
  match op with
  | .oror | .andand => .ok (.bin op .int a b)
  | .comma => .ok (.bin op b.ty a b)
  | .lt | .gt | .eqeq | .ne | .le | .ge =>
    let τ := commonType a.ty b.ty
    .ok (.bin op .int (coerce a τ) (coerce b τ))
  | .tilde | .bang => .error .NotImplementedError
  | _ => let (τ, a, b) := arithOperands a b; .ok (.bin op τ a b)

def onUnop (op : Sym) (a : TExpr) : Except Err TExpr :=
  match op with
  | .minus | .tilde => .ok (.un op a.ty a)
  | .plus => .ok a
  | .bang => .ok (.un op .int a)
  | .star | .amp => .error .CompilerError
  | _ => .error .NotImplementedError

def onTernop (c a b : TExpr) : TExpr :=
  let τ := commonType a.ty b.ty
  .tern τ (coerce c .int) (coerce a τ) (coerce b τ)

def elaborate : Src → Except Err TExpr
  | .num _ u l v => onNumber u l v
  | .chr v => .ok (.chr .char v)
  | .un op a => do let a ← elaborate a; onUnop op a
  | .bin op a b => do let a ← elaborate a; let b ← elaborate b; onBinop op a b
  | .tern c a b => do let c ← elaborate c; let a ← elaborate a; let b ← elaborate b; pure (onTernop c a b)
  | .cast τ a => do let a ← elaborate a; pure (.cast τ a)

def initializer (τ : Ty) (s : Src) : Except Err (List Nat) := do
  let t ← elaborate s
  let v ← eval (coerce t τ)
  pack τ v

end Model.CEvalLegacy
