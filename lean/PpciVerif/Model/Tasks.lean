/-
Hand model of the build runner's target ordering in ppci/build/tasks.py
(import-free), as it is AFTER the `fix:` commit recorded in findings/C34.json.
The code as it was before (shared DFS `state`, `list.sort()` on a partial
order) is modelled in `Model/TasksLegacy.lean` together with the witnesses
that made the fix necessary.

Python                                   Lean
---------------------------------------  -----------------------------------------
target name (str)                        `Nat` = rank of the name in sorted order
`Project.targets` (dict name→Target)     `Graph` = assoc list  name ↦ dependencies,
 + `Target.dependencies` (set of names)   each dependency list in the order the code
                                          iterates it: `sorted(target.dependencies)`
`get_target` raising TaskError            `List.lookup … = none` ↦ `Err.notFound`
`state` (set: targets on the DFS path)   `stack : List Nat`  (add on entry, remove on
                                          exit = passing `d :: stack` down)
`done` (list, `done.append(name)`)       `done : List Nat` NEWEST FIRST; the
                                          sequence that is run is `done.reverse`

    def dfs(self, target_name, state, done):
        state.add(target_name)
        target = self.get_target(target_name)
        for dep in sorted(target.dependencies):
            if dep in state:
                raise TaskError("Dependency loop detected …")
            if dep not in done:
                self.dfs(dep, state, done)
        state.remove(target_name)
        done.append(target_name)

    def target_sequence(self, target_names):
        done = []
        for target_name in target_names:
            if target_name not in done:
                self.dfs(target_name, set(), done)
        return done

`visit g ds stack done` is the `for dep in …` loop over the remaining
dependencies `ds` with the recursive call `self.dfs(dep, …)` inlined
(`state.add`, `get_target`, the callee's own loop, `state.remove`,
`done.append`).  The loop of `target_sequence` over the requested names is the
same loop with an empty `state` (a fresh `set()` per requested target, in which
nothing can be found), hence `targetSequence g req = visit g req [] []`.
Termination is a proof obligation (well-founded recursion): the path `stack`
grows inside the set of existing targets.
Tied to the source by the correspondence check (harness/c34.py).
-/
namespace Model.Tasks

/-- `TaskError` with the two messages that can come out of the ordering code. -/
inductive Err
  | loop        -- TaskError("Dependency loop detected a -> b")
  | notFound    -- TaskError('target "x" not found')   (Project.get_target)
  deriving Repr, DecidableEq

def Err.name : Err → String
  | .loop => "TaskError:loop" | .notFound => "TaskError:notfound"

/-- target ↦ dependencies (in iteration order of the code, i.e. sorted by name) -/
abbrev Graph := List (Nat × List Nat)

/-! ### termination measure: existing targets that are not on the current path -/

theorem filter_len_le (p q : Nat → Bool) (hpq : ∀ k, p k = true → q k = true) (l : List Nat) :
    (l.filter p).length ≤ (l.filter q).length := by
  induction l with
  | nil => simp
  | cons a l ih =>
    simp only [List.filter_cons]
    cases hp : p a <;> cases hq : q a <;> simp <;> try omega
    have := hpq a hp; simp [hq] at this

theorem filter_len_lt (p q : Nat → Bool) (hpq : ∀ k, p k = true → q k = true) (l : List Nat)
    (d : Nat) (hd : d ∈ l) (hqd : q d = true) (hpd : p d = false) :
    (l.filter p).length < (l.filter q).length := by
  induction l with
  | nil => simp at hd
  | cons a l ih =>
    have hle := filter_len_le p q hpq l
    simp only [List.filter_cons]
    rcases List.mem_cons.mp hd with rfl | hd'
    · simp [hqd, hpd]; omega
    · have := ih hd'
      cases hp : p a <;> cases hq : q a <;> simp <;> try omega
      have := hpq a hp; simp [hq] at this

theorem mem_keys_of_lookup (g : Graph) (d : Nat) (ds : List Nat)
    (h : g.lookup d = some ds) : d ∈ g.map Prod.fst := by
  induction g with
  | nil => simp [List.lookup] at h
  | cons kv g ih =>
    obtain ⟨k, v⟩ := kv
    simp only [List.lookup] at h
    by_cases hk : d = k
    · simp [hk]
    · have : (d == k) = false := by simp [hk]
      simp [this] at h
      simp [ih h]

/-- number of existing targets that are not on the current DFS path -/
def room (g : Graph) (stack : List Nat) : Nat :=
  ((g.map Prod.fst).filter (fun k => decide (k ∉ stack))).length

theorem room_lt (g : Graph) (stack : List Nat) (d : Nat) (ds : List Nat)
    (hl : g.lookup d = some ds) (hs : ¬ d ∈ stack) : room g (d :: stack) < room g stack := by
  unfold room
  apply filter_len_lt _ _ _ _ d (mem_keys_of_lookup g d ds hl)
  · simpa using hs
  · simp
  · intro k; simp

/-- The dependency loop of `Project.dfs`, with the recursive call inlined.
    `ds` : dependencies still to be looked at, `stack` : targets on the current
    path (`state`), `done` : finished targets, newest first. -/
def visit (g : Graph) (ds : List Nat) (stack done : List Nat) : Except Err (List Nat) :=
  match ds with
  | [] => .ok done
  | d :: rest =>
    if _hs : d ∈ stack then .error .loop                 -- if dep in state: raise TaskError(loop)
    else if d ∈ done then visit g rest stack done        -- if dep not in done:
    else
      match _hl : g.lookup d with                        --   self.dfs(dep, …): get_target(dep)
      | none => .error .notFound
      | some ds' =>
        match visit g ds' (d :: stack) done with         --   its own loop, with dep on the path
        | .error e => .error e
        | .ok done1 => visit g rest stack (d :: done1)   --   done.append(dep); next dependency
termination_by (room g stack, ds.length)
decreasing_by
  · exact Prod.Lex.right _ (by simp)
  · exact Prod.Lex.left _ _ (room_lt g stack d ds' _hl _hs)
  · exact Prod.Lex.right _ (by simp)

/-- `Project.target_sequence(target_names)`; the result is in execution order. -/
def targetSequence (g : Graph) (req : List Nat) : Except Err (List Nat) :=
  (visit g req [] []).map List.reverse

/-- `Project.check_target(name)`: only the verdict of `target_sequence([name])`. -/
def checkTarget (g : Graph) (t : Nat) : Except Err Unit :=
  (targetSequence g [t]).map (fun _ => ())

/-- `TaskRunner.run(project, targets)` as far as the order of execution goes:
    the names of the targets whose tasks are run, in order, for a non-empty
    `targets` argument (`project.default` is not modelled; the later
    `get_target` of every name of the sequence cannot fail). -/
def run (g : Graph) (req : List Nat) : Except Err (List Nat) :=
  targetSequence g req

/-! ### histories: several builds (and edits) on ONE `Project` object

`Project`/`TaskRunner` keep no state between calls besides the targets and
their dependency sets: `state` and `done` are locals of `target_sequence`, the
runner has only a logger.  So a `Project` object is modelled by its `Graph`,
`add_target` / `add_dependency` change it, `run` / `check_target` read it. -/

inductive Op
  | addTarget (t : Nat) (ds : List Nat)     -- Project.add_target(Target t with dependencies ds, sorted)
  | addDependency (t d : Nat)               -- project.targets[t].add_dependency(d)
  | run (req : List Nat)                    -- TaskRunner.run(project, req)   (same runner object every time)
  | checkTarget (t : Nat)                   -- project.check_target(t)
  deriving Repr

inductive Out
  | done                                    -- returned None
  | duplicate                               -- TaskError("Duplicate target …")
  | ran (r : Except Err (List Nat))
  | checked (r : Except Err Unit)

/-- `set.add` on a set that is iterated in sorted order -/
def insertSorted (d : Nat) : List Nat → List Nat
  | [] => [d]
  | x :: xs => if d < x then d :: x :: xs else if d = x then x :: xs else x :: insertSorted d xs

def addDep (g : Graph) (t d : Nat) : Graph :=
  g.map (fun kv => if kv.1 = t then (kv.1, insertSorted d kv.2) else kv)

/-- one call on the project object: new project state and what the caller observes -/
def step (g : Graph) : Op → Graph × Out
  | .addTarget t ds =>
    match g.lookup t with
    | some _ => (g, .duplicate)
    | none => (g ++ [(t, ds)], .done)
  | .addDependency t d => (addDep g t d, .done)
  | .run req => (g, .ran (run g req))
  | .checkTarget t => (g, .checked (checkTarget g t))

/-- the observations of a whole history of calls on one project object -/
def history (g : Graph) : List Op → List Out
  | [] => []
  | op :: ops => (step g op).2 :: history (step g op).1 ops

/-- the project after a history -/
def projectAfter (g : Graph) : List Op → Graph
  | [] => g
  | op :: ops => projectAfter (step g op).1 ops

def Op.isEdit : Op → Bool
  | .addTarget _ _ => true
  | .addDependency _ _ => true
  | _ => false

end Model.Tasks
