import PpciVerif.Model.Leb128
/-
Hand model of ppci's WebAssembly *binary* writer and reader
(ppci/wasm/binary/writer.py, ppci/wasm/binary/reader.py, the parts of
ppci/wasm/components.py they use).  Core Lean only; the LEB128 loops are the
C20 model (`Model.Leb128`).

* bytes are `List Nat`; a Python `str` name is its UTF-8 byte string (the reader
  checks well-formedness, CPython's `bytes.decode('utf-8')`); an `f32/f64`
  constant is the 4/8-byte string that `struct.pack('<f'/'<d')` gives for it.
* value types and instructions are *numbers*: the index of the name in
  `LANG_TYPES` / `OPCODES` (dict order).  All name-keyed dictionaries of
  `opcodes.py` / `binary/io.py` enter through a `Tables` record, generated from
  the live objects into `Gen/WasmOpcodes.lean` on every run.
* the writer is split in `enc…` (the bytes it writes when no exception is
  raised) and `wErr…` (the first exception it raises, if any).
* the reader is `r… strict`: `strict = false` mirrors the Python reader;
  `strict = true` additionally rejects (`Err.NonCanonical`) every input that is
  not *canonically encoded* (see `Canon` at the end).  It is the same code, so
  both are tied to the source by the same differential run.
-/
namespace Model.WasmBin
open Model.Leb128 (uencLoop sencLoop unsignedDecode signedDecode)

abbrev Bytes := List Nat

inductive Err
  | KeyError | EOFError | AssertionError | ValueError | TypeError | IndexError
  | NotImplementedError | UnicodeDecodeError | Fuel | NonCanonical
  deriving Repr, DecidableEq

def Err.name : Err → String
  | .KeyError => "KeyError" | .EOFError => "EOFError" | .AssertionError => "AssertionError"
  | .ValueError => "ValueError" | .TypeError => "TypeError" | .IndexError => "IndexError"
  | .NotImplementedError => "NotImplementedError" | .UnicodeDecodeError => "UnicodeDecodeError"
  | .Fuel => "Fuel" | .NonCanonical => "NonCanonical"

/-! ## tables (generated from `ppci.wasm.opcodes` and `ppci.wasm.binary.io`) -/

/-- operand kinds: the members of `opcodes.ArgType` plus the two string kinds -/
inductive ImmKind
  | type | heaptype | u8 | u32 | i32 | i64 | f32 | f64 | u8x16
  | typeidx | tableidx | localidx | blockidx | funcidx | labelidx | globalidx | elemidx | dataidx
  | brTable | resultTypes
  deriving Repr, DecidableEq

structure Tables where
  /-- `len(OPCODES)`; instruction id = position of the mnemonic in `OPCODES` -/
  count : Nat
  /-- `OPCODES[mnemonic]`: `(b, none)` a single byte, `(p, some s)` the tuple `(p, s)` -/
  opcodeKey : Nat → Option (Nat × Option Nat)
  /-- `REVERZ[b]` -/
  reverz1 : Nat → Option Nat
  /-- `REVERZ[(p, s)]` -/
  reverz2 : Nat → Nat → Option Nat
  /-- `OPERANDS[mnemonic]` -/
  operands : Nat → Option (List ImmKind)
  /-- `len(LANG_TYPES)`; type id = position of the name in `LANG_TYPES` -/
  ntypes : Nat
  /-- `LANG_TYPES[name]` -/
  typeBytes : Nat → Option Bytes
  /-- `LANG_TYPES_REVERSE[byte]` -/
  typeOfByte : Nat → Option Nat
  /-- 1 + the largest `s` of a tuple opcode `(p, s)` -/
  maxSub : Nat
  /-- ids of the names the reader/writer code mentions literally -/
  endId : Nat
  blockId : Nat
  loopId : Nat
  ifId : Nat
  funcref : Nat
  externref : Nat

/-! ## the module structure (what `Module.definitions` holds, without the ids
the writer ignores and the reader regenerates) -/

inductive Arg
  | ty (t : Nat)              -- a type name (block type)
  | u8 (n : Nat)
  | u32 (n : Nat)
  | idx (n : Nat)             -- `Ref(space, index=n)`; the space follows from the operand kind
  | int (z : Int)             -- i32.const / i64.const
  | raw (bs : Bytes)          -- f32 / f64 constant as its little-endian bytes
  | labels (l : List Nat)     -- br_table: list of `Ref('label', …)`, default last
  | types (l : List Nat)      -- select: list of result types
  deriving Repr, DecidableEq

structure Instr where
  op : Nat
  args : List Arg
  deriving Repr, DecidableEq

structure Limits where
  min : Nat
  max : Option Nat
  deriving Repr, DecidableEq

inductive ImportDesc
  | func (typeIdx : Nat)
  | table (kind : Nat) (lim : Limits)
  | memory (lim : Limits)
  | global (ty : Nat) (mutable : Bool)
  deriving Repr, DecidableEq

structure FuncType where
  params : List Nat
  results : List Nat
  deriving Repr, DecidableEq

structure Import where
  modname : Bytes
  name : Bytes
  desc : ImportDesc
  deriving Repr, DecidableEq

structure Func where
  typeIdx : Nat
  locals : List Nat
  body : List Instr
  deriving Repr, DecidableEq

structure Table where
  kind : Nat
  lim : Limits
  deriving Repr, DecidableEq

structure Global where
  ty : Nat
  mutable : Bool
  init : List Instr
  deriving Repr, DecidableEq

structure Export where
  name : Bytes
  kind : Nat            -- 0 func, 1 table, 2 memory, 3 global
  idx : Nat
  deriving Repr, DecidableEq

structure Elem where
  mode : Option (Nat × List Instr)      -- (table index, offset expression)
  refs : List Nat
  deriving Repr, DecidableEq

structure Data where
  mode : Option (Nat × List Instr)      -- (memory index, offset expression); none = passive
  bytes : Bytes
  deriving Repr, DecidableEq

structure Custom where
  name : Bytes
  data : Bytes
  deriving Repr, DecidableEq

inductive Def
  | type (t : FuncType)
  | imp (i : Import)
  | func (f : Func)
  | table (t : Table)
  | memory (l : Limits)
  | global (g : Global)
  | export (e : Export)
  | start (idx : Nat)
  | elem (e : Elem)
  | data (d : Data)
  | datacount (n : Nat)
  | custom (c : Custom)
  deriving Repr, DecidableEq

/-- `Module.get_definitions_per_section()` -/
structure Sections where
  customs : List Custom := []
  types : List FuncType := []
  imports : List Import := []
  tables : List Table := []
  memories : List Limits := []
  globals : List Global := []
  exports : List Export := []
  starts : List Nat := []
  elems : List Elem := []
  funcs : List Func := []
  datas : List Data := []
  datacounts : List Nat := []
  deriving Repr, DecidableEq

def split (m : List Def) : Sections where
  customs := m.filterMap fun | .custom c => some c | _ => none
  types := m.filterMap fun | .type t => some t | _ => none
  imports := m.filterMap fun | .imp i => some i | _ => none
  tables := m.filterMap fun | .table t => some t | _ => none
  memories := m.filterMap fun | .memory l => some l | _ => none
  globals := m.filterMap fun | .global g => some g | _ => none
  exports := m.filterMap fun | .export e => some e | _ => none
  starts := m.filterMap fun | .start s => some s | _ => none
  elems := m.filterMap fun | .elem e => some e | _ => none
  funcs := m.filterMap fun | .func f => some f | _ => none
  datas := m.filterMap fun | .data d => some d | _ => none
  datacounts := m.filterMap fun | .datacount n => some n | _ => none

/-- the definitions in the order the writer emits them (`SECTION_IDS` order) =
    the order in which the reader appends them -/
def Sections.toDefs (s : Sections) : List Def :=
  s.customs.map .custom ++ s.types.map .type ++ s.imports.map .imp ++ s.tables.map .table ++
  s.memories.map .memory ++ s.globals.map .global ++ s.exports.map .export ++ s.starts.map .start ++
  s.elems.map .elem ++ s.funcs.map .func ++ s.datas.map .data ++ s.datacounts.map .datacount

def normalize (m : List Def) : List Def := (split m).toDefs

/-! ## writer: the bytes -/

section Writer
variable (T : Tables)

def Tables.opcodeOf (id : Nat) : Option (Nat × Option Nat) := if id < T.count then T.opcodeKey id else none
def Tables.operandsOf (id : Nat) : Option (List ImmKind) := if id < T.count then T.operands id else none
def Tables.typeBytesOf (t : Nat) : Option Bytes := if t < T.ntypes then T.typeBytes t else none
/-- the reverse dictionaries have no keys outside these bounds (checked when the tables are generated) -/
def Tables.reverz1Of (b : Nat) : Option Nat := if b < 256 then T.reverz1 b else none
def Tables.reverz2Of (p s : Nat) : Option Nat := if s < T.maxSub then T.reverz2 p s else none
def Tables.typeOfByteOf (b : Nat) : Option Nat := if b < 256 then T.typeOfByte b else none

def encU (n : Nat) : Bytes := uencLoop n                 -- write_vu32 / write_vu7 / write_vu1 / write_ref
def encS (z : Int) : Bytes := sencLoop z                 -- write_vs32 / write_vs64
def encSized (payload : Bytes) : Bytes := encU payload.length ++ payload
def encName (s : Bytes) : Bytes := encSized s            -- write_str
def encType (t : Nat) : Bytes := (T.typeBytesOf t).getD []   -- write_type
def encBool (b : Bool) : Bytes := [if b then 1 else 0]   -- bytes([int(mutable)])

def encLimits (l : Limits) : Bytes :=
  match l.max with
  | none => [0] ++ encU l.min
  | some mx => [1] ++ encU l.min ++ encU mx

def encVec {α} (enc : α → Bytes) (xs : List α) : Bytes := encU xs.length ++ xs.flatMap enc

/-- one operand; `opc` is the opcode byte that was written (0x1B/0x1C matter for `result_types`) -/
def encArg (opc : Nat) (k : ImmKind) (a : Arg) : Bytes :=
  match k with
  | .type => (match a with | .ty t => encType T t | _ => [])
  | .u8 => (match a with | .u8 n => [n] | _ => [])
  | .u32 => (match a with | .u32 n => encU n | _ => [])
  | .labelidx | .localidx | .globalidx | .funcidx | .typeidx | .tableidx =>
    (match a with | .idx n => encU n | _ => [])
  | .i32 | .i64 => (match a with | .int z => encS z | _ => [])
  | .f32 | .f64 => (match a with | .raw bs => bs | _ => [])
  | .brTable => (match a with | .labels l => encU (l.length - 1) ++ l.flatMap encU | _ => [])
  | .resultTypes => (match a with | .types l => if opc = 0x1C then encVec (encType T) l else [] | _ => [])
  | .heaptype | .u8x16 | .blockidx | .elemidx | .dataidx => []

def encArgs (opc : Nat) : List ImmKind → List Arg → Bytes
  | k :: ks, a :: as => encArg T opc k a ++ encArgs opc ks as
  | _, _ => []

def firstArgEmpty : List Arg → Bool
  | .types [] :: _ => true
  | _ => false

/-- `write_instruction` -/
def encInstr (i : Instr) : Bytes :=
  match T.opcodeOf i.op, T.operandsOf i.op with
  | some (p, some s), some kinds => [p] ++ encU s ++ encArgs T p kinds i.args
  | some (b, none), some kinds =>
    let b' := if b = 0x1C ∧ firstArgEmpty i.args = true then 0x1B else b
    [b'] ++ encArgs T b' kinds i.args
  | _, _ => []

def encInstrs (is : List Instr) : Bytes := is.flatMap (encInstr T)

/-- `write_expression`: the instructions, then `Instruction("end")` -/
def encExpr (is : List Instr) : Bytes := encInstrs T is ++ encInstr T ⟨T.endId, []⟩

def encFuncType (t : FuncType) : Bytes :=
  [0x60] ++ encVec (encType T) t.params ++ encVec (encType T) t.results

def encImportDesc : ImportDesc → Bytes
  | .func ti => [0] ++ encU ti
  | .table k l => [1] ++ encType T k ++ encLimits l
  | .memory l => [2] ++ encLimits l
  | .global t m => [3] ++ encType T t ++ encBool m

def encImport (i : Import) : Bytes := encName i.modname ++ encName i.name ++ encImportDesc T i.desc
def encTable (t : Table) : Bytes := encType T t.kind ++ encLimits t.lim
def encGlobal (g : Global) : Bytes := encType T g.ty ++ encBool g.mutable ++ encExpr T g.init
def encExport (e : Export) : Bytes := encName e.name ++ [e.kind] ++ encU e.idx

/-- `write_elem_definition` (it writes the table index where the format has the flag byte) -/
def encElem (e : Elem) : Bytes :=
  match e.mode with
  | some (tbl, off) => encU tbl ++ encExpr T off ++ encVec encU e.refs
  | none => []

/-- collect locals by type: list of (count, type) -/
def groupLocals : List Nat → List (Nat × Nat)
  | [] => []
  | t :: r =>
    match groupLocals r with
    | (c, t') :: g => if t' = t then (c + 1, t) :: g else (1, t) :: (c, t') :: g
    | [] => [(1, t)]

def encFuncBody (f : Func) : Bytes :=
  encVec (fun (p : Nat × Nat) => encU p.1 ++ encType T p.2) (groupLocals f.locals) ++ encInstrs T f.body ++ [0x0B]

def encFunc (f : Func) : Bytes := encSized (encFuncBody T f)

def encData (d : Data) : Bytes :=
  (match d.mode with
   | some (mem, off) => (if mem > 0 then encU 2 else []) ++ encU mem ++ encExpr T off
   | none => encU 1) ++ encSized d.bytes

def encCustom (c : Custom) : Bytes := encName c.name ++ c.data

/-- one section: id, size, payload -/
def encSection (id : Nat) (payload : Bytes) : Bytes := encU id ++ encSized payload

/-- a vector section; skipped when there are no definitions -/
def encVecSection {α} (id : Nat) (enc : α → Bytes) (xs : List α) : Bytes :=
  if xs.isEmpty then [] else encSection id (encVec enc xs)

/-- `start` / `datacount`: a single definition, no count -/
def encOneSection (id : Nat) (xs : List Nat) : Bytes :=
  match xs with
  | [] => []
  | x :: _ => encSection id (encU x)

def header : Bytes := [0x00, 0x61, 0x73, 0x6D, 0x01, 0x00, 0x00, 0x00]

def encSections (s : Sections) : Bytes :=
  s.customs.flatMap (fun c => encSection 0 (encCustom c)) ++
  encVecSection 1 (encFuncType T) s.types ++
  encVecSection 2 (encImport T) s.imports ++
  encVecSection 3 (fun (f : Func) => encU f.typeIdx) s.funcs ++
  encVecSection 4 (encTable T) s.tables ++
  encVecSection 5 encLimits s.memories ++
  encVecSection 6 (encGlobal T) s.globals ++
  encVecSection 7 encExport s.exports ++
  encOneSection 8 s.starts ++
  encVecSection 9 (encElem T) s.elems ++
  encVecSection 10 (encFunc T) s.funcs ++
  encVecSection 11 (encData T) s.datas ++
  encOneSection 12 s.datacounts

/-- `Module.to_bytes()` when it returns -/
def encModule (m : List Def) : Bytes := header ++ encSections T (split m)

end Writer

/-! ## writer: the first exception -/

section WriterErrors
variable (T : Tables)

def orElse' (a : Option Err) (b : Option Err) : Option Err := match a with | some e => some e | none => b
local infixr:60 " <|| " => orElse'

def firstErr {α} (f : α → Option Err) : List α → Option Err
  | [] => none
  | x :: r => f x <|| firstErr f r

def errU32 (n : Nat) : Option Err := if (uencLoop n).length ≤ 5 then none else some .AssertionError
def errU7 (n : Nat) : Option Err := if (uencLoop n).length = 1 then none else some .AssertionError
def errS (maxLen : Nat) (z : Int) : Option Err := if (sencLoop z).length ≤ maxLen then none else some .ValueError
def errByte (n : Nat) : Option Err := if n < 256 then none else some .ValueError
def errBytes (bs : Bytes) : Option Err := firstErr errByte bs
def errType (t : Nat) : Option Err := if (T.typeBytesOf t).isSome then none else some .KeyError
def errName (s : Bytes) : Option Err := errU32 s.length
def errLimits (l : Limits) : Option Err :=
  errU32 l.min <|| (match l.max with | some mx => errU32 mx | none => none)

def errArg (opc : Nat) (k : ImmKind) (a : Arg) : Option Err :=
  match k with
  | .type => (match a with | .ty t => errType T t | _ => some .TypeError)
  | .u8 => (match a with | .u8 n => errByte n | _ => some .TypeError)
  | .u32 => (match a with | .u32 n => errU32 n | _ => some .TypeError)
  | .labelidx | .localidx | .globalidx | .funcidx | .typeidx | .tableidx =>
    (match a with | .idx n => errU32 n | _ => some .TypeError)
  | .i32 => (match a with | .int z => errS 5 z | _ => some .TypeError)
  | .i64 => (match a with | .int z => errS 10 z | _ => some .TypeError)
  | .f32 | .f64 => (match a with | .raw _ => none | _ => some .TypeError)
  | .brTable =>
    (match a with
     | .labels l => if l.isEmpty then some .ValueError else errU32 (l.length - 1) <|| firstErr errU32 l
     | _ => some .TypeError)
  | .resultTypes =>
    (match a with
     | .types l => if opc = 0x1C then errU32 l.length <|| firstErr (errType T) l else none
     | _ => some .TypeError)
  | .heaptype | .u8x16 | .blockidx | .elemidx | .dataidx => some .TypeError

def errArgs (opc : Nat) : List ImmKind → List Arg → Option Err
  | k :: ks, a :: as => errArg T opc k a <|| errArgs opc ks as
  | _, _ => none

def errInstr (i : Instr) : Option Err :=
  match T.opcodeOf i.op, T.operandsOf i.op with
  | some (p, some s), some kinds =>
    errByte p <|| errU32 s <|| (if kinds.length = i.args.length then errArgs T p kinds i.args else some .AssertionError)
  | some (b, none), some kinds =>
    if b = 0x1C ∧ i.args.isEmpty then some .IndexError else
    let b' := if b = 0x1C ∧ firstArgEmpty i.args = true then 0x1B else b
    errByte b' <|| (if kinds.length = i.args.length then errArgs T b' kinds i.args else some .AssertionError)
  | _, _ => some .KeyError

def errExpr (is : List Instr) : Option Err := firstErr (errInstr T) is <|| errInstr T ⟨T.endId, []⟩

def errFuncType (t : FuncType) : Option Err :=
  errU32 t.params.length <|| firstErr (errType T) t.params <|| errU7 t.results.length <|| firstErr (errType T) t.results

def errImport (i : Import) : Option Err :=
  errName i.modname <|| errName i.name <||
  (match i.desc with
   | .func ti => errU32 ti
   | .table k l => errType T k <|| errLimits l
   | .memory l => errLimits l
   | .global t _ => errType T t)

def errElem (e : Elem) : Option Err :=
  match e.mode with
  | some (tbl, off) => errU32 tbl <|| errExpr T off <|| errU32 e.refs.length <|| firstErr errU32 e.refs
  | none => some .TypeError

def errFunc (f : Func) : Option Err :=
  let g := groupLocals f.locals
  errU32 g.length <|| firstErr (fun (p : Nat × Nat) => errU32 p.1 <|| errType T p.2) g <||
  firstErr (errInstr T) f.body <|| errU32 (encFuncBody T f).length

def errData (d : Data) : Option Err :=
  (match d.mode with
   | some (mem, off) => errU32 mem <|| errExpr T off
   | none => none) <|| errU32 d.bytes.length <|| errBytes d.bytes

def errVecSection {α} (enc : α → Bytes) (err : α → Option Err) (xs : List α) : Option Err :=
  if xs.isEmpty then none else errU32 xs.length <|| firstErr err xs <|| errU32 (encVec enc xs).length

def errOneSection (xs : List Nat) : Option Err :=
  match xs with
  | [] => none
  | [x] => errU32 x
  | _ => some .AssertionError

def errSections (s : Sections) : Option Err :=
  firstErr (fun (c : Custom) => errName c.name <|| errBytes c.data <|| errU32 (encCustom c).length) s.customs <||
  errVecSection (encFuncType T) (errFuncType T) s.types <||
  errVecSection (encImport T) (errImport T) s.imports <||
  errVecSection (fun (f : Func) => encU f.typeIdx) (fun (f : Func) => errU32 f.typeIdx) s.funcs <||
  errVecSection (encTable T) (fun (t : Table) => errType T t.kind <|| errLimits t.lim) s.tables <||
  errVecSection encLimits errLimits s.memories <||
  errVecSection (encGlobal T) (fun (g : Global) => errType T g.ty <|| errExpr T g.init) s.globals <||
  errVecSection encExport (fun (e : Export) => errName e.name <|| (if e.kind < 4 then none else some .KeyError) <|| errU32 e.idx) s.exports <||
  errOneSection s.starts <||
  errVecSection (encElem T) (errElem T) s.elems <||
  errVecSection (encFunc T) (errFunc T) s.funcs <||
  errVecSection (encData T) (errData T) s.datas <||
  errOneSection s.datacounts

/-- `Module.to_bytes()` -/
def writeModule (m : List Def) : Except Err Bytes :=
  match errSections T (split m) with
  | some e => .error e
  | none => .ok (encModule T m)

end WriterErrors

/-! ## reader -/

/-- a parser consumes a prefix of the input and returns the unread rest -/
def P (α : Type) := Bytes → Except Err (α × Bytes)

instance : Monad P where
  pure a := fun bs => .ok (a, bs)
  bind p f := fun bs => match p bs with
    | .ok (a, rest) => f a rest
    | .error e => .error e

def fail {α} (e : Err) : P α := fun _ => .error e
def guardP (c : Bool) (e : Err) : P Unit := if c then pure () else fail e
def liftOpt {α} (o : Option α) (e : Err) : P α := match o with | some a => pure a | none => fail e

/-- well-formed UTF-8 (Unicode Standard, table 3-7): what `bytes.decode('utf-8')` accepts -/
def utf8Valid : Bytes → Bool
  | [] => true
  | b0 :: r =>
    let cont := fun (b : Nat) => 0x80 ≤ b && b ≤ 0xBF
    if b0 < 0x80 then utf8Valid r
    else if 0xC2 ≤ b0 && b0 ≤ 0xDF then
      match r with | b1 :: r' => cont b1 && utf8Valid r' | _ => false
    else if 0xE0 ≤ b0 && b0 ≤ 0xEF then
      match r with
      | b1 :: b2 :: r' =>
        (if b0 = 0xE0 then 0xA0 ≤ b1 && b1 ≤ 0xBF else if b0 = 0xED then 0x80 ≤ b1 && b1 ≤ 0x9F else cont b1)
          && cont b2 && utf8Valid r'
      | _ => false
    else if 0xF0 ≤ b0 && b0 ≤ 0xF4 then
      match r with
      | b1 :: b2 :: b3 :: r' =>
        (if b0 = 0xF0 then 0x90 ≤ b1 && b1 ≤ 0xBF else if b0 = 0xF4 then 0x80 ≤ b1 && b1 ≤ 0x8F else cont b1)
          && cont b2 && cont b3 && utf8Valid r'
      | _ => false
    else false

/-- `struct.unpack('f')` followed by `struct.pack('<f')` on this platform: the value goes through a
    C double, which turns a signalling NaN into the quiet NaN with the same payload (bit 22 set) -/
def quietF32 : Bytes → Bytes
  | [b0, b1, b2, b3] =>
    if b3 % 128 = 127 ∧ b2 ≥ 128 ∧ b2 < 192 ∧ (b0 ≠ 0 ∨ b1 ≠ 0 ∨ b2 ≠ 128) then [b0, b1, b2 + 64, b3] else [b0, b1, b2, b3]
  | bs => bs

section Reader
variable (T : Tables) (strict : Bool)

def rByte : P Nat := fun
  | [] => .error .EOFError
  | b :: r => .ok (b, r)

/-- `read_exactly(n)` -/
def rExact (n : Nat) : P Bytes := fun bs =>
  if bs.length < n then .error .EOFError else .ok (bs.take n, bs.drop n)

/-- `read_uint`; strict: the bytes consumed are the canonical (C20) encoding of the value -/
def rU : P Nat := fun bs =>
  match unsignedDecode bs with
  | .error _ => .error .EOFError
  | .ok (n, rest) =>
    if strict && !((uencLoop n).isPrefixOf bs) then .error .NonCanonical else .ok (n, rest)

/-- `read_int` -/
def rS : P Int := fun bs =>
  match signedDecode bs with
  | .error _ => .error .EOFError
  | .ok (z, rest) =>
    if strict && !((sencLoop z).isPrefixOf bs) then .error .NonCanonical else .ok (z, rest)

/-- `read_length_prefixed_bytes` -/
def rSizedBytes : P Bytes := do
  let n ← rU strict
  rExact n

/-- `read_str` -/
def rName : P Bytes := do
  let b ← rSizedBytes strict
  guardP (utf8Valid b) .UnicodeDecodeError
  pure b

/-- `read_type` -/
def rType : P Nat := do
  let b ← rByte
  liftOpt (T.typeOfByteOf b) .KeyError

/-- `bool(self.read_byte())`; strict: 0 or 1 -/
def rBool : P Bool := do
  let b ← rByte
  guardP (!strict || b < 2) .NonCanonical
  pure (b != 0)

def rLimits : P Limits := do
  let f ← rByte
  guardP (f < 2) .AssertionError
  let mn ← rU strict
  if f = 1 then
    let mx ← rU strict
    pure ⟨mn, some mx⟩
  else pure ⟨mn, none⟩

/-- `n` items -/
def rN {α} (p : P α) : Nat → P (List α)
  | 0 => pure []
  | n + 1 => do
    let x ← p
    let xs ← rN p n
    pure (x :: xs)

def rVec {α} (p : P α) : P (List α) := do
  let n ← rU strict
  rN p n

/-- run `p` on exactly the next `n` bytes (`push_data`): it must consume all of them -/
def rSub {α} (p : P α) (n : Nat) : P α := fun bs =>
  if bs.length < n then .error .EOFError else
  match p (bs.take n) with
  | .error e => .error e
  | .ok (a, rem) => if rem.isEmpty then .ok (a, bs.drop n) else .error .AssertionError

/-- one operand; `opc` is the opcode byte read -/
def rArg (opc : Nat) : ImmKind → P Arg
  | .type => do let t ← rType T; pure (.ty t)
  | .u8 => do let b ← rByte; pure (.u8 b)
  | .u32 => do let n ← rU strict; pure (.u32 n)
  | .labelidx | .localidx | .globalidx | .funcidx | .typeidx | .tableidx => do let n ← rU strict; pure (.idx n)
  | .i32 | .i64 => do let z ← rS strict; pure (.int z)
  | .f32 => do
    let bs ← rExact 4
    guardP (!strict || quietF32 bs == bs) .NonCanonical
    pure (.raw (quietF32 bs))
  | .f64 => do let bs ← rExact 8; pure (.raw bs)
  | .u8x16 => do
    let bs ← rExact 16
    guardP (!strict) .NonCanonical          -- the writer has no U8x16 case
    pure (.raw bs)
  | .brTable => do
    let count ← rU strict
    let l ← rN (rU strict) (count + 1)
    pure (.labels l)
  | .resultTypes =>
    if opc = 0x1C then do
      let l ← rVec strict (rType T)
      guardP (!strict || !l.isEmpty) .NonCanonical     -- written as 0x1B
      pure (.types l)
    else pure (.types [])
  | .heaptype | .blockidx | .elemidx | .dataidx => fail .NotImplementedError

def rArgs (opc : Nat) : List ImmKind → P (List Arg)
  | [] => pure []
  | k :: ks => do
    let a ← rArg T strict opc k
    let as ← rArgs opc ks
    pure (a :: as)

/-- `read_instruction` -/
def rInstr : P Instr := do
  let b ← rByte
  if b = 0xFC ∨ b = 0xFD then
    let s ← rU strict
    let id ← liftOpt (T.reverz2Of b s) .KeyError
    let kinds ← liftOpt (T.operandsOf id) .KeyError
    let args ← rArgs T strict b kinds
    pure ⟨id, args⟩
  else
    let id ← liftOpt (T.reverz1Of b) .KeyError
    let kinds ← liftOpt (T.operandsOf id) .KeyError
    let args ← rArgs T strict b kinds
    pure ⟨id, args⟩

def Tables.isBlock (id : Nat) : Bool := id == T.blockId || id == T.loopId || id == T.ifId

/-- `read_expression`: instructions up to the `end` that closes the expression
    (`depth` = the Python variable `blocks`, ≥ 1).  Every instruction consumes a
    byte, so `fuel` = input length + 1 is never exhausted. -/
def rExprLoop : Nat → Nat → P (List Instr)
  | 0, _ => fail .Fuel
  | fuel + 1, depth => do
    let i ← rInstr T strict
    if i.op = T.endId then
      if depth ≤ 1 then pure []
      else do let r ← rExprLoop fuel (depth - 1); pure (i :: r)
    else if T.isBlock i.op then do let r ← rExprLoop fuel (depth + 1); pure (i :: r)
    else do let r ← rExprLoop fuel depth; pure (i :: r)

def rExpr : P (List Instr) := fun bs => rExprLoop T strict (bs.length + 1) 1 bs

def rFuncType : P FuncType := do
  let form ← rByte
  guardP (form == 0x60) .AssertionError
  let ps ← rVec strict (rType T)
  let rs ← rVec strict (rType T)
  pure ⟨ps, rs⟩

def rImport : P Import := do
  let modname ← rName strict
  let name ← rName strict
  let k ← rByte
  if k = 0 then do let ti ← rU strict; pure ⟨modname, name, .func ti⟩
  else if k = 1 then do
    let tk ← rType T
    let l ← rLimits strict
    pure ⟨modname, name, .table tk l⟩
  else if k = 2 then do let l ← rLimits strict; pure ⟨modname, name, .memory l⟩
  else if k = 3 then do
    let t ← rType T
    let m ← rBool strict
    pure ⟨modname, name, .global t m⟩
  else fail .NotImplementedError

def rTable : P Table := do
  let k ← rType T
  guardP (k == T.funcref || k == T.externref) .AssertionError
  let l ← rLimits strict
  pure ⟨k, l⟩

def rGlobal : P Global := do
  let t ← rType T
  let m ← rBool strict
  let init ← rExpr T strict
  pure ⟨t, m, init⟩

def rExport : P Export := do
  let name ← rName strict
  let k ← rByte
  guardP (k < 4) .IndexError
  let idx ← rU strict
  pure ⟨name, k, idx⟩

def rElem : P Elem := do
  let x ← rU strict
  if x = 0 then do
    let off ← rExpr T strict
    let refs ← rVec strict (rU strict)
    pure ⟨some (0, off), refs⟩
  else fail .NotImplementedError

def expandLocals : List (Nat × Nat) → List Nat
  | [] => []
  | (c, t) :: r => List.replicate c t ++ expandLocals r

/-- strict: what `groupLocals` produces: no empty group, adjacent groups differ in type -/
def groupsCanon : List (Nat × Nat) → Bool
  | [] => true
  | (c, t) :: r => c ≥ 1 && (match r with | (_, t') :: _ => t' != t | [] => true) && groupsCanon r

def rFuncBody : P (List Nat × List Instr) := do
  let groups ← rVec strict (do let c ← rU strict; let t ← rType T; pure (c, t))
  guardP (!strict || groupsCanon groups) .NonCanonical
  let body ← rExpr T strict
  pure (expandLocals groups, body)

/-- `read_func_definition(index)` without the type reference -/
def rFunc : P (List Nat × List Instr) := do
  let n ← rU strict
  rSub (rFuncBody T strict) n

def rData : P Data := do
  let x ← rU strict
  if x = 1 then do
    let bs ← rSizedBytes strict
    pure ⟨none, bs⟩
  else do
    let mem ← (if x = 0 then pure 0 else do
      let m ← rU strict
      guardP (!strict || (x = 2 && m > 0)) .NonCanonical
      pure m)
    let off ← rExpr T strict
    let bs ← rSizedBytes strict
    pure ⟨some (mem, off), bs⟩

def rCustom : P Custom := fun bs =>
  match rName strict bs with
  | .error e => .error e
  | .ok (name, rest) => .ok (⟨name, rest⟩, [])

/-- reader state: `_type4func` (as the list of its values, keys 0..n-1), `_definitions`,
    number of `func` definitions read so far, and the id of the last section (strict mode) -/
structure RState where
  type4func : List Nat := []
  defs : List Def := []
  nfuncs : Nat := 0
  last : Nat := 0
  deriving Repr

/-- body of the code section: function `i` takes its type from `_type4func[i]` (KeyError) -/
def rFuncs (t4f : List Nat) : Nat → Nat → P (List Func)
  | 0, _ => pure []
  | n + 1, i => do
    let (locals, body) ← rFunc T strict
    let ti ← liftOpt t4f[i]? .KeyError
    let r ← rFuncs t4f n (i + 1)
    pure (⟨ti, locals, body⟩ :: r)

/-- strict: non-custom sections in increasing id order, custom sections only in front -/
def orderOk (last id : Nat) : Bool := if id = 0 then last = 0 else last < id

/-- append the definitions of a vector section (strict: the writer never emits an empty one) -/
def addDefs {α} (st : RState) (mk : α → Def) (xs : List α) : P RState := do
  guardP (!strict || !xs.isEmpty) .NonCanonical
  pure { st with defs := st.defs ++ xs.map mk }

/-- `read_section`: the payload parser for section `id` -/
def rSectionBody (st0 : RState) (id : Nat) : P RState := do
  guardP (!strict || orderOk st0.last id) .NonCanonical
  let st : RState := { st0 with last := id }
  match id with
  | 0 => do let c ← rCustom strict; pure { st with defs := st.defs ++ [.custom c] }
  | 1 => do let xs ← rVec strict (rFuncType T strict); addDefs strict st Def.type xs
  | 2 => do let xs ← rVec strict (rImport T strict); addDefs strict st Def.imp xs
  | 3 => do
    let xs ← rVec strict (rU strict)
    guardP (!strict || !xs.isEmpty) .NonCanonical
    pure { st with type4func := xs ++ st.type4func.drop xs.length }
  | 4 => do let xs ← rVec strict (rTable T strict); addDefs strict st Def.table xs
  | 5 => do let xs ← rVec strict (rLimits strict); addDefs strict st Def.memory xs
  | 6 => do let xs ← rVec strict (rGlobal T strict); addDefs strict st Def.global xs
  | 7 => do let xs ← rVec strict (rExport strict); addDefs strict st Def.export xs
  | 8 => do let x ← rU strict; pure { st with defs := st.defs ++ [.start x] }
  | 9 => do let xs ← rVec strict (rElem T strict); addDefs strict st Def.elem xs
  | 10 => do
    let n ← rU strict
    let xs ← rFuncs T strict st.type4func n 0
    guardP (!strict || !xs.isEmpty) .NonCanonical
    pure { st with defs := st.defs ++ xs.map Def.func, nfuncs := st.nfuncs + xs.length }
  | 11 => do let xs ← rVec strict (rData T strict); addDefs strict st Def.data xs
  | 12 => do let x ← rU strict; pure { st with defs := st.defs ++ [.datacount x] }
  | _ => fail .KeyError

/-- one section frame: id byte, size, payload (`read_byte`, `read_length_prefixed_bytes`) -/
def rFrame : P (Nat × Bytes) := do
  let id ← rByte
  let payload ← rSizedBytes strict
  pure (id, payload)

/-- the section loop of `read_module`: the payload of each frame is parsed on its own
    (`push_data`) and must be consumed completely -/
def rSections : Nat → RState → P RState
  | 0, _ => fail .Fuel
  | fuel + 1, st => fun bs =>
    if bs.isEmpty then .ok (st, []) else
    match rFrame strict bs with
    | .error e => .error e
    | .ok ((id, payload), rest) =>
      match rSectionBody T strict st id payload with
      | .error e => .error e
      | .ok (st', rem) => if rem.isEmpty then rSections fuel st' rest else .error .AssertionError

def rHeader : P Unit := do
  let magic ← rExact 4
  guardP (magic == [0x00, 0x61, 0x73, 0x6D]) .ValueError
  let version ← rExact 4
  guardP (version == [1, 0, 0, 0]) .AssertionError

/-- `Module(bytes)`: the definitions list -/
def readModule (bs : Bytes) : Except Err (List Def) :=
  match (do rHeader; rSections T strict (bs.length + 1) {}) bs with
  | .error e => .error e
  | .ok (st, _) =>
    -- strict: every entry of the function section was used by a code entry
    if strict && !(st.type4func.length == st.nfuncs) then .error .NonCanonical else .ok st.defs

end Reader

/-- *canonically encoded*: accepted by the strict reader.  Spelled out: every LEB128 number
    (sizes, counts, indices, immediates, the sub-opcode after 0xFC/0xFD) is the unique shortest
    encoding of its value (C20); sections appear at most once, in the order custom*, type, import,
    function, table, memory, global, export, start, element, code, data, datacount; no section with
    zero entries; as many function-section entries as code entries; `mut` flags are 0/1; local
    declarations are maximal runs (no empty run, adjacent runs of different type); a data segment
    uses flag 2 only for a non-zero memory index; `select` with an empty type list is 0x1B;
    no `f32.const` holds a signalling NaN; no instruction that the writer cannot emit. -/
def Canon (T : Tables) (bs : Bytes) : Bool :=
  match readModule T true bs with
  | .ok _ => true
  | .error _ => false

/-! ## validity of a module: the hypothesis of the round-trip theorem -/

section Valid
variable (T : Tables)

def typeOk (t : Nat) : Bool := t < T.ntypes

def argOk (k : ImmKind) (a : Arg) : Bool :=
  match k with
  | .type => (match a with | .ty t => typeOk T t | _ => false)
  | .u8 => (match a with | .u8 _ => true | _ => false)
  | .u32 => (match a with | .u32 _ => true | _ => false)
  | .labelidx | .localidx | .globalidx | .funcidx | .typeidx | .tableidx =>
    (match a with | .idx _ => true | _ => false)
  | .i32 | .i64 => (match a with | .int _ => true | _ => false)
  -- an f32 constant must not be a signalling NaN (open finding: the reader turns it into a quiet one)
  | .f32 => (match a with | .raw bs => bs.length == 4 && quietF32 bs == bs | _ => false)
  | .f64 => (match a with | .raw bs => bs.length == 8 | _ => false)
  | .brTable => (match a with | .labels l => !l.isEmpty | _ => false)
  | .resultTypes => (match a with | .types l => l.all (typeOk T) | _ => false)
  | .heaptype | .u8x16 | .blockidx | .elemidx | .dataidx => false

def argsOk : List ImmKind → List Arg → Bool
  | [], [] => true
  | k :: ks, a :: as => argOk T k a && argsOk ks as
  | _, _ => false

def instrOk (i : Instr) : Bool :=
  match T.opcodeOf i.op, T.operandsOf i.op with
  | some _, some kinds => argsOk T kinds i.args
  | _, _ => false

/-- the flat instruction list is well nested: scanning with the block depth (starting at 1 for the
    enclosing expression) no `end` closes the expression itself, and every block is closed -/
def balanced : Nat → List Instr → Bool
  | d, [] => d == 1
  | d, i :: r =>
    if i.op = T.endId then d ≥ 2 && balanced (d - 1) r
    else if T.isBlock i.op then balanced (d + 1) r
    else balanced d r

def exprOk (is : List Instr) : Bool := is.all (instrOk T) && balanced T 1 is

def importOk (i : Import) : Bool :=
  utf8Valid i.modname && utf8Valid i.name &&
  (match i.desc with
   | .func _ => true
   | .table k _ => typeOk T k
   | .memory _ => true
   | .global t _ => typeOk T t)

def elemOk (e : Elem) : Bool :=
  match e.mode with | some (tbl, off) => tbl == 0 && exprOk T off | none => false

def dataOk (d : Data) : Bool :=
  match d.mode with | some (_, off) => exprOk T off | none => true

def defOk : Def → Bool
  | .type t => t.params.all (typeOk T) && t.results.all (typeOk T)
  | .imp i => importOk T i
  | .func f => f.locals.all (typeOk T) && exprOk T f.body
  | .table t => t.kind == T.funcref || t.kind == T.externref
  | .memory _ => true
  | .global g => typeOk T g.ty && exprOk T g.init
  | .export e => utf8Valid e.name && e.kind < 4
  | .start _ => true
  | .elem e => elemOk T e
  | .data d => dataOk T d
  | .datacount _ => true
  | .custom c => utf8Valid c.name

/-- a module the writer/reader pair supports -/
def Valid (m : List Def) : Bool :=
  m.all (defOk T) && (split m).starts.length ≤ 1 && (split m).datacounts.length ≤ 1

/-- what has to be true of the generated tables for the theorems to apply -/
def instrRowOk (id : Nat) : Bool :=
  match T.opcodeKey id, T.operands id with
  | some (b, none), some kinds =>
    b < 256 && b != 0xFC && b != 0xFD &&
    (match T.reverz1 b with | some id' => id' == id | none => false) &&
    (!(b == 0x1C) || (match T.reverz1 0x1B with | some id' => id' == id | none => false)) &&
    (!(kinds.contains .resultTypes) || (b == 0x1C && kinds == [.resultTypes])) &&
    (!(b == 0x1C) || kinds == [.resultTypes])
  | some (p, some s), some kinds =>
    (p == 0xFC || p == 0xFD) && s < T.maxSub &&
    (match T.reverz2 p s with | some id' => id' == id | none => false) &&
    !(kinds.contains .resultTypes)
  | _, _ => false

def typeRowOk (t : Nat) : Bool :=
  match T.typeBytes t with
  | some [b] => b < 256 && (match T.typeOfByte b with | some t' => t' == t | none => false)
  | _ => false

/-- reverse direction: what `REVERZ` returns is an instruction whose `OPCODES` entry is the key
    (or `select`: 0x1B for the mnemonic whose entry is 0x1C) -/
def rev1RowOk (b : Nat) : Bool :=
  match T.reverz1 b with
  | none => true
  | some id =>
    id < T.count &&
    (match T.opcodeKey id with
     | some (b', none) => b' == b || (b == 0x1B && b' == 0x1C)
     | _ => false)

def rev2RowOk (p s : Nat) : Bool :=
  match T.reverz2 p s with
  | none => true
  | some id =>
    id < T.count &&
    (match T.opcodeKey id with
     | some (p', some s') => p' == p && s' == s
     | _ => false)

def typeRevRowOk (b : Nat) : Bool :=
  match T.typeOfByte b with
  | none => true
  | some t => t < T.ntypes && (match T.typeBytes t with | some [b'] => b' == b | _ => false)

def allBelow (p : Nat → Bool) : Nat → Bool
  | 0 => true
  | n + 1 => p n && allBelow p n

def Tables.Sane : Bool :=
  allBelow (instrRowOk T) T.count && allBelow (typeRowOk T) T.ntypes &&
  allBelow (rev1RowOk T) 256 && allBelow (rev2RowOk T 0xFC) T.maxSub && allBelow (rev2RowOk T 0xFD) T.maxSub &&
  allBelow (typeRevRowOk T) 256 &&
  T.endId < T.count && (match T.opcodeKey T.endId, T.operands T.endId with
    | some (0x0B, none), some [] => true | _, _ => false) &&
  !(T.isBlock T.endId) && T.funcref < T.ntypes && T.externref < T.ntypes

end Valid

end Model.WasmBin
