import PpciVerif.Model.Proto
import PpciVerif.Model.Linker
import PpciVerif.Spec.Link
/-! Line protocol of the C12 driver (linker); compiled here so that `lean --run Drivers/C12.lean` starts fast.

Requests (one line, blank-separated tokens; names contain no blanks and are
never `-`; byte strings lowercase hex, `-` = empty; optional values `-` = None,
optional names `=name`):

  link <REQ>     run `Model.Linker.linkT`
  spec <REQ>     evaluate `Spec.Link` on the same request
  image <addr> <n> {name addr align hex}      `Image.data` over explicit sections

  REQ  := <partial 0|1> <entry -|=name> X <n> {name value}
          O <n> {OBJ} L <- | + <layoutentry -|=name> <n> {MEM}>
  OBJ  := S <n> {name addr align hex} Y <n> {id name g|l value|- sect(-|=name) typ size}
          R <n> {typ symid sect offset addend} E <id|->
  MEM  := name loc size <n> {S name | D name | Y name | A n}

Replies:
  link  → `err <Kind>` or
          `ok S n {name addr align hex} Y n {id name g|l value|- -|=sect typ size}
              R n {typ symid sect offset addend} I n {name addr k {secname}} E id|-
              T n {k {name off} j {id}} V n {value|!Kind} D n {hex|!Kind}`
          (T = trace per input object, V = get_symbol_id_value of every symbol,
           D = Image.data of every image)
  spec  → `ok wf=<0|1> dup=<0|1> undef=<0|1> overfull=<0|1> plans=<-|n {need k {name addr}}>`
  image → `ok <hex>` | `err ValueError`
-/
namespace Model.LinkerProto
open Proto Model.Linker

abbrev P (α : Type) := List String → Option (α × List String)

def tok : P String
  | [] => none
  | t :: r => some (t, r)

def pNat : P Nat := fun ts => match ts with
  | t :: r => (nat? t).map (·, r)
  | [] => none

def pInt : P Int := fun ts => match ts with
  | t :: r => (int? t).map (·, r)
  | [] => none

def pHex : P (List Nat) := fun ts => match ts with
  | t :: r => (fromHex t).map (·, r)
  | [] => none

def pLit (s : String) : P Unit := fun ts => match ts with
  | t :: r => if t == s then some ((), r) else none
  | [] => none

def pOptNat : P (Option Nat) := fun ts => match ts with
  | "-" :: r => some (none, r)
  | t :: r => (nat? t).map (fun n => (some n, r))
  | [] => none

def pOptName : P (Option String) := fun ts => match ts with
  | "-" :: r => some (none, r)
  | t :: r => match t.toList with
    | '=' :: cs => some (some (String.ofList cs), r)
    | _ => none
  | [] => none

def pRepeat {α} (p : P α) : Nat → P (List α)
  | 0, ts => some ([], ts)
  | n + 1, ts => match p ts with
    | none => none
    | some (a, r) => match pRepeat p n r with
      | none => none
      | some (as, r') => some (a :: as, r')

def pCounted {α} (p : P α) : P (List α) := fun ts => match pNat ts with
  | none => none
  | some (n, r) => pRepeat p n r

def pSection : P Section := fun ts => do
  let (name, ts) ← tok ts
  let (address, ts) ← pNat ts
  let (alignment, ts) ← pNat ts
  let (data, ts) ← pHex ts
  pure ({ name, address, alignment, data }, ts)

def pBinding : P Binding := fun ts => match ts with
  | "g" :: r => some (.global, r)
  | "l" :: r => some (.loc, r)
  | _ => none

def pSymbol : P Symbol := fun ts => do
  let (id, ts) ← pNat ts
  let (name, ts) ← tok ts
  let (binding, ts) ← pBinding ts
  let (value, ts) ← pOptNat ts
  let (sect, ts) ← pOptName ts
  let (typ, ts) ← tok ts
  let (size, ts) ← pNat ts
  pure ({ id, name, binding, value, sect, typ, size }, ts)

def pReloc : P Reloc := fun ts => do
  let (typ, ts) ← tok ts
  let (symbolId, ts) ← pNat ts
  let (sect, ts) ← tok ts
  let (offset, ts) ← pNat ts
  let (addend, ts) ← pInt ts
  pure ({ typ, symbolId, sect, offset, addend }, ts)

def pObj : P Obj := fun ts => do
  let (_, ts) ← pLit "S" ts
  let (sections, ts) ← pCounted pSection ts
  let (_, ts) ← pLit "Y" ts
  let (symbols, ts) ← pCounted pSymbol ts
  let (_, ts) ← pLit "R" ts
  let (relocs, ts) ← pCounted pReloc ts
  let (_, ts) ← pLit "E" ts
  let (entry, ts) ← pOptNat ts
  pure ({ sections, symbols, relocs, entry }, ts)

def pMemInput : P MemInput := fun ts => match ts with
  | "S" :: n :: r => some (.sect n, r)
  | "D" :: n :: r => some (.sectData n, r)
  | "Y" :: n :: r => some (.symDef n, r)
  | "A" :: n :: r => (nat? n).map (fun a => (.align a, r))
  | _ => none

def pMemory : P Memory := fun ts => do
  let (name, ts) ← tok ts
  let (location, ts) ← pNat ts
  let (size, ts) ← pNat ts
  let (inputs, ts) ← pCounted pMemInput ts
  pure ({ name, location, size, inputs }, ts)

def pLayout : P (Option Layout) := fun ts => match ts with
  | "-" :: r => some (none, r)
  | "+" :: ts => do
    let (entry, ts) ← pOptName ts
    let (memories, ts) ← pCounted pMemory ts
    pure (some { memories, entry }, ts)
  | _ => none

def pPair : P (String × Nat) := fun ts => do
  let (n, ts) ← tok ts
  let (v, ts) ← pNat ts
  pure ((n, v), ts)

def pReq : P LinkInput := fun ts => do
  let (p, ts) ← pNat ts
  if p > 1 then none
  let (entry, ts) ← pOptName ts
  let (_, ts) ← pLit "X" ts
  let (extras, ts) ← pCounted pPair ts
  let (_, ts) ← pLit "O" ts
  let (objs, ts) ← pCounted pObj ts
  let (_, ts) ← pLit "L" ts
  let (layout, ts) ← pLayout ts
  pure ({ objs, layout, partialLink := p == 1, entry, extras }, ts)

/-! printing -/

def sOptNat : Option Nat → String
  | none => "-"
  | some n => toString n

def sOptName : Option String → String
  | none => "-"
  | some n => "=" ++ n

def sList {α} (tag : String) (f : α → String) (xs : List α) : String :=
  " ".intercalate ([tag, toString xs.length] ++ xs.map f)

def sSection (s : Section) : String := s!"{s.name} {s.address} {s.alignment} {toHex s.data}"

def sSymbol (s : Symbol) : String :=
  let b := match s.binding with | .global => "g" | .loc => "l"
  s!"{s.id} {s.name} {b} {sOptNat s.value} {sOptName s.sect} {s.typ} {s.size}"

def sReloc (r : Reloc) : String := s!"{r.typ} {r.symbolId} {r.sect} {r.offset} {r.addend}"

def sImage (i : Image) : String := " ".intercalate ([i.name, toString i.address, toString i.sections.length] ++ i.sections)

def sTrace (t : ObjTrace) : String :=
  " ".intercalate ([toString t.offsets.length] ++ t.offsets.map (fun p => s!"{p.1} {p.2}")
    ++ [toString t.symIds.length] ++ t.symIds.map toString)

def sExc {α} (f : α → String) : Except Err α → String
  | .ok a => f a
  | .error e => "!" ++ e.name

def sResult (o : Obj) (tr : List ObjTrace) : String :=
  " ".intercalate [
    "ok",
    sList "S" sSection o.sections,
    sList "Y" sSymbol o.symbols,
    sList "R" sReloc o.relocs,
    sList "I" sImage o.images,
    "E " ++ sOptNat o.entry,
    sList "T" sTrace tr,
    sList "V" (fun s => sExc toString (getSymbolIdValue o s.id)) o.symbols,
    sList "D" (fun i => sExc toHex (imageData o.sections i)) o.images ]

def b01 (b : Bool) : String := if b then "1" else "0"

def sPlan (p : Spec.Link.MemPlan) : String :=
  " ".intercalate ([toString p.need, toString p.placed.length] ++ p.placed.map (fun q => s!"{q.1} {q.2}"))

def sSpec (inp : LinkInput) : String :=
  let plans := match Spec.Link.plans inp with
    | none => "-"
    | some ps => " ".intercalate ([toString ps.length] ++ ps.map sPlan)
  s!"ok wf={b01 (Spec.Link.WF inp)} dup={b01 (decide (Spec.Link.DupGlobal inp))} undef={b01 (decide (Spec.Link.UndefGlobal inp))} overfull={b01 (decide (Spec.Link.Overfull inp))} plans={plans}"

def step (line : String) : String :=
  match words line with
  | "link" :: rest =>
    match pReq rest with
    | some (inp, []) =>
      match linkT inp with
      | .error e => "err " ++ e.name
      | .ok (o, tr) => sResult o tr
    | _ => "bad-op"
  | "spec" :: rest =>
    match pReq rest with
    | some (inp, []) => sSpec inp
    | _ => "bad-op"
  | "image" :: rest =>
    match (do let (a, ts) ← pNat rest; let (ss, ts) ← pCounted pSection ts; pure ((a, ss), ts) : Option _) with
    | some ((a, ss), []) =>
      match imageDataFrom a ss with
      | .error e => "err " ++ e.name
      | .ok d => "ok " ++ toHex d
    | _ => "bad-op"
  | _ => "bad-op"


end Model.LinkerProto
