import PpciVerif.Model.PyInt
/-
Runtime of the T1 translator (`translate/py2lean.py`): the Lean meaning of the
Python constructs of the translated fragment.  Core Lean only.  The assumed
Python semantics is written down in `translate/SEMANTICS.md`; every definition
here is one line of that document.

A translated function returns `Except PyErr α`: `.error E` = the Python call
raises `E`.  Two constructors are not Python exceptions:
`FuelExhausted` (a translated loop ran out of its `fuel`; theorems show it is
never returned above a stated bound = termination) and `OutsideFragment`
(execution left the integer fragment: `a ** b` with `b < 0` is a float).
-/
namespace Model.PyRt
open Model

inductive PyErr
  | ValueError | TypeError | ZeroDivisionError | AssertionError | StopIteration | IndexError
  | OverflowError | NotImplementedError | RuntimeError | KeyError
  | FuelExhausted
  | OutsideFragment
  deriving Repr, DecidableEq

def PyErr.name : PyErr → String
  | .ValueError => "ValueError" | .TypeError => "TypeError" | .ZeroDivisionError => "ZeroDivisionError"
  | .AssertionError => "AssertionError" | .StopIteration => "StopIteration" | .IndexError => "IndexError"
  | .OverflowError => "OverflowError" | .NotImplementedError => "NotImplementedError"
  | .RuntimeError => "RuntimeError" | .KeyError => "KeyError"
  | .FuelExhausted => "FuelExhausted" | .OutsideFragment => "OutsideFragment"

/-- sequencing: evaluate `x`; an exception propagates, a value is passed on -/
def bind {α β : Type} (x : Except PyErr α) (f : α → Except PyErr β) : Except PyErr β :=
  match x with
  | .error e => .error e
  | .ok a => f a

/-- how a translated loop that contains a `return` ends: normal exit with the loop
    state, or `return r` from inside the loop -/
inductive Ctl (σ ρ : Type)
  | next (s : σ)
  | ret (r : ρ)

/-- `a << k`, `k` a non-negative literal -/
def shlN (a : Int) (k : Nat) : Int := a * 2 ^ k
/-- `a >> k`, `k` a non-negative literal (floor: `Int` `/` is Euclidean, divisor positive) -/
def shrN (a : Int) (k : Nat) : Int := a / 2 ^ k

/-- `a // b` -/
def floordiv (a b : Int) : Except PyErr Int :=
  if b = 0 then .error .ZeroDivisionError else .ok (Int.fdiv a b)
/-- `a % b` -/
def mod (a b : Int) : Except PyErr Int :=
  if b = 0 then .error .ZeroDivisionError else .ok (Int.fmod a b)
/-- `a << b` -/
def shl (a b : Int) : Except PyErr Int :=
  if b < 0 then .error .ValueError else .ok (shlN a b.toNat)
/-- `a >> b` -/
def shr (a b : Int) : Except PyErr Int :=
  if b < 0 then .error .ValueError else .ok (shrN a b.toNat)
/-- `a ** b` on ints; a negative exponent gives a float = outside the fragment -/
def pow (a b : Int) : Except PyErr Int :=
  if b < 0 then .error .OutsideFragment else .ok (a ^ b.toNat)

/-- `abs(x)` -/
def abs (x : Int) : Int := (x.natAbs : Int)
/-- a `bool` used where an `int` is expected (`True == 1`) -/
def ofBool (b : Bool) : Int := if b then 1 else 0
/-- `x.bit_length()` -/
def bitLength (x : Int) : Int := (PyInt.bitLength x : Int)
/-- `len(l)` -/
def len (l : List Int) : Int := (l.length : Int)

/-- `bytes(l)` for a list of ints: every element must be in `range(256)` -/
def mkBytes (l : List Int) : Except PyErr (List Int) :=
  if l.all (fun b => decide (0 ≤ b ∧ b < 256)) then .ok l else .error .ValueError

/-- `next(it)` on an iterator over ints: pop the head, `StopIteration` when exhausted -/
def next : List Int → Except PyErr (Int × List Int)
  | [] => .error .StopIteration
  | b :: rest => .ok (b, rest)

end Model.PyRt
