import PpciVerif.Model.PyInt
/-
Runtime of the T1 translator (`translate/py2lean.py`): the Lean meaning of the
Python constructs of the translated fragment.  Core Lean only.  The assumed
Python semantics is written down in `translate/SEMANTICS.md`; every definition
here is one line of that document.

A translated function returns `Except PyErr α`: `.error E` = the Python call
raises `E`.  Two constructors are not Python exceptions:
`FuelExhausted` (a translated loop ran out of its `fuel`; theorems show it is
never returned above a stated bound = termination) and `OutsideFragment`
(execution left the integer fragment: `a ** b` with `b < 0` is a float).
-/
namespace Model.PyRt
open Model

inductive PyErr
  | ValueError | TypeError | ZeroDivisionError | AssertionError | StopIteration | IndexError
  | OverflowError | NotImplementedError | RuntimeError | KeyError | AttributeError
  | FuelExhausted
  | OutsideFragment
  deriving Repr, DecidableEq

def PyErr.name : PyErr → String
  | .ValueError => "ValueError" | .TypeError => "TypeError" | .ZeroDivisionError => "ZeroDivisionError"
  | .AssertionError => "AssertionError" | .StopIteration => "StopIteration" | .IndexError => "IndexError"
  | .OverflowError => "OverflowError" | .NotImplementedError => "NotImplementedError"
  | .RuntimeError => "RuntimeError" | .KeyError => "KeyError" | .AttributeError => "AttributeError"
  | .FuelExhausted => "FuelExhausted" | .OutsideFragment => "OutsideFragment"

/-- sequencing: evaluate `x`; an exception propagates, a value is passed on -/
def bind {α β : Type} (x : Except PyErr α) (f : α → Except PyErr β) : Except PyErr β :=
  match x with
  | .error e => .error e
  | .ok a => f a

/-- how a translated loop that contains a `return` ends: normal exit with the loop
    state, or `return r` from inside the loop -/
inductive Ctl (σ ρ : Type)
  | next (s : σ)
  | ret (r : ρ)

/-- `a << k`, `k` a non-negative literal -/
def shlN (a : Int) (k : Nat) : Int := a * 2 ^ k
/-- `a >> k`, `k` a non-negative literal (floor: `Int` `/` is Euclidean, divisor positive) -/
def shrN (a : Int) (k : Nat) : Int := a / 2 ^ k

/-- `a // b` -/
def floordiv (a b : Int) : Except PyErr Int :=
  if b = 0 then .error .ZeroDivisionError else .ok (Int.fdiv a b)
/-- `a % b` -/
def mod (a b : Int) : Except PyErr Int :=
  if b = 0 then .error .ZeroDivisionError else .ok (Int.fmod a b)
/-- `a << b` -/
def shl (a b : Int) : Except PyErr Int :=
  if b < 0 then .error .ValueError else .ok (shlN a b.toNat)
/-- `a >> b` -/
def shr (a b : Int) : Except PyErr Int :=
  if b < 0 then .error .ValueError else .ok (shrN a b.toNat)
/-- `a ** b` on ints; a negative exponent gives a float = outside the fragment -/
def pow (a b : Int) : Except PyErr Int :=
  if b < 0 then .error .OutsideFragment else .ok (a ^ b.toNat)

/-- `abs(x)` -/
def abs (x : Int) : Int := (x.natAbs : Int)
/-- a `bool` used where an `int` is expected (`True == 1`) -/
def ofBool (b : Bool) : Int := if b then 1 else 0
/-- `x.bit_length()` -/
def bitLength (x : Int) : Int := (PyInt.bitLength x : Int)
/-- `len(l)` -/
def len (l : List Int) : Int := (l.length : Int)

/-- `bytes(l)` for a list of ints: every element must be in `range(256)` -/
def mkBytes (l : List Int) : Except PyErr (List Int) :=
  if l.all (fun b => decide (0 ≤ b ∧ b < 256)) then .ok l else .error .ValueError

/-- `next(it)` on an iterator over ints: pop the head, `StopIteration` when exhausted -/
def next : List Int → Except PyErr (Int × List Int)
  | [] => .error .StopIteration
  | b :: rest => .ok (b, rest)

/-! ### bytearray parameters (relocation `apply` bodies)

A `bytearray` is the list of its elements.  `BitView(data, 0, length)[a:b] = value` (ppci/utils/bitfun.py)
is a PRIMITIVE of the translation, not translated code: its meaning is stated on the little-endian integer
of the buffer with the two statements the source applies per byte (`&= 0xFF ^ mask; |= bits`). -/

/-- little-endian value of a buffer -/
def fromLE : List Int → Nat
  | [] => 0
  | b :: bs => b.toNat + 256 * fromLE bs

/-- the `k` low bytes of `x`, least significant first -/
def toLE : Nat → Nat → List Int
  | 0, _ => []
  | k + 1, x => ((x % 256 : Nat) : Int) :: toLE k (x / 256)

/-- `x &= mask ^ (((1 << w) - 1) << b); x |= v << b` with `mask = (1 << size) - 1` -/
def writeBits (size bv b w x : Nat) : Nat :=
  (bv &&& (((1 <<< size) - 1) ^^^ (((1 <<< w) - 1) <<< b))) ||| (x <<< b)

/-- `BitView(data, 0, length)[a:b] = value`:
    `assert b - a > 0; assert b <= length * 8; assert value < (1 << (b - a))`, then bits `[a, b)` of the
    buffer become `value mod 2^(b-a)` (IndexError if the buffer is shorter than the slice needs) -/
def bvSet (data : List Int) (length a b : Nat) (value : Int) : Except PyErr (List Int) :=
  if ¬ (b > a) then .error .AssertionError
  else if ¬ (b ≤ length * 8) then .error .AssertionError
  else if ¬ (value < 2 ^ (b - a)) then .error .AssertionError
  else if b > 8 * data.length then .error .IndexError
  else .ok (toLE data.length (writeBits (8 * data.length) (fromLE data) a (b - a) (value % 2 ^ (b - a)).toNat))

/-- `data[i] = v` on a bytearray: ValueError unless `0 ≤ v < 256`, IndexError past the end -/
def setByte (data : List Int) (i : Nat) (v : Int) : Except PyErr (List Int) :=
  if ¬ (0 ≤ v ∧ v < 256) then .error .ValueError
  else if i ≥ data.length then .error .IndexError
  else .ok (data.set i v)

/-- `data[i] |= v` on a bytearray -/
def orByte (data : List Int) (i : Nat) (v : Int) : Except PyErr (List Int) :=
  match data[i]? with
  | none => .error .IndexError
  | some old =>
    let r := PyInt.or old v
    if ¬ (0 ≤ r ∧ r < 256) then .error .ValueError else .ok (data.set i r)

end Model.PyRt
