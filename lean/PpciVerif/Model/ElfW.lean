import PpciVerif.Spec.Elf
/-
Hand model of ppci/format/elf/{writer,headers,file,string}.py + ppci/format/header.py
(core Lean only; imports `Spec.Elf` ONLY for the vocabulary `Cls End Fmt FName`).
The model mirrors the code after the three repair commits recorded in
findings/C17.json (byte order of header fields, SHN_ABS for absolute symbols,
p_offset ≡ p_vaddr mod page); `Legacy` switches (`Quirks`) keep the old
behaviour available for the negation witnesses in Props/C17.lean.

Python objects ↦ values
  bytes / bytearray             ↦ `List Nat` (every element < 256)
  str (section / symbol names)  ↦ `List Nat` (the ASCII codes; `name.encode("ascii")`)
  the output file `f`           ↦ `ident ++ ehdr ++ phdrs ++ body`; the writer skips the
                                  header area first (`f.seek(size, SEEK_CUR)`), appends
                                  everything else (`body`), and writes the ELF header and
                                  the program headers last, at offset 16 (`f.seek(16)`).
                                  `f.tell()` = `base + body.length`.
  header objects (`mk_header`)  ↦ `Hdr = List (FName × Int)`, absent field = 0 (BaseHeader.__init__)
  `_fields` of a header class   ↦ `List PField` (name, byte-order prefix, struct format),
                                  a PARAMETER of the model (`Layouts`): the driver passes the
                                  tables dumped from the live classes (Gen.ElfHeaders), the
                                  theorems instantiate the gABI tables of Spec.Elf; the two are
                                  proved equal in Props/C17.lean.
  `struct.Struct(fmt).pack(v)`  ↦ `encode` (range error = `struct.error`, class name `error`;
                                  no prefix = native = little-endian on the x86-64 host)
  dict `section_numbers`, `symbol_id_map`, `StringTable.names` ↦ association lists, newest first
  `obj.arch.get_reloc_type(..)` ↦ `Rel.rtype : RType` computed by the harness with the real arch
                                  object (only x86_64 implements it, for 4 relocation names) —
                                  arch code, not part of the ELF writer
  ET_DYN / write_dynamic_section / create_hash_table are not modelled (the property is about
  relocatable and executable files).
-/
namespace Model.ElfW
open Spec.Elf (Cls End Fmt FName)

inductive Err
  | StructError | KeyError | ValueError | ZeroDivisionError | NotImplementedError | AssertionError
  deriving DecidableEq, Repr

def Err.name : Err → String
  | .StructError => "error"
  | .KeyError => "KeyError"
  | .ValueError => "ValueError"
  | .ZeroDivisionError => "ZeroDivisionError"
  | .NotImplementedError => "NotImplementedError"
  | .AssertionError => "AssertionError"

/-! ### header.py: fields and serialisation -/

/-- byte-order prefix of a `struct` format: none (native), `<`, `>` -/
inductive Order | native | lt | gt
  deriving DecidableEq, Repr, Inhabited

structure PField where
  name : FName
  order : Order
  fmt : Fmt
  deriving DecidableEq, Repr

/-- the `_fields` of the six header classes of one `HeaderTypes` instance -/
structure Layouts where
  ehdr : List PField
  phdr : List PField
  shdr : List PField
  sym : List PField
  rela : List PField
  dyn : List PField
  deriving DecidableEq, Repr

/-- `n` low bytes of `v`, least significant first -/
def toLE : Nat → Nat → List Nat
  | 0, _ => []
  | n + 1, v => v % 256 :: toLE n (v / 256)

/-- the values `struct.pack` accepts for a format character -/
def fits (f : Fmt) (v : Int) : Bool :=
  if f.signed then decide (-(2 ^ (8 * f.size - 1) : Int) ≤ v ∧ v < 2 ^ (8 * f.size - 1))
  else decide (0 ≤ v ∧ v < 2 ^ (8 * f.size))

/-- byte order of a prefix on the (little-endian) host -/
def applyOrder (o : Order) (le : List Nat) : List Nat :=
  match o with
  | .gt => le.reverse
  | _ => le

/-- `FormatField.encode`: `struct.Struct(prefix + fmt).pack(value)` -/
def encode (f : PField) (v : Int) : Except Err (List Nat) :=
  if fits f.fmt v then .ok (applyOrder f.order (toLE f.fmt.size (v % 2 ^ (8 * f.fmt.size)).toNat))
  else .error .StructError

abbrev Hdr := List (FName × Int)

def Hdr.get : Hdr → FName → Int
  | [], _ => 0
  | (k, v) :: t, n => if k = n then v else Hdr.get t n

/-- `BaseHeader.serialize` -/
def serialize : List PField → Hdr → Except Err (List Nat)
  | [], _ => .ok []
  | f :: fs, h =>
    match encode f (h.get f.name) with
    | .error e => .error e
    | .ok x =>
      match serialize fs h with
      | .error e => .error e
      | .ok r => .ok (x ++ r)

/-- the class attribute `size` computed by `mk_header` -/
def hsize : List PField → Nat
  | [] => 0
  | f :: fs => f.fmt.size + hsize fs

/-! ### the object file as the writer sees it -/

structure Sec where
  name : List Nat
  address : Nat
  data : List Nat
  alignment : Nat
  deriving DecidableEq, Repr

inductive SymTyp | func | object | other
  deriving DecidableEq, Repr

structure Sym where
  id : Nat
  name : List Nat
  isGlobal : Bool                 -- `binding == ir.Binding.GLOBAL`
  value : Option Nat              -- `None` = undefined
  sect : Option (List Nat)        -- `None` with a value = absolute symbol
  typ : SymTyp
  size : Nat
  deriving DecidableEq, Repr

/-- outcome of `obj.arch.get_reloc_type(rel.reloc_type, symbol)` (arch code, evaluated by the harness) -/
inductive RType
  | ok (n : Nat)
  | notImplemented                -- base class: `raise NotImplementedError("ELF format relocations")`
  | keyError                      -- x86_64: `elf_reloc_mapping[reloc_type]` has no such key
  deriving DecidableEq, Repr

structure Rel where
  rtype : RType
  symbolId : Nat
  sect : List Nat
  offset : Nat
  addend : Int
  deriving DecidableEq, Repr

structure Img where
  name : List Nat
  address : Nat
  sections : List Sec
  deriving DecidableEq, Repr

/-- `obj.arch.name`, the keys of `mapping` / `machine_map` in writer.py -/
inductive Arch | arm | microblaze | x86_64 | xtensa | riscv
  deriving DecidableEq, Repr

/-- `mapping` in `write_elf`: (bits, endianness) -/
def Arch.cls : Arch → Cls
  | .x86_64 => .c64
  | _ => .c32

def Arch.en : Arch → End
  | .microblaze => .be
  | _ => .le

/-- `machine_map` with the values of `ElfMachine` -/
def Arch.machine : Arch → Nat
  | .arm => 0x28
  | .microblaze => 189
  | .x86_64 => 0x3E
  | .xtensa => 0x5E
  | .riscv => 0xF3

inductive EType | rel | exec
  deriving DecidableEq, Repr

def EType.val : EType → Nat
  | .rel => 1
  | .exec => 2

structure Obj where
  arch : Arch
  sections : List Sec
  symbols : List Sym
  relocs : List Rel
  images : List Img
  entry : Option Nat              -- `entry_symbol_id`
  deriving DecidableEq, Repr

/-- switches for the behaviour BEFORE the repair commits (all `false` = current code) -/
structure Quirks where
  noVaddrPadding : Bool := false   -- write_images did not pad to p_vaddr mod page
  absKeyError : Bool := false      -- write_symbol_table looked `None` up in section_numbers
  deriving DecidableEq, Repr

/-! ### objectfile.py pieces the writer calls -/

def zeros (n : Nat) : List Nat := List.replicate n 0

/-- `Image.data`: sections in list order, gaps zero-filled, overlap = ValueError -/
def imageDataFrom : Nat → List Sec → Except Err (List Nat)
  | _, [] => .ok []
  | cur, s :: rest =>
    if s.address < cur then .error .ValueError else
    match imageDataFrom (s.address + s.data.length) rest with
    | .error e => .error e
    | .ok r => .ok (zeros (s.address - cur) ++ s.data ++ r)

def Img.data (i : Img) : Except Err (List Nat) := imageDataFrom i.address i.sections

def findSec (secs : List Sec) (name : List Nat) : Option Sec :=
  secs.find? (fun s => s.name = name)

def findSym (syms : List Sym) (id : Nat) : Option Sym :=
  syms.find? (fun s => s.id = id)

/-- `ObjectFile.get_symbol_id_value` -/
def symbolIdValue (o : Obj) (id : Nat) : Except Err Nat :=
  match findSym o.symbols id with
  | none => .error .KeyError
  | some s =>
    match s.value with
    | none => .error .ValueError
    | some v =>
      match s.sect with
      | none => .ok v
      | some sn =>
        match findSec o.sections sn with
        | none => .error .KeyError
        | some sec => .ok (v + sec.address)

/-! ### string.py -/

def assoc {β} (k : List Nat) : List (List Nat × β) → Option β
  | [] => none
  | (k', v) :: t => if k' = k then some v else assoc k t

def assocN {β} (k : Nat) : List (Nat × β) → Option β
  | [] => none
  | (k', v) :: t => if k' = k then some v else assocN k t

/-! ### writer state -/

structure St where
  base : Nat                          -- file offset where `body` starts
  body : List Nat                     -- everything written after the header area
  strtab : List Nat                   -- StringTable.strtab
  names : List (List Nat × Nat)       -- StringTable.names
  shdrs : List Hdr                    -- section_headers
  secnums : List (List Nat × Nat)     -- section_numbers
  phdrs : List Hdr                    -- program_headers
  symIds : List (Nat × Nat)           -- symbol_id_map
  shoff : Nat                         -- elf_header.e_shoff
  deriving Repr

def St.tell (s : St) : Nat := s.base + s.body.length

def St.write (s : St) (bs : List Nat) : St := { s with body := s.body ++ bs }

/-- `StringTable.get_name` through `ElfWriter.get_string` -/
def St.getString (s : St) (txt : List Nat) : St × Nat :=
  match assoc txt s.names with
  | some off => (s, off)
  | none =>
    let off := s.strtab.length
    ({ s with names := (txt, off) :: s.names, strtab := s.strtab ++ txt ++ [0] }, off)

/-- `align_to` -/
def St.alignTo (s : St) (alignment : Nat) : Except Err St :=
  if alignment = 0 then .error .ZeroDivisionError else
  .ok (s.write (zeros ((alignment - s.tell % alignment) % alignment)))

def SHF_WRITE : Nat := 1
def SHF_ALLOC : Nat := 2
def SHF_EXECINSTR : Nat := 4
def SHF_INFO_LINK : Nat := 0x40
def dataName : List Nat := [100, 97, 116, 97]                       -- "data"
def symtabName : List Nat := [46, 115, 121, 109, 116, 97, 98]        -- ".symtab"
def strtabName : List Nat := [46, 115, 116, 114, 116, 97, 98]        -- ".strtab"
def relaPrefix : List Nat := [46, 114, 101, 108, 97]                 -- ".rela"

/-- `get_string(name)`, then build a section header from the name's offset, append it to `section_headers`
    and, when `register`, record its 1-based number in `section_numbers` -/
def St.addHeader (s : St) (name : List Nat) (mk : Nat → Hdr) (register : Bool) : St :=
  let (s, nm) := s.getString name
  let shdrs := s.shdrs ++ [mk nm]
  { s with shdrs := shdrs, secnums := if register then (name, shdrs.length) :: s.secnums else s.secnums }

/-- the PROGBITS header of `gen_section_header` -/
def secHdr (nm : Nat) (sec : Sec) (offset : Int) : Hdr :=
  [(.sh_name, nm), (.sh_type, 1),
   (.sh_flags, if sec.name = dataName then SHF_ALLOC ||| SHF_WRITE else SHF_ALLOC ||| SHF_EXECINSTR),
   (.sh_addr, sec.address), (.sh_offset, offset), (.sh_size, sec.data.length), (.sh_addralign, sec.alignment)]

/-- `gen_section_header` -/
def St.genSectionHeader (s : St) (sec : Sec) (offset : Int) : St :=
  s.addHeader sec.name (fun nm => secHdr nm sec offset) true

def pageSize : Nat := 0x1000

def genImageSectionHeaders (fileOffset : Nat) (imgAddr : Nat) : St → List Sec → St
  | s, [] => s
  | s, sec :: rest =>
    genImageSectionHeaders fileOffset imgAddr
      (s.genSectionHeader sec ((fileOffset : Int) + ((sec.address : Int) - imgAddr))) rest

/-- one iteration of the loop in `write_images` -/
def St.writeImage (q : Quirks) (s : St) (img : Img) : Except Err St :=
  match s.alignTo pageSize with
  | .error e => .error e
  | .ok s =>
    let s := if q.noVaddrPadding then s else s.write (zeros (img.address % pageSize))
    let fileOffset := s.tell
    let s := genImageSectionHeaders fileOffset img.address s img.sections
    match img.data with
    | .error e => .error e
    | .ok d =>
      let s := s.write d
      let flags : Int := if img.name = [99, 111, 100, 101] then 5 else 6       -- "code"
      let ph : Hdr := [(.p_type, 1), (.p_flags, flags), (.p_offset, fileOffset), (.p_vaddr, img.address),
                       (.p_paddr, img.address), (.p_filesz, d.length), (.p_memsz, d.length),
                       (.p_align, pageSize)]
      .ok { s with phdrs := s.phdrs ++ [ph] }

def writeImages (q : Quirks) : St → List Img → Except Err St
  | s, [] => .ok s
  | s, i :: rest =>
    match s.writeImage q i with
    | .error e => .error e
    | .ok s' => writeImages q s' rest

/-- `write_sections` -/
def writeSections : St → List Sec → Except Err St
  | s, [] => .ok s
  | s, sec :: rest =>
    match assoc sec.name s.secnums with
    | some _ => writeSections s rest
    | none =>
      match s.alignTo sec.alignment with
      | .error e => .error e
      | .ok s =>
        let off := s.tell
        let s := s.write sec.data
        writeSections (s.genSectionHeader sec off) rest

def SymTyp.st : SymTyp → Nat
  | .func => 2
  | .object => 1
  | .other => 0

/-- the `SymbolTableEntry` object built for one symbol (`st_other` stays 0) -/
def symHdr (nm : Nat) (g : Bool) (t : SymTyp) (shndx value size : Nat) : Hdr :=
  [(.st_name, nm), (.st_info, (((if g then 1 else 0) * 16 + t.st : Nat) : Int)), (.st_shndx, shndx), (.st_value, value),
   (.st_size, size)]

/-- the loop body of `write_symbol_table` for one symbol -/
def St.writeSymbol (q : Quirks) (L : Layouts) (o : Obj) (s : St) (nr : Nat) (sy : Sym) : Except Err St :=
  let s := { s with symIds := (sy.id, nr) :: s.symIds }
  let (s, nm) := s.getString sy.name
  let place : Except Err (Nat × Nat) :=
    match sy.value with
    | none => .ok (0, 0)
    | some v =>
      match sy.sect with
      | none => if q.absKeyError then .error .KeyError else .ok (0xFFF1, v)
      | some sn =>
        match assoc sn s.secnums with
        | none => .error .KeyError
        | some num =>
          match findSec o.sections sn with
          | none => .error .KeyError
          | some sec => .ok (num, v + sec.address)
  match place with
  | .error e => .error e
  | .ok (shndx, value) =>
    match serialize L.sym (symHdr nm sy.isGlobal sy.typ shndx value sy.size) with
    | .error e => .error e
    | .ok bs => .ok (s.write bs)

def writeSymbols (q : Quirks) (L : Layouts) (o : Obj) : St → Nat → List Sym → Except Err St
  | s, _, [] => .ok s
  | s, nr, sy :: rest =>
    match s.writeSymbol q L o nr sy with
    | .error e => .error e
    | .ok s' => writeSymbols q L o s' (nr + 1) rest

def wordAlign (c : Cls) : Nat :=
  match c with
  | .c64 => 8
  | .c32 => 4

/-- `local_symbols + global_symbols` -/
def orderSymbols (syms : List Sym) : List Sym :=
  syms.filter (fun s => !s.isGlobal) ++ syms.filter (fun s => s.isGlobal)

/-- the SYMTAB header of `write_symbol_table` (`sh_link` is patched in `write_section_headers`) -/
def symtabHdr (nm off size info alignment entsize : Nat) : Hdr :=
  [(.sh_name, nm), (.sh_type, 2), (.sh_flags, SHF_ALLOC), (.sh_offset, off), (.sh_size, size), (.sh_link, 0),
   (.sh_info, info), (.sh_addralign, alignment), (.sh_entsize, entsize)]

/-- `write_symbol_table` -/
def writeSymbolTable (q : Quirks) (L : Layouts) (o : Obj) (s : St) : Except Err St :=
  let alignment := wordAlign o.arch.cls
  match s.alignTo alignment with
  | .error e => .error e
  | .ok s =>
    let symtabOffset := s.tell
    let entsize := hsize L.sym
    let symtabSize := entsize * (o.symbols.length + 1)
    let locals := o.symbols.filter (fun s => !s.isGlobal)
    let s := s.write (zeros entsize)
    match writeSymbols q L o s 1 (orderSymbols o.symbols) with
    | .error e => .error e
    | .ok s =>
      .ok (s.addHeader symtabName
        (fun nm => symtabHdr nm symtabOffset symtabSize (locals.length + 1) alignment entsize) true)

/-! ### RELA tables -/

/-- lexicographic order of byte strings = Python's `sorted` on ASCII `str` -/
def nameLt : List Nat → List Nat → Bool
  | [], [] => false
  | [], _ :: _ => true
  | _ :: _, [] => false
  | a :: as, b :: bs => if a < b then true else if b < a then false else nameLt as bs

def insertName (n : List Nat) : List (List Nat) → List (List Nat)
  | [] => [n]
  | m :: ms => if n = m then m :: ms else if nameLt n m then n :: m :: ms else m :: insertName n ms

/-- `sorted(reloc_groups)`: the distinct section names, ascending -/
def relocSectionNames (rels : List Rel) : List (List Nat) :=
  rels.foldl (fun acc r => insertName r.sect acc) []

/-- the `RelocationTableEntry` object built for one relocation: `r_info = (r_sym << 32) + r_type` (64 bit),
    `(r_sym << 8) + r_type` (32 bit) -/
def relaHdr (c : Cls) (off rsym rtype : Nat) (add : Int) : Hdr :=
  [(.r_offset, off), (.r_info, match c with
      | .c64 => (rsym : Int) * 4294967296 + rtype
      | .c32 => (rsym : Int) * 256 + rtype), (.r_addend, add)]

/-- one relocation entry -/
def St.writeRela (L : Layouts) (c : Cls) (s : St) (r : Rel) : Except Err St :=
  match assocN r.symbolId s.symIds with
  | none => .error .KeyError
  | some rsym =>
    match r.rtype with
    | .notImplemented => .error .NotImplementedError
    | .keyError => .error .KeyError
    | .ok rtype =>
      match serialize L.rela (relaHdr c r.offset rsym rtype r.addend) with
      | .error e => .error e
      | .ok bs => .ok (s.write bs)

def writeRelas (L : Layouts) (c : Cls) : St → List Rel → Except Err St
  | s, [] => .ok s
  | s, r :: rest =>
    match s.writeRela L c r with
    | .error e => .error e
    | .ok s' => writeRelas L c s' rest

/-- the RELA header of `write_rela_table` (`sh_link` is patched later; not entered in `section_numbers`) -/
def relaTabHdr (nm off size target alignment entsize : Nat) : Hdr :=
  [(.sh_name, nm), (.sh_type, 4), (.sh_flags, SHF_INFO_LINK), (.sh_offset, off), (.sh_size, size), (.sh_link, 0),
   (.sh_info, target), (.sh_addralign, alignment), (.sh_entsize, entsize)]

/-- the body of the `for section_name in sorted(reloc_groups)` loop
    (`get_string(rela_name)` and the `section_numbers[section_name]` lookup commute) -/
def St.writeRelaGroup (L : Layouts) (o : Obj) (s : St) (secName : List Nat) : Except Err St :=
  let alignment := wordAlign o.arch.cls
  let entsize := hsize L.rela
  let group := o.relocs.filter (fun r => r.sect = secName)
  match s.alignTo alignment with
  | .error e => .error e
  | .ok s =>
    let relaOffset := s.tell
    match writeRelas L o.arch.cls s group with
    | .error e => .error e
    | .ok s =>
      match assoc secName s.secnums with
      | none => .error .KeyError
      | some target =>
        .ok (s.addHeader (relaPrefix ++ secName)
          (fun nm => relaTabHdr nm relaOffset (entsize * group.length) target alignment entsize) false)

def writeRelaGroups (L : Layouts) (o : Obj) : St → List (List Nat) → Except Err St
  | s, [] => .ok s
  | s, n :: rest =>
    match s.writeRelaGroup L o n with
    | .error e => .error e
    | .ok s' => writeRelaGroups L o s' rest

/-- `write_rela_table` -/
def writeRelaTable (L : Layouts) (o : Obj) (s : St) : Except Err St :=
  writeRelaGroups L o s (relocSectionNames o.relocs)

/-- the STRTAB header of `write_string_table` -/
def strtabHdr (nm off size : Nat) : Hdr :=
  [(.sh_name, nm), (.sh_type, 3), (.sh_flags, SHF_ALLOC), (.sh_offset, off), (.sh_size, size), (.sh_addralign, 1)]

/-- `write_string_table` -/
def writeStringTable (s : St) : St :=
  let off := s.tell
  let (s, nm) := s.getString strtabName
  let s := s.write s.strtab
  let shdrs := s.shdrs ++ [strtabHdr nm off s.strtab.length]
  { s with shdrs := shdrs, secnums := (strtabName, shdrs.length) :: s.secnums }

/-- patch the forward links of one section header (`write_section_headers`) -/
def patchLink (secnums : List (List Nat × Nat)) (h : Hdr) : Except Err Hdr :=
  if h.get .sh_type = 2 then
    match assoc strtabName secnums with
    | none => .error .KeyError
    | some n => .ok ((.sh_link, (n : Int)) :: h)
  else if h.get .sh_type = 4 then
    match assoc symtabName secnums with
    | none => .error .KeyError
    | some n => .ok ((.sh_link, (n : Int)) :: h)
  else .ok h

def writeHeaders (L : Layouts) (secnums : List (List Nat × Nat)) : St → List Hdr → Except Err St
  | s, [] => .ok s
  | s, h :: rest =>
    match patchLink secnums h with
    | .error e => .error e
    | .ok h' =>
      match serialize L.shdr h' with
      | .error e => .error e
      | .ok bs => writeHeaders L secnums (s.write bs) rest

/-- `write_section_headers` -/
def writeSectionHeaders (L : Layouts) (s : St) : Except Err St :=
  match s.alignTo 8 with
  | .error e => .error e
  | .ok s =>
    let s := { s with shoff := s.tell }
    let s := s.write (zeros (hsize L.shdr))
    writeHeaders L s.secnums s s.shdrs

def serializeAll (fs : List PField) : List Hdr → Except Err (List Nat)
  | [] => .ok []
  | h :: rest =>
    match serialize fs h with
    | .error e => .error e
    | .ok x =>
      match serializeAll fs rest with
      | .error e => .error e
      | .ok r => .ok (x ++ r)

/-- `write_identification` -/
def ident (a : Arch) : List Nat :=
  [0x7F, 0x45, 0x4C, 0x46,
   (match a.cls with | .c32 => 1 | .c64 => 2),
   (match a.en with | .le => 1 | .be => 2),
   1, 0] ++ zeros 8

/-- `if self.obj.images and self.e_type in [ET_EXEC, ET_DYN]` -/
def withImages (o : Obj) (t : EType) : Bool := !o.images.isEmpty && t == .exec

/-- `e_phnum`, `e_phentsize`, `e_phoff` as set by `write_images` (0 when it does not run) -/
def phnum (o : Obj) (t : EType) : Nat := if withImages o t then o.images.length else 0
def phentsize (L : Layouts) (o : Obj) (t : EType) : Nat := if withImages o t then hsize L.phdr else 0
def phoff (L : Layouts) (o : Obj) (t : EType) : Nat := if withImages o t then 16 + hsize L.ehdr else 0

/-- the writer after `write_identification` and the two `seek`s over the header area -/
def initState (L : Layouts) (o : Obj) (t : EType) : St :=
  { base := 16 + hsize L.ehdr + phnum o t * phentsize L o t, body := [], strtab := [0], names := [],
    shdrs := [], secnums := [], phdrs := [], symIds := [], shoff := 0 }

/-- `e_entry` in `write_elf_header` -/
def entryValue (o : Obj) (t : EType) : Except Err Int :=
  if t == .exec then
    match o.entry with
    | none => .ok 0
    | some id =>
      match symbolIdValue o id with
      | .error e => .error e
      | .ok v => .ok v
  else .ok 0

/-- the ELF header object at `write_elf_header` -/
def elfHeader (L : Layouts) (o : Obj) (t : EType) (s : St) (entry : Int) (shstrndx : Nat) : Hdr :=
  [(.e_type, t.val), (.e_machine, o.arch.machine), (.e_version, 1), (.e_entry, entry),
   (.e_phoff, phoff L o t), (.e_shoff, s.shoff), (.e_flags, 0), (.e_ehsize, 16 + hsize L.ehdr),
   (.e_phentsize, phentsize L o t), (.e_phnum, phnum o t), (.e_shentsize, hsize L.shdr),
   (.e_shnum, s.shdrs.length + 1), (.e_shstrndx, shstrndx)]

/-- `export_object` (for ET_REL and ET_EXEC) -/
def exportObject (q : Quirks) (L : Layouts) (o : Obj) (t : EType) : Except Err (List Nat) :=
  match (if withImages o t then writeImages q (initState L o t) o.images else .ok (initState L o t)) with
  | .error e => .error e
  | .ok s =>
  match writeSections s o.sections with
  | .error e => .error e
  | .ok s =>
  match writeSymbolTable q L o s with
  | .error e => .error e
  | .ok s =>
  match (if t == .rel then writeRelaTable L o s else .ok s) with
  | .error e => .error e
  | .ok s =>
  match writeSectionHeaders L (writeStringTable s) with
  | .error e => .error e
  | .ok s =>
  -- write_elf_header
  match entryValue o t with
  | .error e => .error e
  | .ok entry =>
  match assoc strtabName s.secnums with
  | none => .error .KeyError
  | some shstrndx =>
  match serialize L.ehdr (elfHeader L o t s entry shstrndx) with
  | .error e => .error e
  | .ok ehb =>
  -- write_program_headers
  if s.phdrs.length ≠ phnum o t then .error .AssertionError else
  match serializeAll L.phdr s.phdrs with
  | .error e => .error e
  | .ok phb => .ok (ident o.arch ++ ehb ++ phb ++ s.body)

/-- the current code -/
def write (L : Layouts) (o : Obj) (t : EType) : Except Err (List Nat) := exportObject {} L o t

end Model.ElfW
