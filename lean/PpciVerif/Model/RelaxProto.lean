import PpciVerif.Model.Proto
import PpciVerif.Model.LinkerProto
import PpciVerif.Model.RelaxLink
import PpciVerif.Spec.RV32
import PpciVerif.Spec.Relax
import PpciVerif.Spec.RelocSem
import PpciVerif.Gen.RelaxTab
/-! Line protocol of the C13 driver (linker relaxation); compiled here so that
`lean --run Drivers/C13.lean` starts fast.

Requests (tokens as in `Model.LinkerProto`: names without blanks, hex byte strings, `-` = empty/None):

  relax  <OBJ>    `Model.Relax.doRelaxations`
  finish <OBJ>    `Model.RelaxLink.finish`       (relaxation + relocation = the end of `Linker.link`)
  plain  <OBJ>    `Model.RelaxLink.finishPlain`  (relocation only = the unrelaxed link)
  all    <OBJ>    the three of them on one parsed object: `<plain reply> ;; <relax reply> ;; <finish reply>`
  OBJ := S <n> {name addr align hex} Y <n> {id name g|l value|- sect(-|=name) typ size}
         R <n> {typ symid sect offset addend} E <id|-> I <n> {name addr k {secname}}
  → `err <Kind>` | `ok S n {name addr align hex} Y n {…} R n {…} H n {sect off size} V n {value|!Kind}`
    (H = the registered holes in registration order, `plain`: none; V = get_symbol_id_value per symbol)

  insn <hex>      decode the instruction at the start of the bytes with `Spec.RV32`
  → `ok <len> jal <rd> <off>` | `ok <len> br <off>` | `ok <len> other` | `ok 0 illegal`
    (C.J = `2 jal 0 off`, C.JAL = `2 jal 1 off`, C.BEQZ/C.BNEZ = `2 br off`; decided on the EXPANSION)
  target <type> <P> <hex>   `Spec.RelocSem.decodeTarget "riscv"` → `ok <address>` | `ok -`
  hilo <hexhi> <hexlo>      `Spec.RelocSem.rvHiLo` of a lui/auipc + addi pair → `ok <value>`
  spec <len> <n> {off size} <k> {offset}   `Spec.Relax`: → `ok from=<0|1> within=<0|1> total=<t> phi=[..] in=[..] strict=[..]`
  remove <hex> <n> {off size}              `Spec.Relax.removeBytes` → `ok <hex>`
  table            the hand table equals the regenerated one → `ok 1` | `ok 0`
  run <pc> <sp> <maxsteps> <n> {addr hex}  execute with `Spec.RV32.step` from `pc`
  → `ok <stop> <steps> <pc> [x10..x17] <hex of the data words>` where stop ∈ ebreak ecall illegal limit
-/
namespace Model.RelaxProto
open Proto Model.LinkerProto Model.Relax Model.RelaxLink
open Model.Linker (Obj Reloc Section Image Symbol getSec updSec getSymbolIdValue)

def pImage : P Image := fun ts => do
  let (name, ts) ← tok ts
  let (address, ts) ← pNat ts
  let (sections, ts) ← pCounted tok ts
  pure ({ name, address, sections }, ts)

def pObjI : P Obj := fun ts => do
  let (o, ts) ← pObj ts
  let (_, ts) ← pLit "I" ts
  let (images, ts) ← pCounted pImage ts
  pure ({ o with images }, ts)

def sHole (p : String × Model.Relax.Hole) : String := s!"{p.1} {p.2.1} {p.2.2}"

def sExcL {α} (f : α → String) : Except Model.Linker.Err α → String
  | .ok a => f a
  | .error e => "!" ++ e.name

def sObj (o : Obj) (m : HoleMap) : String :=
  " ".intercalate [
    "ok",
    sList "S" sSection o.sections,
    sList "Y" sSymbol o.symbols,
    sList "R" sReloc o.relocs,
    sList "H" sHole m,
    sList "V" (fun s => sExcL toString (getSymbolIdValue o s.id)) o.symbols ]

def wordOf (bs : List Nat) : Nat := Spec.RelocSem.wordLE bs

def sInsn (bs : List Nat) : String :=
  match bs with
  | b0 :: b1 :: rest =>
    if b0 % 4 = 3 then
      match rest with
      | b2 :: b3 :: _ =>
        match Spec.RV32.decode (wordOf [b0, b1, b2, b3]) with
        | some (.jal rd off) => s!"ok 4 jal {rd} {off}"
        | some (.branch _ _ _ off) => s!"ok 4 br {off}"
        | some _ => "ok 4 other"
        | none => "ok 0 illegal"
      | _ => "ok 0 illegal"
    else
      match Spec.RV32.decodeC (wordOf [b0, b1]) with
      | some c =>
        match c.expand with
        | .jal rd off => s!"ok 2 jal {rd} {off}"
        | .branch _ _ _ off => s!"ok 2 br {off}"
        | _ => "ok 2 other"
      | none => "ok 0 illegal"
  | _ => "ok 0 illegal"

def pHole : P Spec.Relax.Hole := fun ts => do
  let (o, ts) ← pNat ts
  let (s, ts) ← pNat ts
  pure ((o, s), ts)

/-! ### execution -/

structure Seg where
  addr : Nat
  bytes : Array Nat

def memOf (segs : List Seg) (a : Nat) : Nat :=
  match segs.find? (fun s => s.addr ≤ a ∧ a < s.addr + s.bytes.size) with
  | some s => s.bytes.getD (a - s.addr) 0
  | none => 0

def fetch (s : Spec.RV32.State) : Option (Spec.RV32.Instr × Nat) :=
  let b := fun i => Spec.RV32.loadByte s (s.pc + i)
  let h := b 0 + 256 * b 1
  if h % 4 = 3 then
    (Spec.RV32.decode (h + 65536 * (b 2 + 256 * b 3))).map (·, 4)
  else (Spec.RV32.decodeC h).map (fun c => (c.expand, 2))

def runLoop : Nat → Nat → Spec.RV32.State → String × Nat × Spec.RV32.State
  | 0, n, s => ("limit", n, s)
  | fuel + 1, n, s =>
    match fetch s with
    | none => ("illegal", n, s)
    | some (i, len) =>
      match Spec.RV32.step s i len with
      | none => ((match i with | .ecall => "ecall" | _ => "ebreak"), n, s)
      | some s' => runLoop fuel (n + 1) s'

def pSeg : P Seg := fun ts => do
  let (a, ts) ← pNat ts
  let (d, ts) ← pHex ts
  pure ({ addr := a, bytes := d.toArray }, ts)

def step (line : String) : String :=
  match words line with
  | "relax" :: rest =>
    match pObjI rest with
    | some (o, []) =>
      match doRelaxations o with
      | .error e => "err " ++ e.name
      | .ok (o', m) => sObj o' m
    | _ => "bad-op"
  | "finish" :: rest =>
    match pObjI rest with
    | some (o, []) =>
      match finish o with
      | .error e => "err " ++ e.name
      | .ok (o', m) => sObj o' m
    | _ => "bad-op"
  | "plain" :: rest =>
    match pObjI rest with
    | some (o, []) =>
      match finishPlain o with
      | .error e => "err " ++ e.name
      | .ok o' => sObj o' []
    | _ => "bad-op"
  | "all" :: rest =>
    match pObjI rest with
    | some (o, []) =>
      let a := match finishPlain o with | .error e => "err " ++ e.name | .ok o' => sObj o' []
      let b := match doRelaxations o with | .error e => "err " ++ e.name | .ok (o', m) => sObj o' m
      let c := match finish o with | .error e => "err " ++ e.name | .ok (o', m) => sObj o' m
      a ++ " ;; " ++ b ++ " ;; " ++ c
    | _ => "bad-op"
  | ["insn", h] =>
    match fromHex h with
    | some bs => sInsn bs
    | none => "bad-op"
  | ["target", ty, p, h] =>
    match int? p, fromHex h with
    | some P, some bs =>
      match Spec.RelocSem.decodeTarget "riscv" ty bs P with
      | some t => s!"ok {t}"
      | none => "ok -"
    | _, _ => "bad-op"
  | ["hilo", hi, lo] =>
    match fromHex hi, fromHex lo with
    | some a, some b => s!"ok {Spec.RelocSem.rvHiLo (wordOf a) (wordOf b)}"
    | _, _ => "bad-op"
  | "spec" :: rest =>
    match (do let (len, ts) ← pNat rest; let (hs, ts) ← pCounted pHole ts; let (os, ts) ← pCounted pNat ts
              pure ((len, hs, os), ts) : Option _) with
    | some ((len, hs, os), []) =>
      let within := hs.all (fun h => decide (h.1 + h.2 ≤ len))
      s!"ok from={b01 (decide (Spec.Relax.HolesFrom 0 hs))} within={b01 within} total={Spec.Relax.totalSize hs} phi={showNatList (os.map (Spec.Relax.phi hs))} in={showNatList (os.map (fun o => if Spec.Relax.inHole hs o then 1 else 0))} strict={showNatList (os.map (fun o => if Spec.Relax.strictlyInside hs o then 1 else 0))}"
    | _ => "bad-op"
  | "remove" :: h :: rest =>
    match fromHex h, pCounted pHole rest with
    | some bs, some (hs, []) => "ok " ++ toHex (Spec.Relax.removeBytes hs bs)
    | _, _ => "bad-op"
  | ["table"] =>
    "ok " ++ b01 (Gen.RelaxTab.table == Model.Relax.rvcTable.map (fun p =>
      (p.1, p.2.size, (match p.2.shrink with | none => 0 | some k => k.funct3),
       (match p.2.shrink with | none => "-" | some _ => Model.Relax.shrunkType))))
  | "run" :: rest =>
    match (do let (pc, ts) ← pNat rest; let (sp, ts) ← pNat ts; let (fuel, ts) ← pNat ts
              let (segs, ts) ← pCounted pSeg ts
              pure ((pc, sp, fuel, segs), ts) : Option _) with
    | some ((pc, sp, fuel, segs), []) =>
      let s0 : Spec.RV32.State := { regs := fun r => if r = 2 then sp else 0, pc := pc, mem := memOf segs, csr := fun _ => 0 }
      let (stop, n, s) := runLoop fuel 0 s0
      let regs := (List.range 8).map (fun i => s.get (10 + i))
      s!"ok {stop} {n} {s.pc} {showNatList regs}"
    | _ => "bad-op"
  | _ => "bad-op"

end Model.RelaxProto
