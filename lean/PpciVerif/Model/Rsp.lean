/-
Hand model of `ppci/binutils/dbg/gdb/rsp.py` (import-free, core Lean only).

Characters are `Nat` code points; the model is validated (and the property is
stated) for 7-bit characters only: the real decoder does `res.decode("ascii")`
and `send` does `msg.encode("ascii")`, which raise on anything ≥ 128.

  36 '$'   35 '#'   43 '+'   45 '-'   125 '}'   42 '*'   39 '\''

`Model.Rsp`            the code as it is NOW (after the three "fix:" commits)
`Model.Rsp.Legacy`     the decoder / `rsp_unpack` as they were at the pinned
                       snapshot 722bf2e (kept so that the negation witnesses
                       of the three repaired defects stay machine-checked)

Everything that is a thread, a lock, a socket or a 0.5 s timeout in the real
code is outside this model:  `_ack_queue` is a single optional slot, a `put`
on a full slot / a `get` on an empty slot is the exception the real queue
raises after its timeout (`Full` / `Empty`), `_lock` does not exist, and the
transport is a script: the reply to the i-th packet transmission is injected
synchronously, byte by byte, from inside `transport.send`.
-/
namespace Model.Rsp

inductive Err
  | full          -- queue.Full   : `_ack_queue.put` on an occupied slot
  | empty         -- queue.Empty  : `_ack_queue.get` with nothing queued (the 0.5 s timeout)
  | valueError    -- ValueError   : "retry fail", bad packet, bad checksum
  | indexError    -- IndexError   : `pkt[0]` / `pkt[-3]` on a too short string
  deriving DecidableEq, Repr

def Err.name : Err → String
  | .full => "Full"
  | .empty => "Empty"
  | .valueError => "ValueError"
  | .indexError => "IndexError"

/-! ### rsp_pack -/

/-- `str.replace(a, rep)` for a one-character pattern `a`. -/
def replaceCh (a : Nat) (rep : List Nat) : List Nat → List Nat
  | [] => []
  | c :: cs => if c = a then rep ++ replaceCh a rep cs else c :: replaceCh a rep cs

/-- the four successive replacements of `rsp_pack`, in the order of the source:
    `}` first, then `*`, `#`, `$`; the replacement is `}` followed by `chr(ord(x) ^ 0x20)`. -/
def escapeData (d : List Nat) : List Nat :=
  replaceCh 36 [125, 36 ^^^ 32]
    (replaceCh 35 [125, 35 ^^^ 32]
      (replaceCh 42 [125, 42 ^^^ 32]
        (replaceCh 125 [125, 125 ^^^ 32] d)))

/-- `sum(ord(c) for c in data) % 256` -/
def checksum (d : List Nat) : Nat := d.sum % 256

/-- one digit of `f"{crc:02X}"` -/
def hexUp (n : Nat) : Nat := if n < 10 then 48 + n else 55 + n

/-- `rsp_pack(data)` = `f"${data}#{crc:02X}"` after escaping. -/
def pack (d : List Nat) : List Nat :=
  let e := escapeData d
  let crc := checksum e
  36 :: (e ++ [35, hexUp (crc / 16), hexUp (crc % 16)])

/-! ### rsp_unpack -/

def hexVal (c : Nat) : Option Nat :=
  if 48 ≤ c ∧ c ≤ 57 then some (c - 48)
  else if 65 ≤ c ∧ c ≤ 70 then some (c - 55)
  else if 97 ≤ c ∧ c ≤ 102 then some (c - 87)
  else none

/-- characters `int()` strips: `\t \n \v \f \r` and blank -/
def isSpace (c : Nat) : Bool := (9 ≤ c && c ≤ 13) || c == 32

/-- CPython `int(s, 16)` on a two-character 7-bit string `s = [a, b]`
    (`none` = ValueError).  Besides two hex digits it accepts one digit with
    leading/trailing white space and one digit with a sign. -/
def pyInt16 (a b : Nat) : Option Int :=
  match hexVal a, hexVal b with
  | some x, some y => some (16 * x + y : Nat)
  | some x, none => if isSpace b then some (x : Nat) else none
  | none, some y =>
      if isSpace a || a == 43 then some (y : Nat)
      else if a == 45 then some (-(y : Nat) : Int)
      else none
  | none, none => none

/-- the unescape loop added to `rsp_unpack` (flag = "previous char was `}`");
    a trailing lone `}` is dropped. -/
def unescAux : Bool → List Nat → List Nat
  | _, [] => []
  | true, c :: cs => (c ^^^ 32) :: unescAux false cs
  | false, c :: cs => if c = 125 then unescAux true cs else c :: unescAux false cs

def unescape (d : List Nat) : List Nat := unescAux false d

/-- `crc == int(pkt[-2:], 16)` -/
def crcAccepts (body : List Nat) (c1 c2 : Nat) : Bool :=
  match pyInt16 c1 c2 with
  | some v => decide ((checksum body : Int) = v)
  | none => false

/-- `rsp_unpack(pkt)`. `pkt[0]`/`pkt[-3]` raise IndexError on too short strings,
    everything else that goes wrong is a ValueError. -/
def unpack (pkt : List Nat) : Except Err (List Nat) :=
  match pkt with
  | [] => .error .indexError
  | c0 :: _ =>
    if c0 ≠ 36 then .error .valueError
    else match pkt.reverse with
      | c2 :: c1 :: h :: midRev =>
        if h ≠ 35 then .error .valueError
        else
          let body := midRev.reverse.drop 1          -- pkt[1:-3]
          if crcAccepts body c1 c2 then .ok (unescape body) else .error .valueError
      | _ => .error .indexError

/-! ### decoder() — the generator as a state machine -/

inductive DState
  | idle                         -- at the top `while True`, waiting for `$`, `+`, `-`
  | body (buf : List Nat)        -- inside `$…`, `buf` = `res` (starts with `$`)
  | crc1 (buf : List Nat)        -- `#` seen, first checksum char pending
  | crc2 (buf : List Nat)        -- second checksum char pending
  deriving DecidableEq, Repr

inductive Msg
  | ack (c : Nat)                -- "+" or "-"
  | pkt (p : List Nat)           -- "$…#xx"
  deriving DecidableEq, Repr

/-- `decoder().send(byte)`: new generator state and the yielded value. -/
def dstep : DState → Nat → DState × Option Msg
  | .idle, b =>
      if b = 36 then (.body [36], none)
      else if b = 43 ∨ b = 45 then (.idle, some (.ack b))
      else (.idle, none)
  | .body buf, b =>
      if b = 35 then (.crc1 (buf ++ [b]), none) else (.body (buf ++ [b]), none)
  | .crc1 buf, b => (.crc2 (buf ++ [b]), none)
  | .crc2 buf, b => (.idle, some (.pkt (buf ++ [b])))

/-- the messages yielded while a byte string is pushed through the decoder -/
def decodeAll : DState → List Nat → DState × List Msg
  | s, [] => (s, [])
  | s, b :: bs =>
    let (s1, m) := dstep s b
    let (s2, ms) := decodeAll s1 bs
    (s2, match m with | some x => x :: ms | none => ms)

/-! ### RspHandler -/

/-- Observable state of a handler + fake transport.
    `sent`      every `transport.send(data)` call, in order
    `delivered` every `on_message(res)` call, in order
    `err`       the exception that ended the scenario (sticky) -/
structure HState where
  dec : DState := .idle
  ackq : Option Nat := none
  sent : List (List Nat) := []
  delivered : List (List Nat) := []
  err : Option Err := none
  deriving DecidableEq, Repr

/-- `decodepkt(pkt)` -/
def decodepkt (h : HState) (p : List Nat) : HState :=
  if p.head? = some 36 then          -- pkt.startswith("$")
    match unpack p with
    | .ok res => { h with sent := h.sent ++ [[43]], delivered := h.delivered ++ [res] }
    | .error .valueError => { h with sent := h.sent ++ [[45]] }
    | .error e => { h with err := some e }
  else h                             -- "discards"

/-- `_process_byte(byte)` (a raised exception makes the state absorbing). -/
def processByte (h : HState) (b : Nat) : HState :=
  if h.err.isSome then h else
  let (d, m) := dstep h.dec b
  match m with
  | none => { h with dec := d }
  | some (.ack c) =>
    match h.ackq with
    | some _ => { h with dec := d, err := some .full }
    | none => { h with dec := d, ackq := some c }
  | some (.pkt p) => decodepkt { h with dec := d } p

/-- the receive path is a fold over the bytes … -/
def feed (h : HState) (bs : List Nat) : HState := bs.foldl processByte h

/-- … and over the chunks the transport happens to deliver. -/
def feedChunks (h : HState) (chunks : List (List Nat)) : HState := chunks.foldl feed h

/-- `transport.send(wire)` of the fake transport: record, then inject the scripted reply. -/
def transmit (h : HState) (wire reply : List Nat) : HState :=
  feed { h with sent := h.sent ++ [wire] } reply

/-- the `while res != "+"` loop of `sendpkt`; `script` = replies to the coming
    retransmissions; `retries` is a Python int (0 or negative never reaches 0). -/
def resend (wire : List Nat) : List (List Nat) → HState → Nat → Int → HState
  | [], h, res, retries =>
    if res = 43 then h else
    let h1 := transmit h wire []
    match h1.ackq with
    | none => { h1 with err := some .empty }
    | some a =>     -- a stale acknowledgement (never the case when called from `sendpkt`)
      let h2 := { h1 with ackq := none }
      if retries - 1 = 0 then { h2 with err := some .valueError }
      else if a = 43 then h2
      else { (transmit h2 wire []) with err := some .empty }
  | r :: rest, h, res, retries =>
    if res = 43 then h else
    let h1 := transmit h wire r
    if h1.err.isSome then h1 else
    match h1.ackq with
    | none => { h1 with err := some .empty }
    | some a =>
      let h2 := { h1 with ackq := none }
      if retries - 1 = 0 then { h2 with err := some .valueError }
      else resend wire rest h2 a (retries - 1)

/-- `sendpkt(data, retries)` against a scripted peer. -/
def sendpkt (h : HState) (data : List Nat) (retries : Int) (script : List (List Nat)) : HState :=
  if h.err.isSome then h else
  let wire := pack data
  let h1 := transmit h wire (script.headD [])
  if h1.err.isSome then h1 else
  match h1.ackq with
  | none => { h1 with err := some .empty }
  | some a => resend wire script.tail { h1 with ackq := none } a retries

/-! ### the pinned snapshot (before the fixes) -/
namespace Legacy

/-- decoder at 722bf2e: `-` is skipped like noise; `#` does not end the body
    when the previous character is `'`. -/
def dstep : DState → Nat → DState × Option Msg
  | .idle, b =>
      if b = 36 then (.body [36], none)
      else if b = 43 then (.idle, some (.ack b))
      else (.idle, none)
  | .body buf, b =>
      if b = 35 ∧ buf.getLast? ≠ some 39 then (.crc1 (buf ++ [b]), none)
      else (.body (buf ++ [b]), none)
  | .crc1 buf, b => (.crc2 (buf ++ [b]), none)
  | .crc2 buf, b => (.idle, some (.pkt (buf ++ [b])))

def decodeAll : DState → List Nat → DState × List Msg
  | s, [] => (s, [])
  | s, b :: bs =>
    let (s1, m) := dstep s b
    let (s2, ms) := decodeAll s1 bs
    (s2, match m with | some x => x :: ms | none => ms)

/-- rsp_unpack at 722bf2e: returns `pkt[1:-3]` as is (no unescape). -/
def unpack (pkt : List Nat) : Except Err (List Nat) :=
  match pkt with
  | [] => .error .indexError
  | c0 :: _ =>
    if c0 ≠ 36 then .error .valueError
    else match pkt.reverse with
      | c2 :: c1 :: h :: midRev =>
        if h ≠ 35 then .error .valueError
        else
          let body := midRev.reverse.drop 1
          if crcAccepts body c1 c2 then .ok body else .error .valueError
      | _ => .error .indexError

end Legacy

end Model.Rsp
