/-
`Model.CSwitch` — hand model (import-free) of the label bookkeeping of `CCodeGenerator.gen_switch / gen_case /
gen_default` (ppci/lang/c/codegenerator.py):

    gen_switch:  backup = self.switch_options; self.switch_options = {}
                 … lower the body (gen_case / gen_default register their block under the value / under "default") …
                 dispatch: one `CJump(value == option)` per registered case IN REGISTRATION ORDER,
                           then jump to switch_options.get("default", final_block)
                 self.switch_options = backup
    gen_case:    self.switch_options[value] = block          gen_default: self.switch_options["default"] = block

`gen` threads the dictionary through the statements as the code generator does (a Python dict keeps insertion order)
and records, for every switch in the order of their test blocks, the dispatch constants and whether the final jump
goes to a default block.  `own` / `recs` say what the SOURCE prescribes: the labels that lexically belong to a switch
(those of nested switches excluded).  `Props.C01.switch_labels_lexical` proves the two equal and that lowering a nested
statement leaves the enclosing switch's dictionary unchanged except for its own labels; harness/c01.py compares `gen`
with the dispatch chains of the REAL emitted function.  `genBad` is the seeded variant that keeps the default block in a
field that is reset on entry but not restored on exit.
-/
namespace Model.CSwitch

mutual
  inductive St
    | case (v : Int) | default | other
    | block (b : Sts) | ifs (t e : Sts) | loop (b : Sts) | switch (b : Sts)
  inductive Sts
    | nil | cons (s : St) (r : Sts)
end

/-- `switch_options`: registered labels in insertion order (`none` = the key "default") -/
abbrev Opts := List (Option Int)

structure Rec where
  consts : List Int
  hasDefault : Bool
  deriving DecidableEq, Repr

def mkRec (o : Opts) : Rec := ⟨o.filterMap id, o.contains none⟩

mutual
  /-- lowering of a statement: dictionary afterwards, records of the switches lowered inside (test-block order) -/
  def gen : St → Opts → Opts × List Rec
    | .case v, o => (o ++ [some v], [])
    | .default, o => (o ++ [none], [])
    | .other, o => (o, [])
    | .block b, o => genL b o
    | .ifs t e, o =>
      let p1 := genL t o
      let p2 := genL e p1.1
      (p2.1, p1.2 ++ p2.2)
    | .loop b, o => genL b o
    | .switch b, o =>
      let p := genL b []              -- backup = switch_options; switch_options = {}
      (o, mkRec p.1 :: p.2)           -- dispatch from the body's dictionary; switch_options = backup
  def genL : Sts → Opts → Opts × List Rec
    | .nil, o => (o, [])
    | .cons s r, o =>
      let p1 := gen s o
      let p2 := genL r p1.1
      (p2.1, p1.2 ++ p2.2)
end

mutual
  /-- the labels that lexically belong to the enclosing switch -/
  def own : St → Opts
    | .case v => [some v]
    | .default => [none]
    | .other => []
    | .block b => ownL b
    | .ifs t e => ownL t ++ ownL e
    | .loop b => ownL b
    | .switch _ => []
  def ownL : Sts → Opts
    | .nil => []
    | .cons s r => own s ++ ownL r
end

mutual
  /-- what the source prescribes for every switch, outermost first in source order -/
  def recs : St → List Rec
    | .case _ | .default | .other => []
    | .block b => recsL b
    | .ifs t e => recsL t ++ recsL e
    | .loop b => recsL b
    | .switch b => mkRec (ownL b) :: recsL b
  def recsL : Sts → List Rec
    | .nil => []
    | .cons s r => recs s ++ recsL r
end

/-! ### the seeded variant: the default block kept outside the saved/restored dictionary -/

structure BadState where
  opts : List Int
  dflt : Bool

mutual
  def genBad : St → BadState → BadState × List Rec
    | .case v, s => ({ s with opts := s.opts ++ [v] }, [])
    | .default, s => ({ s with dflt := true }, [])
    | .other, s => (s, [])
    | .block b, s => genBadL b s
    | .ifs t e, s =>
      let p1 := genBadL t s
      let p2 := genBadL e p1.1
      (p2.1, p1.2 ++ p2.2)
    | .loop b, s => genBadL b s
    | .switch b, s =>
      let p := genBadL b ⟨[], false⟩                       -- options saved and emptied, default RESET
      (⟨s.opts, p.1.dflt⟩, ⟨p.1.opts, p.1.dflt⟩ :: p.2)    -- options restored, default NOT restored
  def genBadL : Sts → BadState → BadState × List Rec
    | .nil, s => (s, [])
    | .cons x r, s =>
      let p1 := genBad x s
      let p2 := genBadL r p1.1
      (p2.1, p1.2 ++ p2.2)
end

def Rec.show (r : Rec) : String :=
  ",".intercalate (r.consts.map toString) ++ (if r.hasDefault then "|D" else "|N")

def showRecs (rs : List Rec) : String := if rs.isEmpty then "-" else ";".intercalate (rs.map Rec.show)

end Model.CSwitch
