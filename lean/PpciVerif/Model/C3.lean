/-
Model.C3 — hand model of the typing and lowering decisions of ppci's C3 front-end
(ppci/lang/c3/{scope,context,typechecker,codegenerator}.py), integer types only.  Import-free.

Mirrors the code as it is (after the `fix:` commit to Context.eval_const, see notes/C37.md):

* `intTypes`      scope.py:create_top_scope — the named integer base types
* `irType`        CodeGenerator.get_ir_type
* `equalTypes`    Context.equal_types (integer types: same class, same width)
* `commonType`    Context.get_common_type (class of highest priority, widest width, looked up
                  among the stdint types)
* `doCoerce`      TypeChecker.do_coerce — the integer→integer branches in source order
* `lowerBinop`, `lowerCmp`, `shorthandOp`, `lowerUnop`
                  CodeGenerator.gen_binop / gen_cond_code / gen_assignment_stmt / gen_unop: the C3
                  operator string is handed to ir.Binop / ir.CJump unchanged, at the IR type of the
                  (coerced) operands
* `constOp`       Context.eval_const on two integer operands

Tied to the source by the table dump `Gen.C3Tab` (Props.C37.*_matches_source) and by the
differential run of harness/c37.py.
-/
namespace Model.C3

structure CTy where
  name : String
  signed : Bool        -- SignedIntegerType / UnsignedIntegerType
  bits : Nat
  deriving DecidableEq, Repr

def u64 : CTy := ⟨"uint64_t", false, 64⟩
def u32 : CTy := ⟨"uint32_t", false, 32⟩
def u16 : CTy := ⟨"uint16_t", false, 16⟩
def u8  : CTy := ⟨"uint8_t", false, 8⟩
def i64 : CTy := ⟨"int64_t", true, 64⟩
def i32 : CTy := ⟨"int32_t", true, 32⟩
def i16 : CTy := ⟨"int16_t", true, 16⟩
def i8  : CTy := ⟨"int8_t", true, 8⟩
def int (intBytes : Nat) : CTy := ⟨"int", true, intBytes * 8⟩
def byte : CTy := ⟨"byte", false, 8⟩

/-- create_top_scope: the integer types, in the order they are added to the scope -/
def intTypes (intBytes : Nat) : List CTy := [u64, u32, u16, u8, i64, i32, i16, i8, int intBytes, byte]

/-- get_ir_type: `signed_types` / `unsigned_types` dictionaries -/
def irType (t : CTy) : String :=
  match t.signed, t.bits with
  | true, 8 => "i8" | true, 16 => "i16" | true, 32 => "i32" | true, 64 => "i64"
  | false, 8 => "u8" | false, 16 => "u16" | false, 32 => "u32" | false, 64 => "u64"
  | _, _ => "KeyError"

/-- get_ir_int (also the storage class of `bool`) -/
def irInt (intBytes : Nat) : String :=
  match intBytes with
  | 1 => "i8" | 2 => "i16" | 4 => "i32" | 8 => "i64" | _ => "KeyError"

/-- equal_types for two integer types: `type(a) is type(b)` and `a.bits == b.bits` -/
def equalTypes (a b : CTy) : Bool := a.signed == b.signed && a.bits == b.bits

/-- `type_prios`: UnsignedIntegerType 1, SignedIntegerType 2 -/
def prio (t : CTy) : Nat := if t.signed then 2 else 1

/-- `type_lu` restricted to the integer entries of `all_type_names` -/
def typeLu : List CTy := [i8, i16, i32, i64, u8, u16, u32, u64]

/-- get_common_type: equal types ⇒ the left type object; otherwise the stdint type of the class of
    highest priority and the larger width (`none` = "do not commute") -/
def commonType (a b : CTy) : Option CTy :=
  if equalTypes a b then some a
  else
    let signed := max (prio a) (prio b) == 2
    let bits := max a.bits b.bits
    typeLu.find? (fun t => t.signed == signed && t.bits == bits)

inductive Coercion | same | auto | reject
  deriving DecidableEq, Repr

def Coercion.name : Coercion → String
  | .same => "same" | .auto => "auto" | .reject => "reject"

/-- do_coerce for integer → integer, the `elif` chain in source order -/
def doCoerce (src dst : CTy) : Coercion :=
  if equalTypes src dst then .same
  else if !src.signed && !dst.signed && decide (src.bits ≤ dst.bits) then .auto
  else if src.signed && dst.signed && decide (src.bits ≤ dst.bits) then .auto
  else if !src.signed && dst.signed && decide (src.bits < dst.bits - 1) then .auto
  else if src.signed && !dst.signed then .auto        -- "For now, allow auto-cast" (TODO in the source)
  else .reject

/-! ### lowering -/

/-- astnodes.Binop.arithmatic_ops / compare_ops, Assignment.operators, Unop.arithmatic_ops -/
def arithOps : List String := ["+", "-", "*", "/", "%", ">>", "<<", "&", "|", "^"]
def compareOps : List String := ["==", "!=", "<", ">", "<=", ">="]
def assignOps : List String := ["=", "|=", "&=", "+=", "-=", "*="]
def unaryArithOps : List String := ["+", "-"]

/-- gen_binop: `ir.Binop(a_val, expr.op, b_val, "binop", a_val.ty)` — (IR operator, IR type) -/
def lowerBinop (op : String) (t : CTy) : String × String := (op, irType t)

/-- gen_cond_code: `ir.CJump(lhs, expr.op, rhs, bbtrue, bbfalse)` — (IR condition, type of the operands) -/
def lowerCmp (op : String) (t : CTy) : String × String := (op, irType t)

/-- gen_cond_code: `lhs = code of expr.a`, `rhs = code of expr.b`, `ir.CJump(lhs, expr.op, rhs, …)` — the operands
    stay in source order whatever they are (a constant on the left stays on the left) and the condition is the
    operator itself: (IR condition, first operand is an `ir.Const`, second operand is an `ir.Const`) -/
def lowerCmpOperands (op : String) (leftConst rightConst : Bool) : String × Bool × Bool := (op, leftConst, rightConst)

/-- Assignment.shorthand_operator: `operator[:-1]` -/
def shorthandOp (assignOp : String) : String :=
  match assignOp with
  | "|=" => "|" | "&=" => "&" | "+=" => "+" | "-=" => "-" | "*=" => "*" | _ => ""

/-- gen_assignment_stmt: `ir.Binop(lhs_ld, oper, rval, "binop", rval.ty)`; the right-hand side has been
    coerced to the type of the left-hand side -/
def lowerShorthand (assignOp : String) (lvalTy : CTy) : String × String := (shorthandOp assignOp, irType lvalTy)

/-- gen_unop: `+` emits nothing, `-` emits `ir.Unop("-", rhs, …, rhs.ty)` -/
def lowerUnop (op : String) (t : CTy) : String × String :=
  match op with
  | "-" => ("-", irType t)
  | _ => ("", irType t)

/-! ### constant expressions (`const` definitions, `case` labels, array sizes) -/

inductive PyErr | ZeroDivisionError | KeyError
  deriving DecidableEq, Repr

def PyErr.name : PyErr → String
  | .ZeroDivisionError => "ZeroDivisionError" | .KeyError => "KeyError"

/-- Context.eval_const on a Binop of two Python ints: the `ops` dictionary.  Python ints are unbounded;
    `/` and `%` truncate toward zero like the run-time operators (after the fix). -/
def constOp (op : String) (a b : Int) : Except PyErr Int :=
  match op with
  | "+" => .ok (a + b)
  | "-" => .ok (a - b)
  | "*" => .ok (a * b)
  | "/" => if b = 0 then .error .ZeroDivisionError else .ok (Int.tdiv a b)
  | "%" => if b = 0 then .error .ZeroDivisionError else .ok (Int.tmod a b)
  | _ => .error .KeyError

/-- the ops dictionary before the fix: `/` = operator.truediv (a float: never an integer value),
    `%` = operator.mod (floor).  Kept for the negation witnesses in Props.C37. -/
def constOpLegacyMod (a b : Int) : Int := Int.fmod a b

end Model.C3
