/-
Hand model of ppci/format/hexfile.py (import-free, core Lean only).

Python objects ↦ values:
  HexFileRegion(address, data)  ↦ `Region = Nat × List Nat` (address, bytes)
  HexLine(address, typ, data)   ↦ `HexLine`
  HexFile                       ↦ `HexFile` (regions in list order, start_address)
  text file                     ↦ list of lines, a line is a `List Char`
Addresses are naturals (the harness never passes a negative address); a data
byte is a natural `< 256` (Python `bytes`).

`list.sort(key=address)` is a stable sort: `sortRegions` is the stable insertion
sort (the result of a stable sort is unique).  `struct.pack('>H'/'>I')` ↦
`pack16/pack32` (range error = Python `struct.error`, class name `error`).
`chunks(data)` (30-byte slices) ↦ `chunks30` (fuel = length, structural).
`x & 0xFFFF0000` ↦ `x % 2^32 / 65536 * 65536`;  `((~crc)+1) & 0xFF` ↦ `(256 - crc % 256) % 256`.

The namespace `Legacy` keeps the model of the code BEFORE the repair commit
(`HexFile.check` with its zip-over-a-snapshot loop and `save` without the start
address); it is only used for the negation witnesses in Props/C18.lean and by
the driver op `lbuild`/`lsave`.  Tied to the source by harness/c18.py.
-/
namespace Model.Hex

inductive Err
  | ValueError | HexFileException | StructError | IndexError | NotImplementedError
  deriving Repr, DecidableEq

def Err.name : Err → String
  | .ValueError => "ValueError"
  | .HexFileException => "HexFileException"
  | .StructError => "error"
  | .IndexError => "IndexError"
  | .NotImplementedError => "NotImplementedError"

/-- (address, data) -/
abbrev Region := Nat × List Nat

@[reducible] def Region.addr (r : Region) : Nat := r.1
@[reducible] def Region.data (r : Region) : List Nat := r.2
/-- `HexFileRegion.end_address` -/
@[reducible] def Region.endAddr (r : Region) : Nat := r.1 + r.2.length

structure HexLine where
  address : Nat
  typ : Nat
  data : List Nat
  deriving Repr, DecidableEq

structure HexFile where
  regions : List Region
  start : Nat
  deriving Repr, DecidableEq

/-! ### hex text (binascii.hexlify / bytes.fromhex) -/

def hexDigit : Nat → Char
  | 0 => '0' | 1 => '1' | 2 => '2' | 3 => '3' | 4 => '4' | 5 => '5' | 6 => '6' | 7 => '7'
  | 8 => '8' | 9 => '9' | 10 => 'a' | 11 => 'b' | 12 => 'c' | 13 => 'd' | 14 => 'e' | 15 => 'f'
  | _ => '?'

def hexlify : List Nat → List Char
  | [] => []
  | b :: bs => hexDigit (b / 16) :: hexDigit (b % 16) :: hexlify bs

def hexVal (c : Char) : Option Nat :=
  let n := c.toNat
  if 48 ≤ n ∧ n ≤ 57 then some (n - 48)
  else if 97 ≤ n ∧ n ≤ 102 then some (n - 87)
  else if 65 ≤ n ∧ n ≤ 70 then some (n - 55)
  else none

/-- `bytes.fromhex` on text without blanks; `none` = ValueError -/
def unhex : List Char → Option (List Nat)
  | [] => some []
  | [_] => none
  | a :: b :: rest =>
    match hexVal a, hexVal b, unhex rest with
    | some x, some y, some r => some ((16 * x + y) :: r)
    | _, _, _ => none

def pack16 (v : Nat) : Except Err (List Nat) :=
  if v < 65536 then .ok [v / 256, v % 256] else .error .StructError

def pack32 (v : Nat) : Except Err (List Nat) :=
  if v < 4294967296 then .ok [v / 16777216, v / 65536 % 256, v / 256 % 256, v % 256]
  else .error .StructError

/-! ### HexLine.to_line / from_line -/

def lineBytes (hl : HexLine) : List Nat :=
  let nums := [hl.data.length, hl.address / 256, hl.address % 256, hl.typ] ++ hl.data
  nums ++ [(256 - nums.sum % 256) % 256]

/-- `HexLine.to_line` -/
def toLine (hl : HexLine) : Except Err (List Char) :=
  if hl.data.length > 255 then .error .ValueError          -- bytearray.append(bytecount)
  else if hl.address ≥ 65536 then .error .StructError      -- struct.pack(">H", address)
  else if hl.typ > 255 then .error .ValueError             -- bytearray.append(typ)
  else .ok (':' :: hexlify (lineBytes hl))

/-- `HexLine.from_line` -/
def fromLine (line : List Char) : Except Err HexLine :=
  match line with
  | ':' :: rest =>
    match unhex rest with
    | none => .error .ValueError
    | some [] => .error .IndexError                          -- nums[0]
    | some (bytecount :: more) =>
      if more.length + 1 ≠ bytecount + 5 then .error .HexFileException
      else if (bytecount + more.sum) % 256 ≠ 0 then .error .HexFileException
      else
        match more with
        | ah :: al :: typ :: rest => .ok ⟨ah * 256 + al, typ, rest.dropLast⟩
        | _ => .error .IndexError                            -- unreachable (length ≥ 5)
  | _ => .error .ValueError

/-! ### HexFile.add_region / check (repaired code: one merge pass over the sorted list) -/

def insertRegion (r : Region) : List Region → List Region
  | [] => [r]
  | x :: xs => if r.1 ≤ x.1 then r :: x :: xs else x :: insertRegion r xs

/-- `self.regions.sort(key=lambda r: r.address)` (stable) -/
def sortRegions : List Region → List Region
  | [] => []
  | r :: rs => insertRegion r (sortRegions rs)

/-- the `for region in self.regions` loop of `check`; `cur` is `merged[-1]` -/
def coalesceFrom (cur : Region) : List Region → Except Err (List Region)
  | [] => .ok [cur]
  | r :: rest =>
    if cur.1 + cur.2.length = r.1 then coalesceFrom (cur.1, cur.2 ++ r.2) rest
    else if cur.1 + cur.2.length > r.1 then .error .HexFileException
    else match coalesceFrom r rest with
      | .ok l => .ok (cur :: l)
      | .error e => .error e

def coalesce : List Region → Except Err (List Region)
  | [] => .ok []
  | r :: rest => coalesceFrom r rest

/-- `HexFile.check` -/
def check (rs : List Region) : Except Err (List Region) := coalesce (sortRegions rs)

/-- `HexFile.add_region` -/
def addRegion (regs : List Region) (r : Region) : Except Err (List Region) := check (regs ++ [r])

/-- a sequence of `add_region` calls on `regs` -/
def build (regs : List Region) : List Region → Except Err (List Region)
  | [] => .ok regs
  | r :: rest =>
    match addRegion regs r with
    | .ok regs' => build regs' rest
    | .error e => .error e

/-! ### HexFile.save -/

def chunksF : Nat → List Nat → List (List Nat)
  | 0, _ => []
  | fuel + 1, d => if d = [] then [] else d.take 30 :: chunksF fuel (d.drop 30)

/-- `chunks(data)` with the default size 30 -/
def chunks30 (d : List Nat) : List (List Nat) := chunksF d.length d

/-- the `for chunk in chunks(region.data)` loop; `ext`,`address` are the loop variables.
    (`do` blocks, not `match`, so that no equation lemma has to evaluate `pack16 …`.) -/
def saveChunks (ext address : Nat) : List (List Nat) → Except Err (List HexLine)
  | [] => .ok []
  | chunk :: rest =>
    if address ≥ 65536 then do
      let e ← pack16 ((ext + 65536) / 65536)
      let ls ← saveChunks (ext + 65536) (address - 65536 + chunk.length) rest
      pure (⟨0, 4, e⟩ :: ⟨address - 65536, 0, chunk⟩ :: ls)
    else do
      let ls ← saveChunks ext (address + chunk.length) rest
      pure (⟨address, 0, chunk⟩ :: ls)

/-- `region.address & 0xFFFF0000` -/
def extOf (addr : Nat) : Nat := addr % 4294967296 / 65536 * 65536

def saveRegion (r : Region) : Except Err (List HexLine) := do
  let e ← pack16 (extOf r.1 / 65536)
  let ls ← saveChunks (extOf r.1) (r.1 - extOf r.1) (chunks30 r.2)
  pure (⟨0, 4, e⟩ :: ls)

def saveRegions : List Region → Except Err (List HexLine)
  | [] => .ok []
  | r :: rs => do
    let a ← saveRegion r
    let b ← saveRegions rs
    pure (a ++ b)

/-- the records `save` writes: regions, start linear address record (when a start
    address is set), end-of-file record -/
def saveRecords (h : HexFile) : Except Err (List HexLine) := do
  let body ← saveRegions h.regions
  if h.start = 0 then pure (body ++ [⟨0, 1, []⟩])
  else do
    let d ← pack32 h.start
    pure (body ++ [⟨0, 5, d⟩, ⟨0, 1, []⟩])

def linesOf : List HexLine → Except Err (List (List Char))
  | [] => .ok []
  | hl :: rest => do
    let l ← toLine hl
    let ls ← linesOf rest
    pure (l :: ls)

/-- `HexFile.save`: the lines printed to the file -/
def save (h : HexFile) : Except Err (List (List Char)) := do
  let recs ← saveRecords h
  linesOf recs

/-! ### HexFile.load -/

structure LoadState where
  regions : List Region
  start : Nat
  eof : Bool
  ext : Nat

def be (bs : List Nat) : Nat := bs.foldl (fun acc b => acc * 256 + b) 0

/-- body of the `for line in hexfields(f)` loop for one parsed line -/
def loadRec (st : LoadState) (hl : HexLine) : Except Err LoadState :=
  if st.eof then .error .HexFileException
  else match hl.typ with
    | 0 => match addRegion st.regions (hl.address + st.ext, hl.data) with
        | .ok regs => .ok { st with regions := regs }
        | .error e => .error e
    | 4 => if hl.data.length < 2 then .error .StructError
           else .ok { st with ext := be (hl.data.take 2) * 65536 }
    | 1 => if hl.data ≠ [] then .error .HexFileException else .ok { st with eof := true }
    | 5 => if hl.data.length < 4 then .error .StructError
           else .ok { st with start := be (hl.data.take 4) }
    | _ => .error .NotImplementedError

def loadRecs (st : LoadState) : List HexLine → Except Err HexFile
  | [] => .ok ⟨st.regions, st.start⟩
  | hl :: rest =>
    match loadRec st hl with
    | .ok st' => loadRecs st' rest
    | .error e => .error e

def loadLines (st : LoadState) : List (List Char) → Except Err HexFile
  | [] => .ok ⟨st.regions, st.start⟩
  | l :: ls =>
    match l with
    | ':' :: _ =>
      match fromLine l with
      | .error e => .error e
      | .ok hl =>
        match loadRec st hl with
        | .ok st' => loadLines st' ls
        | .error e => .error e
    | _ => loadLines st ls                                   -- empty line / no ':' : skipped

/-- `HexFile.load` -/
def load (lines : List (List Char)) : Except Err HexFile :=
  loadLines ⟨[], 0, false, 0⟩ lines

/-! ### the code before the repair -/
namespace Legacy

def removeFirst (p : Nat → Bool) : List Nat → Option (List Nat)
  | [] => none
  | x :: xs => if p x then some xs else (removeFirst p xs).map (x :: ·)

/-- one `for r1, r2 in zip(self.regions[:-1], self.regions[1:])` sweep.  Objects have
    identity: `store[i]` is object `i`, `regs` is `self.regions` (object ids), the
    pairs are a snapshot taken before the sweep. `list.remove(r2)` removes the first
    element that compares equal to `r2`. -/
def sweep (store : List Region) (regs : List Nat) (ch : Bool) :
    List (Nat × Nat) → Except Err (List Region × List Nat × Bool)
  | [] => .ok (store, regs, ch)
  | (i1, i2) :: ps =>
    let r1 := store.getD i1 (0, [])
    let r2 := store.getD i2 (0, [])
    if r1.1 + r1.2.length = r2.1 then
      let store' := store.set i1 (r1.1, r1.2 ++ r2.2)
      match removeFirst (fun j => store'.getD j (0, []) == r2) regs with
      | none => .error .ValueError
      | some regs' => sweep store' regs' true ps
    else if r1.1 + r1.2.length > r2.1 then .error .HexFileException
    else sweep store regs ch ps

/-- `while change and len(self.regions) > 1` (fuel = number of regions + 1) -/
def checkLoop : Nat → List Region → List Nat → Except Err (List Region × List Nat)
  | 0, store, regs => .ok (store, regs)
  | fuel + 1, store, regs =>
    if regs.length > 1 then
      match sweep store regs false (regs.dropLast.zip regs.tail) with
      | .error e => .error e
      | .ok (store', regs', ch) => if ch then checkLoop fuel store' regs' else .ok (store', regs')
    else .ok (store, regs)

def check (rs : List Region) : Except Err (List Region) :=
  let sorted := sortRegions rs
  match checkLoop (sorted.length + 1) sorted (List.range sorted.length) with
  | .ok (store, regs) => .ok (regs.map (fun j => store.getD j (0, [])))
  | .error e => .error e

def build (regs : List Region) : List Region → Except Err (List Region)
  | [] => .ok regs
  | r :: rest =>
    match check (regs ++ [r]) with
    | .ok regs' => build regs' rest
    | .error e => .error e

/-- old `save`: no start address record -/
def save (h : HexFile) : Except Err (List (List Char)) := do
  let body ← saveRegions h.regions
  linesOf (body ++ [⟨0, 1, []⟩])

end Legacy

end Model.Hex
