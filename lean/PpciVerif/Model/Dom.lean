/-
Hand model (import-free) of the dominator-related code of ppci that is *not*
Lengauer–Tarjan (that one is `Model.LT`):

* `ppci/graph/algorithm/fixed_point_dominator.py`: `calculate_post_dominators`,
  `calculate_immediate_post_dominators` (as used by
  `ControlFlowGraph._calculate_post_dominator_info`)
* `ppci/graph/cfg.py`: `_calculate_dominator_tree` (children lists),
  `_number_dominator_tree`, `DomTreeNode.below_or_same/below`,
  `dominates/strictly_dominates`, `bottom_up`, `calculate_dominance_frontier`,
  `calculate_reach`/`can_reach`

Nodes are `0 … n-1` in the order of `graph.nodes` (an OrderedSet: insertion
order); `succ[u]` is the successor list of `u`.  Python `set`s of nodes are bit
masks (`Nat`); set equality is mask equality, iteration order over a set is
irrelevant everywhere it occurs here (unions, intersections, membership).
Python loops `while change:` carry an explicit fuel; `none` = fuel exhausted
(never happens: `Props.C25.postDominators_terminates`, `reach_terminates`).
-/
namespace Model.Dom

abbrev Adj := List (List Nat)

def row (a : Adj) (u : Nat) : List Nat := a.getD u []
def bit (v : Nat) : Nat := 1 <<< v
/-- `set(nodes)` -/
def full (n : Nat) : Nat := 2 ^ n - 1
def getM (st : List Nat) (v : Nat) : Nat := st.getD v 0
def maskOf (l : List Nat) : Nat := l.foldl (fun a x => a ||| bit x) 0

/-! ### the common shape of the two fixed-point loops

```
change = True
while change:
    change = False
    for node in nodes:
        new = …                       # `f st node`; `none` = the body does nothing for this node
        if new != cur[node]:
            change = True
            cur[node] = new
```
-/

def sweepNode (f : List Nat → Nat → Option Nat) (acc : List Nat × Bool) (v : Nat) : List Nat × Bool :=
  match f acc.1 v with
  | none => acc
  | some new => if new != getM acc.1 v then (acc.1.set v new, true) else acc

def sweepPass (f : List Nat → Nat → Option Nat) (n : Nat) (st : List Nat) : List Nat × Bool :=
  (List.range n).foldl (sweepNode f) (st, false)

def sweepLoop (f : List Nat → Nat → Option Nat) (n : Nat) : Nat → List Nat → Option (List Nat)
  | 0, _ => none
  | k + 1, st =>
    let r := sweepPass f n st
    if r.2 then sweepLoop f n k r.1 else some r.1

def pdFuel (n : Nat) : Nat := n * n + 2

/-! ### calculate_post_dominators -/

def pdInit (n exit : Nat) : List Nat :=
  (List.range n).map fun v => if v = exit then bit v else full n

/-- `set.union({node}, set.intersection(*succ_pdoms))` -/
def pdNew (st : List Nat) (v s0 : Nat) (rest : List Nat) : Nat :=
  bit v ||| rest.foldl (fun a s => a &&& getM st s) (getM st s0)

/-- body of `for node in nodes:`; `skipRoot = true` is the current code (the
    exit node is skipped), `false` the code before the fix commit -/
def pdF (skipRoot : Bool) (succ : Adj) (exit : Nat) (st : List Nat) (v : Nat) : Option Nat :=
  if skipRoot && v == exit then none else
  match row succ v with
  | [] => none                                   -- `if succ_pdoms:`
  | s0 :: rest => some (pdNew st v s0 rest)

/-- `calculate_post_dominators(nodes, exit_node)`: entry `v` = mask of `_pdom[v]` -/
def postDominators (n : Nat) (succ : Adj) (exit : Nat) : Option (List Nat) :=
  sweepLoop (pdF true succ exit) n (pdFuel n) (pdInit n exit)

/-- the same before commit "fix: fixed-point (post-)dominators must not re-evaluate the root node" -/
def postDominatorsLegacy (n : Nat) (succ : Adj) (exit : Nat) : Option (List Nat) :=
  sweepLoop (pdF false succ exit) n (pdFuel n) (pdInit n exit)

/-! ### calculate_immediate_post_dominators -/

inductive Ipdom where
  | none_                 -- `_ipdom[node] = None`
  | node (x : Nat)        -- `_ipdom[node] = x`
  | missing               -- no key: `get_immediate_post_dominator` raises KeyError
  | assertion             -- `assert node not in _ipdom` fails
deriving Repr, DecidableEq

def ipdomOf (n : Nat) (pdom : List Nat) (v : Nat) : Ipdom :=
  let spdom := getM pdom v &&& (full n ^^^ bit v)        -- `_pdom[node] - {node}`
  if spdom = 0 then .none_ else
  match (List.range n).filter (fun x => spdom.testBit x && getM pdom x == spdom) with
  | [] => .missing
  | [x] => .node x
  | _ => .assertion

def immediatePostDominators (n : Nat) (pdom : List Nat) : List Ipdom :=
  (List.range n).map (ipdomOf n pdom)

/-! ### dominator tree, numbering, interval tests -/

/-- `_calculate_dominator_tree`: `children[p]` = the nodes whose idom is `p`, in node order -/
def childrenOf (n : Nat) (idom : List (Option Nat)) : Adj :=
  (List.range n).map fun p => (List.range n).filter fun v => idom.getD v none == some p

structure NumSt where
  t : Nat
  work : List Nat                     -- head = top of the Python list `worklist`
  disc : List (Option Nat)            -- `discovered`
  intv : List (Option (Nat × Nat))    -- `node.interval`
deriving Repr

def numStep (ch : Adj) (s : NumSt) (v : Nat) (rest : List Nat) : NumSt :=
  match s.disc.getD v none with
  | some d => { t := s.t + 1, work := rest, disc := s.disc, intv := s.intv.set v (some (d, s.t)) }
  | none => { t := s.t + 1, work := (row ch v).reverse ++ v :: rest, disc := s.disc.set v (some s.t), intv := s.intv }

def numLoop (ch : Adj) : Nat → NumSt → Option NumSt
  | 0, _ => none
  | f + 1, s =>
    match s.work with
    | [] => some s
    | v :: rest => numLoop ch f (numStep ch s v rest)

/-- `_number_dominator_tree` -/
def numberTree (n : Nat) (ch : Adj) (root : Nat) : Option (List (Option (Nat × Nat))) :=
  (numLoop ch (2 * n + 2) { t := 0, work := [root], disc := List.replicate n none, intv := List.replicate n none }).map (·.intv)

/-- `self.below_or_same(other)` -/
def belowOrSame (self other : Nat × Nat) : Bool := other.1 ≤ self.1 && self.2 ≤ other.2
/-- `self.below(other)` -/
def below (self other : Nat × Nat) : Bool := other.1 < self.1 && self.2 < other.2

/-- `dominates(one, other)`; `none` = TypeError (an interval is `None`) -/
def dominates (intv : List (Option (Nat × Nat))) (one other : Nat) : Option Bool :=
  match intv.getD other none, intv.getD one none with
  | some a, some b => some (belowOrSame a b)
  | _, _ => none

def strictlyDominates (intv : List (Option (Nat × Nat))) (one other : Nat) : Option Bool :=
  match intv.getD other none, intv.getD one none with
  | some a, some b => some (below a b)
  | _, _ => none

/-! ### bottom_up and calculate_dominance_frontier (Cytron et al.) -/

def buLoop (ch : Adj) : Nat → List Nat → Nat → List Nat → Option (List Nat)
  | 0, _, _, _ => none
  | f + 1, work, visited, out =>
    match work with
    | [] => some out.reverse
    | v :: rest =>
      if visited.testBit v then buLoop ch f rest visited (v :: out)
      else buLoop ch f ((row ch v).reverse ++ v :: rest) (visited ||| bit v) out

/-- `bottom_up(tree)`: the order in which the nodes are yielded -/
def bottomUp (n : Nat) (ch : Adj) (root : Nat) : Option (List Nat) :=
  buLoop ch (2 * n + 2) [root] 0 []

/-- members (below `n`) of a mask, ascending -/
def members (n : Nat) (m : Nat) : List Nat := (List.range n).filter m.testBit

/-- `if self.get_immediate_dominator(y) != x: self.df[x].add(y)` -/
def dfAdd (idom : List (Option Nat)) (x : Nat) (a y : Nat) : Nat :=
  if idom.getD y none != some x then a ||| bit y else a

/-- upward rule for one child `z`: `for y in self.df[z]: …`; `none` = KeyError on `self.df[z]` -/
def upStep (n : Nat) (idom : List (Option Nat)) (df : List (Option Nat)) (x : Nat) (acc : Option Nat) (z : Nat) : Option Nat :=
  match acc, df.getD z none with
  | some a, some dz => some ((members n dz).foldl (dfAdd idom x) a)
  | _, _ => none

/-- one iteration of `for x in self.bottom_up(self.root_tree):` -/
def cytronNode (n : Nat) (succ : Adj) (idom : List (Option Nat)) (ch : Adj)
    (df : List (Option Nat)) (x : Nat) : Option (List (Option Nat)) :=
  let loc := (row succ x).foldl (dfAdd idom x) 0                 -- local rule
  let up := (row ch x).foldl (upStep n idom df x) (some loc)      -- upward rule
  up.map fun m => df.set x (some m)

def cytronLoop (n : Nat) (succ : Adj) (idom : List (Option Nat)) (ch : Adj) :
    List Nat → List (Option Nat) → Option (List (Option Nat))
  | [], df => some df
  | x :: xs, df =>
    match cytronNode n succ idom ch df x with
    | none => none
    | some df' => cytronLoop n succ idom ch xs df'

/-- `calculate_dominance_frontier`: entry `x` = `some (mask of self.df[x])`, `none` = no key -/
def dominanceFrontier (n : Nat) (succ : Adj) (idom : List (Option Nat)) (root : Nat) : Option (List (Option Nat)) :=
  let ch := childrenOf n idom
  match bottomUp n ch root with
  | none => none
  | some order => cytronLoop n succ idom ch order (List.replicate n none)

/-! ### calculate_reach -/

def reachInit (n : Nat) (succ : Adj) : List Nat := (List.range n).map fun v => maskOf (row succ v)

/-- `new_reach = set(self._reach[node]); for m in node.successors: new_reach |= self._reach[m]` -/
def reachF (succ : Adj) (st : List Nat) (v : Nat) : Option Nat :=
  some ((row succ v).foldl (fun a m => a ||| getM st m) (getM st v))

/-- `calculate_reach`: entry `v` = mask of `_reach[v]` -/
def reach (n : Nat) (succ : Adj) : Option (List Nat) := sweepLoop (reachF succ) n (pdFuel n) (reachInit n succ)

end Model.Dom
