import PpciVerif.Model.MCode
/-!
# Register-allocation validator (C06) — executable checkers, core Lean only

`check p A` validates one colouring of one instruction list (the list the allocator
coloured, i.e. after the last spill rewrite and *before* coalesced moves are deleted;
deleted moves are marked by `A.removed`).  It does not trust ppci's liveness: `A.live`
is any claimed live-in set per instruction and the checker verifies that it is a
post-fixpoint of the backward dataflow equations.

`checkSpillStep pre post …` validates one call of
`GraphColoringRegisterAllocator.rewrite_program` by recomputing the rewrite
(`expandAll`) from the per-instruction renaming plan and comparing.

Soundness of both is proved in `Proofs/RA.lean`; the property theorems are in
`Props/C06.lean`.
-/
namespace Model.RA
open Model.MCode

/-- what the allocator produced for a program -/
structure Alloc where
  colour : VReg → PReg
  alias : PReg → PReg → Bool
  /-- the precoloured register names of the program (physical registers used directly) -/
  fixed : List VReg
  removed : Nat → Bool
  live : Nat → List VReg

def Alloc.isFixed (A : Alloc) (v : VReg) : Bool := A.fixed.contains v

def Alloc.model (A : Alloc) : RegModel := { alias := A.alias, colour := A.colour, fixed := A.isFixed }

/-- values live after instruction `i`: union of the live-in sets of its successors -/
def liveOut (p : Program) (live : Nat → List VReg) (i : Nat) (ins : Instr) : List VReg :=
  (succs p i ins).flatMap live

def pairwiseB {α : Type} (f : α → α → Bool) : List α → Bool
  | [] => true
  | x :: xs => xs.all (f x) && pairwiseB f xs

/-- dataflow post-fixpoint at one instruction: uses ⊆ in, out ∖ defs ⊆ in -/
def liveOkB (p : Program) (live : Nat → List VReg) (i : Nat) (ins : Instr) : Bool :=
  ins.uses.all (fun u => (live i).contains u) &&
  (liveOut p live i ins).all (fun v => ins.defs.contains v || (live i).contains v)

/-- a move has exactly one use, one def, no jump and no clobber -/
def moveWfB (ins : Instr) : Bool :=
  !ins.isMove || (ins.uses.length == 1 && ins.defs.length == 1 && ins.jumps.isEmpty && ins.clobbers.isEmpty)

/-- a deleted instruction must be a move between two values in the identical register -/
def removedOkB (c : VReg → PReg) (ins : Instr) : Bool :=
  ins.isMove &&
  (match ins.uses, ins.defs with
   | [s], [d] => c d == c s
   | _, _ => false)

/-- `v` may share the register of the def `d` of a move whose source is `v` -/
def exemptB (c : VReg → PReg) (ins : Instr) (d v : VReg) : Bool :=
  ins.isMove && ins.uses == [v] && c d == c v

/-- No def overwrites (or havocs through an alias) another value that is live afterwards.
    Two *fixed* registers may overlap: that is a property of the input program and the
    virtual machine havocs them in the same way (not for a deleted move, which does nothing). -/
def defsOkB (A : Alloc) (rm : Bool) (ins : Instr) (lo : List VReg) : Bool :=
  lo.all (fun v => ins.defs.contains v ||
    ins.defs.all (fun d => !ov A.alias (A.colour d) (A.colour v) || exemptB A.colour ins d v ||
      (!rm && A.isFixed d && A.isFixed v)))

/-- no clobbered physical register overlaps a virtual register's value that is live across -/
def clobOkB (A : Alloc) (ins : Instr) (lo : List VReg) : Bool :=
  lo.all (fun v => ins.defs.contains v || A.isFixed v || ins.clobbers.all (fun q => !ov A.alias q (A.colour v)))

def instrOkB (p : Program) (A : Alloc) (i : Nat) (ins : Instr) : Bool :=
  liveOkB p A.live i ins && moveWfB ins &&
  defsOkB A (A.removed i) ins (liveOut p A.live i ins) &&
  (if A.removed i then removedOkB A.colour ins
   else
     clobOkB A ins (liveOut p A.live i ins) &&
     pairwiseB (fun a b => !ov A.alias (A.colour a) (A.colour b)) ins.defs)

def checkFrom (p : Program) (A : Alloc) : Nat → List Instr → Bool
  | _, [] => true
  | i, ins :: rest => instrOkB p A i ins && checkFrom p A (i + 1) rest

/-- values live on entry sit in pairwise non-overlapping registers (fixed ones may overlap) -/
def entryOkB (A : Alloc) : Bool :=
  pairwiseB (fun a b => a == b || !ov A.alias (A.colour a) (A.colour b) || (A.isFixed a && A.isFixed b)) (A.live 0)

/-- distinct fixed names are distinct physical registers -/
def fixedOkB (A : Alloc) : Bool :=
  pairwiseB (fun a b => A.colour a != A.colour b) A.fixed

/-- THE validator (every instruction preserves the simulation relation).  `entryOkB` is
    separate: it says that the relation can be established at function entry for every
    initial state, which fails only when two values that are live-in at entry share a
    register — i.e. for values that are read before any definition. -/
def check (p : Program) (A : Alloc) : Bool :=
  fixedOkB A && checkFrom p A 0 p

/-! ## one spill rewrite -/

/-- instruction list after a spill rewrite: ordinary instructions, and loads/stores of
    the one stack slot that this rewrite introduced.  `clob` lists the fixed (physical)
    registers the load/store code sequence overwrites as scratch (AVR: `Z`). -/
inductive SInstr where
  | ins (i : Instr)
  | load (f : VReg) (clob : List VReg)
  | store (f : VReg) (clob : List VReg)
deriving Repr, DecidableEq, Inhabited

def SInstr.label : SInstr → Option Nat
  | .ins i => i.label
  | _ => none

abbrev Ren := List (VReg × VReg)

/-- what `rewrite_program` did to one instruction: the (temp, fresh) replacements in
    processing order and the scratch registers of its load code / store code -/
structure Plan where
  ren : Ren
  lclob : List VReg
  sclob : List VReg
deriving Repr, Inhabited

def rename (ren : Ren) (v : VReg) : VReg :=
  match ren.lookup v with
  | some f => f
  | none => v

def renInstr (ren : Ren) (ins : Instr) : Instr :=
  { ins with uses := ins.uses.map (rename ren), defs := ins.defs.map (rename ren) }

def loadsOf (ren : Ren) (ins : Instr) : List VReg :=
  (ren.filter (fun tf => ins.uses.contains tf.1)).map (·.2)

def storesOf (ren : Ren) (ins : Instr) : List VReg :=
  ((ren.filter (fun tf => ins.defs.contains tf.1)).map (·.2)).reverse

/-- mirror of the body of `rewrite_program` for one instruction: for each (temp, fresh)
    pair in processing order, `replace_register`, a load directly before the instruction
    when it reads the fresh register, a store directly after it when it writes it -/
def expand (pl : Plan) (ins : Instr) : List SInstr :=
  (loadsOf pl.ren ins).map (fun f => .load f pl.lclob) ++ [.ins (renInstr pl.ren ins)] ++
    (storesOf pl.ren ins).map (fun f => .store f pl.sclob)

def expandAll (plan : Nat → Plan) : Nat → Program → List SInstr
  | _, [] => []
  | i, ins :: rest => expand (plan i) ins ++ expandAll plan (i + 1) rest

/-- the temps of the spilled node that `ins` defines -/
def spilledDefs (temps : List VReg) (ins : Instr) : List VReg :=
  ins.defs.filter (fun d => temps.contains d)

/-- writing the fixed register `z` disturbs `v`: the same name, or an overlapping fixed register -/
def touches (M : RegModel) (z v : VReg) : Bool :=
  z == v || (M.fixed z && M.fixed v && ov M.alias (M.colour z) (M.colour v))

/-- parameters of one spill rewrite: the temps of the spilled node, the fresh registers
    introduced, and the register model restricted to what exists before allocation
    (colours of fixed registers, alias table) -/
structure SpillCtx where
  temps : List VReg
  fresh : List VReg
  model : RegModel

def spillInstrOkB (p : Program) (C : SpillCtx) (live : Nat → List VReg)
    (pl : Plan) (i : Nat) (ins : Instr) : Bool :=
  liveOkB p live i ins && moveWfB ins &&
  -- the renaming is about temps of the node, to registers declared fresh
  pl.ren.all (fun tf => C.temps.contains tf.1 && C.fresh.contains tf.2) &&
  -- every occurrence of a temp of the node is renamed, nothing fresh occurs before
  (ins.uses ++ ins.defs).all (fun r => (!C.temps.contains r || (pl.ren.lookup r).isSome) && !C.fresh.contains r) &&
  -- a jump target gets no load in front of it; a jumping instruction no store behind it
  (ins.label.isNone || (loadsOf pl.ren ins).isEmpty) &&
  (ins.jumps.isEmpty || (storesOf pl.ren ins).isEmpty) &&
  -- scratch registers of the load code hold nothing that is live before the instruction,
  -- those of the store code nothing that is live after it
  ((loadsOf pl.ren ins).isEmpty ||
    pl.lclob.all (fun z => C.model.fixed z && (live i).all (fun v => !touches C.model z v))) &&
  ((storesOf pl.ren ins).isEmpty ||
    pl.sclob.all (fun z => C.model.fixed z && (liveOut p live i ins).all (fun v => !touches C.model z v))) &&
  -- the node's temps share ONE slot: a def of one of them must not bury another live one
  (match spilledDefs C.temps ins with
   | [] => true
   | [d] => (liveOut p live i ins).all (fun t => !C.temps.contains t || t == d || (ins.isMove && ins.uses == [t]))
   | _ => false)

def spillFrom (p : Program) (C : SpillCtx) (live : Nat → List VReg) (plan : Nat → Plan) :
    Nat → List Instr → Bool
  | _, [] => true
  | i, ins :: rest => spillInstrOkB p C live (plan i) i ins && spillFrom p C live plan (i + 1) rest

/-- validator for one `rewrite_program(node)` call -/
def checkSpillStep (pre : Program) (post : List SInstr) (C : SpillCtx)
    (live : Nat → List VReg) (plan : Nat → Plan) : Bool :=
  decide (post = expandAll plan 0 pre) &&
  C.fresh.all (fun f => !C.temps.contains f && !C.model.fixed f) &&
  C.temps.all (fun t => !C.model.fixed t) &&
  spillFrom pre C live plan 0 pre

/-! ### semantics of the rewritten list

Like the virtual machine of `Model.MCode`, plus one memory cell `slot` (the stack slot
this rewrite allocated; by construction only its loads and stores touch it).  The state
counts the ordinary instructions executed so far (`k`): ordinary instruction number `k`
receives junk `Jp k` (so that it can be compared with step `k` of the original list),
load/store code receives junk `Js k` for its scratch registers. -/

structure SState (Val σ : Type) where
  pc : Nat
  regs : VReg → Val
  st : σ
  slot : Val
  k : Nat

/-- scratch registers of spill code, and every fixed register overlapping one, end up with junk -/
def scratch {Val : Type} (M : RegModel) (J : PReg → Val) (R : VReg → Val) (cl : List VReg) : VReg → Val :=
  fun r => if cl.any (fun z => touches M z r) then J (M.colour r) else R r

def sstep {Val σ : Type} (S : Sem Val σ) (M : RegModel) (Jp Js : Nat → PReg → Val) (q : List SInstr)
    (s : SState Val σ) : SState Val σ :=
  match q[s.pc]? with
  | none => s
  | some (.load f cl) =>
    { s with pc := s.pc + 1, regs := writeRegV M (Js s.k) (scratch M (Js s.k) s.regs cl) f s.slot }
  | some (.store f cl) =>
    { s with pc := s.pc + 1, slot := s.regs f, regs := scratch M (Js s.k) s.regs cl }
  | some (.ins ins) =>
    let args := ins.uses.map s.regs
    { pc := pick (succsL (q.map SInstr.label) s.pc ins.jumps) (S.br ins.sem args s.st) (s.pc + 1)
      regs := writeV M (Jp s.k) (defVal S ins args s.st) ins.defs 0 (ins.clobbers.foldl (havocV M (Jp s.k)) s.regs)
      st := newSt S ins args s.st
      slot := s.slot
      k := s.k + 1 }

def srun {Val σ : Type} (S : Sem Val σ) (M : RegModel) (Jp Js : Nat → PReg → Val) (q : List SInstr) :
    Nat → SState Val σ → SState Val σ
  | 0, s => s
  | n + 1, s => srun S M Jp Js q n (sstep S M Jp Js q s)

/-- the original list, junk indexed forwards: step number `k` receives `Jp k` -/
def vrunF {Val σ : Type} (S : Sem Val σ) (M : RegModel) (Jp : Nat → PReg → Val) (p : Program) :
    Nat → Nat → VState Val σ → VState Val σ
  | 0, _, s => s
  | n + 1, k, s => vrunF S M Jp p n (k + 1) (vstep S M (Jp k) p s)

/-- position in the rewritten list of the code for original instruction `i` -/
def offset (plan : Nat → Plan) (p : Program) (i : Nat) : Nat :=
  (expandAll plan 0 (p.take i)).length

end Model.RA
