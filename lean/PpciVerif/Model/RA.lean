import PpciVerif.Model.MCode
/-!
# Register-allocation validator (C06) — executable checkers, core Lean only

`check p A` validates one colouring of one instruction list (the list the allocator
coloured, i.e. after the last spill rewrite and *before* coalesced moves are deleted;
deleted moves are marked by `A.removed`).  It does not trust ppci's liveness: `A.live`
is any claimed live-in set per instruction and the checker verifies that it is a
post-fixpoint of the backward dataflow equations.

`checkSpillStep pre post …` validates one call of
`GraphColoringRegisterAllocator.rewrite_program` by recomputing the rewrite
(`expandAll`) from the per-instruction renaming plan and comparing.

Soundness of both is proved in `Proofs/RA.lean`; the property theorems are in
`Props/C06.lean`.
-/
namespace Model.RA
open Model.MCode

/-- what the allocator produced for a program -/
structure Alloc where
  colour : VReg → PReg
  alias : PReg → PReg → Bool
  removed : Nat → Bool
  live : Nat → List VReg

/-- values live after instruction `i`: union of the live-in sets of its successors -/
def liveOut (p : Program) (live : Nat → List VReg) (i : Nat) (ins : Instr) : List VReg :=
  (succs p i ins).flatMap live

def pairwiseB {α : Type} (f : α → α → Bool) : List α → Bool
  | [] => true
  | x :: xs => xs.all (f x) && pairwiseB f xs

/-- dataflow post-fixpoint at one instruction: uses ⊆ in, out ∖ defs ⊆ in -/
def liveOkB (p : Program) (live : Nat → List VReg) (i : Nat) (ins : Instr) : Bool :=
  ins.uses.all (fun u => (live i).contains u) &&
  (liveOut p live i ins).all (fun v => ins.defs.contains v || (live i).contains v)

/-- a move has exactly one use, one def and no jump -/
def moveWfB (ins : Instr) : Bool :=
  !ins.isMove || (ins.uses.length == 1 && ins.defs.length == 1 && ins.jumps.isEmpty)

/-- a deleted instruction must be a move between two values in the identical register -/
def removedOkB (c : VReg → PReg) (ins : Instr) : Bool :=
  ins.isMove && ins.jumps.isEmpty &&
  (match ins.uses, ins.defs with
   | [s], [d] => c d == c s
   | _, _ => false)

/-- `v` may share the register of the def `d` of a move whose source is `v` -/
def exemptB (c : VReg → PReg) (ins : Instr) (d v : VReg) : Bool :=
  ins.isMove && ins.uses == [v] && c d == c v

/-- no def overwrites (or havocs through an alias) another value that is live afterwards -/
def defsOkB (c : VReg → PReg) (al : PReg → PReg → Bool) (ins : Instr) (lo : List VReg) : Bool :=
  lo.all (fun v => ins.defs.contains v ||
    ins.defs.all (fun d => !ov al (c d) (c v) || exemptB c ins d v))

/-- no clobbered physical register overlaps a value that is live across the instruction -/
def clobOkB (c : VReg → PReg) (al : PReg → PReg → Bool) (ins : Instr) (lo : List VReg) : Bool :=
  lo.all (fun v => ins.defs.contains v || ins.clobbers.all (fun q => !ov al q (c v)))

def instrOkB (p : Program) (A : Alloc) (i : Nat) (ins : Instr) : Bool :=
  liveOkB p A.live i ins && moveWfB ins &&
  (if A.removed i then removedOkB A.colour ins
   else
     defsOkB A.colour A.alias ins (liveOut p A.live i ins) &&
     clobOkB A.colour A.alias ins (liveOut p A.live i ins) &&
     pairwiseB (fun a b => !ov A.alias (A.colour a) (A.colour b)) ins.defs)

def checkFrom (p : Program) (A : Alloc) : Nat → List Instr → Bool
  | _, [] => true
  | i, ins :: rest => instrOkB p A i ins && checkFrom p A (i + 1) rest

/-- values live on entry sit in pairwise non-overlapping registers -/
def entryOkB (A : Alloc) : Bool :=
  pairwiseB (fun a b => a == b || !ov A.alias (A.colour a) (A.colour b)) (A.live 0)

/-- THE validator -/
def check (p : Program) (A : Alloc) : Bool :=
  entryOkB A && checkFrom p A 0 p

/-! ## one spill rewrite -/

/-- instruction list after a spill rewrite: ordinary instructions, and loads/stores of
    the one stack slot that this rewrite introduced -/
inductive SInstr where
  | ins (i : Instr)
  | load (f : VReg)
  | store (f : VReg)
deriving Repr, DecidableEq, Inhabited

def SInstr.label : SInstr → Option Nat
  | .ins i => i.label
  | _ => none

abbrev Ren := List (VReg × VReg)

def rename (ren : Ren) (v : VReg) : VReg :=
  match ren.lookup v with
  | some f => f
  | none => v

def renInstr (ren : Ren) (ins : Instr) : Instr :=
  { ins with uses := ins.uses.map (rename ren), defs := ins.defs.map (rename ren) }

def loadsOf (ren : Ren) (ins : Instr) : List VReg :=
  (ren.filter (fun tf => ins.uses.contains tf.1)).map (·.2)

def storesOf (ren : Ren) (ins : Instr) : List VReg :=
  ((ren.filter (fun tf => ins.defs.contains tf.1)).map (·.2)).reverse

/-- mirror of the body of `rewrite_program` for one instruction: for each (temp, fresh)
    pair in processing order, `replace_register`, a load directly before the instruction
    when it reads the fresh register, a store directly after it when it writes it -/
def expand (ren : Ren) (ins : Instr) : List SInstr :=
  (loadsOf ren ins).map .load ++ [.ins (renInstr ren ins)] ++ (storesOf ren ins).map .store

def expandAll (plan : Nat → Ren) : Nat → Program → List SInstr
  | _, [] => []
  | i, ins :: rest => expand (plan i) ins ++ expandAll plan (i + 1) rest

/-- the temps of the spilled node that `ins` defines -/
def spilledDefs (temps : List VReg) (ins : Instr) : List VReg :=
  ins.defs.filter (fun d => temps.contains d)

def spillInstrOkB (p : Program) (temps fresh : List VReg) (live : Nat → List VReg)
    (ren : Ren) (i : Nat) (ins : Instr) : Bool :=
  liveOkB p live i ins && moveWfB ins &&
  -- the renaming is about temps of the node, to registers declared fresh
  ren.all (fun tf => temps.contains tf.1 && fresh.contains tf.2) &&
  -- every occurrence of a temp of the node is renamed, nothing fresh occurs before
  (ins.uses ++ ins.defs).all (fun r => (!temps.contains r || (ren.lookup r).isSome) && !fresh.contains r) &&
  -- a jump target gets no load in front of it
  (ins.label.isNone || (loadsOf ren ins).isEmpty) &&
  -- the node's temps share ONE slot: a def of one of them must not bury another live one
  (match spilledDefs temps ins with
   | [] => true
   | [d] => (liveOut p live i ins).all (fun t => !temps.contains t || t == d || (ins.isMove && ins.uses == [t]))
   | _ => false)

def spillFrom (p : Program) (temps fresh : List VReg) (live : Nat → List VReg) (plan : Nat → Ren) :
    Nat → List Instr → Bool
  | _, [] => true
  | i, ins :: rest => spillInstrOkB p temps fresh live (plan i) i ins && spillFrom p temps fresh live plan (i + 1) rest

/-- validator for one `rewrite_program(node)` call -/
def checkSpillStep (pre : Program) (post : List SInstr) (temps fresh : List VReg)
    (live : Nat → List VReg) (plan : Nat → Ren) : Bool :=
  decide (post = expandAll plan 0 pre) &&
  fresh.all (fun f => !temps.contains f) &&
  spillFrom pre temps fresh live plan 0 pre

end Model.RA
