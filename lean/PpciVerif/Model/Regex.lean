import PpciVerif.Model.IntSet
/-
Hand model of ppci/lang/tools/regex/{regex,compiler,scanner}.py (core Lean only; symbol sets are
`Model.IntSet` range lists, the model of ppci/utils/integer_set.py built for C33).

The model follows the code AFTER the three `fix:` commits recorded in findings/C31.json
(the behaviour before them is kept in `Model/RegexLegacy.lean` for the negation witnesses).

regex.py
* `Regex` objects ↦ `Re`.  `__eq__`/`__hash__` compare `orderby()` = (class name, fields…)
  recursively, i.e. structural equality ↦ derived `DecidableEq Re`.
  `Epsilon` ↦ `eps`; `SymbolSet(xs)` ↦ `set (IntSet.mk xs)` (`NULL = set []`, `SIGMA = set [(0,255)]`);
  `Kleene` ↦ `star`; `Concatenation/LogicalOr/LogicalAnd` ↦ `cat/or/and`.
  The constructors' `ValueError`s can only be reached by calling the classes directly; the public
  API (`+ | &`, `Kleene`, `SymbolSet`, `Symbol`, the parser) goes through the smart constructors.
* `concatenate`, `logical_or` (with the `SymbolSet ∪ SymbolSet` shortcut, which builds
  `SymbolSet(IntegerSet)` and therefore re-creates the set from its *members*), `logical_and`,
  `nu`, `nullable` (`nu() == EPSILON`), `derivative`, `derivative_classes`,
  `product_intersections` (`itertools.product` order, `filter(None, …)` drops empty sets),
  `ExpressionVector` (`Vec`: names are numbers) literally.
compiler.py
* `compile` ↦ `compileWith`: the work list is a Python list used as a stack (`stack.pop()` takes the
  LAST element ↦ head of `stack`), `state_numbers` is a dict from state to number ↦ `indexOf` in
  `states`; `transitions[n].sort()` sorts 3-tuples lexicographically ↦ insertion sort `sortT`
  (for a total order every sorting algorithm returns the same list).  The `while` loop is unbounded:
  `fuel` bounds the number of states taken from the stack, `Err.Fuel` = "does not return"
  (observed on the real code as a RecursionError once the expressions nest 300+ deep).
scanner.py
* `pick_transition` with a literal model of `bisect.bisect(transitions, (char,))`
  (`(c,) < (f, l, n)` ⇔ `c ≤ f`), `scan` / `Scanner.scan` ↦ `scanLoop` (the generator's output is
  the list of tokens plus how it ended).
-/
namespace Model.Regex
open Model

abbrev SymSet := List (Int × Int)

inductive Err where
  | ValueError | KeyError | RuntimeError | NotImplementedError | TypeError | Fuel
  deriving DecidableEq, Repr

def Err.name : Err → String
  | .ValueError => "ValueError"
  | .KeyError => "KeyError"
  | .RuntimeError => "RuntimeError"
  | .NotImplementedError => "NotImplementedError"
  | .TypeError => "TypeError"
  | .Fuel => "Fuel"

inductive Re where
  | eps
  | set (s : SymSet)
  | star (e : Re)
  | cat (l r : Re)
  | or (l r : Re)
  | and (l r : Re)
  deriving DecidableEq, Repr, Inhabited

/-- `NULL = SymbolSet([])` -/
def NULL : Re := .set []
def sigmaSet : SymSet := [(0, 255)]
/-- `SIGMA = SymbolSet([(0, 255)])` -/
def SIGMA : Re := .set sigmaSet

/-- `SymbolSet(values)` for a list of ints (`(v, v)`) / tuples -/
def symbolSet (values : List (Int × Int)) : Re := .set (IntSet.mk values)

/-- `Symbol(c)` -/
def symbol (c : Int) : Re := symbolSet [(c, c)]

/-- `SymbolSet(s)` where `s` is an `IntegerSet`: `IntegerSet(*s)` iterates over the members -/
def symbolSetOfSet (s : SymSet) : Re := .set (IntSet.mk ((IntSet.iter s).map fun v => (v, v)))

def concatenate (l r : Re) : Re :=
  if l = NULL then NULL
  else if r = NULL then NULL
  else if l = .eps then r
  else if r = .eps then l
  else .cat l r

def logicalOr (l r : Re) : Re :=
  match l, r with
  | .set a, .set b => symbolSetOfSet (IntSet.union a b)
  | _, _ =>
    if l = r then l
    else if l = NULL then r
    else if r = NULL then l
    else .or l r

def logicalAnd (l r : Re) : Re :=
  if l = r then l
  else if l = NULL then l
  else if r = NULL then r
  else .and l r

/-- `nu()`: `EPSILON` or `NULL` -/
def nu : Re → Re
  | .eps => .eps
  | .set _ => NULL
  | .star _ => .eps
  | .cat l r => logicalAnd (nu l) (nu r)
  | .or l r => logicalOr (nu l) (nu r)
  | .and l r => logicalAnd (nu l) (nu r)

def nullable (r : Re) : Bool := decide (nu r = .eps)

def derivative : Re → Int → Re
  | .eps, _ => NULL
  | .set s, c => if IntSet.contains s c then .eps else NULL
  | .star e, c => concatenate (derivative e c) (.star e)
  | .cat l r, c =>
      logicalOr (concatenate (derivative l c) r) (concatenate (nu l) (derivative r c))
  | .or l r, c => logicalOr (derivative l c) (derivative r c)
  | .and l r, c => logicalAnd (derivative l c) (derivative r c)

/-- `product_intersections(as, bs)` -/
def productIntersections (as bs : List SymSet) : List SymSet :=
  (as.flatMap fun a => bs.map fun b => IntSet.inter a b).filter (fun s => !s.isEmpty)

def derivativeClasses : Re → List SymSet
  | .eps => [sigmaSet]
  | .set s => [s, IntSet.diff sigmaSet s]
  | .star e => derivativeClasses e
  | .cat l r =>
      if nullable l then productIntersections (derivativeClasses l) (derivativeClasses r)
      else derivativeClasses l
  | .or l r => productIntersections (derivativeClasses l) (derivativeClasses r)
  | .and l r => productIntersections (derivativeClasses l) (derivativeClasses r)

/-! ### ExpressionVector -/

/-- `ExpressionVector`: (name, expression) pairs; names are numbers in the model -/
abbrev Vec := List (Nat × Re)

def Vec.nullableNames (v : Vec) : List Nat := (v.filter fun p => nullable p.2).map (·.1)
def Vec.null (v : Vec) : Vec := v.map fun p => (p.1, NULL)
def Vec.derivative (v : Vec) (c : Int) : Vec := v.map fun p => (p.1, Model.Regex.derivative p.2 c)
/-- `filter(None, functools.reduce(product_intersections, classes…))`; `reduce` of an empty
sequence raises TypeError in Python — the model returns no classes for the empty vector -/
def Vec.derivativeClasses : Vec → List SymSet
  | [] => []
  | p :: t => (t.foldl (fun acc q => productIntersections acc (Model.Regex.derivativeClasses q.2))
                (Model.Regex.derivativeClasses p.2)).filter (fun s => !s.isEmpty)

/-! ### compile -/

/-- what `compile` uses of a state object (duck typing: `Regex` or `ExpressionVector`) -/
structure Ops (σ : Type) where
  classes : σ → List SymSet
  deriv : σ → Int → σ
  null : σ → σ

def reOps : Ops Re := { classes := derivativeClasses, deriv := derivative, null := fun _ => NULL }
def vecOps : Ops Vec := { classes := Vec.derivativeClasses, deriv := Vec.derivative, null := Vec.null }

/-- a transition `(first, last, next_state)` -/
abbrev Trans := Int × Int × Nat

/-- tuple comparison `x <= y` on 3-tuples (lexicographic) -/
def lexLeT (x y : Trans) : Bool :=
  decide (x.1 < y.1) || (decide (x.1 = y.1) &&
    (decide (x.2.1 < y.2.1) || (decide (x.2.1 = y.2.1) && decide (x.2.2 ≤ y.2.2))))

def insertT (x : Trans) : List Trans → List Trans
  | [] => [x]
  | y :: t => if lexLeT x y then x :: y :: t else y :: insertT x t

/-- `list.sort()` on transitions -/
def sortT : List Trans → List Trans
  | [] => []
  | x :: t => insertT x (sortT t)

/-- `state_numbers[x]`: the position of `x` in `states` -/
def indexOf {σ : Type} [DecidableEq σ] (x : σ) : List σ → Nat
  | [] => 0
  | y :: t => if y = x then 0 else indexOf x t + 1

/-- `l[n] = f(l[n])` -/
def modifyAt {α : Type} (f : α → α) : Nat → List α → List α
  | _, [] => []
  | 0, a :: t => f a :: t
  | n + 1, a :: t => a :: modifyAt f n t

structure CState (σ : Type) where
  states : List σ
  trans : List (List Trans)
  stack : List σ

/-- `add_state` -/
def addState {σ : Type} (st : CState σ) (x : σ) : CState σ :=
  { states := st.states ++ [x], trans := st.trans ++ [[]], stack := x :: st.stack }

/-- body of `for derivative_class in state.derivative_classes()` -/
def classStep {σ : Type} [DecidableEq σ] (O : Ops σ) (state : σ) (n : Nat) (st : CState σ) (K : SymSet) :
    CState σ :=
  match K with
  | [] => st                                   -- `if not derivative_class: continue`
  | (first, _) :: _ =>
    let next := O.deriv state first             -- symbol = derivative_class.ranges[0][0]
    let st := if next ∈ st.states then st else addState st next
    let m := indexOf next st.states
    { st with trans := modifyAt (fun ts => ts ++ K.map fun r => (r.1, r.2, m)) n st.trans }

/-- body of the `while stack` loop after `state = stack.pop()` -/
def processState {σ : Type} [DecidableEq σ] (O : Ops σ) (root : σ) (st : CState σ) (state : σ) : CState σ :=
  let n := indexOf state st.states
  let st := (O.classes state).foldl (classStep O state n) st
  let st := { st with trans := modifyAt sortT n st.trans }
  -- the error state must have a number even when it is not reachable
  if st.stack.isEmpty ∧ O.null root ∉ st.states then addState st (O.null root) else st

def loop {σ : Type} [DecidableEq σ] (O : Ops σ) (root : σ) : Nat → CState σ → Option (CState σ)
  | fuel, st =>
    match st.stack with
    | [] => some st
    | state :: rest =>
      match fuel with
      | 0 => none
      | fuel + 1 => loop O root fuel (processState O root { st with stack := rest } state)

/-- the program `(transitions, accepts, error)` -/
structure DFA (α : Type) where
  trans : List (List Trans)
  accepts : List α
  error : Nat
  deriving DecidableEq, Repr

def compileWith {σ α : Type} [DecidableEq σ] (O : Ops σ) (acc : σ → α) (fuel : Nat) (root : σ) :
    Except Err (DFA α) :=
  match loop O root fuel (addState ⟨[], [], []⟩ root) with
  | none => .error .Fuel
  | some st =>
    if O.null root ∈ st.states then
      .ok { trans := st.trans, accepts := st.states.map acc, error := indexOf (O.null root) st.states }
    else .error .KeyError                       -- `state_numbers[expr.null]`

/-- `compile(expr)` for a `Regex` -/
def compile (fuel : Nat) (r : Re) : Except Err (DFA Bool) := compileWith reOps nullable fuel r
/-- `compile(vector)` for an `ExpressionVector` -/
def compileVec (fuel : Nat) (v : Vec) : Except Err (DFA (List Nat)) :=
  compileWith vecOps Vec.nullableNames fuel v

/-! ### running the tables -/

/-- `bisect.bisect_right(ts, (c,))`: `if x < a[mid]: hi = mid else: lo = mid + 1` -/
def bisectLoop (ts : List Trans) (c : Int) (lo hi : Nat) : Nat :=
  if _h : lo < hi then
    let mid := (lo + hi) / 2
    if c ≤ (ts.getD mid (0, 0, 0)).1 then bisectLoop ts c lo mid
    else bisectLoop ts c (mid + 1) hi
  else lo
termination_by hi - lo
decreasing_by all_goals omega

def bisect (ts : List Trans) (c : Int) : Nat := bisectLoop ts c 0 ts.length

/-- `pick_transition` for the transition list of one state -/
def pickTransition (ts : List Trans) (c : Int) : Except Err Nat :=
  let i := bisect ts c
  if i < ts.length ∧ c = (ts.getD i (0, 0, 0)).1 then .ok (ts.getD i (0, 0, 0)).2.2
  else if i > 0 ∧ (ts.getD (i - 1) (0, 0, 0)).1 ≤ c ∧ c ≤ (ts.getD (i - 1) (0, 0, 0)).2.1 then
    .ok (ts.getD (i - 1) (0, 0, 0)).2.2
  else .error .RuntimeError

/-- run the tables from state `q` over `s` (no error-state shortcut) -/
def run {α : Type} (d : DFA α) : Nat → List Int → Except Err Nat
  | q, [] => .ok q
  | q, c :: s =>
    match pickTransition (d.trans.getD q []) c with
    | .ok q' => run d q' s
    | .error e => .error e

/-- whole-string acceptance computed by running the tables from state 0 -/
def accepts (d : DFA Bool) (s : List Int) : Except Err Bool :=
  match run d 0 s with
  | .ok q => .ok (d.accepts.getD q false)
  | .error e => .error e

/-! ### scan -/

/-- One pass of the `while True` loop of `scan` from `state = 0` until the error state is entered
or the input ends. `k` = `offset - start`, `best` = `(accept, end - start)` of the last accepting
state seen. Returns `best` and the final `offset - start`. -/
def munch {α : Type} [Inhabited α] (d : DFA α) (isAcc : α → Bool) :
    Nat → List Int → Nat → Option (α × Nat) → Except Err (Option (α × Nat) × Nat)
  | q, inp, k, best =>
    let a := d.accepts.getD q default
    let best := if isAcc a then some (a, k) else best
    match inp with
    | [] => .ok (best, k)                         -- `state = error_state`
    | c :: inp' =>
      match pickTransition (d.trans.getD q []) c with
      | .error e => .error e
      | .ok q' =>
        if q' = d.error then .ok (best, k + 1)
        else munch d isAcc q' inp' (k + 1) best

/-- how the generator ended -/
inductive End where
  | done                -- `break`
  | noMatch             -- `raise ValueError("No match!")`
  | err (e : Err)       -- exception from `pick_transition`
  | fuel
  deriving DecidableEq, Repr

def End.name : End → String
  | .done => "done"
  | .noMatch => "ValueError"
  | .err e => e.name
  | .fuel => "Fuel"

/-- `scan(prog, chars)` / `Scanner.scan`: tokens `(accept, text)` and the way it ended -/
def scanLoop {α : Type} [Inhabited α] (d : DFA α) (isAcc : α → Bool) :
    Nat → List Int → List (α × List Int) × End
  | 0, _ => ([], .fuel)
  | fuel + 1, rest =>
    match munch d isAcc 0 rest 0 none with
    | .error e => ([], .err e)
    | .ok (some (a, e), k) =>
      if e > 0 then                               -- `if accept and end > start`
        let r := scanLoop d isAcc fuel (rest.drop e)
        ((a, rest.take e) :: r.1, r.2)
      else if k > 0 then ([], .noMatch) else ([], .done)
    | .ok (none, k) => if k > 0 then ([], .noMatch) else ([], .done)

/-- `list(scan(compile(r), chars))` -/
def scan (d : DFA Bool) (chars : List Int) : List (List Int) × End :=
  let r := scanLoop d id (chars.length + 1) chars
  (r.1.map (·.2), r.2)

/-- `list(Scanner(prog).scan(txt))`: tokens `(accept[0], text)` -/
def scanVec (d : DFA (List Nat)) (chars : List Int) : List (Nat × List Int) × End :=
  let r := scanLoop d (fun a => !a.isEmpty) (chars.length + 1) chars
  (r.1.map (fun p => (p.1.headD 0, p.2)), r.2)

end Model.Regex
