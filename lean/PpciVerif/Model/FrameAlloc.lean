/-!
# `Model.FrameAlloc` — the stack-slot allocator `ppci/arch/stack.py:Frame.alloc` (import-free)

```python
def alloc(self, size, alignment):
    self.alignment = max(self.alignment, alignment)
    if size == 0:
        raise ValueError("Trying to allocate 0 bytes")
    if self.fp_location == FramePointerLocation.TOP:
        self.stacksize += size
        misalign = self.stacksize % alignment
        if misalign:
            self.stacksize = self.stacksize - misalign + alignment
        offset = -self.stacksize
    else:
        misalign = self.stacksize % alignment
        if misalign:
            self.stacksize += alignment - misalign      # (was `size - misalign` before the fix)
        offset = self.stacksize
        self.stacksize += size
    return StackLocation(offset, size)
```

Python `int` ↦ `Int`; `%` is Python's floor modulo (`Int.fmod`, sign of the divisor), a zero
divisor raises `ZeroDivisionError`.  The frame is mutated before the `ValueError` is raised
(`self.alignment`), so a failing call also returns the new frame.

`allocOld` is the BOTTOM branch as it was before the repair (kept for the negation witness).
-/
namespace Model.FrameAlloc

inductive Mode where | top | bottom
  deriving DecidableEq, Repr, Inhabited

structure Frame where
  mode : Mode
  stacksize : Int
  alignment : Int
  deriving DecidableEq, Repr, Inhabited

structure Slot where
  offset : Int
  size : Int
  deriving DecidableEq, Repr, Inhabited

inductive Err where | ValueError | ZeroDivisionError
  deriving DecidableEq, Repr, Inhabited

def Err.name : Err → String
  | .ValueError => "ValueError"
  | .ZeroDivisionError => "ZeroDivisionError"

/-- `Frame(...)` as constructed by `Architecture.new_frame` -/
def Frame.new (m : Mode) : Frame := { mode := m, stacksize := 0, alignment := 1 }

/-- one call of `Frame.alloc`; the frame is returned also when the call raises -/
def alloc (f : Frame) (size alignment : Int) : Frame × Except Err Slot :=
  let f := { f with alignment := max f.alignment alignment }
  if size = 0 then (f, .error .ValueError)
  else if alignment = 0 then
    -- `… % alignment` is evaluated in both branches before anything else is stored,
    -- except that the TOP branch has already added `size`
    match f.mode with
    | .top => ({ f with stacksize := f.stacksize + size }, .error .ZeroDivisionError)
    | .bottom => (f, .error .ZeroDivisionError)
  else
    match f.mode with
    | .top =>
      let s := f.stacksize + size
      let mis := Int.fmod s alignment
      let s := if mis ≠ 0 then s - mis + alignment else s
      ({ f with stacksize := s }, .ok { offset := -s, size := size })
    | .bottom =>
      let mis := Int.fmod f.stacksize alignment
      let s := if mis ≠ 0 then f.stacksize + (alignment - mis) else f.stacksize
      ({ f with stacksize := s + size }, .ok { offset := s, size := size })

/-- the BOTTOM branch before the repair: `self.stacksize += size - misalign` -/
def allocOld (f : Frame) (size alignment : Int) : Frame × Except Err Slot :=
  let f := { f with alignment := max f.alignment alignment }
  if size = 0 then (f, .error .ValueError)
  else if alignment = 0 then (f, .error .ZeroDivisionError)
  else
    let mis := Int.fmod f.stacksize alignment
    let s := if mis ≠ 0 then f.stacksize + (size - mis) else f.stacksize
    ({ f with stacksize := s + size }, .ok { offset := s, size := size })

/-- an allocation history: the calls `(size, alignment)` in order; failing calls are skipped
    (the caller caught the exception), their effect on the frame is kept -/
def run (al : Frame → Int → Int → Frame × Except Err Slot) : Frame → List (Int × Int) → Frame × List (Except Err Slot)
  | f, [] => (f, [])
  | f, (sz, a) :: rest =>
    let (f', r) := al f sz a
    let (f'', rs) := run al f' rest
    (f'', r :: rs)

/-- the slots handed out by a history in which every call succeeded -/
def slots : List (Except Err Slot) → List Slot
  | [] => []
  | .ok s :: r => s :: slots r
  | .error _ :: r => slots r

end Model.FrameAlloc
