/-
Hand model of ppci/utils/leb128.py (import-free).

Python `int` ↦ `Int`; `value & 0x7F` ↦ `value % 128` and `value >>= 7` ↦
`value / 128` (Lean's `Int` `/`,`%` are Euclidean: floor for a positive
divisor, exactly Python's `>>`/`&` with a low mask, also for negatives);
`byte | 0x80` ↦ `byte + 128` (`byte < 128`).  The `while True` loops are
well-founded recursions: termination is a proof obligation.
Tied to the source by the correspondence check (harness/c20.py).
-/
namespace Model.Leb128

inductive Err | ValueError | StopIteration | TypeError
  deriving Repr, DecidableEq

def Err.name : Err → String
  | .ValueError => "ValueError" | .StopIteration => "StopIteration" | .TypeError => "TypeError"

/-- body of `signed_leb128_encode`'s loop; returns the bytes appended -/
def sencLoop (value : Int) : List Nat :=
  let byte := value % 128
  let value' := value / 128
  let signBit := decide (byte % 128 ≥ 64)            -- bool(byte & 0x40)
  if _h : (value' = 0 ∧ signBit = false) ∨ (value' = -1 ∧ signBit = true) then
    [byte.toNat]
  else
    (byte.toNat + 128) :: sencLoop value'
termination_by value.natAbs
decreasing_by
  simp only [value', signBit, byte, not_or, not_and, decide_eq_true_eq, decide_eq_false_iff_not] at _h
  omega

def signedEncode (value : Int) : List Nat := sencLoop value

/-- loop of `unsigned_leb128_encode` (only reached for `value ≥ 0`) -/
def uencLoop (value : Nat) : List Nat :=
  let byte := value % 128
  let value' := value / 128
  if value' = 0 then [byte] else (byte + 128) :: uencLoop value'
termination_by value
decreasing_by omega

def unsignedEncode (value : Int) : Except Err (List Nat) :=
  if value < 0 then .error .ValueError else .ok (uencLoop value.toNat)

/-- `unsigned_leb128_decode` on an iterator: returns value and the unread rest.
    `result |= (byte & 0x7F) << shift` -/
def udecLoop (result shift : Nat) : List Nat → Except Err (Nat × List Nat)
  | [] => .error .StopIteration
  | byte :: rest =>
    let result' := result ||| ((byte % 128) <<< shift)
    if byte / 128 % 2 = 0 then .ok (result', rest)          -- byte & 0x80 == 0
    else udecLoop result' (shift + 7) rest

def unsignedDecode (data : List Nat) : Except Err (Nat × List Nat) := udecLoop 0 0 data

/-- loop of `signed_leb128_decode`: returns result, shift, last byte, rest -/
def sdecLoop (result shift : Nat) : List Nat → Except Err (Nat × Nat × Nat × List Nat)
  | [] => .error .StopIteration
  | byte :: rest =>
    let result' := result ||| ((byte % 128) <<< shift)
    let shift' := shift + 7
    if byte / 128 % 2 = 0 then .ok (result', shift', byte, rest)
    else sdecLoop result' shift' rest

def signedDecode (data : List Nat) : Except Err (Int × List Nat) :=
  match sdecLoop 0 0 data with
  | .error e => .error e
  | .ok (result, shift, byte, rest) =>
    if byte / 64 % 2 = 1 then                                -- byte & 0x40
      let mask := (1 <<< shift) - 1
      let r := result ^^^ mask
      .ok (-(r : Int) - 1, rest)
    else .ok ((result : Int), rest)

end Model.Leb128
