/-
Types of the T2 tables (import-free).  `translate/tables.py` introspects the live
ppci classes after `import ppci` and writes values of these types into
`Gen/Tokens.lean`, `Gen/Instrs.lean`, `Gen/Relocs.lean` (one table per ISA).
See notes/TABLES.md for what each column means and how it is obtained.
-/
namespace Model.Tables

/-- one `bit_range`/`bit_concat` property of a token class.
    `parts` are the `[b, e)` bit ranges, most significant part first, nested
    `bit_concat`s flattened; a plain `bit_range(b, e)` has `concat = false` and one part.
    `signed` is the declared `_signed` flag (for a concat: that of the first partial). -/
structure FieldDesc where
  name : String
  concat : Bool
  parts : List (Nat × Nat)
  signed : Bool
  deriving Repr, DecidableEq, Inhabited

structure TokenDesc where
  name : String
  size : Nat            -- `Info.size`, in bits
  bigEndian : Bool      -- `Info.endianness == Endianness.BIG`
  precode : Bool        -- `Info.precode`
  init : Nat            -- `bit_value` of a fresh instance `cls()` (x86_64 RexToken starts at 0x40)
  fields : List FieldDesc
  deriving Repr, DecidableEq, Inhabited

/-- the value a pattern writes -/
inductive PatVal where
  | fixed (v : Int)                                   -- FixedPattern
  | operand (name : String)                           -- VariablePattern on an Operand
  | transformed (name : String) (transform : String)  -- VariablePattern on a Transform wrapping operand `name`
  deriving Repr, DecidableEq, Inhabited

structure PatDesc where
  field : String
  val : PatVal
  deriving Repr, DecidableEq, Inhabited

inductive OpKind where
  | reg (cls : String) (maxNum : Option Nat)          -- Register subclass, largest `.num` of `all_registers()` if known
  | int
  | str                                               -- a label: filled by a relocation, not by a pattern
  | cons (options : List String) (values : List Int)  -- Constructor choice; `values` = the operand's value map (may be empty)
  | other (desc : String)
  deriving Repr, DecidableEq, Inhabited

structure OperandDesc where
  name : String
  kind : OpKind
  read : Bool
  write : Bool
  deriving Repr, DecidableEq, Inhabited

/-- an `Instruction` subclass, or a `Constructor` that is used as part of instructions -/
structure InstrDesc where
  name : String
  isInstruction : Bool
  hasTokens : Bool                 -- class has a `tokens` attribute
  tokens : List String             -- names in the same ISA's token table
  patterns : List PatDesc          -- `dict_to_patterns(cls.patterns)`, in application order
  operands : List OperandDesc      -- every `Operand` attribute of the class
  syntaxArgs : List String         -- `syntax.formal_arguments` (names, in order); [] if no syntax
  hasSyntax : Bool
  encodeOverridden : Bool          -- `encode` is not `Instruction.encode`
  userPatternsOverridden : Bool    -- `set_user_patterns` is not `Constructor.set_user_patterns`
  relocsOverridden : Bool          -- `relocations` / `gen_relocations` overridden
  deriving Repr, DecidableEq, Inhabited

structure RelocDesc where
  cls : String                     -- Python class name
  name : String                    -- `name` attribute ("" if None)
  token : Option String
  field : Option String
  number : Option Int
  size : Option Nat                -- `cls.size()` in bytes when it can be computed
  calcOverridden : Bool
  applyOverridden : Bool
  deriving Repr, DecidableEq, Inhabited

/-- purely declarative: bytes are produced by `Instruction.encode` from `tokens` and `patterns` only -/
def InstrDesc.declarative (c : InstrDesc) : Bool :=
  c.hasTokens && !c.encodeOverridden && !c.userPatternsOverridden

end Model.Tables
