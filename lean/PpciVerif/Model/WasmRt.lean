import PpciVerif.Model.Bitfun
/-
Hand model of the *integer* runtime helpers of ppci/wasm/execution/runtime.py
(core Lean only).  Each is a composition of `Model.Bitfun` functions, exactly as
in the source:

  i32_rotl(v, cnt) = to_signed(rotl(to_unsigned(v, 32), cnt, 32), 32)      (same for rotr, i64)
  i32_clz(v) = clz(v, 32)   i32_ctz(v) = ctz(v, 32)   i32_popcnt(v) = popcnt(v, 32)   (i64: 64)
  i32_extend8_s(x) = sign_extend(x, 8)   i32_extend16_s, i64_extend8_s/16_s/32_s likewise

Arguments are Python ints as the generated code passes them (signed i32/i64
values, possibly any integer); floats, traps and memory are not modelled.
Tied to the source by the correspondence run of harness/c22.py.
-/
namespace Model.WasmRt
open Model.Bitfun

def rotlN (bits : Nat) (v cnt : Int) : Except Err Int :=
  (rotl (toUnsigned v bits) cnt bits).map (fun r => toSigned r bits)

def rotrN (bits : Nat) (v cnt : Int) : Except Err Int :=
  (rotr (toUnsigned v bits) cnt bits).map (fun r => toSigned r bits)

def i32_rotl := rotlN 32
def i64_rotl := rotlN 64
def i32_rotr := rotrN 32
def i64_rotr := rotrN 64

def i32_clz (v : Int) : Except Err Nat := clz v 32
def i64_clz (v : Int) : Except Err Nat := clz v 64
def i32_ctz (v : Int) : Nat := ctz v 32
def i64_ctz (v : Int) : Nat := ctz v 64
def i32_popcnt (v : Int) : Nat := popcnt v 32
def i64_popcnt (v : Int) : Nat := popcnt v 64

def i32_extend8_s (x : Int) : Except Err Int := signExtend x 8
def i32_extend16_s (x : Int) : Except Err Int := signExtend x 16
def i64_extend8_s (x : Int) : Except Err Int := signExtend x 8
def i64_extend16_s (x : Int) : Except Err Int := signExtend x 16
def i64_extend32_s (x : Int) : Except Err Int := signExtend x 32

end Model.WasmRt
