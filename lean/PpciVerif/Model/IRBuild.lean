import PpciVerif.Spec.IR
/-!
# Model.IRBuild — the object-construction layer shared by ppci's two IR readers

`ppci/irutils/reader.py:Reader` (text) and `ppci/irutils/io.py:DictReader` (JSON) build
`ppci.ir` objects in exactly the same way:

* a stack of two scopes (module scope, function scope) mapping names to values
  (`find_value` / `get_value_ref`, `define_value` / `register_value`);
* `undefined_values`: a dictionary *of the reader* (not of a scope) holding one
  `ir.Undefined` placeholder per name that was referenced before any value of that name
  was in scope; the placeholder gets the type the use site asks for (`ptr` when the use
  site does not know), a later typed use re-types it; the next `define_value` of that
  name — wherever it happens — replaces every use of the placeholder (`replace_by`);
* the constructors of `ppci/ir.py` with their type checks;
* `Block.add_instruction` (`assert not self.is_closed`, `make_unique_name`).

Modules are represented by name (`Spec.IR`): `Operand.loc x` = a value of the enclosing
function, `Operand.glob x` = a module-level value.  A use of a placeholder is recorded as
`Operand.glob x` with `x` in `pending`; while a name is pending no module-level value of
that name is in scope, so the encoding is unambiguous.  When a function-level value `x`
is defined while `x` is pending, the uses recorded so far in the current function become
`loc x`; uses recorded in *earlier* functions now point into a foreign function and become
`loc "!dangling!x"` (this is how `harness/irser.py` serialises such an operand).

What is NOT modelled (the functions return `RErr.Unsupported`, the harness then does not
compare): `SubRoutine.make_unique_name` actually renaming something (a block or value
name that is already used in the function), the text reader silently shadowing a value
of the same function, references to blocks that are never defined, negative sizes.

Import-free apart from the syntax of `Spec.IR` (core Lean only).
-/
namespace Model.IRBuild
open Spec.IR

inductive RErr
  | IrParseException | KeyError | TypeError | ValueError | AssertionError | NotImplementedError
  | BinasciiError
  | Unsupported      -- outside the modelled fragment (see above); never a claim about ppci
  | FuelExhausted    -- loop bound hit (never happens: fuel = number of tokens + 1)
  deriving DecidableEq, Repr

def RErr.name : RErr → String
  | .IrParseException => "IrParseException" | .KeyError => "KeyError" | .TypeError => "TypeError"
  | .ValueError => "ValueError" | .AssertionError => "AssertionError"
  | .NotImplementedError => "NotImplementedError" | .BinasciiError => "Error"
  | .Unsupported => "Unsupported" | .FuelExhausted => "FuelExhausted"

/-! ## hex (`binascii`), used by both file formats -/

def hexDigit (n : Nat) : Char := if n < 10 then Char.ofNat (48 + n) else Char.ofNat (87 + n)

def hexVal (c : Char) : Option Nat :=
  let n := c.toNat
  if 48 ≤ n ∧ n ≤ 57 then some (n - 48)
  else if 97 ≤ n ∧ n ≤ 102 then some (n - 87)
  else if 65 ≤ n ∧ n ≤ 70 then some (n - 55)
  else none

/-- `binascii.hexlify` -/
def hexlify : List Nat → List Char
  | [] => []
  | b :: bs => hexDigit (b / 16 % 16) :: hexDigit (b % 16) :: hexlify bs

/-- `binascii.unhexlify` -/
def unhexlify : List Char → Except RErr (List Nat)
  | [] => .ok []
  | [_] => .error .BinasciiError
  | a :: b :: rest =>
    match hexVal a, hexVal b with
    | some x, some y =>
      match unhexlify rest with
      | .ok r => .ok ((x * 16 + y) :: r)
      | .error e => .error e
    | _, _ => .error .BinasciiError

abbrev TyEnv := List (String × Ty)

def lookupTy : TyEnv → String → Option Ty
  | [], _ => none
  | (y, t) :: r, x => if x = y then some t else lookupTy r x

def setTy : TyEnv → String → Ty → TyEnv
  | [], _, _ => []
  | (y, t) :: r, x, w => if x = y then (y, w) :: r else (y, t) :: setTy r x w

/-- `dict.pop(x)` (keys of `pending` are unique: a key is only added when it is absent) -/
def eraseKey : TyEnv → String → TyEnv
  | [], _ => []
  | (y, t) :: r, x => if x = y then eraseKey r x else (y, t) :: eraseKey r x

structure BState where
  json : Bool := false                -- DictReader (asserts on duplicates) or text Reader
  globals : List String := []         -- scopes[0].value_map (every module-level value has type ptr)
  locals : TyEnv := []                -- scopes[1].value_map
  pending : TyEnv := []               -- undefined_values: name ↦ type of the placeholder
  defined : List String := []         -- function.defined_names (blocks and instruction values)
  blockDefs : List String := []       -- blocks whose `.function` is set
  blockRefs : List String := []       -- keys of the scope's block_map
  curName : String := ""              -- block under construction
  cur : List Instr := []
  blocks : List Block := []           -- finished blocks of the current function
  funcs : List Func := []             -- finished functions
  deriving Repr

def opName : Operand → String
  | .loc n => n
  | .glob n => n

/-! ## placeholders -/

/-- `find_value(name, ty)` / `get_value_ref(name, ty)`: innermost scope first, then the
    placeholder dictionary; `want = none` is the untyped use site -/
def lookup (st : BState) (x : String) (want : Option Ty) : BState × Operand × Ty :=
  match lookupTy st.locals x with
  | some t => (st, .loc x, t)
  | none =>
    if st.globals.contains x then (st, .glob x, .ptr)
    else match lookupTy st.pending x with
      | some t =>
        match want with
        | some w => ({ st with pending := setTy st.pending x w }, .glob x, w)
        | none => (st, .glob x, t)
      | none =>
        let t := want.getD .ptr
        ({ st with pending := (x, t) :: st.pending }, .glob x, t)

def patchOpnd (x : String) (to : Operand) : Operand → Operand
  | .glob y => if y = x then to else .glob y
  | o => o

/-- `Undefined.replace_by(value)` seen from one user: every operand slot holding the
    placeholder `x` now holds `to`; the type of a stored value is the type of the new value -/
def patchInstr (x : String) (to : Operand) (t : Ty) : Instr → Instr
  | .addrof d s => .addrof d (patchOpnd x to s)
  | .binop d ty op a b => .binop d ty op (patchOpnd x to a) (patchOpnd x to b)
  | .unop d ty op a => .unop d ty op (patchOpnd x to a)
  | .cast d ty a => .cast d ty (patchOpnd x to a)
  | .load d ty a vol => .load d ty (patchOpnd x to a) vol
  | .store ty v a vol => .store (if v = .glob x then t else ty) (patchOpnd x to v) (patchOpnd x to a) vol
  | .copyblob d s n => .copyblob (patchOpnd x to d) (patchOpnd x to s) n
  | .phi d ty ins => .phi d ty (ins.map (fun p => (p.1, patchOpnd x to p.2)))
  | .fcall d ty c args => .fcall d ty (patchOpnd x to c) (args.map (patchOpnd x to))
  | .pcall c args => .pcall (patchOpnd x to c) (args.map (patchOpnd x to))
  | .asm tpl i o cl => .asm tpl (i.map (patchOpnd x to)) (o.map (patchOpnd x to)) cl
  | .cjump a c b y n => .cjump (patchOpnd x to a) c (patchOpnd x to b) y n
  | .ret v => .ret (patchOpnd x to v)
  | i => i

def patchBlock (x : String) (to : Operand) (t : Ty) (b : Block) : Block :=
  { b with instrs := b.instrs.map (patchInstr x to t) }

def patchFunc (x : String) (to : Operand) (t : Ty) (f : Func) : Func :=
  { f with blocks := f.blocks.map (patchBlock x to t) }

/-- the placeholder `x` is replaced by a value of type `t` defined in the current function
    (`isLocal`) or at module level -/
def patchAll (st : BState) (x : String) (isLocal : Bool) (t : Ty) : BState :=
  let toCur : Operand := if isLocal then .loc x else .glob x
  let toOld : Operand := if isLocal then .loc ("!dangling!" ++ x) else .glob x
  { st with
    pending := eraseKey st.pending x
    cur := st.cur.map (patchInstr x toCur t)
    blocks := st.blocks.map (patchBlock x toCur t)
    funcs := st.funcs.map (patchFunc x toOld t) }

/-- `define_value` / `register_value` of a parameter or instruction value -/
def defineLocal (st : BState) (x : String) (t : Ty) : Except RErr BState :=
  let st := if (lookupTy st.pending x).isSome then patchAll st x true t else st
  if (lookupTy st.locals x).isSome then
    .error (if st.json then .AssertionError else .Unsupported)
  else .ok { st with locals := (x, t) :: st.locals }

/-- `define_value` / `register_value` of an external, variable or subroutine -/
def defineGlobal (st : BState) (x : String) : Except RErr BState :=
  let st := if (lookupTy st.pending x).isSome then patchAll st x false .ptr else st
  if st.json && st.globals.contains x then .error .AssertionError
  else .ok { st with globals := x :: st.globals }

/-- `_get_block(name)` / `get_block_ref(name)` -/
def blockRef (st : BState) (b : String) : BState :=
  if st.blockRefs.contains b then st else { st with blockRefs := b :: st.blockRefs }

/-! ## constructors of `ppci/ir.py` -/

/-- `Phi.set_incoming`: a dictionary keyed by block -/
def setIncoming : List (String × Operand) → String → Operand → List (String × Operand)
  | [], b, o => [(b, o)]
  | (c, p) :: r, b, o => if c = b then (c, o) :: r else (c, p) :: setIncoming r b o

def lookupMany (st : BState) : List Operand → BState × List Operand
  | [] => (st, [])
  | a :: r =>
    let (st1, o, _) := lookup st (opName a) none
    let (st2, os) := lookupMany st1 r
    (st2, o :: os)

def buildPhiIns (st : BState) (ty : Ty) : List (String × Operand) → List (String × Operand) →
    Except RErr (BState × List (String × Operand))
  | [], acc => .ok (st, acc)
  | (b, v) :: r, acc =>
    let st1 := blockRef st b
    let (st2, o, t) := lookup st1 (opName v) (some ty)
    if t ≠ ty then .error .ValueError
    else buildPhiIns st2 ty r (setIncoming acc b o)

/-- resolve the operands of a *raw* instruction (operands carry only names; the type of a
    `store` is ignored) in the order the readers do, and run the constructor's checks -/
def build (st : BState) : Instr → Except RErr (BState × Instr)
  | .const d ty c => .ok (st, .const d ty c)
  | .undefined d ty => .ok (st, .undefined d ty)
  | .literal d data => .ok (st, .literal d data)
  | .alloc d s a => if s = 0 then .error .ValueError else .ok (st, .alloc d s a)
  | .addrof d s =>
    let (st1, o, t) := lookup st (opName s) (some (.blob 1 1))
    if t.isBlob then .ok (st1, .addrof d o) else .error .TypeError
  | .binop d ty op a b =>
    let (st1, oa, ta) := lookup st (opName a) (some ty)
    let (st2, ob, tb) := lookup st1 (opName b) (some ty)
    if ta ≠ ty then .error .TypeError
    else if tb ≠ ty then .error .TypeError
    else .ok (st2, .binop d ty op oa ob)
  | .unop d ty op a =>
    let (st1, oa, ta) := lookup st (opName a) (some ty)
    if ta ≠ ty then .error .TypeError else .ok (st1, .unop d ty op oa)
  | .cast d ty a =>
    let (st1, oa, _) := lookup st (opName a) none
    .ok (st1, .cast d ty oa)
  | .load d ty a vol =>
    let (st1, oa, ta) := lookup st (opName a) none
    if ta ≠ .ptr then .error .AssertionError
    else if ty.isBlob then .error .ValueError
    else .ok (st1, .load d ty oa vol)
  | .store _ v a vol =>
    let (st1, ov, tv) := lookup st (opName v) none
    let (st2, oa, ta) := lookup st1 (opName a) none
    -- the type of the stored value is derived from the value object; while that is a placeholder
    -- the type is immaterial (it is set when the placeholder is replaced, see `patchInstr`)
    if ta ≠ .ptr then .error .TypeError
    else .ok (st2, .store (match ov with | .loc _ => tv | .glob _ => .ptr) ov oa vol)
  | .copyblob d s n =>
    let (st1, od, _) := lookup st (opName d) none
    let (st2, os, _) := lookup st1 (opName s) none
    .ok (st2, .copyblob od os n)
  | .phi d ty ins => do
    let (st1, ins') ← buildPhiIns st ty ins []
    pure (st1, .phi d ty ins')
  | .fcall d ty c args =>
    let (st1, oc, tc) := lookup st (opName c) none
    let (st2, os) := lookupMany st1 args
    if tc ≠ .ptr then .error .ValueError else .ok (st2, .fcall d ty oc os)
  | .pcall c args =>
    let (st1, oc, tc) := lookup st (opName c) none
    let (st2, os) := lookupMany st1 args
    if tc ≠ .ptr then .error .ValueError else .ok (st2, .pcall oc os)
  | .asm .. => .error .Unsupported
  | .jump t => .ok (blockRef st t, .jump t)
  | .cjump a c b y n =>
    let (st1, oa, _) := lookup st (opName a) none
    let (st2, ob, _) := lookup st1 (opName b) none
    .ok (blockRef (blockRef st2 y) n, .cjump oa c ob y n)
  | .ret v =>
    let (st1, ov, _) := lookup st (opName v) none
    .ok (st1, .ret ov)
  | .exit => .ok (st, .exit)

/-- construct + `define_value(ins)` (the instruction is not yet in its block) -/
def feed (st : BState) (raw : Instr) : Except RErr (BState × Instr) := do
  let (st1, i) ← build st raw
  match i.dst? with
  | none => pure (st1, i)
  | some (d, t) =>
    let hit := (lookupTy st1.pending d).isSome
    let st2 ← defineLocal st1 d t
    pure (st2, if hit then patchInstr d (.loc d) t i else i)

/-- `Block.add_instruction` -/
def append (st : BState) (i : Instr) : Except RErr BState :=
  if (st.cur.getLast?.map Instr.isTerminator).getD false then .error .AssertionError
  else match i.dst? with
    | some (d, _) =>
      if st.defined.contains d then .error .Unsupported
      else .ok { st with cur := st.cur ++ [i], defined := d :: st.defined }
    | none => .ok { st with cur := st.cur ++ [i] }

/-! ## blocks, functions, module -/

/-- text reader `parse_block`: `_get_block`, `assert block.function is None`, `add_block` -/
def beginBlockText (st : BState) (name : String) : Except RErr BState :=
  let st := blockRef st name
  if st.blockDefs.contains name then .error .AssertionError
  else if st.defined.contains name then .error .Unsupported
  else .ok { st with blockDefs := name :: st.blockDefs, defined := name :: st.defined,
                     curName := name, cur := [] }

/-- JSON reader `new_block` (the block joins `function.blocks` only after its instructions) -/
def beginBlockJson (st : BState) (name : String) : Except RErr BState :=
  let st := blockRef st name
  if st.blockDefs.contains name then .error .AssertionError
  else .ok { st with blockDefs := name :: st.blockDefs, curName := name, cur := [] }

def closeBlock (st : BState) : BState :=
  { st with blocks := st.blocks ++ [{ name := st.curName, instrs := st.cur }], cur := [], curName := "" }

def endBlockText (st : BState) : BState := closeBlock st

/-- JSON reader `subroutine.add_block(block)` after `construct_block` -/
def endBlockJson (st : BState) : Except RErr BState :=
  if st.defined.contains st.curName then .error .Unsupported
  else .ok (closeBlock { st with defined := st.curName :: st.defined })

/-- `enter_scope()` for a subroutine -/
def beginFunc (st : BState) : BState :=
  { st with locals := [], defined := [], blockDefs := [], blockRefs := [], blocks := [],
            cur := [], curName := "" }

/-- `leave_scope()`; `subroutine.entry` = first block -/
def endFunc (st : BState) (name : String) (isGlobal : Bool) (ret : Option Ty)
    (params : List (String × Ty)) : Except RErr BState :=
  if st.blockRefs.any (fun b => !st.blockDefs.contains b) then .error .Unsupported
  else
    let f : Func := { name := name, isGlobal := isGlobal, ret := ret,
                      entry := (st.blocks.head?.map (·.name)).getD "!none!",
                      params := params, blocks := st.blocks }
    .ok { st with funcs := st.funcs ++ [f], locals := [], defined := [], blockDefs := [],
                  blockRefs := [], blocks := [], cur := [], curName := "" }

/-- placeholders that were never replaced stay in the instructions that use them -/
def danglePending : TyEnv → List Func → List Func
  | [], fs => fs
  | (x, t) :: r, fs => danglePending r (fs.map (patchFunc x (.loc ("!dangling!" ++ x)) t))

def finishFuncs (st : BState) : Except RErr (List Func) :=
  if st.json && !st.pending.isEmpty then .error .AssertionError   -- `assert not self.undefined_values`
  else .ok (danglePending st.pending st.funcs)

/-! ## the raw form of an instruction (what the two file formats record) -/

def eraseOpnd (o : Operand) : Operand := .glob (opName o)

/-- forget how names were resolved and the (derived) type of a stored value -/
def eraseInstr : Instr → Instr
  | .addrof d s => .addrof d (eraseOpnd s)
  | .binop d ty op a b => .binop d ty op (eraseOpnd a) (eraseOpnd b)
  | .unop d ty op a => .unop d ty op (eraseOpnd a)
  | .cast d ty a => .cast d ty (eraseOpnd a)
  | .load d ty a vol => .load d ty (eraseOpnd a) vol
  | .store _ v a vol => .store .ptr (eraseOpnd v) (eraseOpnd a) vol
  | .copyblob d s n => .copyblob (eraseOpnd d) (eraseOpnd s) n
  | .phi d ty ins => .phi d ty (ins.map (fun p => (p.1, eraseOpnd p.2)))
  | .fcall d ty c args => .fcall d ty (eraseOpnd c) (args.map eraseOpnd)
  | .pcall c args => .pcall (eraseOpnd c) (args.map eraseOpnd)
  | .asm tpl i o cl => .asm tpl (i.map eraseOpnd) (o.map eraseOpnd) cl
  | .cjump a c b y n => .cjump (eraseOpnd a) c (eraseOpnd b) y n
  | .ret v => .ret (eraseOpnd v)
  | i => i

end Model.IRBuild
