/-!
# S5 — abstract machine code (import-free)

What a register allocator sees of an instruction list:

* an instruction = the virtual registers it reads (`uses`) and writes (`defs`), the
  physical registers it clobbers, whether it is a plain register copy (`isMove`),
  its jump targets (label ids), the label it carries (if it is a jump target) and an
  opaque semantic id (`sem`);
* a program = a list of instructions, the program counter is an index into it;
* a physical register file with an *alias* relation: writing a physical register
  leaves every register that overlaps it (x86 `al/ax/eax/rax`, AVR `r25:r24`/`r24`)
  with an arbitrary value;
* register names are virtual registers or *fixed* physical registers used directly by
  the instruction selector.

Mirrors `ppci/arch/encoding.py:Instruction.{used_registers,defined_registers,clobbers,
ismove,jumps}` and the control-flow convention of `ppci/codegen/flowgraph.py`: an
instruction with a non-empty `jumps` list continues at one of those targets, every
other instruction at the next list position; running past the end is the function exit.

Semantics are *uninterpreted*: an instruction computes the values it defines, the new
memory/machine state `σ` and the successor it takes as arbitrary functions of the
values of its declared uses and of `σ` (`Sem`).  A move copies its single use to its
single def and does nothing else.
-/
namespace Model.MCode

abbrev VReg := Nat
abbrev PReg := Nat

structure Instr where
  uses : List VReg
  defs : List VReg
  clobbers : List PReg
  isMove : Bool
  jumps : List Nat
  label : Option Nat
  sem : Nat
deriving Repr, DecidableEq, Inhabited

abbrev Program := List Instr

/-- position of the first entry carrying label `l` in a list of labels, counted from
    `base`; `base + length` when there is none (= function exit) -/
def findLabelL (l : Nat) : List (Option Nat) → Nat → Nat
  | [], base => base
  | x :: rest, base => if x = some l then base else findLabelL l rest (base + 1)

/-- control-flow successors, given the label column of the program -/
def succsL (labels : List (Option Nat)) (i : Nat) (jumps : List Nat) : List Nat :=
  if jumps.isEmpty then [i + 1] else jumps.map (fun l => findLabelL l labels 0)

def findLabel (p : Program) (l : Nat) : Nat := findLabelL l (p.map Instr.label) 0

/-- control-flow successors of the instruction `ins` sitting at index `i` -/
def succs (p : Program) (i : Nat) (ins : Instr) : List Nat :=
  succsL (p.map Instr.label) i ins.jumps

/-- element `k` of a successor list, the first one when `k` is out of range
    (so that every choice is a member of a non-empty list) -/
def pick (l : List Nat) (k : Nat) (dflt : Nat) : Nat :=
  match l[k]? with
  | some x => x
  | none => l.headD dflt

/-- Uninterpreted instruction semantics. `out s args σ k` is the value written to the
    `k`-th defined register, `st` the new machine state, `br` the successor chosen. -/
structure Sem (Val σ : Type) where
  out : Nat → List Val → σ → Nat → Val
  st : Nat → List Val → σ → σ
  br : Nat → List Val → σ → Nat

/-- value of the `k`-th def of `ins` when its uses evaluate to `args` -/
def defVal {Val σ : Type} (S : Sem Val σ) (ins : Instr) (args : List Val) (s : σ) (k : Nat) : Val :=
  if ins.isMove then
    match args with
    | a :: _ => a
    | [] => S.out ins.sem args s k
  else S.out ins.sem args s k

def newSt {Val σ : Type} (S : Sem Val σ) (ins : Instr) (args : List Val) (s : σ) : σ :=
  if ins.isMove then s else S.st ins.sem args s

def nextPc {Val σ : Type} (S : Sem Val σ) (p : Program) (i : Nat) (ins : Instr) (args : List Val) (s : σ) : Nat :=
  pick (succs p i ins) (S.br ins.sem args s) (i + 1)

/-! ### the register model

`colour` maps every register name of the program to a physical register.  Names in
`fixed` are physical registers that the instruction list mentions directly (precoloured:
argument/return registers, frame pointer, `rax`/`rdx` of a division, AVR `r1:r0`, …); on
them `colour` is the identity chosen by the instruction selector, not by the allocator.
`alias` is the overlap table of the physical register file. -/

structure RegModel where
  alias : PReg → PReg → Bool
  colour : VReg → PReg
  fixed : VReg → Bool

/-- `p` and `q` overlap: identical, or related by the alias table in either direction -/
def ov (al : PReg → PReg → Bool) (p q : PReg) : Bool := p == q || al p q || al q p

/-! ### the virtual-register machine

Virtual registers are independent variables.  Fixed registers already are physical
registers: writing or clobbering one leaves junk `J` in every *fixed* register that
overlaps it (this is the behaviour of the input program, whatever the allocator does). -/

structure VState (Val σ : Type) where
  pc : Nat
  regs : VReg → Val
  st : σ

def havocV {Val : Type} (M : RegModel) (J : PReg → Val) (R : VReg → Val) (q : PReg) : VReg → Val :=
  fun r => if M.fixed r && ov M.alias q (M.colour r) then J (M.colour r) else R r

def writeRegV {Val : Type} (M : RegModel) (J : PReg → Val) (R : VReg → Val) (d : VReg) (x : Val) : VReg → Val :=
  fun r => if r = d then x
    else if M.fixed d && M.fixed r && ov M.alias (M.colour d) (M.colour r) then J (M.colour r)
    else R r

/-- write the defs left to right; the `k`-th def receives `vals k` -/
def writeV {Val : Type} (M : RegModel) (J : PReg → Val) (vals : Nat → Val) :
    List VReg → Nat → (VReg → Val) → (VReg → Val)
  | [], _, R => R
  | d :: ds, k, R => writeV M J vals ds (k + 1) (writeRegV M J R d (vals k))

def vstep {Val σ : Type} (S : Sem Val σ) (M : RegModel) (J : PReg → Val) (p : Program)
    (s : VState Val σ) : VState Val σ :=
  match p[s.pc]? with
  | none => s
  | some ins =>
    let args := ins.uses.map s.regs
    { pc := nextPc S p s.pc ins args s.st
      regs := writeV M J (defVal S ins args s.st) ins.defs 0 (ins.clobbers.foldl (havocV M J) s.regs)
      st := newSt S ins args s.st }

/-- `Js n` is the junk that overlapping registers receive during the step with `n`
    steps still to go (universally quantified in every theorem) -/
def vrun {Val σ : Type} (S : Sem Val σ) (M : RegModel) (Js : Nat → PReg → Val) (p : Program) :
    Nat → VState Val σ → VState Val σ
  | 0, s => s
  | n + 1, s => vrun S M Js p n (vstep S M (Js n) p s)

/-! ### the physical machine: coloured operands, aliasing register file -/

/-- clobbering `p`: `p` and everything overlapping it receive junk -/
def havoc {Val : Type} (al : PReg → PReg → Bool) (J : PReg → Val) (P : PReg → Val) (p : PReg) : PReg → Val :=
  fun q => if ov al p q then J q else P q

/-- writing `x` to `p`: `p` holds `x`, everything else overlapping `p` receives junk -/
def writeReg {Val : Type} (al : PReg → PReg → Bool) (J : PReg → Val) (P : PReg → Val) (p : PReg) (x : Val) : PReg → Val :=
  fun q => if q = p then x else if ov al p q then J q else P q

def writeP {Val : Type} (M : RegModel) (J : PReg → Val) (vals : Nat → Val) :
    List VReg → Nat → (PReg → Val) → (PReg → Val)
  | [], _, P => P
  | d :: ds, k, P => writeP M J vals ds (k + 1) (writeReg M.alias J P (M.colour d) (vals k))

structure PState (Val σ : Type) where
  pc : Nat
  regs : PReg → Val
  st : σ

/-- One step of the coloured program.  `rm i = true` marks an instruction the
    allocator deleted from the final list (a coalesced move): it does nothing.
    Otherwise: read the operands through the colouring, clobber, then write the defs. -/
def pstep {Val σ : Type} (S : Sem Val σ) (M : RegModel) (rm : Nat → Bool)
    (J : PReg → Val) (p : Program) (s : PState Val σ) : PState Val σ :=
  match p[s.pc]? with
  | none => s
  | some ins =>
    if rm s.pc then { s with pc := s.pc + 1 } else
    let args := ins.uses.map (fun v => s.regs (M.colour v))
    { pc := nextPc S p s.pc ins args s.st
      regs := writeP M J (defVal S ins args s.st) ins.defs 0 (ins.clobbers.foldl (havoc M.alias J) s.regs)
      st := newSt S ins args s.st }

def prun {Val σ : Type} (S : Sem Val σ) (M : RegModel) (rm : Nat → Bool)
    (Js : Nat → PReg → Val) (p : Program) : Nat → PState Val σ → PState Val σ
  | 0, s => s
  | n + 1, s => prun S M rm Js p n (pstep S M rm (Js n) p s)

end Model.MCode
