import PpciVerif.Model.Proto
import PpciVerif.Model.IrPy
import PpciVerif.Spec.IRParse
/-! Line-protocol engine of Drivers/C24.lean (model of ir2py + the Spec.IR arithmetic it is compared with).

  emit <sexpr>                     text the model emits for the module, lines joined by TAB   -> ok <text> | err <PyErr>
  correct <v> <bits> <0|1>         -> ok <int>
  idiv|irem <x> <y>                -> ok <int> | err ZeroDivisionError
  ishl|ishr <x> <amount> <bits>    -> ok <int> | err …
  binop <ty> <op> <a> <b>          value left by the emitted statements (Plan.exec)        -> ok <int> | err <PyErr>
  unop <ty> <neg|not> <a>          -> ok <int>
  cast <ty> i <v> | cast <ty> f <m> <e>       float given exactly as m·2^e               -> ok <int> | err …
  castlegacy …                     same with int(round(x)) (code before the fix)
  spec binop|unop|cast …           the specification's answer (Spec.IRArith / Spec.IR, ptr = 4 bytes):
                                   ok <int> | ok none (undefined);  spec cast <ty> f <bits>
  model8 <ty> <op> / spec8 <ty> <op>   all a,b of an 8-bit type in ascending order, 2 hex digits per result
                                   (value mod 256), `--` = undefined / `EE` = Python exception
-/
namespace Model.IrPyRun
open Proto Spec.IR Model.IrPy

def showE : Except PyErr Int → String
  | .ok v => s!"ok {v}"
  | .error e => "err " ++ e.name

def ty? (s : String) : Option Ty := Spec.IRParse.pTy (.atom s)
def op? (s : String) : Option BinOp := BinOp.all.find? (fun o => o.name = s)
def unop? (s : String) : Option UnOp := if s = "neg" then some .neg else if s = "not" then some .not else none

def cfg4 : Config := { ptrSize := 4 }

def showSpec : Except Err Val → String
  | .ok (.int v) => s!"ok {v}"
  | .ok (.flt f) => s!"ok f:{f.toBits.toNat}"
  | .ok .undef => "ok undef"
  | .error (.ub _) => "ok none"
  | .error (.undefRead _) => "ok undef-read"
  | .error (.unsupported _) => "ok unsupported"

def hex2 (v : Int) : String :=
  let n := (v % 256).toNat
  String.ofList [hexDigit (n / 16), hexDigit (n % 16)]

def range8 (t : ITy) : List Int :=
  (List.range 256).map (fun (i : Nat) => Int.ofNat i + t.minVal)

def table8 (t : ITy) (f : Int → Int → String) : String :=
  String.join ((range8 t).map (fun a => String.join ((range8 t).map (fun b => f a b))))

def step (line : String) : String :=
  let line := line.trimAscii.toString
  if line.startsWith "emit " then
    match Spec.IRParse.parseModule (line.drop 5).toString with
    | some m => match emitModule m with
      | .ok ls => "ok " ++ "\t".intercalate ls
      | .error e => "err " ++ e.name
    | none => "bad-op"
  else
  match words line with
  | ["correct", v, b, s] => match int? v, nat? b, nat? s with
    | some v, some b, some s => s!"ok {correct v b (s != 0)}"
    | _, _, _ => "bad-op"
  | ["idiv", x, y] => match int? x, int? y with
    | some x, some y => showE (idiv x y) | _, _ => "bad-op"
  | ["irem", x, y] => match int? x, int? y with
    | some x, some y => showE (irem x y) | _, _ => "bad-op"
  | ["ishl", x, a, b] => match int? x, int? a, nat? b with
    | some x, some a, some b => showE (ishl x a b) | _, _, _ => "bad-op"
  | ["ishr", x, a, b] => match int? x, int? a, nat? b with
    | some x, some a, some b => showE (ishr x a b) | _, _, _ => "bad-op"
  | ["binop", t, o, a, b] => match ty? t, op? o, int? a, int? b with
    | some t, some o, some a, some b => showE ((binopPlan t o).exec a b) | _, _, _, _ => "bad-op"
  | ["spec", "binop", t, o, a, b] => match ty? t, op? o, int? a, int? b with
    | some t, some o, some a, some b => showSpec (evalBinop cfg4 t o (.int a) (.int b)) | _, _, _, _ => "bad-op"
  | ["unop", t, o, a] => match ty? t, unop? o, int? a with
    | some t, some o, some a => s!"ok {unopExec t o a}" | _, _, _ => "bad-op"
  | ["spec", "unop", t, o, a] => match ty? t, unop? o, int? a with
    | some t, some o, some a => showSpec (evalUnop cfg4 t o (.int a)) | _, _, _ => "bad-op"
  | ["cast", t, "i", v] => match ty? t, int? v with
    | some t, some v => showE (castExec (castPlan t) (.int v)) | _, _ => "bad-op"
  | ["cast", t, "f", m, e] => match ty? t, int? m, int? e with
    | some t, some m, some e => showE (castExec (castPlan t) (.flt m e)) | _, _, _ => "bad-op"
  | ["castlegacy", t, "f", m, e] => match ty? t, int? m, int? e with
    | some t, some m, some e => showE (castExecLegacy (castPlan t) (.flt m e)) | _, _, _ => "bad-op"
  | ["spec", "cast", t, "i", v] => match ty? t, int? v with
    | some t, some v => showSpec (evalCast cfg4 t (.int v)) | _, _ => "bad-op"
  | ["spec", "cast", t, "f", bits] => match ty? t, nat? bits with
    | some t, some b => showSpec (evalCast cfg4 t (.flt (Float.ofBits b.toUInt64))) | _, _ => "bad-op"
  | ["model8", t, o] => match ty? t, op? o with
    | some (.int it), some o =>
      if it.bits = 8 then
        "ok " ++ table8 it (fun a b => match (binopPlan (.int it) o).exec a b with | .ok v => hex2 v | .error _ => "EE")
      else "bad-op"
    | _, _ => "bad-op"
  | ["spec8", t, o] => match ty? t, op? o with
    | some (.int it), some o =>
      if it.bits = 8 then
        "ok " ++ table8 it (fun a b => match evalBinop cfg4 (.int it) o (.int a) (.int b) with | .ok (.int v) => hex2 v | _ => "--")
      else "bad-op"
    | _, _ => "bad-op"
  | _ => "bad-op"

end Model.IrPyRun
