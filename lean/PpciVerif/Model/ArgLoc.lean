import PpciVerif.Spec.StackSlots
/-!
# `Model.ArgLoc` — `determine_arg_locations` of the ARM and RISC-V back-ends

`ppci/arch/arm/arch.py: ArmArch.determine_arg_locations` (ARM and Thumb mode share it):
```python
regs = [R1, R2, R3, R4]; offset = 8
for arg_ty in arg_types:
    if arg_ty.is_blob:  r = StackLocation(offset, arg_ty.size); offset += arg_ty.size
    else:
        if regs:  r = regs.pop(0)
        else:     arg_size = self.info.get_size(arg_ty); r = StackLocation(offset, arg_size); offset += arg_size
```
`ppci/arch/riscv/arch.py: RiscvArch.determine_arg_locations`:
```python
regs = [R12..R17]; fregs = [F12..F17]; offset = 0
for a in arg_types:
    if a.is_blob:  r = StackLocation(offset, a.size); offset += a.size
    else:
        if a in [ir.f32, ir.f64] and self.has_option("rvf"):
            if fregs: r = fregs.pop(0)
            else:     arg_size = self.info.get_size(a); r = StackLocation(offset, arg_size); offset += arg_size   # (was a.size before the fix)
        else:
            if regs:  r = regs.pop(0)
            else:     arg_size = self.info.get_size(a); r = StackLocation(offset, arg_size); offset += arg_size
```
An argument type is abstracted to its kind and its two sizes: `tsize` = `ty.size` (what the IR type
says, used for blobs) and `isize` = `arch.info.get_size(ty)` (what the target says, used for scalars).
Before the repair the float stack case of the RISC-V code used `tsize` for the slot and `isize` for the
advance (f64 with rvf: 8 and 4, overlapping slots).
-/
namespace Model.ArgLoc
open Spec.StackSlots

inductive Kind where | int | flt | blob
  deriving DecidableEq, Repr, Inhabited

structure ATy where
  kind : Kind
  tsize : Nat
  isize : Nat
  deriving DecidableEq, Repr, Inhabited

/-- the ARM loop; `regs` = registers not yet handed out, `off` = running offset -/
def armGo : List ATy → List Nat → Int → List Loc
  | [], _, _ => []
  | t :: rest, regs, off =>
    match t.kind with
    | .blob => .stack off t.tsize :: armGo rest regs (off + t.tsize)
    | _ =>
      match regs with
      | r :: rs => .reg r :: armGo rest rs off
      | [] => .stack off t.isize :: armGo rest [] (off + t.isize)

def armArgs (tys : List ATy) : List Loc := armGo tys [1, 2, 3, 4] 8

/-- the RISC-V loop -/
def riscvGo (rvf : Bool) : List ATy → List Nat → List Nat → Int → List Loc
  | [], _, _, _ => []
  | t :: rest, regs, fregs, off =>
    match t.kind with
    | .blob => .stack off t.tsize :: riscvGo rvf rest regs fregs (off + t.tsize)
    | .flt =>
      if rvf then
        match fregs with
        | r :: rs => .freg r :: riscvGo rvf rest regs rs off
        | [] => .stack off t.isize :: riscvGo rvf rest regs [] (off + t.isize)
      else
        match regs with
        | r :: rs => .reg r :: riscvGo rvf rest rs fregs off
        | [] => .stack off t.isize :: riscvGo rvf rest [] fregs (off + t.isize)
    | .int =>
      match regs with
      | r :: rs => .reg r :: riscvGo rvf rest rs fregs off
      | [] => .stack off t.isize :: riscvGo rvf rest [] fregs (off + t.isize)

def riscvArgs (rvf : Bool) (tys : List ATy) : List Loc :=
  riscvGo rvf tys [12, 13, 14, 15, 16, 17] [12, 13, 14, 15, 16, 17] 0

end Model.ArgLoc
