/-
Hand model of the linker: ppci/binutils/linker.py (Linker.link, merge_objects,
inject_object, merge_global_symbol, inject_symbol, layout_sections,
check_undefined_symbols), ppci/binutils/objectfile.py (Section, Symbol,
RelocationEntry, Image.data, ObjectFile.get_section / add_symbol /
get_symbol_id_value / get_undefined_symbols) and the layout input kinds of
ppci/binutils/layout.py.  Import-free (core Lean only).

What is mirrored
* Python objects mutated in place ↦ functional update of a record.  The
  destination object's `section_map` / `symbol_map` dictionaries are derived
  views: a section is looked up by name in the section list (get-or-create
  appends), a global symbol by name among the global symbols (add_symbol keeps
  global names unique).  A mutated `Section`/`Symbol` object is updated through
  its name (`updSec`, `defineGlobal`): on every destination object built by the
  linker names are unique, so this touches exactly the object Python mutates.
* `section_offsets` / `symbol_id_mapping` (dicts, later key wins) ↦ lists in
  input order with last-wins lookup (`dictGet`, `idGet`).  `linkT` returns them
  as a *trace* (the "recorded offsets" the property speaks about).
* Python exceptions ↦ `Except Err`; the class is kept (CompilerError,
  ValueError, KeyError, AssertionError, ZeroDivisionError).
* Addresses, sizes, alignments, symbol values ↦ `Nat` (the model is only
  compared on non-negative inputs); relocation addends ↦ `Int`.
* `while size % a != 0: size += 1` ↦ `alignUp size a` (closed form, `a = 0`
  ↦ ZeroDivisionError as in Python).

What is NOT modelled (other properties): relocation application and
relaxation (C10/C11/C13) – `linkT` stops after `check_undefined_symbols`, the
merged and rebased relocation records are kept as opaque data; debug-info
merging; archives/libraries; `use_runtime`; layout-file parsing.
-/
namespace Model.Linker

inductive Err | CompilerError | ValueError | KeyError | AssertionError | ZeroDivisionError
  deriving Repr, DecidableEq

def Err.name : Err → String
  | .CompilerError => "CompilerError" | .ValueError => "ValueError" | .KeyError => "KeyError"
  | .AssertionError => "AssertionError" | .ZeroDivisionError => "ZeroDivisionError"

/-! ### object files -/

/-- `objectfile.Section` (`Section(name)`: address 0, alignment 4, no data) -/
structure Section where
  name : String
  address : Nat := 0
  alignment : Nat := 4
  data : List Nat := []
  deriving Repr, DecidableEq

def Section.size (s : Section) : Nat := s.data.length

inductive Binding | global | loc
  deriving Repr, DecidableEq

/-- `objectfile.Symbol`; `value = none` ⇔ undefined -/
structure Symbol where
  id : Nat
  name : String
  binding : Binding
  value : Option Nat
  sect : Option String
  typ : String
  size : Nat
  deriving Repr, DecidableEq

def Symbol.isGlobal (s : Symbol) : Bool := s.binding == .global

/-- `objectfile.RelocationEntry` – an opaque record for this property -/
structure Reloc where
  typ : String
  symbolId : Nat
  sect : String
  offset : Nat
  addend : Int
  deriving Repr, DecidableEq

/-- `objectfile.Image`; the contained `Section` objects are shared with the
    object file, hence referred to by name. -/
structure Image where
  name : String
  address : Nat
  sections : List String
  deriving Repr, DecidableEq

structure Obj where
  sections : List Section := []
  symbols : List Symbol := []
  relocs : List Reloc := []
  images : List Image := []
  entry : Option Nat := none
  deriving Repr, DecidableEq

/-! ### sections by name -/

/-- `section_map.get(name)` -/
def getSec (secs : List Section) (n : String) : Option Section :=
  secs.find? (fun s => s.name == n)

def hasSec (secs : List Section) (n : String) : Bool := (getSec secs n).isSome

/-- in-place mutation of the section object called `n` -/
def updSec (secs : List Section) (n : String) (f : Section → Section) : List Section :=
  secs.map (fun s => if s.name == n then f s else s)

/-- `get_section(name, create=True)`: a missing section is appended with the defaults -/
def ensureSec (secs : List Section) (n : String) : List Section :=
  if hasSec secs n then secs else secs ++ [{ name := n }]

/-! ### alignment arithmetic -/

/-- number of iterations of `while size % align != 0: size += 1` (for `align > 0`) -/
def padLen (size align : Nat) : Nat := (align - size % align) % align

def alignUp (a align : Nat) : Nat := a + padLen a align

def zeros (n : Nat) : List Nat := List.replicate n 0

/-! ### inject_object -/

/-- the mutations of the output section: alignment raised, zero padding and the piece appended -/
def appendPiece (inp : Section) (pad : Nat) (s : Section) : Section :=
  { s with alignment := max s.alignment inp.alignment, data := s.data ++ zeros pad ++ inp.data }

/-- `section.address = a` -/
def setAddress (a : Nat) (s : Section) : Section := { s with address := a }

/-- body of the section loop of `inject_object`; returns the new section list and
    the offset recorded in `section_offsets`. -/
def injectSection (secs : List Section) (inp : Section) : Except Err (List Section × Nat) :=
  let secs1 := ensureSec secs inp.name
  let out := (getSec secs inp.name).getD { name := inp.name }
  if inp.alignment = 0 then .error .ZeroDivisionError          -- `size % 0`
  else
    let pad := padLen out.data.length inp.alignment
    .ok (updSec secs1 inp.name (appendPiece inp pad), out.data.length + pad)

/-- the section loop; offsets are listed in input order -/
def injectSections : List Section → List Section → Except Err (List Section × List (String × Nat))
  | secs, [] => .ok (secs, [])
  | secs, inp :: rest =>
    match injectSection secs inp with
    | .error e => .error e
    | .ok (secs1, off) =>
      match injectSections secs1 rest with
      | .error e => .error e
      | .ok (secs2, offs) => .ok (secs2, (inp.name, off) :: offs)

/-- `section_offsets[name]` (a later section of the same name overwrites) -/
def dictGet (d : List (String × Nat)) (k : String) : Option Nat :=
  match d.reverse.find? (fun p => p.1 == k) with
  | some p => some p.2
  | none => none

/-- `symbol_map.get(name)`: the global symbol of that name -/
def findGlobal (syms : List Symbol) (n : String) : Option Symbol :=
  syms.find? (fun s => s.isGlobal && s.name == n)

/-- `ObjectFile.add_symbol` (ids are `len(symbols)`, so the id assertion holds) -/
def addSymbol (syms : List Symbol) (s : Symbol) : Except Err (List Symbol) :=
  if s.isGlobal && (findGlobal syms s.name).isSome then .error .CompilerError   -- "already defined"
  else .ok (syms ++ [s])

/-- `Linker.inject_symbol`; returns the new table and the id -/
def injectSymbol (syms : List Symbol) (name : String) (b : Binding) (sect : Option String)
    (value : Option Nat) (typ : String) (size : Nat) : Except Err (List Symbol × Nat) :=
  match addSymbol syms { id := syms.length, name, binding := b, value, sect, typ, size } with
  | .error e => .error e
  | .ok syms' => .ok (syms', syms.length)

/-- `new_symbol.value = value; new_symbol.section = section` on the (undefined) global called `n`.
    Python mutates the one object `symbol_map[n]`, which `merge_global_symbol` has just found to be
    undefined; global names are unique in the table, so "every undefined global called `n`" is that object. -/
def defineGlobal (syms : List Symbol) (n : String) (sect : Option String) (v : Nat) : List Symbol :=
  syms.map (fun s => if s.isGlobal && s.name == n && s.value.isNone then { s with value := some v, sect := sect } else s)

/-- `Linker.merge_global_symbol` -/
def mergeGlobal (syms : List Symbol) (name : String) (sect : Option String) (value : Option Nat)
    (typ : String) (size : Nat) : Except Err (List Symbol × Nat) :=
  match findGlobal syms name with
  | some g =>
    match value with
    | none => .ok (syms, g.id)
    | some v =>
      if g.value.isNone then .ok (defineGlobal syms name sect v, g.id)
      else .error .CompilerError                                -- "Multiple defined symbol"
  | none => injectSymbol syms name .global sect value typ size

/-- value/section of a symbol after shifting (`section_offsets[symbol.section] + symbol.value`) -/
def shiftSymbol (offs : List (String × Nat)) (s : Symbol) : Except Err (Option Nat × Option String) :=
  match s.value with
  | none => .ok (none, none)
  | some v =>
    match s.sect with
    | none => .error .KeyError                                  -- section_offsets[None]
    | some n =>
      match dictGet offs n with
      | none => .error .KeyError
      | some o => .ok (some (o + v), some n)

def injectOneSymbol (offs : List (String × Nat)) (syms : List Symbol) (s : Symbol) :
    Except Err (List Symbol × Nat) :=
  match shiftSymbol offs s with
  | .error e => .error e
  | .ok (value, sect) =>
    if s.isGlobal then mergeGlobal syms s.name sect value s.typ s.size
    else injectSymbol syms s.name s.binding sect value s.typ s.size

/-- the symbol loop; returns the new ids in input order -/
def injectSymbols (offs : List (String × Nat)) : List Symbol → List Symbol → Except Err (List Symbol × List Nat)
  | syms, [] => .ok (syms, [])
  | syms, s :: rest =>
    match injectOneSymbol offs syms s with
    | .error e => .error e
    | .ok (syms1, id) =>
      match injectSymbols offs syms1 rest with
      | .error e => .error e
      | .ok (syms2, ids) => .ok (syms2, id :: ids)

/-- `symbol_id_mapping[id]` (later symbol with the same id overwrites) -/
def idGet (m : List (Nat × Nat)) (k : Nat) : Option Nat :=
  match m.reverse.find? (fun p => p.1 == k) with
  | some p => some p.2
  | none => none

def injectReloc (offs : List (String × Nat)) (idmap : List (Nat × Nat)) (r : Reloc) : Except Err Reloc :=
  match dictGet offs r.sect with
  | none => .error .KeyError
  | some o =>
    match idGet idmap r.symbolId with
    | none => .error .KeyError
    | some sid => .ok { r with symbolId := sid, offset := o + r.offset }

def injectRelocs (offs : List (String × Nat)) (idmap : List (Nat × Nat)) : List Reloc → Except Err (List Reloc)
  | [] => .ok []
  | r :: rest =>
    match injectReloc offs idmap r with
    | .error e => .error e
    | .ok r' =>
      match injectRelocs offs idmap rest with
      | .error e => .error e
      | .ok rs => .ok (r' :: rs)

def mergeEntry (dstEntry : Option Nat) (idmap : List (Nat × Nat)) : Option Nat → Except Err (Option Nat)
  | none => .ok dstEntry
  | some e =>
    match dstEntry with
    | none =>
      match idGet idmap e with
      | none => .error .KeyError
      | some i => .ok (some i)
    | some _ => .error .CompilerError                           -- "Multiple entry points defined"

/-- what `inject_object` computes on the way: `section_offsets` (one entry per
    input section, in order) and the new id of every input symbol (in order) -/
structure ObjTrace where
  offsets : List (String × Nat)
  symIds : List Nat
  deriving Repr, DecidableEq

/-- `Linker.inject_object` -/
def injectObject (dst : Obj) (obj : Obj) : Except Err (Obj × ObjTrace) :=
  match injectSections dst.sections obj.sections with
  | .error e => .error e
  | .ok (secs, offs) =>
    match injectSymbols offs dst.symbols obj.symbols with
    | .error e => .error e
    | .ok (syms, ids) =>
      let idmap := (obj.symbols.map (·.id)).zip ids
      match injectRelocs offs idmap obj.relocs with
      | .error e => .error e
      | .ok rels =>
        match mergeEntry dst.entry idmap obj.entry with
        | .error e => .error e
        | .ok en =>
          .ok ({ dst with sections := secs, symbols := syms, relocs := dst.relocs ++ rels, entry := en },
               { offsets := offs, symIds := ids })

/-- `Linker.merge_objects` -/
def mergeObjects : Obj → List Obj → Except Err (Obj × List ObjTrace)
  | dst, [] => .ok (dst, [])
  | dst, o :: rest =>
    match injectObject dst o with
    | .error e => .error e
    | .ok (dst1, t) =>
      match mergeObjects dst1 rest with
      | .error e => .error e
      | .ok (dst2, ts) => .ok (dst2, t :: ts)

/-! ### Image.data -/

/-- `Image.data` over the resolved section list, `cur` = `current_address` -/
def imageDataFrom : Nat → List Section → Except Err (List Nat)
  | _, [] => .ok []
  | cur, s :: rest =>
    if s.address < cur then .error .ValueError                  -- "sections overlap!!"
    else
      match imageDataFrom (s.address + s.data.length) rest with
      | .error e => .error e
      | .ok r => .ok (zeros (s.address - cur) ++ s.data ++ r)

/-- the `Section` objects an image holds -/
def imageSections (secs : List Section) (img : Image) : List Section :=
  img.sections.filterMap (getSec secs)

def imageData (secs : List Section) (img : Image) : Except Err (List Nat) :=
  imageDataFrom img.address (imageSections secs img)

/-! ### layout -/

inductive MemInput
  | sect (name : String)          -- SECTION(name)
  | sectData (name : String)      -- SECTIONDATA(name)
  | symDef (name : String)        -- DEFINESYMBOL(name)
  | align (a : Nat)               -- ALIGN(a)
  deriving Repr, DecidableEq

structure Memory where
  name : String
  location : Nat
  size : Nat
  inputs : List MemInput
  deriving Repr, DecidableEq

structure Layout where
  memories : List Memory
  entry : Option String := none
  deriving Repr, DecidableEq

/-- `f"_${name}_"` -/
def dollarName (n : String) : String := "_$" ++ n ++ "_"

/-- loop state of one memory of `layout_sections` -/
structure LState where
  secs : List Section
  syms : List Symbol
  cur : Nat
  placed : List String            -- `image.sections`
  deriving Repr, DecidableEq

def layoutInput (st : LState) : MemInput → Except Err LState
  | .sect n =>
    let secs1 := ensureSec st.secs n
    let sec := (getSec st.secs n).getD { name := n }
    if sec.alignment = 0 then .error .ZeroDivisionError
    else
      let a := alignUp st.cur sec.alignment
      .ok { st with secs := updSec secs1 n (setAddress a),
                    cur := a + sec.data.length, placed := st.placed ++ [n] }
  | .sectData n =>
    let nn := dollarName n
    if hasSec st.secs nn then .error .AssertionError
    else
      let fresh : Section := { name := nn, address := st.cur, alignment := 1 }
      match getSec (st.secs ++ [fresh]) n with
      | none => .error .KeyError
      | some src =>
        .ok { st with secs := st.secs ++ [{ fresh with data := src.data }],
                      cur := st.cur + src.data.length, placed := st.placed ++ [nn] }
  | .symDef s =>
    let nn := dollarName s
    if hasSec st.secs nn then .error .AssertionError
    else
      let fresh : Section := { name := nn, address := st.cur, alignment := 1 }
      match mergeGlobal st.syms s (some nn) (some 0) "object" 0 with
      | .error e => .error e
      | .ok (syms, _) =>
        .ok { st with secs := st.secs ++ [fresh], syms := syms, placed := st.placed ++ [nn] }
  | .align a =>
    if a = 0 then .error .ZeroDivisionError
    else .ok { st with cur := alignUp st.cur a }

def layoutInputs : LState → List MemInput → Except Err LState
  | st, [] => .ok st
  | st, i :: rest =>
    match layoutInput st i with
    | .error e => .error e
    | .ok st1 => layoutInputs st1 rest

/-- one iteration of `for mem in layout.memories` -/
def layoutMemory (dst : Obj) (mem : Memory) : Except Err Obj :=
  match layoutInputs { secs := dst.sections, syms := dst.symbols, cur := mem.location, placed := [] } mem.inputs with
  | .error e => .error e
  | .ok st =>
    let img : Image := { name := mem.name, address := mem.location, sections := st.placed }
    match imageData st.secs img with
    | .error e => .error e                                      -- image.size evaluates image.data
    | .ok d =>
      if d.length > mem.size then .error .CompilerError          -- "Memory exceeds size"
      else .ok { dst with sections := st.secs, symbols := st.syms, images := dst.images ++ [img] }

/-- the loop `for mem in layout.memories` of `Linker.layout_sections` -/
def layoutSections : Obj → List Memory → Except Err Obj
  | dst, [] => .ok dst
  | dst, m :: rest =>
    match layoutMemory dst m with
    | .error e => .error e
    | .ok dst1 => layoutSections dst1 rest

/-- the check that ends `layout_sections`: "A section is placed more than once" -/
def checkPlacedOnce (d : Obj) : Except Err Unit :=
  if (d.images.flatMap (·.sections)).Nodup then .ok () else .error .CompilerError

/-- `Linker.layout_sections`: the loop over the memories, then the placed-once check -/
def layoutChecked (dst : Obj) (mems : List Memory) : Except Err Obj :=
  match layoutSections dst mems with
  | .error e => .error e
  | .ok d =>
    match checkPlacedOnce d with
    | .error e => .error e
    | .ok _ => .ok d

/-! ### symbols of the result -/

/-- `ObjectFile.get_undefined_symbols` is non-empty -/
def hasUndefined (syms : List Symbol) : Bool := syms.any (fun s => s.value.isNone && s.isGlobal)

/-- `Linker.check_undefined_symbols` -/
def checkUndefined (dst : Obj) : Except Err Unit :=
  if hasUndefined dst.symbols then .error .CompilerError else .ok ()

/-- `ObjectFile.get_symbol_id_value` -/
def getSymbolIdValue (o : Obj) (id : Nat) : Except Err Nat :=
  match o.symbols.find? (fun s => s.id == id) with
  | none => .error .KeyError
  | some s =>
    match s.value with
    | none => .error .ValueError                                -- "Undefined reference"
    | some v =>
      match s.sect with
      | none => .ok v
      | some n =>
        match getSec o.sections n with
        | none => .error .KeyError
        | some sec => .ok (v + sec.address)

/-! ### link -/

structure LinkInput where
  objs : List Obj
  layout : Option Layout := none
  partialLink : Bool := false
  entry : Option String := none            -- `entry=` argument (None/"" ↦ none)
  extras : List (String × Nat) := []       -- `extra_symbols` in dict order
  deriving Repr, DecidableEq

def entryName (inp : LinkInput) : Option String :=
  match inp.entry with
  | some e => some e
  | none => match inp.layout with
    | some l => l.entry
    | none => none

/-- definition of the entry symbol at the start of `Linker.link` -/
def initEntry : Option String → Except Err Obj
  | none => .ok {}
  | some e =>
    match injectSymbol [] e .global none none "object" 0 with
    | .error err => .error err
    | .ok (syms, id) => .ok { symbols := syms, entry := some id }

def addExtras : Obj → List (String × Nat) → Except Err Obj
  | dst, [] => .ok dst
  | dst, (n, v) :: rest =>
    match injectSymbol dst.symbols n .global none (some v) "object" 0 with
    | .error e => .error e
    | .ok (syms, _) => addExtras { dst with symbols := syms } rest

/-- `Linker.link` up to and including `check_undefined_symbols`
    (relaxation and relocation application are other properties). -/
def linkT (inp : LinkInput) : Except Err (Obj × List ObjTrace) :=
  if inp.objs.isEmpty then .error .ValueError                   -- api.link: "at least one object"
  else
  match initEntry (entryName inp) with
  | .error e => .error e
  | .ok d0 =>
    match addExtras d0 inp.extras with
    | .error e => .error e
    | .ok d1 =>
      match mergeObjects d1 inp.objs with
      | .error e => .error e
      | .ok (d2, tr) =>
        if inp.partialLink then
          if inp.layout.isSome then .error .ValueError          -- "Can only apply layout in non-partial links"
          else .ok (d2, tr)
        else
          let laid : Except Err Obj := match inp.layout with
            | none => .ok d2
            | some l => layoutChecked d2 l.memories
          match laid with
          | .error e => .error e
          | .ok d3 =>
            match checkUndefined d3 with
            | .error e => .error e
            | .ok _ => .ok (d3, tr)

def link (inp : LinkInput) : Except Err Obj :=
  match linkT inp with
  | .error e => .error e
  | .ok (o, _) => .ok o

end Model.Linker
