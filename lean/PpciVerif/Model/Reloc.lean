import PpciVerif.Model.Token
/-
Hand models of the relocation types of riscv, rvc, arm, thumb, x86_64 and of the generic data
relocations (core Lean only), mirroring

    ppci/arch/riscv/relocations.py, rvc_relocations.py
    ppci/arch/arm/arm_relocations.py, thumb_relocations.py
    ppci/arch/x86_64/instructions.py  (Rel32Jmp/Abs32/Jmp8/Abs64)
    ppci/arch/data_instructions.py    (U16/U32/U64DataRelocation)
    ppci/arch/encoding.py:Relocation.apply (default: token.from_data; setattr(field, calc); encode)
    ppci/utils/bitfun.py: wrap_negative, inrange, align, BitView.__setitem__

AS THEY ARE — including the range checks that are too wide (C10/C11 findings).

Conventions.  `sym_value`, `reloc_value`, `addend` are Python ints ↦ `Int`; `data` is the slice of
section bytes ↦ `List Nat`.  `x >> k` ↦ `x / 2^k`, `x & (2^k-1)` ↦ `x % 2^k`, `x // 2` ↦ `x / 2`
(floor, as Python).  `assert c` ↦ `.error .AssertionError` when `c` fails, in source order.
`v in range(a, b, s)` ↦ `a ≤ v ∧ v < b ∧ (v - a) % s = 0`.
Token-based relocations go through `Model.Token` (`unpack`, `setField`, `pack`) with the field
description written out here; `Props/C10.lean` proves these literals equal to the rows of the T2
token tables, so a changed field declaration in /repo breaks the proofs, not just the harness.
`BitView.__setitem__` works byte by byte on a little-endian buffer; it is modelled on the
little-endian integer of the buffer (`bvSet`).
Tied to the source by the correspondence run of harness/c10.py (apply on edge values).
-/
namespace Model.Reloc
open Model.Tables Model.Token

abbrev Err := Model.Token.Err

/-! ### bitfun helpers -/

/-- `wrap_negative(value, bits)` (`bits ≥ 1`): ValueError unless `-2^(bits-1) ≤ value ≤ 2^bits - 1`,
    else `value & (2^bits - 1)` -/
def wrapNegative (value : Int) (bits : Nat) : Except Err Int :=
  let upperLimit : Int := 2 ^ bits - 1
  let lowerLimit : Int := -(2 ^ (bits - 1))
  if ¬ (lowerLimit ≤ value ∧ value < upperLimit + 1) then .error .ValueError
  else .ok (value % 2 ^ bits)

/-- `inrange(value, bits)`: `value in range(-(1 << (bits-1)), 1 << (bits-1))` -/
def inrange (value : Int) (bits : Nat) : Bool :=
  decide (-(2 ^ (bits - 1)) ≤ value ∧ value < 2 ^ (bits - 1))

/-- `align(value, m)`: the loop `while value % m != 0: value += 1` in closed form (`m > 0`) -/
def align (value : Int) (m : Nat) : Int := value + (-value) % (m : Int)

/-- `v in range(a, b, s)` -/
def inRangeStep (v a b : Int) (s : Nat) : Bool := decide (a ≤ v ∧ v < b ∧ (v - a) % (s : Int) = 0)

def assert (c : Bool) : Except Err Unit := if c then .ok () else .error .AssertionError

/-! ### little-endian buffers and `BitView` -/

def fromLE : List Nat → Nat
  | [] => 0
  | b :: bs => b + 256 * fromLE bs

def toLE : Nat → Nat → List Nat
  | 0, _ => []
  | k + 1, x => x % 256 :: toLE k (x / 256)

/-- `BitView(data, 0, length)[a:b] = value` on a (mutable) little-endian buffer:
    `assert b - a > 0; assert b <= length * 8; assert value < (1 << (b - a))`, then, byte by byte,
    `data[idx] &= 0xFF ^ mask; data[idx] |= bits`: bits `[a, b)` of the buffer become `value mod 2^(b-a)`
    (IndexError if the buffer is shorter than the slice needs) -/
def bvSet (data : List Nat) (length a b : Nat) (value : Int) : Except Err (List Nat) :=
  if ¬ (b > a) then .error .AssertionError
  else if ¬ (b ≤ length * 8) then .error .AssertionError
  else if ¬ (value < 2 ^ (b - a)) then .error .AssertionError
  else if b > 8 * data.length then .error .KeyError       -- IndexError in Python; never reached by the linker
  else .ok (toLE data.length (writeBits (8 * data.length) (fromLE data) a (b - a) (value % 2 ^ (b - a)).toNat))

/-- `data[i] = v` on a bytearray: ValueError unless `0 ≤ v < 256` -/
def setByte (data : List Nat) (i : Nat) (v : Int) : Except Err (List Nat) :=
  if ¬ (0 ≤ v ∧ v < 256) then .error .ValueError
  else if i ≥ data.length then .error .KeyError
  else .ok (data.set i v.toNat)

/-- `data[i] |= v` for `v ≥ 0` -/
def orByte (data : List Nat) (i : Nat) (v : Nat) : Except Err (List Nat) :=
  match data[i]? with
  | none => .error .KeyError
  | some old =>
    let r := old ||| v
    if r ≥ 256 then .error .ValueError else .ok (data.set i r)

/-! ### the default `Relocation.apply` -/

/-- `token = cls.token.from_data(data); setattr(token, field, value); return token.encode()` -/
def applyToken (size : Nat) (big : Bool) (f : FieldDesc) (data : List Nat) (value : Int) : Except Err (List Nat) :=
  match unpack size big data with
  | .error e => .error e
  | .ok bv =>
    match setField size f bv value with
    | .error e => .error e
    | .ok bv' => .ok (pack size big bv')

/-! ### field descriptions used by the token-based relocations (= rows of the T2 tables) -/

def riscvSB_imm : FieldDesc := ⟨"imm", true, [(31, 32), (7, 8), (25, 31), (8, 12)], false⟩
def riscvI_imm : FieldDesc := ⟨"imm", false, [(20, 32)], false⟩
def arm_imm24 : FieldDesc := ⟨"imm24", false, [(0, 24)], false⟩
def arm_imm8 : FieldDesc := ⟨"imm8", false, [(0, 8)], false⟩
def x86_disp32 : FieldDesc := ⟨"disp32", false, [(0, 32)], false⟩
def x86_disp8 : FieldDesc := ⟨"disp8", false, [(0, 8)], true⟩
def x86_disp64 : FieldDesc := ⟨"disp64", false, [(0, 64)], false⟩
def data_value (n : Nat) : FieldDesc := ⟨"value", false, [(0, n)], false⟩

/-! ## riscv (relocations.py) -/
namespace Riscv

/-- `BImm12Relocation.calc` -/
def bImm12Calc (S P : Int) : Except Err Int := do
  assert (S % 2 == 0)
  assert (P % 2 == 0)
  let offset := (S - P) / 2
  wrapNegative offset 12

def bImm12 (S : Int) (data : List Nat) (P : Int) : Except Err (List Nat) := do
  let v ← bImm12Calc S P
  applyToken 32 false riscvSB_imm data v

/-- the J-type scatter shared by `BImm20Relocation`, `CBImm11Relocation`, `CBlImm11Relocation` -/
def jScatter (data : List Nat) (rel20 : Int) : Except Err (List Nat) := do
  let d ← bvSet data 4 21 31 (rel20 % 1024)              -- bv[21:31] = rel20 & 0x3FF
  let d ← bvSet d 4 20 21 (rel20 / 1024 % 2)             -- bv[20:21] = rel20 >> 10 & 0x1
  let d ← bvSet d 4 12 20 (rel20 / 2048 % 256)           -- bv[12:20] = rel20 >> 11 & 0xFF
  bvSet d 4 31 32 (rel20 / 524288 % 2)                   -- bv[31:32] = rel20 >> 19 & 0x1

def bImm20 (S : Int) (data : List Nat) (P : Int) : Except Err (List Nat) := do
  assert (S % 2 == 0)
  assert (P % 2 == 0)
  let offset := S - P
  let rel20 ← wrapNegative (offset / 2) 20
  jScatter data rel20

/-- the `lui`/`auipc` 20-bit "hi" part with the `+0x800` carry, as written in the source:
    `if v & 0x800 == 0: bv[12:32] = (v >> 12) & 0xFFFFF else: v -= 0xFFFFF000; bv[12:32] = (v >> 12) & 0xFFFFF` -/
def hi20 (data : List Nat) (v : Int) : Except Err (List Nat) :=
  if v / 2048 % 2 = 0 then bvSet data 4 12 32 (v / 4096 % 1048576)
  else bvSet data 4 12 32 ((v - 0xFFFFF000) / 4096 % 1048576)

def abs32Imm20 (S : Int) (data : List Nat) (_P : Int) : Except Err (List Nat) := do
  assert (S % 2 == 0)
  hi20 data S

def relImm20 (S : Int) (data : List Nat) (P : Int) : Except Err (List Nat) := do
  assert (S % 2 == 0)
  assert (P % 2 == 0)
  hi20 data (S - P)

def abs32Imm12 (S : Int) (data : List Nat) (_P : Int) : Except Err (List Nat) := do
  assert (S % 2 == 0)
  applyToken 32 false riscvI_imm data (S % 4096)

def relImm12 (S : Int) (data : List Nat) (P : Int) : Except Err (List Nat) := do
  assert (S % 2 == 0)
  assert (P % 2 == 0)
  let offset := S - P + 4
  applyToken 32 false riscvI_imm data (offset % 4096)

/-- `AbsAddr32Relocation` (dead code: the name `absaddr32` is bound to `U32DataRelocation`) -/
def absAddr32 (S : Int) (data : List Nat) (_P : Int) : Except Err (List Nat) :=
  bvSet data 4 0 32 S

end Riscv

/-! ## rvc (rvc_relocations.py) -/
namespace Rvc

/-- `CBImm11Relocation` / `CBlImm11Relocation`: same body as riscv `b_imm20` -/
def cbImm11 (S : Int) (data : List Nat) (P : Int) : Except Err (List Nat) := do
  assert (S % 2 == 0)
  assert (P % 2 == 0)
  let offset := S - P
  let rel20 ← wrapNegative (offset / 2) 20
  Riscv.jScatter data rel20

/-- `isinsrange(bits, val)`: `val <= (msb - 1) and val >= -msb` with `msb = 1 << (bits - 1)` -/
def isinsrange (bits : Nat) (val : Int) : Bool := decide (val ≤ 2 ^ (bits - 1) - 1 ∧ val ≥ -(2 ^ (bits - 1)))

/-- `CBImm11Relocation.can_shrink` = `CBlImm11Relocation.can_shrink` (linker relaxation test: may the 32-bit
    `j` / `jal ra` be replaced by `c.j` / `c.jal`?) -/
def canShrink (S P : Int) : Except Err Bool := do
  assert (S % 2 == 0)
  assert (P % 2 == 0)
  let offset := S - P
  pure (isinsrange 12 offset)

/-- `do_shrink`: `bv[0:2] = 0b01; bv[13:16] = opc` (0b101 C.J, 0b001 C.JAL); `data = data[:2]`; the new relocation is
    `bc_imm11` at the same site -/
def doShrink (opc : Nat) (S : Int) (data : List Nat) (P : Int) : Except Err (List Nat) := do
  assert (S % 2 == 0)
  assert (P % 2 == 0)
  let d ← bvSet data 4 0 2 1
  let d ← bvSet d 4 13 16 opc
  pure (d.take 2)

/-- `apply_cool_mapping(bv, rel11)` (C.J / C.JAL offset scatter) -/
def coolMapping (data : List Nat) (rel11 : Int) : Except Err (List Nat) := do
  let d ← bvSet data 4 2 3 (rel11 / 16 % 2)
  let d ← bvSet d 4 3 6 (rel11 % 8)
  let d ← bvSet d 4 6 7 (rel11 / 64 % 2)
  let d ← bvSet d 4 7 8 (rel11 / 32 % 2)
  let d ← bvSet d 4 8 9 (rel11 / 512 % 2)
  let d ← bvSet d 4 9 11 (rel11 / 128 % 4)
  let d ← bvSet d 4 11 12 (rel11 / 8 % 2)
  bvSet d 4 12 13 (rel11 / 1024 % 2)

def bcImm11 (S : Int) (data : List Nat) (P : Int) : Except Err (List Nat) := do
  assert (S % 2 == 0)
  assert (P % 2 == 0)
  let offset := S - P
  let rel11 ← wrapNegative (offset / 2) 11
  coolMapping data rel11

def bcImm8 (S : Int) (data : List Nat) (P : Int) : Except Err (List Nat) := do
  assert (S % 2 == 0)
  assert (P % 2 == 0)
  let offset := S - P
  let rel8 ← wrapNegative (offset / 2) 8
  let d ← bvSet data 4 2 3 (rel8 / 16 % 2)
  let d ← bvSet d 4 3 5 (rel8 % 4)
  let d ← bvSet d 4 5 7 (rel8 / 32 % 4)
  let d ← bvSet d 4 10 12 (rel8 / 4 % 4)
  bvSet d 4 12 13 (rel8 / 128 % 2)

end Rvc

/-! ## arm (arm_relocations.py) -/
namespace Arm

def rel8Calc (S P : Int) : Except Err Int := do
  assert (S % 2 == 0)
  let offset := S - (align P 2 + 4)
  assert (inRangeStep offset (-256) 254 2)
  wrapNegative (offset / 2) 8

def rel8 (S : Int) (data : List Nat) (P : Int) : Except Err (List Nat) := do
  let v ← rel8Calc S P
  applyToken 32 false arm_imm8 data v

def imm24Calc (S P : Int) : Except Err Int := do
  assert (S % 4 == 0)
  assert (P % 4 == 0)
  let offset := S - (P + 8)
  wrapNegative (offset / 4) 24

def imm24 (S : Int) (data : List Nat) (P : Int) : Except Err (List Nat) := do
  let v ← imm24Calc S P
  applyToken 32 false arm_imm24 data v

def ldrImm12 (S : Int) (data : List Nat) (P : Int) : Except Err (List Nat) := do
  assert (S % 4 == 0)
  assert (P % 4 == 0)
  let offset := S - (P + 8)
  let (offset, U) := if offset < 0 then (-offset, 0) else (offset, 1)
  assert (offset < 4096)
  let d ← orByte data 2 (U * 128)                       -- data[2] |= U << 7
  let d ← orByte d 1 (offset / 256 % 16).toNat          -- data[1] |= (offset >> 8) & 0xF
  setByte d 0 (offset % 256)                            -- data[0] = offset & 0xFF

/-- `rotate_left(v, 2*i)` on a 32-bit value, `0 ≤ v < 2^32` (the only use here) -/
def rotl32 (v : Nat) (k : Nat) : Nat := ((v <<< k) ||| (v >>> (32 - k))) % 2 ^ 32

/-- `encode_imm32(v)` for `0 ≤ v < 4096`: the first even rotation that leaves 8 bits -/
def encodeImm32 (v : Nat) : Except Err Nat :=
  match (List.range 16).find? (fun i => rotl32 v (2 * i) / 256 = 0) with
  | none => .error .ValueError
  | some i => .ok (i * 256 + rotl32 v (2 * i) % 256)

def adrImm12 (S : Int) (data : List Nat) (P : Int) : Except Err (List Nat) := do
  assert (S % 4 == 0)
  assert (P % 4 == 0)
  let offset := S - (P + 8)
  let (offset, U) := if offset < 0 then (-offset, 1) else (offset, 2)
  assert (offset < 4096)
  let enc ← encodeImm32 offset.toNat
  let d ← orByte data 2 (U * 64)                        -- data[2] |= U << 6
  let d ← orByte d 1 (enc / 256 % 16)
  setByte d 0 (enc % 256 : Nat)

end Arm

/-! ## thumb (thumb_relocations.py) -/
namespace Thumb

def lit8 (S : Int) (data : List Nat) (P : Int) : Except Err (List Nat) := do
  assert (S % 4 == 0)
  let offset := S - align (P + 2) 4
  assert (inRangeStep offset 0 1024 4)
  setByte data 0 (offset / 4)

def wrapNew11 (S : Int) (data : List Nat) (P : Int) : Except Err (List Nat) := do
  let offset := S - (align P 2 + 4)
  assert (inRangeStep offset (-2048) 2046 2)
  let imm11 ← wrapNegative (offset / 2) 11
  bvSet data 2 0 11 imm11

def rel8 (S : Int) (data : List Nat) (P : Int) : Except Err (List Nat) := do
  assert (S % 2 == 0)
  let offset := S - (align P 2 + 4)
  assert (inRangeStep offset (-256) 254 2)
  let imm8 ← wrapNegative (offset / 2) 8
  setByte data 0 imm8

def blImm11 (S : Int) (data : List Nat) (P : Int) : Except Err (List Nat) := do
  assert (S % 2 == 0)
  let offset := S - (align P 2 + 4)
  assert (inRangeStep offset (-16777216) 16777214 2)
  let imm32 ← wrapNegative (offset / 2) 32
  let imm11 := imm32 % 2048
  let imm10 := imm32 / 2048 % 1024
  let s := imm32 / 16777216 % 2
  let d ← bvSet data 4 0 10 imm10
  let d ← bvSet d 4 10 11 s
  bvSet d 4 16 27 imm11

def bImm11Imm6 (S : Int) (data : List Nat) (P : Int) : Except Err (List Nat) := do
  assert (S % 2 == 0)
  let offset := S - (align P 2 + 4)
  assert (inRangeStep offset (-1048576) 1048574 2)
  let imm32 ← wrapNegative (offset / 2) 32
  let imm11 := imm32 % 2048
  let imm6 := imm32 / 2048 % 64
  let s := imm32 / 131072 % 2
  let d ← setByte data 2 (imm11 % 256)                  -- data[2] = imm11 & 0xFF
  let d ← orByte d 3 (imm11 / 256 % 8).toNat            -- data[3] |= (imm11 >> 8) & 0x7
  let d ← orByte d 3 (s * 32 + s * 8).toNat             -- data[3] |= (j1 << 5) | (j2 << 3)
  let d ← orByte d 0 imm6.toNat                         -- data[0] |= imm6
  orByte d 1 (s * 4).toNat                              -- data[1] |= s << 2

end Thumb

/-! ## x86_64 (instructions.py) -/
namespace X86

def rel32 (addend : Int) (S : Int) (data : List Nat) (P : Int) : Except Err (List Nat) :=
  applyToken 32 false x86_disp32 data (S - P + addend)

def abs32 (S : Int) (data : List Nat) (_P : Int) : Except Err (List Nat) :=
  applyToken 32 false x86_disp32 data S

def jmp8 (S : Int) (data : List Nat) (P : Int) : Except Err (List Nat) :=
  applyToken 8 false x86_disp8 data (S - (P + 1))

def abs64 (S : Int) (data : List Nat) (_P : Int) : Except Err (List Nat) := do
  let v ← wrapNegative S 64
  applyToken 64 false x86_disp64 data v

end X86

/-! ## generic data relocations (data_instructions.py) -/
namespace Data

def absaddr16 (S : Int) (data : List Nat) (P : Int) : Except Err (List Nat) := do
  assert (P % 2 == 0)
  applyToken 16 false (data_value 16) data S

def absaddr32 (S : Int) (data : List Nat) (P : Int) : Except Err (List Nat) := do
  assert (P % 4 == 0)
  applyToken 32 false (data_value 32) data S

def absaddr64 (S : Int) (data : List Nat) (P : Int) : Except Err (List Nat) := do
  assert (P % 4 == 0)
  applyToken 64 false (data_value 64) data S

end Data

/-- dispatch by (ISA key, relocation name) as in `arch.isa.relocation_map`; `none` = not modelled -/
def apply (isa name : String) (addend : Int) (S : Int) (data : List Nat) (P : Int) : Option (Except Err (List Nat)) :=
  match isa, name with
  | "riscv", "b_imm12" => some (Riscv.bImm12 S data P)
  | "riscv", "b_imm20" => some (Riscv.bImm20 S data P)
  | "riscv", "abs32_imm20" => some (Riscv.abs32Imm20 S data P)
  | "riscv", "rel_imm20" => some (Riscv.relImm20 S data P)
  | "riscv", "abs32_imm12" => some (Riscv.abs32Imm12 S data P)
  | "riscv", "rel_imm12" => some (Riscv.relImm12 S data P)
  | "riscv", "AbsAddr32Relocation" => some (Riscv.absAddr32 S data P)
  | "riscv", "cb_imm11" => some (Rvc.cbImm11 S data P)
  | "riscv", "cbl_imm11" => some (Rvc.cbImm11 S data P)
  | "riscv", "shrink_cb_imm11" => some (Rvc.doShrink 5 S data P)      -- not relocation names: do_shrink of the two classes
  | "riscv", "shrink_cbl_imm11" => some (Rvc.doShrink 1 S data P)
  | "riscv", "bc_imm11" => some (Rvc.bcImm11 S data P)
  | "riscv", "bc_imm8" => some (Rvc.bcImm8 S data P)
  | "arm", "rel8" => some (Arm.rel8 S data P)
  | "arm", "imm24" => some (Arm.imm24 S data P)
  | "arm", "ldr_imm12" => some (Arm.ldrImm12 S data P)
  | "arm", "adr_imm12" => some (Arm.adrImm12 S data P)
  | "thumb", "lit8" => some (Thumb.lit8 S data P)
  | "thumb", "wrap_new11" => some (Thumb.wrapNew11 S data P)
  | "thumb", "rel8" => some (Thumb.rel8 S data P)
  | "thumb", "bl_imm11" => some (Thumb.blImm11 S data P)
  | "thumb", "b_imm11_imm6" => some (Thumb.bImm11Imm6 S data P)
  | "x86_64", "rel32" => some (X86.rel32 addend S data P)
  | "x86_64", "abs32" => some (X86.abs32 S data P)
  | "x86_64", "jmp8" => some (X86.jmp8 S data P)
  | "x86_64", "abs64" => some (X86.abs64 S data P)
  | _, "absaddr16" => some (Data.absaddr16 S data P)
  | _, "absaddr32" => some (Data.absaddr32 S data P)
  | _, "absaddr64" => some (Data.absaddr64 S data P)
  | _, _ => none

end Model.Reloc
