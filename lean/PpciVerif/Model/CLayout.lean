/-
`Model.CLayout` — hand model (import-free) of `ppci/lang/c/context.py`
`CContext.sizeof / alignment / layout_struct / offsetof` on x86_64 for object types built
from basic types, pointers, arrays, structs and unions, **without bit-fields and without
anonymous members**.  Mirrors the code as it is at /repo HEAD:

    layout_struct:  bit_offset = 0
                    for field: bitsize = sizeof(field.typ)*8; alignment = alignment(field.typ)*8
                               bit_offset += required_padding(bit_offset, alignment)
                               bit_offsets[field] = bit_offset
                               if kind == "struct": bit_offset += bitsize
                    bit_offset += required_padding(bit_offset, <final alignment in bits>)
                    byte_size = bit_offset // 8
    sizeof(struct)  = layout_struct(typ)[0]          (through get_field_offsets)
    sizeof(union)   = max(sizeof(field)) rounded up  (0 without fields)
    sizeof(array)   = sizeof(element) * size
    alignment(struct/union) = max(alignment(field))  (1 without fields)
    offsetof(typ, field) = bit_offsets[field] // 8

This is the code after the C01 repair 755c1e7 (size rounded up to the alignment); `Legacy.structSize`
/ `Legacy.unionSize` keep the final step of the code before it (padding to 8 bits only; union size not
rounded) for the Lean-proved witnesses.
-/
namespace Model.CLayout

/-- the basic types with an entry in `CContext.type_size_map` that are in scope, and pointers -/
inductive Prim
  | char | uchar | short | ushort | int | uint | long | ulong | llong | ullong | float | double | ptr
  deriving DecidableEq, Repr

def Prim.all : List Prim :=
  [.char, .uchar, .short, .ushort, .int, .uint, .long, .ulong, .llong, .ullong, .float, .double, .ptr]

/-- `BasicType` id, or "ptr" (= `arch_info.get_size("ptr")`) -/
def Prim.id : Prim → String
  | .char => "char" | .uchar => "unsigned char" | .short => "short" | .ushort => "unsigned short"
  | .int => "int" | .uint => "unsigned int" | .long => "long" | .ulong => "unsigned long"
  | .llong => "long long" | .ullong => "unsigned long long" | .float => "float" | .double => "double"
  | .ptr => "ptr"

/-- `type_size_map[tid][0]` / `arch_info.get_size("ptr")` on x86_64 -/
def Prim.size : Prim → Nat
  | .char | .uchar => 1 | .short | .ushort => 2 | .int | .uint | .float => 4 | _ => 8

/-- `type_size_map[tid][1]` / `arch_info.get_alignment("ptr")` on x86_64 -/
def Prim.align : Prim → Nat
  | .char | .uchar => 1 | .short | .ushort => 2 | .int | .uint | .float => 4 | _ => 8

mutual
  inductive LTy
    | prim (p : Prim)
    | arr (elem : LTy) (n : Nat)
    | struct (fs : Fields)
    | union (fs : Fields)
  inductive Fields
    | nil
    | cons (t : LTy) (rest : Fields)
end

def Fields.isEmpty : Fields → Bool
  | .nil => true
  | .cons _ _ => false

/-- `utils.required_padding(address, alignment)` -/
def requiredPadding (address alignment : Nat) : Nat :=
  let rest := address % alignment
  if rest ≠ 0 then alignment - rest else 0

mutual
  /-- `CContext.sizeof` -/
  def sizeof : LTy → Nat
    | .prim p => p.size
    | .arr e n => sizeof e * n
    | .struct fs =>
      -- layout_struct: ...; bit_offset += required_padding(bit_offset, 8 * self.alignment(typ)); byte_size = bit_offset // 8
      let bitOffset := structBits fs 0
      (bitOffset + requiredPadding bitOffset (8 * (if fs.isEmpty then 1 else maxAlign fs))) / 8
    | .union fs =>
      -- size = max(sizeof(field)); size += required_padding(size, self.alignment(typ))
      if fs.isEmpty then 0
      else maxSize fs + requiredPadding (maxSize fs) (if fs.isEmpty then 1 else maxAlign fs)
  /-- `CContext.alignment` -/
  def alignment : LTy → Nat
    | .prim p => p.align
    | .arr e _ => alignment e
    | .struct fs => if fs.isEmpty then 1 else maxAlign fs
    | .union fs => if fs.isEmpty then 1 else maxAlign fs
  /-- `max(self.alignment(part.typ) for part in typ.fields)` (0 stands for the empty `max`) -/
  def maxAlign : Fields → Nat
    | .nil => 0
    | .cons t r => max (alignment t) (maxAlign r)
  /-- `max(self.sizeof(part.typ) for part in typ.fields)` -/
  def maxSize : Fields → Nat
    | .nil => 0
    | .cons t r => max (sizeof t) (maxSize r)
  /-- the loop of `layout_struct` for `kind == "struct"`: `bit_offset` after the fields -/
  def structBits : Fields → Nat → Nat
    | .nil, bitOffset => bitOffset
    | .cons t r, bitOffset =>
      let bitOffset := bitOffset + requiredPadding bitOffset (alignment t * 8)
      structBits r (bitOffset + sizeof t * 8)
  /-- the `bit_offsets` recorded by that loop -/
  def structBitOffsets : Fields → Nat → List Nat
    | .nil, _ => []
    | .cons t r, bitOffset =>
      let bitOffset := bitOffset + requiredPadding bitOffset (alignment t * 8)
      bitOffset :: structBitOffsets r (bitOffset + sizeof t * 8)
  /-- the `bit_offsets` for `kind == "union"` (`bit_offset` is never advanced) -/
  def unionBitOffsets : Fields → List Nat
    | .nil => []
    | .cons t r => (0 + requiredPadding 0 (alignment t * 8)) :: unionBitOffsets r
end

/-- `[offsetof(typ, f) for f in typ.fields]` (`bit_offsets[f] // 8`) -/
def offsets : LTy → List Nat
  | .struct fs => (structBitOffsets fs 0).map (· / 8)
  | .union fs => (unionBitOffsets fs).map (· / 8)
  | _ => []

/-! ### the final step before commit 755c1e7 (kept for the witnesses of the repaired defect) -/
namespace Legacy

/-- `sizeof(struct)`: `bit_offset += required_padding(bit_offset, 8); byte_size = bit_offset // 8` -/
def structSize (fs : Fields) : Nat :=
  let bitOffset := structBits fs 0
  (bitOffset + requiredPadding bitOffset 8) / 8

/-- `sizeof(union)`: `max(sizeof(field))` -/
def unionSize (fs : Fields) : Nat := if fs.isEmpty then 0 else maxSize fs

end Legacy

end Model.CLayout
