import PpciVerif.Model.Proto
import PpciVerif.Model.ObjSer
import PpciVerif.Spec.ObjSer
/-! Protocol side of the C14 driver (kept in a compiled module so that `lean --run Drivers/C14.lean`
starts fast): tree <-> token encoding, the harness' record tree <-> `Model.ObjSer.Obj`, and `step`.
No theorem depends on anything in this file. -/
namespace Model.ObjSerProto
open Proto Model.ObjSer


/-! ### tree ↔ tokens -/

def splitDots (cs : List Char) : List (List Char) :=
  let rec go : List Char → List Char → List (List Char) → List (List Char)
    | [], cur, acc => (cur.reverse :: acc).reverse
    | c :: rest, cur, acc => if c = '.' then go rest [] (cur.reverse :: acc) else go rest (c :: cur) acc
  go cs [] []

def parseCps (cs : List Char) : Option (List Char) :=
  if cs.isEmpty then some [] else
  (splitDots cs).mapM (fun w => (String.ofList w).toNat?.map Char.ofNat)

mutual
def parseTree : Nat → List String → Option (Json × List String)
  | 0, _ => none
  | _ + 1, [] => none
  | fuel + 1, tok :: rest =>
    if tok == "n" then some (.null, rest)
    else if tok == "t" then some (.bool true, rest)
    else if tok == "f" then some (.bool false, rest)
    else if tok == "[" then parseArr fuel rest []
    else if tok == "{" then parseObj fuel rest []
    else match tok.toList with
      | 'i' :: cs => (String.ofList cs).toInt?.map (fun n => (.num n, rest))
      | 'r' :: cs => some (.str cs, rest)
      | 's' :: cs => (parseCps cs).map (fun s => (.str s, rest))
      | _ => none
def parseArr : Nat → List String → List Json → Option (Json × List String)
  | 0, _, _ => none
  | _ + 1, [], _ => none
  | fuel + 1, tok :: rest, acc =>
    if tok == "]" then some (.arr acc.reverse, rest)
    else match parseTree fuel (tok :: rest) with
      | some (j, rest') => parseArr fuel rest' (j :: acc)
      | none => none
def parseObj : Nat → List String → List (String × Json) → Option (Json × List String)
  | 0, _, _ => none
  | _ + 1, [], _ => none
  | fuel + 1, tok :: rest, acc =>
    if tok == "}" then some (.obj acc.reverse, rest)
    else match parseTree fuel rest with
      | some (j, rest') => parseObj fuel rest' ((tok, j) :: acc)
      | none => none
end

def parseAll (ws : List String) : Option Json :=
  match parseTree (2 * ws.length + 2) ws with
  | some (j, []) => some j
  | _ => none

def rawOk (c : Char) : Bool :=
  c.isAlphanum || c == '_' || c == '.' || c == ':' || c == '-'

def insertKey (kv : String × Json) : List (String × Json) → List (String × Json)
  | [] => [kv]
  | x :: xs => if kv.1 < x.1 then kv :: x :: xs else x :: insertKey kv xs

def sortKeys (kvs : List (String × Json)) : List (String × Json) :=
  kvs.foldr insertKey []

mutual
def showTree : Json → List String
  | .null => ["n"]
  | .bool true => ["t"]
  | .bool false => ["f"]
  | .num n => [s!"i{n}"]
  | .str s =>
    if !s.isEmpty && s.all rawOk then ["r" ++ String.ofList s]
    else ["s" ++ ".".intercalate (s.map (fun c => toString c.toNat))]
  | .arr xs => ["["] ++ showList xs ++ ["]"]
  | .obj kvs => ["{"] ++ showKvs kvs ++ ["}"]
def showList : List Json → List String
  | [] => []
  | x :: xs => showTree x ++ showList xs
def showKvs : List (String × Json) → List String
  | [] => []
  | (k, v) :: rest => k :: (showTree v ++ showKvs rest)
end

mutual
def sortTree : Json → Json
  | .arr xs => .arr (sortList xs)
  | .obj kvs => .obj (sortKeys (sortKvs kvs))
  | j => j
def sortList : List Json → List Json
  | [] => []
  | x :: xs => sortTree x :: sortList xs
def sortKvs : List (String × Json) → List (String × Json)
  | [] => []
  | (k, v) :: rest => (k, sortTree v) :: sortKvs rest
end

def render (j : Json) : String := " ".intercalate (showTree (sortTree j))

/-! ### the harness' record tree ↔ `Obj` -/

def fld (j : Json) (k : String) : Option Json := j.get? k

def jInt : Json → Option Int
  | .num n => some n
  | _ => none
def jNat : Json → Option Nat
  | .num n => if n < 0 then none else some n.toNat
  | _ => none
def jStr : Json → Option PyStr
  | .str s => some s
  | _ => none
def jArr : Json → Option (List Json)
  | .arr xs => some xs
  | _ => none
def jOptInt : Json → Option (Option Int)
  | .null => some none
  | .num n => some (some n)
  | _ => none
def jOptStr : Json → Option (Option PyStr)
  | .null => some none
  | .str s => some (some s)
  | _ => none

def sectionOf (j : Json) : Option Section := do
  let name ← fld j "name" >>= jStr
  let address ← fld j "address" >>= jInt
  let alignment ← fld j "alignment" >>= jInt
  let data ← fld j "data" >>= jStr >>= fromHexChars
  pure ⟨name, address, alignment, data⟩

def symbolOf (j : Json) : Option Symbol := do
  pure ⟨← fld j "id" >>= jInt, ← fld j "name" >>= jStr, ← fld j "binding" >>= jStr,
        ← fld j "value" >>= jOptInt, ← fld j "section" >>= jOptStr, ← fld j "typ", ← fld j "size"⟩

def relocOf (j : Json) : Option Reloc := do
  pure ⟨← fld j "type", ← fld j "symbol_id" >>= jInt, ← fld j "section" >>= jStr,
        ← fld j "offset" >>= jInt, ← fld j "addend" >>= jInt⟩

def imageOf (j : Json) : Option Image := do
  pure ⟨← fld j "name" >>= jStr, ← fld j "address" >>= jInt, ← (fld j "sections" >>= jArr) >>= List.mapM sectionOf⟩

def srcOf (j : Json) : Option SrcLoc := do
  pure ⟨← fld j "filename", ← fld j "row", ← fld j "col", ← fld j "length"⟩

def addrOf (j : Json) : Option Addr := do
  let k ← fld j "kind" >>= jStr
  if k = kFixed then pure (.fixed (← fld j "symbol_id" >>= jInt))
  else if k = kFprel then pure (.fprel (← fld j "offset") (← fld j "size"))
  else if k = kUnknown then pure .unknown
  else none

def fieldOf (j : Json) : Option Field := do
  pure ⟨← fld j "name", ← fld j "type" >>= jNat, ← fld j "offset"⟩

def typeOf (j : Json) : Option TypeDesc := do
  let k ← fld j "kind" >>= jStr
  if k = kBase then pure (.base (← fld j "name") (← fld j "size") (← fld j "encoding"))
  else if k = kStruct then pure (.struct (← (fld j "fields" >>= jArr) >>= List.mapM fieldOf))
  else if k = kArray then pure (.array (← fld j "element_type" >>= jNat) (← fld j "size" >>= jInt))
  else if k = kPointer then pure (.pointer (← fld j "pointed_type" >>= jNat))
  else none

def varOf (j : Json) : Option DbgVar := do
  pure ⟨← fld j "name", ← fld j "type" >>= jNat, ← fld j "loc" >>= srcOf, ← fld j "address" >>= addrOf⟩

def paramOf (j : Json) : Option DbgParam := do
  pure ⟨← fld j "name", ← fld j "type" >>= jNat⟩

def funcOf (j : Json) : Option DbgFunc := do
  pure ⟨← fld j "name", ← fld j "loc" >>= srcOf, ← fld j "return_type" >>= jNat,
        ← (fld j "arguments" >>= jArr) >>= List.mapM paramOf,
        ← fld j "begin" >>= addrOf, ← fld j "end" >>= addrOf,
        ← (fld j "variables" >>= jArr) >>= List.mapM varOf⟩

def locOf (j : Json) : Option DbgLoc := do
  pure ⟨← fld j "loc" >>= srcOf, ← fld j "address" >>= addrOf⟩

def debugOf (j : Json) : Option DebugInfo := do
  pure ⟨← (fld j "locations" >>= jArr) >>= List.mapM locOf,
        ← (fld j "types" >>= jArr) >>= List.mapM typeOf,
        ← (fld j "variables" >>= jArr) >>= List.mapM varOf,
        ← (fld j "functions" >>= jArr) >>= List.mapM funcOf⟩

def objOf (j : Json) : Option Obj := do
  let dbg ← fld j "debug"
  let debug ← (match dbg with
    | .null => some none
    | d => (debugOf d).map some : Option (Option DebugInfo))
  pure ⟨← fld j "arch" >>= jStr, ← fld j "entry" >>= jOptInt,
        ← (fld j "sections" >>= jArr) >>= List.mapM sectionOf,
        ← (fld j "symbols" >>= jArr) >>= List.mapM symbolOf,
        ← (fld j "relocations" >>= jArr) >>= List.mapM relocOf,
        ← (fld j "images" >>= jArr) >>= List.mapM imageOf, debug⟩

def hexStr (bs : List Nat) : Json := .str (hexlify bs)
def oInt : Option Int → Json
  | some n => .num n
  | none => .null

def sectionT (s : Section) : Json :=
  .obj [("name", .str s.name), ("address", .num s.address), ("alignment", .num s.alignment), ("data", hexStr s.data)]
def symbolT (s : Symbol) : Json :=
  .obj [("id", .num s.id), ("name", .str s.name), ("binding", .str s.binding), ("value", oInt s.value),
        ("section", optStrJ s.sect), ("typ", s.typ), ("size", s.size)]
def relocT (r : Reloc) : Json :=
  .obj [("type", r.relocType), ("symbol_id", .num r.symbolId), ("section", .str r.sect),
        ("offset", .num r.offset), ("addend", .num r.addend)]
def imageT (i : Image) : Json :=
  .obj [("name", .str i.name), ("address", .num i.address), ("sections", .arr (i.sections.map sectionT))]
def srcT (l : SrcLoc) : Json :=
  .obj [("filename", l.filename), ("row", l.row), ("col", l.col), ("length", l.length)]
def addrT : Addr → Json
  | .fixed n => .obj [("kind", .str kFixed), ("symbol_id", .num n)]
  | .fprel o s => .obj [("kind", .str kFprel), ("offset", o), ("size", s)]
  | .unknown => .obj [("kind", .str kUnknown)]
def typeT : TypeDesc → Json
  | .base n s e => .obj [("kind", .str kBase), ("name", n), ("size", s), ("encoding", e)]
  | .struct fs => .obj [("kind", .str kStruct), ("fields", .arr (fs.map (fun f =>
      .obj [("name", f.name), ("type", .num f.typ), ("offset", f.offset)])))]
  | .array e s => .obj [("kind", .str kArray), ("element_type", .num e), ("size", .num s)]
  | .pointer t => .obj [("kind", .str kPointer), ("pointed_type", .num t)]
def varT (v : DbgVar) : Json :=
  .obj [("name", v.name), ("type", .num v.typ), ("loc", srcT v.loc), ("address", addrT v.address)]
def funcT (f : DbgFunc) : Json :=
  .obj [("name", f.name), ("loc", srcT f.loc), ("return_type", .num f.returnType),
        ("arguments", .arr (f.arguments.map (fun a => .obj [("name", a.name), ("type", .num a.typ)]))),
        ("begin", addrT f.begin_), ("end", addrT f.end_), ("variables", .arr (f.variables.map varT))]
def debugT (d : DebugInfo) : Json :=
  .obj [("locations", .arr (d.locations.map (fun l => .obj [("loc", srcT l.loc), ("address", addrT l.address)]))),
        ("types", .arr (d.types.map typeT)), ("variables", .arr (d.variables.map varT)),
        ("functions", .arr (d.functions.map funcT))]
def objT (o : Obj) : Json :=
  .obj [("arch", .str o.arch), ("entry", oInt o.entry), ("sections", .arr (o.sections.map sectionT)),
        ("symbols", .arr (o.symbols.map symbolT)), ("relocations", .arr (o.relocations.map relocT)),
        ("images", .arr (o.images.map imageT)),
        ("debug", match o.debug with | some d => debugT d | none => .null)]

def showE {α} (f : α → Json) : Except Err α → String
  | .ok a => "ok " ++ render (f a)
  | .error e => "err " ++ e.name

def step (line : String) : String :=
  match words line with
  | op :: rest =>
    match parseAll rest with
    | none => "bad-op"
    | some j =>
      if op == "hex" then match j with
        | .num n => "ok " ++ render (.str (pyHex n))
        | _ => "bad-op"
      else if op == "mknum" then showE Json.num (makeNumJ j)
      else if op == "b2a" then match jStr j >>= fromHexChars with
        | some bs => "ok " ++ render (bin2asc bs)
        | none => "bad-op"
      else if op == "a2b" then showE hexStr (asc2bin j)
      else if op == "ser" then match objOf j with
        | some o => "ok " ++ render (serialize o)
        | none => "bad-op"
      else if op == "deser" then showE objT (deserialize j)
      else if op == "wf" then match objOf j with
        | some o => "ok " ++ render (.bool (Spec.ObjSer.wfB o))
        | none => "bad-op"
      else if op == "loadable" then match objOf j with
        | some o => "ok " ++ render (.bool (match o.debug with | some d => loadable d | none => true))
        | none => "bad-op"
      else if op == "arsave" then match jArr j >>= List.mapM objOf with
        | some os => "ok " ++ render (archiveSave ⟨os⟩)
        | none => "bad-op"
      else if op == "arload" then showE (fun a => .arr (a.objs.map objT)) (archiveLoad j)
      else "bad-op"
  | _ => "bad-op"


end Model.ObjSerProto
