import PpciVerif.Spec.CFG
/-!
# Model.LR — hand model of `ppci/lang/tools/lr.py`

* `parseLoop` / `parseV` / `parse` : `LrParser.parse` — the table driven driver
  (state/symbol stack, value stack, shift / reduce / accept, goto) as a total
  function with explicit fuel.  Semantic values are generic (`parseV`), the
  instance `parse` builds derivation trees.
* `checkWith` / `inferKnown` / `tableSafe` : the *validator* (not part of ppci):
  a decidable local consistency check of a pair of tables against a grammar.
  `Props.C32` proves `tableSafe G T = true → parse … = ok t → t` is a derivation
  tree of the input.
* `firstSets` : `calculate_first_sets` (fixpoint, EPS marks nullable symbols).

Symbols are `Nat`; the pseudo terminals are `eof = 0` ("EOF") and `eps = 1` ("EPS").
Python dicts are association lists looked up by first match.
-/
namespace Model.LR
open Spec.CFG

def eof : Nat := 0
def eps : Nat := 1

inductive Err
  | ParserException | IndexError | KeyError | UnboundLocalError | FuelExhausted
deriving DecidableEq, Repr

def Err.name : Err → String
  | .ParserException => "ParserException"
  | .IndexError => "IndexError"
  | .KeyError => "KeyError"
  | .UnboundLocalError => "UnboundLocalError"
  | .FuelExhausted => "FuelExhausted"

inductive Action
  | shift (toState : Nat)
  | reduce (rule : Nat)
  | accept (rule : Nat)
deriving DecidableEq, Repr

/-- `action_table` : (state, terminal) ↦ action;  `goto_table` : (state, nonterminal) ↦ state -/
structure Tables where
  action : List (Nat × Nat × Action)
  goto : List (Nat × Nat × Nat)
deriving Repr

def lookup2 {α : Type} (l : List (Nat × Nat × α)) (s x : Nat) : Option α :=
  (l.find? (fun e => e.1 == s && e.2.1 == x)).map (fun e => e.2.2)

/-- one stack entry above the initial `0`: the python stack holds `…, sym, state` and
`r_data_stack` holds `val` at the same height -/
structure Frame (V : Type) where
  sym : Nat
  state : Nat
  val : V

def topState {V : Type} : List (Frame V) → Nat
  | [] => 0
  | f :: _ => f.state

/-- `stack == [0, start_symbol, 0]` (the `while` condition of `LrParser.parse`) -/
def isFinal {V : Type} (G : Grammar) : List (Frame V) → Bool
  | [f] => f.sym == G.start && f.state == 0
  | _ => false

/-- type of the look-ahead token: the next token, `EOF` for ever once the input is exhausted -/
def lookAhead : List Tok → Nat
  | [] => eof
  | t :: _ => t.typ

/-- The main loop of `LrParser.parse` (stack is top-first). `act i args` is the
semantic action of production `i`, `tokv` the value pushed for a shifted token. -/
def parseLoop {V : Type} (G : Grammar) (T : Tables) (act : Nat → List V → V) (tokv : Tok → V) :
    Nat → List (Frame V) → List Tok → Except Err V
  | 0, _, _ => .error .FuelExhausted
  | fuel + 1, st, inp =>
    if isFinal G st then .error .UnboundLocalError   -- loop exits without `ret_val`
    else
      match lookup2 T.action (topState st) (lookAhead inp) with
      | none => .error .ParserException
      | some (.shift s') =>
        (match inp with
         | [] => parseLoop G T act tokv fuel (⟨eof, s', tokv ⟨eof, 0⟩⟩ :: st) []
         | t :: rest => parseLoop G T act tokv fuel (⟨t.typ, s', tokv t⟩ :: st) rest)
      | some (.reduce r) =>
        (match G.prods[r]? with
         | none => .error .IndexError
         | some p =>
           if p.rhs.length ≤ st.length then
             let v := act r ((st.take p.rhs.length).reverse.map (·.val))
             let st' := st.drop p.rhs.length
             match lookup2 T.goto (topState st') p.lhs with
             | none => .error .KeyError
             | some s' => parseLoop G T act tokv fuel (⟨p.lhs, s', v⟩ :: st') inp
           else .error .IndexError)
      | some (.accept r) =>
        (match G.prods[r]? with
         | none => .error .IndexError
         | some p =>
           if p.rhs.length ≤ st.length then
             let v := act r ((st.take p.rhs.length).reverse.map (·.val))
             let st' := st.drop p.rhs.length
             if st'.isEmpty then .ok v      -- `stack == [0]`: the start symbol spans the input
             else match lookup2 T.goto (topState st') p.lhs with
               | none => .error .KeyError
               | some s' => parseLoop G T act tokv fuel (⟨p.lhs, s', v⟩ :: st') inp
           else .error .IndexError)

def parseV {V : Type} (G : Grammar) (T : Tables) (act : Nat → List V → V) (tokv : Tok → V)
    (fuel : Nat) (w : List Tok) : Except Err V :=
  parseLoop G T act tokv fuel [] w

/-- the parser with tree-building actions -/
def parse (G : Grammar) (T : Tables) (fuel : Nat) (w : List Tok) : Except Err Tree :=
  parseV G T Tree.node Tree.leaf fuel w

/-! ### the validator -/

/-- `K s` : symbols known to lie on the stack under (and including) the frame whose
state is `s`, top first.  Default: nothing known. -/
abbrev Known := List (Nat × List Nat)

def Known.get (K : Known) (s : Nat) : List Nat := (K.lookup s).getD []

/-- local consistency of the tables with `G` under the stack knowledge `K` -/
def checkWith (G : Grammar) (T : Tables) (K : Known) : Bool :=
  (K.get 0).isEmpty &&
  T.action.all (fun e =>
    match e.2.2 with
    | .shift s' => e.2.1 != eof && G.isTerm e.2.1 && (K.get s').isPrefixOf (e.2.1 :: K.get e.1)
    | .reduce r =>
      (match G.prods[r]? with
       | some p => p.rhs.reverse.isPrefixOf (K.get e.1)
       | none => false)
    | .accept r =>
      e.2.1 == eof &&
      (match G.prods[r]? with
       | some p => p.lhs == G.start && p.rhs.reverse.isPrefixOf (K.get e.1)
       | none => false)) &&
  T.goto.all (fun e => (K.get e.2.2).isPrefixOf (e.2.1 :: K.get e.1)) &&
  -- table keys mention symbols of the grammar only (not needed for soundness; a table with a
  -- foreign look-ahead or goto symbol cannot have been built from this grammar).  A goto symbol is a
  -- nonterminal or at least occurs in a right hand side (ppci keeps the name of a nonterminal whose
  -- productions were all removed)
  T.action.all (fun e => e.2.1 == eof || G.isTerm e.2.1) &&
  T.goto.all (fun e => !G.isTerm e.2.1 && (G.isNonterm e.2.1 || G.prods.any (fun p => p.rhs.contains e.2.1)))

def commonPrefix : List Nat → List Nat → List Nat
  | a :: as, b :: bs => if a == b then a :: commonPrefix as bs else []
  | _, _ => []

/-- all transitions `(s, X, s')` of the automaton -/
def transitions (T : Tables) : List (Nat × Nat × Nat) :=
  T.action.filterMap (fun e => match e.2.2 with
    | .shift s' => some (e.1, e.2.1, s')
    | _ => none) ++ T.goto

def Known.set (K : Known) (s : Nat) (v : List Nat) : Known :=
  if (K.lookup s).isSome then K.map (fun e => if e.1 == s then (s, v) else e) else (s, v) :: K

def inferPass (maxLen : Nat) (trs : List (Nat × Nat × Nat)) (K : Known) : Known × Bool :=
  trs.foldl (fun (acc : Known × Bool) e =>
    match acc.1.lookup e.1 with
    | none => acc
    | some ks =>
      let cand := (e.2.1 :: ks).take maxLen
      match acc.1.lookup e.2.2 with
      | none => (acc.1.set e.2.2 cand, true)
      | some old =>
        let m := commonPrefix old cand
        if m == old then acc else (acc.1.set e.2.2 m, true)) (K, false)

def inferLoop (maxLen : Nat) (trs : List (Nat × Nat × Nat)) : Nat → Known → Known
  | 0, K => K
  | fuel + 1, K =>
    let r := inferPass maxLen trs K
    if r.2 then inferLoop maxLen trs fuel r.1 else r.1

/-- stack knowledge inferred from the tables alone (greatest consistent assignment,
cut at the longest right-hand side).  Not trusted: `checkWith` re-checks it. -/
def inferKnown (G : Grammar) (T : Tables) : Known :=
  let maxLen := G.prods.foldl (fun m p => max m p.rhs.length) 0
  let trs := transitions T
  inferLoop maxLen trs ((trs.length + 1) * (maxLen + 2) + 2) [(0, [])]

def tableSafe (G : Grammar) (T : Tables) : Bool := checkWith G T (inferKnown G T)

/-! ### first sets (`calculate_first_sets`) -/

abbrev FirstTab := List (Nat × List Nat)

def FirstTab.get (tab : FirstTab) (x : Nat) : List Nat := (tab.lookup x).getD []

def FirstTab.upd (tab : FirstTab) (x : Nat) (v : List Nat) : FirstTab :=
  tab.map (fun e => if e.1 == x then (x, v) else e)

def union (a b : List Nat) : List Nat := a ++ b.filter (fun x => !a.contains x)

def subset (a b : List Nat) : Bool := a.all (fun x => b.contains x)

/-- names of the nonterminals (`grammar.nonterminals`) -/
def nontermNames (G : Grammar) : List Nat := (G.prods.map (·.lhs)).eraseDups

def initFirst (G : Grammar) : FirstTab :=
  (nontermNames G).map (fun n => (n, [])) ++ (G.terms ++ [eof, eps]).map (fun t => (t, [t]))

/-- the inner `for beta in rule.symbols` loop: first set of a right hand side,
with EPS when every symbol can be empty -/
def rhsFirst (tab : FirstTab) : List Nat → List Nat
  | [] => [eps]
  | b :: rest =>
    let fb := tab.get b
    if fb.contains eps then union (fb.filter (· != eps)) (rhsFirst tab rest)
    else fb.filter (· != eps)

def firstPass (prods : List Prod) (tab : FirstTab) (changed : Bool) : FirstTab × Bool :=
  match prods with
  | [] => (tab, changed)
  | p :: ps =>
    let rf := rhsFirst tab p.rhs
    if subset rf (tab.get p.lhs) then firstPass ps tab changed
    else firstPass ps (tab.upd p.lhs (union (tab.get p.lhs) rf)) true

def firstLoop (G : Grammar) : Nat → FirstTab → Option FirstTab
  | 0, _ => none
  | fuel + 1, tab =>
    let r := firstPass G.prods tab false
    if r.2 then firstLoop G fuel r.1 else some r.1

def firstSets (G : Grammar) (fuel : Nat) : Option FirstTab := firstLoop G fuel (initFirst G)

/-! ### the code as it was before the two `fix:` commits (kept for the refutation witnesses in `Props.C32`)

* `Legacy.parseLoop` : an `Accept` action returned at once, wherever it was met on the stack;
* `Legacy.firstSets` : nullable symbols were skipped *before* their first set was added, and the
  nullable flag lived in a separate map. -/
namespace Legacy

def parseLoop {V : Type} (G : Grammar) (T : Tables) (act : Nat → List V → V) (tokv : Tok → V) :
    Nat → List (Frame V) → List Tok → Except Err V
  | 0, _, _ => .error .FuelExhausted
  | fuel + 1, st, inp =>
    if isFinal G st then .error .UnboundLocalError
    else
      match lookup2 T.action (topState st) (lookAhead inp) with
      | none => .error .ParserException
      | some (.shift s') =>
        (match inp with
         | [] => parseLoop G T act tokv fuel (⟨eof, s', tokv ⟨eof, 0⟩⟩ :: st) []
         | t :: rest => parseLoop G T act tokv fuel (⟨t.typ, s', tokv t⟩ :: st) rest)
      | some (.reduce r) =>
        (match G.prods[r]? with
         | none => .error .IndexError
         | some p =>
           if p.rhs.length ≤ st.length then
             let v := act r ((st.take p.rhs.length).reverse.map (·.val))
             let st' := st.drop p.rhs.length
             match lookup2 T.goto (topState st') p.lhs with
             | none => .error .KeyError
             | some s' => parseLoop G T act tokv fuel (⟨p.lhs, s', v⟩ :: st') inp
           else .error .IndexError)
      | some (.accept r) =>
        (match G.prods[r]? with
         | none => .error .IndexError
         | some p =>
           if p.rhs.length ≤ st.length then
             .ok (act r ((st.take p.rhs.length).reverse.map (·.val)))
           else .error .IndexError)

def parse (G : Grammar) (T : Tables) (fuel : Nat) (w : List Tok) : Except Err Tree :=
  parseLoop G T Tree.node Tree.leaf fuel [] w

/-- the old inner loop `for beta in rule.symbols: if not nullable[beta]: …; break` -/
def updFirst (tab : FirstTab) (nul : List Nat) (lhs : Nat) : List Nat → FirstTab × Bool
  | [] => (tab, false)
  | b :: rest =>
    if nul.contains b then updFirst tab nul lhs rest
    else if subset (tab.get b) (tab.get lhs) then (tab, false)
    else (tab.upd lhs (union (tab.get lhs) (tab.get b)), true)

def firstPass (prods : List Prod) (tab : FirstTab) (nul : List Nat) (changed : Bool) :
    FirstTab × List Nat × Bool :=
  match prods with
  | [] => (tab, nul, changed)
  | p :: ps =>
    let newNul := p.rhs.all (fun b => nul.contains b) && !nul.contains p.lhs
    let nul' := if newNul then p.lhs :: nul else nul
    let r := updFirst tab nul' p.lhs p.rhs
    firstPass ps r.1 nul' (changed || newNul || r.2)

def firstLoop (G : Grammar) : Nat → FirstTab → List Nat → Option FirstTab
  | 0, _, _ => none
  | fuel + 1, tab, nul =>
    let r := firstPass G.prods tab nul false
    if r.2.2 then firstLoop G fuel r.1 r.2.1 else some r.1

def firstSets (G : Grammar) (fuel : Nat) : Option FirstTab := firstLoop G fuel (initFirst G) []

end Legacy

end Model.LR
