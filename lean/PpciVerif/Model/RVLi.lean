import PpciVerif.Spec.RV32
/-!
# `Model.RVLi` — how ppci's RISC-V back-end materialises an integer constant

Mirrors (as machine instructions of `Spec.RV32`, i.e. what the emitted bytes decode to)

* `ppci/arch/riscv/instructions.py: Li.render` — used by every `CONST{I,U}{8,16,32}` pattern of
  the base ISA (`pattern_const_i32`):
  ```python
  if inrange(self.imm, 12):  yield Addi(self.rd, R0, self.imm)
  else:
      if (self.imm & 0x800) != 0:  self.imm += 0x1000
      yield Lui(self.rd, self.imm >> 12)            # encode(): imm20 = imm & 0xFFFFF
      yield Addi(self.rd, self.rd, self.imm & 0xFFF)  # encode(): offset & 0xFFF, a signed 12-bit field
  ```
* `ppci/arch/riscv/rvc_instructions.py: pattern_consti32` (`c.li` for `-32 ≤ v < 32`) and
  `pattern_consti32_2` (`c.lui d, hi ; addi d, d, lo`, `CLui.encode` keeps `hi & 0x3F`).
  `cluiCond` is the `condition=` of that pattern (after the repair: the upper part must fit the
  signed non-zero 6-bit field of `c.lui`); `cluiCondOld` is what it was (`v < 0x20000`).

Python `x & (2^k-1)` ↦ `x % 2^k`, `x >> k` ↦ `x / 2^k` on `Int` (floor, as in Python).
-/
namespace Model.RVLi
open Spec.RV32

/-- a 32-bit or a compressed instruction -/
inductive MI where
  | b (i : Instr)
  | c (ci : CInstr)
  deriving Repr, DecidableEq, Inhabited

def MI.size : MI → Nat
  | .b _ => 4
  | .c _ => 2

def stepM (s : State) : MI → Option State
  | .b i => step s i 4
  | .c ci => stepC s ci

def runM (s : State) : List MI → Option State
  | [] => some s
  | i :: rest => (stepM s i).bind (fun s' => runM s' rest)

/-- `imm & 0x800 != 0` -/
def bit11 (v : Int) : Bool := (v / 2048) % 2 != 0

/-- the (possibly adjusted) value whose upper part goes to `lui` -/
def adjust (v : Int) : Int := if bit11 v then v + 4096 else v

/-- `imm & 0xFFF` -/
def lo12 (v : Int) : Nat := (v % 4096).toNat

/-- `(imm >> 12) & 0xFFFFF`, the field `Lui.encode` stores -/
def hi20 (v : Int) : Nat := ((v / 4096) % 1048576).toNat

/-- `addi rd, rs, <12-bit field>` as the hardware reads it -/
def addiF (rd rs field : Nat) : Instr := .alui .addi rd rs (sext 12 field)

def inrange12 (v : Int) : Bool := decide (-2048 ≤ v ∧ v < 2048)

/-- `Li(rd, imm).render()` -/
def li (rd : Nat) (imm : Int) : List MI :=
  if inrange12 imm then [.b (addiF rd 0 (lo12 imm))]
  else [.b (.lui rd (hi20 (adjust imm))), .b (addiF rd rd (lo12 (adjust imm)))]

/-- `CLi(d, v)` for `v in range(-32, 32)` -/
def cli (rd : Nat) (v : Int) : List MI := [.c (.li rd v)]

/-- `(hi & 0x3F)` read back as the signed 6-bit field of `c.lui` -/
def hi6 (hi : Int) : Int := sext 6 (hi % 64).toNat

/-- `pattern_consti32_2` -/
def cluiAddi (rd : Nat) (v : Int) : List MI :=
  [.c (.lui rd (hi6 (adjust v / 4096))), .b (addiF rd rd (lo12 (adjust v)))]

/-- `condition=` of `pattern_consti32_2` after the repair:
    `-0x20800 <= t.value < 0x1F800 and not -0x800 <= t.value < 0x800` -/
def cluiCond (v : Int) : Bool := decide (-133120 ≤ v ∧ v < 129024 ∧ ¬ (-2048 ≤ v ∧ v < 2048))

/-- the condition before the repair: `t.value < 0x20000` -/
def cluiCondOld (v : Int) : Bool := decide (v < 131072)

end Model.RVLi
