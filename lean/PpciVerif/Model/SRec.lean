/-
Hand model of ppci/format/srecord.py (import-free, core Lean only).

  SRecord(typ, address, data).to_line()  ↦ `toLine`
  write_srecord(obj, f)                  ↦ `writeSrecord address data`, where
      address = obj.get_section("code").address, data = its bytes;
      the file is the list of printed lines (`print` adds the newline).

`value_to_bytes_big_endian(v, n)` = `[(v >> 8x) & 0xFF for x in reversed(range(n))]`
↦ `beBytes`; `(~crc) & 0xFF` ↦ `255 - crc % 256`; `binascii.hexlify(..).upper()`
↦ `hexlifyU`; `chunks(data)` (30-byte slices) ↦ `chunks30`.

The namespace `Legacy` is the code BEFORE the repair commit (header as an S1
record, every data record S1 with the address truncated to 16 bits, section
address ignored, terminator S9); it is used for the negation witnesses in
Props/C19.lean and by the driver ops `ltoline`/`lwrite`.
-/
namespace Model.SRec

inductive Err
  | ValueError
  deriving Repr, DecidableEq

def Err.name : Err → String
  | .ValueError => "ValueError"

/-- `SRecord.address_byte_sizes` -/
def addrSize : Nat → Option Nat
  | 0 => some 2 | 1 => some 2 | 2 => some 3 | 3 => some 4
  | 5 => some 2 | 6 => some 3 | 7 => some 4 | 8 => some 3 | 9 => some 2
  | _ => none

/-- `value_to_bytes_big_endian` -/
def beBytes (v : Nat) : Nat → List Nat
  | 0 => []
  | n + 1 => (v / 256 ^ n % 256) :: beBytes v n

def hexDigitU : Nat → Char
  | 0 => '0' | 1 => '1' | 2 => '2' | 3 => '3' | 4 => '4' | 5 => '5' | 6 => '6' | 7 => '7'
  | 8 => '8' | 9 => '9' | 10 => 'A' | 11 => 'B' | 12 => 'C' | 13 => 'D' | 14 => 'E' | 15 => 'F'
  | _ => '?'

def hexlifyU : List Nat → List Char
  | [] => []
  | b :: bs => hexDigitU (b / 16) :: hexDigitU (b % 16) :: hexlifyU bs

/-- count, address, data, checksum -/
def recordBytes (asz address : Nat) (data : List Nat) : List Nat :=
  let body := (asz + data.length + 1) :: (beBytes address asz ++ data)
  body ++ [255 - body.sum % 256]

/-- `SRecord(typ, address, data).to_line()` (constructor check included) -/
def toLine (typ address : Nat) (data : List Nat) : Except Err (List Char) :=
  match addrSize typ with
  | none => .error .ValueError                                       -- Invalid s-record type
  | some asz =>
    if address ≥ 256 ^ asz then .error .ValueError                   -- address does not fit the field
    else if asz + data.length + 1 > 255 then .error .ValueError       -- bytes([count])
    else .ok ('S' :: hexDigitU typ :: hexlifyU (recordBytes asz address data))

def chunksF : Nat → List Nat → List (List Nat)
  | 0, _ => []
  | fuel + 1, d => if d = [] then [] else d.take 30 :: chunksF fuel (d.drop 30)

/-- `chunks(data)` with the default size 30 -/
def chunks30 (d : List Nat) : List (List Nat) := chunksF d.length d

/-- the `for chunk in chunks(data)` loop -/
def dataLines (typ address : Nat) : List (List Nat) → Except Err (List (List Char))
  | [] => .ok []
  | c :: rest => do
    let l ← toLine typ address c
    let ls ← dataLines typ (address + c.length) rest
    pure (l :: ls)

/-- record types by the highest address: (data record type, termination record type) -/
def typesFor (endAddress : Nat) : Nat × Nat :=
  if endAddress ≤ 65536 then (1, 9)
  else if endAddress ≤ 16777216 then (2, 8)
  else (3, 7)

/-- `write_srecord` -/
def writeSrecord (address : Nat) (data : List Nat) : Except Err (List (List Char)) :=
  if address + data.length > 4294967296 then .error .ValueError
  else do
    let hdr ← toLine 0 0 [72, 68, 82]                                -- b"HDR"
    let body ← dataLines (typesFor (address + data.length)).1 address (chunks30 data)
    let fin ← toLine (typesFor (address + data.length)).2 0 []
    pure (hdr :: body ++ [fin])

/-! ### the code before the repair -/
namespace Legacy

/-- old `to_line`: the address is silently truncated to the field width -/
def toLine (typ address : Nat) (data : List Nat) : Except Err (List Char) :=
  match addrSize typ with
  | none => .error .ValueError
  | some asz =>
    if asz + data.length + 1 > 255 then .error .ValueError
    else .ok ('S' :: hexDigitU typ :: hexlifyU (recordBytes asz address data))

def dataLines (address : Nat) : List (List Nat) → Except Err (List (List Char))
  | [] => .ok []
  | c :: rest => do
    let l ← toLine 1 address c
    let ls ← dataLines (address + c.length) rest
    pure (l :: ls)

/-- old `write_srecord`: "HDR" as an S1 data record at address 0, S1 records counted from 0
    (the section address is not used), S9 -/
def writeSrecord (_address : Nat) (data : List Nat) : Except Err (List (List Char)) := do
  let hdr ← toLine 1 0 [72, 68, 82]
  let body ← dataLines 0 (chunks30 data)
  let fin ← toLine 9 0 []
  pure (hdr :: body ++ [fin])

end Legacy

end Model.SRec
