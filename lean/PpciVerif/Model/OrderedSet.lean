/-
Hand model (import-free) of `ppci.utils.collections.OrderedSet`
(a `MutableSet`: doubly linked list of `[key, prev, next]` cells + a dict
`_map : key → cell`, sentinel cell `end`), together with the `MutableSet`/`Set`
mixin methods it inherits from CPython's `_collections_abc` (`remove`, `pop`,
`clear`, `|= &= -= ^=`, `| & - ^`), which are compositions of
`add / discard / __iter__ / __contains__ / __len__`.

Cells are natural numbers (cell 0 is the sentinel `end`); the three fields of a
cell are the functions `key`, `prev`, `next`; a cell created by `add` gets the
next unused number `size`.  `_map` is a function `key → Option cell`: the model
never enumerates it — exactly like the code, which only does `in`, `[]`, `pop`
on the dict.  That is the whole point for C30: nothing in the class depends on
hash order.

`__iter__` follows `next` from the sentinel; the explicit fuel (`size`) is a
termination bound that the invariant shows is never hit.
`__reversed__` is mirrored as it is in the source: it starts at `end[2]` (the
FIRST cell) and follows `prev`, so it yields at most the first element
(the recipe it was copied from starts at `end[1]`); nothing in ppci calls it.
-/
namespace Model.OrderedSet

inductive Err | KeyError | FuelExhausted
  deriving DecidableEq, Repr

def Err.name : Err → String
  | .KeyError => "KeyError" | .FuelExhausted => "FuelExhausted"

structure OSet where
  key : Nat → Int
  prev : Nat → Nat
  next : Nat → Nat
  size : Nat                    -- cells 0 … size-1 have been created
  map : Int → Option Nat        -- `_map`
  count : Nat                   -- `len(self._map)`

/-- `end = []; end += [None, end, end]; _map = {}` -/
def empty : OSet := ⟨fun _ => 0, fun _ => 0, fun _ => 0, 1, fun _ => none, 0⟩

def upd {α : Type} (f : Nat → α) (i : Nat) (v : α) : Nat → α := fun j => if j = i then v else f j

/-- `__contains__` -/
def contains (s : OSet) (v : Int) : Bool := (s.map v).isSome

/-- `add(value)`:
    `if value not in self._map: end = self._end; curr = end[1];`
    `curr[2] = end[1] = self._map[value] = [value, curr, end]` -/
def add (s : OSet) (v : Int) : OSet :=
  match s.map v with
  | some _ => s
  | none =>
    let curr := s.prev 0
    let cell := s.size
    { key := upd s.key cell v
      prev := upd (upd s.prev cell curr) 0 cell          -- new cell's prev; then end[1] = cell
      next := upd (upd s.next cell 0) curr cell          -- new cell's next = end; then curr[2] = cell
      size := s.size + 1
      map := fun k => if k = v then some cell else s.map k
      count := s.count + 1 }

/-- `discard(value)`:
    `value, prev_item, next_item = self._map.pop(value); prev_item[2] = next_item; next_item[1] = prev_item` -/
def discard (s : OSet) (v : Int) : OSet :=
  match s.map v with
  | none => s
  | some c =>
    let p := s.prev c
    let n := s.next c
    { s with
      next := upd s.next p n
      prev := upd s.prev n p
      map := fun k => if k = v then none else s.map k
      count := s.count - 1 }

/-- the generator `__iter__`: `curr = end[2]; while curr is not end: yield curr[0]; curr = curr[2]` -/
def iterFrom (s : OSet) : Nat → Nat → Except Err (List Int)
  | _, 0 => .ok []
  | 0, _ + 1 => .error .FuelExhausted
  | fuel + 1, c + 1 =>
    match iterFrom s fuel (s.next (c + 1)) with
    | .ok rest => .ok (s.key (c + 1) :: rest)
    | .error e => .error e

def iter (s : OSet) : Except Err (List Int) := iterFrom s s.size (s.next 0)

/-- `list(self)` with the (never needed) fuel error collapsed -/
def toList (s : OSet) : List Int :=
  match iter s with
  | .ok l => l
  | .error _ => []

/-- `__reversed__` as written: starts at the first cell and walks `prev` -/
def reversedFrom (s : OSet) : Nat → Nat → List Int
  | _, 0 => []
  | 0, _ + 1 => []
  | fuel + 1, c + 1 => s.key (c + 1) :: reversedFrom s fuel (s.prev (c + 1))

def reversed (s : OSet) : List Int := reversedFrom s s.size (s.next 0)

/-- `__len__` = `len(self._map)` -/
def len (s : OSet) : Nat := s.count

/-- `__getitem__(index)`: linear scan, `None` when out of range -/
def getItem (s : OSet) (i : Int) : Option Int :=
  if i < 0 then none else (toList s)[i.toNat]?

/-! ### `MutableSet` mixins (CPython `_collections_abc`) -/

/-- `remove(value)` -/
def remove (s : OSet) (v : Int) : Except Err OSet :=
  if contains s v then .ok (discard s v) else .error .KeyError

/-- `pop()`: first element -/
def pop (s : OSet) : Except Err (Int × OSet) :=
  match toList s with
  | [] => .error .KeyError
  | v :: _ => .ok (v, discard s v)

/-- `__ior__(it)` for an iterable given as a list -/
def ior (s : OSet) (it : List Int) : OSet := it.foldl add s

/-- `OrderedSet(iterable)` -/
def ofList (it : List Int) : OSet := ior empty it

/-- `clear()`: pop until KeyError (= discard every element, front to back) -/
def clear (s : OSet) : OSet := (toList s).foldl discard s

/-- `__isub__(it)`, `it` a list (not `self`) -/
def isub (s : OSet) (it : List Int) : OSet := it.foldl discard s

/-- `self - it` as a list: `value for value in self if value not in OrderedSet(it)` -/
def subList (s : OSet) (it : List Int) : List Int :=
  let o := ofList it
  (toList s).filter (fun v => !contains o v)

/-- `__iand__(it)`: `for value in (self - it): self.discard(value)` -/
def iand (s : OSet) (it : List Int) : OSet := (subList s it).foldl discard s

/-- `__ixor__(it)`, `it` a list: `it = OrderedSet(it)`; toggle each -/
def ixor (s : OSet) (it : List Int) : OSet :=
  (toList (ofList it)).foldl (fun s v => if contains s v then discard s v else add s v) s

/-- `self | it`, `self & it`, `self - it`, `self ^ it` (new sets), observed as lists -/
def orList (s : OSet) (it : List Int) : List Int := toList (ofList (toList s ++ it))
def andList (s : OSet) (it : List Int) : List Int := toList (ofList (it.filter (contains s)))
def xorList (s : OSet) (it : List Int) : List Int :=
  let o := ofList it
  let a := ofList (subList s it)                          -- self - other
  let b := (toList o).filter (fun v => !contains s v)     -- other - self
  toList (ior a b)

/-! ### histories -/

inductive Op
  | add (v : Int) | discard (v : Int) | remove (v : Int) | pop | clear
  | ior (l : List Int) | iand (l : List Int) | isub (l : List Int) | ixor (l : List Int)
  | iorSelf | iandSelf | isubSelf | ixorSelf
  | init (l : List Int)

/-- one mutating operation; an operation that raises leaves the set as the code leaves it -/
def apply (s : OSet) : Op → OSet × Option Err
  | .add v => (add s v, none)
  | .discard v => (discard s v, none)
  | .remove v => match remove s v with
    | .ok s' => (s', none)
    | .error e => (s, some e)
  | .pop => match pop s with
    | .ok (_, s') => (s', none)
    | .error e => (s, some e)
  | .clear => (clear s, none)
  | .ior l => (ior s l, none)
  | .iand l => (iand s l, none)
  | .isub l => (isub s l, none)
  | .ixor l => (ixor s l, none)
  | .iorSelf => (ior s (toList s), none)       -- `s |= s` : every add is a no-op
  | .iandSelf => (iand s (toList s), none)     -- `s &= s` : `s - s` is empty
  | .isubSelf => (clear s, none)               -- `it is self` → clear()
  | .ixorSelf => (clear s, none)
  | .init l => (ofList l, none)

def run (ops : List Op) : OSet := ops.foldl (fun s op => (apply s op).1) empty

end Model.OrderedSet
