import PpciVerif.Model.IRBuild
/-!
# Model.IRText — ppci's textual IR format (C15)

Mirrors, as they are after the `fix:` commits listed in notes/C15.md,

* the printer: `ppci/irutils/writer.py:Writer` + every `__str__`/`__repr__` of `ppci/ir.py`
  that it uses (`printModule`, on characters; `toksModule`, the same text as tokens);
* the tokenizer `ppci/irutils/reader.py:tokenize` (`lexAll`, on characters);
* the recursive-descent `Reader` (`parse`, on tokens), which builds objects through the
  construction layer `Model.IRBuild` shared with the JSON reader.

Modelling decisions
* text = `List Char`, names = `String`.
* `tokenize` works line by line (`rstrip`, empty lines skipped) and a token never spans a
  line; `lexAll` runs over the whole text, treats `'\n'` as white space and forbids it inside
  a quoted string, which gives the same token sequence.  The generator is lazy: a lex fault
  is raised only when the parser pulls the token after the last good one.  `lexAll` therefore
  ends the token list with the sentinel `Tok.fault`, and `next` raises when the sentinel would
  become the look-ahead.
* only ASCII input is modelled (`\d`, `\s` of Python's `re` also match non-ASCII digits and
  blanks): `tokenize` answers `Unsupported` for other text.
* floating point constants: `Const.__str__` prints `str(float)` and the reader calls
  `float(text)`.  Both are *parameters* here (`fmt : bits → text`, `fparse : text → bits`);
  the driver instantiates them with a table supplied by CPython, the theorems assume
  `fparse (fmt b) = some b` and that `fmt b` has the lexical shape of the FLOAT token.
* loops of the reader are structural recursions on a fuel argument (number of tokens + 1).
-/
namespace Model.IRText
open Spec.IR Model.IRBuild

/-! ## tokens -/

inductive Tok
  | id (s : String)
  | int (v : Int)
  | flt (text : String)
  | str (s : String)
  | sym (s : String)      -- "OTHER": the token type is its text
  | eof
  | fault                 -- sentinel: the tokenizer raises here
  deriving DecidableEq, Repr

/-- first component of the Python token tuple -/
def Tok.typ : Tok → String
  | .id _ => "ID" | .int _ => "INT" | .flt _ => "FLOAT" | .str _ => "STRING"
  | .sym s => s | .eof => "eof" | .fault => "fault"

/-! ## tokenizer -/

def isDigit (c : Char) : Bool := c.isDigit
def isIdStart (c : Char) : Bool := c.isAlpha || c == '_'
def isIdChar (c : Char) : Bool := c.isAlphanum || c == '_'
def isWs (c : Char) : Bool :=
  c == ' ' || c == '\n' || c == '\t' || c == '\r' || c == '\x0b' || c == '\x0c'
def isStrChar (c : Char) : Bool := c != '\'' && c != '\n'

inductive LexStep
  | tok (t : Tok) (rest : List Char)
  | skip (rest : List Char)
  | fault
  | done

/-- `e[\-+]?\d+` -/
def lexExp : List Char → Option (List Char × List Char)
  | 'e' :: r =>
    let sr : List Char × List Char :=
      match r with
      | '-' :: t => (['-'], t)
      | '+' :: t => (['+'], t)
      | _ => ([], r)
    let d := sr.2.takeWhile isDigit
    if d.isEmpty then none else some ('e' :: sr.1 ++ d, sr.2.dropWhile isDigit)
  | _ => none

def natVal (ds : List Char) : Nat := Nat.ofDigitChars 10 ds 0

/-- FLOAT `\-?\d+\.\d+(?:e[\-+]?\d+)?|\-?\d+e[\-+]?\d+`, else INT `\-?\d+`;
    `cs` starts with a digit (the sign, if any, has been removed) -/
def lexNumber (neg : Bool) (cs : List Char) : LexStep :=
  let sign : List Char := if neg then ['-'] else []
  let d1 := cs.takeWhile isDigit
  let r1 := cs.dropWhile isDigit
  let asInt : LexStep := .tok (.int (if neg then - (Int.ofNat (natVal d1)) else Int.ofNat (natVal d1))) r1
  match r1 with
  | '.' :: r2 =>
    let d2 := r2.takeWhile isDigit
    let r3 := r2.dropWhile isDigit
    if d2.isEmpty then asInt
    else match lexExp r3 with
      | some (e, r4) => .tok (.flt (String.ofList (sign ++ d1 ++ '.' :: d2 ++ e))) r4
      | none => .tok (.flt (String.ofList (sign ++ d1 ++ '.' :: d2))) r3
  | _ =>
    match lexExp r1 with
    | some (e, r2) => .tok (.flt (String.ofList (sign ++ d1 ++ e))) r2
    | none => asInt

def singles : List Char := [',', ':', ';', '-', '?', '+', '*', '%', '[', ']', '/', '(', ')', '~']

/-- OTHER `[,:;\-\?\+*%\[\]/\(\)~]|<<|>>|!=|==|<=|>=|>|<|=|{|}|&|\^|\|` -/
def lexSym (c : Char) (r : List Char) : Option (String × List Char) :=
  if singles.contains c then some (String.singleton c, r)
  else match c, r with
    | '<', '<' :: r' => some ("<<", r')
    | '>', '>' :: r' => some (">>", r')
    | '!', '=' :: r' => some ("!=", r')
    | '=', '=' :: r' => some ("==", r')
    | '<', '=' :: r' => some ("<=", r')
    | '>', '=' :: r' => some (">=", r')
    | '>', _ => some (">", r)
    | '<', _ => some ("<", r)
    | '=', _ => some ("=", r)
    | '{', _ => some ("{", r)
    | '}', _ => some ("}", r)
    | '&', _ => some ("&", r)
    | '^', _ => some ("^", r)
    | '|', _ => some ("|", r)
    | _, _ => none

/-- one `gettok(line, pos)`: alternatives in the order FLOAT, INT, STRING, ID, SKIP, OTHER -/
def lexOne : List Char → LexStep
  | [] => .done
  | c :: r =>
    if isDigit c then lexNumber false (c :: r)
    else if c == '-' && (match r with | d :: _ => isDigit d | [] => false) then lexNumber true r
    else if c == '\'' then
      match r.dropWhile isStrChar with
      | '\'' :: r' => .tok (.str (String.ofList (r.takeWhile isStrChar))) r'
      | _ => .fault
    else if isIdStart c then .tok (.id (String.ofList (c :: r.takeWhile isIdChar))) (r.dropWhile isIdChar)
    else if isWs c then .skip r
    else match lexSym c r with
      | some (s, r') => .tok (.sym s) r'
      | none => .fault

/-- all tokens of a text, ending in `eof` or in the `fault` sentinel (fuel = length + 1) -/
def lexFuel : Nat → List Char → List Tok
  | 0, _ => [.fault]
  | n + 1, cs =>
    match lexOne cs with
    | .done => [.eof]
    | .fault => [.fault]
    | .skip r => lexFuel n r
    | .tok t r => t :: lexFuel n r

def lexAll (cs : List Char) : List Tok := lexFuel (cs.length + 1) cs

def tokenize (cs : List Char) : Except RErr (List Tok) :=
  if cs.any (fun c => c.toNat ≥ 128) then .error .Unsupported else .ok (lexAll cs)

/-! ## printer (characters) -/

def natChars (n : Nat) : List Char := Nat.toDigits 10 n

def intChars (v : Int) : List Char :=
  match v with
  | .ofNat n => natChars n
  | .negSucc n => '-' :: natChars (n + 1)

/-- `str(ty)` -/
def tyChars : Ty → List Char
  | .int t => t.name.toList
  | .f32 => "f32".toList
  | .f64 => "f64".toList
  | .ptr => "ptr".toList
  | .blob s a => "blob<".toList ++ natChars s ++ ':' :: natChars a ++ ['>']

def commaSep : List (List Char) → List Char
  | [] => []
  | [x] => x
  | x :: r => x ++ ',' :: ' ' :: commaSep r

/-- the key of `pairs.sort()` in `Phi.__str__` -/
def pairLe (p q : String × String) : Bool :=
  p.1 < q.1 || (p.1 == q.1 && (p.2 < q.2 || p.2 == q.2))

def insertPair (p : String × String) : List (String × String) → List (String × String)
  | [] => [p]
  | q :: r => if pairLe p q then p :: q :: r else q :: insertPair p r

def sortPairs : List (String × String) → List (String × String)
  | [] => []
  | p :: r => insertPair p (sortPairs r)

def phiPairs (ins : List (String × Operand)) : List (String × String) :=
  sortPairs (ins.map (fun p => (p.1, opName p.2)))

def binopChars (op : BinOp) : List Char := op.symbol.toList
def unopChars : UnOp → List Char | .neg => ['-'] | .not => ['~']
def condChars (c : Cond) : List Char := c.symbol.toList

/-- binary64 bit pattern of an infinity or a NaN (`not math.isfinite(value)`) -/
def nonFinite (b : Nat) : Bool := (b / 2 ^ 52) % 2048 == 2047

/-- `Const.__str__`: inf / nan are no numeric literals, they are quoted: `float 'inf'` -/
def constChars (fmt : Nat → List Char) : ConstVal → List Char
  | .int v => intChars v
  | .fbits b => if nonFinite b then "float '".toList ++ fmt b ++ ['\''] else fmt b

def opChars (o : Operand) : List Char := (opName o).toList

/-- `str(instruction)` -/
def instrChars (fmt : Nat → List Char) : Instr → List Char
  | .const d ty c => tyChars ty ++ ' ' :: d.toList ++ " = ".toList ++ constChars fmt c
  | .undefined d ty => tyChars ty ++ ' ' :: d.toList ++ " = undefined".toList
  | .literal d data =>
    tyChars (.blob data.length 1) ++ ' ' :: d.toList ++ " = literal '".toList ++ hexlify data ++ ['\'']
  | .alloc d s a =>
    tyChars (.blob s a) ++ ' ' :: d.toList ++ " = alloc ".toList ++ natChars s ++
      " bytes aligned at ".toList ++ natChars a
  | .addrof d s => "ptr ".toList ++ d.toList ++ " = &".toList ++ opChars s
  | .binop d ty op a b =>
    tyChars ty ++ ' ' :: d.toList ++ " = ".toList ++ opChars a ++ ' ' :: binopChars op ++ ' ' :: opChars b
  | .unop d ty op a => tyChars ty ++ ' ' :: d.toList ++ " = ".toList ++ unopChars op ++ ' ' :: opChars a
  | .cast d ty a => tyChars ty ++ ' ' :: d.toList ++ " = cast ".toList ++ opChars a
  | .load d ty a vol =>
    tyChars ty ++ ' ' :: d.toList ++ " = ".toList ++ (if vol then "volatile ".toList else []) ++
      "load ".toList ++ opChars a
  | .store _ v a vol =>
    (if vol then "volatile ".toList else []) ++ "store ".toList ++ opChars v ++ ',' :: ' ' :: opChars a
  | .copyblob d s n =>
    "memcpy(".toList ++ opChars d ++ ',' :: ' ' :: opChars s ++ ',' :: ' ' :: natChars n ++ [')']
  | .phi d ty ins =>
    tyChars ty ++ ' ' :: d.toList ++ " = phi ".toList ++
      commaSep ((phiPairs ins).map (fun p => p.1.toList ++ ':' :: ' ' :: p.2.toList))
  | .fcall d ty c args =>
    tyChars ty ++ ' ' :: d.toList ++ " = call ".toList ++ opChars c ++ '(' :: commaSep (args.map opChars) ++ [')']
  | .pcall c args => "call ".toList ++ opChars c ++ '(' :: commaSep (args.map opChars) ++ [')']
  | .asm tpl _ _ _ => "asm (".toList ++ tpl.toList ++ [')']
  | .jump t => "jmp ".toList ++ t.toList
  | .cjump a c b y n =>
    "cjmp ".toList ++ opChars a ++ ' ' :: condChars c ++ ' ' :: opChars b ++ " ? ".toList ++
      y.toList ++ " : ".toList ++ n.toList
  | .ret v => "return ".toList ++ opChars v
  | .exit => "exit".toList

def bindingChars (g : Bool) : List Char := if g then "global".toList else "local".toList

def blockChars (fmt : Nat → List Char) (b : Block) : List Char :=
  "  ".toList ++ b.name.toList ++ ": {\n".toList ++
    (b.instrs.map (fun i => "    ".toList ++ instrChars fmt i ++ ";\n".toList)).flatten ++
    "  }\n\n".toList

def paramChars (p : String × Ty) : List Char := tyChars p.2 ++ ' ' :: p.1.toList

def funcHeadChars (f : Func) : List Char :=
  bindingChars f.isGlobal ++
    (match f.ret with
     | some t => " function ".toList ++ tyChars t ++ [' ']
     | none => " procedure ".toList) ++
    f.name.toList ++ '(' :: commaSep (f.params.map paramChars) ++ [')']

/-- `Writer.write_function` (preceded by the empty line of `write`) -/
def funcChars (fmt : Nat → List Char) (f : Func) : List Char :=
  '\n' :: funcHeadChars f ++ " {\n".toList ++ (f.blocks.map (blockChars fmt)).flatten ++ "}\n".toList

def initPartChars : InitPart → List Char
  | .bytes bs => '\'' :: hexlify bs ++ ['\'']
  | .ref n => '&' :: n.toList

def varChars (v : GVar) : List Char :=
  '\n' :: bindingChars v.isGlobal ++ " variable ".toList ++ v.name.toList ++ " (".toList ++
    natChars v.size ++ " bytes aligned at ".toList ++ natChars v.align ++ [')'] ++
    (match v.init with
     | none => []
     | some ps => " = ".toList ++ commaSep (ps.map initPartChars)) ++ ['\n']

def externChars (e : Extern) : List Char :=
  '\n' :: "external ".toList ++
    (match e.kind with
     | .var => "variable ".toList ++ e.name.toList
     | .proc ts => "procedure ".toList ++ e.name.toList ++ '(' :: commaSep (ts.map tyChars) ++ [')']
     | .func ts r =>
       "function ".toList ++ tyChars r ++ ' ' :: e.name.toList ++ '(' :: commaSep (ts.map tyChars) ++ [')'])
    ++ ";\n".toList

/-- `print_module(module, file)` -/
def printModule (fmt : Nat → List Char) (m : Module) : List Char :=
  "module ".toList ++ m.name.toList ++ ";\n".toList ++
    (m.externs.map externChars).flatten ++ (m.vars.map varChars).flatten ++
    (m.funcs.map (funcChars fmt)).flatten

/-! ## printer (tokens): what `lexAll (printModule fmt m)` is, stated directly -/

def commaSepT : List (List Tok) → List Tok
  | [] => []
  | [x] => x
  | x :: r => x ++ .sym "," :: commaSepT r

def tyToks : Ty → List Tok
  | .int t => [.id t.name]
  | .f32 => [.id "f32"]
  | .f64 => [.id "f64"]
  | .ptr => [.id "ptr"]
  | .blob s a => [.id "blob", .sym "<", .int s, .sym ":", .int a, .sym ">"]

def opTok (o : Operand) : Tok := .id (opName o)

def constToks (fmt : Nat → List Char) : ConstVal → List Tok
  | .int v => [.int v]
  | .fbits b => if nonFinite b then [.id "float", .str (String.ofList (fmt b))] else [.flt (String.ofList (fmt b))]

def binopTok (op : BinOp) : Tok :=
  match op with
  | .rol => .id "rol"
  | .ror => .id "ror"
  | o => .sym o.symbol

def unopTok : UnOp → Tok | .neg => .sym "-" | .not => .sym "~"

def instrToks (fmt : Nat → List Char) : Instr → List Tok
  | .const d ty c => tyToks ty ++ [.id d, .sym "="] ++ constToks fmt c
  | .undefined d ty => tyToks ty ++ [.id d, .sym "=", .id "undefined"]
  | .literal d data =>
    tyToks (.blob data.length 1) ++ [.id d, .sym "=", .id "literal", .str (String.ofList (hexlify data))]
  | .alloc d s a =>
    tyToks (.blob s a) ++ [.id d, .sym "=", .id "alloc", .int s, .id "bytes", .id "aligned", .id "at", .int a]
  | .addrof d s => [.id "ptr", .id d, .sym "=", .sym "&", opTok s]
  | .binop d ty op a b => tyToks ty ++ [.id d, .sym "=", opTok a, binopTok op, opTok b]
  | .unop d ty op a => tyToks ty ++ [.id d, .sym "=", unopTok op, opTok a]
  | .cast d ty a => tyToks ty ++ [.id d, .sym "=", .id "cast", opTok a]
  | .load d ty a vol =>
    tyToks ty ++ [.id d, .sym "="] ++ (if vol then [.id "volatile"] else []) ++ [.id "load", opTok a]
  | .store _ v a vol =>
    (if vol then [.id "volatile"] else []) ++ [.id "store", opTok v, .sym ",", opTok a]
  | .copyblob d s n => [.id "memcpy", .sym "(", opTok d, .sym ",", opTok s, .sym ",", .int n, .sym ")"]
  | .phi d ty ins =>
    tyToks ty ++ [.id d, .sym "=", .id "phi"] ++
      commaSepT ((phiPairs ins).map (fun p => [.id p.1, .sym ":", .id p.2]))
  | .fcall d ty c args =>
    tyToks ty ++ [.id d, .sym "=", .id "call", opTok c, .sym "("] ++
      commaSepT (args.map (fun a => [opTok a])) ++ [.sym ")"]
  | .pcall c args =>
    [.id "call", opTok c, .sym "("] ++ commaSepT (args.map (fun a => [opTok a])) ++ [.sym ")"]
  | .asm .. => [.fault]     -- free text: not in the fragment of any theorem
  | .jump t => [.id "jmp", .id t]
  | .cjump a c b y n => [.id "cjmp", opTok a, .sym c.symbol, opTok b, .sym "?", .id y, .sym ":", .id n]
  | .ret v => [.id "return", opTok v]
  | .exit => [.id "exit"]

def blockToks (fmt : Nat → List Char) (b : Block) : List Tok :=
  [.id b.name, .sym ":", .sym "{"] ++ (b.instrs.map (fun i => instrToks fmt i ++ [.sym ";"])).flatten ++ [.sym "}"]

def bindingTok (g : Bool) : Tok := if g then .id "global" else .id "local"

def funcToks (fmt : Nat → List Char) (f : Func) : List Tok :=
  [bindingTok f.isGlobal] ++
    (match f.ret with
     | some t => .id "function" :: tyToks t
     | none => [.id "procedure"]) ++
    [.id f.name, .sym "("] ++ commaSepT (f.params.map (fun p => tyToks p.2 ++ [.id p.1])) ++
    [.sym ")", .sym "{"] ++ (f.blocks.map (blockToks fmt)).flatten ++ [.sym "}"]

def initPartToks : InitPart → List Tok
  | .bytes bs => [.str (String.ofList (hexlify bs))]
  | .ref n => [.sym "&", .id n]

def varToks (v : GVar) : List Tok :=
  [bindingTok v.isGlobal, .id "variable", .id v.name, .sym "(", .int v.size, .id "bytes", .id "aligned",
   .id "at", .int v.align, .sym ")"] ++
    (match v.init with
     | none => []
     | some ps => .sym "=" :: commaSepT (ps.map initPartToks))

def externToks (e : Extern) : List Tok :=
  .id "external" ::
    (match e.kind with
     | .var => [.id "variable", .id e.name]
     | .proc ts => [.id "procedure", .id e.name, .sym "("] ++ commaSepT (ts.map tyToks) ++ [.sym ")"]
     | .func ts r =>
       .id "function" :: tyToks r ++ [.id e.name, .sym "("] ++ commaSepT (ts.map tyToks) ++ [.sym ")"])
    ++ [.sym ";"]

def toksModule (fmt : Nat → List Char) (m : Module) : List Tok :=
  [.id "module", .id m.name, .sym ";"] ++ (m.externs.map externToks).flatten ++
    (m.vars.map varToks).flatten ++ (m.funcs.map (funcToks fmt)).flatten ++ [.eof]

/-! ## parser -/

abbrev Toks := List Tok

/-- `self.peek` (the look-ahead; the token list never runs empty: `eof` is sticky) -/
def peek : Toks → Tok
  | [] => .eof
  | t :: _ => t

/-- `next_token()` -/
def next : Toks → Except RErr (Tok × Toks)
  | [] => .ok (.eof, [])
  | .eof :: r => .ok (.eof, .eof :: r)
  | _ :: .fault :: _ => .error .IrParseException
  | t :: r => .ok (t, r)

/-- `prepare_lexing` pulls the first token -/
def start (ts : Toks) : Except RErr Toks :=
  match ts with
  | .fault :: _ => .error .IrParseException
  | _ => .ok ts

/-- `consume(typ)` -/
def consume (typ : String) (ts : Toks) : Except RErr (Tok × Toks) :=
  if (peek ts).typ = typ then next ts else .error .IrParseException

def expectSym (s : String) (ts : Toks) : Except RErr Toks := do
  let (_, r) ← consume s ts
  pure r

/-- `parse_id()` -/
def parseId (ts : Toks) : Except RErr (String × Toks) := do
  let (t, r) ← consume "ID" ts
  match t with
  | .id s => pure (s, r)
  | _ => .error .IrParseException

def atKeyword (k : String) (ts : Toks) : Bool :=
  match peek ts with
  | .id s => s = k
  | _ => false

/-- `consume_keyword(k)` -/
def consumeKeyword (k : String) (ts : Toks) : Except RErr Toks := do
  let (s, r) ← parseId ts
  if s = k then pure r else .error .IrParseException

/-- `parse_integer()` -/
def parseInteger (ts : Toks) : Except RErr (Int × Toks) := do
  let (t, r) ← consume "INT" ts
  match t with
  | .int v => pure (v, r)
  | _ => .error .IrParseException

def parseNat (ts : Toks) : Except RErr (Nat × Toks) := do
  let (v, r) ← parseInteger ts
  if v < 0 then .error .Unsupported else pure (v.toNat, r)

def basicTy (name : String) : Option Ty :=
  if name = "f64" then some .f64 else if name = "f32" then some .f32 else if name = "ptr" then some .ptr
  else (Spec.IRArith.Ty.all.find? (fun t => t.name = name)).map .int

/-- `parse_type()` -/
def parseType (ts : Toks) : Except RErr (Ty × Toks) :=
  if atKeyword "blob" ts then do
    let r ← consumeKeyword "blob" ts
    let r ← expectSym "<" r
    let (s, r) ← parseNat r
    let r ← expectSym ":" r
    let (a, r) ← parseNat r
    let r ← expectSym ">" r
    pure (.blob s a, r)
  else do
    let (n, r) ← parseId ts
    match basicTy n with
    | some t => pure (t, r)
    | none => .error .KeyError

/-- the `while self.peek == ","` tails of `parse_braced_types` -/
def parseTypesTail : Nat → Toks → Except RErr (List Ty × Toks)
  | 0, _ => .error .FuelExhausted
  | n + 1, ts =>
    if (peek ts).typ = "," then do
      let r ← expectSym "," ts
      let (t, r) ← parseType r
      let (tl, r) ← parseTypesTail n r
      pure (t :: tl, r)
    else pure ([], ts)

/-- `parse_braced_types()` -/
def parseBracedTypes (fuel : Nat) (ts : Toks) : Except RErr (List Ty × Toks) := do
  let r ← expectSym "(" ts
  if (peek r).typ ≠ ")" then do
    let (t, r) ← parseType r
    let (tl, r) ← parseTypesTail fuel r
    let r ← expectSym ")" r
    pure (t :: tl, r)
  else do
    let r ← expectSym ")" r
    pure ([], r)

def parseArgsTail : Nat → Toks → Except RErr (List Operand × Toks)
  | 0, _ => .error .FuelExhausted
  | n + 1, ts =>
    if (peek ts).typ = "," then do
      let r ← expectSym "," ts
      let (a, r) ← parseId r
      let (tl, r) ← parseArgsTail n r
      pure (.glob a :: tl, r)
    else pure ([], ts)

/-- `parse_function_arguments()` (names only; they are looked up by `IRBuild.build`) -/
def parseArgs (fuel : Nat) (ts : Toks) : Except RErr (List Operand × Toks) := do
  let r ← expectSym "(" ts
  if (peek r).typ ≠ ")" then do
    let (a, r) ← parseId r
    let (tl, r) ← parseArgsTail fuel r
    let r ← expectSym ")" r
    pure (.glob a :: tl, r)
  else do
    let r ← expectSym ")" r
    pure ([], r)

/-- `while self.peek == "ID"` loop of the phi branch -/
def parsePhiIns : Nat → Toks → Except RErr (List (String × Operand) × Toks)
  | 0, _ => .error .FuelExhausted
  | n + 1, ts =>
    if (peek ts).typ = "ID" then do
      let (b, r) ← parseId ts
      let r ← expectSym ":" r
      let (v, r) ← parseId r
      if (peek r).typ ≠ "," then pure ([(b, .glob v)], r)
      else do
        let r ← expectSym "," r
        let (tl, r) ← parsePhiIns n r
        pure ((b, .glob v) :: tl, r)
    else pure ([], ts)

def symBinop (s : String) : Option BinOp :=
  [BinOp.add, .sub, .mul, .div, .rem, .or, .and, .xor, .shl, .shr].find? (fun o => o.symbol = s)

def symCond (s : String) : Option Cond := Cond.all.find? (fun c => c.symbol = s)

/-- the look-ahead of `parse_assignment` for an operator spelled as a word:
    `(at_keyword("rol") or at_keyword("ror")) and peek_second() == "ID"`; fetching the second token raises at a
    lex fault -/
inductive WordAhead | yes | no | fault

def wordAhead (r : Toks) : WordAhead :=
  if atKeyword "rol" r || atKeyword "ror" r then
    match r with
    | _ :: .id _ :: _ => .yes
    | _ :: .fault :: _ => .fault
    | _ => .no
  else .no

/-- `parse_assignment()` up to (not including) `define_value` and the `;`: the raw instruction -/
def parseAssignment (fparse : String → Option Nat) (fuel : Nat) (ts : Toks) : Except RErr (Instr × Toks) := do
  let (ty, r) ← parseType ts
  let (name, r) ← parseId r
  let r ← expectSym "=" r
  match peek r with
  | .id _ => do
    let (a, r) ← parseId r
    match (match peek r with | .sym s => symBinop s | _ => none) with
    | some op => do
      let (_, r) ← next r
      let (b, r) ← parseId r
      pure (.binop name ty op (.glob a) (.glob b), r)
    | none =>
      match wordAhead r with
      | .fault => .error .IrParseException
      | .yes => do
        let (o, r) ← parseId r
        let (b, r) ← parseId r
        pure (.binop name ty (if o = "rol" then .rol else .ror) (.glob a) (.glob b), r)
      | .no =>
      if a = "phi" then do
        let (ins, r) ← parsePhiIns fuel r
        pure (.phi name ty ins, r)
      else if a = "alloc" then do
        let (s, r) ← parseNat r
        let r ← consumeKeyword "bytes" r
        let r ← consumeKeyword "aligned" r
        let r ← consumeKeyword "at" r
        let (al, r) ← parseNat r
        pure (.alloc name s al, r)
      else if a = "load" then do
        let (x, r) ← parseId r
        pure (.load name ty (.glob x) false, r)
      else if a = "cast" then do
        let (x, r) ← parseId r
        pure (.cast name ty (.glob x), r)
      else if a = "call" then do
        let (c, r) ← parseId r
        let (args, r) ← parseArgs fuel r
        pure (.fcall name ty (.glob c) args, r)
      else if a = "literal" then do
        let (t, r) ← consume "STRING" r
        match t with
        | .str s =>
          match unhexlify s.toList with
          | .ok data => pure (.literal name data, r)
          | .error e => .error e
        | _ => .error .IrParseException
      else if a = "volatile" then do
        let r ← consumeKeyword "load" r
        let (x, r) ← parseId r
        pure (.load name ty (.glob x) true, r)
      else if a = "undefined" then pure (.undefined name ty, r)
      else if a = "float" then do
        let (t, r) ← consume "STRING" r
        match t with
        | .str s =>
          match fparse s with
          | some b => pure (.const name ty (.fbits b), r)
          | none => .error .Unsupported
        | _ => .error .IrParseException
      else .error .NotImplementedError
  | .int v => do
    let (_, r) ← next r
    pure (.const name ty (.int v), r)
  | .flt s => do
    let (_, r) ← next r
    match fparse s with
    | some b => pure (.const name ty (.fbits b), r)
    | none => .error .Unsupported
  | .sym "&" => do
    let r ← expectSym "&" r
    let (x, r) ← parseId r
    -- `assert ty is ir.ptr` comes after the look-up of `x`; a look-up never fails
    if ty ≠ .ptr then .error .AssertionError else pure (.addrof name (.glob x), r)
  | .sym "-" => do
    let (_, r) ← next r
    let (x, r) ← parseId r
    pure (.unop name ty .neg (.glob x), r)
  | .sym "~" => do
    let (_, r) ← next r
    let (x, r) ← parseId r
    pure (.unop name ty .not (.glob x), r)
  | _ => .error .NotImplementedError

/-- `parse_statement()` up to the construction of the instruction -/
def parseStatementCore (fparse : String → Option Nat) (fuel : Nat) (ts : Toks) : Except RErr (Instr × Toks) :=
  if atKeyword "jmp" ts then do
    let r ← consumeKeyword "jmp" ts
    let (l, r) ← parseId r
    pure (.jump l, r)
  else if atKeyword "cjmp" ts then do
    let r ← consumeKeyword "cjmp" ts
    let (a, r) ← parseId r
    let (op, r) ← next r            -- `self.consume(self.peek)[0]`: any token
    let (b, r) ← parseId r
    let r ← expectSym "?" r
    let (y, r) ← parseId r
    let r ← expectSym ":" r
    let (n, r) ← parseId r
    match symCond op.typ with
    | some c => pure (.cjump (.glob a) c (.glob b) y n, r)
    | none => .error .ValueError
  else if atKeyword "return" ts then do
    let r ← consumeKeyword "return" ts
    let (v, r) ← parseId r
    pure (.ret (.glob v), r)
  else if atKeyword "store" ts then do
    let r ← consumeKeyword "store" ts
    let (v, r) ← parseId r
    let r ← expectSym "," r
    let (a, r) ← parseId r
    pure (.store .ptr (.glob v) (.glob a) false, r)
  else if atKeyword "volatile" ts then do
    let r ← consumeKeyword "volatile" ts
    let r ← consumeKeyword "store" r
    let (v, r) ← parseId r
    let r ← expectSym "," r
    let (a, r) ← parseId r
    pure (.store .ptr (.glob v) (.glob a) true, r)
  else if atKeyword "memcpy" ts then do
    let r ← consumeKeyword "memcpy" ts
    let r ← expectSym "(" r
    let (d, r) ← parseId r
    let r ← expectSym "," r
    let (s, r) ← parseId r
    let r ← expectSym "," r
    let (n, r) ← parseNat r
    let r ← expectSym ")" r
    pure (.copyblob (.glob d) (.glob s) n, r)
  else if atKeyword "exit" ts then do
    let r ← consumeKeyword "exit" ts
    pure (.exit, r)
  else if atKeyword "call" ts then do
    let r ← consumeKeyword "call" ts
    let (c, r) ← parseId r
    let (args, r) ← parseArgs fuel r
    pure (.pcall (.glob c) args, r)
  else parseAssignment fparse fuel ts

/-- `parse_statement()` followed by `block.add_instruction(ins)` -/
def parseStatement (fparse : String → Option Nat) (fuel : Nat) (st : BState) (ts : Toks) :
    Except RErr (BState × Toks) := do
  let (raw, r) ← parseStatementCore fparse fuel ts
  let (st1, i) ← feed st raw
  let r ← expectSym ";" r
  let st2 ← append st1 i
  pure (st2, r)

/-- `while self.peek != "}"` of `parse_block` -/
def parseStmts (fparse : String → Option Nat) (fuel : Nat) : Nat → BState → Toks → Except RErr (BState × Toks)
  | 0, _, _ => .error .FuelExhausted
  | n + 1, st, ts =>
    if (peek ts).typ = "}" then pure (st, ts)
    else do
      let (st1, r) ← parseStatement fparse fuel st ts
      parseStmts fparse fuel n st1 r

/-- `parse_block(function)` -/
def parseBlock (fparse : String → Option Nat) (fuel : Nat) (st : BState) (ts : Toks) :
    Except RErr (BState × Toks) := do
  let (name, r) ← parseId ts
  let st1 ← beginBlockText st name
  let r ← expectSym ":" r
  let r ← expectSym "{" r
  let (st2, r) ← parseStmts fparse fuel fuel st1 r
  let r ← expectSym "}" r
  pure (endBlockText st2, r)

def parseBlocks (fparse : String → Option Nat) (fuel : Nat) : Nat → BState → Toks → Except RErr (BState × Toks)
  | 0, _, _ => .error .FuelExhausted
  | n + 1, st, ts =>
    if (peek ts).typ = "}" then pure (st, ts)
    else do
      let (st1, r) ← parseBlock fparse fuel st ts
      parseBlocks fparse fuel n st1 r

/-- parameter loop of `parse_function` -/
def parseParams : Nat → BState → Toks → Except RErr (BState × List (String × Ty) × Toks)
  | 0, _, _ => .error .FuelExhausted
  | n + 1, st, ts =>
    if (peek ts).typ = ")" then pure (st, [], ts)
    else do
      let (ty, r) ← parseType ts
      let (name, r) ← parseId r
      let st1 ← defineLocal st name ty
      if (peek r).typ ≠ "," then pure (st1, [(name, ty)], r)
      else do
        let r ← expectSym "," r
        let (st2, ps, r) ← parseParams n st1 r
        pure (st2, (name, ty) :: ps, r)

/-- `parse_function(binding)` -/
def parseFunction (fparse : String → Option Nat) (fuel : Nat) (isGlobal : Bool) (st : BState) (ts : Toks) :
    Except RErr (BState × Toks) := do
  let (ret, name, r) ←
    (if atKeyword "function" ts then do
      let r ← consumeKeyword "function" ts
      let (t, r) ← parseType r
      let (n, r) ← parseId r
      pure (some t, n, r)
    else do
      let r ← consumeKeyword "procedure" ts
      let (n, r) ← parseId r
      pure (none, n, r) : Except RErr (Option Ty × String × Toks))
  let st1 ← defineGlobal st name
  let st2 := beginFunc st1
  let r ← expectSym "(" r
  let (st3, params, r) ← parseParams fuel st2 r
  let r ← expectSym ")" r
  let r ← expectSym "{" r
  let (st4, r) ← parseBlocks fparse fuel fuel st3 r
  let r ← expectSym "}" r
  let st5 ← endFunc st4 name isGlobal ret params
  pure (st5, r)

/-- initial value of a variable: `while self.peek in ["STRING", "&"]` -/
def parseInitParts : Nat → Toks → Except RErr (List InitPart × Toks)
  | 0, _ => .error .FuelExhausted
  | n + 1, ts =>
    match peek ts with
    | .sym "&" => do
      let r ← expectSym "&" ts
      let (x, r) ← parseId r
      if (peek r).typ ≠ "," then pure ([.ref x], r)
      else do
        let r ← expectSym "," r
        let (tl, r) ← parseInitParts n r
        pure (.ref x :: tl, r)
    | .str s => do
      let (_, r) ← next ts
      match unhexlify s.toList with
      | .error e => .error e
      | .ok data =>
        if (peek r).typ ≠ "," then pure ([.bytes data], r)
        else do
          let r ← expectSym "," r
          let (tl, r) ← parseInitParts n r
          pure (.bytes data :: tl, r)
    | _ => pure ([], ts)

/-- `parse_variable(binding)` -/
def parseVariable (fuel : Nat) (isGlobal : Bool) (st : BState) (ts : Toks) :
    Except RErr (BState × GVar × Toks) := do
  let r ← consumeKeyword "variable" ts
  let (name, r) ← parseId r
  let r ← expectSym "(" r
  let (amount, r) ← parseNat r
  let r ← consumeKeyword "bytes" r
  let r ← consumeKeyword "aligned" r
  let r ← consumeKeyword "at" r
  let (al, r) ← parseNat r
  let r ← expectSym ")" r
  let (init, r) ←
    (if (peek r).typ = "=" then do
      let r ← expectSym "=" r
      let (ps, r) ← parseInitParts fuel r
      pure (some ps, r)
    else pure (none, r) : Except RErr (Option (List InitPart) × Toks))
  let st1 ← defineGlobal st name
  pure (st1, { name := name, isGlobal := isGlobal, size := amount, align := al, init := init }, r)

/-- `parse_external(module)` -/
def parseExternal (fuel : Nat) (st : BState) (ts : Toks) : Except RErr (BState × Extern × Toks) := do
  let r ← consumeKeyword "external" ts
  let (e, r) ←
    (if atKeyword "function" r then do
      let r ← consumeKeyword "function" r
      let (rt, r) ← parseType r
      let (n, r) ← parseId r
      let (ts', r) ← parseBracedTypes fuel r
      pure ({ name := n, kind := .func ts' rt }, r)
    else if atKeyword "procedure" r then do
      let r ← consumeKeyword "procedure" r
      let (n, r) ← parseId r
      let (ts', r) ← parseBracedTypes fuel r
      pure ({ name := n, kind := .proc ts' }, r)
    else if atKeyword "variable" r then do
      let r ← consumeKeyword "variable" r
      let (n, r) ← parseId r
      pure ({ name := n, kind := .var }, r)
    else .error .NotImplementedError : Except RErr (Extern × Toks))
  let r ← expectSym ";" r
  let st1 ← defineGlobal st e.name
  pure (st1, e, r)

structure MAcc where
  st : BState := {}
  externs : List Extern := []
  vars : List GVar := []

/-- `while self.peek != "eof"` of `parse_module` -/
def parseDecls (fparse : String → Option Nat) (fuel : Nat) : Nat → MAcc → Toks → Except RErr (MAcc × Toks)
  | 0, _, _ => .error .FuelExhausted
  | n + 1, acc, ts =>
    if (peek ts).typ = "eof" then pure (acc, ts)
    else if atKeyword "external" ts then do
      let (st1, e, r) ← parseExternal fuel acc.st ts
      parseDecls fparse fuel n { acc with st := st1, externs := acc.externs ++ [e] } r
    else do
      -- parse_declaration
      let (isGlobal, r) ←
        (if atKeyword "local" ts then do
          let r ← consumeKeyword "local" ts
          pure (false, r)
        else do
          let r ← consumeKeyword "global" ts
          pure (true, r) : Except RErr (Bool × Toks))
      if atKeyword "variable" r then do
        let (st1, v, r) ← parseVariable fuel isGlobal acc.st r
        parseDecls fparse fuel n { acc with st := st1, vars := acc.vars ++ [v] } r
      else if atKeyword "function" r || atKeyword "procedure" r then do
        let (st1, r) ← parseFunction fparse fuel isGlobal acc.st r
        parseDecls fparse fuel n { acc with st := st1 } r
      else .error .IrParseException

/-- `Reader.read` on the token sequence -/
def parseToks (fparse : String → Option Nat) (ts : Toks) : Except RErr Module := do
  let fuel := ts.length + 1
  let ts ← start ts
  let r ← consumeKeyword "module" ts
  let (name, r) ← parseId r
  let r ← expectSym ";" r
  let (acc, _) ← parseDecls fparse fuel fuel {} r
  let fs ← finishFuncs acc.st
  pure { name := name, externs := acc.externs, vars := acc.vars, funcs := fs }

/-- `read_module(f)` -/
def readModule (fparse : String → Option Nat) (cs : List Char) : Except RErr Module := do
  let ts ← tokenize cs
  parseToks fparse ts

end Model.IRText
