/-
`Model.CAssign` — hand model (import-free) of the ORDER and MULTIPLICITY in which
`CCodeGenerator` (ppci/lang/c/codegenerator.py) emits the memory accesses and calls of
assignment expressions:

  gen_binop, `=`  :  lhs = gen_expr(a, rvalue=False); rhs = gen_expr(b, rvalue=True); store(rhs, lhs)
  gen_binop, `op=`:  lhs = gen_expr(a, rvalue=False); rhs = gen_expr(b, rvalue=True);
                     loaded = _load_value(lhs); value = binop(loaded, op, rhs); store(value, lhs)
  gen_inplace_mutation (`++ --`, pre and post):
                     ir_a = gen_expr(a, rvalue=False); loaded = _load_value(ir_a); changed = binop; store(changed, ir_a)
  gen_expr(rvalue=True) of an lvalue expression: its address code, then a load
  gen_array_index / gen_unop `*` / gen_field_select: the address code is the rvalue code of the index / pointer
  gen_call: argument code, then the call;  comma: left code, then right code

Only the *events* are kept: loads and stores of local variable slots, loads and stores
through computed addresses, calls.  Pure instructions (constants, arithmetic, casts,
address arithmetic) are dropped.  `Props.C01.assignment_effects_once` shows that every call
and every `++ --` written in the source is emitted exactly once and every assignment stores
exactly once; harness/c01.py compares `events` verbatim with the event sequence of the REAL
emitted function for every assignment operator on every lvalue form.
-/
namespace Model.CAssign

inductive Ev
  | loadVar (v : Nat) | storeVar (v : Nat) | loadMem | storeMem | call (f : Nat)
  deriving DecidableEq, Repr

def Ev.show : Ev → String
  | .loadVar v => s!"ld{v}" | .storeVar v => s!"st{v}" | .loadMem => "ld*" | .storeMem => "st*" | .call f => s!"call{f}"

mutual
  /-- expressions used for their value -/
  inductive RExp
    | const                                        -- a constant, or any event-free operand
    | call (f : Nat) (arg : RExp)                  -- `f(arg)`
    | bin (a b : RExp)                             -- a binary operator without control flow
    | lval (l : LExp)                              -- the value of an lvalue
    | assign (l : LExp) (r : RExp)                 -- `l = r`
    | compound (l : LExp) (r : RExp)               -- `l op= r`
    | incdec (l : LExp)                            -- `l++ l-- ++l --l`
    | comma (a b : RExp)                           -- `a, b`
  /-- designations -/
  inductive LExp
    | var (v : Nat)                                -- a local variable / parameter (stack slot)
    | index (i : RExp)                             -- `g[i]` for a global array `g`
    | deref (p : RExp)                             -- `*p`
    | member (p : RExp)                            -- `p->f`
end

def loadOf : LExp → Ev
  | .var v => .loadVar v
  | _ => .loadMem

def storeOf : LExp → Ev
  | .var v => .storeVar v
  | _ => .storeMem

mutual
  /-- events of `gen_expr(e, rvalue=True)` -/
  def events : RExp → List Ev
    | .const => []
    | .call f a => events a ++ [.call f]
    | .bin a b => events a ++ events b
    | .lval l => addr l ++ [loadOf l]
    | .assign l r => addr l ++ events r ++ [storeOf l]
    | .compound l r => addr l ++ events r ++ [loadOf l, storeOf l]
    | .incdec l => addr l ++ [loadOf l, storeOf l]
    | .comma a b => events a ++ events b
  /-- events of `gen_expr(l, rvalue=False)` (the address code) -/
  def addr : LExp → List Ev
    | .var _ => []
    | .index i => events i
    | .deref p => events p
    | .member p => events p
end

/-! ### what is written in the source -/

mutual
  /-- number of calls of `f` written in the expression -/
  def callsIn (f : Nat) : RExp → Nat
    | .const => 0
    | .call g a => callsIn f a + (if g = f then 1 else 0)
    | .bin a b => callsIn f a + callsIn f b
    | .lval l => callsInL f l
    | .assign l r => callsInL f l + callsIn f r
    | .compound l r => callsInL f l + callsIn f r
    | .incdec l => callsInL f l
    | .comma a b => callsIn f a + callsIn f b
  def callsInL (f : Nat) : LExp → Nat
    | .var _ => 0
    | .index i => callsIn f i
    | .deref p => callsIn f p
    | .member p => callsIn f p
end

mutual
  /-- number of assignments and `++ --` written in the expression -/
  def writesIn : RExp → Nat
    | .const => 0
    | .call _ a => writesIn a
    | .bin a b => writesIn a + writesIn b
    | .lval l => writesInL l
    | .assign l r => writesInL l + writesIn r + 1
    | .compound l r => writesInL l + writesIn r + 1
    | .incdec l => writesInL l + 1
    | .comma a b => writesIn a + writesIn b
  def writesInL : LExp → Nat
    | .var _ => 0
    | .index i => writesIn i
    | .deref p => writesIn p
    | .member p => writesIn p
end

def Ev.isStore : Ev → Bool
  | .storeVar _ | .storeMem => true
  | _ => false

/-! ### the seeded variant: the old value of `l op= r` obtained by generating `l` a second time -/

mutual
  def eventsTwice : RExp → List Ev
    | .const => []
    | .call f a => eventsTwice a ++ [.call f]
    | .bin a b => eventsTwice a ++ eventsTwice b
    | .lval l => addrTwice l ++ [loadOf l]
    | .assign l r => addrTwice l ++ eventsTwice r ++ [storeOf l]
    | .compound l r => addrTwice l ++ eventsTwice r ++ (addrTwice l ++ [loadOf l]) ++ [storeOf l]
    | .incdec l => addrTwice l ++ [loadOf l, storeOf l]
    | .comma a b => eventsTwice a ++ eventsTwice b
  def addrTwice : LExp → List Ev
    | .var _ => []
    | .index i => eventsTwice i
    | .deref p => eventsTwice p
    | .member p => eventsTwice p
end

def showEvents (es : List Ev) : String := " ".intercalate (es.map Ev.show)

end Model.CAssign
