import PpciVerif.Model.Tasks
/-
Model of ppci/build/tasks.py AS IT WAS before the `fix:` commit recorded in
findings/C34.json (kept only to state the negation witnesses in Props/C34.lean;
the current code is modelled in Model/Tasks.lean).

    def dfs(self, target_name, state):          # `state` is shared by the whole walk
        state.add(target_name)                  # … and nothing is ever removed from it
        target = self.get_target(target_name)
        for dep in target.dependencies:         # a set: iteration order = hash order
            if dep in state:
                raise TaskError("Dependency loop detected …")
            self.dfs(dep, state)

    def check_target(self, target_name):
        state = set()
        self.dfs(target_name, state)

    TaskRunner.run:  for t in targets: project.check_target(t)
                     names = set.union(*[project.dependencies(t) for t in targets]).union(set(targets))
                     target_list = [project.get_target(n) for n in names]     # set iteration order
                     target_list.sort()       # Target defines only __gt__:  a < b  ⇔  b.__gt__(a)  ⇔  a ∈ dependencies(b)

Iteration orders of Python sets are inputs of this model (the order of a
dependency list in the `Graph`, the explicit `iter` argument of `order`).
Recursion uses explicit fuel (`Err'.fuel` when it runs out).
`pySort` is CPython 3.12's `list.sort()` for fewer than 64 elements: `count_run`
(+ reversal of a strictly descending run) followed by binary insertion.
-/
namespace Model.TasksLegacy
open Model.Tasks (Graph)

inductive Err' | loop | notFound | fuel
  deriving Repr, DecidableEq

def Err'.name : Err' → String
  | .loop => "TaskError:loop" | .notFound => "TaskError:notfound" | .fuel => "fuel"

/-- the `for dep in target.dependencies` loop of the old `dfs` with the recursive
    call inlined; returns the shared `state` -/
def dfsLoop (fuel : Nat) (g : Graph) (ds state : List Nat) : Except Err' (List Nat) :=
  match fuel with
  | 0 => .error .fuel
  | fuel + 1 =>
    match ds with
    | [] => .ok state
    | d :: rest =>
      if d ∈ state then .error .loop
      else match g.lookup d with
        | none => .error .notFound
        | some ds' =>
          match dfsLoop fuel g ds' (d :: state) with
          | .error e => .error e
          | .ok state1 => dfsLoop fuel g rest state1        -- `state` keeps everything seen so far

def checkTarget (fuel : Nat) (g : Graph) (t : Nat) : Except Err' Unit :=
  match g.lookup t with
  | none => .error .notFound
  | some ds => (dfsLoop fuel g ds [t]).map (fun _ => ())

/-- `Project.dependencies(t)`: all transitive dependencies (as a list, order irrelevant) -/
def dependencies (fuel : Nat) (g : Graph) (t : Nat) : List Nat :=
  match fuel with
  | 0 => []
  | fuel + 1 =>
    match g.lookup t with
    | none => []
    | some ds => ds ++ (ds.map (dependencies fuel g)).flatten

/-! ### CPython `list.sort()` for n < 64 with a user supplied `<` -/

def ascLen (lt : Nat → Nat → Bool) (prev : Nat) : List Nat → Nat
  | [] => 0
  | x :: xs => if lt x prev then 0 else 1 + ascLen lt x xs

def descLen (lt : Nat → Nat → Bool) (prev : Nat) : List Nat → Nat
  | [] => 0
  | x :: xs => if lt x prev then 1 + descLen lt x xs else 0

/-- `count_run`: length of the initial run and whether it is strictly descending -/
def countRun (lt : Nat → Nat → Bool) : List Nat → Nat × Bool
  | [] => (0, false)
  | [_] => (1, false)
  | a :: b :: rest => if lt b a then (2 + descLen lt b rest, true) else (2 + ascLen lt b rest, false)

/-- the bisection of `binarysort`: `l = lo; r = start; do { p = l + ((r-l)>>1); if pivot < *p: r = p else l = p+1 } while l < r` -/
def bisect (lt : Nat → Nat → Bool) (pre : List Nat) (pivot : Nat) (fuel l r : Nat) : Nat :=
  match fuel with
  | 0 => l
  | fuel + 1 =>
    if l < r then
      let p := l + (r - l) / 2
      if lt pivot (pre.getD p 0) then bisect lt pre pivot fuel l p else bisect lt pre pivot fuel (p + 1) r
    else l

def binarySort (lt : Nat → Nat → Bool) (pre rest : List Nat) : List Nat :=
  rest.foldl (fun pre pivot =>
    let l := bisect lt pre pivot (pre.length + 1) 0 pre.length
    pre.take l ++ pivot :: pre.drop l) pre

def pySort (lt : Nat → Nat → Bool) (xs : List Nat) : List Nat :=
  let (n, desc) := countRun lt xs
  let run := if desc then (xs.take n).reverse else xs.take n
  binarySort lt run (xs.drop n)

/-- `Target.__gt__` read as `<`:  `a < b  ⇔  a.name in project.dependencies(b.name)` -/
def lt (fuel : Nat) (g : Graph) (a b : Nat) : Bool := (dependencies fuel g b).contains a

/-- old `TaskRunner.run`: `iter` is the order in which the set of needed names happens to be iterated -/
def order (fuel : Nat) (g : Graph) (req iter : List Nat) : Except Err' (List Nat) :=
  match req.mapM (checkTarget fuel g) with
  | .error e => .error e
  | .ok _ => .ok (pySort (lt fuel g) iter)

end Model.TasksLegacy
