import PpciVerif.Spec.CInt
import PpciVerif.Model.CEval
/-!
Concrete-syntax bridge between the specification's expression trees and what
ppci's parser hands to its semantics (no Mathlib; used by the C27/C28 drivers and
by the theorems).  `render` states how a `Spec.CInt.Expr` is *written* in C and
read back by ppci's lexer/parser:

* an integer constant is printed in decimal, or in hexadecimal with `0x`, with its
  suffix; `utils.cnum` returns the value and the specifier list of the suffix;
  `not text.startswith("0")` holds exactly for a decimal constant other than `0`;
* a character constant is one (possibly escaped) character with that code;
* operators are printed with their C spelling, fully parenthesised;
* a cast prints the type name; `RootScope.atomic_types` maps it to a `BasicType`
  (`signed char` and `char` are the same `BasicType.CHAR`; checked against the dump
  `Gen.CEval.typeNames` in `Props.C27.tables_match_source`).
The harness renders the same trees to text with `render_c` (harness/c27.py) and the
correspondence run compares the real front-end with `Model.CEval` on them.
-/
namespace Model.CSyntax
open Spec.CInt (Expr Base Suffix UnOp BinOp)

def ofSpecTy : Spec.CInt.Ty → Model.CEval.Ty
  | .char | .schar => .char | .uchar => .uchar | .short => .short | .ushort => .ushort
  | .int => .int | .uint => .uint | .long => .long | .ulong => .ulong
  | .llong => .llong | .ullong => .ullong

def Suffix.isUnsigned : Suffix → Bool
  | .u | .ul | .ull => true
  | _ => false

def Suffix.longs : Suffix → Nat
  | .none | .u => 0
  | .l | .ul => 1
  | .ll | .ull => 2

def unSym : UnOp → Model.CEval.Sym
  | .neg => .minus | .bnot => .tilde | .lnot => .bang | .plus => .plus

def binSym : BinOp → Model.CEval.Sym
  | .add => .plus | .sub => .minus | .mul => .star | .div => .slash | .mod => .percent
  | .shl => .shl | .shr => .shr | .band => .amp | .bor => .bar | .bxor => .caret
  | .lt => .lt | .gt => .gt | .le => .le | .ge => .ge | .eq => .eqeq | .ne => .ne
  | .land => .andand | .lor => .oror

def render : Expr → Model.CEval.Src
  | .lit b s v => .num (decide (b = .dec) && decide (v ≠ 0)) (Suffix.isUnsigned s) (Suffix.longs s) v
  | .chr v => .chr v
  | .un op a => .un (unSym op) (render a)
  | .bin op a b => .bin (binSym op) (render a) (render b)
  | .cond c a b => .tern (render c) (render a) (render b)
  | .cast τ a => .cast (ofSpecTy τ) (render a)

end Model.CSyntax
