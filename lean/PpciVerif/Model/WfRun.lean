import PpciVerif.Spec.IRRun
import PpciVerif.Model.Opt
/-! Line-protocol engine of `Drivers/C03.lean` (kept in the library so that the driver file elaborates instantly).

All operations of `Spec.IRRun` on the current module (`load <sexpr>`, `wf`, `show`, `roundtrip`, `run …`), i.e.
in particular

  wf                   `Spec.IR.wfModule` of the current module: `ok 1`, or `ok 0 <func>:<check>,…;…` naming the
                       violated clauses (`Proofs.IRWF.wfFunc_iff`: acceptance ⇔ declarative `Spec.IRWF.WF`)

plus

  pass <name>          the pass model `Model.Opt.passByName name` applied to every function of the current module
                       -> ok <sexpr of the result> | err <PythonExceptionName> | bad-op      (current module unchanged)
  passwf <name>        the same, answering only whether the result is well-formed: ok 1 | ok 0 … | err <Name>
-/
namespace Model.WfRun
open Proto Spec.IR Spec.IRParse

def step (st : Spec.IRRun.St) (line : String) : Spec.IRRun.St × String :=
  let l := line.trimAscii.toString
  match words l, st.mod with
  | ["pass", name], some m =>
    match Model.Opt.passByName name with
    | none => (st, "bad-op")
    | some p =>
      match Model.Opt.runPass p m with
      | .ok m' => (st, "ok " ++ showModule m')
      | .error e => (st, "err " ++ e)
  | ["passwf", name], some m =>
    match Model.Opt.passByName name with
    | none => (st, "bad-op")
    | some p =>
      match Model.Opt.runPass p m with
      | .ok m' => (st, Spec.IRRun.wfReply m')
      | .error e => (st, "err " ++ e)
  | _, _ => Spec.IRRun.step' st line

end Model.WfRun
