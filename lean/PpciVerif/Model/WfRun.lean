import PpciVerif.Spec.IRRun
import PpciVerif.Model.Opt
/-! Line-protocol engine of `Drivers/C03.lean` (kept in the library so that the driver file elaborates instantly).

All operations of `Spec.IRRun` on the current module (`load <sexpr>`, `wf`, `show`, `roundtrip`, `run …`), i.e.
in particular

  wf                   `Spec.IR.wfModule` of the current module: `ok 1`, or `ok 0 <func>:<check>,…;…` naming the
                       violated clauses (`Proofs.IRWF.wfFunc_iff`: acceptance ⇔ declarative `Spec.IRWF.WF`)

plus

  pass <name>          the pass model `Model.Opt.passByName name` applied to every function of the current module
                       -> ok <sexpr of the result> | err <PythonExceptionName> | bad-op      (current module unchanged)
  passwf <name>        the same, answering only whether the result is well-formed: ok 1 | ok 0 … | err <Name>
  wfx                  verdict exactly as `wf` (`ok 1` iff `wfModule`); a rejected module is described in more
                       detail: `operand-types[<kind>+<kind>…]` lists the kinds of the ill-typed instructions
                       (`binop`, `phi`, …; for calls `call-callee-type` / `call-arg-untyped` / `call-signature`),
                       so that distinct defects of one pass get distinct signatures (diagnostic only)
-/
namespace Model.WfRun
open Proto Spec.IR Spec.IRParse

def instrKind : Instr → String
  | .const .. => "const" | .undefined .. => "undefined" | .literal .. => "literal" | .alloc .. => "alloc"
  | .addrof .. => "addrof" | .binop .. => "binop" | .unop .. => "unop" | .cast .. => "cast" | .load .. => "load"
  | .store .. => "store" | .copyblob .. => "copyblob" | .phi .. => "phi" | .fcall .. => "call" | .pcall .. => "call"
  | .asm .. => "asm" | .jump .. => "jump" | .cjump .. => "cjump" | .ret .. => "ret" | .exit => "exit"

def callFailKind (m : Module) (ds : List Def) (callee : Operand) (args : List Operand) : String :=
  if opndTy m ds callee ≠ some .ptr then "call-callee-type"
  else if !(args.all fun a => (opndTy m ds a).isSome) then "call-arg-untyped"
  else "call-signature"

def typeFailKinds (m : Module) (f : Func) : List String :=
  let ds := f.defs
  let ks := f.blocks.flatMap fun b => b.instrs.filterMap fun i =>
    if instrTypesOk m f ds i then none else
    some (match i with
      | .fcall _ _ c as => callFailKind m ds c as
      | .pcall c as => callFailKind m ds c as
      | i => instrKind i)
  ks.foldl (fun acc k => if acc.contains k then acc else acc ++ [k]) []

def wfxReply (m : Module) : String :=
  if Spec.IRRun.wfReply m = "ok 1" then "ok 1" else
  let fs := m.funcs.filterMap (fun f =>
    match wfFailures m f with
    | [] => none
    | l => some (f.name ++ ":" ++ ",".intercalate (l.map fun c =>
        if c = "operand-types" then c ++ "[" ++ "+".intercalate (typeFailKinds m f) ++ "]" else c)))
  let fs := if allDistinct m.globalNames then fs else "*:globals-distinct" :: fs
  "ok 0 " ++ ";".intercalate fs

def step (st : Spec.IRRun.St) (line : String) : Spec.IRRun.St × String :=
  let l := line.trimAscii.toString
  match words l, st.mod with
  | ["pass", name], some m =>
    match Model.Opt.passByName name with
    | none => (st, "bad-op")
    | some p =>
      match Model.Opt.runPass p m with
      | .ok m' => (st, "ok " ++ showModule m')
      | .error e => (st, "err " ++ e)
  | ["passwf", name], some m =>
    match Model.Opt.passByName name with
    | none => (st, "bad-op")
    | some p =>
      match Model.Opt.runPass p m with
      | .ok m' => (st, Spec.IRRun.wfReply m')
      | .error e => (st, "err " ++ e)
  | ["wfx"], some m => (st, wfxReply m)
  | _, _ => Spec.IRRun.step' st line

end Model.WfRun
