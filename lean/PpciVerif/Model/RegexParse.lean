import PpciVerif.Model.Regex
import PpciVerif.Spec.Lang
/-
Hand model of ppci/lang/tools/regex/parser.py (after the precedence `fix:` commit; the parser as
it was before is `Model.RegexLegacy.parse`).

The text is a list of code points (`ord`).  Every method of `Parser` that takes its input from
`self.txt[self.pos:]` is a function of the remaining input returning the value and the rest.
`_parse_top = _parse_or`, `_parse_and = _parse_element` (the code has these two pass-through levels).
The `while` loops and the recursion for groups are modelled with one `fuel` parameter that
decreases at every call (`Err.Fuel` when it runs out; `parse` supplies `3·len + 8`, which
`Proofs.RegexParse` shows to be enough for every rendered expression).

Also here: `pretty`, the renderer of `Spec.Lang.Syn` trees with the minimal parentheses for the
standard precedence postfix > concatenation > alternation (both binary operators left-associative),
and `meaning`, the `Regex` object the standard reading of a tree denotes, built with the public
smart constructors.
-/
namespace Model.RegexParse
open Model.Regex Spec.Lang

/-- `_next_char` + the escape handling of `eat()` -/
def eatAny : List Int → Except Err (Int × List Int)
  | [] => .error .ValueError                      -- "At end of string!"
  | c :: rest =>
    if c = 92 then                                 -- backslash: take the next character
      (match rest with
       | [] => .error .ValueError
       | c' :: rest' => .ok (c', rest'))
    else .ok (c, rest)

/-- `eat(c)` -/
def eatC (c : Int) : List Int → Except Err (List Int)
  | [] => .error .ValueError
  | a :: rest => if a = c then .ok rest else .error .ValueError

/-- `_parse_modifier` -/
def modifier (e : Re) : List Int → Re × List Int
  | [] => (e, [])
  | c :: rest =>
    if c = 42 then (.star e, rest)                           -- '*'
    else if c = 43 then (concatenate e (.star e), rest)      -- '+'
    else if c = 63 then (logicalOr e .eps, rest)             -- '?'
    else (e, c :: rest)

/-- `peek(c)` -/
def peek (c : Int) : List Int → Bool
  | [] => false
  | a :: _ => decide (a = c)

/-- the `while not self.peek("]")` loop of `_parse_set` -/
def setLoop : Nat → List Int → List (Int × Int) → Except Err (List (Int × Int) × List Int)
  | 0, _, _ => .error .Fuel
  | fuel + 1, inp, acc =>
    if peek 93 inp then .ok (acc, inp)
    else
      match eatAny inp with
      | .error e => .error e
      | .ok (start, r1) =>
        if peek 45 r1 then
          (match eatAny (r1.drop 1) with                      -- eat("-"); end = eat()
           | .error e => .error e
           | .ok (stop, r3) =>
             if start < stop then setLoop fuel r3 (acc ++ [(start, stop)])
             else .error .ValueError)                     -- "Start must be before end"
        else setLoop fuel r1 (acc ++ [(start, start)])

/-- `_parse_set`, called with the input at `[` -/
def parseSet (fuel : Nat) (inp : List Int) : Except Err (Re × List Int) :=
  match eatC 91 inp with
  | .error e => .error e
  | .ok r0 =>
    let complement := peek 94 r0
    let r1 := if complement then r0.drop 1 else r0
    match setLoop fuel r1 [] with
    | .error e => .error e
    | .ok (ranges, r2) =>
      match eatC 93 r2 with
      | .error e => .error e
      | .ok r3 =>
        if ranges.isEmpty then .error .ValueError
        else if complement then .error .NotImplementedError
        else .ok (symbolSet ranges, r3)

mutual
/-- `_parse_or` -/
def parseOr : Nat → List Int → Except Err (Re × List Int)
  | 0, _ => .error .Fuel
  | fuel + 1, inp =>
    match parseConcat fuel inp with
    | .error e => .error e
    | .ok (e, r) => orLoop fuel e r

/-- `while self.did_eat("|")` -/
def orLoop : Nat → Re → List Int → Except Err (Re × List Int)
  | 0, _, _ => .error .Fuel
  | fuel + 1, acc, inp =>
    if peek 124 inp then
      (match parseConcat fuel (inp.drop 1) with
       | .error e => .error e
       | .ok (e, r') => orLoop fuel (logicalOr acc e) r')
    else .ok (acc, inp)

/-- `_parse_concatenation` -/
def parseConcat : Nat → List Int → Except Err (Re × List Int)
  | 0, _ => .error .Fuel
  | fuel + 1, inp =>
    match parseElement fuel inp with
    | .error e => .error e
    | .ok (e, r) => concatLoop fuel e r

/-- `while not (at_end() or peek("|") or peek(")"))` -/
def concatLoop : Nat → Re → List Int → Except Err (Re × List Int)
  | 0, _, _ => .error .Fuel
  | fuel + 1, acc, inp =>
    if inp.isEmpty || peek 124 inp || peek 41 inp then .ok (acc, inp)
    else
      match parseElement fuel inp with
      | .error e => .error e
      | .ok (e, r) => concatLoop fuel (concatenate acc e) r

/-- `_parse_element` -/
def parseElement : Nat → List Int → Except Err (Re × List Int)
  | 0, _ => .error .Fuel
  | fuel + 1, inp =>
    if peek 40 inp then                                    -- '(' _parse_top ')'
      (match parseOr fuel (inp.drop 1) with
       | .error e => .error e
       | .ok (e, r1) =>
         match eatC 41 r1 with
         | .error e => .error e
         | .ok r2 => .ok (modifier e r2))
    else if peek 91 inp then                               -- '['
      (match parseSet fuel inp with
       | .error e => .error e
       | .ok (e, r1) => .ok (modifier e r1))
    else if peek 46 inp then .ok (modifier SIGMA (inp.drop 1))   -- '.'
    else
      (match eatAny inp with                                -- `_parse_symbol`
       | .error e => .error e
       | .ok (c, r) => .ok (modifier (symbol c) r))
end

/-- `while not self.at_end(): expr = expr + self._parse_top()` -/
def topLoop : Nat → Re → List Int → Except Err Re
  | 0, _, _ => .error .Fuel
  | fuel + 1, acc, inp =>
    match inp with
    | [] => .ok acc
    | _ =>
      match parseOr fuel inp with
      | .error e => .error e
      | .ok (e, r) => topLoop fuel (concatenate acc e) r

def parseFuel (txt : List Int) : Nat := 3 * txt.length + 8

/-- `parse(txt)` -/
def parse (txt : List Int) : Except Err Re :=
  match txt with
  | [] => .ok .eps
  | _ =>
    match parseOr (parseFuel txt) txt with
    | .error e => .error e
    | .ok (e, r) => topLoop (parseFuel txt) e r

/-! ### rendering -/

/-- `( ) [ ] . * + ? | \` -/
def metaChars : List Int := [40, 41, 91, 93, 46, 42, 43, 63, 124, 92]
def ppChr (c : Int) : List Int := if c ∈ metaChars then [92, c] else [c]
/-- inside `[...]`: `] - \ ^` -/
def clsMeta : List Int := [93, 45, 92, 94]
def ppItemChr (c : Int) : List Int := if c ∈ clsMeta then [92, c] else [c]
def ppItem (r : Int × Int) : List Int :=
  if r.1 = r.2 then ppItemChr r.1 else ppItemChr r.1 ++ [45] ++ ppItemChr r.2

def paren (b : Bool) (s : List Int) : List Int := if b then [40] ++ s ++ [41] else s

/-- `pp k t`: text of `t` in a context that needs precedence level ≥ `k`
(0 alternation, 1 concatenation, 2 postfix, 3 atom) -/
def pp : Nat → Syn → List Int
  | _, .chr c => ppChr c
  | _, .dot => [46]
  | _, .cls items => [91] ++ items.flatMap ppItem ++ [93]
  | k, .star e => paren (decide (k > 2)) (pp 3 e ++ [42])
  | k, .plus e => paren (decide (k > 2)) (pp 3 e ++ [43])
  | k, .opt e => paren (decide (k > 2)) (pp 3 e ++ [63])
  | k, .cat l r => paren (decide (k > 1)) (pp 1 l ++ pp 2 r)
  | k, .alt l r => paren (decide (k > 0)) (pp 0 l ++ [124] ++ pp 1 r)

def pretty (t : Syn) : List Int := pp 0 t

/-- the `Regex` object denoted by the standard reading of `t` -/
def meaning : Syn → Re
  | .chr c => symbol c
  | .dot => SIGMA
  | .cls items => symbolSet items
  | .star e => .star (meaning e)
  | .plus e => concatenate (meaning e) (.star (meaning e))
  | .opt e => logicalOr (meaning e) .eps
  | .cat l r => concatenate (meaning l) (meaning r)
  | .alt l r => logicalOr (meaning l) (meaning r)

end Model.RegexParse
