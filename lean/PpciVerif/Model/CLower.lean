/-
`Model.CLower` — hand model of the expression part of `ppci/lang/c/codegenerator.py`
(x86_64): which IR instruction, with which IR type, each node of the typed tree becomes.

  CCodeGenerator.ir_type_map / get_ir_type        ↦ `irTy`
  gen_expr / _load_value (rvalue of a variable)   ↦ `.load`
  gen_numeric_literal / gen_char_literal / gen_sizeof / emit_const ↦ `.const`
  gen_unop  (`-`, `~`: ir.Unop;  `!`: gen_condition_to_integer)
  gen_binop (`* / % ^ | & >> << + -`: builder.emit_binop with the ir type of expr.typ;
             comparisons and `&& ||`: gen_condition_to_integer)
  gen_ternop (gen_condition + phi), gen_cast (builder.emit_cast, always emitted)
  gen_condition / check_non_zero / gen_condition_to_integer

The output vocabulary is `Spec.IRExpr.IExpr` (the expression-shaped IR fragment whose value
is given by the `Spec.IR` instruction semantics).  `lowerBoth e` returns the code
`gen_expr(e, rvalue=True)` emits and the code `gen_condition(e, yes, no)` emits.

`expand` turns an `IExpr` into the decision tree obtained by following the conditional
jumps (every leaf/branch operand is a jump-free instruction tree); harness/c01.py
computes the same tree from the REAL function by symbolic execution and compares verbatim.
-/
import PpciVerif.Model.CType
import PpciVerif.Spec.IRExpr

namespace Model.CLower
open Model.CType Spec.IRExpr

/-- `CCodeGenerator.ir_type_map[typ.type_id][0]` on x86_64 (int 4 bytes, long 8 bytes) -/
def irTy : Ty → ITy
  | .char => .i8 | .uchar => .u8 | .short => .i16 | .ushort => .u16
  | .int => .i32 | .uint => .u32 | .long => .i64 | .ulong => .u64
  | .llong => .i64 | .ullong => .u64

/-- the `ir.Binop` operator `gen_binop` passes on (`op = expr.op`) -/
def irOp : BinSym → Option Spec.IR.BinOp
  | .plus => some .add | .minus => some .sub | .star => some .mul | .slash => some .div
  | .percent => some .rem | .shl => some .shl | .shr => some .shr
  | .amp => some .and | .bar => some .or | .caret => some .xor
  | _ => none

/-- the `ir.CJump` condition `gen_condition` passes on (`op_map`) -/
def irCond : BinSym → Option Spec.IR.Cond
  | .lt => some .lt | .gt => some .gt | .le => some .le | .ge => some .ge
  | .eqeq => some .eq | .ne => some .ne
  | _ => none

/-- `check_non_zero`: `CJump(value, "==", Const(0, expr.typ), no_block, yes_block)` -/
def nonZero (v : IExpr) (τ : Ty) : ICond := .cnot (.cjump v .eq (.const (irTy τ) 0))

/-- (`gen_expr(e, rvalue=True)`, `gen_condition(e, yes, no)`) -/
def lowerBoth : TExpr → IExpr × ICond
  | .var τ i => let v := IExpr.load (irTy τ) i; (v, nonZero v τ)
  | .num τ x => let v := IExpr.const (irTy τ) x; (v, nonZero v τ)
  | .chr τ x => let v := IExpr.const (irTy τ) x; (v, nonZero v τ)
  | .szof τ n => let v := IExpr.const (irTy τ) n; (v, nonZero v τ)
  | .un op τ a =>
    let pa := lowerBoth a
    match op with
    | .minus => let v := IExpr.unop (irTy τ) .neg pa.1; (v, nonZero v τ)
    | .tilde => let v := IExpr.unop (irTy τ) .not pa.1; (v, nonZero v τ)
    | .bang => let c := ICond.cnot pa.2; (.toInt c (irTy τ), c)
  | .bin op τ a b =>
    let pa := lowerBoth a
    let pb := lowerBoth b
    match op with
    | .oror => let c := ICond.cor pa.2 pb.2; (.toInt c (irTy τ), c)
    | .andand => let c := ICond.cand pa.2 pb.2; (.toInt c (irTy τ), c)
    | _ =>
      match irCond op with
      | some cnd => let c := ICond.cjump pa.1 cnd pb.1; (.toInt c (irTy τ), c)
      | none =>
        match irOp op with
        | some o => let v := IExpr.binop (irTy τ) o pa.1 pb.1; (v, nonZero v τ)
        | none => let v := IExpr.const (irTy τ) 0; (v, nonZero v τ)      -- unreachable
  | .tern τ c a b =>
    let v := IExpr.select (lowerBoth c).2 (irTy τ) (lowerBoth a).1 (lowerBoth b).1
    (v, nonZero v τ)
  | .cast _ τ a =>
    let v := IExpr.cast (irTy τ) (lowerBoth a).1
    (v, nonZero v τ)

def lower (e : TExpr) : IExpr := (lowerBoth e).1
def lowerCond (e : TExpr) : ICond := (lowerBoth e).2

/-- source tree ↦ emitted expression code -/
def compile (s : Src) : Option IExpr := (elaborate s).map lower

/-! ### decision-tree view (for the structural correspondence with the real function) -/

/-- jump-free instruction tree -/
inductive PExpr
  | load (ty : ITy) (i : Nat)
  | const (ty : ITy) (v : Int)
  | binop (ty : ITy) (op : Spec.IR.BinOp) (a b : PExpr)
  | unop (ty : ITy) (op : Spec.IR.UnOp) (a : PExpr)
  | cast (ty : ITy) (a : PExpr)

inductive DTree
  | ret (e : PExpr)
  | branch (a : PExpr) (c : Spec.IR.Cond) (b : PExpr) (yes no : DTree)

mutual
  /-- follow value code, then continue with `k` -/
  def expand : IExpr → (PExpr → DTree) → DTree
    | .load ty i, k => k (.load ty i)
    | .const ty v, k => k (.const ty v)
    | .binop ty op a b, k => expand a fun pa => expand b fun pb => k (.binop ty op pa pb)
    | .unop ty op a, k => expand a fun pa => k (.unop ty op pa)
    | .cast ty a, k => expand a fun pa => k (.cast ty pa)
    | .toInt c ty, k => expandC c (k (.const ty 1)) (k (.const ty 0))
    | .select c _ a b, k => expandC c (expand a k) (expand b k)
  /-- follow condition code to the `yes` / `no` continuation -/
  def expandC : ICond → DTree → DTree → DTree
    | .cjump a c b, y, n => expand a fun pa => expand b fun pb => .branch pa c pb y n
    | .cnot c, y, n => expandC c n y
    | .cor a b, y, n => expandC a y (expandC b y n)
    | .cand a b, y, n => expandC a (expandC b y n) n
end

def PExpr.show : PExpr → String
  | .load ty i => s!"(load {ty.name} {i})"
  | .const ty v => s!"(const {ty.name} {v})"
  | .binop ty op a b => s!"(binop {ty.name} {op.symbol} {a.show} {b.show})"
  | .unop ty op a => s!"(unop {ty.name} {match op with | .neg => "-" | .not => "~"} {a.show})"
  | .cast ty a => s!"(cast {ty.name} {a.show})"

def DTree.show : DTree → String
  | .ret e => s!"(ret {e.show})"
  | .branch a c b y n => s!"(br {a.show} {c.symbol} {b.show} {y.show} {n.show})"

def DTree.size : DTree → Nat
  | .ret _ => 1
  | .branch _ _ _ y n => y.size + n.size + 1

/-- the function `R f(params) { return e; }`: decision tree of the returned value -/
def decisionTree (e : IExpr) : DTree := expand e .ret

end Model.CLower
