import PpciVerif.Spec.SysV
/-!
Hand model of the System V side of `ppci/arch/x86_64/arch.py` (class `X86_64Arch`
without the `wincc` option) and the register lists of `registers.py` it uses:

* `determineArgLocations` / `determineRvLocation`  – `determine_arg_locations`, `determine_rv_location`
* `genPrologue` / `genEpilogue`                    – `gen_prologue`, `gen_epilogue` (+ `get_callee_saved`,
                                                      `Frame.is_used`, `round_up16`)
* `genCall`                                        – `gen_call` (argument set-up, stack adjustment, return value)
* `genFunctionEnter`                               – `gen_function_enter` (copy of the incoming arguments)

Instruction lists are lists over an abstract stack machine (`Instr`): `push pop sub add mov load`
with 64-bit "registers" identified by a number: 0‥15 the hardware GPRs (`rsp`=4, `rbp`=5; a
sub-register such as `edi`/`al` is identified with its parent), 16‥31 `xmm0‥15`, 99 the virtual
register receiving a call's result, 100+i the virtual register holding argument `i`.
Only `Spec.SysV.Ty` (the enumeration of scalar IR types) is shared with the specification.
Not modelled: `wincc`, blob (struct) arguments, the x87 option, literal pools.
-/
namespace Model.X64CC
open Spec.SysV (Ty)

inductive Err
  | NotImplementedError
  deriving DecidableEq, Repr

def Err.name : Err → String
  | .NotImplementedError => "NotImplementedError"

/-- ppci register objects: class (`Register64/32/16/8`, `XmmRegisterDouble/Single`) and `num` -/
inductive Reg
  | r64 (n : Nat) | r32 (n : Nat) | r16 (n : Nat) | r8 (n : Nat) | xmmD (n : Nat) | xmmS (n : Nat)
  deriving DecidableEq, Repr, Inhabited

/-- `Register.bitsize` -/
def Reg.bitsize : Reg → Nat
  | .r64 _ => 64 | .r32 _ => 32 | .r16 _ => 16 | .r8 _ => 8 | .xmmD _ => 64 | .xmmS _ => 32

/-- machine-level identity of a register: the hardware GPR it is part of (0‥15), or 16+n for xmm n.
    `Register8` numbers 4‥7 are `ah ch dh bh`, parts of `rax rcx rdx rbx`.
    This is what `arch.info.alias` (closure of the `aliases=` declarations) computes; the
    agreement is re-checked on the regenerated table (`Props.C40.gen_alias_is_parent`). -/
def Reg.parent : Reg → Nat
  | .r64 n | .r32 n | .r16 n => n
  | .r8 n => if n < 4 then n else n - 4
  | .xmmD n | .xmmS n => 16 + n

/-- result of `determine_arg_locations`: a register object or `StackLocation(offset, size)` -/
inductive Loc
  | reg (r : Reg)
  | stack (offset size : Nat)
  deriving DecidableEq, Repr, Inhabited

/-! ### determine_arg_locations (Sys V branch) -/

/-- `int_regs`: (64-bit register, 32-bit register) -/
def intRegs : List (Reg × Reg) :=
  [(.r64 7, .r32 7), (.r64 6, .r32 6), (.r64 2, .r32 2), (.r64 1, .r32 1), (.r64 8, .r32 8), (.r64 9, .r32 9)]

/-- `float_regs`: (single, double) -/
def floatRegs : List (Reg × Reg) :=
  [(.xmmS 0, .xmmD 0), (.xmmS 1, .xmmD 1), (.xmmS 2, .xmmD 2), (.xmmS 3, .xmmD 3),
   (.xmmS 4, .xmmD 4), (.xmmS 5, .xmmD 5), (.xmmS 6, .xmmD 6), (.xmmS 7, .xmmD 7)]

/-- `arg_type in [i8, i64, u8, u64, i16, u16, i32, u32, ptr]` -/
def isIntTy : Ty → Bool
  | .f32 | .f64 => false
  | _ => true

def is32 : Ty → Bool
  | .i32 | .u32 => true
  | _ => false

/-- loop state: the two shrinking register lists (`pop(0)`) and `offset` -/
structure ALState where
  ints : List (Reg × Reg)
  floats : List (Reg × Reg)
  offset : Nat
  deriving Repr

/-- one iteration of `for arg_type in arg_types` -/
def argStep (st : ALState) (t : Ty) : ALState × Loc :=
  if isIntTy t then
    match st.ints with
    | p :: rest => ({ st with ints := rest }, .reg (if is32 t then p.2 else p.1))
    | [] =>
      let argSize := 8            -- "All integers are passed in 8 byte memory"
      ({ st with offset := st.offset + argSize }, .stack st.offset argSize)
  else
    match st.floats with
    | p :: rest => ({ st with floats := rest }, .reg (if t = .f32 then p.1 else p.2))
    | [] =>
      let argSize := 8            -- "All floats are passed in 8 byte memory (eightbytes)"
      ({ st with offset := st.offset + argSize }, .stack st.offset argSize)

def argLoop (st : ALState) : List Ty → List Loc
  | [] => []
  | t :: ts => (argStep st t).2 :: argLoop (argStep st t).1 ts

def initState : ALState := ⟨intRegs, floatRegs, 16⟩

def determineArgLocations (argTypes : List Ty) : List Loc := argLoop initState argTypes

/-! ### determine_rv_location -/
def determineRvLocation : Ty → Reg
  | .i64 | .u64 | .ptr => .r64 0
  | .i32 | .u32 => .r32 0
  | .i16 | .u16 => .r16 0
  | .i8 | .u8 => .r8 0
  | .f64 => .xmmD 0
  | .f32 => .xmmS 0

/-! ### reading a ppci location as a psABI location -/

/-- The value an ABI caller puts in `%rdi` is read by ppci through `rdi`, `edi` … (low part of the
    same hardware register); a high-byte register (`ah`…) is not the low part of anything. -/
def Reg.toSpec : Reg → Option Spec.SysV.Loc
  | .r64 n | .r32 n | .r16 n => (Spec.SysV.GPR.ofNum? n).map .gpr
  | .r8 n => if n < 4 then (Spec.SysV.GPR.ofNum? n).map .gpr else none
  | .xmmD n | .xmmS n => some (.xmm n)

def Loc.toSpec : Loc → Option Spec.SysV.Loc
  | .reg r => r.toSpec
  | .stack off _ => some (.mem off)

/-! ### the abstract stack machine -/

structure MState where
  reg : Nat → Int
  mem : Int → Int

def RSP : Nat := 4
def RBP : Nat := 5

inductive Instr
  | push (r : Nat)
  | pop (r : Nat)
  /-- `sub rsp, n` -/
  | sub (n : Nat)
  /-- `add rsp, n` -/
  | add (n : Nat)
  /-- register to register move (also models `movsx`, `movss`, `movsd` between registers:
      values are abstract 64-bit tokens) -/
  | mov (d s : Nat)
  /-- `d := [base + off]` -/
  | load (d base : Nat) (off : Int)
  deriving DecidableEq, Repr, Inhabited

def upd {α : Type} [DecidableEq α] (f : α → Int) (k : α) (v : Int) : α → Int :=
  fun x => if x = k then v else f x

def step (s : MState) : Instr → MState
  | .push r => ⟨upd s.reg 4 (s.reg 4 - 8), upd s.mem (s.reg 4 - 8) (s.reg r)⟩
  | .pop r => ⟨upd (upd s.reg 4 (s.reg 4 + 8)) r (s.mem (s.reg 4)), s.mem⟩
  | .sub n => ⟨upd s.reg 4 (s.reg 4 - n), s.mem⟩
  | .add n => ⟨upd s.reg 4 (s.reg 4 + n), s.mem⟩
  | .mov d r => ⟨upd s.reg d (s.reg r), s.mem⟩
  | .load d b off => ⟨upd s.reg d (s.mem (s.reg b + off)), s.mem⟩

def run (is : List Instr) (s : MState) : MState := is.foldl step s

/-! ### gen_prologue / gen_epilogue -/

/-- `registers.callee_save_linux` -/
def calleeSave : List Reg := [.r64 3, .r64 14, .r64 15]

/-- `Frame.is_used(reg, arch.info.alias)`: some alias of `c` is in `frame.used_regs` -/
def isUsed (used : List Reg) (c : Reg) : Bool := used.any (fun r => r.parent == c.parent)

/-- `get_callee_saved(frame)` -/
def getCalleeSaved (used : List Reg) : List Reg := calleeSave.filter (isUsed used)

def savedSize (saved : List Reg) : Nat := (saved.map (fun r => r.bitsize / 8)).sum

/-- `round_up16(s, already_taken)` -/
def roundUp16 (s taken : Nat) : Nat := s + (16 - (s + taken) % 16)

/-- the `sub rsp, …` / `add rsp, …` amount shared by prologue and epilogue (none when 0 is needed) -/
def frameAdjust (stacksize : Nat) (saved : List Reg) : List Nat :=
  if stacksize > 0 then [roundUp16 stacksize (savedSize saved)]
  else if savedSize saved % 16 ≠ 0 then [savedSize saved % 16]
  else []

/-- `gen_prologue(frame)` without the label: `push rbp; mov rbp, rsp; [sub rsp, n]; push saved…` -/
def genPrologue (used : List Reg) (stacksize : Nat) : List Instr :=
  let saved := getCalleeSaved used
  [.push RBP, .mov RBP RSP] ++ (frameAdjust stacksize saved).map .sub ++ saved.map (fun r => .push r.parent)

/-- `gen_epilogue(frame)` up to (not including) `ret`: `pop saved… (reversed); [add rsp, n]; pop rbp` -/
def genEpilogue (used : List Reg) (stacksize : Nat) : List Instr :=
  let saved := getCalleeSaved used
  saved.reverse.map (fun r => .pop r.parent) ++ (frameAdjust stacksize saved).map .add ++ [.pop RBP]

/-! ### gen_call -/

def vreg (i : Nat) : Nat := 100 + i
def rvVreg : Nat := 99

/-- class of the virtual register that holds a value of the type (register class of the value) -/
def vregClass : Ty → Reg
  | .i8 | .u8 => .r8 0
  | .i16 | .u16 => .r16 0
  | .i32 | .u32 => .r32 0
  | .i64 | .u64 | .ptr => .r64 0
  | .f32 => .xmmS 0
  | .f64 => .xmmD 0

/-- the loop `for arg_loc, arg2 in zip(arg_locs, args)`: arguments whose location is a
    `StackLocation`, in order, with their index (`mem_args`) -/
def memArgsFrom : Nat → List Ty → List Loc → List (Nat × Ty)
  | i, t :: ts, .stack _ _ :: ls => (i, t) :: memArgsFrom (i + 1) ts ls
  | i, _ :: ts, .reg _ :: ls => memArgsFrom (i + 1) ts ls
  | _, _, _ => []

/-- … and those whose location is a register (`reg_args`) -/
def regArgsFrom : Nat → List Ty → List Loc → List (Nat × Ty × Reg)
  | i, t :: ts, .reg r :: ls => (i, t, r) :: regArgsFrom (i + 1) ts ls
  | i, _ :: ts, .stack _ _ :: ls => regArgsFrom (i + 1) ts ls
  | _, _, _ => []

def memArgs (sig : List Ty) : List (Nat × Ty) := memArgsFrom 0 sig (determineArgLocations sig)
def regArgs (sig : List Ty) : List (Nat × Ty × Reg) := regArgsFrom 0 sig (determineArgLocations sig)

/-- one iteration of "Push arguments in reverse order" -/
def pushArg (i : Nat) (t : Ty) : Except Err (List Instr) :=
  match vregClass t with
  | .r64 _ => .ok [.push (vreg i)]
  | .r32 _ => .ok [.mov 0 (vreg i), .push 0]          -- mov eax, v; push rax
  | _ => .error .NotImplementedError

def pushArgs : List (Nat × Ty) → Except Err (List Instr)
  | [] => .ok []
  | (i, t) :: rest =>
    match pushArg i t, pushArgs rest with
    | .ok a, .ok r => .ok (a ++ r)
    | .error e, _ => .error e
    | _, .error e => .error e

/-- one iteration of "Move register args to proper location" -/
def moveArg (i : Nat) (t : Ty) (loc : Reg) : List Instr :=
  match loc, vregClass t with
  | .r64 n, .r8 _ => [.mov 0 (vreg i), .mov 0 0, .mov n 0]     -- mov al, v; movsx rax, al; mov loc, rax
  | .r64 n, .r16 _ => [.mov 0 (vreg i), .mov 0 0, .mov n 0]
  | l, _ => [.mov l.parent (vreg i)]

/-- `registers.caller_save_linux` = `arch._caller_save`: the `clobbers=` of every call instruction -/
def callerSave : List Reg :=
  [.r64 0, .r64 1, .r64 2, .r64 7, .r64 6, .r64 8, .r64 9, .r64 10, .r64 11,
   .xmmD 0, .xmmD 1, .xmmD 2, .xmmD 3, .xmmD 4, .xmmD 5, .xmmD 6, .xmmD 7,
   .xmmD 8, .xmmD 9, .xmmD 10, .xmmD 11, .xmmD 12, .xmmD 13, .xmmD 14, .xmmD 15]

/-- abstract id of the virtual register holding the callee's address in an indirect call -/
def fpVreg : Nat := 98

structure CallSeq where
  /-- instructions before the `call` -/
  pre : List Instr
  /-- `CallReg(label, …)` (call through a register) instead of `Call(label, …)` -/
  indirect : Bool
  /-- hardware ids of the `clobbers=` list the call instruction is created with: the registers the
      register allocator will not keep a value in across the call -/
  clobbers : List Nat
  /-- instructions after it -/
  post : List Instr
  stackSize : Nat
  deriving Repr

/-- padding "Pre align stack to 16 bytes" and the final `stack_size` -/
def callPad (nMem : Nat) : Nat := (8 * nMem) % 16
def callStackSize (nMem : Nat) : Nat := 8 * nMem + callPad nMem

/-- instructions after the call: fetch the result, release the argument area -/
def callPost (rv : Option Ty) (total : Nat) : List Instr :=
  (match rv with
    | some t => [Instr.mov rvVreg (determineRvLocation t).parent]
    | none => [])
  ++ (if total ≠ 0 then [Instr.add total] else [])

/-- `gen_call(frame, label, args, rv)`; `rv = none` for a procedure call; `indirect` when `label`
    is a `Register64` (call through a function pointer) -/
def genCall (sig : List Ty) (rv : Option Ty) (indirect : Bool) : Except Err CallSeq :=
  let mem := memArgs sig
  let pad := callPad mem.length
  match pushArgs mem.reverse with
  | .error e => .error e
  | .ok pushes =>
    let moves := (regArgs sig).flatMap (fun (i, t, l) => moveArg i t l)
    let total := callStackSize mem.length
    -- `if isinstance(label, Register64): CallReg(label, clobbers=self._caller_save) else: Call(label, clobbers=self._caller_save)`
    let clobbers := if indirect then callerSave.map Reg.parent else callerSave.map Reg.parent
    .ok ⟨(if pad ≠ 0 then [Instr.sub pad] else []) ++ pushes ++ moves, indirect, clobbers, callPost rv total, total⟩

/-! ### gen_function_enter -/

/-- copy of one incoming argument into its virtual register; `so` = running `stack_offset` -/
def enterArg (i : Nat) (t : Ty) (loc : Loc) (so : Nat) : Except Err (List Instr × Nat) :=
  match loc with
  | .reg (.r64 n) =>
    match vregClass t with
    | .r64 _ => .ok ([.mov (vreg i) n], so)
    | .r8 _ | .r16 _ | .r32 _ => .ok ([.mov 0 n, .mov (vreg i) 0], so)
    | _ => .error .NotImplementedError
  | .reg (.r32 n) =>
    match vregClass t with
    | .r32 _ => .ok ([.mov (vreg i) n], so)
    | _ => .error .NotImplementedError
  | .reg (.xmmD n) => .ok ([.mov (vreg i) (16 + n)], so)
  | .reg (.xmmS n) => .ok ([.mov (vreg i) (16 + n)], so)
  | .reg _ => .error .NotImplementedError
  | .stack _ size =>
    match vregClass t with
    | .r64 _ | .r32 _ | .xmmD _ | .xmmS _ => .ok ([.load (vreg i) RBP ((so : Int) + 16)], so + size)
    | _ => .error .NotImplementedError

def enterLoop : Nat → Nat → List (Ty × Loc) → Except Err (List Instr)
  | _, _, [] => .ok []
  | i, so, (t, l) :: rest =>
    match enterArg i t l so with
    | .error e => .error e
    | .ok (a, so') =>
      match enterLoop (i + 1) so' rest with
      | .error e => .error e
      | .ok r => .ok (a ++ r)

/-- `gen_function_enter(args)` without the `RegisterUseDef` pseudo instruction -/
def genFunctionEnter (sig : List Ty) : Except Err (List Instr) :=
  enterLoop 0 0 (sig.zip (determineArgLocations sig))

end Model.X64CC
