import PpciVerif.Model.Tables
/-
Hand model of ppci/arch/token.py (core Lean only): `Token.__getitem__` /
`__setitem__` on bit slices, the `bit_range` and `bit_concat` properties,
`pack` / `unpack` by endianness, and `TokenSequence.set_field/get_field/encode/fill`.
The model mirrors the code AS IT IS, including what C10 calls defects:

* `__setitem__` accepts every value in `[-2^w, 2^w)` for a `w`-bit slice (a negative
  value is "wrapped" by adding `2^w`, so `-2^w` is stored as `0`), whatever the
  declared `signed` flag of the field;
* the `bit_concat` setter masks every part (`v & at._mask`) and therefore never
  raises: it truncates silently.

`bit_value` is a `Nat` (it starts at 0 or comes from `unpack`), values written to
fields are Python ints (`Int`).  `v & (2^w-1)` on a Python int ↦ `v % 2^w`,
`v >> w` ↦ `v / 2^w` (floor).  Nested `bit_concat`s are flattened by T2 (the inner
setter only ever sees `v & mask`, so flattening does not change the outcome).

Tied to the source by the correspondence run of harness/c10.py (every field of
every token class of every ISA, values around ±2^w).
-/
namespace Model.Token
open Model.Tables

inductive Err | ValueError | AssertionError | TypeError | KeyError | AttributeError
  deriving Repr, DecidableEq

def Err.name : Err → String
  | .ValueError => "ValueError" | .AssertionError => "AssertionError" | .TypeError => "TypeError"
  | .KeyError => "KeyError" | .AttributeError => "AttributeError"

/-- `Token.__getitem__(slice(b, e))`:
    `bits = e - b; assert bits > 0; limit = 1 << bits; mask = (limit - 1) << b;
     return (self.bit_value & mask) >> b` -/
def getSlice (bv b e : Nat) : Except Err Nat :=
  if ¬ (e > b) then .error .AssertionError
  else
    let bits := e - b
    let limit := 1 <<< bits
    let mask := (limit - 1) <<< b
    .ok ((bv &&& mask) >>> b)

/-- `x &= mask ^ (((1 << w) - 1) << b); x |= v << b` with `mask = (1 << size) - 1`: the two statements
    with which `Token.__setitem__` (and, byte by byte, `BitView.__setitem__`) overwrite a slice -/
def writeBits (size bv b w x : Nat) : Nat :=
  (bv &&& (((1 <<< size) - 1) ^^^ (((1 <<< w) - 1) <<< b))) ||| (x <<< b)

/-- `Token.__setitem__(slice(b, e), value)` of a token of `size` bits (`self.mask = (1 << size) - 1`):
    ```
    bits = e - b; assert bits > 0; limit = 1 << bits
    if value >= limit: raise ValueError
    if value < 0: value = limit + value
    assert (value >= 0) and (value < limit)
    mask = self.mask ^ ((limit - 1) << b)
    self.bit_value &= mask; self.bit_value |= value << b
    ``` -/
def setSlice (size bv b e : Nat) (value : Int) : Except Err Nat :=
  if ¬ (e > b) then .error .AssertionError
  else
    let bits := e - b
    let limit : Nat := 1 <<< bits
    if value ≥ (limit : Int) then .error .ValueError
    else
      let value2 : Int := if value < 0 then (limit : Int) + value else value
      if ¬ (value2 ≥ 0 ∧ value2 < (limit : Int)) then .error .AssertionError
      else
        .ok (writeBits size bv b bits value2.toNat)

/-- `bit_concat` getter over the (flattened) partials, most significant first:
    `v = 0; for at in partials: v = v << at._bitsize; v = v | (at.__get__(s) & at._mask)` -/
def getConcat (bv : Nat) : List (Nat × Nat) → Nat → Except Err Nat
  | [], acc => .ok acc
  | (b, e) :: ps, acc =>
    match getSlice bv b e with
    | .error x => .error x
    | .ok x => getConcat bv ps ((acc <<< (e - b)) ||| (x &&& ((1 <<< (e - b)) - 1)))

/-- `bit_concat` setter; the list is `reversed(partials)`:
    `for at in reversed(partials): at.__set__(s, v & at._mask); v = v >> at._bitsize` -/
def setConcatRev (size : Nat) : List (Nat × Nat) → Nat → Int → Except Err Nat
  | [], bv, _ => .ok bv
  | (b, e) :: ps, bv, v =>
    match setSlice size bv b e (v % 2 ^ (e - b)) with
    | .error x => .error x
    | .ok bv' => setConcatRev size ps bv' (v / 2 ^ (e - b))

/-- `getattr(token, field)` for a declared field -/
def getField (f : FieldDesc) (bv : Nat) : Except Err Nat :=
  if f.concat then getConcat bv f.parts 0
  else match f.parts with
    | [(b, e)] => getSlice bv b e
    | _ => .error .TypeError          -- not producible by `bit_range`

/-- `setattr(token, field, v)` for a declared field of a token of `size` bits -/
def setField (size : Nat) (f : FieldDesc) (bv : Nat) (v : Int) : Except Err Nat :=
  if f.concat then setConcatRev size f.parts.reverse bv v
  else match f.parts with
    | [(b, e)] => setSlice size bv b e v
    | _ => .error .TypeError

/-- total width `_bitsize` of a field -/
def width (f : FieldDesc) : Nat := (f.parts.map (fun p => p.2 - p.1)).sum

/-- `Token.pack(value)`: `bytes((value >> (x * 8)) & 0xFF for x in byte_numbers)` -/
def pack (size : Nat) (big : Bool) (value : Nat) : List Nat :=
  let n := size / 8
  let nums := if big then (List.range n).reverse else List.range n
  nums.map (fun x => (value >>> (x * 8)) &&& 0xFF)

/-- `Token.unpack(data)`: TypeError on a wrong length, else
    `for byte in (reversed(data) if little else data): value <<= 8; value += byte` -/
def unpack (size : Nat) (big : Bool) (data : List Nat) : Except Err Nat :=
  if data.length ≠ size / 8 then .error .TypeError
  else
    let d := if big then data else data.reverse
    .ok (d.foldl (fun v byte => (v <<< 8) + byte) 0)

def findField (t : TokenDesc) (name : String) : Option FieldDesc :=
  t.fields.find? (fun f => f.name == name)

def findToken (ts : List TokenDesc) (name : String) : Option TokenDesc :=
  ts.find? (fun t => t.name == name)

/-! ### well-formedness of a field declaration (decidable; checked on the T2 tables) -/

def partOK (size : Nat) (p : Nat × Nat) : Bool := decide (p.1 < p.2) && decide (p.2 ≤ size)

def partDisj (p q : Nat × Nat) : Bool := decide (p.2 ≤ q.1) || decide (q.2 ≤ p.1)

def partsDisj : List (Nat × Nat) → Bool
  | [] => true
  | p :: ps => ps.all (partDisj p) && partsDisj ps

/-- every part is a non-empty range inside the token, parts do not overlap, and a plain
    `bit_range` has exactly one part -/
def wfField (size : Nat) (f : FieldDesc) : Bool :=
  f.parts.all (partOK size) && partsDisj f.parts && (f.concat || f.parts.length == 1) && !f.parts.isEmpty

def wfToken (t : TokenDesc) : Bool := t.size % 8 == 0 && t.fields.all (wfField t.size)

/-! ### TokenSequence -/

/-- a token instance: its class description and its `bit_value` -/
abbrev Inst := TokenDesc × Nat

/-- `TokenSequence.set_field`: the first token that has the attribute gets it; KeyError otherwise.
    (Only declared fields count as attributes here; see notes/C10.md.) -/
def seqSet : List Inst → String → Int → Except Err (List Inst)
  | [], _, _ => .error .KeyError
  | (t, bv) :: rest, field, v =>
    match findField t field with
    | some f =>
      match setField t.size f bv v with
      | .error x => .error x
      | .ok bv' => .ok ((t, bv') :: rest)
    | none =>
      match seqSet rest field v with
      | .error x => .error x
      | .ok rest' => .ok ((t, bv) :: rest')

/-- `TokenSequence.get_field` -/
def seqGet : List Inst → String → Except Err Nat
  | [], _ => .error .KeyError
  | (t, bv) :: rest, field =>
    match findField t field with
    | some f => getField f bv
    | none => seqGet rest field

/-- `TokenSequence.encode`: concatenation of the packed tokens -/
def seqEncode (ts : List Inst) : List Nat :=
  ts.flatMap (fun (t, bv) => pack t.size t.bigEndian bv)

end Model.Token
