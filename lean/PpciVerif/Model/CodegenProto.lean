import PpciVerif.Model.Proto
import PpciVerif.Model.Peephole
import PpciVerif.Model.FrameAlloc
import PpciVerif.Model.RVLi
import PpciVerif.Model.ArgLoc
import PpciVerif.Model.RVFrame
/-!
Line-protocol engine shared by `Drivers/C04.lean` and `Drivers/C05.lean` (kept in the library so the
driver files elaborate instantly).  Stateful only for the RV32 machine (`rv*` operations).

```
peep <item,item,…|->              item = L<n> | J<n> | O<n>
    → ok <items that reach the downstream stream> fn=<1 iff Model.peep gives the same list>
alloc <top|bottom|oldbottom> <size:align,…|->
    → ok stacksize=<n> alignment=<n> slots=<offset:size | ValueError | ZeroDivisionError>,…
const <li|cli|clui> <rd> <imm>
    → ok <instr; instr…> val=<rd after running them in Spec.RV32 from a marked state | stuck> cond=<0|1>
      (cond: the clui pattern condition, 1 for the other kinds)
dex <rd> <hex bytes>              decode (Spec.RV32.decode / decodeC by the low two bits) and run
    → ok <instr; instr…> val=<rd> keep=<1 iff pc advanced by the byte count, every other register and memory unchanged>
    | ok undecodable <position>
args arm <ty,ty,…|->   |   args riscv <rvf:0|1> <ty,…|->      ty = i|f|b <tsize>/<isize>
    → ok <r<n> | f<n> | s<off>:<size>>,… distinct=<0|1>
rvframe <stacksize> <extras> <saved regs|->   → ok <prologue instrs> | <epilogue instrs>      (Model.RVFrame, printed through toRV)
decx <hex bytes>                              → ok <instr; …> with compressed instructions expanded | ok undecodable <pos>
rvframerun <prologue hex> <epilogue hex> <ssize> <rsize> <extras rounded> <saved regs|->
    real byte strings executed by Spec.RV32 around an adversarial body (every register but sp gets junk; all stack memory
    except the bytes the prologue itself stored to is scribbled over; stores at or above the entry sp are reported)
    → ok restored | ok broken <what>
rvreset | rvmem <addr> <hex> | rvrun <entry> <fuel> <arg>* | rvdump <addr> <len>
    → ok | ok | ok ret=<x10> steps=<n> / ok fault <why> pc=<pc> steps=<n> / ok out-of-fuel | ok <hex>
```
The RV32 machine keeps registers and a 64 KiB byte memory in arrays and builds a `Spec.RV32.State`
from them for every step; the step itself is `Spec.RV32.step` / `stepC`.  Arguments go to
`x12…x17`, the result is read from `x10` (ppci's convention), `sp = 0xF000`, `ra = 0xFFF0`: the run
ends when the program counter reaches `ra`'s value.  Loads and stores outside the memory array are
reported as faults, as are undecodable parcels, `ecall`/`ebreak`.
-/
namespace Model.CodegenProto
open Proto Spec.ItemTrace Model.Peephole Model.FrameAlloc Model.RVLi Model.ArgLoc Spec.StackSlots Spec.RV32

/-! ### peephole -/

def otherIns (n : Nat) : Model.MCode.Instr :=
  { uses := [], defs := [], clobbers := [], isMove := false, jumps := [], label := none, sem := n }

def item? (s : String) : Option Item :=
  match s.toList with
  | 'L' :: r => (String.ofList r).toNat?.map .label
  | 'J' :: r => (String.ofList r).toNat?.map .jump
  | 'O' :: r => (String.ofList r).toNat?.map (fun n => .other (otherIns n))
  | _ => none

def itemStr : Item → String
  | .label l => s!"L{l}"
  | .jump t => s!"J{t}"
  | .other i => s!"O{i.sem}"

def list? {α} (f : String → Option α) (s : String) : Option (List α) :=
  if s == "-" then some [] else (s.splitOn ",").mapM f

def showList {α} (f : α → String) (l : List α) : String :=
  if l.isEmpty then "-" else ",".intercalate (l.map f)

/-! ### Frame.alloc -/

def pair? (s : String) : Option (Int × Int) :=
  match s.splitOn ":" with
  | [a, b] => do let x ← a.toInt?; let y ← b.toInt?; pure (x, y)
  | _ => none

def slotStr : Except Model.FrameAlloc.Err Slot → String
  | .ok s => s!"{s.offset}:{s.size}"
  | .error e => e.name

/-! ### constants -/

def miStr : MI → String
  | .b i => pretty i
  | .c ci => prettyC ci

/-- a state in which every register holds a recognisable value (odd registers: sign bit set) -/
def markedState : State :=
  { regs := fun i => (if i % 2 = 1 then 0xA5000000 else 0x5A000000) + i * 0x01010101 % 0x1000000,
    pc := 0x1000, mem := fun a => a % 251, csr := fun _ => 0 }

def valStr (rd : Nat) : Option State → String
  | some s => toString (s.get rd)
  | none => "stuck"

/-- decode a byte string into 32-bit / compressed instructions -/
def decodeStream : Nat → List Nat → Nat → Except Nat (List MI)
  | 0, _, pos => .error pos
  | _, [], _ => .ok []
  | fuel + 1, b0 :: b1 :: rest, pos =>
    if b0 % 4 = 3 then
      match rest with
      | b2 :: b3 :: rest' =>
        match decode (b0 + 256 * b1 + 65536 * b2 + 16777216 * b3) with
        | some i => (decodeStream fuel rest' (pos + 4)).map (fun l => .b i :: l)
        | none => .error pos
      | _ => .error pos
    else
      match decodeC (b0 + 256 * b1) with
      | some ci => (decodeStream fuel rest (pos + 2)).map (fun l => .c ci :: l)
      | none => .error pos
  | _, [_], pos => .error pos

def keepOk (rd : Nat) (n : Nat) (s0 : State) : Option State → Bool
  | none => false
  | some s =>
    s.pc == (s0.pc + n) % W
    && (List.range 32).all (fun r => r == rd || s.get r == s0.get r)
    && (List.range 512).all (fun a => s.mem a == s0.mem a)

/-! ### argument locations -/

def aty? (s : String) : Option ATy :=
  match s.toList with
  | k :: r =>
    let kind? : Option Kind := if k == 'i' then some .int else if k == 'f' then some .flt else if k == 'b' then some .blob else none
    match kind?, (String.ofList r).splitOn "/" with
    | some kind, [a, b] => do let x ← a.toNat?; let y ← b.toNat?; pure { kind := kind, tsize := x, isize := y }
    | _, _ => none
  | [] => none

def locStr : Loc → String
  | .reg n => s!"r{n}"
  | .freg n => s!"f{n}"
  | .stack o n => s!"s{o}:{n}"

def pairwiseB {α} (r : α → α → Bool) : List α → Bool
  | [] => true
  | a :: l => l.all (r a) && pairwiseB r l

def distinctB (l : List Loc) : Bool := pairwiseB (fun a b => decide (Loc.Distinct a b)) l

/-! ### the RV32 machine -/

def memSize : Nat := 65536
def retMagic : Nat := 0xFFF0
def spInit : Nat := 0xF000

/-- byte memory in 256 pages of 256 bytes (a store copies one page, not the whole memory) -/
abbrev PMem := Array (Array Nat)

def PMem.get (m : PMem) (a : Nat) : Nat := (m.getD (a / 256) #[]).getD (a % 256) 0
def PMem.set (m : PMem) (a v : Nat) : PMem :=
  if a / 256 < m.size then m.modify (a / 256) (fun pg => pg.setIfInBounds (a % 256) v) else m

structure Mach where
  regs : Array Nat
  pc : Nat
  mem : PMem
  deriving Inhabited

def Mach.init : Mach :=
  { regs := Array.replicate 32 0, pc := 0, mem := Array.replicate (memSize / 256) (Array.replicate 256 0) }

def Mach.toSpec (m : Mach) : State :=
  { regs := fun i => m.regs.getD i 0, pc := m.pc, mem := fun a => m.mem.get a, csr := fun _ => 0 }

inductive RunR where
  | done (ret steps : Nat)
  | fault (why : String) (pc steps : Nat)
  | fuel

/-- memory range touched by a load/store -/
def access (s : State) : Instr → Option (Nat × Nat × Bool)
  | .load op _ rs1 off =>
    some (addOff (s.get rs1) off, (match op with | .lb | .lbu => 1 | .lh | .lhu => 2 | .lw => 4), false)
  | .store op _ rs1 off => some (addOff (s.get rs1) off, storeWidth op, true)
  | _ => none

def writeBack (m : PMem) (s' : State) (a : Nat) : Nat → PMem
  | 0 => m
  | n + 1 => writeBack (m.set a (s'.mem a)) s' (a + 1) n

def runMach (stop : Nat := retMagic) : Nat → Nat → Mach → Mach × RunR
  | 0, _, m => (m, .fuel)
  | fuel + 1, steps, m =>
    if m.pc == stop then (m, .done (m.regs.getD 10 0) steps) else
    if m.pc + 4 > memSize then (m, .fault "pc-outside-memory" m.pc steps) else
    let b0 := m.mem.get m.pc
    let b1 := m.mem.get (m.pc + 1)
    let fetched : Option (Instr × Nat) :=
      if b0 % 4 = 3 then
        (decode (b0 + 256 * b1 + 65536 * m.mem.get (m.pc + 2) + 16777216 * m.mem.get (m.pc + 3))).map (fun i => (i, 4))
      else (decodeC (b0 + 256 * b1)).map (fun c => (c.expand, 2))
    match fetched with
    | none => (m, .fault "undecodable" m.pc steps)
    | some (i, len) =>
      let s := m.toSpec
      let acc := access s i
      let bad := match acc with
        | some (a, w, _) => decide (a + w > memSize)
        | none => false
      if bad then (m, .fault "access-outside-memory" m.pc steps) else
      match step s i len with
      | none => (m, .fault "environment-call" m.pc steps)
      | some s' =>
        let regs := Array.ofFn (n := 32) (fun k => s'.regs k.val)
        let mem := match acc with
          | some (a, w, true) => writeBack m.mem s' a w
          | _ => m.mem
        runMach stop fuel (steps + 1) { regs := regs, pc := s'.pc, mem := mem }

/-- run until `stop`, one instruction at a time, collecting the byte addresses written by stores -/
def runStores (stop : Nat) : Nat → Mach → List Nat → Mach × RunR × List Nat
  | 0, m, acc => (m, .fuel, acc)
  | fuel + 1, m, acc =>
    if m.pc == stop then (m, .done 0 0, acc) else
    let b0 := m.mem.get m.pc
    let b1 := m.mem.get (m.pc + 1)
    let ins : Option Instr :=
      if b0 % 4 = 3 then decode (b0 + 256 * b1 + 65536 * m.mem.get (m.pc + 2) + 16777216 * m.mem.get (m.pc + 3))
      else (decodeC (b0 + 256 * b1)).map (fun c => c.expand)
    let acc' := match ins.bind (access m.toSpec) with
      | some (a, w, true) => (List.range w).map (· + a) ++ acc
      | _ => acc
    match runMach (m.pc + 100000) 1 0 m with          -- exactly one step (the stop address is never reached)
    | (m', .fuel) => runStores stop fuel m' acc'
    | (m', r) => (m', r, acc')

def loadBytes (m : PMem) (a : Nat) : List Nat → PMem
  | [] => m
  | b :: r => loadBytes (m.set a b) (a + 1) r

def setArgs (regs : Array Nat) : Nat → List Int → Array Nat
  | _, [] => regs
  | k, a :: r => setArgs (regs.setIfInBounds k (ofInt a)) (k + 1) r

/-! ### dispatcher -/

def b2s (b : Bool) : String := if b then "1" else "0"

def step' (m : Mach) (line : String) : Mach × String :=
  match words line with
  | ["peep", its] =>
    match list? item? its with
    | some l =>
      let r := runStream l
      (m, s!"ok {showList itemStr r} fn={b2s (r == peep l)}")
    | none => (m, "bad-op")
  | ["alloc", mode, hist] =>
    match list? pair? hist with
    | some h =>
      let go (al : Frame → Int → Int → Frame × Except Model.FrameAlloc.Err Slot) (md : Mode) :=
        let r := run al (Frame.new md) h
        s!"ok stacksize={r.1.stacksize} alignment={r.1.alignment} slots={showList slotStr r.2}"
      if mode == "top" then (m, go alloc .top)
      else if mode == "bottom" then (m, go alloc .bottom)
      else if mode == "oldbottom" then (m, go allocOld .bottom)
      else (m, "bad-op")
    | none => (m, "bad-op")
  | ["const", kind, rd, imm] =>
    match nat? rd, int? imm with
    | some rd, some v =>
      let prog? : Option (List MI × Bool) :=
        if kind == "li" then some (li rd v, true)
        else if kind == "cli" then some (cli rd v, true)
        else if kind == "clui" then some (cluiAddi rd v, cluiCond v)
        else none
      match prog? with
      | some (p, c) => (m, s!"ok {"; ".intercalate (p.map miStr)} val={valStr rd (runM markedState p)} cond={b2s c}")
      | none => (m, "bad-op")
    | _, _ => (m, "bad-op")
  | ["dex", rd, h] =>
    match nat? rd, fromHex h with
    | some rd, some bs =>
      match decodeStream (bs.length + 1) bs 0 with
      | .error pos => (m, s!"ok undecodable {pos}")
      | .ok p =>
        let r := runM markedState p
        (m, s!"ok {"; ".intercalate (p.map miStr)} val={valStr rd r} keep={b2s (keepOk rd bs.length markedState r)}")
    | _, _ => (m, "bad-op")
  | ["args", "arm", tys] =>
    match list? aty? tys with
    | some l => let r := armArgs l; (m, s!"ok {showList locStr r} distinct={b2s (distinctB r)}")
    | none => (m, "bad-op")
  | ["args", "riscv", rvf, tys] =>
    match list? aty? tys with
    | some l => let r := riscvArgs (rvf == "1") l; (m, s!"ok {showList locStr r} distinct={b2s (distinctB r)}")
    | none => (m, "bad-op")
  | ["rvframe", ss, ex, regs] =>
    match int? ss, int? ex, natList? (if regs == "-" then "[]" else "[" ++ regs ++ "]") with
    | some ss, some ex, some rs =>
      let sh (l : List Model.RVFrame.FI) := "; ".intercalate (l.map (fun i => pretty (Model.RVFrame.toRV i)))
      (m, s!"ok {sh (Model.RVFrame.prologue ss ex rs)} | {sh (Model.RVFrame.epilogue ss ex rs)}")
    | _, _, _ => (m, "bad-op")
  | ["decx", h] =>
    match fromHex h with
    | some bs =>
      match decodeStream (bs.length + 1) bs 0 with
      | .error pos => (m, s!"ok undecodable {pos}")
      | .ok p => (m, "ok " ++ "; ".intercalate (p.map (fun i => match i with | .b x => pretty x | .c c => pretty c.expand)))
    | none => (m, "bad-op")
  | ["rvframerun", ph, eh, ss, rs, er, regs] =>
    match fromHex ph, fromHex eh, nat? ss, nat? rs, nat? er, natList? (if regs == "-" then "[]" else "[" ++ regs ++ "]") with
    | some pb, some eb, some ssz, some rsz, some _erz, some saved =>
      let sp0 := 0xE000
      let mark (i : Nat) : Nat := 0x40000000 + i * 0x01010101 % 0x1000000
      let regs0 := ((Array.ofFn (n := 32) (fun k => mark k.val)).setIfInBounds 1 retMagic).setIfInBounds 2 sp0
      let pat (a : Nat) : Nat := (a * 7 + 3) % 256
      let mem0 := (List.range (0xF000 - 0xC000)).foldl (fun mm k => PMem.set mm (0xC000 + k) (pat (0xC000 + k))) Mach.init.mem
      let mem1 := loadBytes (loadBytes mem0 0x1000 pb) 0x1800 eb
      let (m1, r1, stored) := runStores (0x1000 + pb.length) 400 { regs := regs0, pc := 0x1000, mem := mem1 } []
      match r1 with
      | .done _ _ =>
        -- the adversarial body: junk in every register but sp, every stack byte the prologue did not store to is overwritten
        let _unused := (ssz, rsz)
        let regsB := (Array.ofFn (n := 32) (fun k => if k.val == 2 then m1.regs.getD 2 0 else 0xDEAD0000 + k.val))
        let memB := (List.range (sp0 - 0xC000)).foldl
          (fun mm k => let a := 0xC000 + k; if stored.contains a then mm else PMem.set mm a ((a * 13 + 5) % 256)) m1.mem
        let (m2, r2) := runMach retMagic 400 0 { regs := regsB, pc := 0x1800, mem := memB }
        match r2 with
        | .done _ _ =>
          let badRegs := ([2, 8] ++ saved).filter (fun r => m2.regs.getD r 0 != regs0.getD r 0)
          let badMem := (List.range (0xF000 - sp0)).any (fun k => m2.mem.get (sp0 + k) != pat (sp0 + k))
          if stored.any (fun a => a ≥ sp0) then (m, "ok broken prologue-writes-above-entry-sp")
          else if !badRegs.isEmpty then (m, s!"ok broken registers-not-restored:{showNatList badRegs}")
          else if badMem then (m, "ok broken caller-stack-overwritten")
          else (m, "ok restored")
        | .fault why pc _ => (m, s!"ok broken epilogue-fault:{why}@{pc}")
        | .fuel => (m, "ok broken epilogue-does-not-return-to-ra")
      | .fault why pc _ => (m, s!"ok broken prologue-fault:{why}@{pc}")
      | .fuel => (m, "ok broken prologue-runs-away")
    | _, _, _, _, _, _ => (m, "bad-op")
  | ["rvreset"] => (Mach.init, "ok")
  | ["rvmem", a, h] =>
    match nat? a, fromHex h with
    | some a, some bs =>
      if a + bs.length > memSize then (m, "err OutOfMemoryImage") else ({ m with mem := loadBytes m.mem a bs }, "ok")
    | _, _ => (m, "bad-op")
  | "rvrun" :: entry :: fuel :: args =>
    match nat? entry, nat? fuel, args.mapM int? with
    | some e, some f, some as =>
      let regs := (Array.replicate 32 0).setIfInBounds 1 retMagic |>.setIfInBounds 2 spInit |>.setIfInBounds 8 spInit
      let m0 : Mach := { regs := setArgs regs 12 as, pc := e, mem := m.mem }
      let (m1, r) := runMach retMagic f 0 m0
      (m1, match r with
        | .done ret steps => s!"ok ret={ret} steps={steps}"
        | .fault why pc steps => s!"ok fault {why} pc={pc} steps={steps}"
        | .fuel => "ok out-of-fuel")
    | _, _, _ => (m, "bad-op")
  | ["rvdump", a, n] =>
    match nat? a, nat? n with
    | some a, some n => (m, "ok " ++ toHex ((List.range n).map (fun k => m.mem.get (a + k))))
    | _, _ => (m, "bad-op")
  | _ => (m, "bad-op")

end Model.CodegenProto
