import PpciVerif.Spec.PPInt
/-
Hand model of the `#if` expression code of ppci/lang/c/preprocessor.py (no Mathlib; the
token and operator vocabulary `Sym/Tok/UnOp/BinOp/Tree` is shared with `Spec.PPInt`), after
the `fix:` commits 2f4b2ca (truncating `/ %`) and 448e2cd (diagnostics for `/0` and negative
shift counts) recorded in findings/C26.json:

* `CPreProcessor.OP_MAP`            ↦ `opMap` (priority, right-associative, function)
* `CPreProcessor._binop_take`       ↦ `binopTake`
* `CPreProcessor.parse_expression`  ↦ `parseExpr` / `parseLoop` (precedence climbing; the
  `while True` loop and the recursion are one mutual recursion on an explicit `fuel`)
* `CPreProcessor._eval_tree`        ↦ `evalTree` (Python `int`: unbounded, **no unsigned
  arithmetic** – the suffix of a constant is dropped by `lhs, _ = cnum(token.val)`)
* `handle_if_directive`             ↦ `evalIf` (`bool(eval_expr())`, then end of line expected)

Tokens are those of one directive line after macro expansion and `defined` handling (an
identifier that is not a macro is the number 0).  Character constants are not modelled.
Python `//`-free: `int_div/int_rem` truncate; `x << k = x * 2^k`, `x >> k = ⌊x / 2^k⌋`;
`& | ^` on unbounded two's-complement integers.
Tied to the source by `Gen.PPExpr` (dump of the live `OP_MAP` with a behavioural probe of every
function; `Props.C26.op_map_matches_source`) and by the correspondence run of harness/c26.py.
-/
namespace Model.PPExpr
open Spec.PPInt (Sym Tok UnOp BinOp)

inductive Err
  | CompilerError | NotImplementedError | KeyError | ZeroDivisionError | ValueError | FuelExhausted
  deriving DecidableEq, Repr

def Err.name : Err → String
  | .CompilerError => "CompilerError" | .NotImplementedError => "NotImplementedError" | .KeyError => "KeyError"
  | .ZeroDivisionError => "ZeroDivisionError" | .ValueError => "ValueError" | .FuelExhausted => "FuelExhausted"

/-- the tree built by `parse_expression` (`expressions.NumericLiteral/UnaryOperator/BinaryOperator/
    TernaryOperator`; the operator is kept as its spelling) -/
inductive MTree
  | num (v : Int)
  | un (op : Sym) (a : MTree)
  | bin (op : Sym) (a b : MTree)
  | tern (c a b : MTree)
  deriving DecidableEq, Repr

/-- the functions stored in `OP_MAP` -/
inductive OpFn
  | mul | intDiv | intRem | add | sub | lshift | rshift | lt | gt | le | ge | eq | ne | and_ | xor | or_ | land | lor
  deriving DecidableEq, Repr

/-- `OP_MAP`: spelling ↦ (priority, right associative, function or `None`) -/
def opMap : List (Sym × Nat × Bool × Option OpFn) :=
  [(.star, 11, false, some .mul), (.slash, 11, false, some .intDiv), (.percent, 11, false, some .intRem),
   (.plus, 10, false, some .add), (.minus, 10, false, some .sub),
   (.shl, 9, false, some .lshift), (.shr, 9, false, some .rshift),
   (.lt, 8, false, some .lt), (.gt, 8, false, some .gt), (.le, 8, false, some .le), (.ge, 8, false, some .ge),
   (.eqeq, 7, false, some .eq), (.ne, 7, false, some .ne),
   (.amp, 6, false, some .and_), (.caret, 5, false, some .xor), (.bar, 4, false, some .or_),
   (.andand, 3, false, some .land), (.oror, 2, false, some .lor), (.quest, 1, true, none)]

def Sym.str : Sym → String
  | .star => "*" | .slash => "/" | .percent => "%" | .plus => "+" | .minus => "-" | .shl => "<<" | .shr => ">>"
  | .lt => "<" | .gt => ">" | .le => "<=" | .ge => ">=" | .eqeq => "==" | .ne => "!=" | .amp => "&"
  | .caret => "^" | .bar => "|" | .andand => "&&" | .oror => "||" | .tilde => "~" | .bang => "!"
  | .lp => "(" | .rp => ")" | .quest => "?" | .colon => ":"

/-- `_binop_take(op, priority)` -/
def binopTake (op : Sym) (priority : Nat) : Bool :=
  match opMap.lookup op with
  | some (prio, rightAssoc, _) => if !rightAssoc then decide (prio > priority) else decide (prio ≥ priority)
  | none => false

/-! ### Python integer operators -/

def andNot (a b : Nat) : Nat := a ^^^ (a &&& b)
def PyAnd : Int → Int → Int
  | .ofNat a, .ofNat b => ((a &&& b : Nat) : Int)
  | .ofNat a, .negSucc b => ((andNot a b : Nat) : Int)
  | .negSucc a, .ofNat b => ((andNot b a : Nat) : Int)
  | .negSucc a, .negSucc b => .negSucc (a ||| b)
def PyOr : Int → Int → Int
  | .ofNat a, .ofNat b => ((a ||| b : Nat) : Int)
  | .ofNat a, .negSucc b => .negSucc (andNot b a)
  | .negSucc a, .ofNat b => .negSucc (andNot a b)
  | .negSucc a, .negSucc b => .negSucc (a &&& b)
def PyXor : Int → Int → Int
  | .ofNat a, .ofNat b => ((a ^^^ b : Nat) : Int)
  | .ofNat a, .negSucc b => .negSucc (a ^^^ b)
  | .negSucc a, .ofNat b => .negSucc (a ^^^ b)
  | .negSucc a, .negSucc b => ((a ^^^ b : Nat) : Int)

/-- `ppci.lang.c.eval.int_div` (`y ≠ 0`) -/
def intDiv (x y : Int) : Int :=
  let q : Int := ((x.natAbs / y.natAbs : Nat) : Int)
  if decide (x < 0) = decide (y < 0) then q else -q

def intRem (x y : Int) : Int := x - y * intDiv x y

def ofBool (b : Bool) : Int := if b then 1 else 0

/-- the function applied to two Python ints (divisor non-zero, shift count non-negative at the call) -/
def OpFn.apply : OpFn → Int → Int → Int
  | .mul, x, y => x * y
  | .intDiv, x, y => Model.PPExpr.intDiv x y
  | .intRem, x, y => Model.PPExpr.intRem x y
  | .add, x, y => x + y
  | .sub, x, y => x - y
  | .lshift, x, y => x * 2 ^ y.toNat
  | .rshift, x, y => x / 2 ^ y.toNat
  | .lt, x, y => ofBool (decide (x < y))
  | .gt, x, y => ofBool (decide (x > y))
  | .le, x, y => ofBool (decide (x ≤ y))
  | .ge, x, y => ofBool (decide (x ≥ y))
  | .eq, x, y => ofBool (decide (x = y))
  | .ne, x, y => ofBool (decide (x ≠ y))
  | .and_, x, y => PyAnd x y
  | .xor, x, y => PyXor x y
  | .or_, x, y => PyOr x y
  | .land, x, y => ofBool (decide (x ≠ 0) && decide (y ≠ 0))
  | .lor, x, y => ofBool (decide (x ≠ 0) || decide (y ≠ 0))

/-- operand pairs on which every `OP_MAP` function is probed by the table dump (`/ %` by zero are
    reported as 0: the evaluator never makes that call) -/
def probes : List (Int × Int) := [(7, 3), (3, 7), (5, 5), (-7, 2), (0, 4), (-1, 1), (12, 10), (-12, 3), (-9, 4), (6, 0)]
/-- probes with a negative right operand (not applied to the shifts, which raise) -/
def probesNeg : List (Int × Int) := [(7, -2), (-7, -2), (0, -3), (5, -5), (-12, -10)]

def OpFn.probe (f : OpFn) : List Int :=
  (probes.map fun p => if (f = .intDiv ∨ f = .intRem) ∧ p.2 = 0 then 0 else f.apply p.1 p.2) ++
  (if f = .lshift ∨ f = .rshift then [] else probesNeg.map fun p => f.apply p.1 p.2)

/-! ### `parse_expression` -/

def symOf : Tok → Option Sym
  | .sym s => some s
  | .num _ _ _ => none

mutual
/-- `parse_expression(priority)`: returns the tree and the unread tokens of the line -/
def parseExpr : Nat → Nat → List Tok → Except Err (MTree × List Tok)
  | 0, _, _ => .error .FuelExhausted
  | fuel + 1, priority, toks =>
    match toks with
    | [] => .error .CompilerError                              -- consume(): "Expecting here ... but got nothing"
    | tok :: rest =>
      match tok with
      | .num v _ _ => parseLoop fuel priority (.num v) rest    -- lhs, _ = cnum(token.val)
      | .sym s =>
        if s = .bang ∨ s = .minus ∨ s = .tilde then
          match parseExpr fuel 11 rest with
          | .ok (a, r) => parseLoop fuel priority (.un s a) r
          | .error e => .error e
        else if s = .plus then
          match parseExpr fuel 11 rest with
          | .ok (a, r) => parseLoop fuel priority a r
          | .error e => .error e
        else if s = .lp then
          match parseExpr fuel 0 rest with
          | .ok (a, r) =>
            match r with
            | .sym .rp :: r' => parseLoop fuel priority a r'
            | _ => .error .CompilerError                       -- consume(")")
          | .error e => .error e
        else .error .NotImplementedError                       -- raise NotImplementedError(token.val)
/-- the `while True:` loop of `parse_expression` with `lhs` built so far -/
def parseLoop : Nat → Nat → MTree → List Tok → Except Err (MTree × List Tok)
  | 0, _, _, _ => .error .FuelExhausted
  | fuel + 1, priority, lhs, toks =>
    match toks with
    | [] => .ok (lhs, [])                                      -- end of line
    | tok :: rest =>
      match symOf tok with
      | none => .ok (lhs, toks)                                -- not an operator: unget, break
      | some op =>
        if binopTake op priority then
          match opMap.lookup op with
          | none => .error .KeyError
          | some (opPrio, _, func) =>
            if op = .quest then
              match parseExpr fuel 0 rest with
              | .ok (middle, r) =>
                match r with
                | .sym .colon :: r' =>
                  match parseExpr fuel opPrio r' with
                  | .ok (rhs, r'') => parseLoop fuel priority (.tern lhs middle rhs) r''
                  | .error e => .error e
                | _ => .error .CompilerError                   -- consume(":")
              | .error e => .error e
            else
              match parseExpr fuel opPrio rest with
              | .ok (rhs, r) =>
                match func with
                | some _ => parseLoop fuel priority (.bin op lhs rhs) r
                | none => .error .NotImplementedError
              | .error e => .error e
        else .ok (lhs, toks)                                   -- unget_token, break
end

/-! ### `_eval_tree` -/

def evalTree : MTree → Except Err Int
  | .num v => .ok v
  | .un op a => do
      let v ← evalTree a
      match op with
      | .bang => pure (ofBool (decide (v = 0)))
      | .minus => pure (-v)
      | .tilde => pure (-v - 1)
      | _ => .error .NotImplementedError
  | .bin op a b =>
      if op = .oror then do
        let v ← evalTree a
        if v ≠ 0 then pure 1 else do
          let w ← evalTree b
          pure (ofBool (decide (w ≠ 0)))
      else if op = .andand then do
        let v ← evalTree a
        if v = 0 then pure 0 else do
          let w ← evalTree b
          pure (ofBool (decide (w ≠ 0)))
      else
        match opMap.lookup op with
        | some (_, _, some f) => do
            let lhs ← evalTree a
            let rhs ← evalTree b
            if (op = .slash ∨ op = .percent) ∧ rhs = 0 then .error .CompilerError
            else if (op = .shl ∨ op = .shr) ∧ rhs < 0 then .error .CompilerError
            else pure (f.apply lhs rhs)
        | _ => .error .KeyError
  | .tern c a b => do
      let v ← evalTree c
      if v ≠ 0 then evalTree a else evalTree b

/-- `#if <tokens>`: is the group kept?  (`bool(eval_expr())`; anything left on the line is an error) -/
def evalIf (toks : List Tok) : Except Err Bool :=
  match parseExpr (2 * toks.length + 2) 0 toks with
  | .ok (t, []) => (evalTree t).map fun v => decide (v ≠ 0)
  | .ok (_, _ :: _) => .error .CompilerError                   -- "Expected end of line"
  | .error e => .error e

/-! ### the abstract tree the parser is expected to build -/

def unSym : UnOp → Sym := Spec.PPInt.UnOp.sym
def binSym : BinOp → Sym := Spec.PPInt.BinOp.sym

/-- the `MTree` of an abstract syntax tree: unary `+` builds no node, the suffix of a constant is dropped -/
def ofTree : Spec.PPInt.Tree → MTree
  | .num v _ _ => .num v
  | .un .plus a => ofTree a
  | .un op a => .un (unSym op) (ofTree a)
  | .bin op a b => .bin (binSym op) (ofTree a) (ofTree b)
  | .cond c a b => .tern (ofTree c) (ofTree a) (ofTree b)

end Model.PPExpr
