import PpciVerif.Spec.RV32
import PpciVerif.Model.RVEnc
/-
`Model.RVAnnot` — what ppci's RISC-V instruction classes DECLARE as read and written
(`Instruction.used_registers` / `defined_registers`: the leaf operands whose `Operand(read=…)` /
`Operand(write=…)` flag is set), as functions of a row of the regenerated annotation table
`Gen.RVAnnot.table`, and the register footprint of a `Spec.RV32` instruction (`Instr.reads/writes`,
proved sound against `Spec.RV32.step` in Proofs/RVStep.lean — they are not trusted).
Import-free apart from the Spec and the encoder model.
-/
namespace Model.RVAnnot
open Spec.RV32 Model.RVEnc

/-! ### declared sets -/

/-- one operand row: (name, kind `r`|`c`|`i`|`l`, slot, read, write) -/
abbrev OpRow := String × String × Int × Bool × Bool
abbrev Row := List OpRow

/-- the register number in slot `k` of an instance (`a`, `b`, `c` = register operands in syntax order) -/
def slotVal (o : Ops) (k : Int) : Option Nat :=
  if k = 0 then some o.a else if k = 1 then some o.b else if k = 2 then some o.c else none

/-- integer registers declared with the given flag (CSR operands are not integer registers) -/
def declared (sel : OpRow → Bool) (row : Row) (o : Ops) : List Nat :=
  row.filterMap (fun r => if r.2.1 == "r" && sel r then slotVal o r.2.2.1 else none)

def declReads (row : Row) (o : Ops) : List Nat := declared (fun r => r.2.2.2.1) row o
def declWrites (row : Row) (o : Ops) : List Nat := declared (fun r => r.2.2.2.2) row o

def lookupRow (t : List (String × Row)) (c : Cls) : Option Row :=
  (t.find? (fun p => p.1 == c.pyName)).map (·.2)

/-! ### the footprint of an instruction -/

/-- integer registers whose value can influence the effect of `i` (`x0` reads as zero: never listed) -/
def Instr.reads : Instr → List Nat
  | .lui _ _ | .auipc _ _ | .jal _ _ | .fence _ _ | .ecall | .ebreak | .mret | .csri _ _ _ _ => []
  | .jalr _ rs1 _ | .load _ _ rs1 _ | .alui _ _ rs1 _ | .shift _ _ rs1 _ | .csr _ _ rs1 _ => [rs1]
  | .branch _ rs1 rs2 _ | .alu _ _ rs1 rs2 | .mul _ _ rs1 rs2 => [rs1, rs2]
  | .store _ rs2 rs1 _ => [rs1, rs2]

/-- integer registers `i` can change -/
def Instr.writes : Instr → List Nat
  | .lui rd _ | .auipc rd _ | .jal rd _ | .jalr rd _ _ | .load _ rd _ _ | .alui _ rd _ _ | .shift _ rd _ _
  | .alu _ rd _ _ | .mul _ rd _ _ | .csr _ rd _ _ | .csri _ rd _ _ => [rd]
  | .branch _ _ _ _ | .store _ _ _ _ | .fence _ _ | .ecall | .ebreak | .mret => []

/-- the stack pointer: the one register the ISA documents as implicit operand of compressed
    instructions (`c.lwsp`, `c.swsp`, `c.addi4spn`, `c.addi16sp`) -/
def sp : Nat := 2

/-- classes whose instruction has the stack pointer as an implicit, documented operand -/
def implicitSp : Cls → Bool
  | .CLwsp | .CSwsp | .CAddi4spn | .CAddi16sp => true
  | _ => false

/-- does the annotation row cover the footprint of the instance's instruction?
    reads: every register read (other than `x0` and an implicit `sp`) is declared read;
    writes: every register written (other than `x0`) is declared written. -/
def covers (row : Row) (c : Cls) (o : Ops) : Bool :=
  let i := (meaning c o).instr
  ((Instr.reads i).all (fun r => r == 0 || (implicitSp c && r == sp) || (declReads row o).contains r))
  && ((Instr.writes i).all (fun r => r == 0 || (declWrites row o).contains r))

end Model.RVAnnot
