import PpciVerif.Model.Relax
import PpciVerif.Model.Reloc
/-
`Linker.do_relocations` / `Linker._do_relocation` of ppci/binutils/linker.py for the riscv:rvc ISA,
on top of the C10/C11 relocation models (`Model.Reloc.apply "riscv"`), and the tail of `Linker.link`:
`do_relaxations(); do_relocations()` (`finish`) versus `do_relocations()` alone (`finishPlain`, the
unrelaxed link the property compares with).  Core Lean only.
-/
namespace Model.RelaxLink
open Model.Linker (Obj Reloc Section getSec updSec getSymbolIdValue)
open Model.Relax

def ofTokErr : Model.Token.Err → Model.Relax.Err
  | .ValueError => .ValueError | .AssertionError => .AssertionError | .TypeError => .TypeError
  | .KeyError => .KeyError | .AttributeError => .OutOfDomain

/-- `Linker._do_relocation` -/
def doRelocation (o : Obj) (r : Reloc) : Except Err Obj := do
  let S ← liftL (getSymbolIdValue o r.symbolId)
  match getSec o.sections r.sect with
  | none => .error .KeyError
  | some sec =>
    let P := sec.address + r.offset
    match relocInfo r.typ with
    | none => .error .KeyError
    | some info =>
      let data := (sec.data.drop r.offset).take info.size
      Model.Relax.assert (data.length == info.size)
      match Model.Reloc.apply "riscv" r.typ r.addend (S : Int) data (P : Int) with
      | none => .error .OutOfDomain
      | some (.error e) => .error (ofTokErr e)
      | some (.ok out) =>
        Model.Relax.assert (out.length == info.size)
        .ok { o with sections := updSec o.sections r.sect (fun s => { s with data := splice s.data r.offset out }) }

/-- `Linker.do_relocations` -/
def doRelocations : Obj → List Reloc → Except Err Obj
  | o, [] => .ok o
  | o, r :: rest =>
    match doRelocation o r with
    | .error e => .error e
    | .ok o1 => doRelocations o1 rest

/-- the end of a non-partial `Linker.link`: relaxation, then relocation -/
def finish (o : Obj) : Except Err (Obj × HoleMap) := do
  let (o1, m) ← doRelaxations o
  let o2 ← doRelocations o1 o1.relocs
  .ok (o2, m)

/-- the same link with `do_relaxations` left out -/
def finishPlain (o : Obj) : Except Err Obj := doRelocations o o.relocs

end Model.RelaxLink
