import PpciVerif.Spec.IRRun
import PpciVerif.Model.Opt
import PpciVerif.Model.OptCheck
/-! Line-protocol engine of `Drivers/C02.lean` (kept in the library so the driver elaborates instantly).

All operations of `Spec.IRRun` (load / config / wf / run / env / show / roundtrip) on the current module, plus

  keep                 remember the current module as "before"                       -> ok
  check subst          validator `Model.OptCheck.checkSubst before current`                -> ok 1 | ok 0
  check align          validator `Model.OptCheck.checkAlign before current`                -> ok 1 | ok 0
  pass <name>          model pass (`Model.Opt.passByName`) applied to every function of the current module
                       -> ok <sexpr of the result> | err <PythonExceptionName> | bad-op
-/
namespace Model.OptRun
open Proto Spec.IR Spec.IRParse

structure St where
  ir : Spec.IRRun.St := {}
  before : Option Module := none

def step (st : St) (line : String) : St × String :=
  let l := line.trimAscii.toString
  match words l, st.ir.mod with
  | ["keep"], some m => ({ st with before := some m }, "ok")
  | ["ssa"], some m =>
    (st, "ok " ++ " ".intercalate (m.funcs.map fun f =>
      f.name ++ "=" ++ (if Model.OptCheck.ssaCheck f (Model.OptCheck.computeDoms f) then "1" else "0")
        ++ (if Model.OptCheck.tyCheck m f then "t" else "-")))
  | ["check", "subst"], some m =>
    match st.before with
    | some b => (st, if Model.OptCheck.checkSubst b m then "ok 1" else "ok 0")
    | none => (st, "bad-op")
  | ["check", "align"], some m =>
    match st.before with
    | some b => (st, if Model.OptCheck.checkAlign b m then "ok 1" else "ok 0")
    | none => (st, "bad-op")
  | ["pass", name], some m =>
    match Model.Opt.passByName name with
    | none => (st, "bad-op")
    | some p =>
      match Model.Opt.runPass p m with
      | .ok m' => (st, "ok " ++ showModule m')
      | .error e => (st, "err " ++ e)
  | _, _ =>
    let (ir', r) := Spec.IRRun.step' st.ir line
    ({ st with ir := ir' }, r)

end Model.OptRun
