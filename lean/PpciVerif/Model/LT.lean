/-
Hand model (import-free) of `ppci/graph/lt.py` (`LengauerTarjan.compute`, `dfs`,
`link`, `ancestor_with_lowest_semi` — the iterative path-compressing version
that `compute` calls) and of `ppci/graph/digraph.py:dfs`.

Executable only: no theorem is proved about this algorithm (see
`Props/C25.lean`: its outputs are validated per graph against the verified
reference `Spec.Graph.idom`).  The model is compared with the real code on
`dfnum`, `parent`, `semi` and `idom` of every generated graph.

Nodes are `0 … n-1`.  `succ[u]` / `pred[u]` list the successors / predecessors
*in the iteration order of the Python sets* `suc_map[u]` / `pre_map[u]` (the
harness reads that order off the real object), because the depth-first numbering
depends on it.  Python dicts are `Array (Option _)`; a missing key is
`KeyError`; `assert` is `AssertionError`.  Loops whose trip count is not
syntactically bounded carry fuel (`FuelExhausted`).
-/
namespace Model.LT

abbrev Adj := List (List Nat)
def row (a : Adj) (u : Nat) : List Nat := a.getD u []

structure St where
  dfnum : Array (Option Nat)
  vertex : Array Nat
  parent : Array (Option (Option Nat))   -- `some none` = the Python value `None` (entry)
  ancestor : Array (Option Nat)
  best : Array (Option Nat)
  semi : Array (Option Nat)
deriving Repr

abbrev M := Except String

def key {α : Type} (a : Array (Option α)) (i : Nat) : M α :=
  match a[i]? with
  | some (some x) => pure x
  | _ => throw "KeyError"

/-- `digraph.dfs(start_node)`: the yielded `(parent, node)` pairs -/
def dfsLoop (succ : Adj) : Nat → List (Option Nat × Nat) → Array Bool → Array (Option Nat × Nat) →
    M (Array (Option Nat × Nat))
  | 0, _, _, _ => throw "FuelExhausted"
  | f + 1, work, visited, out =>
    match work with
    | [] => pure out
    | (p, v) :: rest =>
      if visited.getD v true then dfsLoop succ f rest visited out
      else dfsLoop succ f (((row succ v).map fun s => (some v, s)).reverse ++ rest) (visited.setIfInBounds v true) (out.push (p, v))

/-- `LengauerTarjan.dfs` -/
def runDfs (n : Nat) (succ : Adj) (entry : Nat) : M St := do
  let edges := succ.foldl (fun a r => a + r.length) 0
  let pairs ← dfsLoop succ (edges + n + 2) [(none, entry)] (Array.replicate n false) #[]
  let mut st : St := { dfnum := Array.replicate n none, vertex := #[], parent := Array.replicate n none,
                       ancestor := Array.replicate n none, best := Array.replicate n none, semi := Array.replicate n none }
  let mut k := 0
  for (p, v) in pairs do
    st := { st with dfnum := st.dfnum.setIfInBounds v (some k), parent := st.parent.setIfInBounds v (some p),
                    vertex := st.vertex.push v }
    k := k + 1
  pure st

/-- the `while a in self.ancestor:` loop: collects `path` (most recent pair first) -/
def climb (st : St) : Nat → Nat → Nat → List (Nat × Nat) → M (List (Nat × Nat))
  | 0, _, _, _ => throw "FuelExhausted"
  | f + 1, v, a, path =>
    match st.ancestor.getD a none with
    | some a' => climb st f a a' ((v, a) :: path)
    | none => pure path

/-- `ancestor_with_lowest_semi(v)` (iterative, with path compression) -/
def awls (n : Nat) (st : St) (v : Nat) : M (St × Nat) := do
  let a ← key st.ancestor v
  let path ← climb st (n + 1) v a []
  -- `for v, a in reversed(path):` — `path` above is already reversed
  let mut st := st
  for (v, a) in path do
    let b ← key st.best a
    let aa ← key st.ancestor a
    st := { st with ancestor := st.ancestor.setIfInBounds v (some aa) }
    let sb ← key st.semi b
    let bv ← key st.best v
    let sbv ← key st.semi bv
    let d1 ← key st.dfnum sb
    let d2 ← key st.dfnum sbv
    if d1 < d2 then
      st := { st with best := st.best.setIfInBounds v (some b) }
  let r ← key st.best v
  pure (st, r)

structure Out where
  dfnum : List (Option Nat)
  parent : List (Option Nat)      -- entry and unreached nodes: none
  semi : List (Option Nat)
  idom : List (Option Nat)

/-- `LengauerTarjan.compute(graph, entry)` -/
def compute (n : Nat) (succ pred : Adj) (entry : Nat) : M Out := do
  let mut st ← runDfs n succ entry
  let mut bucket : Array (List Nat) := Array.replicate n []
  let mut idom : Array (Option Nat) := Array.replicate n none
  let mut samedom : Array (Option Nat) := Array.replicate n none
  let order := (st.vertex.toList.drop 1).reverse
  for w in order do
    let p ← match st.parent[w]? with
      | some (some (some p)) => pure p
      | _ => throw "KeyError"
    let dw ← key st.dfnum w
    let mut s := p
    for v in row pred w do
      let dv ← key st.dfnum v
      let s2 ←
        if dv ≤ dw then pure v
        else do
          let (st', y) ← awls n st v
          st := st'
          key st.semi y
      let d2 ← key st.dfnum s2
      let ds ← key st.dfnum s
      if d2 < ds then s := s2
    if (st.semi.getD w none).isSome then throw "AssertionError"
    st := { st with semi := st.semi.setIfInBounds w (some s) }
    bucket := bucket.modify s (· ++ [w])
    -- link(p, w)
    if (st.ancestor.getD w none).isSome then throw "AssertionError"
    st := { st with ancestor := st.ancestor.setIfInBounds w (some p), best := st.best.setIfInBounds w (some w) }
    for v in bucket.getD p [] do
      let (st', y) ← awls n st v
      st := st'
      let sy ← key st.semi y
      let sv ← key st.semi v
      if sy = sv then idom := idom.setIfInBounds v (some p)
      else samedom := samedom.setIfInBounds v (some y)
    bucket := bucket.setIfInBounds p []
  for w in st.vertex.toList.drop 1 do
    match samedom.getD w none with
    | some y =>
      let i ← key idom y
      idom := idom.setIfInBounds w (some i)
    | none =>
      if (idom.getD w none).isNone then throw "AssertionError"
  pure { dfnum := st.dfnum.toList, parent := st.parent.toList.map (fun x => match x with | some (some p) => some p | _ => none),
         semi := st.semi.toList, idom := idom.toList }

end Model.LT
