/-
C23 — control-flow structuring of the IR→WebAssembly translation.

Import-free model of

* the control-flow graph of an IR function as `ppci/graph/cfg.py:ir_function_to_graph`
  sees it (blocks with terminator `ret` / `jmp t` / `cjmp yes no`),
* the shape tree returned by `ppci/graph/relooper.py:find_structure`
  (`BasicShape`, `SequenceShape`, `IfShape`, `LoopShape`, `BreakShape(level)`,
  `ContinueShape(level)`, Python `None`),
* the structured WebAssembly control skeleton that
  `ppci/wasm/ppci2wasm.py:IrToWasmCompiler.do_shape` emits for a shape
  (`compile`, mirrors `do_shape` incl. `_get_block_level` and its failure modes),
* the execution of such a skeleton (wasm label semantics: `br n` leaves `n+1`
  enclosing constructs, a `loop` label restarts the loop, falling off the end of
  a `loop` body leaves the loop) producing the trace of basic blocks executed,
  parameterised by a branch oracle, and the path the CFG takes under the same
  oracle,
* the validator `check cfg skeleton` (soundness proved in `Proofs/Shape.lean`).
-/
namespace Model.Shape

/-! ## Control-flow graph -/

/-- terminator of a basic block (`Return`/`Exit`, `Jump`, `CJump`) -/
inductive Term where
  | ret
  | jmp (t : Nat)
  | cj (yes no : Nat)
  deriving Repr, DecidableEq

structure Cfg where
  entry : Nat
  terms : List Term
  deriving Repr

def Cfg.term (g : Cfg) (b : Nat) : Option Term := g.terms[b]?

/-- A branch oracle decides the outcome of a conditional jump from the whole
    history of blocks executed so far (most recent first, the branching block
    included).  Oracles indexed by position or by (block, visit count) are special
    cases. -/
abbrev Oracle := List Nat → Bool

/-- an observation of a run: blocks executed (most recent first) and whether the
    function has returned -/
structure Trace where
  blocks : List Nat
  done : Bool
  deriving Repr, DecidableEq

/-- run the CFG for at most `k` blocks from block `b` with history `h` -/
def cfgRun (g : Cfg) (o : Oracle) : Nat → Nat → List Nat → Trace
  | 0, _, h => ⟨h, false⟩
  | k+1, b, h =>
    match g.term b with
    | none => ⟨h, false⟩
    | some .ret => ⟨b :: h, true⟩
    | some (.jmp t) => cfgRun g o k t (b :: h)
    | some (.cj y n) => cfgRun g o k (if o (b :: h) then y else n) (b :: h)

/-- the first `k` blocks the function executes under oracle `o` -/
def cfgTrace (g : Cfg) (o : Oracle) (k : Nat) : Trace := cfgRun g o k g.entry []

/-! ## Structured WebAssembly control skeleton -/

/-- `code b` is the straight-line code of block `b` (`do_block`): it ends with
    `return` when `b` returns, leaves the branch condition on the operand stack
    when `b` ends in a conditional jump, and nothing otherwise.  `ite` is
    `if … else … end` consuming the condition.  `block`/`loop`/`ite` are labels. -/
inductive W where
  | skip
  | code (b : Nat)
  | br (n : Nat)
  | seq (a b : W)
  | block (a : W)
  | loop (a : W)
  | ite (y n : W)
  deriving Repr, DecidableEq

/-- machine state: history (most recent first) and the stack of pending
    conditions -/
structure St where
  hist : List Nat
  conds : List Bool
  deriving Repr

inductive Out where
  | fall (s : St)          -- fell through the end of the construct
  | br (n : Nat) (s : St)  -- branching to the label `n` levels up
  | ret (s : St)           -- function returned
  | out (s : St)           -- fuel exhausted (observation of a prefix)
  | stuck (s : St)         -- no rule applies (`if` without a condition, undefined block)
  deriving Repr

def Out.st : Out → St
  | .fall s | .br _ s | .ret s | .out s | .stuck s => s

/-- leave one label: `br 0` targets this construct's end -/
def unlabel : Out → Out
  | .br 0 s => .fall s
  | .br (n+1) s => .br n s
  | r => r

/-- fuel-indexed big-step execution (fuel bounds the depth of the derivation) -/
def exec (g : Cfg) (o : Oracle) : Nat → W → St → Out
  | 0, _, s => .out s
  | _+1, .skip, s => .fall s
  | _+1, .code b, s =>
    match g.term b with
    | none => .stuck s
    | some .ret => .ret ⟨b :: s.hist, s.conds⟩
    | some (.jmp _) => .fall ⟨b :: s.hist, s.conds⟩
    | some (.cj _ _) => .fall ⟨b :: s.hist, o (b :: s.hist) :: s.conds⟩
  | _+1, .br n, s => .br n s
  | f+1, .seq a b, s =>
    match exec g o f a s with
    | .fall s' => exec g o f b s'
    | r => r
  | f+1, .block a, s => unlabel (exec g o f a s)
  | f+1, .loop a, s =>
    match exec g o f a s with
    | .br 0 s' => exec g o f (.loop a) s'
    | .br (n+1) s' => .br n s'
    | r => r
  | f+1, .ite y n, s =>
    match s.conds with
    | [] => .stuck s
    | c :: cs => unlabel (exec g o f (if c then y else n) ⟨s.hist, cs⟩)

def St.init : St := ⟨[], []⟩

/-- what is observed of the wasm function with the given fuel: a trace when it
    returned or is still running, `none` when it got stuck, fell off the end of
    the function body (ppci then returns a dummy value) or branched out of it -/
def wasmTrace (g : Cfg) (o : Oracle) (w : W) (fuel : Nat) : Option Trace :=
  match exec g o fuel w St.init with
  | .ret s => some ⟨s.hist, true⟩
  | .out s => some ⟨s.hist, false⟩
  | _ => none

/-! ## The validator -/

/-- abstract state between two instructions: what the CFG executes next -/
inductive Abs where
  | dead                -- unreachable
  | next (t : Nat)      -- the CFG continues with block `t`
  | cond (y n : Nat)    -- a condition is on the stack: `y` if true, `n` if false
  deriving Repr, DecidableEq

/-- pending branches out of the construct being checked: (label depth, CFG target) -/
abbrev Obs := List (Nat × Nat)

def here (obs : Obs) : List Nat :=
  obs.filterMap (fun p => match p.1 with | 0 => some p.2 | _+1 => none)

def outer (obs : Obs) : Obs :=
  obs.filterMap (fun p => match p.1 with | 0 => none | n+1 => some (n, p.2))

/-- a state usable as "next block is t": a conditional jump whose two targets
    coincide leaves an unused condition on the stack and continues with `t` -/
def asNext : Abs → Option Nat
  | .next t => some t
  | .cond y n => if y = n then some y else none
  | .dead => none

/-- merge the fall-through state with the targets of the branches to this label -/
def join (p : Abs) (ts : List Nat) : Option Abs :=
  match p with
  | .cond _ _ => none
  | .next t => if ts.all (· == t) then some (.next t) else none
  | .dead =>
    match ts with
    | [] => some .dead
    | t :: r => if r.all (· == t) then some (.next t) else none

def targets : Abs → Option (List Nat)
  | .dead => some []
  | .next t => some [t]
  | .cond _ _ => none

/-- a loop body must execute a block before it can branch back (progress) -/
def startsWithCode : W → Bool
  | .code _ => true
  | .seq a _ => startsWithCode a
  | _ => false

/-- symbolic execution of the skeleton against the CFG -/
def chk (g : Cfg) : W → Abs → Option (Abs × Obs)
  | .skip, p => some (p, [])
  | .code b, p =>
    match p with
    | .dead => some (.dead, [])
    | _ =>
      match asNext p with
      | none => none
      | some t =>
        if t = b then
          match g.term b with
          | none => none
          | some .ret => some (.dead, [])
          | some (.jmp t') => some (.next t', [])
          | some (.cj y n) => some (.cond y n, [])
        else none
  | .br n, p =>
    match p with
    | .dead => some (.dead, [])
    | .next t => some (.dead, [(n, t)])
    | .cond _ _ => none
  | .seq a b, p =>
    match chk g a p with
    | none => none
    | some (p1, o1) =>
      match chk g b p1 with
      | none => none
      | some (p2, o2) => some (p2, o1 ++ o2)
  | .block a, p =>
    match p with
    | .dead => some (.dead, [])
    | .cond _ _ => none
    | .next t =>
      match chk g a (.next t) with
      | none => none
      | some (p1, o1) =>
        match join p1 (here o1) with
        | none => none
        | some q => some (q, outer o1)
  | .loop a, p =>
    match p with
    | .dead => some (.dead, [])
    | .cond _ _ => none
    | .next t =>
      if startsWithCode a then
        match chk g a (.next t) with
        | none => none
        | some (p1, o1) =>
          if (here o1).all (· == t) then
            match join p1 [] with
            | none => none
            | some q => some (q, outer o1)
          else none
      else none
  | .ite y n, p =>
    match p with
    | .dead => some (.dead, [])
    | .next _ => none
    | .cond ty tn =>
      match chk g y (.next ty), chk g n (.next tn) with
      | some (p1, o1), some (p2, o2) =>
        match targets p2 with
        | none => none
        | some t2 =>
          match join p1 (here o1 ++ here o2 ++ t2) with
          | none => none
          | some q => some (q, outer o1 ++ outer o2)
      | _, _ => none

/-- the validator: starting at the entry block, every path through the skeleton
    follows the CFG, ends in a returning block, never falls off the end and never
    branches out of the function body -/
def check (g : Cfg) (w : W) : Bool :=
  match chk g w (.next g.entry) with
  | some (.dead, []) => true
  | _ => false

/-! ## Shapes (relooper output) and their compilation (`do_shape`) -/

inductive Shape where
  | none                                  -- Python `None`
  | basic (b : Nat)                       -- BasicShape(content)
  | seq (ss : List Shape)                 -- SequenceShape(shapes)
  | ite (b : Nat) (yes no : Shape)        -- IfShape(content, yes_shape, no_shape)
  | loop (body : Shape)                   -- LoopShape(body)
  | brk (level : Nat)                     -- BreakShape(level)
  | cont (level : Nat)                    -- ContinueShape(level)
  deriving Repr

/-- Python exceptions `do_shape` can raise -/
inductive Err where
  | NotImplementedError | AssertionError | TypeError | ValueError
  deriving Repr, DecidableEq

def Err.name : Err → String
  | .NotImplementedError => "NotImplementedError"
  | .AssertionError => "AssertionError"
  | .TypeError => "TypeError"
  | .ValueError => "ValueError"

/-- `do_shape`.  `lvl` is `_get_block_level()`: the number of `if` blocks opened
    since the innermost enclosing loop, `none` outside every loop (the Python
    function then returns `None`: `None + 1` is a TypeError for a break,
    `Ref('label', index=None)` a ValueError for a continue). -/
def compile : Shape → Option Nat → Except Err W
  | .none, _ => .error .NotImplementedError
  | .basic b, _ => .ok (.code b)
  | .seq ss, lvl => compileSeq ss lvl
  | .ite b y n, lvl => do
    let wy ← (match y with | .none => pure W.skip | _ => compile y (lvl.map (· + 1)))
    let wn ← (match n with | .none => pure W.skip | _ => compile n (lvl.map (· + 1)))
    pure (.seq (.code b) (.ite wy wn))
  | .brk level, lvl =>
    if level ≠ 0 then .error .AssertionError else
    match lvl with
    | none => .error .TypeError
    | some i => .ok (.br (i + 1))
  | .cont level, lvl =>
    if level ≠ 0 then .error .AssertionError else
    match lvl with
    | none => .error .ValueError
    | some i => .ok (.br i)
  | .loop body, _ => do
    let wb ← compile body (some 0)
    pure (.block (.loop wb))
where
  compileSeq : List Shape → Option Nat → Except Err W
    | [], _ => .ok .skip
    | .none :: rest, lvl => compileSeq rest lvl
    | s :: rest, lvl => do
      let a ← compile s lvl
      let b ← compileSeq rest lvl
      pure (.seq a b)

/-- validator on shapes: compile as `do_shape` does, then `check` -/
def checkShape (g : Cfg) (s : Shape) : Bool :=
  match compile s none with
  | .ok w => check g w
  | .error _ => false

/-- flatten a skeleton to the instruction stream (canonical text form) -/
def W.tokens : W → List String
  | .skip => []
  | .code b => [s!"c{b}"]
  | .br n => [s!"r{n}"]
  | .seq a b => a.tokens ++ b.tokens
  | .block a => "B" :: a.tokens ++ ["."]
  | .loop a => "L" :: a.tokens ++ ["."]
  | .ite y n => "I" :: y.tokens ++ ("E" :: n.tokens ++ ["."])

end Model.Shape
