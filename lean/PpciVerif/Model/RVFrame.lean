import PpciVerif.Spec.RV32
/-!
# `Model.RVFrame` — prologue and epilogue of the RISC-V back-end (`ppci/arch/riscv/arch.py`)

```python
def gen_prologue(self, frame):
    ssize = round_up(frame.stacksize + 8)
    yield Addi(SP, SP, -ssize); yield Sw(LR, 4, SP); yield Sw(FP, 0, SP); yield Addi(FP, SP, 8)
    saved_registers = self.get_callee_saved(frame); rsize = round_up(4 * len(saved_registers))
    yield Addi(SP, SP, -rsize)
    i = 0
    for register in saved_registers:  i -= 4;  yield Sw(register, i + rsize, SP)
    extras = max(frame.out_calls) if frame.out_calls else 0
    if extras:  yield Addi(SP, SP, -round_up(extras))
def gen_epilogue(self, frame):
    if extras:  yield Addi(SP, SP, round_up(extras))
    i = 0
    for register in saved_registers:  i -= 4;  yield Lw(register, i + rsize, SP)
    yield Addi(SP, SP, rsize); yield Lw(LR, 4, SP); yield Lw(FP, 0, SP); yield Addi(SP, SP, ssize); yield Blr(R0, LR, 0)
def round_up(s):  return s + (16 - s % 16)
```
With the `rvc` option the same instructions are emitted in their compressed forms (`c.addi16sp`, `c.swsp`, `c.lwsp`,
`c.addi4spn`, `c.jr`) where the operands fit; their expansions (`Spec.RV32.CInstr.expand`) are the instructions below.

The instructions are kept in a four-instruction mini ISA `FI` (`toRV` maps it into `Spec.RV32.Instr`); `exec` is the
word-granular stack machine the frame theorem is stated on: registers hold integers, memory maps a byte address to
the word stored there (all accesses of a frame are at `sp + 4k`, so words never overlap partially).
-/
namespace Model.RVFrame

inductive FI where
  | addi (rd rs : Nat) (k : Int)
  | sw (r base : Nat) (off : Int)
  | lw (r base : Nat) (off : Int)
  | ret
  deriving Repr, DecidableEq, Inhabited

def toRV : FI → Spec.RV32.Instr
  | .addi rd rs k => .alui .addi rd rs k
  | .sw r b off => .store .sw r b off
  | .lw r b off => .load .lw r b off
  | .ret => .jalr 0 1 0

/-- `round_up` (Python `%` = floor modulo; `Int.emod` for the positive divisor 16) -/
def roundUp (s : Int) : Int := s + (16 - s % 16)

def saveI : List Nat → Int → List FI
  | [], _ => []
  | r :: rest, off => .sw r 2 (off - 4) :: saveI rest (off - 4)

def restoreI : List Nat → Int → List FI
  | [], _ => []
  | r :: rest, off => .lw r 2 (off - 4) :: restoreI rest (off - 4)

def ssize (stacksize : Int) : Int := roundUp (stacksize + 8)
def rsize (saved : List Nat) : Int := roundUp (4 * saved.length)

/-- `extras = max(frame.out_calls) if frame.out_calls else 0` is passed in -/
def prologue (stacksize extras : Int) (saved : List Nat) : List FI :=
  [.addi 2 2 (-(ssize stacksize)), .sw 1 2 4, .sw 8 2 0, .addi 8 2 8, .addi 2 2 (-(rsize saved))]
    ++ saveI saved (rsize saved)
    ++ (if extras ≠ 0 then [.addi 2 2 (-(roundUp extras))] else [])

def epilogue (stacksize extras : Int) (saved : List Nat) : List FI :=
  (if extras ≠ 0 then [.addi 2 2 (roundUp extras)] else [])
    ++ restoreI saved (rsize saved)
    ++ [.addi 2 2 (rsize saved), .lw 1 2 4, .lw 8 2 0, .addi 2 2 (ssize stacksize), .ret]

/-! ### the stack machine -/

structure FState where
  regs : Nat → Int
  mem : Int → Int

def setReg (f : Nat → Int) (r : Nat) (v : Int) : Nat → Int := fun q => if q = r then v else f q
def setMem (m : Int → Int) (a v : Int) : Int → Int := fun x => if x = a then v else m x

def exec : FI → FState → FState
  | .addi rd rs k, t => { t with regs := setReg t.regs rd (t.regs rs + k) }
  | .sw r b off, t => { t with mem := setMem t.mem (t.regs b + off) (t.regs r) }
  | .lw r b off, t => { t with regs := setReg t.regs r (t.mem (t.regs b + off)) }
  | .ret, t => t

def run : List FI → FState → FState
  | [], t => t
  | i :: rest, t => run rest (exec i t)

end Model.RVFrame
