/-
Hand model of ppci/utils/integer_set.py (import-free).

An `IntegerSet` object is modelled by its `ranges` attribute, a
`List (Int × Int)` of inclusive ranges.  Python `int` ↦ `Int`.

* `IntegerSet(*values)`            ↦ `mk values` (an `int` argument `v` is the pair `(v, v)`):
  `filter (a ≤ b)`, `sorted` (lexicographic tuple order; modelled by insertion sort —
  for a total order every sorting algorithm returns the same list), then
  `merge_overlapping_intervals` ↦ `merge`/`mergeLoop` (same comparison `s[0] > r[1] + 1`,
  same `max`).
* `contains`                        ↦ `contains`, with a literal model of
  `bisect.bisect(self.ranges, (value,))`: `(value,) < (a, b)` ⇔ `value ≤ a`
  (a 1-tuple that is a prefix of a 2-tuple compares smaller).
* `union`                           ↦ `mk (a ++ b)`.
* `intersection` / `difference`     ↦ the same two-pointer loops (`interLoop`, `diffLoop`;
  the "current" ranges `r`, `s` are the heads of the two lists; `next(i, None)` drops the head;
  `r = (s[1] + 1, r[1])` replaces the head), followed by the constructor as in the code.
  Termination of the `while` loops is a proof obligation (well-founded recursion).
* `symmetric_difference`            ↦ `(a - b) | (b - a)`.
* `cardinality`, `__iter__`, `__eq__`, `empty`/`__bool__` literally.

Tied to the source by the correspondence check (harness/c33.py).
-/
namespace Model.IntSet

abbrev R := Int × Int

/-- tuple comparison `x <= y` on pairs of ints (lexicographic) -/
def lexLe (x y : R) : Bool := decide (x.1 < y.1) || (decide (x.1 = y.1) && decide (x.2 ≤ y.2))

/-- insertion into an ascending list (model of `sorted`) -/
def insertSorted (x : R) : List R → List R
  | [] => [x]
  | y :: t => if lexLe x y then x :: y :: t else y :: insertSorted x t

def sort : List R → List R
  | [] => []
  | x :: t => insertSorted x (sort t)

/-- loop of `merge_overlapping_intervals`, `r` is the range being grown -/
def mergeLoop (r : R) : List R → List R
  | [] => [r]
  | s :: t =>
    if s.1 > r.2 + 1 then r :: mergeLoop s t           -- found hole: yield r; r = s
    else mergeLoop (r.1, max r.2 s.2) t                 -- merge end values

def merge : List R → List R
  | [] => []
  | r :: t => mergeLoop r t

/-- `IntegerSet.__init__` -/
def mk (values : List R) : List R :=
  merge (sort (values.filter (fun r => decide (r.1 ≤ r.2))))

/-- `bisect.bisect_right(ranges, (value,), lo, hi)`: `if x < a[mid]: hi = mid else: lo = mid + 1` -/
def bisectLoop (rs : List R) (v : Int) (lo hi : Nat) : Nat :=
  if _h : lo < hi then
    let mid := (lo + hi) / 2
    if v ≤ (rs.getD mid (0, 0)).1 then bisectLoop rs v lo mid
    else bisectLoop rs v (mid + 1) hi
  else lo
termination_by hi - lo
decreasing_by all_goals omega

def bisect (rs : List R) (v : Int) : Nat := bisectLoop rs v 0 rs.length

/-- `IntegerSet.contains` -/
def contains (rs : List R) (v : Int) : Bool :=
  let index := bisect rs v
  (decide (index < rs.length) && decide (v = (rs.getD index (0, 0)).1))
  || (decide (index > 0)
      && decide ((rs.getD (index - 1) (0, 0)).1 ≤ v) && decide (v ≤ (rs.getD (index - 1) (0, 0)).2))

/-- `IntegerSet.union` -/
def union (a b : List R) : List R := mk (a ++ b)

/-- the `while r and s` loop of `intersection`; `r`/`s` are the heads -/
def interLoop : List R → List R → List R
  | [], _ => []
  | _ :: _, [] => []
  | r :: i, s :: j =>
    let x := max r.1 s.1
    let y := min r.2 s.2
    let out := if x ≤ y then [(x, y)] else []
    if _h1 : r.2 ≤ y then
      if _h2 : s.2 ≤ y then out ++ interLoop i j
      else out ++ interLoop i (s :: j)
    else
      if _h2 : s.2 ≤ y then out ++ interLoop (r :: i) j
      else out ++ interLoop (r :: i) (s :: j)   -- neither iterator advances: unreachable (see decreasing_by)
termination_by a b => a.length + b.length
decreasing_by
  all_goals simp only [List.length_cons]
  all_goals omega

def inter (a b : List R) : List R := mk (interLoop a b)

/-- the `while r` loop of `difference` -/
def diffLoop : List R → List R → List R
  | [], _ => []
  | r :: i, [] => r :: diffLoop i []
  | r :: i, s :: j =>
    if r.1 > s.2 then diffLoop (r :: i) j                    -- s before r
    else if r.2 < s.1 then r :: diffLoop i (s :: j)           -- s after r
    else
      let out := if r.1 < s.1 then [(r.1, s.1 - 1)] else []
      if r.2 > s.2 then out ++ diffLoop ((s.2 + 1, r.2) :: i) j
      else out ++ diffLoop i (s :: j)
termination_by a b => a.length + b.length
decreasing_by
  all_goals simp only [List.length_cons]
  all_goals omega

def diff (a b : List R) : List R := mk (diffLoop a b)

/-- `symmetric_difference`: `(self - other) | (other - self)` -/
def symDiff (a b : List R) : List R := union (diff a b) (diff b a)

/-- `cardinality` -/
def cardinality : List R → Int
  | [] => 0
  | r :: t => (r.2 - r.1 + 1) + cardinality t

/-- `list(range(a, a + n))` -/
def rangeFrom (a : Int) : Nat → List Int
  | 0 => []
  | n + 1 => a :: rangeFrom (a + 1) n

/-- `list(range(a, b))` -/
def pyRange (a b : Int) : List Int := rangeFrom a (b - a).toNat

/-- `__iter__`: `for r in ranges: yield from range(r[0], r[1] + 1)` -/
def iter : List R → List Int
  | [] => []
  | r :: t => pyRange r.1 (r.2 + 1) ++ iter t

/-- `__eq__` (on two IntegerSets): tuple equality of `ranges` -/
def eq (a b : List R) : Bool := decide (a = b)

/-- `empty()` / `not __bool__()` -/
def empty (a : List R) : Bool := a.isEmpty

end Model.IntSet
