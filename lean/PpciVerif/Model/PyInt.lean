/-
Python `int` bitwise operators on Lean `Int` (import-free; core Lean 4.33 has
`Int.not`/`Int.shiftRight` but no and/or/xor on `Int`).

Python integers behave as infinite two's-complement bit strings: a negative
number `-(a+1)` (`Int.negSucc a`) is the bitwise complement of `a`.  The four
sign cases below are de Morgan on that representation; `andNot a b = a & ~b`
on naturals is `a ^^^ (a &&& b)` (clearing in `a` the bits it shares with `b`).

Shifts: `x << k = x * 2^k`, `x >> k = x / 2^k` (`Int` division is Euclidean =
floor for a positive divisor, like Python's `>>`); a negative count raises
`ValueError` in Python and is handled by the caller.
Facts about these (`and x (2^k-1) = x % 2^k`, single-bit masks, agreement with
`Nat` operators on non-negative arguments) are proved in `Proofs/PyInt.lean`.
-/
namespace Model.PyInt

/-- `a & ~b` on naturals -/
def andNot (a b : Nat) : Nat := a ^^^ (a &&& b)

/-- Python `x & y` -/
def and : Int → Int → Int
  | .ofNat a, .ofNat b => ((a &&& b : Nat) : Int)
  | .ofNat a, .negSucc b => ((andNot a b : Nat) : Int)
  | .negSucc a, .ofNat b => ((andNot b a : Nat) : Int)
  | .negSucc a, .negSucc b => .negSucc (a ||| b)

/-- Python `x | y` -/
def or : Int → Int → Int
  | .ofNat a, .ofNat b => ((a ||| b : Nat) : Int)
  | .ofNat a, .negSucc b => .negSucc (andNot b a)
  | .negSucc a, .ofNat b => .negSucc (andNot a b)
  | .negSucc a, .negSucc b => .negSucc (a &&& b)

/-- Python `x ^ y` -/
def xor : Int → Int → Int
  | .ofNat a, .ofNat b => ((a ^^^ b : Nat) : Int)
  | .ofNat a, .negSucc b => .negSucc (a ^^^ b)
  | .negSucc a, .ofNat b => .negSucc (a ^^^ b)
  | .negSucc a, .negSucc b => ((a ^^^ b : Nat) : Int)

/-- Python `~x` -/
def not (x : Int) : Int := -x - 1

/-- `abs(x).bit_length()` -/
def bitLength (x : Int) : Nat :=
  let n := x.natAbs
  if n = 0 then 0 else Nat.log2 n + 1

end Model.PyInt
