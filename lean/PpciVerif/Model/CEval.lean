/-
Hand model of ppci's C integer constant-expression pipeline (import-free), as it
is after the `fix:` commits 4536e8c (eval.py, context.py), 21f7d05 (semantics.py),
64ab988 (scope.py) and 4036049 (semantics.py) recorded in findings/C27.json:

* `CSemantics.on_number/on_char/on_unop/on_binop/on_ternop/on_cast/coerce/promote/
  get_common_type` (ppci/lang/c/semantics.py)  ↦ `elaborate`  (source tree ↦ typed tree)
* `ConstantExpressionEvaluator` (ppci/lang/c/eval.py)                ↦ `eval`
* `CContext.wrap_integer/to_integer_type/limit_max/pack`  (context.py) ↦ same names
* the four users: global initialiser (`gen_global_initialize_expression`),
  `case` label (`on_case`/`gen_case`), enumerator (`_calculate_enum_values`),
  array size (`sizeof`/`gen_global_initialize_array`)

Scope: the ten integer `BasicType`s on x86_64 (sizes from `CContext.type_size_map`);
floats, pointers, enums *inside* expressions, `sizeof`, variables are not modelled.
Python `int` ↦ `Int`; `x & (2^k-1)` ↦ `x % 2^k`; `x >> k` ↦ `x / 2^k` (floor);
`x << k` ↦ `x * 2^k`; `& | ^` ↦ `PyAnd/PyOr/PyXor` (infinite two's complement).
Outcomes are `Except Err`: `CompilerError` is a diagnostic, every other `Err` is an
internal error (a Python exception that is not a diagnostic).

The pre-fix evaluator is kept in `Model/CEvalLegacy.lean` for the negation witnesses.
Tied to the source by `Gen.CEval` (operator tables, ranks, sizes, type sets, pack
formats dumped from the live objects; `Props.C27.tables_match_source`) and by the
correspondence run of harness/c27.py.
-/
namespace Model.CEval

/-! ### outcomes -/

inductive Err
  | CompilerError | KeyError | NotImplementedError | StructError | AssertionError
  | ZeroDivisionError | ValueError | UnboundLocalError | TypeError
  deriving DecidableEq, Repr

def Err.name : Err → String
  | .CompilerError => "CompilerError" | .KeyError => "KeyError"
  | .NotImplementedError => "NotImplementedError" | .StructError => "struct.error"
  | .AssertionError => "AssertionError" | .ZeroDivisionError => "ZeroDivisionError"
  | .ValueError => "ValueError" | .UnboundLocalError => "UnboundLocalError" | .TypeError => "TypeError"

/-- everything except a compiler diagnostic is an internal error (DESIGN Appendix A) -/
def Err.isInternal (e : Err) : Bool := e != .CompilerError

def isInternal {α} : Except Err α → Bool
  | .ok _ => false
  | .error e => e.isInternal

/-! ### types (`BasicType` ids of the integer types) -/

inductive Ty
  | char | uchar | short | ushort | int | uint | long | ulong | llong | ullong
  deriving DecidableEq, Repr, Inhabited

namespace Ty

def all : List Ty := [char, uchar, short, ushort, int, uint, long, ulong, llong, ullong]

/-- `BasicType.<X>` string -/
def id : Ty → String
  | char => "char" | uchar => "unsigned char" | short => "short" | ushort => "unsigned short"
  | int => "int" | uint => "unsigned int" | long => "long" | ulong => "unsigned long"
  | llong => "long long" | ullong => "unsigned long long"

/-- `CContext.type_size_map[tid][0]` for x86_64 -/
def size : Ty → Nat
  | char | uchar => 1 | short | ushort => 2 | int | uint => 4 | _ => 8

/-- `tid in BasicType.SIGNED_INTEGER_TYPES` -/
def isSigned : Ty → Bool
  | char | short | int | long | llong => true
  | _ => false

/-- `tid in BasicType.PROMOTABLE_INTEGER_TYPES` -/
def isPromotable : Ty → Bool
  | char | uchar | short | ushort => true
  | _ => false

/-- `CSemantics.basic_ranks` -/
def rank : Ty → Nat
  | char => 30 | uchar => 31 | short => 40 | ushort => 41 | int => 50 | uint => 51
  | long => 60 | ulong => 61 | llong => 70 | ullong => 71

/-- `get_type(["unsigned"] + type_id.split())` through `RootScope.atomic_types` -/
def unsignedVariant : Ty → Ty
  | char | uchar => uchar | short | ushort => ushort | int | uint => uint
  | long | ulong => ulong | llong | ullong => ullong

/-- `CContext.ctypes_names[tid]`: struct format (`<` little endian) as (size, signed) -/
def fmt : Ty → String
  | char => "<b" | uchar => "<B" | short => "<h" | ushort => "<H" | int => "<i" | uint => "<I"
  | long => "<q" | ulong => "<Q" | llong => "<q" | ullong => "<Q"

end Ty

/-- `struct.calcsize` / signedness of the eight integer format characters -/
def fmtInfo : String → Option (Nat × Bool)
  | "<b" => some (1, true) | "<B" => some (1, false) | "<h" => some (2, true) | "<H" => some (2, false)
  | "<i" => some (4, true) | "<I" => some (4, false) | "<q" => some (8, true) | "<Q" => some (8, false)
  | _ => none

/-! ### `CContext` integer helpers -/

/-- `CContext.wrap_integer(value, bit_size, signed)` -/
def wrapInteger (value : Int) (bitSize : Nat) (signed : Bool) : Int :=
  let value := value % 2 ^ bitSize                         -- value &= (1 << bit_size) - 1
  if signed = true ∧ value / 2 ^ (bitSize - 1) ≠ 0        -- signed and value >> (bit_size - 1)
  then value - 2 ^ bitSize else value

/-- `CContext.to_integer_type(typ, value)` (typ is an integer type) -/
def toIntegerType (τ : Ty) (value : Int) : Int := wrapInteger value (8 * τ.size) τ.isSigned

/-- `CContext.limit_max(typ)` -/
def limitMax (τ : Ty) : Int :=
  if τ.isSigned then 2 ^ (8 * τ.size - 1) - 1 else 2 ^ (8 * τ.size) - 1

/-- `struct.pack(fmt, value)` for an integer format: range check, then little-endian
    two's-complement bytes (CPython's `struct`, modelled) -/
def structPack (size : Nat) (signed : Bool) (value : Int) : Except Err (List Nat) :=
  let lo : Int := if signed then -(2 ^ (8 * size - 1)) else 0
  let hi : Int := if signed then 2 ^ (8 * size - 1) - 1 else 2 ^ (8 * size) - 1
  if lo ≤ value ∧ value ≤ hi then
    .ok ((List.range size).map fun i => ((value % 2 ^ (8 * size)) / 256 ^ i % 256).toNat)
  else .error .StructError

/-- `CContext.pack(typ, value)` for an integer `BasicType` and an `int` value -/
def pack (τ : Ty) (value : Int) : Except Err (List Nat) :=
  match fmtInfo τ.fmt with
  | none => .error .KeyError
  | some (fsize, _) =>
    if τ.size ≠ fsize then .error .AssertionError          -- assert self.sizeof(typ) == struct.calcsize(fmt)
    else
      -- tid not in FLOAT_TYPES: value = wrap_integer(value, 8*calcsize(fmt), tid in SIGNED_INTEGER_TYPES)
      let value := wrapInteger value (8 * fsize) τ.isSigned
      match fmtInfo τ.fmt with
      | some (s, sg) => structPack s sg value
      | none => .error .KeyError

/-- everything `CContext.pack` accepts besides the float types: an integer `BasicType`, an `EnumType`
    (packed as `BasicType.INT`), a `PointerType` (format key `"ptr"`) -/
inductive PackTy
  | basic (τ : Ty) | enum | ptr
  deriving DecidableEq, Repr

/-- `ctypes_names["ptr"]` on x86_64 -/
def ptrFmt : String := "<Q"
/-- `arch_info.get_size("ptr")` on x86_64 (= `sizeof` of every pointer type) -/
def ptrSize : Nat := 8

/-- `fmt = self.ctypes_names[tid]` with `tid = "ptr"` / `BasicType.INT` / `typ.type_id` -/
def PackTy.fmt : PackTy → String
  | .basic τ => τ.fmt | .enum => Ty.int.fmt | .ptr => ptrFmt

/-- `self.sizeof(typ)`: an enum has the size of the target's `int` -/
def PackTy.size : PackTy → Nat
  | .basic τ => τ.size | .enum => Ty.int.size | .ptr => ptrSize

/-- `tid in BasicType.SIGNED_INTEGER_TYPES` (the string `"ptr"` is not a member) -/
def PackTy.signedTid : PackTy → Bool
  | .basic τ => τ.isSigned | .enum => Ty.int.isSigned | .ptr => false

/-- `CContext.pack(typ, value)` for every non-float type it accepts and an `int` value -/
def packAny (t : PackTy) (value : Int) : Except Err (List Nat) :=
  match fmtInfo t.fmt with
  | none => .error .KeyError
  | some (fsize, _) =>
    if t.size ≠ fsize then .error .AssertionError
    else
      let value := wrapInteger value (8 * fsize) t.signedTid
      match fmtInfo t.fmt with
      | some (s, sg) => structPack s sg value
      | none => .error .KeyError

/-! ### trees -/

/-- operator spellings that reach `on_unop/on_binop` -/
inductive Sym
  | plus | minus | star | slash | percent | shl | shr | amp | bar | caret
  | lt | gt | le | ge | eqeq | ne | andand | oror | tilde | bang | comma
  deriving DecidableEq, Repr

def Sym.str : Sym → String
  | .plus => "+" | .minus => "-" | .star => "*" | .slash => "/" | .percent => "%"
  | .shl => "<<" | .shr => ">>" | .amp => "&" | .bar => "|" | .caret => "^"
  | .lt => "<" | .gt => ">" | .le => "<=" | .ge => ">=" | .eqeq => "==" | .ne => "!="
  | .andand => "&&" | .oror => "||" | .tilde => "~" | .bang => "!" | .comma => ","

/-- what the parser hands to the semantics: an integer constant is
    (`not text.startswith("0")`, `"unsigned" in specifiers`, `specifiers.count("long")`, value)
    as computed by `utils.cnum`; a character constant is the code of its single character -/
inductive Src
  | num (decimal unsigned : Bool) (longs : Nat) (v : Nat)
  | chr (v : Nat)
  | un (op : Sym) (a : Src)
  | bin (op : Sym) (a b : Src)
  | tern (c a b : Src)
  | cast (τ : Ty) (a : Src)
  deriving Repr

/-- typed tree (`expressions.*` with `.typ`); `cast` is `Cast` or `ImplicitCast` -/
inductive TExpr
  | num (τ : Ty) (v : Int)
  | chr (τ : Ty) (v : Int)
  | un (op : Sym) (τ : Ty) (a : TExpr)
  | bin (op : Sym) (τ : Ty) (a b : TExpr)
  | tern (τ : Ty) (c a b : TExpr)
  | cast (τ : Ty) (a : TExpr)
  deriving Repr

def TExpr.ty : TExpr → Ty
  | .num τ _ | .chr τ _ | .un _ τ _ | .bin _ τ _ _ | .tern τ _ _ _ | .cast τ _ => τ

/-! ### `CSemantics` (typing and implicit conversions) -/

/-- `coerce(expr, typ)` on integer basic types: `ImplicitCast` unless the types are equal -/
def coerce (e : TExpr) (τ : Ty) : TExpr := if e.ty = τ then e else .cast τ e

/-- the type `promote(expr)` coerces to -/
def promoteTy (τ : Ty) : Ty :=
  if τ.isPromotable then
    (if τ.isSigned || decide (τ.size < Ty.int.size) then .int else .uint)
  else τ

def promote (e : TExpr) : TExpr := coerce e (promoteTy e.ty)

/-- `get_common_type(typ1, typ2)` on integer basic types -/
def commonType (t1 t2 : Ty) : Ty :=
  let common := if t1.rank ≥ t2.rank then t1 else t2
  let other := if t1.rank ≥ t2.rank then t2 else t1
  if common.isSigned && !other.isSigned && decide (common.size ≤ other.size)
  then common.unsignedVariant else common

/-- the candidate list built in `on_number` -/
def candidateTypes (decimal unsigned : Bool) (minLongs : Nat) : List Ty :=
  ([(Ty.int, Ty.uint), (Ty.long, Ty.ulong), (Ty.llong, Ty.ullong)].drop minLongs).flatMap fun (s, u) =>
    (if !unsigned then [s] else []) ++ (if unsigned || !decimal || s != Ty.int then [u] else [])

/-- `for typ in candidate_types: if value <= limit_max(typ): break` – the loop variable afterwards -/
def pickType (v : Int) : List Ty → Option Ty
  | [] => none
  | [τ] => some τ
  | τ :: rest => if v ≤ limitMax τ then some τ else pickType v rest

/-- `on_number` -/
def onNumber (decimal unsigned : Bool) (longs : Nat) (v : Nat) : Except Err TExpr :=
  match pickType v (candidateTypes decimal unsigned longs) with
  | none => .error .UnboundLocalError
  | some τ => if (v : Int) > limitMax τ then .error .CompilerError else .ok (.num τ v)

/-- `on_char`: value of a `char`, type `int` -/
def onChar (v : Nat) : TExpr := .chr .int (toIntegerType .char v)

/-- numeric binary operators: promote both, coerce both to the common type -/
def arithOperands (a b : TExpr) : Ty × TExpr × TExpr :=
  let a := promote a
  let b := promote b
  let τ := commonType a.ty b.ty
  (τ, coerce a τ, coerce b τ)

/-- `on_binop` (arithmetic operands only: no pointers, no assignment operators) -/
def onBinop (op : Sym) (a b : TExpr) : Except Err TExpr :=
  match op with
  | .oror | .andand => .ok (.bin op .int a b)        -- check_condition keeps integer operands
  | .comma => .ok (.bin op b.ty a b)
  | .plus | .minus | .star | .slash | .percent | .amp | .bar | .caret =>
    let (τ, a, b) := arithOperands a b
    .ok (.bin op τ a b)
  | .lt | .gt | .eqeq | .ne | .le | .ge =>
    let (_, a, b) := arithOperands a b
    .ok (.bin op .int a b)
  | .shl | .shr =>
    let a := promote a
    let b := promote b
    let τ := commonType a.ty a.ty
    .ok (.bin op τ (coerce a τ) (coerce b τ))
  | .tilde | .bang => .error .NotImplementedError

/-- `on_unop` (operands are rvalues of integer type) -/
def onUnop (op : Sym) (a : TExpr) : Except Err TExpr :=
  match op with
  | .minus | .tilde => let a := promote a; .ok (.un op a.ty a)
  | .plus => .ok (promote a)
  | .bang => .ok (.un op .int a)
  | .star => .error .CompilerError      -- "Cannot dereference type"
  | .amp => .error .CompilerError       -- "Expected lvalue"
  | _ => .error .NotImplementedError

/-- `on_ternop` -/
def onTernop (c a b : TExpr) : TExpr :=
  let a := promote a
  let b := promote b
  let τ := commonType a.ty b.ty
  .tern τ c (coerce a τ) (coerce b τ)

/-- the semantic actions applied bottom-up by the parser -/
def elaborate : Src → Except Err TExpr
  | .num d u l v => onNumber d u l v
  | .chr v => .ok (onChar v)
  | .un op a => do let a ← elaborate a; onUnop op a
  | .bin op a b => do let a ← elaborate a; let b ← elaborate b; onBinop op a b
  | .tern c a b => do let c ← elaborate c; let a ← elaborate a; let b ← elaborate b; pure (onTernop c a b)
  | .cast τ a => do let a ← elaborate a; pure (.cast τ a)

/-! ### `ConstantExpressionEvaluator` -/

/-- the Python functions stored in the operator tables -/
inductive Fn
  | neg | invert | logicalNot
  | add | sub | mul | lt | gt | le | ge | eq | ne
  | intDiv | intRem | rshift | lshift | or_ | and_ | xor
  deriving DecidableEq, Repr

/-- qualified Python name (checked against the live tables) -/
def Fn.pyName : Fn → String
  | .neg => "operator.neg" | .invert => "operator.invert" | .logicalNot => "ppci.lang.c.eval.logical_not"
  | .add => "operator.add" | .sub => "operator.sub" | .mul => "operator.mul"
  | .lt => "operator.lt" | .gt => "operator.gt" | .le => "operator.le" | .ge => "operator.ge"
  | .eq => "operator.eq" | .ne => "operator.ne"
  | .intDiv => "ppci.lang.c.eval.int_div" | .intRem => "ppci.lang.c.eval.int_rem"
  | .rshift => "operator.rshift" | .lshift => "operator.lshift"
  | .or_ => "operator.or_" | .and_ => "operator.and_" | .xor => "operator.xor"

def unaryOperators : List (Sym × Fn) := [(.minus, .neg), (.tilde, .invert), (.bang, .logicalNot)]

def binaryOperators : List (Sym × Fn) :=
  [(.plus, .add), (.minus, .sub), (.star, .mul), (.lt, .lt), (.gt, .gt), (.le, .le), (.ge, .ge),
   (.eqeq, .eq), (.ne, .ne)]

def integerOperators : List (Sym × Fn) :=
  [(.slash, .intDiv), (.percent, .intRem), (.shr, .rshift), (.shl, .lshift), (.bar, .or_),
   (.amp, .and_), (.caret, .xor)]

/-! Python `& | ^` on unbounded ints (same definitions as `Model.PyInt`, repeated to stay import-free) -/
def andNot (a b : Nat) : Nat := a ^^^ (a &&& b)
def PyAnd : Int → Int → Int
  | .ofNat a, .ofNat b => ((a &&& b : Nat) : Int)
  | .ofNat a, .negSucc b => ((andNot a b : Nat) : Int)
  | .negSucc a, .ofNat b => ((andNot b a : Nat) : Int)
  | .negSucc a, .negSucc b => .negSucc (a ||| b)
def PyOr : Int → Int → Int
  | .ofNat a, .ofNat b => ((a ||| b : Nat) : Int)
  | .ofNat a, .negSucc b => .negSucc (andNot b a)
  | .negSucc a, .ofNat b => .negSucc (andNot a b)
  | .negSucc a, .negSucc b => .negSucc (a &&& b)
def PyXor : Int → Int → Int
  | .ofNat a, .ofNat b => ((a ^^^ b : Nat) : Int)
  | .ofNat a, .negSucc b => .negSucc (a ^^^ b)
  | .negSucc a, .ofNat b => .negSucc (a ^^^ b)
  | .negSucc a, .negSucc b => ((a ^^^ b : Nat) : Int)

/-- `int_div`: `q = abs(x) // abs(y); q if (x < 0) == (y < 0) else -q`  (`y ≠ 0`) -/
def intDiv (x y : Int) : Int :=
  let q : Int := ((x.natAbs / y.natAbs : Nat) : Int)
  if decide (x < 0) = decide (y < 0) then q else -q

/-- `int_rem`: `x - y * int_div(x, y)` -/
def intRem (x y : Int) : Int := x - y * intDiv x y

def ofBool (b : Bool) : Int := if b then 1 else 0

def Fn.apply1 : Fn → Int → Int
  | .neg, x => -x
  | .invert, x => -x - 1
  | .logicalNot, x => ofBool (decide (x = 0))
  | _, x => x

/-- binary functions; the shift count is known to be `≥ 0` at the call -/
def Fn.apply2 : Fn → Int → Int → Int
  | .add, x, y => x + y
  | .sub, x, y => x - y
  | .mul, x, y => x * y
  | .lt, x, y => ofBool (decide (x < y))
  | .gt, x, y => ofBool (decide (x > y))
  | .le, x, y => ofBool (decide (x ≤ y))
  | .ge, x, y => ofBool (decide (x ≥ y))
  | .eq, x, y => ofBool (decide (x = y))
  | .ne, x, y => ofBool (decide (x ≠ y))
  | .intDiv, x, y => Model.CEval.intDiv x y
  | .intRem, x, y => Model.CEval.intRem x y
  | .rshift, x, y => x / 2 ^ y.toNat
  | .lshift, x, y => x * 2 ^ y.toNat
  | .or_, x, y => PyOr x y
  | .and_, x, y => PyAnd x y
  | .xor, x, y => PyXor x y
  | _, x, _ => x

/-- `fit(typ, value)` for an integer type -/
def fit (τ : Ty) (value : Int) : Int := toIntegerType τ value

/-- `eval_expr` -/
def eval : TExpr → Except Err Int
  | .num _ v => .ok v
  | .chr _ v => .ok v
  | .cast τ a => do                                   -- eval_cast
      let v ← eval a
      pure (toIntegerType τ v)
  | .un op τ a =>                                     -- eval_unop
      match unaryOperators.lookup op with
      | some f => do
          let x ← eval a
          pure (fit τ (f.apply1 x))
      | none => .error .NotImplementedError           -- `&`: eval_take_address, others: NotImplementedError
  | .tern τ c a b => do                               -- eval_ternop
      let x ← eval c
      let v ← if x ≠ 0 then eval a else eval b
      pure (fit τ v)
  | .bin op τ a b =>                                  -- eval_binop
      if op = .andand then do
        let x ← eval a
        if x = 0 then pure 0 else do
          let y ← eval b
          pure (ofBool (decide (y ≠ 0)))
      else if op = .oror then do
        let x ← eval a
        if x ≠ 0 then pure 1 else do
          let y ← eval b
          pure (ofBool (decide (y ≠ 0)))
      else do
        let lhs ← eval a
        let rhs ← eval b
        match binaryOperators.lookup op with
        | some f => pure (fit τ (f.apply2 lhs rhs))
        | none =>
          match integerOperators.lookup op with
          | some f =>
            if (op = .slash ∨ op = .percent) ∧ rhs = 0 then .error .CompilerError
            else if op = .shl ∨ op = .shr then
              if rhs < 0 then .error .CompilerError
              else pure (fit τ (f.apply2 lhs (min rhs (8 * τ.size))))
            else pure (fit τ (f.apply2 lhs rhs))
          | none =>
            -- `elif op == "/"` (float division) is unreachable while "/" is in integer_operators
            .error .CompilerError                     -- "Operator not allowed in constant expression"

/-! ### the users of constant expressions -/

/-- `T x = e;` at file scope: `coerce(e, T)`, `eval_expr`, `pack(T, cval)` -/
def initializer (τ : Ty) (s : Src) : Except Err (List Nat) := do
  let t ← elaborate s
  let v ← eval (coerce t τ)
  pack τ v

/-- `enum E x = e;` at file scope: `coerce(e, E)` is an `ImplicitCast` to the enum type, which `eval_cast`
    leaves alone (`typ.is_integer` is false for an `EnumType`); `pack(E, cval)` converts -/
def initializerEnum (s : Src) : Except Err (List Nat) := do
  let t ← elaborate s
  let v ← eval t
  packAny .enum v

/-- `T *p = (T *)e;` at file scope: the cast to a pointer type leaves the value alone; `pack` converts -/
def initializerPtr (s : Src) : Except Err (List Nat) := do
  let t ← elaborate s
  let v ← eval t
  packAny .ptr v

/-- `case e:` under `switch (x)` with `x : ctl`: `coerce(e, promote(x).typ)`, `eval_expr` -/
def caseLabel (ctl : Ty) (s : Src) : Except Err Int := do
  let t ← elaborate s
  eval (coerce t (promoteTy ctl))

/-- `enum { A = e }`: `eval_expr(e)` -/
def enumerator (s : Src) : Except Err Int := do
  let t ← elaborate s
  eval t

/-- `CContext._calculate_enum_values`: `value = 0`; for each constant: `if constant.value: value =
    eval_expr(constant.value)`; record `value`; `value += 1`.  (`constant.value` is an AST node or `None`: the
    test is on the presence of `= expr`, not on the value it evaluates to.) -/
def enumValuesFrom (value : Int) : List (Option Src) → Except Err (List Int)
  | [] => .ok []
  | item :: rest => do
      let v ← (match item with
        | some s => enumerator s
        | none => pure value)
      let vs ← enumValuesFrom (v + 1) rest
      pure (v :: vs)

def enumValues (l : List (Option Src)) : Except Err (List Int) := enumValuesFrom 0 l

/-- `CSemantics.size_t_type` on x86_64 (`long`, because `sizeof(int) != sizeof(int*)`) -/
def sizeT : Ty := .long

/-- `T a[e];`: `apply_type_modifiers` coerces the dimension to `size_t_type`; `eval_expr(typ.size)` -/
def arraySize (s : Src) : Except Err Int := do
  let t ← elaborate s
  eval (coerce t sizeT)

end Model.CEval
