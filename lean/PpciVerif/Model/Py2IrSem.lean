import PpciVerif.Model.Py2Ir
import PpciVerif.Spec.IRArith
import PpciVerif.Spec.Py
import PpciVerif.Spec.IR
/-
Model.Py2IrSem — what the straight-line i64 code emitted by `Model.Py2Ir.genExpr` computes,
according to the IR run-time arithmetic `Spec.IRArith` (no Mathlib).

Memory is abstracted to "the 8-byte slot whose address is the value `a` holds the integer `μ a`"
(every local variable has its own `Alloc`; expressions only load).  Float code is not evaluated.
-/
namespace Model.Py2Ir
open Spec.IRArith

/-- the `Spec.IRArith` operator written `s` in `ir.Binop` -/
def irOp? (s : String) : Option Op := Op.all.find? (fun o => o.symbol = s)

/-- register file: parameter values and the values of executed instructions -/
structure Regs where
  params : List Int
  tmps : Nat → Option Int

def Regs.get (r : Regs) : Val → Option Int
  | .param i => r.params[i]?
  | .tmp n => r.tmps n

def Regs.set (r : Regs) (d : Nat) (v : Int) : Regs :=
  { r with tmps := fun k => if k = d then some v else r.tmps k }

/-- one non-control instruction at type i64; `none` = undefined behaviour / not modelled -/
def execInstr (μ : Val → Option Int) (r : Regs) : Instr → Option Regs
  | .const d .i64 v => if InRange .i64 v then some (r.set d v) else none
  | .load d .i64 a => match μ a with
    | some v => some (r.set d v)
    | none => none
  | .binop d .i64 op a b =>
    match r.get a, r.get b, irOp? op with
    | some x, some y, some o =>
      match binop .i64 o x y with
      | some v => some (r.set d v)
      | none => none
    | _, _, _ => none
  | _ => none

def exec (μ : Val → Option Int) : List Instr → Regs → Option Regs
  | [], r => some r
  | i :: is, r => match execInstr μ r i with
    | some r' => exec μ is r'
    | none => none

/-- Python expression of the specification as the `ast` the compiler sees -/
def embed : Spec.Py.Expr → PExpr
  | .num v => .num v
  | .name x => .name x
  | .binop op a b => .binop op.astName (embed a) (embed b)

def embedCond : Spec.Py.Cond → PCond
  | .cmp op a b => .cmp op.astName (embed a) (embed b)
  | .and a b => .and (embedCond a) (embedCond b)
  | .or a b => .or (embedCond a) (embedCond b)

/-- run the code the compiler emits for `a op b` with `a`, `b` passed as parameters 0 and 1 -/
def runArith (op : String) (a b : Int) : Except Err (Option Int) :=
  match genArith op .i64 (.param 0) (.param 1) 0 with
  | .error e => .error e
  | .ok (code, v, _) =>
    .ok (match exec (fun _ => none) code ⟨[a, b], fun _ => none⟩ with
      | some r => r.get v
      | none => none)


/-! ### conditions: control flow through the blocks of the event log -/

/-- truth value of the `CJump` condition written `sym` on two ints (`Spec.IR.evalCond`) -/
def condHolds? (sym : String) (x y : Int) : Option Bool :=
  match Spec.IR.Cond.all.find? (fun c => c.symbol = sym) with
  | none => none
  | some c =>
    match Spec.IR.evalCond c (.int x) (.int y) with
    | .ok b => some b
    | .error _ => none

/-- run the instructions of a block up to its terminator: the block entered next and the registers -/
def stepBlock (μ : Val → Option Int) : List Instr → Regs → Option (Nat × Regs)
  | [], _ => none
  | .cjump a op b y n :: _, r =>
    match r.get a, r.get b with
    | some x, some z =>
      match condHolds? op x z with
      | some true => some (y, r)
      | some false => some (n, r)
      | none => none
    | _, _ => none
  | .jump t :: _, r => some (t, r)
  | i :: is, r =>
    match execInstr μ r i with
    | some r' => stepBlock μ is r'
    | none => none

/-- `Arrives μ L P is r t r'`: executing the code `is` (the rest of the current block) and then
    following jumps through the blocks of the event log `L`, control enters block `t` with
    registers `r'`; every block entered before `t` satisfies `P`. -/
inductive Arrives (μ : Val → Option Int) (L : List Event) (P : Nat → Prop) : List Instr → Regs → Nat → Regs → Prop
  | here {is r t r'} : stepBlock μ is r = some (t, r') → Arrives μ L P is r t r'
  | next {is r u r1 t r'} : stepBlock μ is r = some (u, r1) → P u →
      Arrives μ L P (blockInstrs L u) r1 t r' → Arrives μ L P is r t r'

end Model.Py2Ir
