import PpciVerif.Model.PyInt
/-
Hand model of the integer helpers of ppci/utils/bitfun.py (core Lean only).

Conventions.  Python `int` ↦ `Int` (values, rotation counts: any sign).  A bit
width / byte count / modulus parameter (`bits`, `size`, `m`) ↦ `Nat`; negative
widths are outside the model (the driver answers `bad-op`, the harness never
sends them).  Width `0` *is* modelled, including the exceptions it provokes
(`1 << -1` ↦ ValueError, `% 0` ↦ ZeroDivisionError).  `x & y`, `x | y` ↦
`PyInt.and/or` (infinite two's complement), `x << k` ↦ `x * 2^k`, `x >> k` ↦
`x / 2^k`, `x % m` (m>0) ↦ `x % m`, `x // 2` ↦ `x / 2`.  Functions that can
raise return `Except Err _`, in Python's evaluation order.
`while` loops are structural recursions on the number of remaining
iterations (the loop guards `count < bits`, `pos >= 0`, `i in range(..)`).

Tied to the source by the correspondence run of harness/c39.py on every check.
-/
namespace Model.Bitfun
open Model

inductive Err | ValueError | ZeroDivisionError | AssertionError | TypeError
  deriving Repr, DecidableEq

def Err.name : Err → String
  | .ValueError => "ValueError" | .ZeroDivisionError => "ZeroDivisionError"
  | .AssertionError => "AssertionError" | .TypeError => "TypeError"

instance decEqExcept {α : Type} [DecidableEq α] : DecidableEq (Except Err α) := fun a b =>
  match a, b with
  | .ok x, .ok y => if h : x = y then isTrue (by rw [h]) else isFalse (fun h' => by cases h'; exact h rfl)
  | .error x, .error y => if h : x = y then isTrue (by rw [h]) else isFalse (fun h' => by cases h'; exact h rfl)
  | .ok _, .error _ => isFalse (fun h' => by cases h')
  | .error _, .ok _ => isFalse (fun h' => by cases h')

/-- `rotate_right(v, n)`:
    `mask = (2**n) - 1; mask_bits = v & mask; return (v >> n) | (mask_bits << (32 - n))`.
    `n < 0` makes `2**n` a float (`v & float` ↦ TypeError); `n > 32` a negative shift count. -/
def rotateRight (v n : Int) : Except Err Int :=
  if n < 0 then .error .TypeError
  else if 32 < n then .error .ValueError
  else
    let k := n.toNat
    let mask : Int := 2 ^ k - 1
    let maskBits := PyInt.and v mask
    .ok (PyInt.or (v / 2 ^ k) (maskBits * 2 ^ (32 - k)))

/-- `rotate_left(v, n)`: `assert n >= 0; assert n < 32; return rotate_right(v, 32 - n)` -/
def rotateLeft (v n : Int) : Except Err Int :=
  if ¬ (n ≥ 0) then .error .AssertionError
  else if ¬ (n < 32) then .error .AssertionError
  else rotateRight v (32 - n)

/-- `rotl(v, count, bits)`:
    `mask = (1 << bits) - 1; count = count % bits;
     return ((v << count) & mask) | (v >> (bits - count))` -/
def rotl (v count : Int) (bits : Nat) : Except Err Int :=
  let mask : Int := 2 ^ bits - 1
  if bits = 0 then .error .ZeroDivisionError
  else
    let c := (count % (bits : Int)).toNat
    .ok (PyInt.or (PyInt.and (v * 2 ^ c) mask) (v / 2 ^ (bits - c)))

/-- `rotr(v, count, bits)`:
    `return (v >> count) | ((v << (bits - count)) & mask)` with `count = count % bits` -/
def rotr (v count : Int) (bits : Nat) : Except Err Int :=
  let mask : Int := 2 ^ bits - 1
  if bits = 0 then .error .ZeroDivisionError
  else
    let c := (count % (bits : Int)).toNat
    .ok (PyInt.or (v / 2 ^ c) (PyInt.and (v * 2 ^ (bits - c)) mask))

/-- loop of `reverse_bits` (after the `fix:` commit):
    `y = 0; pos = bits - 1; while pos >= 0: y += (v & 1) << pos; v >>= 1; pos -= 1`.
    The argument is `pos + 1` (the number of remaining iterations). -/
def revLoop (y v : Int) : Nat → Int
  | 0 => y
  | p + 1 => revLoop (y + PyInt.and v 1 * 2 ^ p) (v / 2) p

/-- `reverse_bits(v, bits)` -/
def reverseBits (v : Int) (bits : Nat) : Int := revLoop 0 v bits

/-- the loop as it was at the pinned commit (`while pos > 0`; argument = `pos`).  Kept only
    for the recorded negation witness in `Props/C39.lean`. -/
def revLoopPinned (y v : Int) : Nat → Int
  | 0 => y
  | p + 1 => revLoopPinned (y + PyInt.and v 1 * 2 ^ (p + 1)) (v / 2) p

def reverseBitsPinned (v : Int) (bits : Nat) : Int := revLoopPinned 0 v (bits - 1)

/-- `correct(value, bits, signed)`:
    `base = 1 << bits; value %= base;
     if signed and value.bit_length() == bits: return value - base else: return value` -/
def correct (value : Int) (bits : Nat) (signed : Bool) : Int :=
  let base : Int := 2 ^ bits
  let value := value % base
  if signed && PyInt.bitLength value == bits then value - base else value

def toSigned (value : Int) (bits : Nat) : Int := correct value bits true
def toUnsigned (value : Int) (bits : Nat) : Int := correct value bits false

/-- loop of `clz`: `while (count < bits) and (v & mask) == 0: count += 1; v = v * 2`;
    last argument = `bits - count` -/
def clzLoop (mask : Int) (v : Int) (count : Nat) : Nat → Nat
  | 0 => count
  | r + 1 => if PyInt.and v mask = 0 then clzLoop mask (v * 2) (count + 1) r else count

/-- `clz(v, bits)`; `mask = 1 << (bits - 1)` raises ValueError for `bits = 0` -/
def clz (v : Int) (bits : Nat) : Except Err Nat :=
  if bits = 0 then .error .ValueError else .ok (clzLoop (2 ^ (bits - 1)) v 0 bits)

/-- loop of `ctz`: `while count < bits and (v % 2) == 0: count += 1; v //= 2` -/
def ctzLoop (v : Int) (count : Nat) : Nat → Nat
  | 0 => count
  | r + 1 => if v % 2 = 0 then ctzLoop (v / 2) (count + 1) r else count

def ctz (v : Int) (bits : Nat) : Nat := ctzLoop v 0 bits

/-- `popcnt`: `for i in range(bits): if v & (1 << i): count += 1` -/
def popcnt (v : Int) (bits : Nat) : Nat :=
  (List.range bits).foldl (fun count i => if PyInt.and v (2 ^ i) ≠ 0 then count + 1 else count) 0

/-- `sign_extend(value, bits)`:
    `sign_bit = 1 << (bits - 1); mask = sign_bit - 1; return (value & mask) - (value & sign_bit)` -/
def signExtend (value : Int) (bits : Nat) : Except Err Int :=
  if bits = 0 then .error .ValueError
  else
    let signBit : Int := 2 ^ (bits - 1)
    let mask := signBit - 1
    .ok (PyInt.and value mask - PyInt.and value signBit)

/-- `value_to_bytes_big_endian(value, size)`:
    `bytes((value >> (x * 8)) & 0xFF for x in reversed(range(size)))` -/
def valueToBytesBigEndian (value : Int) (size : Nat) : List Nat :=
  (List.range size).reverse.map (fun x => (PyInt.and (value / 2 ^ (x * 8)) 255).toNat)

/-- `value_to_bits(v, bits)`: `[bool((1 << i) & v) for i in range(bits)]` -/
def valueToBits (v : Int) (bits : Nat) : List Bool :=
  (List.range bits).map (fun i => decide (PyInt.and (2 ^ i) v ≠ 0))

/-- `bits_to_bytes(bits)`: pad with `False` to a multiple of 8, then pack 8 booleans
    per byte, least significant first (`v = v | (1 << j)`) -/
def bitsToBytes (bits : List Bool) : List Nat :=
  let padded := bits ++ List.replicate ((8 - bits.length % 8) % 8) false
  (List.range (padded.length / 8)).map (fun k =>
    (List.range 8).foldl (fun v j => if padded.getD (8 * k + j) false then v ||| (1 <<< j) else v) 0)

/-- loop of `encode_imm32`:
    `for i in range(16): v2 = rotate_left(v, i * 2);
       if (v2 & 0xFFFFFF00) == 0: return (i << 8) | (v2 & 0xFF)`
    then `raise ValueError`.  First argument = remaining iterations, second = `i`. -/
def encLoop (v : Int) : Nat → Nat → Except Err Int
  | 0, _ => .error .ValueError
  | r + 1, i =>
    -- an exception of `rotate_left` propagates (`Except.bind`)
    (rotateLeft v ((i : Int) * 2)).bind fun v2 =>
      if PyInt.and v2 0xFFFFFF00 = 0 then .ok (PyInt.or ((i : Int) * 2 ^ 8) (PyInt.and v2 0xFF))
      else encLoop v r (i + 1)

/-- `encode_imm32(v)` (after the `fix:` commit):
    `if not 0 <= v < 2**32: raise ValueError` precedes the loop -/
def encodeImm32 (v : Int) : Except Err Int :=
  if ¬ (0 ≤ v ∧ v < 2 ^ 32) then .error .ValueError else encLoop v 16 0

/-- `encode_imm32` as it was at the pinned commit (no range check); kept only for the
    recorded negation witness in `Props/C39.lean`. -/
def encodeImm32Pinned (v : Int) : Except Err Int := encLoop v 16 0

/-- loop of `align`: `while (value % m) != 0: value = value + 1`.  The loop runs fewer
    than `m` times; the last argument bounds the iterations (initially `m`) — that it
    never cuts the loop short is part of theorem `align_spec` (the result is a multiple). -/
def alignLoop (m : Nat) (value : Int) : Nat → Int
  | 0 => value
  | k + 1 => if value % (m : Int) ≠ 0 then alignLoop m (value + 1) k else value

def align (value : Int) (m : Nat) : Except Err Int :=
  if m = 0 then .error .ZeroDivisionError else .ok (alignLoop m value m)

/-- `wrap_negative(value, bits)` -/
def wrapNegative (value : Int) (bits : Nat) : Except Err Int :=
  if bits = 0 then .error .ValueError            -- `1 << (bits - 1)`
  else
    let upperLimit : Int := 2 ^ bits - 1
    let lowerLimit : Int := -(2 ^ (bits - 1))
    if ¬ (lowerLimit ≤ value ∧ value < upperLimit + 1) then .error .ValueError
    else
      let mask : Int := 2 ^ bits - 1
      let bitValue := PyInt.and value mask
      if ¬ (bitValue ≥ 0) then .error .AssertionError else .ok bitValue

/-- `inrange(value, bits)`: `value in range(-(1 << (bits-1)), 1 << (bits-1))` -/
def inrange (value : Int) (bits : Nat) : Except Err Bool :=
  if bits = 0 then .error .ValueError
  else
    let upperLimit : Int := 2 ^ (bits - 1)
    let lowerLimit : Int := -(2 ^ (bits - 1))
    .ok (decide (lowerLimit ≤ value ∧ value < upperLimit))

end Model.Bitfun
