import PpciVerif.Model.Proto
import PpciVerif.Spec.IRParse
import PpciVerif.Model.IRFrag
import PpciVerif.Model.IRJson
/-! Line-protocol engine of `Drivers/C16.lean`.

  write <sexpr>     -> ok <json text of Model.IRJson.writeModule m> | err NotImplementedError
  read <json text>  -> ok <sexpr of the module Model.IRJson.readModule builds> | err <ExceptionName>
  rt <sexpr>        -> read (write m)
  frag <sexpr>      -> ok 1 | ok 0 <reason>,…  (Model.IRFrag.fragCore; reasons from fragReport)

JSON text on the wire is compact, one line, ASCII; a float is the object {"$float":"<binary64 bits, decimal>"}
(the harness converts Python floats to and from this form).  The JSON text parser / printer below
are protocol machinery, not part of the model. -/
namespace Model.IRJsonRun
open Proto Spec.IR Spec.IRParse Model.IRBuild Model.IRJson Model.IRFrag

/-! ### J → text -/

def hex4 (n : Nat) : List Char :=
  [Proto.hexDigit (n / 4096 % 16), Proto.hexDigit (n / 256 % 16), Proto.hexDigit (n / 16 % 16), Proto.hexDigit (n % 16)]

def escChar (c : Char) : List Char :=
  if c = '"' then ['\\', '"'] else if c = '\\' then ['\\', '\\']
  else if c.toNat < 32 || c.toNat ≥ 127 then '\\' :: 'u' :: hex4 (c.toNat % 65536)
  else [c]

def showStr (s : String) : String := String.ofList ('"' :: (s.toList.flatMap escChar) ++ ['"'])

mutual
  def showJ : J → String
    | .null => "null"
    | .bool b => if b then "true" else "false"
    | .int v => toString v
    | .flt b => "{\"$float\":\"" ++ toString b ++ "\"}"
    | .str s => showStr s
    | .arr xs => "[" ++ showArr xs ++ "]"
    | .obj kvs => "{" ++ showObj kvs ++ "}"
  def showArr : List J → String
    | [] => ""
    | [x] => showJ x
    | x :: r => showJ x ++ "," ++ showArr r
  def showObj : List (String × J) → String
    | [] => ""
    | [(k, v)] => showStr k ++ ":" ++ showJ v
    | (k, v) :: r => showStr k ++ ":" ++ showJ v ++ "," ++ showObj r
end

/-! ### text → J (compact JSON as produced by `json.dumps(separators=(",", ":"))`, blanks tolerated) -/

def skipWs : List Char → List Char
  | c :: r => if c = ' ' || c = '\t' || c = '\n' || c = '\r' then skipWs r else c :: r
  | [] => []

def pHex4 : List Char → Option (Nat × List Char)
  | a :: b :: c :: d :: r => do
    pure ((← Proto.hexVal a) * 4096 + (← Proto.hexVal b) * 256 + (← Proto.hexVal c) * 16 + (← Proto.hexVal d), r)
  | _ => none

def pStrBody : Nat → List Char → List Char → Option (String × List Char)
  | 0, _, _ => none
  | _ + 1, [], _ => none
  | n + 1, c :: r, acc =>
    if c = '"' then some (String.ofList acc.reverse, r)
    else if c = '\\' then
      match r with
      | '"' :: r' => pStrBody n r' ('"' :: acc)
      | '\\' :: r' => pStrBody n r' ('\\' :: acc)
      | '/' :: r' => pStrBody n r' ('/' :: acc)
      | 'n' :: r' => pStrBody n r' ('\n' :: acc)
      | 't' :: r' => pStrBody n r' ('\t' :: acc)
      | 'r' :: r' => pStrBody n r' ('\r' :: acc)
      | 'b' :: r' => pStrBody n r' ('\x08' :: acc)
      | 'f' :: r' => pStrBody n r' ('\x0c' :: acc)
      | 'u' :: r' =>
        match pHex4 r' with
        | some (v, r'') => pStrBody n r'' (Char.ofNat v :: acc)
        | none => none
      | _ => none
    else pStrBody n r (c :: acc)

def pNumber (cs : List Char) : Option (J × List Char) :=
  let (neg, r) := match cs with | '-' :: t => (true, t) | _ => (false, cs)
  let ds := r.takeWhile Char.isDigit
  if ds.isEmpty then none else
  let v : Int := Int.ofNat (Nat.ofDigitChars 10 ds 0)
  some (.int (if neg then -v else v), r.dropWhile Char.isDigit)

mutual
  def pValue : Nat → List Char → Option (J × List Char)
    | 0, _ => none
    | n + 1, cs =>
      match skipWs cs with
      | 'n' :: 'u' :: 'l' :: 'l' :: r => some (.null, r)
      | 't' :: 'r' :: 'u' :: 'e' :: r => some (.bool true, r)
      | 'f' :: 'a' :: 'l' :: 's' :: 'e' :: r => some (.bool false, r)
      | '"' :: r => (pStrBody (r.length + 1) r []).map (fun p => (.str p.1, p.2))
      | '[' :: r =>
        match skipWs r with
        | ']' :: r' => some (.arr [], r')
        | _ => (pElems n r).map (fun p => (.arr p.1, p.2))
      | '{' :: r =>
        match skipWs r with
        | '}' :: r' => some (.obj [], r')
        | _ =>
          match pMembers n r with
          | some ([("$float", .str s)], r') => s.toNat?.map (fun b => (.flt b, r'))
          | some (kvs, r') => some (.obj kvs, r')
          | none => none
      | cs' => pNumber cs'
  def pElems : Nat → List Char → Option (List J × List Char)
    | 0, _ => none
    | n + 1, cs =>
      match pValue n cs with
      | none => none
      | some (v, r) =>
        match skipWs r with
        | ',' :: r' => (pElems n r').map (fun p => (v :: p.1, p.2))
        | ']' :: r' => some ([v], r')
        | _ => none
  def pMembers : Nat → List Char → Option (List (String × J) × List Char)
    | 0, _ => none
    | n + 1, cs =>
      match skipWs cs with
      | '"' :: r =>
        match pStrBody (r.length + 1) r [] with
        | none => none
        | some (k, r1) =>
          match skipWs r1 with
          | ':' :: r2 =>
            match pValue n r2 with
            | none => none
            | some (v, r3) =>
              match skipWs r3 with
              | ',' :: r4 => (pMembers n r4).map (fun p => ((k, v) :: p.1, p.2))
              | '}' :: r4 => some ([(k, v)], r4)
              | _ => none
          | _ => none
      | _ => none
end

def parseJson (s : String) : Option J :=
  let cs := s.toList
  match pValue (cs.length + 1) cs with
  | some (j, r) => if (skipWs r).isEmpty then some j else none
  | none => none

def showRead : Except RErr Module → String
  | .ok m => "ok " ++ showModule m
  | .error e => "err " ++ e.name

def step (line : String) : String :=
  let line := line.trimAscii.toString
  if line.startsWith "write " then
    match parseModule (line.drop 6).toString with
    | some m => (match writeModule m with | some j => "ok " ++ showJ j | none => "err NotImplementedError")
    | none => "bad-op"
  else if line.startsWith "read " then
    match parseJson (line.drop 5).toString with
    | some j => showRead (readModule j)
    | none => "bad-op"
  else if line.startsWith "rt " then
    match parseModule (line.drop 3).toString with
    | some m => (match writeModule m with | some j => showRead (readModule j) | none => "err NotImplementedError")
    | none => "bad-op"
  else if line.startsWith "frag " then
    match parseModule (line.drop 5).toString with
    | some m =>
      -- reasons: the text-only conjuncts of `fragReport` are dropped
      let r := (fragReport (fun _ => []) m).filter (fun x => !["float-text", "identifier", "rol-keyword"].contains x)
      if fragCore m then (if r.isEmpty then "ok 1" else "bad-op")
      else (if r.isEmpty then "bad-op" else "ok 0 " ++ ",".intercalate r)
    | none => "bad-op"
  else "bad-op"

end Model.IRJsonRun
