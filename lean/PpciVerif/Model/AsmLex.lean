/-
Model of `ppci.binutils.assembler.AsmLexer` (a `BaseLexer` over one line of text).

The real lexer compiles ONE regular expression

    (?P<REAL>\d+\.\d+)|(?P<BINNUMBER>(0b|%)[0-1]+)|(?P<HEXNUMBER>(0x|\$)[0-9a-fA-F]+)|(?P<NUMBER>\d+)
    |(?P<ID>[A-Za-z_][A-Za-z\d_]*)|(?P<SKIP>[ \t])|(?P<GLYPH>@|&|#|=|,|\.|:|\(|\)|\[|\]|\{|\}|\+|-|\*|%)
    |(?P<STRING>'.*?')|(?P<COMMENT>;.*)

and applies `match` at the current position repeatedly.  Python alternation is ORDERED: the first
alternative that matches wins (each alternative by itself is greedy = maximal munch inside the class).
`SKIP` and `COMMENT` produce no token; BIN/HEX/NUMBER all become typ `NUMBER` with `make_num(text)`;
an `ID` whose lower-cased text is a keyword gets that keyword as its typ (`handle_id`).
A position where nothing matches raises `CompilerError` (here: `none`).

Scope: ASCII input (Python's `\d` also matches other Unicode digits; rendered instructions are ASCII).
-/
namespace Model.AsmLex

def isDigit (c : Char) : Bool := 48 ≤ c.toNat && c.toNat ≤ 57
def isBin (c : Char) : Bool := c.toNat == 48 || c.toNat == 49
def isHex (c : Char) : Bool :=
  isDigit c || (97 ≤ c.toNat && c.toNat ≤ 102) || (65 ≤ c.toNat && c.toNat ≤ 70)
def isIdStart (c : Char) : Bool :=
  (65 ≤ c.toNat && c.toNat ≤ 90) || (97 ≤ c.toNat && c.toNat ≤ 122) || c.toNat == 95
def isIdChar (c : Char) : Bool := isIdStart c || isDigit c
def isSkip (c : Char) : Bool := c.toNat == 32 || c.toNat == 9

/-- `Syntax.GLYPHS` -/
def glyphs : List Char :=
  ['@', '&', '#', '=', ',', '.', ':', '(', ')', '[', ']', '{', '}', '+', '-', '*', '%']
def isGlyph (c : Char) : Bool := glyphs.contains c

def digitVal (c : Char) : Nat :=
  if isDigit c then c.toNat - 48
  else if 97 ≤ c.toNat && c.toNat ≤ 102 then c.toNat - 87
  else if 65 ≤ c.toNat && c.toNat ≤ 70 then c.toNat - 55
  else 0

/-- `int(text, base)` for a string of digits of that base -/
def numVal (base : Nat) (cs : List Char) : Nat := cs.foldl (fun a c => a * base + digitVal c) 0

inductive Tok where
  | num (v : Nat)               -- NUMBER (decimal, 0x…/$… hex, 0b…/%… binary), value = make_num(text)
  | real (txt : List Char)      -- REAL, value float(text) (text kept)
  | id (txt : List Char)        -- ID or keyword, text as written (typ: see `typOf`)
  | glyph (c : Char)
  | str (txt : List Char)       -- STRING without the quotes
  deriving Repr, DecidableEq, Inhabited

/-- outcome of one `match` at the head of the input -/
inductive Step where
  | tok (t : Tok) (rest : List Char)
  | skip (rest : List Char)          -- SKIP / COMMENT: no token
  | err                              -- no alternative matches
  deriving Repr, DecidableEq

/-- `\d+\.\d+` -/
def realMatch (s : List Char) : Option (List Char × List Char) :=
  let d := s.takeWhile isDigit
  if d.isEmpty then none else
  match s.dropWhile isDigit with
  | [] => none
  | c :: r =>
    if c == '.' then
      let f := r.takeWhile isDigit
      if f.isEmpty then none else some (d ++ '.' :: f, r.dropWhile isDigit)
    else none

/-- the text after a `0<letter>` or `<sigil>` prefix -/
def prefixBody (letter sigil : Char) : List Char → Option (List Char)
  | [] => none
  | c :: r =>
    if c == sigil then some r
    else if c == '0' then
      match r with
      | [] => none
      | b :: r' => if b == letter then some r' else none
    else none

/-- `(0b|%)[0-1]+` -/
def binMatch (s : List Char) : Option (Nat × List Char) :=
  match prefixBody 'b' '%' s with
  | none => none
  | some r =>
    let b := r.takeWhile isBin
    if b.isEmpty then none else some (numVal 2 b, r.dropWhile isBin)

/-- `(0x|\$)[0-9a-fA-F]+` -/
def hexMatch (s : List Char) : Option (Nat × List Char) :=
  match prefixBody 'x' '$' s with
  | none => none
  | some r =>
    let h := r.takeWhile isHex
    if h.isEmpty then none else some (numVal 16 h, r.dropWhile isHex)

def notQuoteNl (c : Char) : Bool := !(c == '\'' || c == '\n')
def notNl (c : Char) : Bool := !(c == '\n')

/-- one `re.match` of the token regex at the head of `s` (`s` non-empty) -/
def lexOne (s : List Char) : Step :=
  match realMatch s with
  | some (txt, rest) => .tok (.real txt) rest
  | none =>
  match binMatch s with
  | some (v, rest) => .tok (.num v) rest
  | none =>
  match hexMatch s with
  | some (v, rest) => .tok (.num v) rest
  | none =>
  match s with
  | [] => .err
  | c :: cs =>
    if isDigit c then .tok (.num (numVal 10 (s.takeWhile isDigit))) (s.dropWhile isDigit)
    else if isIdStart c then .tok (.id (c :: cs.takeWhile isIdChar)) (cs.dropWhile isIdChar)
    else if isSkip c then .skip cs
    else if isGlyph c then .tok (.glyph c) cs
    else if c == '\'' then
      match cs.dropWhile notQuoteNl with
      | [] => .err
      | q :: rest => if q == '\'' then .tok (.str (cs.takeWhile notQuoteNl)) rest else .err
    else if c == ';' then .skip (cs.dropWhile notNl)
    else .err

/-- the `tokenize` loop; `fuel` ≥ length of the input + 1 is enough (every step consumes a character) -/
def lexAux : Nat → List Char → Option (List Tok)
  | _, [] => some []
  | 0, _ :: _ => none
  | fuel + 1, s@(_ :: _) =>
    match lexOne s with
    | .tok t rest => (lexAux fuel rest).map (t :: ·)
    | .skip rest => lexAux fuel rest
    | .err => none

/-- tokens of a line, `none` = `CompilerError("Unexpected char")` -/
def lex (s : List Char) : Option (List Tok) := lexAux (s.length + 1) s

/-- ASCII `str.lower()` -/
def lowerChar (c : Char) : Char :=
  if 65 ≤ c.toNat && c.toNat ≤ 90 then Char.ofNat (c.toNat + 32) else c
def lower (s : List Char) : List Char := s.map lowerChar

/-- the `typ` of a token as the parser sees it (`handle_id`: keyword typ = lower-cased text) -/
def typOf (kws : List String) : Tok → String
  | .num _ => "NUMBER"
  | .real _ => "REAL"
  | .id t => let l := String.ofList (lower t); if kws.contains l then l else "ID"
  | .glyph c => String.singleton c
  | .str _ => "STRING"

/-- `[A-Za-z_][A-Za-z\d_]*` matches the whole string -/
def isIdent : List Char → Bool
  | [] => false
  | c :: cs => isIdStart c && cs.all isIdChar

end Model.AsmLex
