import PpciVerif.Model.Proto
import PpciVerif.Model.Regex
import PpciVerif.Model.RegexParse
import PpciVerif.Spec.Lang
import PpciVerif.Spec.RegexLang
/-! Request decoding / reply encoding for the C31 driver (a library module so that the driver file
itself is tiny and starts fast).  See `Drivers/C31.lean` for the protocol. -/
namespace Model.RegexProto
open Proto Model.Regex Model.RegexParse Spec.Lang

/-! ### encodings -/

def showSet (s : SymSet) : String :=
  "[" ++ ",".intercalate (s.map fun r => s!"{r.1}:{r.2}") ++ "]"

def showRe : Re → String
  | .eps => "E"
  | .set s => "S" ++ showSet s
  | .star e => "K(" ++ showRe e ++ ")"
  | .cat l r => "C(" ++ showRe l ++ "," ++ showRe r ++ ")"
  | .or l r => "O(" ++ showRe l ++ "," ++ showRe r ++ ")"
  | .and l r => "A(" ++ showRe l ++ "," ++ showRe r ++ ")"

abbrev P (α : Type) := List Char → Option (α × List Char)

def pInt : P Int := fun cs =>
  let (neg, cs) := match cs with
    | '-' :: r => (true, r)
    | _ => (false, cs)
  let ds := cs.takeWhile Char.isDigit
  if ds.isEmpty then none else
  let n : Nat := ds.foldl (fun a d => a * 10 + (d.toNat - 48)) 0
  some ((if neg then -(n : Int) else (n : Int)), cs.drop ds.length)

def pRanges : Nat → List (Int × Int) → P (List (Int × Int))
  | 0, _, _ => none
  | fuel + 1, acc, cs =>
    match cs with
    | ']' :: r => some (acc.reverse, r)
    | ',' :: r => pRanges fuel acc r
    | _ =>
      match pInt cs with
      | some (a, ':' :: r) =>
        (match pInt r with
         | some (b, r') => pRanges fuel ((a, b) :: acc) r'
         | none => none)
      | _ => none

def pRe : Nat → P Re
  | 0, _ => none
  | fuel + 1, cs =>
    let bin (mk : Re → Re → Re) (r : List Char) : Option (Re × List Char) :=
      match pRe fuel r with
      | some (a, ',' :: r1) =>
        (match pRe fuel r1 with
         | some (b, ')' :: r2) => some (mk a b, r2)
         | _ => none)
      | _ => none
    match cs with
    | 'E' :: r => some (.eps, r)
    | 'S' :: '[' :: r => (pRanges (r.length + 1) [] r).map fun (s, r') => (.set s, r')
    | 'K' :: '(' :: r =>
      (match pRe fuel r with
       | some (a, ')' :: r1) => some (.star a, r1)
       | _ => none)
    | 'C' :: '(' :: r => bin .cat r
    | 'O' :: '(' :: r => bin .or r
    | 'A' :: '(' :: r => bin .and r
    | _ => none

def re? (s : String) : Option Re :=
  match pRe (s.length + 1) s.toList with
  | some (r, []) => some r
  | _ => none

def pSyn : Nat → P Syn
  | 0, _ => none
  | fuel + 1, cs =>
    let un (mk : Syn → Syn) (r : List Char) : Option (Syn × List Char) :=
      match pSyn fuel r with
      | some (a, ')' :: r1) => some (mk a, r1)
      | _ => none
    let bin (mk : Syn → Syn → Syn) (r : List Char) : Option (Syn × List Char) :=
      match pSyn fuel r with
      | some (a, ',' :: r1) =>
        (match pSyn fuel r1 with
         | some (b, ')' :: r2) => some (mk a b, r2)
         | _ => none)
      | _ => none
    match cs with
    | 'c' :: r => (pInt r).map fun (c, r') => (.chr c, r')
    | 'd' :: r => some (.dot, r)
    | 's' :: '[' :: r => (pRanges (r.length + 1) [] r).map fun (s, r') => (.cls s, r')
    | 'k' :: '(' :: r => un .star r
    | 'p' :: '(' :: r => un .plus r
    | 'q' :: '(' :: r => un .opt r
    | 't' :: '(' :: r => bin .cat r
    | 'a' :: '(' :: r => bin .alt r
    | _ => none

def syn? (s : String) : Option Syn :=
  match pSyn (s.length + 1) s.toList with
  | some (r, []) => some r
  | _ => none

/-- all strings over `al` of length exactly `n`, lexicographic in the order of `al` -/
def stringsOfLen (al : List Int) : Nat → List (List Int)
  | 0 => [[]]
  | n + 1 => al.flatMap fun c => (stringsOfLen al n).map (c :: ·)

def allStrings (al : List Int) (n : Nat) : List (List Int) :=
  (List.range (n + 1)).flatMap (stringsOfLen al)

def bits (bs : List Bool) : String := String.ofList (bs.map fun b => if b then '1' else '0')

def showErr (e : Err) : String := "err " ++ (if e = .Fuel then "Fuel" else e.name)

def showTok (t : List Int) : String := ".".intercalate (t.map toString)

def showDFA (d : DFA Bool) : String :=
  let ts := "/".intercalate (d.trans.map fun row => ",".intercalate (row.map fun t => s!"{t.1}:{t.2.1}:{t.2.2}"))
  s!"{ts} {bits d.accepts} {d.error}"

def reSize : Re → Nat
  | .eps => 1
  | .set _ => 1
  | .star e => reSize e + 1
  | .cat l r => reSize l + reSize r + 1
  | .or l r => reSize l + reSize r + 1
  | .and l r => reSize l + reSize r + 1

/-- Budget check before `Model.Regex.compile` is called: iterate `processState` (what `loop` does)
and stop as soon as `fuel` states were expanded or a pending state has more than `limit` nodes
(without ACI-normalisation the derivatives of some expressions double in size at every step). -/
def withinBudget (limit : Nat) (root : Re) : Nat → CState Re → Bool
  | fuel, st =>
    match st.stack with
    | [] => true
    | state :: rest =>
      match fuel with
      | 0 => false
      | fuel + 1 =>
        let st' := processState reOps root { st with stack := rest } state
        if st'.stack.any (fun x => decide (reSize x > limit)) then false
        else withinBudget limit root fuel st'

def sizeLimit : Nat := 4000

def compileB (fuel : Nat) (r : Re) : Except Err (DFA Bool) :=
  if withinBudget sizeLimit r fuel (addState ⟨[], [], []⟩ r) then compile fuel r else .error .Fuel

def splitSemi (s : String) : List String := (s.splitOn ";").filter (· ≠ "")

def step (line : String) : String :=
  match words line with
  | ["parse", t] => match intList? t with
      | some cs => (match parse cs with
          | .ok r => "ok " ++ showRe r
          | .error e => showErr e)
      | none => "bad-op"
  | ["pretty", t] => match syn? t with
      | some t => "ok " ++ showIntList (pretty t)
      | none => "bad-op"
  | ["meaning", t] => match syn? t with
      | some t => "ok " ++ showRe (meaning t)
      | none => "bad-op"
  | ["nullable", r] => match re? r with
      | some r => "ok " ++ (if nullable r then "True" else "False")
      | none => "bad-op"
  | ["deriv", r, c] => match re? r, int? c with
      | some r, some c => "ok " ++ showRe (derivative r c)
      | _, _ => "bad-op"
  | ["classes", r] => match re? r with
      | some r => "ok " ++ ";".intercalate ((derivativeClasses r).map showSet)
      | none => "bad-op"
  | ["compile", f, r] => match nat? f, re? r with
      | some f, some r => (match compileB f r with
          | .ok d => "ok " ++ showDFA d
          | .error e => showErr e)
      | _, _ => "bad-op"
  | ["acceptsmany", f, r, n, al] => match nat? f, re? r, nat? n, intList? al with
      | some f, some r, some n, some al => (match compileB f r with
          | .ok d => "ok " ++ String.ofList ((allStrings al n).map fun s =>
              match accepts d s with
              | .ok true => '1'
              | .ok false => '0'
              | .error _ => 'R')
          | .error e => showErr e)
      | _, _, _, _ => "bad-op"
  | ["scanmany", f, r, n, al] => match nat? f, re? r, nat? n, intList? al with
      | some f, some r, some n, some al => (match compileB f r with
          | .ok d => "ok " ++ " ".intercalate ((allStrings al n).map fun s =>
              let res := scan d s
              ";".intercalate (res.1.map showTok) ++ "!" ++ res.2.name)
          | .error e => showErr e)
      | _, _, _, _ => "bad-op"
  | ["auto", f, r, n, al] => match nat? f, re? r, nat? n, intList? al with
      | some f, some r, some n, some al => (match compileB f r with
          | .ok d =>
              let ss := allStrings al n
              "ok " ++ showDFA d ++ " | " ++ String.ofList (ss.map fun s =>
                match accepts d s with
                | .ok true => '1'
                | .ok false => '0'
                | .error _ => 'R') ++ " | " ++ " ".intercalate (ss.map fun s =>
                let res := scan d s
                ";".intercalate (res.1.map showTok) ++ "!" ++ res.2.name)
          | .error e => showErr e)
      | _, _, _, _ => "bad-op"
  | ["scanvec", f, rs, t] => match nat? f, (splitSemi rs).mapM re?, intList? t with
      | some f, some rs, some t =>
          let v : Vec := rs.zipIdx.map fun (r, i) => (i, r)
          (match compileVec f v with
          | .ok d =>
              let res := scanVec d t
              "ok " ++ ";".intercalate (res.1.map fun p => s!"{p.1}:{showTok p.2}") ++ "!" ++ res.2.name
          | .error e => showErr e)
      | _, _, _ => "bad-op"
  | ["smart", op, a, b] => match re? a, re? b with
      | some a, some b =>
        if op = "O" then "ok " ++ showRe (logicalOr a b)
        else if op = "A" then "ok " ++ showRe (logicalAnd a b)
        else if op = "C" then "ok " ++ showRe (concatenate a b)
        else "bad-op"
      | _, _ => "bad-op"
  | ["specmany", t, n, al] => match syn? t, nat? n, intList? al with
      | some t, some n, some al => "ok " ++ bits ((allStrings al n).map (matchB t.rx))
      | _, _, _ => "bad-op"
  | ["langmany", r, n, al] => match re? r, nat? n, intList? al with
      | some r, some n, some al => "ok " ++ bits ((allStrings al n).map (matchB (Spec.RegexLang.denote r)))
      | _, _, _ => "bad-op"
  | _ => "bad-op"


end Model.RegexProto
