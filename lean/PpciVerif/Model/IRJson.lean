import PpciVerif.Model.IRBuild
/-!
# Model.IRJson — ppci's JSON serialisation of IR modules (C16)

Mirrors `ppci/irutils/io.py` as it is after the `fix:` commits listed in notes/C16.md:
`DictWriter` (`writeModule`) and `DictReader` (`readModule`), between a `Spec.IR.Module` and a
JSON *tree* `J`.  JSON text ↔ tree is Python's `json` module (`dumps(..., sort_keys=True)`,
`loads`) and is not modelled: the reader only ever looks keys up, so key order is irrelevant,
`json` round-trips arbitrary-size integers, `true/false/null`, and floats by `repr`
(including `Infinity`/`NaN`, which it accepts back).  A float is kept as its binary64 bit
pattern (`J.flt`).

Objects are built through the construction layer `Model.IRBuild` shared with the text reader
(placeholders for forward references, constructor checks, `register_value` with its
`assert value.name not in scope`, `assert not self.undefined_values` at the end).

`bin2asc`/`asc2bin` (`ppci/utils/binary_txt.py`): one hex string, or a list of hex strings of
30 bytes each when the data is longer than 30 bytes.
-/
namespace Model.IRJson
open Spec.IR Model.IRBuild

inductive J
  | null
  | bool (b : Bool)
  | int (v : Int)
  | flt (bits : Nat)
  | str (s : String)
  | arr (xs : List J)
  | obj (kvs : List (String × J))
  deriving Repr, Inhabited

/-! ## hex, `bin2asc`, `asc2bin` -/

/-- `ppci.utils.chunk.chunks(data, 30)` -/
def chunks : Nat → List Nat → List (List Nat)
  | 0, _ => []
  | fuel + 1, l => if l.isEmpty then [] else l.take 30 :: chunks fuel (l.drop 30)

def bin2asc (data : List Nat) : J :=
  if data.length > 30 then .arr ((chunks data.length data).map (fun p => .str (String.ofList (hexlify p))))
  else .str (String.ofList (hexlify data))

def asc2binParts : List J → Except RErr (List Nat)
  | [] => .ok []
  | .str s :: r =>
    match unhexlify s.toList with
    | .error e => .error e
    | .ok a =>
      match asc2binParts r with
      | .ok b => .ok (a ++ b)
      | .error e => .error e
  | _ :: _ => .error .Unsupported   -- AttributeError: element without `.encode`

def asc2bin : J → Except RErr (List Nat)
  | .str s => unhexlify s.toList
  | .arr parts => asc2binParts parts
  | _ => .error .NotImplementedError

/-! ## writer -/

def writeType : Ty → J
  | .blob s a => .obj [("kind", .str "blob"), ("size", .int s), ("alignment", .int a)]
  | t => .obj [("kind", .str "basic"), ("name", .str (match t with
      | .int it => it.name | .f32 => "f32" | .f64 => "f64" | _ => "ptr"))]

def writeBinding (g : Bool) : J := .str (if g then "global" else "local")

def ref (o : Operand) : J := .str (opName o)

def writeConst : ConstVal → J
  | .int v => .int v
  | .fbits b => .flt b

/-- `DictWriter.write_instruction`; `none` = `NotImplementedError` -/
def writeInstr : Instr → Option J
  | .load d ty a vol => some (.obj [("kind", .str "load"), ("name", .str d), ("type", writeType ty),
      ("address", ref a), ("volatile", .bool vol)])
  | .store _ v a vol => some (.obj [("kind", .str "store"), ("address", ref a), ("value", ref v),
      ("volatile", .bool vol)])
  | .alloc d s a => some (.obj [("kind", .str "alloc"), ("type", writeType (.blob s a)), ("size", .int s),
      ("alignment", .int a), ("name", .str d)])
  | .binop d ty op a b => some (.obj [("kind", .str "binop"), ("name", .str d), ("type", writeType ty),
      ("a", ref a), ("operation", .str op.symbol), ("b", ref b)])
  | .unop d ty op a => some (.obj [("kind", .str "unop"), ("name", .str d), ("type", writeType ty),
      ("a", ref a), ("operation", .str (match op with | .neg => "-" | .not => "~"))])
  | .addrof d s => some (.obj [("kind", .str "addressof"), ("name", .str d), ("type", writeType .ptr),
      ("src", ref s)])
  | .exit => some (.obj [("kind", .str "exit")])
  | .ret v => some (.obj [("kind", .str "return"), ("result", ref v)])
  | .jump t => some (.obj [("kind", .str "jump"), ("target", .str t)])
  | .cjump a c b y n => some (.obj [("kind", .str "cjump"), ("a", ref a), ("b", ref b),
      ("condition", .str c.symbol), ("yes_block", .str y), ("no_block", .str n)])
  | .cast d ty a => some (.obj [("kind", .str "cast"), ("name", .str d), ("type", writeType ty),
      ("value", ref a)])
  | .const d ty c => some (.obj [("kind", .str "const"), ("name", .str d), ("type", writeType ty),
      ("value", writeConst c)])
  | .undefined d ty => some (.obj [("kind", .str "undefined"), ("name", .str d), ("type", writeType ty)])
  | .copyblob d s n => some (.obj [("kind", .str "copyblob"), ("dst", ref d), ("src", ref s),
      ("amount", .int n)])
  | .literal d data => some (.obj [("kind", .str "literaldata"), ("name", .str d), ("data", bin2asc data)])
  | .pcall c args => some (.obj [("kind", .str "procedurecall"), ("callee", ref c),
      ("arguments", .arr (args.map ref))])
  | .fcall d ty c args => some (.obj [("kind", .str "functioncall"), ("name", .str d), ("type", writeType ty),
      ("callee", ref c), ("arguments", .arr (args.map ref))])
  | .phi d ty ins => some (.obj [("kind", .str "phi"), ("name", .str d), ("type", writeType ty),
      ("inputs", .arr (ins.map (fun p => .obj [("block", .str p.1), ("value", ref p.2)])))])
  | .asm .. => none

def mapOpt {α β : Type} (f : α → Option β) : List α → Option (List β)
  | [] => some []
  | a :: r =>
    match f a, mapOpt f r with
    | some b, some bs => some (b :: bs)
    | _, _ => none

def writeBlock (b : Block) : Option J :=
  match mapOpt writeInstr b.instrs with
  | some is => some (.obj [("name", .str b.name), ("instructions", .arr is)])
  | none => none

def writeFunc (f : Func) : Option J :=
  match mapOpt writeBlock f.blocks with
  | none => none
  | some bs =>
    let base : List (String × J) :=
      [("binding", writeBinding f.isGlobal), ("name", .str f.name),
       ("parameters", .arr (f.params.map (fun p => .obj [("name", .str p.1), ("type", writeType p.2)]))),
       ("blocks", .arr bs)]
    some (.obj (base ++ (match f.ret with
      | some t => [("kind", .str "function"), ("return_type", writeType t)]
      | none => [("kind", .str "procedure")])))

def writeInitPart : InitPart → J
  | .bytes bs => .obj [("kind", .str "bytes"), ("data", bin2asc bs)]
  | .ref n => .obj [("kind", .str "address"), ("name", .str n)]

def writeVar (v : GVar) : J :=
  .obj [("name", .str v.name), ("binding", writeBinding v.isGlobal), ("amount", .int v.size),
        ("alignment", .int v.align),
        ("value", match v.init with | none => .null | some ps => .arr (ps.map writeInitPart))]

def writeExtern (e : Extern) : J :=
  match e.kind with
  | .var => .obj [("kind", .str "variable"), ("name", .str e.name)]
  | .func ts r => .obj [("kind", .str "function"), ("name", .str e.name),
      ("parameter_types", .arr (ts.map writeType)), ("return_type", writeType r)]
  | .proc ts => .obj [("kind", .str "procedure"), ("name", .str e.name),
      ("parameter_types", .arr (ts.map writeType))]

/-- `to_dict(module)`; `none` = `NotImplementedError` (inline assembly) -/
def writeModule (m : Module) : Option J :=
  match mapOpt writeFunc m.funcs with
  | none => none
  | some fs => some (.obj [("name", .str m.name), ("externals", .arr (m.externs.map writeExtern)),
      ("variables", .arr (m.vars.map writeVar)), ("subroutines", .arr fs)])

/-! ## reader -/

def lookupKey : List (String × J) → String → Option J
  | [], _ => none
  | (k, v) :: r, x => if x = k then some v else lookupKey r x

/-- `d[key]` -/
def get (j : J) (key : String) : Except RErr J :=
  match j with
  | .obj kvs =>
    match lookupKey kvs key with
    | some v => .ok v
    | none => .error .KeyError
  | _ => .error .TypeError

def asStr : J → Except RErr String
  | .str s => .ok s
  | _ => .error .Unsupported

def asNat : J → Except RErr Nat
  | .int v => if v < 0 then .error .Unsupported else .ok v.toNat
  | _ => .error .Unsupported

def asArr : J → Except RErr (List J)
  | .arr xs => .ok xs
  | _ => .error .Unsupported

def asBool : J → Except RErr Bool
  | .bool b => .ok b
  | _ => .error .Unsupported

def getStr (j : J) (k : String) : Except RErr String := do asStr (← get j k)
def getNat (j : J) (k : String) : Except RErr Nat := do asNat (← get j k)
def getArr (j : J) (k : String) : Except RErr (List J) := do asArr (← get j k)

def mapE {α β : Type} (f : α → Except RErr β) : List α → Except RErr (List β)
  | [] => .ok []
  | a :: r =>
    match f a with
    | .error e => .error e
    | .ok b =>
      match mapE f r with
      | .error e => .error e
      | .ok bs => .ok (b :: bs)

def basicTy (name : String) : Option Ty :=
  if name = "f64" then some .f64 else if name = "f32" then some .f32 else if name = "ptr" then some .ptr
  else (Spec.IRArith.Ty.all.find? (fun t => t.name = name)).map .int

/-- `get_type` -/
def getType (j : J) : Except RErr Ty := do
  let k ← getStr j "kind"
  if k = "basic" then do
    let n ← getStr j "name"
    match basicTy n with
    | some t => pure t
    | none => .error .KeyError
  else if k = "blob" then do
    let s ← getNat j "size"
    let a ← getNat j "alignment"
    pure (.blob s a)
  else .error .NotImplementedError

def getTypeAt (j : J) (k : String) : Except RErr Ty := do getType (← get j k)

def strBinop (s : String) : Option BinOp := BinOp.all.find? (fun o => o.symbol = s)
def strUnop (s : String) : Option UnOp := if s = "-" then some .neg else if s = "~" then some .not else none
def strCond (s : String) : Option Cond := Cond.all.find? (fun c => c.symbol = s)

def readPhiIn (j : J) : Except RErr (String × Operand) := do
  let b ← getStr j "block"
  let v ← getStr j "value"
  pure (b, .glob v)

/-- `construct_instruction` up to the `ir.*` constructor: the raw instruction -/
def readInstrRaw (j : J) : Except RErr Instr := do
  let k ← getStr j "kind"
  if k = "load" then do
    let d ← getStr j "name"
    let ty ← getTypeAt j "type"
    let a ← getStr j "address"
    let vol ← asBool (← get j "volatile")
    pure (.load d ty (.glob a) vol)
  else if k = "store" then do
    let v ← getStr j "value"
    let a ← getStr j "address"
    let vol ← asBool (← get j "volatile")
    pure (.store .ptr (.glob v) (.glob a) vol)
  else if k = "alloc" then do
    let d ← getStr j "name"
    let s ← getNat j "size"
    let a ← getNat j "alignment"
    pure (.alloc d s a)
  else if k = "addressof" then do
    let d ← getStr j "name"
    let _ ← getTypeAt j "type"
    let s ← getStr j "src"
    pure (.addrof d (.glob s))
  else if k = "binop" then do
    let d ← getStr j "name"
    let ty ← getTypeAt j "type"
    let a ← getStr j "a"
    let o ← getStr j "operation"
    let b ← getStr j "b"
    match strBinop o with
    | some op => pure (.binop d ty op (.glob a) (.glob b))
    | none => .error .TypeError
  else if k = "unop" then do
    let d ← getStr j "name"
    let ty ← getTypeAt j "type"
    let a ← getStr j "a"
    let o ← getStr j "operation"
    match strUnop o with
    | some op => pure (.unop d ty op (.glob a))
    | none => .error .TypeError
  else if k = "cast" then do
    let d ← getStr j "name"
    let ty ← getTypeAt j "type"
    let a ← getStr j "value"
    pure (.cast d ty (.glob a))
  else if k = "const" then do
    let d ← getStr j "name"
    let ty ← getTypeAt j "type"
    match (← get j "value") with
    | .int v => pure (.const d ty (.int v))
    | .flt b => pure (.const d ty (.fbits b))
    | _ => .error .Unsupported
  else if k = "undefined" then do
    let d ← getStr j "name"
    let ty ← getTypeAt j "type"
    pure (.undefined d ty)
  else if k = "copyblob" then do
    let d ← getStr j "dst"
    let s ← getStr j "src"
    let n ← getNat j "amount"
    pure (.copyblob (.glob d) (.glob s) n)
  else if k = "literaldata" then do
    let d ← getStr j "name"
    let data ← asc2bin (← get j "data")
    pure (.literal d data)
  else if k = "phi" then do
    let d ← getStr j "name"
    let ty ← getTypeAt j "type"
    let ins ← mapE readPhiIn (← getArr j "inputs")
    pure (.phi d ty ins)
  else if k = "jump" then do
    let t ← getStr j "target"
    pure (.jump t)
  else if k = "cjump" then do
    let a ← getStr j "a"
    let c ← getStr j "condition"
    let b ← getStr j "b"
    let y ← getStr j "yes_block"
    let n ← getStr j "no_block"
    match strCond c with
    | some cc => pure (.cjump (.glob a) cc (.glob b) y n)
    | none => .error .ValueError
  else if k = "procedurecall" then do
    let c ← getStr j "callee"
    let args ← mapE asStr (← getArr j "arguments")
    pure (.pcall (.glob c) (args.map .glob))
  else if k = "functioncall" then do
    let d ← getStr j "name"
    let ty ← getTypeAt j "type"
    let c ← getStr j "callee"
    let args ← mapE asStr (← getArr j "arguments")
    pure (.fcall d ty (.glob c) (args.map .glob))
  else if k = "exit" then pure .exit
  else if k = "return" then do
    let v ← getStr j "result"
    pure (.ret (.glob v))
  else .error .NotImplementedError

/-- `construct_instruction` + `block.add_instruction` -/
def readInstr (st : BState) (j : J) : Except RErr BState := do
  let raw ← readInstrRaw j
  let (st1, i) ← feed st raw
  append st1 i

def readInstrs : BState → List J → Except RErr BState
  | st, [] => .ok st
  | st, j :: r =>
    match readInstr st j with
    | .error e => .error e
    | .ok st1 => readInstrs st1 r

/-- `construct_block` + `subroutine.add_block` -/
def readBlock (st : BState) (j : J) : Except RErr BState := do
  let name ← getStr j "name"
  let is ← getArr j "instructions"
  let st1 ← beginBlockJson st name
  let st2 ← readInstrs st1 is
  endBlockJson st2

def readBlocks : BState → List J → Except RErr BState
  | st, [] => .ok st
  | st, j :: r =>
    match readBlock st j with
    | .error e => .error e
    | .ok st1 => readBlocks st1 r

def readParams : BState → List J → Except RErr (BState × List (String × Ty))
  | st, [] => .ok (st, [])
  | st, j :: r => do
    let n ← getStr j "name"
    let ty ← getTypeAt j "type"
    let st1 ← defineLocal st n ty
    let (st2, ps) ← readParams st1 r
    pure (st2, (n, ty) :: ps)

def readBinding (j : J) : Except RErr Bool := do
  let s ← asStr j
  if s = "local" then pure false else if s = "global" then pure true else .error .KeyError

/-- `construct_subroutine` -/
def readFunc (st : BState) (j : J) : Except RErr BState := do
  let name ← getStr j "name"
  let blocks ← getArr j "blocks"
  let params ← getArr j "parameters"
  let isGlobal ← readBinding (← get j "binding")
  let k ← getStr j "kind"
  let ret ←
    (if k = "function" then do
      let t ← getTypeAt j "return_type"
      pure (some t)
    else if k = "procedure" then pure none
    else .error .NotImplementedError : Except RErr (Option Ty))
  let st1 ← defineGlobal st name
  let st2 := beginFunc st1
  let (st3, ps) ← readParams st2 params
  let st4 ← readBlocks st3 blocks
  endFunc st4 name isGlobal ret ps

def readFuncs : BState → List J → Except RErr BState
  | st, [] => .ok st
  | st, j :: r =>
    match readFunc st j with
    | .error e => .error e
    | .ok st1 => readFuncs st1 r

def readInitPart (j : J) : Except RErr InitPart := do
  let k ← getStr j "kind"
  if k = "bytes" then do
    let data ← asc2bin (← get j "data")
    pure (.bytes data)
  else if k = "address" then do
    let n ← getStr j "name"
    pure (.ref n)
  else .error .NotImplementedError

/-- `construct_variable` (`json_variable.get("value")`: a missing key is `None`) -/
def readVar (st : BState) (j : J) : Except RErr (BState × GVar) := do
  let name ← getStr j "name"
  let isGlobal ← readBinding (← get j "binding")
  let amount ← getNat j "amount"
  let al ← getNat j "alignment"
  let init ←
    (match j with
     | .obj kvs =>
       match lookupKey kvs "value" with
       | none => pure none
       | some .null => pure none
       | some v => do
         let ps ← mapE readInitPart (← asArr v)
         pure (some ps)
     | _ => .error .TypeError : Except RErr (Option (List InitPart)))
  let st1 ← defineGlobal st name
  pure (st1, { name := name, isGlobal := isGlobal, size := amount, align := al, init := init })

def readVars : BState → List J → Except RErr (BState × List GVar)
  | st, [] => .ok (st, [])
  | st, j :: r => do
    let (st1, v) ← readVar st j
    let (st2, vs) ← readVars st1 r
    pure (st2, v :: vs)

/-- `construct_external` -/
def readExtern (st : BState) (j : J) : Except RErr (BState × Extern) := do
  let k ← getStr j "kind"
  let name ← getStr j "name"
  let kind ←
    (if k = "variable" then pure .var
    else if k = "function" then do
      let ts ← mapE getType (← getArr j "parameter_types")
      let r ← getTypeAt j "return_type"
      pure (.func ts r)
    else if k = "procedure" then do
      let ts ← mapE getType (← getArr j "parameter_types")
      pure (.proc ts)
    else .error .NotImplementedError : Except RErr ExternKind)
  let st1 ← defineGlobal st name
  pure (st1, { name := name, kind := kind })

def readExterns : BState → List J → Except RErr (BState × List Extern)
  | st, [] => .ok (st, [])
  | st, j :: r => do
    let (st1, e) ← readExtern st j
    let (st2, es) ← readExterns st1 r
    pure (st2, e :: es)

/-- `DictReader.construct` (after `json.loads`) -/
def readModule (j : J) : Except RErr Module := do
  let name ← getStr j "name"
  let es ← getArr j "externals"
  let vs ← getArr j "variables"
  let fs ← getArr j "subroutines"
  let st0 : BState := { json := true }
  let (st1, externs) ← readExterns st0 es
  let (st2, vars) ← readVars st1 vs
  let st3 ← readFuncs st2 fs
  let funcs ← finishFuncs st3
  pure { name := name, externs := externs, vars := vars, funcs := funcs }

end Model.IRJson
