import PpciVerif.Model.RegexParse
/-
Model of ppci/lang/tools/regex/{parser,compiler,scanner}.py AS THEY WERE before the three `fix:`
commits recorded in findings/C31.json (kept only to state the negation witnesses in
Props/C31.lean; the current code is modelled in Model/Regex.lean and Model/RegexParse.lean).

parser.py (before):
    def _parse_or(self):
        expr = self._parse_and()            # _parse_and = _parse_element: ONE element
        while self.did_eat("|"):
            rhs = self._parse_and()
            expr = expr | rhs
        return expr
  and `parse` concatenates successive `_parse_top()` results: alternation binds tighter than
  concatenation, and a group `( … )` can hold only one alternation of single elements.

compiler.py (before): no state is added for `expr.null`; `error = state_numbers[expr.null]`
  raises KeyError when the error state is not reachable.

scanner.py (before): `if accept:` (without `and end > start`): an accepted EMPTY prefix is
  emitted as token `''`, after which the loop is in exactly the same configuration again:
  the generator yields `''` for ever (`End.endlessEmpty`).
-/
namespace Model.RegexLegacy
open Model.Regex Model.RegexParse

mutual
def parseOr : Nat → List Int → Except Err (Re × List Int)
  | 0, _ => .error .Fuel
  | fuel + 1, inp =>
    match parseElement fuel inp with
    | .error e => .error e
    | .ok (e, r) => orLoop fuel e r

def orLoop : Nat → Re → List Int → Except Err (Re × List Int)
  | 0, _, _ => .error .Fuel
  | fuel + 1, acc, inp =>
    if peek 124 inp then
      (match parseElement fuel (inp.drop 1) with
       | .error e => .error e
       | .ok (e, r') => orLoop fuel (logicalOr acc e) r')
    else .ok (acc, inp)

def parseElement : Nat → List Int → Except Err (Re × List Int)
  | 0, _ => .error .Fuel
  | fuel + 1, inp =>
    if peek 40 inp then
      (match parseOr fuel (inp.drop 1) with
       | .error e => .error e
       | .ok (e, r1) =>
         match eatC 41 r1 with
         | .error e => .error e
         | .ok r2 => .ok (modifier e r2))
    else if peek 91 inp then
      (match parseSet fuel inp with
       | .error e => .error e
       | .ok (e, r1) => .ok (modifier e r1))
    else if peek 46 inp then .ok (modifier SIGMA (inp.drop 1))
    else
      (match eatAny inp with
       | .error e => .error e
       | .ok (c, r) => .ok (modifier (symbol c) r))
end

def topLoop : Nat → Re → List Int → Except Err Re
  | 0, _, _ => .error .Fuel
  | fuel + 1, acc, inp =>
    match inp with
    | [] => .ok acc
    | _ =>
      match parseOr fuel inp with
      | .error e => .error e
      | .ok (e, r) => topLoop fuel (concatenate acc e) r

def parse (txt : List Int) : Except Err Re :=
  match txt with
  | [] => .ok .eps
  | _ =>
    match parseOr (parseFuel txt) txt with
    | .error e => .error e
    | .ok (e, r) => topLoop (parseFuel txt) e r

/-! compile without the error-state repair -/

def processState {σ : Type} [DecidableEq σ] (O : Ops σ) (st : CState σ) (state : σ) : CState σ :=
  let n := indexOf state st.states
  let st := (O.classes state).foldl (classStep O state n) st
  { st with trans := modifyAt sortT n st.trans }

def loop {σ : Type} [DecidableEq σ] (O : Ops σ) : Nat → CState σ → Option (CState σ)
  | fuel, st =>
    match st.stack with
    | [] => some st
    | state :: rest =>
      match fuel with
      | 0 => none
      | fuel + 1 => loop O fuel (processState O { st with stack := rest } state)

def compile (fuel : Nat) (r : Re) : Except Err (DFA Bool) :=
  match loop reOps fuel (addState ⟨[], [], []⟩ r) with
  | none => .error .Fuel
  | some st =>
    if NULL ∈ st.states then
      .ok { trans := st.trans, accepts := st.states.map nullable, error := indexOf NULL st.states }
    else .error .KeyError

/-! scan that emits empty tokens -/

inductive End where
  | done | noMatch | endlessEmpty | err (e : Err) | fuel
  deriving DecidableEq, Repr

/-- tokens emitted before the generator ends — or before it starts to yield `''` for ever -/
def scanLoop (d : DFA Bool) : Nat → List Int → List (List Int) × End
  | 0, _ => ([], .fuel)
  | fuel + 1, rest =>
    match munch d id 0 rest 0 none with
    | .error e => ([], .err e)
    | .ok (some (_, e), _) =>
      if e > 0 then
        let r := scanLoop d fuel (rest.drop e)
        (rest.take e :: r.1, r.2)
      else ([], .endlessEmpty)                    -- `yield ''`, same configuration again
    | .ok (none, k) => if k > 0 then ([], .noMatch) else ([], .done)

def scan (d : DFA Bool) (chars : List Int) : List (List Int) × End := scanLoop d (chars.length + 1) chars

end Model.RegexLegacy
