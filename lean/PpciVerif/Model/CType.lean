/-
`Model.CType` — hand model (import-free) of the typing part of ppci's C front-end for
integer expressions, as the code is at /repo HEAD (after `fix:` commits 21f7d05 and the
C01 repairs listed in findings/C01.json):

  ppci/lang/c/semantics.py : CSemantics.on_number / on_char / on_sizeof / on_unop /
                             on_binop / on_ternop / on_cast / check_condition / coerce /
                             promote / get_common_type / basic_ranks / size_t_type
  ppci/lang/c/scope.py     : RootScope.atomic_types (the "unsigned" + type_id lookup)
  ppci/lang/c/context.py   : CContext.type_size_map / limit_max / to_integer_type (x86_64)
  ppci/lang/c/nodes/types.py : BasicType.SIGNED_INTEGER_TYPES / PROMOTABLE_INTEGER_TYPES

`elaborate` maps what the parser hands to the semantic actions (`Src`) to the typed tree the
actions build (`TExpr`: every node carries `.typ`; `ImplicitCast`/`Cast` nodes explicit).
Scope: operands are rvalues of the ten integer `BasicType`s (variables, integer and
character constants, `sizeof(type)`), operators `+ - ~ !` unary, `+ - * / % << >> & | ^
< > <= >= == != && ||` binary, `?:`, casts.  No pointers, floats, enums, assignment,
increment/decrement, comma, calls.

The table part (`Ty.size/isSigned/isPromotable/rank/unsignedVariant`, `sizeT`) is checked
against `Gen.CTypes` (dump of the live objects) by `Props.C01.tables_match_source`; the
whole of `elaborate` is diffed with the real typed AST on every run (harness/c01.py).

`Legacy` keeps the rules of the code *before* 21f7d05 for the Lean-proved witnesses of the
typing defects that commit repaired.
-/
namespace Model.CType

/-! ### types -/

inductive Ty
  | char | uchar | short | ushort | int | uint | long | ulong | llong | ullong
  deriving DecidableEq, Repr, Inhabited

namespace Ty

def all : List Ty := [char, uchar, short, ushort, int, uint, long, ulong, llong, ullong]

/-- `BasicType.<X>` (= `typ.type_id`) -/
def id : Ty → String
  | char => "char" | uchar => "unsigned char" | short => "short" | ushort => "unsigned short"
  | int => "int" | uint => "unsigned int" | long => "long" | ulong => "unsigned long"
  | llong => "long long" | ullong => "unsigned long long"

/-- short name used on the driver protocol -/
def tag : Ty → String
  | char => "char" | uchar => "uchar" | short => "short" | ushort => "ushort"
  | int => "int" | uint => "uint" | long => "long" | ulong => "ulong"
  | llong => "llong" | ullong => "ullong"

/-- `CContext.type_size_map[tid][0]` on x86_64 -/
def size : Ty → Nat
  | char | uchar => 1 | short | ushort => 2 | int | uint => 4 | _ => 8

/-- `CContext.type_size_map[tid][1]` on x86_64 -/
def align : Ty → Nat
  | char | uchar => 1 | short | ushort => 2 | int | uint => 4 | _ => 8

/-- `tid in BasicType.SIGNED_INTEGER_TYPES` -/
def isSigned : Ty → Bool
  | char | short | int | long | llong => true
  | _ => false

/-- `tid in BasicType.PROMOTABLE_INTEGER_TYPES` -/
def isPromotable : Ty → Bool
  | char | uchar | short | ushort => true
  | _ => false

/-- `CSemantics.basic_ranks[tid]` -/
def rank : Ty → Nat
  | char => 30 | uchar => 31 | short => 40 | ushort => 41 | int => 50 | uint => 51
  | long => 60 | ulong => 61 | llong => 70 | ullong => 71

/-- `get_type(["unsigned"] + type_id.split())` through `RootScope.atomic_types` -/
def unsignedVariant : Ty → Ty
  | char | uchar => uchar | short | ushort => ushort | int | uint => uint
  | long | ulong => ulong | llong | ullong => ullong

end Ty

/-- `CContext.limit_max(typ)` -/
def limitMax (τ : Ty) : Int :=
  if τ.isSigned then 2 ^ (8 * τ.size - 1) - 1 else 2 ^ (8 * τ.size) - 1

/-- `CContext.wrap_integer(value, bit_size, signed)` -/
def wrapInteger (value : Int) (bitSize : Nat) (signed : Bool) : Int :=
  let value := value % 2 ^ bitSize
  if signed = true ∧ value / 2 ^ (bitSize - 1) ≠ 0 then value - 2 ^ bitSize else value

/-- `CContext.to_integer_type(typ, value)` -/
def toIntegerType (τ : Ty) (value : Int) : Int := wrapInteger value (8 * τ.size) τ.isSigned

/-- `CSemantics.size_t_type`: `int` when `sizeof(int) == sizeof(int*)`, else `long` (x86_64: `long`) -/
def sizeTType : Ty := if Ty.int.size = 8 then .int else .long

/-- the type `on_sizeof` gives a `sizeof` expression: `size_t_type` itself (a SIGNED type) -/
def sizeofType : Ty := sizeTType

/-! ### trees -/

inductive UnSym | minus | tilde | bang | plus
  deriving DecidableEq, Repr

def UnSym.str : UnSym → String
  | .minus => "-" | .tilde => "~" | .bang => "!" | .plus => "+"

/-- operators of `expressions.UnaryOperator` nodes that `on_unop` builds (`+` builds no node) -/
inductive TUnSym | minus | tilde | bang
  deriving DecidableEq, Repr

def TUnSym.str : TUnSym → String
  | .minus => "-" | .tilde => "~" | .bang => "!"

inductive BinSym
  | plus | minus | star | slash | percent | shl | shr | amp | bar | caret
  | lt | gt | le | ge | eqeq | ne | andand | oror
  deriving DecidableEq, Repr

def BinSym.str : BinSym → String
  | .plus => "+" | .minus => "-" | .star => "*" | .slash => "/" | .percent => "%"
  | .shl => "<<" | .shr => ">>" | .amp => "&" | .bar => "|" | .caret => "^"
  | .lt => "<" | .gt => ">" | .le => "<=" | .ge => ">=" | .eqeq => "==" | .ne => "!="
  | .andand => "&&" | .oror => "||"

def BinSym.all : List BinSym :=
  [.plus, .minus, .star, .slash, .percent, .shl, .shr, .amp, .bar, .caret,
   .lt, .gt, .le, .ge, .eqeq, .ne, .andand, .oror]

def BinSym.isCmp : BinSym → Bool
  | .lt | .gt | .le | .ge | .eqeq | .ne => true
  | _ => false

def BinSym.isLogic : BinSym → Bool
  | .andand | .oror => true
  | _ => false

def BinSym.isShift : BinSym → Bool
  | .shl | .shr => true
  | _ => false

/-- what the parser hands to the semantic actions.  An integer constant is
    (`not text.startswith("0")`, `"unsigned" in specifiers`, `specifiers.count("long")`, value)
    as computed by `utils.cnum`; a character constant is the code of its single character;
    `szof n` is `sizeof(T)` for a type `T` with `CContext.sizeof(T) = n`. -/
inductive Src
  | var (τ : Ty) (i : Nat)
  | num (decimal unsigned : Bool) (longs : Nat) (v : Nat)
  | chr (v : Nat)
  | szof (n : Nat)
  | un (op : UnSym) (a : Src)
  | bin (op : BinSym) (a b : Src)
  | tern (c a b : Src)
  | cast (τ : Ty) (a : Src)
  deriving Repr

/-- typed tree (`expressions.*` with `.typ`) -/
inductive TExpr
  | var (τ : Ty) (i : Nat)                       -- VariableAccess (lvalue, loaded when used)
  | num (τ : Ty) (v : Int)                       -- NumericLiteral
  | chr (τ : Ty) (v : Int)                       -- CharLiteral
  | szof (τ : Ty) (n : Nat)                      -- Sizeof
  | un (op : TUnSym) (τ : Ty) (a : TExpr)        -- UnaryOperator
  | bin (op : BinSym) (τ : Ty) (a b : TExpr)     -- BinaryOperator
  | tern (τ : Ty) (c a b : TExpr)                -- TernaryOperator
  | cast (implicit : Bool) (τ : Ty) (a : TExpr)  -- Cast / ImplicitCast
  deriving Repr, DecidableEq

def TExpr.ty : TExpr → Ty
  | .var τ _ | .num τ _ | .chr τ _ | .szof τ _ | .un _ τ _ | .bin _ τ _ _ | .tern τ _ _ _ | .cast _ τ _ => τ

/-! ### `CSemantics` -/

/-- `coerce(expr, typ)` on integer basic types: `ImplicitCast` unless `equal_types` -/
def coerce (e : TExpr) (τ : Ty) : TExpr := if e.ty = τ then e else .cast true τ e

/-- the type `promote(expr)` coerces to -/
def promoteTy (τ : Ty) : Ty :=
  if τ.isPromotable then
    (if τ.isSigned || decide (τ.size < Ty.int.size) then .int else .uint)
  else τ

def promote (e : TExpr) : TExpr := coerce e (promoteTy e.ty)

/-- `get_common_type(typ1, typ2)` on integer basic types -/
def commonType (t1 t2 : Ty) : Ty :=
  let common := if t1.rank ≥ t2.rank then t1 else t2
  let other := if t1.rank ≥ t2.rank then t2 else t1
  if common.isSigned && !other.isSigned && decide (common.size ≤ other.size)
  then common.unsignedVariant else common

/-- the candidate list built in `on_number` -/
def candidateTypes (decimal unsigned : Bool) (minLongs : Nat) : List Ty :=
  ([(Ty.int, Ty.uint), (Ty.long, Ty.ulong), (Ty.llong, Ty.ullong)].drop minLongs).flatMap fun (s, u) =>
    (if !unsigned then [s] else []) ++ (if unsigned || !decimal || s != Ty.int then [u] else [])

/-- `for typ in candidate_types: if value <= limit_max(typ): break` – the loop variable afterwards -/
def pickType (v : Int) : List Ty → Option Ty
  | [] => none
  | [τ] => some τ
  | τ :: rest => if v ≤ limitMax τ then some τ else pickType v rest

/-- `on_number`; `none` = no result (diagnostic "Integer value too big", or an empty candidate list) -/
def onNumber (decimal unsigned : Bool) (longs : Nat) (v : Nat) : Option TExpr :=
  match pickType v (candidateTypes decimal unsigned longs) with
  | none => none
  | some τ => if (v : Int) > limitMax τ then none else some (.num τ v)

/-- `on_char`: value of a `char`, type `int` -/
def onChar (v : Nat) : TExpr := .chr .int (toIntegerType .char v)

/-- `on_sizeof` -/
def onSizeof (n : Nat) : TExpr := .szof sizeofType n

/-- numeric binary operators: promote both, coerce both to the common type -/
def arithOperands (a b : TExpr) : Ty × TExpr × TExpr :=
  let a := promote a
  let b := promote b
  let τ := commonType a.ty b.ty
  (τ, coerce a τ, coerce b τ)

/-- `on_binop` (integer rvalue operands) -/
def onBinop (op : BinSym) (a b : TExpr) : TExpr :=
  match op with
  | .oror | .andand => .bin op .int a b             -- check_condition keeps integer operands as they are
  | .plus | .minus | .star | .slash | .percent | .amp | .bar | .caret =>
    let (τ, a, b) := arithOperands a b
    .bin op τ a b
  | .lt | .gt | .eqeq | .ne | .le | .ge =>
    let (_, a, b) := arithOperands a b
    .bin op .int a b
  | .shl | .shr =>
    let a := promote a
    let b := promote b
    let τ := commonType a.ty a.ty
    .bin op τ (coerce a τ) (coerce b τ)

/-- `on_unop` -/
def onUnop (op : UnSym) (a : TExpr) : TExpr :=
  match op with
  | .minus => let a := promote a; .un .minus a.ty a
  | .tilde => let a := promote a; .un .tilde a.ty a
  | .plus => promote a
  | .bang => .un .bang .int a

/-- `on_ternop` -/
def onTernop (c a b : TExpr) : TExpr :=
  let a := promote a
  let b := promote b
  let τ := commonType a.ty b.ty
  .tern τ c (coerce a τ) (coerce b τ)

/-- the semantic actions applied bottom-up by the parser -/
def elaborate : Src → Option TExpr
  | .var τ i => some (.var τ i)
  | .num d u l v => onNumber d u l v
  | .chr v => some (onChar v)
  | .szof n => some (onSizeof n)
  | .un op a => (elaborate a).map (onUnop op)
  | .bin op a b =>
    match elaborate a, elaborate b with
    | some a, some b => some (onBinop op a b)
    | _, _ => none
  | .tern c a b =>
    match elaborate c, elaborate a, elaborate b with
    | some c, some a, some b => some (onTernop c a b)
    | _, _, _ => none
  | .cast τ a => (elaborate a).map (.cast false τ)

/-! ### canonical text (driver protocol, compared verbatim with the real typed AST) -/

def TExpr.show : TExpr → String
  | .var τ i => s!"(var {τ.tag} {i})"
  | .num τ v => s!"(num {τ.tag} {v})"
  | .chr τ v => s!"(chr {τ.tag} {v})"
  | .szof τ n => s!"(sizeof {τ.tag} {n})"
  | .un op τ a => s!"(un {op.str} {τ.tag} {a.show})"
  | .bin op τ a b => s!"(bin {op.str} {τ.tag} {a.show} {b.show})"
  | .tern τ c a b => s!"(tern {τ.tag} {c.show} {a.show} {b.show})"
  | .cast i τ a => s!"({if i then "icast" else "cast"} {τ.tag} {a.show})"

/-! ### the rules before commit 21f7d05 (kept for the witnesses of the repaired defects) -/

namespace Legacy

/-- `promote`: always to `int` -/
def promoteTy (τ : Ty) : Ty := if τ.isPromotable then .int else τ
def promote (e : TExpr) : TExpr := coerce e (promoteTy e.ty)

/-- `get_common_type`: `max(.., key=rank)` (first maximal element) -/
def commonType (t1 t2 : Ty) : Ty := if t2.rank > t1.rank then t2 else t1

def arithOperands (a b : TExpr) : Ty × TExpr × TExpr :=
  let a := promote a
  let b := promote b
  let τ := commonType a.ty b.ty
  (τ, coerce a τ, coerce b τ)

def onBinop (op : BinSym) (a b : TExpr) : TExpr :=
  match op with
  | .oror | .andand => .bin op .int a b
  | .plus | .minus | .star | .slash | .percent | .amp | .bar | .caret | .shl | .shr =>
    let (τ, a, b) := arithOperands a b
    .bin op τ a b
  | .lt | .gt | .eqeq | .ne | .le | .ge =>
    let τ := commonType a.ty b.ty                    -- no promotion
    .bin op .int (coerce a τ) (coerce b τ)

def onUnop (op : UnSym) (a : TExpr) : TExpr :=
  match op with
  | .minus => .un .minus a.ty a                      -- no promotion
  | .tilde => .un .tilde a.ty a
  | .plus => a
  | .bang => .un .bang .int a

/-- `on_ternop`: the condition was truncated to `int`, the branches were not promoted -/
def onTernop (c a b : TExpr) : TExpr :=
  let τ := commonType a.ty b.ty
  .tern τ (coerce c .int) (coerce a τ) (coerce b τ)

end Legacy

end Model.CType
