import PpciVerif.Model.Proto
import PpciVerif.Spec.IRParse
import PpciVerif.Model.IRFrag
/-! Line-protocol engine of `Drivers/C15.lean` (kept in the library so that the driver starts fast).

  ftab <bits>:<hex of text>;…  | ftab -      float table supplied by CPython: `str(float)` of every float
                                             constant / `float(text)` of every float literal -> ok
  print <sexpr>      -> ok <hex of the text Model.IRText.printModule produces>
  toks <sexpr>       -> ok 1 iff tokenize (printModule m) = ok (toksModule m)   (hypothesis `hlex` of Props.C15.roundtrip_partial)
  read <hex text>    -> ok <sexpr of the module Model.IRText.readModule builds> | err <ExceptionName>
  rt <sexpr>         -> read (print m)
  frag <sexpr>       -> ok 1 | ok 0 <reason>,…      (Model.IRFrag.fragText / fragReport)
-/
namespace Model.IRTextRun
open Proto Spec.IR Spec.IRParse Model.IRBuild Model.IRText Model.IRFrag

structure St where
  ftab : List (Nat × List Char) := []

def fmtOf (st : St) (b : Nat) : List Char :=
  match st.ftab.find? (fun p => p.1 = b) with
  | some p => p.2
  | none => "?float?".toList

def fparseOf (st : St) (s : String) : Option Nat :=
  (st.ftab.find? (fun p => String.ofList p.2 = s)).map (·.1)

def charsOfHex (h : String) : Option (List Char) := (fromHex h).map (·.map Char.ofNat)
def hexOfChars (cs : List Char) : String := toHex (cs.map Char.toNat)

def parseFtab (s : String) : Option (List (Nat × List Char)) :=
  if s = "-" then some [] else
  (s.splitOn ";").mapM (fun e =>
    match e.splitOn ":" with
    | [b, h] => do pure (← b.toNat?, ← charsOfHex h)
    | _ => none)

def showRead : Except RErr Module → String
  | .ok m => "ok " ++ showModule m
  | .error e => "err " ++ e.name

def step (st : St) (line : String) : St × String :=
  let line := line.trimAscii.toString
  if line.startsWith "ftab " then
    match parseFtab (line.drop 5).toString with
    | some t => ({ st with ftab := t }, "ok")
    | none => (st, "bad-op")
  else if line.startsWith "print " then
    match parseModule (line.drop 6).toString with
    | some m => (st, "ok " ++ hexOfChars (printModule (fmtOf st) m))
    | none => (st, "bad-op")
  else if line.startsWith "toks " then
    match parseModule (line.drop 5).toString with
    | some m =>
      (st, match tokenize (printModule (fmtOf st) m) with
        | .ok ts => if ts = toksModule (fmtOf st) m then "ok 1" else "ok 0"
        | .error _ => "ok 0")
    | none => (st, "bad-op")
  else if line.startsWith "read " then
    match charsOfHex (line.drop 5).toString with
    | some cs => (st, showRead (readModule (fparseOf st) cs))
    | none => (st, "bad-op")
  else if line.startsWith "rt " then
    match parseModule (line.drop 3).toString with
    | some m => (st, showRead (readModule (fparseOf st) (printModule (fmtOf st) m)))
    | none => (st, "bad-op")
  else if line.startsWith "frag " then
    match parseModule (line.drop 5).toString with
    | some m =>
      let r := fragReport (fmtOf st) m
      -- fragReport and fragText are two phrasings of one predicate; answer only when they agree
      if fragText (fmtOf st) m then (st, if r.isEmpty then "ok 1" else "bad-op")
      else (st, if r.isEmpty then "bad-op" else "ok 0 " ++ ",".intercalate r)
    | none => (st, "bad-op")
  else (st, "bad-op")

end Model.IRTextRun
