import PpciVerif.Model.Token
/-
Hand model of the DECLARATIVE encoding path of ppci/arch/encoding.py (core Lean only):

    Instruction.encode        = get_tokens(); set_all_patterns(tokens); tokens.encode()
    Instruction.get_tokens    : for nl in self.non_leaves: if hasattr(nl, "tokens"): one fresh token per
                                class in nl.tokens; precode tokens first, then the others (stable)
    Instruction.set_all_patterns : for nl in self.non_leaves: nl.set_patterns(tokens)
    Constructor.set_patterns  : for pattern in dict_to_patterns(self.patterns):
                                    tokens.set_field(pattern.field, pattern.get_value(self))
                                (then set_user_patterns, which is `pass` for declarative classes)
    non_leaves                : self, then (depth first) every constructor-valued syntax argument

An instance is given FLAT: the list of its non-leaves in `non_leaves` order, each with the
numeric values of its own operands (`Operand.get_value`: register number, int, or value-map
entry; for a `Transform`-wrapped operand the key is `name@TransformClass` and the value is
`forwards(value)` — transforms themselves are not modelled).

Patterns are applied in order and a later write wins; `checkFlat` is the decidable condition
under which every operand is recoverable from the emitted bits:
no bit of a field written from an operand is written again by a LATER pattern.
(stm8 overlays the 3-bit `position` on the fixed `opcode` byte — written later, so fine;
plain pairwise disjointness would be a false alarm.)
-/
namespace Model.Encode
open Model.Tables Model.Token

abbrev Vals := List (String × Int)

def lookup (k : String) : Vals → Option Int
  | [] => none
  | (k', v) :: rest => if k == k' then some v else lookup k rest

def findInstr (is : List InstrDesc) (name : String) : Option InstrDesc :=
  is.find? (fun c => c.name == name)

/-- key under which an instance supplies the value written by a pattern -/
def patKey : PatVal → Option String
  | .fixed _ => none
  | .operand n => some n
  | .transformed n t => some (n ++ "@" ++ t)

def patValue (vals : Vals) (p : PatDesc) : Option Int :=
  match p.val with
  | .fixed v => some v
  | .operand n => lookup n vals
  | .transformed n t => lookup (n ++ "@" ++ t) vals

/-- token classes of an instance, in `get_tokens` order (precodes first); `none` if a name is unknown -/
def tokenDescs (tt : List TokenDesc) (flat : List InstrDesc) : Option (List TokenDesc) :=
  let names := flat.flatMap (fun c => if c.hasTokens then c.tokens else [])
  match names.mapM (findToken tt) with
  | none => none
  | some ts => some (ts.filter (·.precode) ++ ts.filter (fun t => !t.precode))

def allSome {α : Type} : List (Option α) → Option (List α)
  | [] => some []
  | none :: _ => none
  | some x :: rest => match allSome rest with
    | none => none
    | some xs => some (x :: xs)

/-- every pattern of the instance with the value it writes (`none`: the instance supplies no value) -/
def patWrites (flat : List (InstrDesc × Vals)) : List (PatDesc × Option Int) :=
  flat.flatMap (fun (c, vals) => c.patterns.map (fun p => (p, patValue vals p)))

def toWrite (pv : PatDesc × Option Int) : Option (String × Int) := pv.2.map (fun x => (pv.1.field, x))

/-- the writes `set_all_patterns` performs, in order -/
def writes (flat : List (InstrDesc × Vals)) : Option (List (String × Int)) :=
  allSome ((patWrites flat).map toWrite)

def applyWrites : List Inst → List (String × Int) → Except Err (List Inst)
  | ts, [] => .ok ts
  | ts, (f, v) :: ws =>
    match seqSet ts f v with
    | .error e => .error e
    | .ok ts' => applyWrites ts' ws

/-- `Instruction.encode()` of a declarative instance; the token instances after all patterns -/
def encodeTokens (tt : List TokenDesc) (flat : List (InstrDesc × Vals)) : Except Err (List Inst) :=
  match tokenDescs tt (flat.map (·.1)), writes flat with
  | some ds, some ws => applyWrites (ds.map (fun d => (d, d.init))) ws
  | _, _ => .error .AttributeError

def encode (tt : List TokenDesc) (flat : List (InstrDesc × Vals)) : Except Err (List Nat) :=
  match encodeTokens tt flat with
  | .error e => .error e
  | .ok ts => .ok (seqEncode ts)

/-! ### the decidable table condition -/

def partsOverlap (f g : FieldDesc) : Bool := f.parts.any (fun p => g.parts.any (fun q => !partDisj p q))

/-- do writes to fields `f` and `g` of a token sequence touch a common bit?
    (both are resolved like `TokenSequence.set_field`: the first token that declares the name) -/
def fieldsOverlap : List TokenDesc → String → String → Bool
  | [], _, _ => false
  | t :: rest, f, g =>
    match findField t f, findField t g with
    | some ff, some gg => partsOverlap ff gg
    | some _, none => false
    | none, some _ => false
    | none, none => fieldsOverlap rest f g

def resolveField : List TokenDesc → String → Option FieldDesc
  | [], _ => none
  | t :: rest, f => match findField t f with
    | some ff => some ff
    | none => resolveField rest f

def isFixed : PatVal → Bool
  | .fixed _ => true
  | _ => false

/-- no LATER pattern writes a bit of an operand field.  (A pattern whose field no token declares
    makes `encode` raise KeyError for every instance — msp430 `MemByReg` is such a class — so it
    needs no condition; `unresolved` lists those for the evidence.) -/
def orderedOK (ds : List TokenDesc) : List PatDesc → Bool
  | [] => true
  | p :: later =>
    (isFixed p.val || later.all (fun q => !fieldsOverlap ds q.field p.field))
    && orderedOK ds later

def unresolved (ds : List TokenDesc) (ps : List PatDesc) : List String :=
  (ps.filter (fun p => (resolveField ds p.field).isNone)).map (·.field)

/-- a fixed pattern value is representable in its field (unsigned) -/
def fixedFits (ds : List TokenDesc) (p : PatDesc) : Bool :=
  match p.val, resolveField ds p.field with
  | .fixed v, some f => decide (0 ≤ v) && decide (v < 2 ^ width f)
  | _, _ => true

/-- every register of a register-class operand fits the field its number is written to -/
def regFits (ds : List TokenDesc) (c : InstrDesc) (p : PatDesc) : Bool :=
  match p.val, resolveField ds p.field with
  | .operand n, some f =>
    match c.operands.find? (fun o => o.name == n) with
    | some ⟨_, .reg _ (some mx), _, _⟩ => decide (mx < 2 ^ width f)
    | _ => true
  | _, _ => true

def checkFlat (tt : List TokenDesc) (flat : List InstrDesc) : Bool :=
  match tokenDescs tt flat with
  | none => false
  | some ds =>
    ds.all wfToken
    && orderedOK ds (flat.flatMap (·.patterns))
    && flat.all (fun c => c.patterns.all (fun p => fixedFits ds p && regFits ds c p))

/-- cartesian product of alternatives, keeping order -/
def product : List (List (List InstrDesc)) → List (List InstrDesc)
  | [] => [[]]
  | alts :: rest => alts.flatMap (fun a => (product rest).map (fun r => a ++ r))

/-- all flat shapes (`non_leaves` class sequences) an instance of class `c` can have:
    for each constructor-valued syntax argument, every option class, recursively.  `none` = out of fuel
    or an option name that is not in the table. -/
def expand (is : List InstrDesc) : Nat → InstrDesc → Option (List (List InstrDesc))
  | 0, _ => none
  | fuel + 1, c =>
    let consArgs : List (List String) := c.syntaxArgs.filterMap (fun a =>
      match c.operands.find? (fun o => o.name == a) with
      | some ⟨_, .cons opts _, _, _⟩ => some opts
      | _ => none)
    match consArgs.mapM (fun opts =>
        match opts.mapM (fun o => (findInstr is o).bind (expand is fuel)) with
        | none => none
        | some xs => some xs.flatten) with
    | none => none
    | some alts => some ((product alts).map (fun r => c :: r))

def declarativeFlat (flat : List InstrDesc) : Bool :=
  flat.all (fun c => !c.userPatternsOverridden && !(c.isInstruction && c.encodeOverridden))

/-- classes the table theorem speaks about: instruction classes whose bytes come from
    `Instruction.encode` + declarative patterns only -/
def covered (c : InstrDesc) : Bool := c.isInstruction && c.declarative

def expandFuel : Nat := 6

/-- the whole condition for one class: every declarative shape satisfies `checkFlat` -/
def instrOK (tt : List TokenDesc) (is : List InstrDesc) (c : InstrDesc) : Bool :=
  !covered c ||
  match expand is expandFuel c with
  | none => false
  | some flats => flats.all (fun flat => !declarativeFlat flat || checkFlat tt flat)

def isaOK (tt : List TokenDesc) (is : List InstrDesc) : Bool := is.all (instrOK tt is)

/-- covered classes with a shape in which some pattern field is declared by no token: every such
    instance fails to encode with KeyError -/
def neverEncodes (tt : List TokenDesc) (is : List InstrDesc) : List String :=
  (is.filter (fun c => covered c &&
    match expand is expandFuel c with
    | none => false
    | some flats => flats.any (fun flat => declarativeFlat flat &&
        match tokenDescs tt flat with
        | none => true
        | some ds => !(unresolved ds (flat.flatMap (·.patterns))).isEmpty))).map (·.name)

/-- names of the covered classes that fail (for diagnostics through the driver) -/
def failing (tt : List TokenDesc) (is : List InstrDesc) : List String :=
  (is.filter (fun c => !instrOK tt is c)).map (·.name)

end Model.Encode
