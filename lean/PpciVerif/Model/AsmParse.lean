import PpciVerif.Model.AsmSyn
/-
Derivation trees of the generated assembler grammar and an enumerator of ALL parses of a token-type
sequence (C09 theorem (2)).  The grammar is the dumped `assembler.parser.g.productions`
(`Gen.Asm_<key>.grammar`); a token is represented by its `typ` (see `Model.AsmLex.typOf`).

The real parser is an Earley parser that returns ONE tree (lowest `priority` number first, ties by
item order).  Here every tree is produced; priorities are data for the harness.
-/
namespace Model.AsmParse
open Model.AsmSyn

mutual
  /-- derivation tree: a terminal leaf or a production (index into the grammar) with its children -/
  inductive Tree where
    | tok (typ : String)
    | node (prod : Nat) (kids : Forest)
  inductive Forest where
    | nil
    | cons (t : Tree) (f : Forest)
end

mutual
  def Tree.yield : Tree → List String
    | .tok a => [a]
    | .node _ k => k.yield
  def Forest.yield : Forest → List String
    | .nil => []
    | .cons t f => t.yield ++ f.yield
end

mutual
  def Tree.depth : Tree → Nat
    | .tok _ => 0
    | .node _ k => k.depth + 1
  def Forest.depth : Forest → Nat
    | .nil => 0
    | .cons t f => max t.depth f.depth
end

mutual
  /-- `t` is a derivation tree of grammar `G` for symbol `s` -/
  def Tree.ok (G : List Prod) : Tree → Sym → Prop
    | .tok a, s => s = .t a
    | .node i k, s => ∃ p, G[i]? = some p ∧ s = .nt p.lhs ∧ k.ok G p.rhs
  def Forest.ok (G : List Prod) : Forest → List Sym → Prop
    | .nil, ss => ss = []
    | .cons t f, ss => ∃ s ss', ss = s :: ss' ∧ t.ok G s ∧ f.ok G ss'
end

/-- parses of a symbol sequence, given the parser of one symbol: all (children, remaining input) -/
def parseSeq (ps : Sym → List String → List (Tree × List String)) :
    List Sym → List String → List (Forest × List String)
  | [], ts => [(.nil, ts)]
  | s :: ss, ts =>
    (ps s ts).flatMap fun tr =>
      (parseSeq ps ss tr.2).map fun kr => (Forest.cons tr.1 kr.1, kr.2)

/-- productions with their index -/
def indexed (G : List Prod) : List (Nat × Prod) := G.zipIdx.map fun pi => (pi.2, pi.1)

/-- all parses of a prefix of `ts` from symbol `s` with derivation depth ≤ `fuel`:
    (tree, remaining input) -/
def parseSym (G : List Prod) : Nat → Sym → List String → List (Tree × List String)
  | _, .t a, ts =>
    match ts with
    | [] => []
    | b :: r => if a = b then [(.tok a, r)] else []
  | 0, .nt _, _ => []
  | n + 1, .nt A, ts =>
    (indexed G).flatMap fun ip =>
      if ip.2.lhs = A then
        (parseSeq (parseSym G n) ip.2.rhs ts).map fun kr => (Tree.node ip.1 kr.1, kr.2)
      else []

/-- all complete parses of `ts` from nonterminal `A` with depth ≤ `fuel` -/
def parses (G : List Prod) (fuel : Nat) (A : String) (ts : List String) : List Tree :=
  ((parseSym G fuel (.nt A) ts).filter fun tr => tr.2.isEmpty).map (·.1)

/-- a ranking of the nonterminals: every production's right-hand-side nonterminals rank strictly lower
    than its left-hand side.  A ranked grammar has no recursion; `rank A + 1` bounds the depth of every
    derivation tree of `A`. -/
def rankOf (ranks : List (String × Nat)) (A : String) : Nat :=
  match ranks.find? (·.1 == A) with
  | some p => p.2
  | none => 0

def rankedB (G : List Prod) (ranks : List (String × Nat)) : Bool :=
  G.all fun p => p.rhs.all fun s =>
    match s with
    | .t _ => true
    | .nt B => rankOf ranks B < rankOf ranks p.lhs

mutual
  def Tree.show : Tree → String
    | .tok a => "t"
    | .node i k => "(" ++ toString i ++ k.show ++ ")"
  def Forest.show : Forest → String
    | .nil => ""
    | .cons t f => " " ++ t.show ++ f.show
end

end Model.AsmParse
