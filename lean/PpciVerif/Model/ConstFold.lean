/-
Hand model of ppci/opt/constantfolding.py (import-free).

Python `int` ↦ `Int`.  Python operators are modelled with Python's semantics:
`%` is floor-mod (`Int.fmod`, `ZeroDivisionError` for 0), `abs` is `|·|`, `<<`/`>>`
raise `ValueError` for a negative count, `a << b = a * 2^b`, `a >> b = ⌊a / 2^b⌋`.
The model follows the source after the `fix:` commits recorded in findings/C38.json
(`%` evaluated by `irem`, chain constants passed through `cast`, undefined operations left unfolded).
`value.bit_length()` ↦ `bitLength` (0 for 0, else ⌊log2⌋+1).
The SSA graph below an instruction is viewed as an expression tree (`Expr`):
operands are followed through their `a`/`b`/`src` pointers exactly as
`is_const`/`eval_const` do.  Only integer types are modelled (no `ptr`, floats).

Tied to the source by (a) `Gen.ConstFold` (dump of the live `ConstantFolder().ops`
and of the integer types of `ppci.ir`; `Props.C38.ops_table_matches_source`) and
(b) the correspondence run of harness/c38.py.
-/
namespace Model.ConstFold

/-- an integer `ir.Typ`: name, `bits`, `signed` -/
structure Typ where
  name : String
  bits : Nat
  signed : Bool
  deriving DecidableEq, Repr

def i8  : Typ := ⟨"i8", 8, true⟩
def i16 : Typ := ⟨"i16", 16, true⟩
def i32 : Typ := ⟨"i32", 32, true⟩
def i64 : Typ := ⟨"i64", 64, true⟩
def u8  : Typ := ⟨"u8", 8, false⟩
def u16 : Typ := ⟨"u16", 16, false⟩
def u32 : Typ := ⟨"u32", 32, false⟩
def u64 : Typ := ⟨"u64", 64, false⟩

/-- the integer members of `ir.value_types`, in that order -/
def intTypes : List Typ := [i64, i32, i16, i8, u64, u32, u16, u8]

def typByName (n : String) : Option Typ := intTypes.find? (fun t => t.name == n)

inductive Err | ZeroDivisionError | ValueError | AssertionError | NotImplementedError
  deriving DecidableEq, Repr

def Err.name : Err → String
  | .ZeroDivisionError => "ZeroDivisionError" | .ValueError => "ValueError"
  | .AssertionError => "AssertionError" | .NotImplementedError => "NotImplementedError"

/-- `int.bit_length()` of a non-negative integer -/
def bitLength (v : Nat) : Nat := if v = 0 then 0 else Nat.log2 v + 1

/-- `correct(value, ty)`:
      base = 1 << bits; value %= base
      return value - base if signed and value.bit_length() == bits else value -/
def correct (value : Int) (ty : Typ) : Int :=
  let base : Int := 2 ^ ty.bits
  let value := value % base          -- Python % by a positive number = Euclidean mod
  if ty.signed && bitLength value.toNat == ty.bits then value - base else value

/-- `cast(value, ty)` for an integer `ty` and an `int` value: `correct(int(value), ty)` -/
def cast (value : Int) (ty : Typ) : Int := correct value ty

/-- Python functions that can be wrapped by `enhance`: `operator.*` and the module's own `irem`
    (`mod` = `operator.mod` is what the table held before the fix; it is no longer in `ops`) -/
inductive PyOp | add | sub | mul | mod | irem | lshift | rshift
  deriving DecidableEq, Repr

/-- `__module__.__name__` of the Python function -/
def PyOp.pyName : PyOp → String
  | .add => "operator.add" | .sub => "operator.sub" | .mul => "operator.mul" | .mod => "operator.mod"
  | .irem => "ppci.opt.constantfolding.irem"
  | .lshift => "operator.lshift" | .rshift => "operator.rshift"

/-- Python `a % b` -/
def pyMod (a b : Int) : Except Err Int :=
  if b = 0 then .error .ZeroDivisionError else .ok (Int.fmod a b)

/-- Python `abs` -/
def pyAbs (a : Int) : Int := if a < 0 then -a else a

/-- `irem(a, b)`:
      value = abs(a) % abs(b)
      return -value if a < 0 else value -/
def irem (a b : Int) : Except Err Int :=
  match pyMod (pyAbs a) (pyAbs b) with
  | .error e => .error e
  | .ok value => .ok (if a < 0 then -value else value)

/-- Python semantics of the function on two `int`s -/
def PyOp.apply : PyOp → Int → Int → Except Err Int
  | .add, a, b => .ok (a + b)
  | .sub, a, b => .ok (a - b)
  | .mul, a, b => .ok (a * b)
  | .mod, a, b => pyMod a b
  | .irem, a, b => Model.ConstFold.irem a b
  | .lshift, a, b => if b < 0 then .error .ValueError else .ok (a * 2 ^ b.toNat)
  | .rshift, a, b => if b < 0 then .error .ValueError else .ok (a / 2 ^ b.toNat)

/-- `ConstantFolder.ops`: IR operator ↦ `enhance(<python function>)` -/
def ops : List (String × PyOp) :=
  [("+", .add), ("-", .sub), ("*", .mul), ("%", .irem), ("<<", .lshift), (">>", .rshift)]

/-- `enhance(f)(ty, a, b) = correct(f(a, b), ty)` -/
def enhance (f : PyOp) (ty : Typ) (a b : Int) : Except Err Int :=
  match f.apply a b with
  | .ok v => .ok (correct v ty)
  | .error e => .error e

/-- view of an IR value as an expression tree -/
inductive Expr
  | const (ty : Typ) (value : Int)
  | cast (ty : Typ) (src : Expr)
  | binop (ty : Typ) (op : String) (a b : Expr)
  | other (ty : Typ) (id : Nat)          -- anything else (parameter, load, phi, …)
  deriving DecidableEq, Repr

def Expr.ty : Expr → Typ
  | .const ty _ | .cast ty _ | .binop ty _ _ _ | .other ty _ => ty

/-- `ConstantFolder.is_const` -/
def isConst : Expr → Bool
  | .const _ _ => true
  | .cast _ src => isConst src
  | .binop _ op a b => (ops.lookup op).isSome && isConst a && isConst b   -- ty.is_integer holds for every modelled type
  | .other _ _ => false

/-- `ConstantFolder.eval_const`: the type and value of the new `Const` -/
def evalConst : Expr → Except Err (Typ × Int)
  | .const ty v => .ok (ty, v)
  | .binop ty op a b =>
    match evalConst a with
    | .error e => .error e
    | .ok (ta, va) =>
      match evalConst b with
      | .error e => .error e
      | .ok (tb, vb) =>
        if ta ≠ tb then .error .AssertionError           -- assert a.ty is b.ty
        else if ta ≠ ty then .error .AssertionError      -- assert a.ty is value.ty
        else match ops.lookup op with
          | none => .error .NotImplementedError          -- (KeyError; unreachable after is_const)
          | some f =>
            match enhance f ty va vb with
            | .ok res => .ok (ta, res)
            | .error e => .error e
  | .cast ty src =>
    match evalConst src with
    | .error e => .error e
    | .ok (_, v) => .ok (ty, cast v ty)
  | .other _ _ => .error .NotImplementedError

/-- what `on_block` does with one instruction -/
inductive Action
  | skip                                       -- a Const: `continue`
  | keep                                       -- nothing matched
  | replace (ty : Typ) (value : Int)           -- `instruction.replace_by(Const value)`
  | rechain (a : Expr) (ty : Typ) (value : Int) -- `instruction.a = instruction.a.a; instruction.b = Const value`
  deriving DecidableEq, Repr

/-- the constant of the chain rewrites:
      value = cast(a.value + b.value, a.ty); cn = ir.Const(value, "new_fold", a.ty)
    (`cast` = `correct` for the integer types modelled here; for `ptr`/float types, which are not
    modelled, the Python `cast` returns the plain sum) -/
def chainConst (ty : Typ) (va vb : Int) : Int := cast (va + vb) ty

/-- `try_eval_const`: `None` when `eval_const` raises ZeroDivisionError / ValueError (/ OverflowError,
    which only float→int casts raise and is not modelled); other exceptions propagate -/
def tryEvalConst (e : Expr) : Except Err (Option (Typ × Int)) :=
  match evalConst e with
  | .ok r => .ok (some r)
  | .error .ZeroDivisionError => .ok none
  | .error .ValueError => .ok none
  | .error e => .error e

/-- body of the loop in `ConstantFolder.on_block` for one instruction -/
def onInstr (ins : Expr) : Except Err Action :=
  match ins with
  | .const _ _ => .ok .skip
  | _ =>
    if isConst ins then
      match tryEvalConst ins with
      | .error e => .error e
      | .ok none => .ok .keep                        -- undefined for these operands: `continue`
      | .ok (some (ty, v)) => .ok (.replace ty v)
    else
      match ins with
      | .binop ty op (.binop _ op1 y c1) c2 =>
        if (op1 == "+" && isConst c1 && op == "+" && isConst c2)
            || (op1 == "-" && isConst c1 && op == "-" && isConst c2) then
          match tryEvalConst c1 with
          | .error e => .error e
          | .ok a =>
            match tryEvalConst c2 with
            | .error e => .error e
            | .ok b =>
              match a, b with
              | some (ta, va), some (tb, vb) =>
                if ta ≠ tb then .error .AssertionError     -- assert a.ty is b.ty
                else if ty ≠ ta then .error .AssertionError     -- assert instruction.ty is cn.ty
                else if ty ≠ y.ty then .error .AssertionError   -- assert instruction.ty is instruction.a.ty
                else .ok (.rechain y ta (chainConst ta va vb))
              | _, _ => .ok .keep                    -- `if a is None or b is None: continue`
        else .ok .keep
      | _ => .ok .keep

/-- the instruction after `on_block` handled it (tree view): `replace_by(Const)` makes every user see
    the constant; a chain rewrite re-links `a` and `b` and keeps type and operation -/
def applyAction (ins : Expr) : Action → Expr
  | .skip | .keep => ins
  | .replace ty v => .const ty v
  | .rechain a ty v =>
    match ins with
    | .binop t op _ _ => .binop t op a (.const ty v)
    | _ => ins

/-- `on_block` over a whole single-block function, seen from the returned value: operands are
    earlier instructions of the block, so they have been handled (and possibly replaced) before the
    instruction that uses them -/
def passTree : Expr → Except Err Expr
  | .const ty v => .ok (.const ty v)
  | .other ty id => .ok (.other ty id)
  | .cast ty src =>
    match passTree src with
    | .error e => .error e
    | .ok src' =>
      match onInstr (.cast ty src') with
      | .error e => .error e
      | .ok act => .ok (applyAction (.cast ty src') act)
  | .binop ty op a b =>
    match passTree a with
    | .error e => .error e
    | .ok a' =>
      match passTree b with
      | .error e => .error e
      | .ok b' =>
        match onInstr (.binop ty op a' b') with
        | .error e => .error e
        | .ok act => .ok (applyAction (.binop ty op a' b') act)

end Model.ConstFold
