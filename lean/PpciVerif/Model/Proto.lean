/-
Line-protocol helpers shared by every driver (import-free, core Lean only).

Request : one line, words separated by single blanks.
Reply   : one line, `ok <canonical value>` | `err <Kind>` | `bad-op`.
Scalars are decimal integers, byte strings lowercase hex (`-` for empty),
lists `[a,b,c]` (no blanks).
-/
namespace Proto

def hexDigit (n : Nat) : Char :=
  if n < 10 then Char.ofNat (48 + n) else Char.ofNat (87 + n)

def hexVal (c : Char) : Option Nat :=
  let n := c.toNat
  if 48 ≤ n ∧ n ≤ 57 then some (n - 48)
  else if 97 ≤ n ∧ n ≤ 102 then some (n - 87)
  else if 65 ≤ n ∧ n ≤ 70 then some (n - 55)
  else none

/-- bytes → lowercase hex, `-` for the empty string -/
def toHex (bs : List Nat) : String :=
  if bs.isEmpty then "-" else
  String.ofList (bs.foldr (fun b acc => hexDigit ((b / 16) % 16) :: hexDigit (b % 16) :: acc) [])

def fromHexChars : List Char → Option (List Nat)
  | [] => some []
  | [_] => none
  | a :: b :: rest => do
      let x ← hexVal a
      let y ← hexVal b
      let r ← fromHexChars rest
      pure ((x * 16 + y) :: r)

def fromHex (s : String) : Option (List Nat) :=
  if s == "-" then some [] else fromHexChars s.toList

def words (line : String) : List String :=
  (line.trimAscii.toString.splitOn " ").filter (· ≠ "")

def int? (s : String) : Option Int := s.toInt?
def nat? (s : String) : Option Nat := s.toNat?

/-- `[1,-2,3]` → list of ints; `[]` → empty -/
def intList? (s : String) : Option (List Int) :=
  let cs := s.toList
  match cs with
  | '[' :: rest =>
    match rest.reverse with
    | ']' :: innerRev =>
      let inner := String.ofList innerRev.reverse
      if inner.isEmpty then some [] else
      (inner.splitOn ",").mapM (fun w => w.toInt?)
    | _ => none
  | _ => none

def natList? (s : String) : Option (List Nat) := do
  let xs ← intList? s
  xs.mapM (fun x => if x < 0 then none else some x.toNat)

def showIntList (xs : List Int) : String :=
  "[" ++ ",".intercalate (xs.map toString) ++ "]"

def showNatList (xs : List Nat) : String :=
  "[" ++ ",".intercalate (xs.map toString) ++ "]"

/-- Run `step` on every stdin line, print one reply per line. -/
partial def loop (h : IO.FS.Stream) (out : IO.FS.Stream) (step : String → String) : IO Unit := do
  let line ← h.getLine
  if line.isEmpty then return ()
  out.putStrLn (step line)
  loop h out step

def mainLoop (step : String → String) : IO Unit := do
  let i ← IO.getStdin
  let o ← IO.getStdout
  loop i o step
  o.flush

/-- Stateful variant: `step : σ → String → σ × String`. -/
partial def loopS {σ : Type} (h : IO.FS.Stream) (out : IO.FS.Stream)
    (step : σ → String → σ × String) (s : σ) : IO Unit := do
  let line ← h.getLine
  if line.isEmpty then return ()
  let (s', r) := step s line
  out.putStrLn r
  loopS h out step s'

def mainLoopS {σ : Type} (init : σ) (step : σ → String → σ × String) : IO Unit := do
  let i ← IO.getStdin
  let o ← IO.getStdout
  loopS i o step init
  o.flush

end Proto
