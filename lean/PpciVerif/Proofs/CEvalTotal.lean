import PpciVerif.Proofs.CEvalTop
/-!
C28 (sliver): the constant-expression pipeline ends in a value or a compiler
diagnostic, never in an internal error, for every tree the parser can produce.
-/
set_option linter.unusedSimpArgs false
namespace Proofs.CEval
open Model.CEval Model.CSyntax

/-- trees the parser can hand to the semantics: at most two `l` in a suffix, unary operators
    `- ~ + ! * &`, every binary operator spelling -/
def FromParser : Src → Prop
  | .num _ _ longs _ => longs ≤ 2
  | .chr _ => True
  | .un op a => (op = .minus ∨ op = .tilde ∨ op = .plus ∨ op = .bang ∨ op = .star ∨ op = .amp) ∧ FromParser a
  | .bin op a b => (op ≠ .tilde ∧ op ≠ .bang) ∧ FromParser a ∧ FromParser b
  | .tern c a b => FromParser c ∧ FromParser a ∧ FromParser b
  | .cast _ a => FromParser a

/-- unary nodes of a typed tree carry an operator of the evaluator's table -/
def UnOK : TExpr → Prop
  | .num _ _ | .chr _ _ => True
  | .un op _ a => (op = .minus ∨ op = .tilde ∨ op = .bang) ∧ UnOK a
  | .bin _ _ a b => UnOK a ∧ UnOK b
  | .tern _ c a b => UnOK c ∧ UnOK a ∧ UnOK b
  | .cast _ a => UnOK a

/-- value or diagnostic -/
def Graceful {α} (r : Except Err α) : Prop := (∃ a, r = .ok a) ∨ r = .error .CompilerError

theorem graceful_not_internal {α} {r : Except Err α} (h : Graceful r) : isInternal r = false := by
  rcases h with ⟨a, rfl⟩ | rfl <;> rfl

theorem coerce_unok {t : TExpr} (h : UnOK t) (τ : Ty) : UnOK (coerce t τ) := by
  unfold coerce; split
  · exact h
  · exact h

theorem promote_unok {t : TExpr} (h : UnOK t) : UnOK (Model.CEval.promote t) := coerce_unok h _

theorem candidateTypes_ne (d u : Bool) {l : Nat} (h : l ≤ 2) : candidateTypes d u l ≠ [] := by
  have : l = 0 ∨ l = 1 ∨ l = 2 := by omega
  rcases this with rfl | rfl | rfl <;> cases d <;> cases u <;> decide

theorem pickType_some (v : Int) {l : List Ty} (h : l ≠ []) : ∃ τ, pickType v l = some τ := by
  induction l with
  | nil => exact absurd rfl h
  | cons a l ih =>
    cases l with
    | nil => exact ⟨a, rfl⟩
    | cons b l =>
      unfold pickType
      split
      · exact ⟨a, rfl⟩
      · exact ih (by simp)

theorem onNumber_graceful (d u : Bool) {l : Nat} (v : Nat) (h : l ≤ 2) :
    (∃ τ, onNumber d u l v = .ok (.num τ v)) ∨ onNumber d u l v = .error .CompilerError := by
  obtain ⟨τ, hτ⟩ := pickType_some (v : Int) (candidateTypes_ne d u h)
  simp only [onNumber, hτ]
  split
  · right; rfl
  · left; exact ⟨τ, rfl⟩

theorem elaborate_graceful : ∀ (s : Src), FromParser s →
    (∃ t, elaborate s = .ok t ∧ UnOK t) ∨ elaborate s = .error .CompilerError := by
  intro s
  induction s with
  | num d u l v =>
    intro h
    rcases onNumber_graceful d u v h with ⟨τ, hτ⟩ | he
    · left; exact ⟨.num τ v, by simpa [elaborate] using hτ, trivial⟩
    · right; simpa [elaborate] using he
  | chr v => intro _; left; exact ⟨onChar v, rfl, trivial⟩
  | cast τ a ih =>
    intro h
    rcases ih h with ⟨t, ht, hu⟩ | he
    · left; exact ⟨.cast τ t, by simp [elaborate, ht], hu⟩
    · right; simp [elaborate, he]
  | un op a ih =>
    intro h
    rcases ih h.2 with ⟨t, ht, hu⟩ | he
    · rcases h.1 with rfl | rfl | rfl | rfl | rfl | rfl
      · left; exact ⟨.un .minus (Model.CEval.promote t).ty (Model.CEval.promote t),
          by simp [elaborate, ht, onUnop], ⟨Or.inl rfl, promote_unok hu⟩⟩
      · left; exact ⟨.un .tilde (Model.CEval.promote t).ty (Model.CEval.promote t),
          by simp [elaborate, ht, onUnop], ⟨Or.inr (Or.inl rfl), promote_unok hu⟩⟩
      · left; exact ⟨Model.CEval.promote t, by simp [elaborate, ht, onUnop], promote_unok hu⟩
      · left; exact ⟨.un .bang .int t, by simp [elaborate, ht, onUnop], ⟨Or.inr (Or.inr rfl), hu⟩⟩
      · right; simp [elaborate, ht, onUnop]
      · right; simp [elaborate, ht, onUnop]
    · right; simp [elaborate, he]
  | bin op a b iha ihb =>
    intro h
    rcases iha h.2.1 with ⟨ta, hta, hua⟩ | he
    · rcases ihb h.2.2 with ⟨tb, htb, hub⟩ | he
      · left
        have hu : UnOK (arithOperands ta tb).2.1 ∧ UnOK (arithOperands ta tb).2.2 :=
          ⟨coerce_unok (promote_unok hua) _, coerce_unok (promote_unok hub) _⟩
        cases op <;> simp only [elaborate, hta, htb, bind_ok, onBinop] <;>
          first
          | exact absurd rfl h.1.1
          | exact absurd rfl h.1.2
          | exact ⟨_, rfl, hu.1, hu.2⟩
          | exact ⟨_, rfl, hua, hub⟩
          | exact ⟨_, rfl, coerce_unok (promote_unok hua) _, coerce_unok (promote_unok hub) _⟩
      · right; simp [elaborate, hta, he]
    · right; simp [elaborate, he]
  | tern c a b ihc iha ihb =>
    intro h
    rcases ihc h.1 with ⟨tc, htc, huc⟩ | he
    · rcases iha h.2.1 with ⟨ta, hta, hua⟩ | he
      · rcases ihb h.2.2 with ⟨tb, htb, hub⟩ | he
        · left
          exact ⟨onTernop tc ta tb, by simp [elaborate, htc, hta, htb],
            huc, coerce_unok (promote_unok hua) _, coerce_unok (promote_unok hub) _⟩
        · right; simp [elaborate, htc, hta, he]
      · right; simp [elaborate, htc, he]
    · right; simp [elaborate, he]

theorem graceful_bind {α β} {r : Except Err α} {f : α → Except Err β} (hr : Graceful r)
    (hf : ∀ a, Graceful (f a)) : Graceful (r >>= f) := by
  rcases hr with ⟨a, rfl⟩ | rfl
  · exact hf a
  · right; rfl

theorem graceful_ok {α} (a : α) : Graceful (Except.ok a : Except Err α) := Or.inl ⟨a, rfl⟩
theorem graceful_diag {α} : Graceful (Except.error .CompilerError : Except Err α) := Or.inr rfl

theorem eval_graceful : ∀ (t : TExpr), UnOK t → Graceful (eval t) := by
  intro t
  induction t with
  | num τ v => intro _; exact graceful_ok v
  | chr τ v => intro _; exact graceful_ok v
  | cast τ a ih =>
    intro h
    simp only [eval]
    exact graceful_bind (ih h) fun _ => graceful_ok _
  | un op τ a ih =>
    intro h
    simp only [eval]
    rcases h.1 with rfl | rfl | rfl <;> simp only [lookup_unary] <;>
      exact graceful_bind (ih h.2) fun _ => graceful_ok _
  | tern τ c a b ihc iha ihb =>
    intro h
    simp only [eval]
    refine graceful_bind (ihc h.1) fun x => ?_
    split
    · exact graceful_bind (iha h.2.1) fun _ => graceful_ok _
    · exact graceful_bind (ihb h.2.2) fun _ => graceful_ok _
  | bin op τ a b iha ihb =>
    intro h
    simp only [eval]
    split
    · refine graceful_bind (iha h.1) fun x => ?_
      split
      · exact graceful_ok _
      · exact graceful_bind (ihb h.2) fun _ => graceful_ok _
    · split
      · refine graceful_bind (iha h.1) fun x => ?_
        split
        · exact graceful_ok _
        · exact graceful_bind (ihb h.2) fun _ => graceful_ok _
      · refine graceful_bind (iha h.1) fun x => ?_
        refine graceful_bind (ihb h.2) fun y => ?_
        split
        · exact graceful_ok _
        · split
          · split
            · exact graceful_diag
            · split
              · split
                · exact graceful_diag
                · exact graceful_ok _
              · exact graceful_ok _
          · exact graceful_diag

/-- a global initialiser of any integer type: bytes or a diagnostic -/
theorem initializer_graceful (τ : Ty) (s : Src) (h : FromParser s) : Graceful (initializer τ s) := by
  unfold initializer
  rcases elaborate_graceful s h with ⟨t, ht, hu⟩ | he
  · rw [ht]
    simp only [bind_ok]
    refine graceful_bind (eval_graceful _ (coerce_unok hu τ)) fun v => ?_
    obtain ⟨bs, hbs⟩ := pack_total τ v
    rw [hbs]; exact graceful_ok bs
  · rw [he]; exact graceful_diag

theorem initializerAny_graceful (t : PackTy) (s : Src) (h : FromParser s) :
    Graceful (do let x ← elaborate s; let v ← eval x; packAny t v) := by
  rcases elaborate_graceful s h with ⟨x, hx, hu⟩ | he
  · rw [hx]
    simp only [bind_ok]
    refine graceful_bind (eval_graceful _ hu) fun v => ?_
    obtain ⟨bs, hbs⟩ := packAny_total t v
    rw [hbs]; exact graceful_ok bs
  · rw [he]; exact graceful_diag

theorem caseLabel_graceful (ctl : Ty) (s : Src) (h : FromParser s) : Graceful (caseLabel ctl s) := by
  unfold caseLabel
  rcases elaborate_graceful s h with ⟨t, ht, hu⟩ | he
  · rw [ht]; exact eval_graceful _ (coerce_unok hu _)
  · rw [he]; exact graceful_diag

theorem enumerator_graceful (s : Src) (h : FromParser s) : Graceful (enumerator s) := by
  unfold enumerator
  rcases elaborate_graceful s h with ⟨t, ht, hu⟩ | he
  · rw [ht]; exact eval_graceful _ hu
  · rw [he]; exact graceful_diag

theorem arraySize_graceful (s : Src) (h : FromParser s) : Graceful (arraySize s) := by
  unfold arraySize
  rcases elaborate_graceful s h with ⟨t, ht, hu⟩ | he
  · rw [ht]; exact eval_graceful _ (coerce_unok hu _)
  · rw [he]; exact graceful_diag

theorem render_fromParser : ∀ e : Spec.CInt.Expr, FromParser (render e) := by
  intro e
  induction e with
  | lit b s v => cases s <;> simp [render, FromParser, Suffix.longs]
  | chr v => trivial
  | un op a ih => cases op <;> simp [render, FromParser, unSym, ih]
  | bin op a b iha ihb => cases op <;> simp [render, FromParser, binSym, iha, ihb]
  | cond c a b ihc iha ihb => exact ⟨ihc, iha, ihb⟩
  | cast τ a ih => exact ih

end Proofs.CEval
