import PpciVerif.Model.Leb128
import PpciVerif.Spec.Leb
import Mathlib.Tactic.Ring
import Mathlib.Tactic.NormNum
import Mathlib.Tactic.Push
/-! Helper lemmas for C20 (LEB128). -/
namespace Proofs.Leb128
open Model.Leb128 Spec.Leb

/-! ### helper lemmas -/

theorem uval_lt_pow : ∀ (bs : List Nat) (n : Nat), uval bs = some n → n < 128 ^ bs.length
  | [], n, h => by simp [uval] at h
  | [b], n, h => by
      simp only [uval] at h; split at h <;> simp at h; subst h; simpa using ‹b < 128›
  | b :: c :: rest, n, h => by
      simp only [uval] at h
      split at h
      · cases hv : uval (c :: rest) with
        | none => simp [hv] at h
        | some v =>
          simp [hv] at h
          have := uval_lt_pow (c :: rest) v hv
          simp only [List.length_cons] at this ⊢
          rw [Nat.pow_succ]; omega
      · simp at h

theorem uenc_val (n : Nat) : uval (uencLoop n) = some n := by
  fun_induction uencLoop n with
  | case1 value byte value' h =>
    simp only [uval]; have : value % 128 < 128 := Nat.mod_lt _ (by omega)
    simp [byte]; omega
  | case2 value byte value' h ih =>
    have hne : ∃ c rest, uencLoop value' = c :: rest := by
      unfold uencLoop; simp only; split <;> exact ⟨_, _, rfl⟩
    obtain ⟨c, rest, hc⟩ := hne
    rw [hc] at ih ⊢
    simp only [uval, ih]
    have : byte < 128 := Nat.mod_lt _ (by omega)
    simp [byte, value'] at *; omega

theorem uenc_length_min (n : Nat) : ∀ cs, uval cs = some n → (uencLoop n).length ≤ cs.length := by
  fun_induction uencLoop n with
  | case1 value byte value' h =>
    intro cs hcs; cases cs with
    | nil => simp [uval] at hcs
    | cons => simp
  | case2 value byte value' h ih =>
    intro cs hcs
    match cs, hcs with
    | [], hcs => simp [uval] at hcs
    | [b], hcs =>
      simp only [uval] at hcs; split at hcs <;> simp at hcs
      subst hcs; exfalso; apply h; simp [value']; omega
    | b :: c :: rest, hcs =>
      simp only [uval] at hcs
      split at hcs
      · cases hv : uval (c :: rest) with
        | none => simp [hv] at hcs
        | some v =>
          simp [hv] at hcs
          have hv' : v = value' := by simp [value']; omega
          subst hv'
          have := ih _ hv
          simp only [List.length_cons] at this ⊢; omega
      · simp at hcs

theorem uval_inj : ∀ (as bs : List Nat) (n : Nat), uval as = some n → uval bs = some n →
    as.length = bs.length → as = bs
  | [], _, _, h, _, _ => by simp [uval] at h
  | _ :: _, [], _, _, h, _ => by simp [uval] at h
  | [a], [b], n, ha, hb, _ => by
      simp only [uval] at ha hb; split at ha <;> split at hb <;> simp at ha hb; rw [ha, hb]
  | [a], b :: c :: r, _, _, _, hl => by simp at hl
  | a :: c :: r, [b], _, _, _, hl => by simp at hl
  | a :: a2 :: ar, b :: b2 :: br, n, ha, hb, hl => by
      simp only [uval] at ha hb
      split at ha <;> split at hb <;> try simp at ha hb
      cases hva : uval (a2 :: ar) with
      | none => simp [hva] at ha
      | some va =>
        cases hvb : uval (b2 :: br) with
        | none => simp [hvb] at hb
        | some vb =>
          simp [hva] at ha; simp [hvb] at hb
          have : va = vb := by omega
          subst this
          have hab : a = b := by omega
          have := uval_inj (a2 :: ar) (b2 :: br) va hva hvb (by simpa using hl)
          rw [hab, this]


/-! ### unsigned decoder -/

theorem or_shift_eq_add {r s b : Nat} (h : r < 2 ^ s) : r ||| (b <<< s) = r + b * 2 ^ s := by
  rw [Nat.or_comm, ← Nat.shiftLeft_add_eq_or_of_lt h, Nat.shiftLeft_eq]; omega

theorem udecLoop_spec : ∀ (bs : List Nat) (n r s : Nat) (rest : List Nat),
    uval bs = some n → r < 2 ^ s → udecLoop r s (bs ++ rest) = .ok (r + n * 2 ^ s, rest)
  | [], _, _, _, _, h, _ => by simp [uval] at h
  | [b], n, r, s, rest, h, hr => by
      simp only [uval] at h; split at h <;> simp at h; subst h
      rename_i hb
      have h1 : b % 128 = b := Nat.mod_eq_of_lt hb
      have h2 : b / 128 % 2 = 0 := by omega
      simp [udecLoop, h1, h2, or_shift_eq_add hr]
  | b :: c :: bs, n, r, s, rest, h, hr => by
      simp only [uval] at h
      split at h
      · rename_i hb
        cases hv : uval (c :: bs) with
        | none => simp [hv] at h
        | some v =>
          simp [hv] at h
          have h1 : b % 128 = b - 128 := by omega
          have h2 : ¬ (b / 128 % 2 = 0) := by omega
          have hr' : r + (b - 128) * 2 ^ s < 2 ^ (s + 7) := by
            have : (b - 128) * 2 ^ s ≤ 127 * 2 ^ s := Nat.mul_le_mul_right _ (by omega)
            have hp : 2 ^ (s + 7) = 2 ^ s * 128 := Nat.pow_add 2 s 7
            omega
          have ih := udecLoop_spec (c :: bs) v (r + (b - 128) * 2 ^ s) (s + 7) rest hv hr'
          simp only [List.cons_append, udecLoop, h1, h2, or_shift_eq_add hr, if_false] at ih ⊢
          have hp : 2 ^ (s + 7) = 2 ^ s * 128 := Nat.pow_add 2 s 7
          rw [ih, ← h, hp]
          have e : r + (b - 128) * 2 ^ s + v * (2 ^ s * 128) = r + (b - 128 + 128 * v) * 2 ^ s := by ring
          rw [e]
      · simp at h

/-! ### signed encoder -/

theorem sencLoop_ne_nil (z : Int) : ∃ c rest, sencLoop z = c :: rest := by
  unfold sencLoop; simp only; split <;> exact ⟨_, _, rfl⟩

theorem senc_val (z : Int) : sval (sencLoop z) = some z := by
  fun_induction sencLoop z with
  | case1 value byte value' signBit h =>
    simp only [value', signBit, byte, decide_eq_true_eq, decide_eq_false_iff_not] at h
    simp only [sval]
    have h0 : 0 ≤ value % 128 := Int.emod_nonneg _ (by omega)
    have h1 : value % 128 < 128 := Int.emod_lt_of_pos _ (by omega)
    have hc : ((byte.toNat : Nat) : Int) = value % 128 := by simp [byte]; omega
    rcases h with ⟨hv, hs⟩ | ⟨hv, hs⟩
    · have : byte.toNat < 64 := by omega
      simp [this]; omega
    · have h64 : ¬ byte.toNat < 64 := by omega
      have h128 : byte.toNat < 128 := by omega
      simp [h64, h128]; omega
  | case2 value byte value' signBit h ih =>
    obtain ⟨c, rest, hc⟩ := sencLoop_ne_nil value'
    rw [hc] at ih ⊢
    have h0 : 0 ≤ value % 128 := Int.emod_nonneg _ (by omega)
    have h1 : value % 128 < 128 := Int.emod_lt_of_pos _ (by omega)
    have hb : ((byte.toNat : Nat) : Int) = value % 128 := by simp [byte]; omega
    have hr : 128 ≤ byte.toNat + 128 ∧ byte.toNat + 128 < 256 := by omega
    simp only [sval, ih, hr, and_self, if_true, Option.map_some]
    simp [value'] at *; omega

theorem senc_length_min (z : Int) : ∀ cs, sval cs = some z → (sencLoop z).length ≤ cs.length := by
  fun_induction sencLoop z with
  | case1 value byte value' signBit h =>
    intro cs hcs; cases cs with
    | nil => simp [sval] at hcs
    | cons => simp
  | case2 value byte value' signBit h ih =>
    intro cs hcs
    simp only [value', signBit, byte, decide_eq_true_eq, decide_eq_false_iff_not] at h
    match cs, hcs with
    | [], hcs => simp [sval] at hcs
    | [b], hcs =>
      simp only [sval] at hcs
      exfalso; apply h
      split at hcs
      · simp at hcs; omega
      · split at hcs
        · simp at hcs; omega
        · simp at hcs
    | b :: c :: rest, hcs =>
      simp only [sval] at hcs
      split at hcs
      · cases hv : sval (c :: rest) with
        | none => simp [hv] at hcs
        | some v =>
          simp [hv] at hcs
          have hv' : v = value' := by simp [value']; omega
          subst hv'
          have := ih _ hv
          simp only [List.length_cons] at this ⊢; omega
      · simp at hcs

theorem sval_inj : ∀ (as bs : List Nat) (z : Int), sval as = some z → sval bs = some z →
    as.length = bs.length → as = bs
  | [], _, _, h, _, _ => by simp [sval] at h
  | _ :: _, [], _, _, h, _ => by simp [sval] at h
  | [a], [b], n, ha, hb, _ => by
      simp only [sval] at ha hb
      have : a = b := by
        split at ha <;> split at hb <;> (try split at ha) <;> (try split at hb) <;> simp at ha hb <;> omega
      rw [this]
  | [a], b :: c :: r, _, _, _, hl => by simp at hl
  | a :: c :: r, [b], _, _, _, hl => by simp at hl
  | a :: a2 :: ar, b :: b2 :: br, n, ha, hb, hl => by
      simp only [sval] at ha hb
      split at ha <;> split at hb <;> try simp at ha hb
      cases hva : sval (a2 :: ar) with
      | none => simp [hva] at ha
      | some va =>
        cases hvb : sval (b2 :: br) with
        | none => simp [hvb] at hb
        | some vb =>
          simp [hva] at ha; simp [hvb] at hb
          have : va = vb := by omega
          subst this
          have hab : a = b := by omega
          have := sval_inj (a2 :: ar) (b2 :: br) va hva hvb (by simpa using hl)
          rw [hab, this]

/-! ### signed decoder -/

theorem xor_mask {u s : Nat} (h : u < 2 ^ s) : u ^^^ (2 ^ s - 1) = 2 ^ s - 1 - u := by
  apply Nat.eq_of_testBit_eq
  intro i
  have : 2 ^ s - 1 - u = 2 ^ s - (u + 1) := by omega
  rw [this, Nat.testBit_two_pow_sub_succ h, Nat.testBit_xor, Nat.testBit_two_pow_sub_one]
  by_cases hi : i < s
  · simp [hi]
  · have : u.testBit i = false :=
      Nat.testBit_lt_two_pow (Nat.lt_of_lt_of_le h (Nat.pow_le_pow_right (by omega) (by omega)))
    simp [hi, this]

theorem sdecLoop_spec : ∀ (bs : List Nat) (z : Int) (r s : Nat) (rest : List Nat),
    sval bs = some z → r < 2 ^ s →
    ∃ u sh lb, sdecLoop r s (bs ++ rest) = .ok (u, sh, lb, rest) ∧ u < 2 ^ sh ∧
      (if lb / 64 % 2 = 1 then (u : Int) - 2 ^ sh = r + z * 2 ^ s else (u : Int) = r + z * 2 ^ s)
  | [], _, _, _, _, h, _ => by simp [sval] at h
  | [b], z, r, s, rest, h, hr => by
      have hp : 2 ^ (s + 7) = 2 ^ s * 128 := Nat.pow_add 2 s 7
      have hpi : (2 : Int) ^ (s + 7) = 2 ^ s * 128 := by rw [Int.pow_add]; norm_num
      have hpos : 0 < 2 ^ s := Nat.two_pow_pos s
      simp only [sval] at h
      split at h
      · rename_i hb; simp at h; subst h
        have h1 : b % 128 = b := by omega
        have h2 : b / 128 % 2 = 0 := by omega
        have h3 : ¬ (b / 64 % 2 = 1) := by omega
        refine ⟨r + b * 2 ^ s, s + 7, b, by simp [sdecLoop, h1, h2, or_shift_eq_add hr], ?_, ?_⟩
        · have : b * 2 ^ s ≤ 63 * 2 ^ s := Nat.mul_le_mul_right _ (by omega)
          omega
        · simp [h3]
      · split at h
        · rename_i hb1 hb2; simp at h; subst h
          have h1 : b % 128 = b := by omega
          have h2 : b / 128 % 2 = 0 := by omega
          have h3 : b / 64 % 2 = 1 := by omega
          refine ⟨r + b * 2 ^ s, s + 7, b, by simp [sdecLoop, h1, h2, or_shift_eq_add hr], ?_, ?_⟩
          · have : b * 2 ^ s ≤ 127 * 2 ^ s := Nat.mul_le_mul_right _ (by omega)
            omega
          · simp only [h3, if_true, hpi]; push_cast; ring
        · simp at h
  | b :: c :: bs, z, r, s, rest, h, hr => by
      have hp : 2 ^ (s + 7) = 2 ^ s * 128 := Nat.pow_add 2 s 7
      have hpi : (2 : Int) ^ (s + 7) = 2 ^ s * 128 := by rw [Int.pow_add]; norm_num
      simp only [sval] at h
      split at h
      · rename_i hb
        cases hv : sval (c :: bs) with
        | none => simp [hv] at h
        | some v =>
          simp [hv] at h
          have h1 : b % 128 = b - 128 := by omega
          have h2 : ¬ (b / 128 % 2 = 0) := by omega
          have hr' : r + (b - 128) * 2 ^ s < 2 ^ (s + 7) := by
            have : (b - 128) * 2 ^ s ≤ 127 * 2 ^ s := Nat.mul_le_mul_right _ (by omega)
            omega
          obtain ⟨u, sh, lb, e, hu, hz⟩ :=
            sdecLoop_spec (c :: bs) v (r + (b - 128) * 2 ^ s) (s + 7) rest hv hr'
          refine ⟨u, sh, lb, ?_, hu, ?_⟩
          · simp only [List.cons_append, sdecLoop, h1, h2, or_shift_eq_add hr, if_false] at e ⊢
            exact e
          · have hb' : ((b - 128 : Nat) : Int) = (b : Int) - 128 := by omega
            split at hz <;> rename_i hl <;> simp only [hl, if_true, if_false] <;>
              rw [hz, ← h, hpi] <;> push_cast <;> rw [hb'] <;> ring
      · simp at h

theorem signedDecode_spec (bs : List Nat) (z : Int) (rest : List Nat) (h : sval bs = some z) :
    signedDecode (bs ++ rest) = .ok (z, rest) := by
  obtain ⟨u, sh, lb, e, hu, hz⟩ := sdecLoop_spec bs z 0 0 rest h (by simp)
  simp only [signedDecode, e]
  split at hz <;> rename_i hl
  · simp only [hl, if_true, Nat.one_shiftLeft, xor_mask hu]
    have : 0 < 2 ^ sh := Nat.two_pow_pos sh
    have e2 : ((2 ^ sh - 1 - u : Nat) : Int) = 2 ^ sh - 1 - (u : Int) := by
      have : ((2 ^ sh : Nat) : Int) = (2 : Int) ^ sh := by push_cast; rfl
      omega
    rw [e2]; congr 2; simp at hz; omega
  · simp only [hl, if_false]; congr 2; simp at hz; omega

end Proofs.Leb128
