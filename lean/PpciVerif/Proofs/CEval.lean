import PpciVerif.Spec.CInt
import PpciVerif.Model.CEval
import PpciVerif.Model.CSyntax
import PpciVerif.Proofs.PyInt
/-!
Helper lemmas for C27/C28: the model of ppci's constant-expression pipeline
(`Model.CEval`) against the specification `Spec.CInt`.
-/
set_option linter.unusedSimpArgs false
namespace Proofs.CEval
open Model.CEval Model.CSyntax
open Spec.CInt (Expr Base Suffix UnOp BinOp inRange convert uac typeOf)

abbrev M := ofSpecTy

/-! ### ranges and conversions -/

/-- `v` lies in the range of the model type `τ` -/
def InRangeM (τ : Ty) (v : Int) : Prop :=
  (if τ.isSigned then -(2 ^ (8 * τ.size - 1)) else 0) ≤ v ∧ v ≤ limitMax τ

theorem inRangeM_iff (σ : Spec.CInt.Ty) (v : Int) : InRangeM (M σ) v ↔ inRange σ v = true := by
  cases σ <;> simp [InRangeM, inRange, M, ofSpecTy, limitMax, Ty.isSigned, Ty.size, Spec.CInt.Ty.minV,
    Spec.CInt.Ty.maxV, Spec.CInt.Ty.signed, Spec.CInt.Ty.bits]

theorem toIntegerType_eq_convert (σ : Spec.CInt.Ty) (v : Int) : toIntegerType (M σ) v = convert σ v := by
  cases σ <;>
    simp only [toIntegerType, wrapInteger, M, ofSpecTy, Ty.isSigned, Ty.size, convert, inRange, Spec.CInt.Ty.minV,
      Spec.CInt.Ty.maxV, Spec.CInt.Ty.signed, Spec.CInt.Ty.bits, Bool.and_eq_true,
      decide_eq_true_eq, ne_eq, if_true, if_false, Bool.false_eq_true, Nat.reduceMul, Nat.reduceSub, Int.reducePow,
      Int.reduceNeg, Int.reduceSub, true_and, false_and] <;>
    (repeat' split) <;> omega

theorem toIntegerType_of_inRange {τ : Ty} {v : Int} (h : InRangeM τ v) : toIntegerType τ v = v := by
  revert h
  cases τ <;>
    simp only [InRangeM, limitMax, toIntegerType, wrapInteger, Ty.isSigned, Ty.size, Bool.and_eq_true,
      decide_eq_true_eq, ne_eq, if_true, if_false, Bool.false_eq_true, Nat.reduceMul, Nat.reduceSub, Int.reducePow,
      Int.reduceNeg, Int.reduceSub, true_and, false_and] <;>
    intro h <;> (repeat' split) <;> omega

theorem toIntegerType_inRange (τ : Ty) (v : Int) : InRangeM τ (toIntegerType τ v) := by
  cases τ <;>
    simp only [InRangeM, limitMax, toIntegerType, wrapInteger, Ty.isSigned, Ty.size, Bool.and_eq_true,
      decide_eq_true_eq, ne_eq, if_true, if_false, Bool.false_eq_true, Nat.reduceMul, Nat.reduceSub, Int.reducePow,
      Int.reduceNeg, Int.reduceSub, true_and, false_and] <;>
    (repeat' split) <;> omega

theorem toIntegerType_idem (τ : Ty) (v : Int) : toIntegerType τ (toIntegerType τ v) = toIntegerType τ v :=
  toIntegerType_of_inRange (toIntegerType_inRange τ v)

theorem convert_inRange (σ : Spec.CInt.Ty) (v : Int) : inRange σ (convert σ v) = true := by
  rw [← toIntegerType_eq_convert, ← inRangeM_iff]; exact toIntegerType_inRange _ _

theorem convert_of_inRange {σ : Spec.CInt.Ty} {v : Int} (h : inRange σ v = true) : convert σ v = v := by
  simp [convert, h]

/-! ### typing -/

theorem promoteTy_M (σ : Spec.CInt.Ty) : promoteTy (M σ) = M (Spec.CInt.promote σ) := by
  cases σ <;> decide

theorem commonType_M (a b : Spec.CInt.Ty) : commonType (M (Spec.CInt.promote a)) (M (Spec.CInt.promote b)) = M (uac a b) := by
  cases a <;> cases b <;> decide

theorem inRange_promote {σ : Spec.CInt.Ty} {v : Int} (h : inRange σ v = true) : inRange (Spec.CInt.promote σ) v = true := by
  revert h
  cases σ <;> simp [inRange, Spec.CInt.promote, Spec.CInt.Ty.minV, Spec.CInt.Ty.maxV, Spec.CInt.Ty.signed, Spec.CInt.Ty.bits,
    Spec.CInt.Ty.rank] <;> omega

end Proofs.CEval
