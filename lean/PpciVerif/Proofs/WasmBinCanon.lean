import PpciVerif.Proofs.WasmBinModule
/-! C21 helper lemmas, converse direction: whatever the *strict* reader accepts is exactly what the
writer emits for the value it returns (`r… true bs = ok (x, rest) → bs = enc… x ++ rest`). -/
namespace Proofs.WasmBin
open Model.WasmBin
open Model.Leb128 (uencLoop sencLoop unsignedDecode signedDecode signedEncode)

/-! ### inversion of the parser monad -/

theorem bind_ok {α β} {p : P α} {f : α → P β} {bs : Bytes} {b : β} {rest : Bytes}
    (h : (p >>= f) bs = .ok (b, rest)) : ∃ a r, p bs = .ok (a, r) ∧ f a r = .ok (b, rest) := by
  simp only [bind_apply] at h
  split at h
  · rename_i a r hp; exact ⟨a, r, hp, h⟩
  · simp at h

theorem pure_ok {α} {a b : α} {bs rest : Bytes} (h : (pure a : P α) bs = .ok (b, rest)) : b = a ∧ rest = bs := by
  simp only [pure_apply, Except.ok.injEq, Prod.mk.injEq] at h
  exact ⟨h.1.symm, h.2.symm⟩

theorem guardP_ok {c : Bool} {e : Err} {bs rest : Bytes} {u : Unit} (h : guardP c e bs = .ok (u, rest)) :
    c = true ∧ rest = bs := by
  cases c
  · simp at h
  · simp only [guardP_true, Except.ok.injEq, Prod.mk.injEq] at h; exact ⟨rfl, h.2.symm⟩

theorem liftOpt_ok {α} {o : Option α} {e : Err} {bs rest : Bytes} {a : α} (h : liftOpt o e bs = .ok (a, rest)) :
    o = some a ∧ rest = bs := by
  cases o with
  | none => simp at h
  | some x => simp only [liftOpt_some, Except.ok.injEq, Prod.mk.injEq] at h; exact ⟨by rw [h.1], h.2.symm⟩

/-! ### primitives -/

theorem rByte_ok {bs rest : Bytes} {b : Nat} (h : rByte bs = .ok (b, rest)) : bs = b :: rest := by
  cases bs with
  | nil => simp [rByte] at h
  | cons x r => simp only [rByte_cons, Except.ok.injEq, Prod.mk.injEq] at h; rw [h.1, h.2]

theorem rExact_ok {n : Nat} {bs rest x : Bytes} (h : rExact n bs = .ok (x, rest)) : bs = x ++ rest ∧ x.length = n := by
  simp only [rExact] at h
  split at h
  · simp at h
  · rename_i hl
    simp only [Except.ok.injEq, Prod.mk.injEq] at h
    rw [← h.1, ← h.2]
    exact ⟨(List.take_append_drop n bs).symm, by simp; omega⟩

theorem rU_ok {bs rest : Bytes} {n : Nat} (h : rU true bs = .ok (n, rest)) : bs = encU n ++ rest := by
  simp only [rU] at h
  split at h
  · simp at h
  · rename_i m r hd
    split at h
    · simp at h
    · rename_i hc
      simp only [Except.ok.injEq, Prod.mk.injEq] at h
      obtain ⟨rfl, rfl⟩ := h
      have hc' : (uencLoop m).isPrefixOf bs = true := by simpa using hc
      rw [List.isPrefixOf_iff_prefix] at hc'
      obtain ⟨t, ht⟩ := hc'
      have := Props.C20.unsigned_roundtrip m t
      rw [ht, hd] at this
      simp only [Except.ok.injEq, Prod.mk.injEq, true_and] at this
      rw [← ht, this]; rfl

theorem rS_ok {bs rest : Bytes} {z : Int} (h : rS true bs = .ok (z, rest)) : bs = encS z ++ rest := by
  simp only [rS] at h
  split at h
  · simp at h
  · rename_i m r hd
    split at h
    · simp at h
    · rename_i hc
      simp only [Except.ok.injEq, Prod.mk.injEq] at h
      obtain ⟨rfl, rfl⟩ := h
      have hc' : (sencLoop m).isPrefixOf bs = true := by simpa using hc
      rw [List.isPrefixOf_iff_prefix] at hc'
      obtain ⟨t, ht⟩ := hc'
      have := Props.C20.signed_roundtrip m t
      simp only [signedEncode] at this
      rw [ht, hd] at this
      simp only [Except.ok.injEq, Prod.mk.injEq, true_and] at this
      rw [← ht, this]; rfl

theorem rSizedBytes_ok {bs rest x : Bytes} (h : rSizedBytes true bs = .ok (x, rest)) : bs = encSized x ++ rest := by
  obtain ⟨n, r, h1, h2⟩ := bind_ok h
  have e1 := rU_ok h1
  obtain ⟨e2, e3⟩ := rExact_ok h2
  rw [e1, e2, encSized, e3, List.append_assoc]

theorem rName_ok {bs rest s : Bytes} (h : rName true bs = .ok (s, rest)) :
    bs = encName s ++ rest ∧ utf8Valid s = true := by
  obtain ⟨b, r, h1, h2⟩ := bind_ok h
  obtain ⟨u, r2, h3, h4⟩ := bind_ok h2
  obtain ⟨hv, rfl⟩ := guardP_ok h3
  obtain ⟨rfl, rfl⟩ := pure_ok h4
  exact ⟨rSizedBytes_ok h1, hv⟩

theorem rBool_ok {bs rest : Bytes} {b : Bool} (h : rBool true bs = .ok (b, rest)) : bs = encBool b ++ rest := by
  obtain ⟨x, r, h1, h2⟩ := bind_ok h
  obtain ⟨u, r2, h3, h4⟩ := bind_ok h2
  obtain ⟨hv, rfl⟩ := guardP_ok h3
  obtain ⟨rfl, rfl⟩ := pure_ok h4
  have := rByte_ok h1
  have hx : x < 2 := by simpa using hv
  rcases Nat.lt_succ_iff_lt_or_eq.mp hx with h0 | h1'
  · have : x = 0 := by omega
    subst this; simp_all [encBool]
  · subst h1'; simp_all [encBool]

theorem rLimits_ok {bs rest : Bytes} {l : Limits} (h : rLimits true bs = .ok (l, rest)) : bs = encLimits l ++ rest := by
  obtain ⟨f, r, h1, h2⟩ := bind_ok h
  obtain ⟨u, r2, h3, h4⟩ := bind_ok h2
  obtain ⟨hv, rfl⟩ := guardP_ok h3
  obtain ⟨mn, r3, h5, h6⟩ := bind_ok h4
  have e1 := rByte_ok h1
  have e2 := rU_ok h5
  have hf : f < 2 := by simpa using hv
  by_cases hf1 : f = 1
  · simp only [hf1, if_true] at h6
    obtain ⟨mx, r4, h7, h8⟩ := bind_ok h6
    obtain ⟨rfl, rfl⟩ := pure_ok h8
    have e3 := rU_ok h7
    rw [e1, e2, e3, hf1]; simp [encLimits]
  · simp only [hf1, if_false] at h6
    obtain ⟨rfl, rfl⟩ := pure_ok h6
    have : f = 0 := by omega
    rw [e1, e2, this]; simp [encLimits]

theorem rN_ok {α} (p : P α) (enc : α → Bytes) (Q : α → Prop)
    (hp : ∀ bs x r, p bs = .ok (x, r) → bs = enc x ++ r ∧ Q x) :
    ∀ (n : Nat) (bs rest : Bytes) (xs : List α), rN p n bs = .ok (xs, rest) →
      bs = xs.flatMap enc ++ rest ∧ xs.length = n ∧ ∀ x ∈ xs, Q x
  | 0, bs, rest, xs, h => by
    obtain ⟨rfl, rfl⟩ := pure_ok (by simpa [rN] using h)
    simp
  | n + 1, bs, rest, xs, h => by
    simp only [rN] at h
    obtain ⟨x, r, h1, h2⟩ := bind_ok h
    obtain ⟨ys, r2, h3, h4⟩ := bind_ok h2
    obtain ⟨rfl, rfl⟩ := pure_ok h4
    obtain ⟨e1, q1⟩ := hp _ _ _ h1
    obtain ⟨e2, l2, q2⟩ := rN_ok p enc Q hp n _ _ _ h3
    refine ⟨by rw [e1, e2]; simp, by simp [l2], ?_⟩
    intro y hy
    simp only [List.mem_cons] at hy
    rcases hy with rfl | hy
    · exact q1
    · exact q2 y hy

theorem rVec_ok {α} (p : P α) (enc : α → Bytes) (Q : α → Prop)
    (hp : ∀ bs x r, p bs = .ok (x, r) → bs = enc x ++ r ∧ Q x)
    {bs rest : Bytes} {xs : List α} (h : rVec true p bs = .ok (xs, rest)) :
    bs = encVec enc xs ++ rest ∧ ∀ x ∈ xs, Q x := by
  obtain ⟨n, r, h1, h2⟩ := bind_ok h
  have e1 := rU_ok h1
  obtain ⟨e2, l2, q2⟩ := rN_ok p enc Q hp n _ _ _ h2
  exact ⟨by rw [e1, e2, encVec, l2, List.append_assoc], q2⟩

theorem rSub_ok {α} {p : P α} {n : Nat} {bs rest : Bytes} {a : α} (h : rSub p n bs = .ok (a, rest)) :
    ∃ payload, bs = payload ++ rest ∧ payload.length = n ∧ p payload = .ok (a, []) := by
  simp only [rSub] at h
  split at h
  · simp at h
  · rename_i hl
    split at h
    · simp at h
    · rename_i x rem hp
      split at h
      · rename_i hrem
        simp only [Except.ok.injEq, Prod.mk.injEq] at h
        obtain ⟨rfl, rfl⟩ := h
        have : rem = [] := by simpa using hrem
        subst this
        exact ⟨bs.take n, (List.take_append_drop n bs).symm, by simp; omega, hp⟩
      · simp at h

section Sane
variable {T : Tables} (hT : T.Sane = true)
include hT

theorem rType_ok {bs rest : Bytes} {t : Nat} (h : rType T bs = .ok (t, rest)) :
    bs = encType T t ++ rest ∧ typeOk T t = true := by
  obtain ⟨b, r, h1, h2⟩ := bind_ok h
  obtain ⟨ho, rfl⟩ := liftOpt_ok h2
  have e1 := rByte_ok h1
  simp only [Tables.typeOfByteOf] at ho
  split at ho
  · rename_i hb
    have hrow := sane_typeRev hT b hb
    simp only [typeRevRowOk, ho, Bool.and_eq_true, decide_eq_true_eq] at hrow
    obtain ⟨hlt, hb2⟩ := hrow
    split at hb2
    · rename_i b' htb
      have : b' = b := by simpa using hb2
      subst this
      exact ⟨by simp [e1, encType, Tables.typeBytesOf, hlt, htb], by simp [typeOk, hlt]⟩
    · simp at hb2
  · simp at ho

theorem rArg_ok {opc : Nat} {k : ImmKind} {bs rest : Bytes} {a : Arg} (h : rArg T true opc k bs = .ok (a, rest)) :
    bs = encArg T opc k a ++ rest ∧ argOk T k a = true ∧ (k = .resultTypes → resCond opc a) := by
  cases k <;> simp only [rArg] at h
  case type =>
    obtain ⟨t, r, h1, h2⟩ := bind_ok h
    obtain ⟨rfl, rfl⟩ := pure_ok h2
    obtain ⟨e, ok⟩ := rType_ok hT h1
    exact ⟨by simpa [encArg] using e, by simpa [argOk] using ok, by simp⟩
  case heaptype => simp at h
  case u8 =>
    obtain ⟨t, r, h1, h2⟩ := bind_ok h
    obtain ⟨rfl, rfl⟩ := pure_ok h2
    exact ⟨by simpa [encArg] using rByte_ok h1, by simp [argOk], by simp⟩
  case u32 =>
    obtain ⟨t, r, h1, h2⟩ := bind_ok h
    obtain ⟨rfl, rfl⟩ := pure_ok h2
    exact ⟨by simpa [encArg] using rU_ok h1, by simp [argOk], by simp⟩
  case i32 =>
    obtain ⟨t, r, h1, h2⟩ := bind_ok h
    obtain ⟨rfl, rfl⟩ := pure_ok h2
    exact ⟨by simpa [encArg] using rS_ok h1, by simp [argOk], by simp⟩
  case i64 =>
    obtain ⟨t, r, h1, h2⟩ := bind_ok h
    obtain ⟨rfl, rfl⟩ := pure_ok h2
    exact ⟨by simpa [encArg] using rS_ok h1, by simp [argOk], by simp⟩
  case f32 =>
    obtain ⟨x, r, h1, h2⟩ := bind_ok h
    obtain ⟨u, r2, h3, h4⟩ := bind_ok h2
    obtain ⟨hv, rfl⟩ := guardP_ok h3
    obtain ⟨rfl, rfl⟩ := pure_ok h4
    obtain ⟨e1, l1⟩ := rExact_ok h1
    have hq : quietF32 x = x := by simpa using hv
    exact ⟨by simp [encArg, hq, e1], by simp [argOk, hq, l1], by simp⟩
  case f64 =>
    obtain ⟨x, r, h1, h2⟩ := bind_ok h
    obtain ⟨rfl, rfl⟩ := pure_ok h2
    obtain ⟨e1, l1⟩ := rExact_ok h1
    exact ⟨by simp [encArg, e1], by simp [argOk, l1], by simp⟩
  case u8x16 =>
    obtain ⟨x, r, h1, h2⟩ := bind_ok h
    obtain ⟨u, r2, h3, h4⟩ := bind_ok h2
    obtain ⟨hv, _⟩ := guardP_ok h3
    simp at hv
  case typeidx =>
    obtain ⟨t, r, h1, h2⟩ := bind_ok h
    obtain ⟨rfl, rfl⟩ := pure_ok h2
    exact ⟨by simpa [encArg] using rU_ok h1, by simp [argOk], by simp⟩
  case tableidx =>
    obtain ⟨t, r, h1, h2⟩ := bind_ok h
    obtain ⟨rfl, rfl⟩ := pure_ok h2
    exact ⟨by simpa [encArg] using rU_ok h1, by simp [argOk], by simp⟩
  case localidx =>
    obtain ⟨t, r, h1, h2⟩ := bind_ok h
    obtain ⟨rfl, rfl⟩ := pure_ok h2
    exact ⟨by simpa [encArg] using rU_ok h1, by simp [argOk], by simp⟩
  case blockidx => simp at h
  case funcidx =>
    obtain ⟨t, r, h1, h2⟩ := bind_ok h
    obtain ⟨rfl, rfl⟩ := pure_ok h2
    exact ⟨by simpa [encArg] using rU_ok h1, by simp [argOk], by simp⟩
  case labelidx =>
    obtain ⟨t, r, h1, h2⟩ := bind_ok h
    obtain ⟨rfl, rfl⟩ := pure_ok h2
    exact ⟨by simpa [encArg] using rU_ok h1, by simp [argOk], by simp⟩
  case globalidx =>
    obtain ⟨t, r, h1, h2⟩ := bind_ok h
    obtain ⟨rfl, rfl⟩ := pure_ok h2
    exact ⟨by simpa [encArg] using rU_ok h1, by simp [argOk], by simp⟩
  case elemidx => simp at h
  case dataidx => simp at h
  case brTable =>
    obtain ⟨c, r, h1, h2⟩ := bind_ok h
    obtain ⟨l, r2, h3, h4⟩ := bind_ok h2
    obtain ⟨rfl, rfl⟩ := pure_ok h4
    have e1 := rU_ok h1
    obtain ⟨e2, l2, _⟩ := rN_ok (rU true) encU (fun _ => True) (fun bs x r h => ⟨rU_ok h, trivial⟩) _ _ _ _ h3
    have hc : l.length - 1 = c := by omega
    have hne : l ≠ [] := by intro hl; simp [hl] at l2
    exact ⟨by simp [encArg, hc, e1, e2], by simpa [argOk] using hne, by simp⟩
  case resultTypes =>
    by_cases hopc : opc = 0x1C
    · simp only [hopc, if_true] at h
      obtain ⟨l, r, h1, h2⟩ := bind_ok h
      obtain ⟨u, r2, h3, h4⟩ := bind_ok h2
      obtain ⟨hv, rfl⟩ := guardP_ok h3
      obtain ⟨rfl, rfl⟩ := pure_ok h4
      obtain ⟨e1, q1⟩ := rVec_ok (rType T) (encType T) (fun t => typeOk T t = true) (fun bs x r h => rType_ok hT h) h1
      have hne : l ≠ [] := by intro hl; simp [hl] at hv
      exact ⟨by simp [encArg, hopc, e1], by simpa [argOk] using q1, fun _ => Or.inl ⟨hopc, by simpa using hne⟩⟩
    · simp only [hopc, if_false] at h
      obtain ⟨rfl, rfl⟩ := pure_ok h
      exact ⟨by simp [encArg, hopc], by simp [argOk], fun _ => Or.inr ⟨hopc, rfl⟩⟩

theorem rArgs_ok {opc : Nat} : ∀ (ks : List ImmKind) (bs rest : Bytes) (as : List Arg),
    rArgs T true opc ks bs = .ok (as, rest) →
    bs = encArgs T opc ks as ++ rest ∧ argsOk T ks as = true ∧
      (∀ k a, (k, a) ∈ ks.zip as → k = .resultTypes → resCond opc a)
  | [], bs, rest, as, h => by
    obtain ⟨rfl, rfl⟩ := pure_ok (by simpa [rArgs] using h)
    simp [encArgs, argsOk]
  | k :: ks, bs, rest, as, h => by
    simp only [rArgs] at h
    obtain ⟨a, r, h1, h2⟩ := bind_ok h
    obtain ⟨as', r2, h3, h4⟩ := bind_ok h2
    obtain ⟨rfl, rfl⟩ := pure_ok h4
    obtain ⟨e1, o1, c1⟩ := rArg_ok hT h1
    obtain ⟨e2, o2, c2⟩ := rArgs_ok ks _ _ _ h3
    refine ⟨by rw [e1, e2]; simp [encArgs], by simp [argsOk, o1, o2], ?_⟩
    intro k' a' hm hk
    simp only [List.zip_cons_cons, List.mem_cons, Prod.mk.injEq] at hm
    rcases hm with ⟨rfl, rfl⟩ | hm
    · exact c1 hk
    · exact c2 k' a' hm hk

theorem rInstr_ok {bs rest : Bytes} {i : Instr} (h : rInstr T true bs = .ok (i, rest)) :
    bs = encInstr T i ++ rest ∧ instrOk T i = true := by
  simp only [rInstr] at h
  obtain ⟨b, r, h1, h2⟩ := bind_ok h
  have e1 := rByte_ok h1
  by_cases hb : b = 0xFC ∨ b = 0xFD
  · simp only [hb, if_true] at h2
    obtain ⟨s, r2, h3, h4⟩ := bind_ok h2
    obtain ⟨id, r3, h5, h6⟩ := bind_ok h4
    obtain ⟨hrev, rfl⟩ := liftOpt_ok h5
    obtain ⟨kinds, r4, h7, h8⟩ := bind_ok h6
    obtain ⟨hkinds, rfl⟩ := liftOpt_ok h7
    obtain ⟨args, r5, h9, h10⟩ := bind_ok h8
    obtain ⟨rfl, rfl⟩ := pure_ok h10
    have e2 := rU_ok h3
    obtain ⟨e3, o3, _⟩ := rArgs_ok hT kinds _ _ _ h9
    simp only [Tables.reverz2Of] at hrev
    split at hrev
    case isFalse => simp at hrev
    rename_i hs
    have hrow := sane_rev2 hT b s hb hs
    simp only [rev2RowOk, hrev, Bool.and_eq_true, decide_eq_true_eq] at hrow
    obtain ⟨hlt, hk⟩ := hrow
    split at hk
    case h_2 => simp at hk
    rename_i p' s' hkey
    simp only [Bool.and_eq_true, beq_iff_eq] at hk
    obtain ⟨rfl, rfl⟩ := hk
    have hkey' : T.opcodeOf id = some (p', some s') := by simp [Tables.opcodeOf, hlt, hkey]
    exact ⟨by rw [e1, e2, e3]; simp [encInstr, hkey', hkinds], by simp [instrOk, hkey', hkinds, o3]⟩
  · simp only [hb, if_false] at h2
    obtain ⟨id, r3, h5, h6⟩ := bind_ok h2
    obtain ⟨hrev, rfl⟩ := liftOpt_ok h5
    obtain ⟨kinds, r4, h7, h8⟩ := bind_ok h6
    obtain ⟨hkinds, rfl⟩ := liftOpt_ok h7
    obtain ⟨args, r5, h9, h10⟩ := bind_ok h8
    obtain ⟨rfl, rfl⟩ := pure_ok h10
    obtain ⟨e3, o3, c3⟩ := rArgs_ok hT kinds _ _ _ h9
    simp only [Tables.reverz1Of] at hrev
    split at hrev
    case isFalse => simp at hrev
    rename_i hb256
    have hrow := sane_rev1 hT b hb256
    simp only [rev1RowOk, hrev, Bool.and_eq_true, decide_eq_true_eq] at hrow
    obtain ⟨hlt, hk⟩ := hrow
    split at hk
    case h_2 => simp at hk
    rename_i b' hkey
    have hkey' : T.opcodeOf id = some (b', none) := by simp [Tables.opcodeOf, hlt, hkey]
    have hkinds' : T.operands id = some kinds := by simpa [Tables.operandsOf, hlt] using hkinds
    have hirow := sane_instr hT id hlt
    simp only [instrRowOk, hkey, hkinds', Bool.and_eq_true, Bool.or_eq_true, Bool.not_eq_true', beq_iff_eq] at hirow
    obtain ⟨⟨_, hres⟩, hsel⟩ := hirow
    have hb'' : (if b' = 0x1C ∧ firstArgEmpty args = true then 0x1B else b') = b := by
      by_cases h1c : b' = 0x1C
      · have hkk : kinds = [.resultTypes] := by
          rcases hsel with hsel | hsel
          · simp [h1c] at hsel
          · exact hsel
        subst hkk
        cases args with
        | nil => simp [argsOk] at o3
        | cons a as =>
          have hc := c3 .resultTypes a (by simp) rfl
          have ha : argOk T .resultTypes a = true := by
            simp only [argsOk, Bool.and_eq_true] at o3; exact o3.1
          cases a <;> simp [argOk] at ha
          rename_i l
          rcases hc with ⟨hc1, hc2⟩ | ⟨hc1, hc2⟩
          · have : l ≠ [] := by simpa using hc2
            cases l with
            | nil => exact absurd rfl this
            | cons => simp [firstArgEmpty, h1c, hc1]
          · have : l = [] := by simpa using hc2
            subst this
            have hb1b : b = 0x1B := by
              simp only [Bool.or_eq_true, beq_iff_eq, Bool.and_eq_true] at hk
              rcases hk with hk | hk
              · exact absurd (hk ▸ h1c) hc1
              · exact hk.1
            simp [firstArgEmpty, h1c, hb1b]
      · have : b' = b := by
          simp only [Bool.or_eq_true, beq_iff_eq, Bool.and_eq_true] at hk
          rcases hk with hk | hk
          · exact hk
          · exact absurd hk.2 h1c
        subst this
        simp [h1c]
    refine ⟨?_, by simp [instrOk, hkey', hkinds, o3]⟩
    rw [e1, e3]
    simp only [encInstr, hkey', hkinds, hb'']
    simp

theorem end_instr (i : Instr) (hop : i.op = T.endId) (hok : instrOk T i = true) : encInstr T i = [0x0B] := by
  obtain ⟨op, args⟩ := i
  simp only at hop
  subst hop
  obtain ⟨h1, h2, h3, _⟩ := sane_end hT
  simp only [instrOk, Tables.opcodeOf, Tables.operandsOf, h1, h2, h3, if_true] at hok
  cases args with
  | nil => exact encInstr_end hT
  | cons => simp [argsOk] at hok

theorem rExprLoop_ok : ∀ (fuel d : Nat) (bs rest : Bytes) (is : List Instr),
    rExprLoop T true fuel d bs = .ok (is, rest) → 1 ≤ d →
    bs = encInstrs T is ++ 0x0B :: rest ∧ (∀ i ∈ is, instrOk T i = true) ∧ balanced T d is = true
  | 0, _, _, _, _, h, _ => by simp [rExprLoop] at h
  | f + 1, d, bs, rest, is, h, hd => by
    simp only [rExprLoop] at h
    obtain ⟨i, r, h1, h2⟩ := bind_ok h
    obtain ⟨e1, o1⟩ := rInstr_ok hT h1
    by_cases hend : i.op = T.endId
    · simp only [hend, if_true] at h2
      have eend := end_instr hT i hend o1
      by_cases hd1 : d ≤ 1
      · simp only [hd1, if_true] at h2
        obtain ⟨rfl, rfl⟩ := pure_ok h2
        have : d = 1 := by omega
        exact ⟨by rw [e1, eend]; simp [encInstrs], by simp, by simp [balanced, this]⟩
      · simp only [hd1, if_false] at h2
        obtain ⟨js, r2, h3, h4⟩ := bind_ok h2
        obtain ⟨rfl, rfl⟩ := pure_ok h4
        obtain ⟨e2, o2, b2⟩ := rExprLoop_ok f (d - 1) _ _ _ h3 (by omega)
        refine ⟨by rw [e1, e2]; simp [encInstrs], ?_, ?_⟩
        · intro j hj
          simp only [List.mem_cons] at hj
          rcases hj with rfl | hj
          · exact o1
          · exact o2 j hj
        · simp only [balanced, hend, if_true, Bool.and_eq_true, decide_eq_true_eq]
          exact ⟨by omega, b2⟩
    · simp only [hend, if_false] at h2
      by_cases hblk : T.isBlock i.op = true
      · simp only [hblk, if_true] at h2
        obtain ⟨js, r2, h3, h4⟩ := bind_ok h2
        obtain ⟨rfl, rfl⟩ := pure_ok h4
        obtain ⟨e2, o2, b2⟩ := rExprLoop_ok f (d + 1) _ _ _ h3 (by omega)
        refine ⟨by rw [e1, e2]; simp [encInstrs], ?_, ?_⟩
        · intro j hj
          simp only [List.mem_cons] at hj
          rcases hj with rfl | hj
          · exact o1
          · exact o2 j hj
        · simp only [balanced, hend, if_false, hblk, if_true]
          exact b2
      · simp only [hblk] at h2
        obtain ⟨js, r2, h3, h4⟩ := bind_ok h2
        obtain ⟨rfl, rfl⟩ := pure_ok h4
        obtain ⟨e2, o2, b2⟩ := rExprLoop_ok f d _ _ _ h3 hd
        refine ⟨by rw [e1, e2]; simp [encInstrs], ?_, ?_⟩
        · intro j hj
          simp only [List.mem_cons] at hj
          rcases hj with rfl | hj
          · exact o1
          · exact o2 j hj
        · simp only [balanced, hend, if_false, hblk]
          exact b2

theorem rExpr_body_ok {bs rest : Bytes} {is : List Instr} (h : rExpr T true bs = .ok (is, rest)) :
    bs = encInstrs T is ++ 0x0B :: rest ∧ exprOk T is = true := by
  obtain ⟨e, o, b⟩ := rExprLoop_ok hT _ 1 _ _ _ h (by omega)
  exact ⟨e, by simp only [exprOk, Bool.and_eq_true, List.all_eq_true]; exact ⟨o, b⟩⟩

theorem rExpr_ok {bs rest : Bytes} {is : List Instr} (h : rExpr T true bs = .ok (is, rest)) :
    bs = encExpr T is ++ rest ∧ exprOk T is = true := by
  obtain ⟨e, o⟩ := rExpr_body_ok hT h
  exact ⟨by rw [e]; simp [encExpr, encInstr_end hT], o⟩

end Sane

end Proofs.WasmBin
