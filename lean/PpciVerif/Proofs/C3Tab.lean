import PpciVerif.Model.C3
import PpciVerif.Spec.C3
import PpciVerif.Spec.IR
/-! Glue definitions for Props.C37 (no theorems about ppci here): the model's tables in the shape of
the dump `Gen.C3Tab`, the structural type of a named C3 type, and the resolution of the operator / type
*strings* the front-end hands to `ir.Binop` / `ir.CJump` into the reference IR semantics `Spec.IR`. -/
namespace Proofs.C3
open Model.C3

/-- the `int` sizes (bytes) of the probed targets, in the order of `Gen.C3Tab.archs` -/
def intSizes : List Nat := [4, 2]

/-- structural identity of a named C3 integer type -/
def tyOf (c : CTy) : Spec.IRArith.Ty := Spec.C3.ofSB c.signed c.bits

/-- IR type / operator / condition by the name ppci uses -/
def irTyByName (n : String) : Option Spec.IRArith.Ty := Spec.IRArith.Ty.all.find? (fun t => t.name == n)
def irBinOpBySymbol (s : String) : Option Spec.IR.BinOp := Spec.IR.BinOp.all.find? (fun o => o.symbol == s)
def irCondBySymbol (s : String) : Option Spec.IR.Cond := Spec.IR.Cond.all.find? (fun o => o.symbol == s)

/-- the shorthand assignment operator of a C3 operator (`astnodes.Assignment.operators`) -/
def assignSymbol : Spec.C3.Op → Option String
  | .add => some "+=" | .sub => some "-=" | .mul => some "*=" | .band => some "&=" | .bor => some "|="
  | _ => none

/-! the model's tables, row for row as `harness/c37.py:dump_tables` produces them -/

def intTypesTable (n : Nat) : List (String × Bool × Nat × String) :=
  (intTypes n).map fun t => (t.name, t.signed, t.bits, irType t)

def pairs (n : Nat) : List (CTy × CTy) :=
  (intTypes n).flatMap fun a => (intTypes n).map fun b => (a, b)

def commonTable (n : Nat) : List (String × String × String) :=
  (pairs n).map fun (a, b) => (a.name, b.name, match commonType a b with | some c => c.name | none => "!")

def coerceTable (n : Nat) : List (String × String × String) :=
  (pairs n).map fun (a, b) => (a.name, b.name, (doCoerce a b).name)

def opTable (ops : List String) (n : Nat) (f : String → CTy → String × String) : List (String × String × String × String) :=
  ops.flatMap fun op => (intTypes n).map fun t => (op, t.name, (f op t).1, (f op t).2)

def binopTable (n : Nat) := opTable arithOps n lowerBinop
def cmpTable (n : Nat) := opTable compareOps n lowerCmp
def shorthandTable (n : Nat) := opTable (assignOps.filter (· ≠ "=")) n lowerShorthand
def unopTable (n : Nat) := opTable unaryArithOps n lowerUnop

/-- comparisons with a named constant on the left / on the right / on both sides: which operand of the CJump is the constant -/
def cmpShapeTable (_n : Nat) : List (String × String × String × String × Bool × Bool) :=
  compareOps.flatMap fun op =>
    let row (t side : String) (l r : Bool) := (op, t, side, (lowerCmpOperands op l r).1, (lowerCmpOperands op l r).2.1, (lowerCmpOperands op l r).2.2)
    [row "int" "left" true false, row "int" "right" false true, row "byte" "left" true false, row "byte" "right" false true,
     row "int" "both" true true]

/-- `a + b` for every ordered pair of differently named types that the type checker accepts -/
def mixedTable (n : Nat) : List (String × String × String × String) :=
  (pairs n).filterMap fun (a, b) =>
    match commonType a b with
    | some c =>
      if a.name ≠ b.name ∧ doCoerce a c ≠ .reject ∧ doCoerce b c ≠ .reject then
        some (a.name, b.name, (lowerBinop "+" c).1, (lowerBinop "+" c).2)
      else none
    | none => none

end Proofs.C3
