import PpciVerif.Model.MCode
import PpciVerif.Model.RA
import PpciVerif.Proofs.RA
/-!
Helper lemmas for C06, spill step: the rewritten list (`expandAll`) simulates the
original list.  Core Lean only.
-/
namespace Proofs.RASpill
open Model.MCode Model.RA Proofs.RA

/-! ### structure of `expandAll` -/

theorem expandAll_append (plan : Nat → Plan) :
    ∀ (l1 l2 : Program) (b : Nat),
      expandAll plan b (l1 ++ l2) = expandAll plan b l1 ++ expandAll plan (b + l1.length) l2
  | [], l2, b => by simp [expandAll]
  | x :: l1, l2, b => by
    simp only [List.cons_append, expandAll, List.length_cons, List.append_assoc]
    rw [expandAll_append plan l1 l2 (b + 1)]
    have : b + 1 + l1.length = b + (l1.length + 1) := by omega
    rw [this]

theorem split_at (p : Program) (i : Nat) (ins : Instr) (h : p[i]? = some ins) :
    p = p.take i ++ ins :: p.drop (i + 1) ∧ (p.take i).length = i := by
  have hi : i < p.length := by
    rcases Nat.lt_or_ge i p.length with h' | h'
    · exact h'
    · rw [List.getElem?_eq_none h'] at h; cases h
  have hg : p[i] = ins := by
    rw [List.getElem?_eq_getElem hi] at h; exact Option.some.inj h
  refine ⟨?_, by simp [Nat.min_eq_left (Nat.le_of_lt hi)]⟩
  rw [← hg, List.getElem_cons_drop hi, List.take_append_drop]

/-- the code for original instruction `i` sits at `offset i` in the rewritten list -/
theorem post_get (plan : Nat → Plan) (p : Program) (i : Nat) (ins : Instr) (h : p[i]? = some ins) (j : Nat)
    (hj : j < (expand (plan i) ins).length) :
    (expandAll plan 0 p)[offset plan p i + j]? = (expand (plan i) ins)[j]? := by
  obtain ⟨hp, hl⟩ := split_at p i ins h
  have e : expandAll plan 0 p =
      expandAll plan 0 (p.take i) ++ (expand (plan i) ins ++ expandAll plan (i + 1) (p.drop (i + 1))) := by
    conv => lhs; rw [hp]
    rw [expandAll_append, hl]
    simp [expandAll]
  rw [e, offset, List.getElem?_append_right (by omega)]
  have : (expandAll plan 0 (p.take i)).length + j - (expandAll plan 0 (p.take i)).length = j := by omega
  rw [this, List.getElem?_append_left hj]

theorem offset_succ (plan : Nat → Plan) (p : Program) (i : Nat) (ins : Instr) (h : p[i]? = some ins) :
    offset plan p (i + 1) = offset plan p i + (expand (plan i) ins).length := by
  obtain ⟨hp, hl⟩ := split_at p i ins h
  have hi : i < p.length := by
    rcases Nat.lt_or_ge i p.length with h' | h'
    · exact h'
    · rw [List.getElem?_eq_none h'] at h; cases h
  have : p.take (i + 1) = p.take i ++ [ins] := by
    have hg : p[i] = ins := by
      rw [List.getElem?_eq_getElem hi] at h; exact Option.some.inj h
    rw [← hg, List.take_succ_eq_append_getElem hi]
  simp only [offset]
  rw [this, expandAll_append, hl]
  simp [expandAll]

theorem offset_ge (plan : Nat → Plan) (p : Program) (i : Nat) (h : p.length ≤ i) :
    offset plan p i = (expandAll plan 0 p).length := by
  simp [offset, List.take_of_length_le h]

theorem post_none (plan : Nat → Plan) (p : Program) (i : Nat) (h : p[i]? = none) :
    (expandAll plan 0 p)[offset plan p i]? = none := by
  have : p.length ≤ i := by
    rcases Nat.lt_or_ge i p.length with h' | h'
    · rw [List.getElem?_eq_getElem h'] at h; cases h
    · exact h'
  rw [offset_ge plan p i this]
  exact List.getElem?_eq_none (Nat.le_refl _)

/-! ### labels -/

theorem findLabelL_shift (l : Nat) : ∀ (xs : List (Option Nat)) (base : Nat),
    findLabelL l xs (base + 1) = findLabelL l xs base + 1
  | [], _ => rfl
  | x :: xs, base => by
    simp only [findLabelL]
    split
    · rfl
    · exact findLabelL_shift l xs (base + 1)

theorem findLabelL_base (l : Nat) (xs : List (Option Nat)) (base : Nat) :
    findLabelL l xs base = base + findLabelL l xs 0 := by
  induction base with
  | zero => simp
  | succ b ih => rw [findLabelL_shift, ih]; omega

theorem findLabelL_skip (l : Nat) : ∀ (ns xs : List (Option Nat)) (base : Nat),
    (∀ x ∈ ns, x ≠ some l) → findLabelL l (ns ++ xs) base = findLabelL l xs (base + ns.length)
  | [], _, _, _ => by simp
  | n :: ns, xs, base, h => by
    have h1 : n ≠ some l := h n (List.mem_cons_self ..)
    simp only [List.cons_append, findLabelL, h1, if_false, List.length_cons]
    rw [findLabelL_skip l ns xs (base + 1) (fun x hx => h x (List.mem_cons_of_mem _ hx))]
    congr 1; omega

theorem expand_length (pl : Plan) (ins : Instr) :
    (expand pl ins).length = (loadsOf pl.ren ins).length + 1 + (storesOf pl.ren ins).length := by
  simp [expand]; omega

theorem expand_labels (pl : Plan) (ins : Instr) :
    (expand pl ins).map SInstr.label =
      (loadsOf pl.ren ins).map (fun _ => none) ++ [ins.label] ++ (storesOf pl.ren ins).map (fun _ => none) := by
  simp [expand, SInstr.label, renInstr, Function.comp_def]

/-- a label is found in the rewritten list at the offset of the place it is found in the
    original list, provided labelled instructions get no load in front -/
theorem findLabel_expand (plan : Nat → Plan) (l : Nat) :
    ∀ (p : Program) (b base : Nat),
      (∀ k ins, p[k]? = some ins → ins.label ≠ none → loadsOf (plan (b + k)).ren ins = []) →
      findLabelL l ((expandAll plan b p).map SInstr.label) base
        = base + (expandAll plan b (p.take (findLabelL l (p.map Instr.label) 0))).length
  | [], _, _, _ => by simp [expandAll, findLabelL]
  | ins :: rest, b, base, h => by
    simp only [expandAll, List.map_append, List.map_cons, findLabelL]
    by_cases hl : ins.label = some l
    · have hld : loadsOf (plan b).ren ins = [] := by
        have := h 0 ins (by simp) (by rw [hl]; simp)
        simpa using this
      simp [hl, expand_labels, hld, findLabelL, expandAll]
    · simp only [hl, if_false]
      rw [expand_labels, List.append_assoc, List.append_assoc,
        findLabelL_skip l _ _ base (by intro x hx; simp at hx; rw [← hx.2]; simp)]
      simp only [List.cons_append, List.nil_append, findLabelL, hl, if_false, List.length_map]
      rw [findLabelL_skip l _ _ _ (by intro x hx; simp at hx; rw [← hx.2]; simp)]
      rw [findLabel_expand plan l rest (b + 1) _ (by
        intro k i2 hk hlab
        have := h (k + 1) i2 (by simpa using hk) hlab
        have e : b + (k + 1) = b + 1 + k := by omega
        rw [e] at this; exact this)]
      rw [findLabelL_base l _ 1]
      have : 1 + findLabelL l (rest.map Instr.label) 0 = findLabelL l (rest.map Instr.label) 0 + 1 := by omega
      rw [this, List.take_succ_cons]
      simp only [expandAll, List.length_append, List.length_map, expand_length]
      omega

/-! ### running the load code and the store code -/

theorem srun_add {Val σ : Type} (S : Sem Val σ) (M : RegModel) (Jp Js : Nat → PReg → Val) (q : List SInstr) :
    ∀ (a b : Nat) (t : SState Val σ), srun S M Jp Js q (a + b) t = srun S M Jp Js q b (srun S M Jp Js q a t)
  | 0, b, t => by simp [srun]
  | a + 1, b, t => by
    have : a + 1 + b = (a + b) + 1 := by omega
    rw [this, srun, srun, srun_add S M Jp Js q a b]

/-- registers after the load code for the fresh registers `fs` -/
def afterLoads {Val : Type} (M : RegModel) (J : PReg → Val) (slot : Val) (cl : List VReg) :
    List VReg → (VReg → Val) → (VReg → Val)
  | [], R => R
  | f :: fs, R => afterLoads M J slot cl fs (writeRegV M J (scratch M J R cl) f slot)

theorem srun_loads {Val σ : Type} (S : Sem Val σ) (M : RegModel) (Jp Js : Nat → PReg → Val) (q : List SInstr)
    (cl : List VReg) :
    ∀ (fs : List VReg) (t : SState Val σ),
      (∀ j f, fs[j]? = some f → q[t.pc + j]? = some (.load f cl)) →
      srun S M Jp Js q fs.length t =
        { t with pc := t.pc + fs.length, regs := afterLoads M (Js t.k) t.slot cl fs t.regs }
  | [], t, _ => by simp [srun, afterLoads]
  | f :: fs, t, h => by
    have h0 : q[t.pc]? = some (.load f cl) := by simpa using h 0 f (by simp)
    simp only [List.length_cons, srun]
    have hs : sstep S M Jp Js q t =
        { t with pc := t.pc + 1, regs := writeRegV M (Js t.k) (scratch M (Js t.k) t.regs cl) f t.slot } := by
      simp [sstep, h0]
    rw [hs, srun_loads S M Jp Js q cl fs _ (by
      intro j g hg
      have := h (j + 1) g (by simpa using hg)
      have e : t.pc + (j + 1) = t.pc + 1 + j := by omega
      rw [e] at this; exact this)]
    simp only [afterLoads]
    congr 1; omega

/-- registers and slot after the store code for `fs` -/
def afterStores {Val : Type} (M : RegModel) (J : PReg → Val) (cl : List VReg) :
    List VReg → (VReg → Val) → Val → (VReg → Val) × Val
  | [], R, sl => (R, sl)
  | f :: fs, R, _ => afterStores M J cl fs (scratch M J R cl) (R f)

theorem srun_stores {Val σ : Type} (S : Sem Val σ) (M : RegModel) (Jp Js : Nat → PReg → Val) (q : List SInstr)
    (cl : List VReg) :
    ∀ (fs : List VReg) (t : SState Val σ),
      (∀ j f, fs[j]? = some f → q[t.pc + j]? = some (.store f cl)) →
      srun S M Jp Js q fs.length t =
        { t with pc := t.pc + fs.length,
                 regs := (afterStores M (Js t.k) cl fs t.regs t.slot).1,
                 slot := (afterStores M (Js t.k) cl fs t.regs t.slot).2 }
  | [], t, _ => by simp [srun, afterStores]
  | f :: fs, t, h => by
    have h0 : q[t.pc]? = some (.store f cl) := by simpa using h 0 f (by simp)
    simp only [List.length_cons, srun]
    have hs : sstep S M Jp Js q t =
        { t with pc := t.pc + 1, slot := t.regs f, regs := scratch M (Js t.k) t.regs cl } := by
      simp [sstep, h0]
    rw [hs, srun_stores S M Jp Js q cl fs _ (by
      intro j g hg
      have := h (j + 1) g (by simpa using hg)
      have e : t.pc + (j + 1) = t.pc + 1 + j := by omega
      rw [e] at this; exact this)]
    simp only [afterStores]
    congr 1; omega

/-! ### facts about register files -/

theorem scratch_other {Val : Type} (M : RegModel) (J : PReg → Val) (R : VReg → Val) (cl : List VReg) (r : VReg)
    (h : ∀ z ∈ cl, touches M z r = false) : scratch M J R cl r = R r := by
  have : cl.any (fun z => touches M z r) = false := by
    rw [List.any_eq_false]; intro z hz; simp [h z hz]
  simp [scratch, this]

theorem touches_nf (M : RegModel) (z r : VReg) (hz : M.fixed z = true) (hr : M.fixed r = false) :
    touches M z r = false := by
  have : z ≠ r := by intro e; rw [e, hr] at hz; cases hz
  simp [touches, this, hr]

theorem writeRegV_nf {Val : Type} (M : RegModel) (J : PReg → Val) (R : VReg → Val) (d : VReg) (x : Val) (r : VReg)
    (hne : r ≠ d) (h : M.fixed r = false ∨ M.fixed d = false) : writeRegV M J R d x r = R r := by
  have : (M.fixed d && M.fixed r) = false := by
    rcases h with h | h <;> simp [h]
  simp [writeRegV, hne, this]

theorem writeV_other_nf {Val : Type} (M : RegModel) (J : PReg → Val) (vals : Nat → Val) (r : VReg)
    (hr : M.fixed r = false) :
    ∀ (ds : List VReg) (k : Nat) (R : VReg → Val), r ∉ ds → writeV M J vals ds k R r = R r
  | [], _, _, _ => rfl
  | d :: ds, k, R, h => by
    simp only [List.mem_cons, not_or] at h
    rw [writeV, writeV_other_nf M J vals r hr ds (k + 1) _ h.2, writeRegV_nf M J R d _ r h.1 (Or.inl hr)]

theorem foldl_havocV_nf {Val : Type} (M : RegModel) (J : PReg → Val) (r : VReg) (hr : M.fixed r = false) :
    ∀ (cl : List PReg) (R : VReg → Val), (cl.foldl (havocV M J) R) r = R r
  | [], _ => rfl
  | q :: cl, R => by
    rw [List.foldl_cons, foldl_havocV_nf M J r hr cl]
    simp [havocV, hr]

theorem foldl_havocV_congr {Val : Type} (M : RegModel) (J : PReg → Val) (r : VReg) :
    ∀ (cl : List PReg) (R1 R2 : VReg → Val), R2 r = R1 r →
      (cl.foldl (havocV M J) R2) r = (cl.foldl (havocV M J) R1) r
  | [], _, _, h => h
  | q :: cl, R1, R2, h => by
    rw [List.foldl_cons, List.foldl_cons]
    apply foldl_havocV_congr M J r cl
    simp [havocV, h]

theorem afterLoads_other {Val : Type} (M : RegModel) (J : PReg → Val) (slot : Val) (cl : List VReg) (r : VReg)
    (hcl : ∀ z ∈ cl, touches M z r = false) :
    ∀ (fs : List VReg) (R : VReg → Val), r ∉ fs → (∀ f ∈ fs, M.fixed f = false) →
      afterLoads M J slot cl fs R r = R r
  | [], _, _, _ => rfl
  | f :: fs, R, h, hf => by
    simp only [List.mem_cons, not_or] at h
    rw [afterLoads, afterLoads_other M J slot cl r hcl fs _ h.2 (fun g hg => hf g (List.mem_cons_of_mem _ hg)),
      writeRegV_nf M J _ f slot r h.1 (Or.inr (hf f (List.mem_cons_self ..))), scratch_other M J R cl r hcl]

theorem afterLoads_fresh {Val : Type} (M : RegModel) (J : PReg → Val) (slot : Val) (cl : List VReg) (f : VReg)
    (hf : M.fixed f = false) (hcl : ∀ z ∈ cl, M.fixed z = true) :
    ∀ (fs : List VReg) (R : VReg → Val), (R f = slot ∨ f ∈ fs) → afterLoads M J slot cl fs R f = slot
  | [], R, h => by
    rcases h with h | h
    · exact h
    · cases h
  | g :: fs, R, h => by
    rw [afterLoads]
    apply afterLoads_fresh M J slot cl f hf hcl fs
    by_cases e : f = g
    · left; subst e; simp [writeRegV]
    · rcases h with h | h
      · left
        rw [writeRegV_nf M J _ g slot f e (Or.inl hf),
          scratch_other M J R cl f (fun z hz => touches_nf M z f (hcl z hz) hf), h]
      · rcases List.mem_cons.mp h with h | h
        · exact absurd h e
        · exact Or.inr h

theorem afterStores_regs {Val : Type} (M : RegModel) (J : PReg → Val) (cl : List VReg) (r : VReg)
    (hcl : ∀ z ∈ cl, touches M z r = false) :
    ∀ (fs : List VReg) (R : VReg → Val) (sl : Val), (afterStores M J cl fs R sl).1 r = R r
  | [], _, _ => rfl
  | f :: fs, R, sl => by
    rw [afterStores, afterStores_regs M J cl r hcl fs, scratch_other M J R cl r hcl]

/-- the slot ends up with the value of the LAST stored register (none stored: unchanged) -/
theorem afterStores_slot {Val : Type} (M : RegModel) (J : PReg → Val) (cl : List VReg)
    (hcl : ∀ z ∈ cl, M.fixed z = true) :
    ∀ (fs : List VReg) (R : VReg → Val) (sl : Val), (∀ f ∈ fs, M.fixed f = false) →
      (afterStores M J cl fs R sl).2 = match fs.getLast? with
        | some f => R f
        | none => sl
  | [], _, _, _ => rfl
  | [f], R, sl, _ => by simp [afterStores]
  | f :: g :: fs, R, sl, hf => by
    rw [afterStores, afterStores_slot M J cl hcl (g :: fs) _ _ (fun x hx => hf x (List.mem_cons_of_mem _ hx))]
    simp only [List.getLast?_cons_cons]
    cases hl : (g :: fs).getLast? with
    | none => simp at hl
    | some x =>
      have hx : x ∈ g :: fs := List.mem_of_getLast? hl
      simp only []
      exact scratch_other M J R cl x (fun z hz =>
        touches_nf M z x (hcl z hz) (hf x (List.mem_cons_of_mem _ hx)))

/-! ### declarative conditions of the spill-step validator and reflection -/

structure SpillOk (p : Program) (C : SpillCtx) (live : Nat → List VReg) (pl : Plan) (i : Nat) (ins : Instr) : Prop where
  uses_live : ∀ u ∈ ins.uses, u ∈ live i
  out_live : ∀ j ∈ succs p i ins, ∀ v ∈ live j, v ∈ ins.defs ∨ v ∈ live i
  move_wf : ins.isMove = true →
    ∃ s d, ins.uses = [s] ∧ ins.defs = [d] ∧ ins.jumps.isEmpty = true ∧ ins.clobbers = []
  ren_ok : ∀ tf ∈ pl.ren, tf.1 ∈ C.temps ∧ tf.2 ∈ C.fresh
  occ_ok : ∀ r, r ∈ ins.uses ∨ r ∈ ins.defs → (r ∈ C.temps → (pl.ren.lookup r).isSome = true) ∧ r ∉ C.fresh
  label_ok : ins.label ≠ none → loadsOf pl.ren ins = []
  jump_ok : ins.jumps.isEmpty = false → storesOf pl.ren ins = []
  lclob_ok : loadsOf pl.ren ins ≠ [] → ∀ z ∈ pl.lclob, C.model.fixed z = true ∧ ∀ v ∈ live i, touches C.model z v = false
  sclob_ok : storesOf pl.ren ins ≠ [] → ∀ z ∈ pl.sclob, C.model.fixed z = true ∧
    ∀ j ∈ succs p i ins, ∀ v ∈ live j, touches C.model z v = false
  slot_ok : spilledDefs C.temps ins = [] ∨ ∃ d, spilledDefs C.temps ins = [d] ∧
    ∀ j ∈ succs p i ins, ∀ t ∈ live j, t ∈ C.temps → t = d ∨ (ins.isMove = true ∧ ins.uses = [t])

theorem isEmpty_false_ne {α : Type} (l : List α) : l.isEmpty = false ↔ l ≠ [] := by
  cases l <;> simp

theorem spillInstrOkB_sound (p : Program) (C : SpillCtx) (live : Nat → List VReg) (pl : Plan) (i : Nat) (ins : Instr)
    (h : spillInstrOkB p C live pl i ins = true) : SpillOk p C live pl i ins := by
  simp only [spillInstrOkB, Bool.and_eq_true] at h
  obtain ⟨⟨⟨⟨⟨⟨⟨⟨hlive, hmw⟩, hren⟩, hocc⟩, hlab⟩, hjmp⟩, hlc⟩, hsc⟩, hslot⟩ := h
  simp only [liveOkB, Bool.and_eq_true, List.all_eq_true, Bool.or_eq_true, List.contains_eq_mem,
    decide_eq_true_eq, liveOut, List.mem_flatMap, forall_exists_index, and_imp] at hlive
  have hmove : ins.isMove = true →
      ∃ s d, ins.uses = [s] ∧ ins.defs = [d] ∧ ins.jumps.isEmpty = true ∧ ins.clobbers = [] := by
    intro hmv
    simp only [moveWfB, Bool.or_eq_true, Bool.not_eq_true', Bool.and_eq_true, beq_iff_eq] at hmw
    rcases hmw with hm | hm
    · rw [hmv] at hm; cases hm
    · obtain ⟨s, hs⟩ := len_one _ hm.1.1.1
      obtain ⟨d, hd⟩ := len_one _ hm.1.1.2
      exact ⟨s, d, hs, hd, hm.1.2, by simpa using hm.2⟩
  refine ⟨hlive.1, fun j hj v hv => hlive.2 v j hj hv, hmove, ?_, ?_, ?_, ?_, ?_, ?_, ?_⟩
  · intro tf htf
    simp only [List.all_eq_true, Bool.and_eq_true, List.contains_eq_mem, decide_eq_true_eq] at hren
    exact hren tf htf
  · intro r hr
    simp only [List.all_eq_true, List.mem_append, Bool.and_eq_true, Bool.or_eq_true, Bool.not_eq_true',
      List.contains_eq_mem, decide_eq_false_iff_not] at hocc
    have := hocc r hr
    refine ⟨fun ht => ?_, this.2⟩
    rcases this.1 with h1 | h1
    · exact absurd ht h1
    · exact h1
  · intro hl
    simp only [Bool.or_eq_true, Option.isNone_iff_eq_none, List.isEmpty_iff] at hlab
    rcases hlab with h1 | h1
    · exact absurd h1 hl
    · exact h1
  · intro hj
    simp only [Bool.or_eq_true, List.isEmpty_iff] at hjmp
    rcases hjmp with h1 | h1
    · rw [h1] at hj; simp at hj
    · exact h1
  · intro hne z hz
    simp only [Bool.or_eq_true, List.isEmpty_iff, List.all_eq_true, Bool.and_eq_true, Bool.not_eq_true'] at hlc
    rcases hlc with h1 | h1
    · exact absurd h1 hne
    · exact h1 z hz
  · intro hne z hz
    simp only [Bool.or_eq_true, List.isEmpty_iff, List.all_eq_true, Bool.and_eq_true, Bool.not_eq_true',
      liveOut, List.mem_flatMap, forall_exists_index, and_imp] at hsc
    rcases hsc with h1 | h1
    · exact absurd h1 hne
    · exact ⟨(h1 z hz).1, fun j hj v hv => (h1 z hz).2 v j hj hv⟩
  · cases hsd : spilledDefs C.temps ins with
    | nil => exact Or.inl rfl
    | cons d rest =>
      cases rest with
      | nil =>
        right
        refine ⟨d, rfl, ?_⟩
        rw [hsd] at hslot
        simp only [List.all_eq_true, Bool.or_eq_true, Bool.not_eq_true', List.contains_eq_mem,
          decide_eq_false_iff_not, beq_iff_eq, Bool.and_eq_true, liveOut, List.mem_flatMap,
          forall_exists_index, and_imp] at hslot
        intro j hj t ht htt
        rcases hslot t j hj ht with (h1 | h1) | h1
        · exact absurd htt h1
        · exact Or.inl h1
        · exact Or.inr h1
      | cons e rest2 => rw [hsd] at hslot; cases hslot

theorem spillFrom_sound (p : Program) (C : SpillCtx) (live : Nat → List VReg) (plan : Nat → Plan) :
    ∀ (l : List Instr) (i : Nat), spillFrom p C live plan i l = true →
      ∀ k ins, l[k]? = some ins → SpillOk p C live (plan (i + k)) (i + k) ins
  | [], _, _, k, ins, hk => by simp at hk
  | x :: rest, i, h, k, ins, hk => by
    simp only [spillFrom, Bool.and_eq_true] at h
    cases k with
    | zero =>
      simp at hk; subst hk
      exact spillInstrOkB_sound p C live (plan i) i x h.1
    | succ k =>
      have := spillFrom_sound p C live plan rest (i + 1) h.2 k ins (by simpa using hk)
      have e : i + 1 + k = i + (k + 1) := by omega
      rw [e] at this; exact this

/-- what `checkSpillStep` establishes -/
structure SpillChecked (pre : Program) (post : List SInstr) (C : SpillCtx) (live : Nat → List VReg)
    (plan : Nat → Plan) : Prop where
  shape : post = expandAll plan 0 pre
  fresh_ok : ∀ f ∈ C.fresh, f ∉ C.temps ∧ C.model.fixed f = false
  temps_ok : ∀ t ∈ C.temps, C.model.fixed t = false
  instr : ∀ i ins, pre[i]? = some ins → SpillOk pre C live (plan i) i ins

theorem checkSpillStep_sound (pre : Program) (post : List SInstr) (C : SpillCtx) (live : Nat → List VReg)
    (plan : Nat → Plan) (h : checkSpillStep pre post C live plan = true) : SpillChecked pre post C live plan := by
  simp only [checkSpillStep, Bool.and_eq_true, decide_eq_true_eq, List.all_eq_true, Bool.not_eq_true',
    List.contains_eq_mem, decide_eq_false_iff_not] at h
  refine ⟨h.1.1.1, fun f hf => h.1.1.2 f hf, fun t ht => h.1.2 t ht, fun i ins hi => ?_⟩
  have := spillFrom_sound pre C live plan pre 0 h.2 i ins hi
  simpa using this

/-! ### renaming -/

theorem lookup_mem : ∀ (ren : Ren) (r f : VReg), ren.lookup r = some f → (r, f) ∈ ren
  | [], _, _, h => by simp [List.lookup] at h
  | (a, b) :: ren, r, f, h => by
    simp only [List.lookup] at h
    cases e : r == a with
    | true =>
      rw [e] at h
      have : r = a := by simpa using e
      simp at h; subst h; subst this; exact List.mem_cons_self ..
    | false =>
      rw [e] at h
      exact List.mem_cons_of_mem _ (lookup_mem ren r f h)

theorem rename_not_temp (ren : Ren) (temps : List VReg) (hk : ∀ tf ∈ ren, tf.1 ∈ temps) (r : VReg) (hr : r ∉ temps) :
    rename ren r = r := by
  unfold rename
  cases h : ren.lookup r with
  | none => rfl
  | some f => exact absurd (hk _ (lookup_mem ren r f h)) hr

theorem rename_temp (ren : Ren) (r : VReg) (h : (ren.lookup r).isSome = true) :
    (r, rename ren r) ∈ ren := by
  unfold rename
  cases e : ren.lookup r with
  | none => rw [e] at h; cases h
  | some f => exact lookup_mem ren r f e

theorem mem_loadsOf (ren : Ren) (ins : Instr) (r : VReg) (hu : r ∈ ins.uses) (h : (ren.lookup r).isSome = true) :
    rename ren r ∈ loadsOf ren ins := by
  simp only [loadsOf, List.mem_map, List.mem_filter, List.contains_eq_mem, decide_eq_true_eq]
  exact ⟨(r, rename ren r), ⟨rename_temp ren r h, hu⟩, rfl⟩

theorem loadsOf_fresh (ren : Ren) (ins : Instr) (fresh : List VReg) (hk : ∀ tf ∈ ren, tf.2 ∈ fresh) :
    ∀ f ∈ loadsOf ren ins, f ∈ fresh := by
  intro f hf
  simp only [loadsOf, List.mem_map, List.mem_filter] at hf
  obtain ⟨tf, ⟨htf, _⟩, e⟩ := hf
  rw [← e]; exact hk tf htf

theorem storesOf_fresh (ren : Ren) (ins : Instr) (fresh : List VReg) (hk : ∀ tf ∈ ren, tf.2 ∈ fresh) :
    ∀ f ∈ storesOf ren ins, f ∈ fresh := by
  intro f hf
  simp only [storesOf, List.mem_reverse, List.mem_map, List.mem_filter] at hf
  obtain ⟨tf, ⟨htf, _⟩, e⟩ := hf
  rw [← e]; exact hk tf htf

/-- all entries of `ren` whose key is defined by the instruction have key `d`: the first one is `lookup d` -/
theorem filter_head_lookup (defs : List VReg) (d : VReg) (hd : d ∈ defs) :
    ∀ (ren : Ren), (∀ tf ∈ ren, tf.1 ∈ defs → tf.1 = d) →
      ((ren.filter (fun tf => defs.contains tf.1)).map (·.2)).head? = ren.lookup d
  | [], _ => by simp [List.lookup]
  | (a, b) :: ren, h => by
    by_cases ha : a ∈ defs
    · have : a = d := h (a, b) (List.mem_cons_self ..) ha
      subst this
      simp [List.filter, ha, List.lookup]
    · have hne : (d == a) = false := by
        simp only [beq_eq_false_iff_ne, ne_eq]; intro e; subst e; exact ha hd
      have hc : defs.contains a = false := by simpa using ha
      simp only [List.filter, hc, List.lookup, hne]
      exact filter_head_lookup defs d hd ren (fun tf htf => h tf (List.mem_cons_of_mem _ htf))

theorem storesOf_last (ren : Ren) (ins : Instr) (temps : List VReg) (d : VReg)
    (hk : ∀ tf ∈ ren, tf.1 ∈ temps) (hsd : spilledDefs temps ins = [d]) (hl : (ren.lookup d).isSome = true) :
    (storesOf ren ins).getLast? = some (rename ren d) := by
  have hdm : d ∈ spilledDefs temps ins := by rw [hsd]; simp
  simp only [spilledDefs, List.mem_filter, List.contains_eq_mem, decide_eq_true_eq] at hdm
  have hall : ∀ tf ∈ ren, tf.1 ∈ ins.defs → tf.1 = d := by
    intro tf htf hdef
    have : tf.1 ∈ spilledDefs temps ins := by
      simp only [spilledDefs, List.mem_filter, List.contains_eq_mem, decide_eq_true_eq]
      exact ⟨hdef, hk tf htf⟩
    rw [hsd] at this; simpa using this
  rw [storesOf, List.getLast?_reverse, filter_head_lookup ins.defs d hdm.1 ren hall]
  unfold rename
  cases e : ren.lookup d with
  | none => rw [e] at hl; cases hl
  | some f => rfl

theorem storesOf_nil (ren : Ren) (ins : Instr) (temps : List VReg)
    (hk : ∀ tf ∈ ren, tf.1 ∈ temps) (hsd : spilledDefs temps ins = []) : storesOf ren ins = [] := by
  simp only [storesOf, List.reverse_eq_nil_iff, List.map_eq_nil_iff, List.filter_eq_nil_iff,
    List.contains_eq_mem, decide_eq_true_eq]
  intro tf htf hdef
  have : tf.1 ∈ spilledDefs temps ins := by
    simp only [spilledDefs, List.mem_filter, List.contains_eq_mem, decide_eq_true_eq]
    exact ⟨hdef, hk tf htf⟩
  rw [hsd] at this; cases this

/-! ### the defs of the renamed instruction -/

theorem write_agree {Val : Type} (M : RegModel) (J : PReg → Val) (vals : Nat → Val) (ren : Ren)
    (temps fresh : List VReg) (hk : ∀ tf ∈ ren, tf.1 ∈ temps ∧ tf.2 ∈ fresh)
    (ht : ∀ t ∈ temps, M.fixed t = false) (hf : ∀ f ∈ fresh, M.fixed f = false)
    (r : VReg) (hrt : r ∉ temps) (hrf : r ∉ fresh) :
    ∀ (ds : List VReg) (k : Nat) (R1 R2 : VReg → Val),
      (∀ d ∈ ds, d ∈ temps → (ren.lookup d).isSome = true) →
      (R2 r = R1 r ∨ r ∈ ds) →
      writeV M J vals (ds.map (rename ren)) k R2 r = writeV M J vals ds k R1 r
  | [], _, _, _, _, h => by
    rcases h with h | h
    · simpa [writeV] using h
    · cases h
  | d :: rest, k, R1, R2, hocc, h => by
    simp only [List.map_cons, writeV]
    apply write_agree M J vals ren temps fresh hk ht hf r hrt hrf rest (k + 1)
    · exact fun x hx => hocc x (List.mem_cons_of_mem _ hx)
    · by_cases hrest : r ∈ rest
      · exact Or.inr hrest
      · left
        by_cases hrd : r = d
        · subst hrd
          rw [rename_not_temp ren temps (fun tf htf => (hk tf htf).1) r hrt]
          simp [writeRegV]
        · have hR : R2 r = R1 r := by
            rcases h with h | h
            · exact h
            · rcases List.mem_cons.mp h with e | e
              · exact absurd e hrd
              · exact absurd e hrest
          by_cases hdt : d ∈ temps
          · have hmem := rename_temp ren d (hocc d (List.mem_cons_self ..) hdt)
            have hd'f : rename ren d ∈ fresh := (hk _ hmem).2
            have hne' : r ≠ rename ren d := fun e => hrf (e ▸ hd'f)
            rw [writeRegV_nf M J R2 _ _ r hne' (Or.inr (hf _ hd'f)),
              writeRegV_nf M J R1 d _ r hrd (Or.inr (ht d hdt)), hR]
          · rw [rename_not_temp ren temps (fun tf htf => (hk tf htf).1) d hdt]
            simp [writeRegV, hrd, hR]

theorem write_spilled {Val : Type} (M : RegModel) (J : PReg → Val) (vals : Nat → Val) (ren : Ren)
    (temps fresh : List VReg) (hk : ∀ tf ∈ ren, tf.1 ∈ temps ∧ tf.2 ∈ fresh)
    (ht : ∀ t ∈ temps, M.fixed t = false) (hf : ∀ f ∈ fresh, M.fixed f = false)
    (d : VReg) (hd : d ∈ temps) (hd' : rename ren d ∈ fresh) :
    ∀ (ds : List VReg) (k : Nat) (R1 R2 : VReg → Val),
      (∀ x ∈ ds, x ∉ fresh) →
      ds.filter (fun x => temps.contains x) = [d] →
      writeV M J vals (ds.map (rename ren)) k R2 (rename ren d) = writeV M J vals ds k R1 d
  | [], _, _, _, _, h => by simp at h
  | x :: rest, k, R1, R2, hnf, h => by
    simp only [List.map_cons, writeV]
    by_cases hx : x ∈ temps
    · have hx' : temps.contains x = true := by simpa using hx
      simp only [List.filter, hx'] at h
      have hxd : x = d := by injection h
      have hrest : rest.filter (fun x => temps.contains x) = [] := by injection h
      subst hxd
      have hnot : ∀ e ∈ rest, e ∉ temps := by
        intro e he het
        have : e ∈ rest.filter (fun x => temps.contains x) := by
          simp only [List.mem_filter, List.contains_eq_mem, decide_eq_true_eq]; exact ⟨he, het⟩
        rw [hrest] at this; cases this
      have h1 : x ∉ rest := fun e => hnot x e hd
      have h2 : rename ren x ∉ rest.map (rename ren) := by
        intro e
        simp only [List.mem_map] at e
        obtain ⟨y, hy, ey⟩ := e
        rw [rename_not_temp ren temps (fun tf htf => (hk tf htf).1) y (hnot y hy)] at ey
        exact hnf y (List.mem_cons_of_mem _ hy) (ey ▸ hd')
      rw [writeV_other_nf M J vals _ (hf _ hd') _ _ _ h2, writeV_other_nf M J vals _ (ht _ hd) _ _ _ h1]
      simp [writeRegV]
    · have hx' : temps.contains x = false := by simpa using hx
      simp only [List.filter, hx'] at h
      exact write_spilled M J vals ren temps fresh hk ht hf d hd hd' rest (k + 1) _ _
        (fun y hy => hnf y (List.mem_cons_of_mem _ hy)) h

/-! ### choosing the successor -/

theorem pick_single (x k d : Nat) : pick [x] k d = x := by
  unfold pick
  cases k <;> simp

theorem pick_map (g : Nat → Nat) : ∀ (l : List Nat) (k d d' : Nat), l ≠ [] →
    pick (l.map g) k d' = g (pick l k d) := by
  intro l k d d' hl
  unfold pick
  rw [List.getElem?_map]
  cases h : l[k]? with
  | some x => simp
  | none =>
    cases l with
    | nil => exact absurd rfl hl
    | cons a t => simp

/-! ### the simulation -/

/-- matched states: the rewritten list is at the start of the code for the original
    instruction, same memory, every live register that is neither spilled nor fresh agrees,
    and the slot holds the value of every live temp of the spilled node -/
def SRel {Val σ : Type} (plan : Nat → Plan) (pre : Program) (C : SpillCtx) (live : Nat → List VReg)
    (s : VState Val σ) (t : SState Val σ) : Prop :=
  t.pc = offset plan pre s.pc ∧ t.st = s.st ∧
  (∀ r ∈ live s.pc, r ∉ C.temps → r ∉ C.fresh → t.regs r = s.regs r) ∧
  (∀ r ∈ live s.pc, r ∈ C.temps → t.slot = s.regs r)

theorem expand_get_load (pl : Plan) (ins : Instr) (j : Nat) (f : VReg) (h : (loadsOf pl.ren ins)[j]? = some f) :
    (expand pl ins)[j]? = some (.load f pl.lclob) := by
  have hj : j < (loadsOf pl.ren ins).length := by
    rcases Nat.lt_or_ge j (loadsOf pl.ren ins).length with h' | h'
    · exact h'
    · rw [List.getElem?_eq_none h'] at h; cases h
  simp only [expand, List.append_assoc]
  rw [List.getElem?_append_left (by simpa using hj), List.getElem?_map, h]; rfl

theorem expand_get_ins (pl : Plan) (ins : Instr) :
    (expand pl ins)[(loadsOf pl.ren ins).length]? = some (.ins (renInstr pl.ren ins)) := by
  simp only [expand, List.append_assoc]
  rw [List.getElem?_append_right (by simp)]
  simp

theorem expand_get_store (pl : Plan) (ins : Instr) (j : Nat) (f : VReg) (h : (storesOf pl.ren ins)[j]? = some f) :
    (expand pl ins)[(loadsOf pl.ren ins).length + 1 + j]? = some (.store f pl.sclob) := by
  simp only [expand]
  rw [List.getElem?_append_right (by simp)]
  simp only [List.length_append, List.length_map, List.length_cons, List.length_nil]
  have : (loadsOf pl.ren ins).length + 1 + j - ((loadsOf pl.ren ins).length + (0 + 1)) = j := by omega
  rw [this, List.getElem?_map, h]; rfl

theorem spill_step {Val σ : Type} (pre : Program) (post : List SInstr) (C : SpillCtx) (live : Nat → List VReg)
    (plan : Nat → Plan) (hc : SpillChecked pre post C live plan)
    (S : Sem Val σ) (Jp Js : Nat → PReg → Val) (s : VState Val σ) (t : SState Val σ)
    (hr : SRel plan pre C live s t) (ins : Instr) (hi : pre[s.pc]? = some ins) :
    ∃ m, SRel plan pre C live (vstep S C.model (Jp t.k) pre s) (srun S C.model Jp Js post m t) ∧
      (srun S C.model Jp Js post m t).k = t.k + 1 := by
  obtain ⟨hpc, hst, hregs, hslot⟩ := hr
  have hok := hc.instr s.pc ins hi
  have hkeys : ∀ tf ∈ (plan s.pc).ren, tf.1 ∈ C.temps := fun tf h => (hok.ren_ok tf h).1
  have hvals : ∀ tf ∈ (plan s.pc).ren, tf.2 ∈ C.fresh := fun tf h => (hok.ren_ok tf h).2
  have hfnf : ∀ f ∈ C.fresh, C.model.fixed f = false := fun f h => (hc.fresh_ok f h).2
  -- the code of this instruction in the rewritten list
  have hq : ∀ j, j < (expand (plan s.pc) ins).length →
      post[t.pc + j]? = (expand (plan s.pc) ins)[j]? := by
    intro j hj
    rw [hc.shape, hpc]; exact post_get plan pre s.pc ins hi j hj
  have hlen := expand_length (plan s.pc) ins
  -- phase 1: the loads
  have hLf : ∀ f ∈ loadsOf (plan s.pc).ren ins, C.model.fixed f = false :=
    fun f h => hfnf f (loadsOf_fresh _ _ _ hvals f h)
  have h1 := srun_loads S C.model Jp Js post (plan s.pc).lclob (loadsOf (plan s.pc).ren ins) t (by
    intro j f hjf
    have hj : j < (loadsOf (plan s.pc).ren ins).length := by
      rcases Nat.lt_or_ge j (loadsOf (plan s.pc).ren ins).length with h' | h'
      · exact h'
      · rw [List.getElem?_eq_none h'] at hjf; cases hjf
    rw [hq j (by omega)]; exact expand_get_load _ _ j f hjf)
  -- registers after the loads
  have hkeep : ∀ r ∈ live s.pc, r ∉ C.temps → r ∉ C.fresh →
      afterLoads C.model (Js t.k) t.slot (plan s.pc).lclob (loadsOf (plan s.pc).ren ins) t.regs r = s.regs r := by
    intro r hr hrt hrf
    rw [← hregs r hr hrt hrf]
    by_cases hL : loadsOf (plan s.pc).ren ins = []
    · rw [hL]; rfl
    · apply afterLoads_other
      · exact fun z hz => (hok.lclob_ok hL z hz).2 r hr
      · exact fun hmem => hrf (loadsOf_fresh _ _ _ hvals r hmem)
      · exact hLf
  have hargs : (renInstr (plan s.pc).ren ins).uses.map
      (afterLoads C.model (Js t.k) t.slot (plan s.pc).lclob (loadsOf (plan s.pc).ren ins) t.regs)
      = ins.uses.map s.regs := by
    simp only [renInstr, List.map_map]
    apply List.map_congr_left
    intro u hu
    have hul := hok.uses_live u hu
    have hocc := hok.occ_ok u (Or.inl hu)
    simp only [Function.comp]
    by_cases hut : u ∈ C.temps
    · have hmem := mem_loadsOf (plan s.pc).ren ins u hu (hocc.1 hut)
      have hL : loadsOf (plan s.pc).ren ins ≠ [] := fun e => by rw [e] at hmem; cases hmem
      rw [afterLoads_fresh C.model (Js t.k) t.slot (plan s.pc).lclob _ (hLf _ hmem)
        (fun z hz => (hok.lclob_ok hL z hz).1) _ _ (Or.inr hmem)]
      exact hslot u hul hut
    · rw [rename_not_temp _ _ hkeys u hut]
      exact hkeep u hul hut hocc.2
  -- phase 2: the instruction itself
  have hins : post[t.pc + (loadsOf (plan s.pc).ren ins).length]? = some (.ins (renInstr (plan s.pc).ren ins)) := by
    rw [hq _ (by omega)]; exact expand_get_ins _ _
  -- successor
  have hnext : pick (succsL (post.map SInstr.label) (t.pc + (loadsOf (plan s.pc).ren ins).length) ins.jumps)
        (S.br ins.sem (ins.uses.map s.regs) s.st) (t.pc + (loadsOf (plan s.pc).ren ins).length + 1)
      + (storesOf (plan s.pc).ren ins).length
      = offset plan pre (nextPc S pre s.pc ins (ins.uses.map s.regs) s.st) := by
    unfold nextPc succs succsL
    cases hj : ins.jumps.isEmpty with
    | true =>
      simp only [if_true, pick_single]
      rw [offset_succ plan pre s.pc ins hi, hlen, hpc]; omega
    | false =>
      simp only [Bool.false_eq_true, if_false]
      have hne : ins.jumps ≠ [] := (isEmpty_false_ne _).mp hj
      rw [hok.jump_ok hj]
      have hfl : ∀ l, findLabelL l (post.map SInstr.label) 0
          = offset plan pre (findLabelL l (pre.map Instr.label) 0) := by
        intro l
        rw [hc.shape, findLabel_expand plan l pre 0 0 (by
          intro k i2 hk hl
          have := (hc.instr k i2 hk).label_ok hl
          simpa using this)]
        simp [offset]
      have : ins.jumps.map (fun l => findLabelL l (post.map SInstr.label) 0)
          = (ins.jumps.map (fun l => findLabelL l (pre.map Instr.label) 0)).map (offset plan pre) := by
        rw [List.map_map]; apply List.map_congr_left; intro l _; exact hfl l
      rw [this, pick_map (offset plan pre) _ _ (s.pc + 1) _ (by simpa using hne)]
      simp
  -- the three phases chained
  refine ⟨(loadsOf (plan s.pc).ren ins).length + (1 + (storesOf (plan s.pc).ren ins).length), ?_⟩
  rw [srun_add, h1, srun_add]
  simp only [srun]
  have hstep : sstep S C.model Jp Js post
      { t with pc := t.pc + (loadsOf (plan s.pc).ren ins).length,
               regs := afterLoads C.model (Js t.k) t.slot (plan s.pc).lclob (loadsOf (plan s.pc).ren ins) t.regs } =
      { pc := pick (succsL (post.map SInstr.label) (t.pc + (loadsOf (plan s.pc).ren ins).length) ins.jumps)
                (S.br ins.sem (ins.uses.map s.regs) s.st) (t.pc + (loadsOf (plan s.pc).ren ins).length + 1)
        regs := writeV C.model (Jp t.k) (defVal S ins (ins.uses.map s.regs) s.st)
                  (ins.defs.map (rename (plan s.pc).ren)) 0
                  (ins.clobbers.foldl (havocV C.model (Jp t.k))
                    (afterLoads C.model (Js t.k) t.slot (plan s.pc).lclob (loadsOf (plan s.pc).ren ins) t.regs))
        st := newSt S ins (ins.uses.map s.regs) s.st
        slot := t.slot
        k := t.k + 1 } := by
    simp only [sstep, hins, hargs, hst]
    rfl
  rw [hstep]
  -- phase 3: the stores
  have h3 := srun_stores S C.model Jp Js post (plan s.pc).sclob (storesOf (plan s.pc).ren ins)
    { pc := pick (succsL (post.map SInstr.label) (t.pc + (loadsOf (plan s.pc).ren ins).length) ins.jumps)
              (S.br ins.sem (ins.uses.map s.regs) s.st) (t.pc + (loadsOf (plan s.pc).ren ins).length + 1)
      regs := writeV C.model (Jp t.k) (defVal S ins (ins.uses.map s.regs) s.st)
                (ins.defs.map (rename (plan s.pc).ren)) 0
                (ins.clobbers.foldl (havocV C.model (Jp t.k))
                  (afterLoads C.model (Js t.k) t.slot (plan s.pc).lclob (loadsOf (plan s.pc).ren ins) t.regs))
      st := newSt S ins (ins.uses.map s.regs) s.st
      slot := t.slot
      k := t.k + 1 } (by
    intro j f hjf
    have hSne : storesOf (plan s.pc).ren ins ≠ [] := fun e => by rw [e] at hjf; simp at hjf
    have hje : ins.jumps.isEmpty = true := by
      cases hj : ins.jumps.isEmpty with
      | true => rfl
      | false => exact absurd (hok.jump_ok hj) hSne
    have hj : j < (storesOf (plan s.pc).ren ins).length := by
      rcases Nat.lt_or_ge j (storesOf (plan s.pc).ren ins).length with h' | h'
      · exact h'
      · rw [List.getElem?_eq_none h'] at hjf; cases hjf
    simp only [succsL, hje, if_true, pick_single]
    have e : t.pc + (loadsOf (plan s.pc).ren ins).length + 1 + j
        = t.pc + ((loadsOf (plan s.pc).ren ins).length + 1 + j) := by omega
    rw [e, hq _ (by omega)]
    exact expand_get_store _ _ j f hjf)
  rw [h3]
  simp only []
  -- the relation at the successor
  unfold vstep
  rw [hi]
  simp only []
  have hSf : ∀ f ∈ storesOf (plan s.pc).ren ins, C.model.fixed f = false :=
    fun f h => hfnf f (storesOf_fresh _ _ _ hvals f h)
  refine ⟨⟨hnext, rfl, ?_, ?_⟩, trivial⟩
  · -- ordinary registers
    intro r hr hrt hrf
    dsimp only at hr ⊢
    generalize hjn : nextPc S pre s.pc ins (ins.uses.map s.regs) s.st = jn at hr
    have hjm : jn ∈ succs pre s.pc ins := by rw [← hjn]; exact nextPc_mem ..
    have hun : ∀ z ∈ (plan s.pc).sclob, storesOf (plan s.pc).ren ins ≠ [] → touches C.model z r = false :=
      fun z hz hne => (hok.sclob_ok hne z hz).2 jn hjm r hr
    have hreg : (afterStores C.model (Js (t.k + 1)) (plan s.pc).sclob (storesOf (plan s.pc).ren ins)
        (writeV C.model (Jp t.k) (defVal S ins (ins.uses.map s.regs) s.st)
          (ins.defs.map (rename (plan s.pc).ren)) 0
          (ins.clobbers.foldl (havocV C.model (Jp t.k))
            (afterLoads C.model (Js t.k) t.slot (plan s.pc).lclob (loadsOf (plan s.pc).ren ins) t.regs))) t.slot).1 r
        = writeV C.model (Jp t.k) (defVal S ins (ins.uses.map s.regs) s.st)
          (ins.defs.map (rename (plan s.pc).ren)) 0
          (ins.clobbers.foldl (havocV C.model (Jp t.k))
            (afterLoads C.model (Js t.k) t.slot (plan s.pc).lclob (loadsOf (plan s.pc).ren ins) t.regs)) r := by
      by_cases hS : storesOf (plan s.pc).ren ins = []
      · rw [hS]; rfl
      · exact afterStores_regs C.model _ _ r (fun z hz => hun z hz hS) _ _ _
    rw [hreg]
    apply write_agree C.model (Jp t.k) _ (plan s.pc).ren C.temps C.fresh hok.ren_ok hc.temps_ok hfnf r hrt hrf
    · exact fun d hd hdt => (hok.occ_ok d (Or.inr hd)).1 hdt
    · rcases hok.out_live jn hjm r hr with h | h
      · exact Or.inr h
      · left
        apply foldl_havocV_congr
        exact hkeep r h hrt hrf
  · -- the slot
    intro r hr hrt
    dsimp only at hr ⊢
    generalize hjn : nextPc S pre s.pc ins (ins.uses.map s.regs) s.st = jn at hr
    have hjm : jn ∈ succs pre s.pc ins := by rw [← hjn]; exact nextPc_mem ..
    have hrnf : C.model.fixed r = false := hc.temps_ok r hrt
    rcases hok.slot_ok with hsd | ⟨d, hsd, hcond⟩
    · -- no temp of the node is defined here: slot and r unchanged
      rw [storesOf_nil _ _ _ hkeys hsd]
      simp only [afterStores]
      have hrd : r ∉ ins.defs := by
        intro hd
        have : r ∈ spilledDefs C.temps ins := by
          simp only [spilledDefs, List.mem_filter, List.contains_eq_mem, decide_eq_true_eq]; exact ⟨hd, hrt⟩
        rw [hsd] at this; cases this
      have hrl : r ∈ live s.pc := by
        rcases hok.out_live jn hjm r hr with h | h
        · exact absurd h hrd
        · exact h
      rw [writeV_other_nf C.model _ _ r hrnf _ _ _ hrd, foldl_havocV_nf C.model _ r hrnf]
      exact hslot r hrl hrt
    · -- temp d is defined here; the slot receives its new value
      have hdm : d ∈ spilledDefs C.temps ins := by rw [hsd]; simp
      simp only [spilledDefs, List.mem_filter, List.contains_eq_mem, decide_eq_true_eq] at hdm
      have hlk := (hok.occ_ok d (Or.inr hdm.1)).1 hdm.2
      have hd'f : rename (plan s.pc).ren d ∈ C.fresh := hvals _ (rename_temp _ d hlk)
      have hlast := storesOf_last (plan s.pc).ren ins C.temps d hkeys hsd hlk
      have hSne : storesOf (plan s.pc).ren ins ≠ [] := fun e => by rw [e] at hlast; simp at hlast
      rw [afterStores_slot C.model _ _ (fun z hz => (hok.sclob_ok hSne z hz).1) _ _ _ hSf, hlast]
      simp only []
      rw [write_spilled C.model (Jp t.k) _ (plan s.pc).ren C.temps C.fresh hok.ren_ok hc.temps_ok hfnf d hdm.2 hd'f
        ins.defs 0 (ins.clobbers.foldl (havocV C.model (Jp t.k)) s.regs) _
        (fun x hx => (hok.occ_ok x (Or.inr hx)).2) hsd]
      rcases hcond jn hjm r hr hrt with e | ⟨hmv, hu⟩
      · rw [e]
      · -- r is the source of a move into d
        obtain ⟨sv, dd, hu', hd', _, hcl⟩ := hok.move_wf hmv
        have hsr : sv = r := by rw [hu'] at hu; simpa using hu
        subst hsr
        have hdd : dd = d := by
          have : d ∈ ins.defs := hdm.1
          rw [hd'] at this; simp at this; exact this.symm
        subst hdd
        by_cases hrd : sv = dd
        · rw [hrd]
        · have hrnd : sv ∉ ins.defs := by rw [hd']; simpa using hrd
          rw [writeV_other_nf C.model _ _ sv hrnf _ _ _ hrnd, foldl_havocV_nf C.model _ sv hrnf]
          simp [hd', hu', hcl, writeV, writeRegV, defVal, hmv]

theorem vrunF_halted {Val σ : Type} (S : Sem Val σ) (M : RegModel) (Jp : Nat → PReg → Val) (p : Program) :
    ∀ (n k : Nat) (s : VState Val σ), p[s.pc]? = none → vrunF S M Jp p n k s = s
  | 0, _, _, _ => rfl
  | n + 1, k, s, h => by
    have : vstep S M (Jp k) p s = s := by simp [vstep, h]
    rw [vrunF, this]
    exact vrunF_halted S M Jp p n (k + 1) s h

theorem spill_run {Val σ : Type} (pre : Program) (post : List SInstr) (C : SpillCtx) (live : Nat → List VReg)
    (plan : Nat → Plan) (hc : SpillChecked pre post C live plan)
    (S : Sem Val σ) (Jp Js : Nat → PReg → Val) :
    ∀ (n : Nat) (s : VState Val σ) (t : SState Val σ), SRel plan pre C live s t →
      ∃ m, SRel plan pre C live (vrunF S C.model Jp pre n t.k s) (srun S C.model Jp Js post m t)
  | 0, _, _, h => ⟨0, h⟩
  | n + 1, s, t, h => by
    cases hi : pre[s.pc]? with
    | none =>
      rw [vrunF_halted S C.model Jp pre (n + 1) t.k s hi]
      exact ⟨0, h⟩
    | some ins =>
      obtain ⟨m1, hrel, hk⟩ := spill_step pre post C live plan hc S Jp Js s t h ins hi
      obtain ⟨m2, h2⟩ := spill_run pre post C live plan hc S Jp Js n _ _ hrel
      rw [hk] at h2
      exact ⟨m1 + m2, by rw [srun_add, vrunF]; exact h2⟩

end Proofs.RASpill
