import PpciVerif.Model.CBridge
import Mathlib.Tactic.Ring
/-!
Layout lemmas for C01: `Model.CLayout` (the bit-counting loop of `CContext.layout_struct`,
`required_padding`) computes the System V layout `Spec.CLayout` for every object type.
-/
set_option linter.unusedSimpArgs false
set_option linter.unusedVariables false
namespace Proofs.CLayout
open Model.CLayout Model.CBridge
open Spec.CLayout (roundUp)

/-! ### `required_padding` is rounding up -/

theorem roundUp_eq (c a : Nat) (ha : 0 < a) : roundUp c a = if c % a = 0 then c else c + (a - c % a) := by
  unfold roundUp
  have h := Nat.div_add_mod c a
  have hr := Nat.mod_lt c ha
  generalize c / a = q at *
  generalize c % a = r at *
  subst h
  by_cases hr0 : r = 0
  · subst hr0
    simp only [Nat.add_zero, if_true]
    rw [Nat.mul_add_div ha, Nat.div_eq_of_lt (by omega), Nat.add_zero, Nat.mul_comm]
  · simp only [hr0, if_false]
    have h1 : (a * q + r + (a - 1)) = a * q + (r + (a - 1)) := by omega
    rw [h1, Nat.mul_add_div ha]
    have h2 : (r + (a - 1)) / a = 1 := Nat.div_eq_of_lt_le (by omega) (by omega)
    rw [h2, Nat.add_mul, Nat.one_mul, Nat.mul_comm q a]
    omega

/-- bytes: `c + required_padding(c, a)` -/
theorem pad_bytes (c a : Nat) (ha : 0 < a) : c + requiredPadding c a = roundUp c a := by
  rw [roundUp_eq c a ha]
  unfold requiredPadding
  by_cases h : c % a = 0 <;> simp [h]

/-- bits: `8c + required_padding(8c, 8a)` -/
theorem pad_bits (c a : Nat) (ha : 0 < a) : 8 * c + requiredPadding (8 * c) (a * 8) = 8 * roundUp c a := by
  rw [roundUp_eq c a ha]
  unfold requiredPadding
  have hm : (8 * c) % (a * 8) = 8 * (c % a) := by rw [Nat.mul_comm a 8, Nat.mul_mod_mul_left]
  have hr := Nat.mod_lt c ha
  simp only [hm]
  by_cases h : c % a = 0
  · simp [h]
  · have h8 : 8 * (c % a) ≠ 0 := by omega
    simp only [h, h8, ne_eq, not_false_eq_true, if_true, if_false]
    omega

theorem pad_bits' (c a : Nat) (ha : 0 < a) : 8 * c + requiredPadding (8 * c) (8 * a) = 8 * roundUp c a := by
  rw [Nat.mul_comm 8 a]; exact pad_bits c a ha

/-! ### scalars -/

theorem prim_size (p : Prim) : p.size = (primS p).size := by cases p <;> rfl
theorem prim_align (p : Prim) : p.align = (primS p).align := by cases p <;> rfl
theorem prim_align_pos (p : Prim) : 0 < p.align := by cases p <;> decide

/-! ### all object types -/

/-- what holds for a member list: alignment/size maxima, the struct loop and the recorded offsets -/
structure FieldsOK (fs : Fields) : Prop where
  maxAlign : (if fs.isEmpty then 1 else Model.CLayout.maxAlign fs) = Spec.CLayout.maxAlign (fieldsS fs)
  maxAlign_pos : 0 < Spec.CLayout.maxAlign (fieldsS fs)
  maxAlign_le : Model.CLayout.maxAlign fs ≤ Spec.CLayout.maxAlign (fieldsS fs)
  maxSize : Model.CLayout.maxSize fs = Spec.CLayout.maxSize (fieldsS fs)
  bits : ∀ c, structBits fs (8 * c) = 8 * Spec.CLayout.structEnd (fieldsS fs) c
  offs : ∀ c, (structBitOffsets fs (8 * c)).map (· / 8) = Spec.CLayout.structOffsets (fieldsS fs) c
  uoffs : (unionBitOffsets fs).map (· / 8) = Spec.CLayout.unionOffsets (fieldsS fs)

structure TyOK (t : LTy) : Prop where
  size : sizeof t = Spec.CLayout.sizeOf (ltyS t)
  align : alignment t = Spec.CLayout.alignOf (ltyS t)
  align_pos : 0 < alignment t

mutual
  theorem ty_ok : ∀ t : LTy, TyOK t
    | .prim p => ⟨by simp only [sizeof, ltyS, Spec.CLayout.sizeOf, prim_size],
                  by simp only [alignment, ltyS, Spec.CLayout.alignOf, prim_align],
                  by simp only [alignment]; exact prim_align_pos p⟩
    | .arr e n => by
      have he := ty_ok e
      exact ⟨by simp only [sizeof, ltyS, Spec.CLayout.sizeOf, he.size, Nat.mul_comm],
             by simp only [alignment, ltyS, Spec.CLayout.alignOf, he.align],
             by simp only [alignment]; exact he.align_pos⟩
    | .struct fs => by
      have hf := fields_ok fs
      refine ⟨?_, ?_, ?_⟩
      · simp only [sizeof, ltyS, Spec.CLayout.sizeOf, hf.maxAlign]
        have := hf.bits 0
        simp only [Nat.mul_zero] at this
        rw [this, pad_bits' _ _ hf.maxAlign_pos, Nat.mul_div_cancel_left _ (by decide)]
      · simp only [alignment, ltyS, Spec.CLayout.alignOf, hf.maxAlign]
      · simp only [alignment, hf.maxAlign]; exact hf.maxAlign_pos
    | .union fs => by
      have hf := fields_ok fs
      refine ⟨?_, ?_, ?_⟩
      · simp only [sizeof, ltyS, Spec.CLayout.sizeOf, hf.maxAlign, hf.maxSize]
        cases fs with
        | nil => simp [Fields.isEmpty, fieldsS, Spec.CLayout.maxSize, Spec.CLayout.maxAlign, roundUp]
        | cons t r =>
          simp only [Fields.isEmpty, Bool.false_eq_true, if_false]
          exact pad_bytes _ _ hf.maxAlign_pos
      · simp only [alignment, ltyS, Spec.CLayout.alignOf, hf.maxAlign]
      · simp only [alignment, hf.maxAlign]; exact hf.maxAlign_pos
  theorem fields_ok : ∀ fs : Fields, FieldsOK fs
    | .nil => ⟨by simp [Fields.isEmpty, fieldsS, Spec.CLayout.maxAlign],
               by simp [fieldsS, Spec.CLayout.maxAlign],
               by simp [fieldsS, Model.CLayout.maxAlign],
               by simp [fieldsS, Model.CLayout.maxSize, Spec.CLayout.maxSize],
               fun c => by simp [structBits, fieldsS, Spec.CLayout.structEnd],
               fun c => by simp [structBitOffsets, fieldsS, Spec.CLayout.structOffsets],
               by simp [unionBitOffsets, fieldsS, Spec.CLayout.unionOffsets, Spec.CLayout.Fields.length]⟩
    | .cons t r => by
      have ht := ty_ok t
      have hr := fields_ok r
      have hapos : 0 < Spec.CLayout.alignOf (ltyS t) := ht.align ▸ ht.align_pos
      refine ⟨?_, ?_, ?_, ?_, ?_, ?_, ?_⟩
      · simp only [Fields.isEmpty, Bool.false_eq_true, if_false, Model.CLayout.maxAlign, fieldsS,
          Spec.CLayout.maxAlign, ht.align]
        have h1 := hr.maxAlign_le
        have h2 := hr.maxAlign_pos
        have h3 := hr.maxAlign
        cases r with
        | nil =>
          simp only [Model.CLayout.maxAlign, fieldsS, Spec.CLayout.maxAlign] at *
          omega
        | cons t' r' =>
          simp only [Fields.isEmpty, Bool.false_eq_true, if_false] at h3
          rw [h3]
      · simp only [fieldsS, Spec.CLayout.maxAlign]; omega
      · simp only [Model.CLayout.maxAlign, fieldsS, Spec.CLayout.maxAlign, ht.align]
        have := hr.maxAlign_le
        omega
      · simp only [Model.CLayout.maxSize, fieldsS, Spec.CLayout.maxSize, ht.size, hr.maxSize]
      · intro c
        simp only [structBits, fieldsS, Spec.CLayout.structEnd, ht.align, ht.size]
        rw [pad_bits _ _ hapos]
        have : 8 * roundUp c (Spec.CLayout.alignOf (ltyS t)) + Spec.CLayout.sizeOf (ltyS t) * 8 =
            8 * (roundUp c (Spec.CLayout.alignOf (ltyS t)) + Spec.CLayout.sizeOf (ltyS t)) := by ring
        rw [this, hr.bits]
      · intro c
        simp only [structBitOffsets, fieldsS, Spec.CLayout.structOffsets, ht.align, ht.size, List.map_cons]
        rw [pad_bits _ _ hapos, Nat.mul_div_cancel_left _ (by decide)]
        have : 8 * roundUp c (Spec.CLayout.alignOf (ltyS t)) + Spec.CLayout.sizeOf (ltyS t) * 8 =
            8 * (roundUp c (Spec.CLayout.alignOf (ltyS t)) + Spec.CLayout.sizeOf (ltyS t)) := by ring
        rw [this, hr.offs]
      · have hu := hr.uoffs
        simp only [unionBitOffsets, fieldsS, Spec.CLayout.unionOffsets, Spec.CLayout.Fields.length, List.map_cons,
          List.replicate_succ] at hu ⊢
        have h0 : (0 + requiredPadding 0 (alignment t * 8)) / 8 = 0 := by simp [requiredPadding]
        rw [h0, hu]
end

/-- member offsets -/
theorem offsets_ok (t : LTy) : offsets t = Spec.CLayout.offsetsOf (ltyS t) := by
  cases t with
  | prim p => simp [offsets, ltyS, Spec.CLayout.offsetsOf]
  | arr e n => simp [offsets, ltyS, Spec.CLayout.offsetsOf]
  | struct fs =>
    have := (fields_ok fs).offs 0
    simp only [Nat.mul_zero] at this
    simp only [offsets, ltyS, Spec.CLayout.offsetsOf, this]
  | union fs => simp only [offsets, ltyS, Spec.CLayout.offsetsOf, (fields_ok fs).uoffs]

end Proofs.CLayout
