import PpciVerif.Model.Py2Ir
/-!
# Proofs.Py2IrCFG — block-structure invariants of `Model.Py2Ir.genStmt` (no Mathlib)

The builder is an append-only event log.  `SegP A nb nv nb' nv' seg` describes the events `seg`
appended by one call that started with `nb` blocks / `nv` values and ended with `nb'` / `nv'`:
every jump target is a block created by the call or one of the externally given targets `A`;
every phi sits in a block `b` created by the call and its inputs (`incoming` events) come from exactly
the blocks whose terminators target that block, in the same order: one block in front of the loop and
block `b + 2` (the increment block that `gen_for` creates right after the test and body blocks); every `incoming` event belongs
to a phi created by the call.
-/
namespace Proofs.Py2IrCFG
open Model.Py2Ir

/-- blocks whose (terminator) instruction targets `t`, in emission order -/
def srcs (L : List Event) (t : Nat) : List Nat :=
  L.filterMap fun e => match e with
    | .emit b i => if t ∈ i.targets then some b else none
    | _ => none

/-- predecessor blocks registered for phi `d` with `set_incoming`, in order -/
def phiIns (L : List Event) (d : Nat) : List Nat :=
  L.filterMap fun e => match e with
    | .incoming p b _ => if p = d then some b else none
    | _ => none

theorem srcs_append (a b : List Event) (t : Nat) : srcs (a ++ b) t = srcs a t ++ srcs b t := by
  simp [srcs, List.filterMap_append]

theorem phiIns_append (a b : List Event) (d : Nat) : phiIns (a ++ b) d = phiIns a d ++ phiIns b d := by
  simp [phiIns, List.filterMap_append]

def loopTargets (loops : List (Nat × Nat)) : List Nat := loops.flatMap fun (c, b) => [c, b]

structure SegP (A : List Nat) (nb nv nb' nv' : Nat) (seg : List Event) : Prop where
  nb_le : nb ≤ nb'
  nv_le : nv ≤ nv'
  tg : ∀ b i, Event.emit b i ∈ seg → ∀ t ∈ i.targets, (nb ≤ t ∧ t < nb') ∨ t ∈ A
  ph : ∀ b d ty, Event.emit b (.phi d ty) ∈ seg →
        nb ≤ b ∧ b < nb' ∧ nv ≤ d ∧ d < nv' ∧ ∃ e, srcs seg b = [e, b + 2] ∧ phiIns seg d = [e, b + 2]
  inc : ∀ p b v, Event.incoming p b v ∈ seg → nv ≤ p ∧ p < nv'

/-- no jump of the segment targets `t` -/
theorem SegP.srcs_nil {A nb nv nb' nv' seg} (h : SegP A nb nv nb' nv' seg) (t : Nat)
    (h1 : ¬ (nb ≤ t ∧ t < nb')) (h2 : t ∉ A) : srcs seg t = [] := by
  simp only [srcs, List.filterMap_eq_nil_iff]
  intro e he
  cases e with
  | emit b i =>
    simp only
    split
    · rename_i ht
      rcases h.tg b i he t ht with h3 | h3
      · exact absurd h3 h1
      · exact absurd h3 h2
    · rfl
  | hoist a d => rfl
  | incoming p b v => rfl

/-- no `incoming` event of the segment belongs to phi `d` -/
theorem SegP.phiIns_nil {A nb nv nb' nv' seg} (h : SegP A nb nv nb' nv' seg) (d : Nat)
    (h1 : ¬ (nv ≤ d ∧ d < nv')) : phiIns seg d = [] := by
  simp only [phiIns, List.filterMap_eq_nil_iff]
  intro e he
  cases e with
  | emit b i => rfl
  | hoist a d => rfl
  | incoming p b v =>
    simp only
    split
    · rename_i hp
      subst hp
      exact absurd (h.inc p b v he) h1
    · rfl

theorem SegP.nil (A : List Nat) (nb nv : Nat) : SegP A nb nv nb nv [] :=
  ⟨Nat.le_refl _, Nat.le_refl _, by simp, by simp, by simp⟩

/-- widen the ranges and move external targets into the (wider) fresh range -/
theorem SegP.weaken {A A' nb nv nb' nv' nb0 nv0 nb1 nv1 seg} (h : SegP A nb nv nb' nv' seg)
    (h1 : nb0 ≤ nb) (h2 : nv0 ≤ nv) (h3 : nb' ≤ nb1) (h4 : nv' ≤ nv1)
    (hA : ∀ t ∈ A, t ∈ A' ∨ (nb0 ≤ t ∧ t < nb1)) : SegP A' nb0 nv0 nb1 nv1 seg := by
  refine ⟨by have := h.nb_le; omega, by have := h.nv_le; omega, ?_, ?_, ?_⟩
  · intro b i he t ht
    rcases h.tg b i he t ht with h5 | h5
    · left; omega
    · rcases hA t h5 with h6 | h6
      · right; exact h6
      · left; exact h6
  · intro b d ty he
    obtain ⟨a1, a2, a3, a4, a5⟩ := h.ph b d ty he
    exact ⟨by omega, by omega, by omega, by omega, a5⟩
  · intro p b v he
    have := h.inc p b v he
    omega

/-- sequential composition; the external targets are older than both segments -/
theorem SegP.append {A nb nv nb1 nv1 nb2 nv2 s1 s2} (h1 : SegP A nb nv nb1 nv1 s1) (h2 : SegP A nb1 nv1 nb2 nv2 s2)
    (hA : ∀ t ∈ A, t < nb) : SegP A nb nv nb2 nv2 (s1 ++ s2) := by
  have a1 := h1.nb_le; have a2 := h1.nv_le; have a3 := h2.nb_le; have a4 := h2.nv_le
  refine ⟨by omega, by omega, ?_, ?_, ?_⟩
  · intro b i he t ht
    rcases List.mem_append.1 he with he | he
    · rcases h1.tg b i he t ht with h | h
      · left; omega
      · right; exact h
    · rcases h2.tg b i he t ht with h | h
      · left; omega
      · right; exact h
  · intro b d ty he
    rw [srcs_append, phiIns_append]
    rcases List.mem_append.1 he with he | he
    · obtain ⟨b1, b2, b3, b4, b5⟩ := h1.ph b d ty he
      have e1 : srcs s2 b = [] := h2.srcs_nil b (by omega) (fun hb => by have := hA b hb; omega)
      have e2 : phiIns s2 d = [] := h2.phiIns_nil d (by omega)
      obtain ⟨e, b5, b6⟩ := b5
      rw [e1, e2, b5, b6]
      exact ⟨by omega, by omega, by omega, by omega, e, by simp, by simp⟩
    · obtain ⟨b1, b2, b3, b4, b5⟩ := h2.ph b d ty he
      have e1 : srcs s1 b = [] := h1.srcs_nil b (by omega) (fun hb => by have := hA b hb; omega)
      have e2 : phiIns s1 d = [] := h1.phiIns_nil d (by omega)
      obtain ⟨e, b5, b6⟩ := b5
      rw [e1, e2, b5, b6]
      exact ⟨by omega, by omega, by omega, by omega, e, by simp, by simp⟩
  · intro p b v he
    rcases List.mem_append.1 he with he | he
    · have := h1.inc p b v he; omega
    · have := h2.inc p b v he; omega

/-- events that neither jump, nor define a phi, nor register a phi input -/
def PlainEv : Event → Prop
  | .emit _ i => i.targets = [] ∧ ∀ d ty, i ≠ .phi d ty
  | .hoist _ _ => True
  | .incoming .. => False

theorem SegP.plain (A : List Nat) (nb nv nv' : Nat) (seg : List Event) (hnv : nv ≤ nv')
    (h : ∀ e ∈ seg, PlainEv e) : SegP A nb nv nb nv' seg := by
  refine ⟨Nat.le_refl _, hnv, ?_, ?_, ?_⟩
  · intro b i he t ht
    have := (h _ he).1
    rw [this] at ht; simp at ht
  · intro b d ty he
    exact absurd rfl ((h _ he).2 d ty)
  · intro p b v he
    exact absurd (h _ he) (by simp [PlainEv])

/-- one terminator whose targets are external -/
theorem SegP.jump (A : List Nat) (nb nv : Nat) (b : Nat) (i : Instr) (hi : ∀ t ∈ i.targets, t ∈ A)
    (hp : ∀ d ty, i ≠ .phi d ty) : SegP A nb nv nb nv [.emit b i] := by
  refine ⟨Nat.le_refl _, Nat.le_refl _, ?_, ?_, ?_⟩
  · intro b' i' he t ht
    simp at he; obtain ⟨_, rfl⟩ := he
    right; exact hi t ht
  · intro b' d ty he
    simp at he; exact absurd he.2.symm (hp d ty)
  · intro p b' v he
    simp at he


/-- the for-loop skeleton around an already generated body segment:
    `test = nb`, `body = nb+1`, `increment = nb+2`, `final = nb+3`, phi `= nv`. -/
theorem SegP.forLoop (L : List Nat) (nb nv entryB : Nat) (iInit n2 addr : Val) (segB : List Event)
    (nbB nvB c14 : Nat)
    (hB : SegP ([nb+2, nb+3] ++ L) (nb+4) (nv+1) nbB nvB segB) (hL : ∀ t ∈ L, t < nb) :
    SegP L nb nv nbB (nvB+2)
      ([Event.emit entryB (.jump nb), .emit nb (.phi nv .i64), .incoming nv entryB iInit,
        .emit nb (.cjump (.tmp nv) "<" n2 (nb+1) (nb+3)), .emit (nb+1) (.store (.tmp nv) addr)]
       ++ segB ++
       [Event.emit c14 (.jump (nb+2)), .emit (nb+2) (.const nvB .i64 1),
        .emit (nb+2) (.binop (nvB+1) .i64 "+" (.tmp nv) (.tmp nvB)), .incoming nv (nb+2) (.tmp (nvB+1)),
        .emit (nb+2) (.jump nb)]) := by
  have a1 := hB.nb_le; have a2 := hB.nv_le
  have mem_own : ∀ t, t ∈ [nb+2, nb+3] ++ L → t = nb + 2 ∨ t = nb + 3 ∨ t ∈ L := by
    intro t h
    simpa using h
  have hsB : srcs segB nb = [] := hB.srcs_nil nb (by omega) (by
    intro h; rcases mem_own _ h with h | h | h
    · omega
    · omega
    · have := hL _ h; omega)
  have hpB : phiIns segB nv = [] := hB.phiIns_nil nv (by omega)
  refine ⟨by omega, by omega, ?_, ?_, ?_⟩
  · intro b i he t ht
    simp only [List.mem_append, List.mem_cons, List.not_mem_nil, or_false, Event.emit.injEq, reduceCtorEq, false_or,
      or_false] at he
    rcases he with (he | he) | he
    · rcases he with ⟨_, rfl⟩ | ⟨_, rfl⟩ | ⟨_, rfl⟩ | ⟨_, rfl⟩ <;> simp [Instr.targets] at ht <;> left <;> omega
    · rcases hB.tg b i he t ht with h | h
      · left; omega
      · rcases mem_own _ h with h | h | h
        · left; omega
        · left; omega
        · right; exact h
    · rcases he with ⟨_, rfl⟩ | ⟨_, rfl⟩ | ⟨_, rfl⟩ | ⟨_, rfl⟩ <;> simp [Instr.targets] at ht <;> left <;> omega
  · intro b d ty he
    simp only [List.mem_append, List.mem_cons, List.not_mem_nil, or_false, Event.emit.injEq, reduceCtorEq, false_or,
      or_false, Instr.phi.injEq] at he
    rcases he with (he | he) | he
    · -- the loop phi itself
      simp at he
      obtain ⟨rfl, rfl, rfl⟩ := he
      refine ⟨by omega, by omega, by omega, by omega, entryB, ?_, ?_⟩
      · simp only [srcs_append, hsB]
        simp [srcs, Instr.targets]
      · simp only [phiIns_append, hpB]
        simp [phiIns]
    · obtain ⟨b1, b2, b3, b4, e, b5, b6⟩ := hB.ph b d ty he
      refine ⟨by omega, by omega, by omega, by omega, e, ?_, ?_⟩
      · simp only [srcs_append, b5]
        have hb' : b ≠ nb ∧ b ≠ nb + 1 ∧ b ≠ nb + 2 ∧ b ≠ nb + 3 := by omega
        simp [srcs, Instr.targets, hb'.1, hb'.2.1, hb'.2.2.1, hb'.2.2.2]
      · simp only [phiIns_append, b6]
        have hd' : nv ≠ d := by omega
        simp [phiIns, hd']
    · simp at he
  · intro p b v he
    simp only [List.mem_append, List.mem_cons, List.not_mem_nil, or_false, reduceCtorEq, false_or, or_false,
      Event.incoming.injEq] at he
    rcases he with (he | he) | he
    · obtain ⟨rfl, _, _⟩ := he; omega
    · have := hB.inc p b v he; omega
    · obtain ⟨rfl, _, _⟩ := he; omega


/-! ### builder states -/

/-- the events appended between two builder states satisfy `SegP`, and the loop stack is unchanged -/
def Step (A : List Nat) (st st' : St) : Prop :=
  (∃ seg, st'.log = st.log ++ seg ∧ SegP A st.nblocks st.nvals st'.nblocks st'.nvals seg) ∧ st'.loops = st.loops

theorem Step.nb_le {A st st'} (h : Step A st st') : st.nblocks ≤ st'.nblocks := by
  obtain ⟨⟨_, _, h⟩, _⟩ := h; exact h.nb_le

theorem Step.nv_le {A st st'} (h : Step A st st') : st.nvals ≤ st'.nvals := by
  obtain ⟨⟨_, _, h⟩, _⟩ := h; exact h.nv_le

theorem Step.noLog {A : List Nat} {st st' : St} (hl : st'.log = st.log) (hb : st.nblocks ≤ st'.nblocks)
    (hv : st.nvals ≤ st'.nvals) (hlo : st'.loops = st.loops) : Step A st st' :=
  ⟨⟨[], by simp [hl], (SegP.nil A st.nblocks st.nvals).weaken (Nat.le_refl _) (Nat.le_refl _) hb hv
    (fun t ht => Or.inl ht)⟩, hlo⟩

theorem Step.refl (A : List Nat) (st : St) : Step A st st :=
  Step.noLog rfl (Nat.le_refl _) (Nat.le_refl _) rfl

theorem Step.trans {A : List Nat} {st st1 st2 : St} (h1 : Step A st st1) (h2 : Step A st1 st2)
    (hA : ∀ t ∈ A, t < st.nblocks) : Step A st st2 := by
  obtain ⟨⟨s1, l1, p1⟩, o1⟩ := h1
  obtain ⟨⟨s2, l2, p2⟩, o2⟩ := h2
  exact ⟨⟨s1 ++ s2, by rw [l2, l1, List.append_assoc], p1.append p2 hA⟩, by rw [o2, o1]⟩

theorem Step.mono {A A' : List Nat} {st st' : St} (h : Step A st st') (hA : ∀ t ∈ A, t ∈ A') : Step A' st st' := by
  obtain ⟨⟨s, l, p⟩, o⟩ := h
  exact ⟨⟨s, l, p.weaken (Nat.le_refl _) (Nat.le_refl _) (Nat.le_refl _) (Nat.le_refl _) (fun t ht => Or.inl (hA t ht))⟩, o⟩

/-- forget blocks created before the chain started: they become part of the fresh range -/
theorem Step.close {A L : List Nat} {st st1 st' : St} (h : Step A st1 st') (hl : st1.log = st.log)
    (hb : st.nblocks ≤ st1.nblocks) (hv : st.nvals ≤ st1.nvals) (hlo : st1.loops = st.loops)
    (hA : ∀ t ∈ A, t ∈ L ∨ (st.nblocks ≤ t ∧ t < st'.nblocks)) : Step L st st' := by
  obtain ⟨⟨s, l, p⟩, o⟩ := h
  exact ⟨⟨s, by rw [l, hl], p.weaken hb hv (Nat.le_refl _) (Nat.le_refl _) hA⟩, by rw [o, hlo]⟩

theorem Step.plain {A : List Nat} {st st' : St} (seg : List Event) (hl : st'.log = st.log ++ seg)
    (hp : ∀ e ∈ seg, PlainEv e) (hb : st'.nblocks = st.nblocks) (hv : st.nvals ≤ st'.nvals)
    (hlo : st'.loops = st.loops) : Step A st st' :=
  ⟨⟨seg, hl, hb ▸ SegP.plain A st.nblocks st.nvals st'.nvals seg hv hp⟩, hlo⟩

theorem Step.emitJump {A : List Nat} (st : St) (i : Instr) (hi : ∀ t ∈ i.targets, t ∈ A) (hp : ∀ d ty, i ≠ .phi d ty) :
    Step A st (st.emit i) :=
  ⟨⟨[.emit st.cur i], rfl, SegP.jump A st.nblocks st.nvals st.cur i hi hp⟩, rfl⟩

theorem Step.emitPlain {A : List Nat} (st : St) (i : Instr) (hi : i.targets = []) (hp : ∀ d ty, i ≠ .phi d ty) :
    Step A st (st.emit i) :=
  Step.emitJump st i (by rw [hi]; simp) hp

/-! ### expressions emit plain instructions only -/

def PlainI (i : Instr) : Prop := i.targets = [] ∧ ∀ d ty, i ≠ .phi d ty

theorem genArith_plain (op : String) (ty : Ty) (a b : Val) (n : Nat) (code : List Instr) (v : Val) (n' : Nat)
    (h : genArith op ty a b n = .ok (code, v, n')) : (∀ i ∈ code, PlainI i) ∧ n ≤ n' := by
  simp only [genArith] at h
  split at h
  · simp only [Except.ok.injEq, Prod.mk.injEq] at h
    obtain ⟨rfl, rfl, rfl⟩ := h
    exact ⟨by simp [PlainI, Instr.targets], by omega⟩
  · split at h
    · simp only [Except.ok.injEq, Prod.mk.injEq] at h
      obtain ⟨rfl, rfl, rfl⟩ := h
      exact ⟨by simp [floorDivCode, PlainI, Instr.targets], by omega⟩
    · simp at h

theorem genExpr_plain (locals : List (String × Var)) (e : PExpr) :
    ∀ (n : Nat) (code : List Instr) (v : Val) (t : Ty) (n' : Nat),
      genExpr locals e n = .ok (code, v, t, n') → (∀ i ∈ code, PlainI i) ∧ n ≤ n' := by
  induction e with
  | num v =>
    intro n code vr t n' h
    simp only [genExpr, Except.ok.injEq, Prod.mk.injEq] at h
    obtain ⟨rfl, rfl, rfl, rfl⟩ := h
    exact ⟨by simp [PlainI, Instr.targets], by omega⟩
  | fnum b =>
    intro n code vr t n' h
    simp only [genExpr, Except.ok.injEq, Prod.mk.injEq] at h
    obtain ⟨rfl, rfl, rfl, rfl⟩ := h
    exact ⟨by simp [PlainI, Instr.targets], by omega⟩
  | name x =>
    intro n code vr t n' h
    simp only [genExpr] at h
    split at h
    · simp at h
    · split at h
      · simp only [Except.ok.injEq, Prod.mk.injEq] at h
        obtain ⟨rfl, rfl, rfl, rfl⟩ := h
        exact ⟨by simp [PlainI, Instr.targets], by omega⟩
      · simp only [Except.ok.injEq, Prod.mk.injEq] at h
        obtain ⟨rfl, rfl, rfl, rfl⟩ := h
        exact ⟨by simp, by omega⟩
  | binop op a b iha ihb =>
    intro n code vr t n' h
    simp only [genExpr] at h
    cases hga : genExpr locals a n with
    | error er => simp [hga] at h
    | ok ra =>
      obtain ⟨ca, va, ta, n1⟩ := ra
      simp only [hga] at h
      cases hgb : genExpr locals b n1 with
      | error er => simp [hgb] at h
      | ok rb =>
        obtain ⟨cb, vb, tb, n2⟩ := rb
        simp only [hgb] at h
        split at h
        · simp at h
        · cases hgc : genArith op ta va vb n2 with
          | error er => simp [hgc] at h
          | ok rc =>
            obtain ⟨cc, vc, n3⟩ := rc
            simp only [hgc, Except.ok.injEq, Prod.mk.injEq] at h
            obtain ⟨rfl, rfl, rfl, rfl⟩ := h
            obtain ⟨pa, la⟩ := iha n ca va ta n1 hga
            obtain ⟨pb, lb⟩ := ihb n1 cb vb tb n2 hgb
            obtain ⟨pc, lc⟩ := genArith_plain op ta va vb n2 cc vc n3 hgc
            refine ⟨?_, by omega⟩
            intro i hi
            simp only [List.mem_append] at hi
            rcases hi with (hi | hi) | hi
            · exact pa i hi
            · exact pb i hi
            · exact pc i hi
  | other =>
    intro n code vr t n' h
    simp [genExpr] at h

theorem plain_map (cur : Nat) (code : List Instr) (h : ∀ i ∈ code, PlainI i) :
    ∀ e ∈ code.map (Event.emit cur), PlainEv e := by
  intro e he
  simp only [List.mem_map] at he
  obtain ⟨i, hi, rfl⟩ := he
  exact h i hi

theorem expr_step (A : List Nat) (st : St) (e : PExpr) (v : Val) (t : Ty) (st1 : St)
    (h : st.expr e = .ok (v, t, st1)) : Step A st st1 := by
  simp only [St.expr] at h
  cases hg : genExpr st.locals e st.nvals with
  | error er => simp [hg] at h
  | ok r =>
    obtain ⟨code, v', t', n⟩ := r
    simp only [hg, Except.ok.injEq, Prod.mk.injEq] at h
    obtain ⟨_, _, rfl⟩ := h
    obtain ⟨pc, ln⟩ := genExpr_plain st.locals e st.nvals code v' t' n hg
    exact Step.plain (code.map (Event.emit st.cur)) rfl (plain_map st.cur code pc) rfl ln rfl

theorem getVariable_step (A : List Nat) (st : St) (x : String) (ty : Option Ty) (var : Var) (st1 : St)
    (h : getVariable st x ty = .ok (var, st1)) : Step A st st1 := by
  simp only [getVariable] at h
  split at h
  · simp only [Except.ok.injEq, Prod.mk.injEq] at h
    obtain ⟨_, rfl⟩ := h
    exact Step.refl A st
  · split at h
    · simp at h
    · simp only [Except.ok.injEq, Prod.mk.injEq] at h
      obtain ⟨_, rfl⟩ := h
      exact Step.plain [.hoist st.nvals (st.nvals + 1)] rfl (by simp [PlainEv]) rfl (by simp) rfl


/-! ### conditions -/

theorem genCond_step (c : PCond) :
    ∀ (yes no : Nat) (st st' : St), yes < st.nblocks → no < st.nblocks →
      genCond c yes no st = .ok st' → Step [yes, no] st st' := by
  induction c with
  | cmp op a b =>
    intro yes no st st' hy hn h
    simp only [genCond] at h
    cases ha : st.expr a with
    | error er => simp [ha] at h
    | ok ra =>
      obtain ⟨va, ta, st1⟩ := ra
      simp only [ha] at h
      cases hop : lookup op cmpMap with
      | none => simp [hop] at h
      | some irop =>
        simp only [hop] at h
        cases hb : st1.expr b with
        | error er => simp [hb] at h
        | ok rb =>
          obtain ⟨vb, tb, st2⟩ := rb
          simp only [hb] at h
          split at h
          · simp at h
          · simp only [Except.ok.injEq] at h
            subst h
            have hA : ∀ t ∈ [yes, no], t < st.nblocks := by
              intro t ht; simp at ht; rcases ht with rfl | rfl <;> assumption
            have s1 := expr_step [yes, no] st a va ta st1 ha
            have s2 := expr_step [yes, no] st1 b vb tb st2 hb
            have s3 : Step [yes, no] st2 (st2.emit (.cjump va irop vb yes no)) :=
              Step.emitJump st2 _ (by simp [Instr.targets]) (by simp)
            exact (s1.trans s2 hA).trans s3 hA
  | and a b iha ihb =>
    intro yes no st st' hy hn h
    simp only [genCond, St.newBlock] at h
    cases hga : genCond a st.nblocks no { st with nblocks := st.nblocks + 1 } with
    | error er => simp [hga] at h
    | ok st2 =>
      simp only [hga] at h
      have s1 := iha st.nblocks no { st with nblocks := st.nblocks + 1 } st2 (by simp) (by simp; omega) hga
      have hb2 := s1.nb_le
      simp only at hb2
      have s2 := ihb yes no (st2.setBlock st.nblocks) st' (by simp [St.setBlock]; omega) (by simp [St.setBlock]; omega) h
      have s12 : Step [yes, no, st.nblocks] st2 (st2.setBlock st.nblocks) :=
        Step.noLog rfl (Nat.le_refl _) (Nat.le_refl _) rfl
      have hA : ∀ t ∈ [yes, no, st.nblocks], t < ({ st with nblocks := st.nblocks + 1 } : St).nblocks := by
        intro t ht; simp at ht ⊢; omega
      have chain := ((s1.mono (A' := [yes, no, st.nblocks]) (by simp)).trans s12 hA).trans
        (s2.mono (A' := [yes, no, st.nblocks]) (by intro t ht; simp at ht ⊢; omega)) hA
      have hb3 := s2.nb_le
      simp only [St.setBlock] at hb3
      exact chain.close rfl (by simp) (Nat.le_refl _) rfl (by
        intro t ht; simp at ht ⊢; omega)
  | or a b iha ihb =>
    intro yes no st st' hy hn h
    simp only [genCond, St.newBlock] at h
    cases hga : genCond a yes st.nblocks { st with nblocks := st.nblocks + 1 } with
    | error er => simp [hga] at h
    | ok st2 =>
      simp only [hga] at h
      have s1 := iha yes st.nblocks { st with nblocks := st.nblocks + 1 } st2 (by simp; omega) (by simp) hga
      have hb2 := s1.nb_le
      simp only at hb2
      have s2 := ihb yes no (st2.setBlock st.nblocks) st' (by simp [St.setBlock]; omega) (by simp [St.setBlock]; omega) h
      have s12 : Step [yes, no, st.nblocks] st2 (st2.setBlock st.nblocks) :=
        Step.noLog rfl (Nat.le_refl _) (Nat.le_refl _) rfl
      have hA : ∀ t ∈ [yes, no, st.nblocks], t < ({ st with nblocks := st.nblocks + 1 } : St).nblocks := by
        intro t ht; simp at ht ⊢; omega
      have chain := ((s1.mono (A' := [yes, no, st.nblocks]) (by simp)).trans s12 hA).trans
        (s2.mono (A' := [yes, no, st.nblocks]) (by intro t ht; simp at ht ⊢; omega)) hA
      have hb3 := s2.nb_le
      simp only [St.setBlock] at hb3
      exact chain.close rfl (by simp) (Nat.le_refl _) rfl (by
        intro t ht; simp at ht ⊢; omega)
  | other =>
    intro yes no st st' hy hn h
    simp [genCond] at h


/-! ### statements -/

/-- `Step` without the loop-stack clause (inside a loop the stack is pushed and popped) -/
def Step0 (A : List Nat) (st st' : St) : Prop :=
  ∃ seg, st'.log = st.log ++ seg ∧ SegP A st.nblocks st.nvals st'.nblocks st'.nvals seg

theorem Step.zero {A st st'} (h : Step A st st') : Step0 A st st' := h.1

theorem Step0.nb_le {A st st'} (h : Step0 A st st') : st.nblocks ≤ st'.nblocks := by
  obtain ⟨_, _, h⟩ := h; exact h.nb_le

theorem Step0.nv_le {A st st'} (h : Step0 A st st') : st.nvals ≤ st'.nvals := by
  obtain ⟨_, _, h⟩ := h; exact h.nv_le

theorem Step0.noLog {A : List Nat} {st st' : St} (hl : st'.log = st.log) (hb : st.nblocks ≤ st'.nblocks)
    (hv : st.nvals ≤ st'.nvals) : Step0 A st st' :=
  ⟨[], by simp [hl], (SegP.nil A st.nblocks st.nvals).weaken (Nat.le_refl _) (Nat.le_refl _) hb hv
    (fun t ht => Or.inl ht)⟩

theorem Step0.trans {A : List Nat} {st st1 st2 : St} (h1 : Step0 A st st1) (h2 : Step0 A st1 st2)
    (hA : ∀ t ∈ A, t < st.nblocks) : Step0 A st st2 := by
  obtain ⟨s1, l1, p1⟩ := h1
  obtain ⟨s2, l2, p2⟩ := h2
  exact ⟨s1 ++ s2, by rw [l2, l1, List.append_assoc], p1.append p2 hA⟩

theorem Step0.mono {A A' : List Nat} {st st' : St} (h : Step0 A st st') (hA : ∀ t ∈ A, t ∈ A') : Step0 A' st st' := by
  obtain ⟨s, l, p⟩ := h
  exact ⟨s, l, p.weaken (Nat.le_refl _) (Nat.le_refl _) (Nat.le_refl _) (Nat.le_refl _) (fun t ht => Or.inl (hA t ht))⟩

theorem Step0.close {A L : List Nat} {st st1 st' : St} (h : Step0 A st1 st') (hl : st1.log = st.log)
    (hb : st.nblocks ≤ st1.nblocks) (hv : st.nvals ≤ st1.nvals)
    (hA : ∀ t ∈ A, t ∈ L ∨ (st.nblocks ≤ t ∧ t < st'.nblocks)) : Step0 L st st' := by
  obtain ⟨s, l, p⟩ := h
  exact ⟨s, by rw [l, hl], p.weaken hb hv (Nat.le_refl _) (Nat.le_refl _) hA⟩

theorem loopTargets_cons (c b : Nat) (l : List (Nat × Nat)) : loopTargets ((c, b) :: l) = [c, b] ++ loopTargets l := by
  simp [loopTargets]

theorem evalAllT_step (A : List Nat) (es : List PExpr) :
    ∀ (st : St) (vs : List (Val × Ty)) (st1 : St), (∀ t ∈ A, t < st.nblocks) →
      evalAllT es st = .ok (vs, st1) → Step A st st1 := by
  induction es with
  | nil =>
    intro st vs st1 hA h
    simp only [evalAllT, Except.ok.injEq, Prod.mk.injEq] at h
    obtain ⟨_, rfl⟩ := h
    exact Step.refl A st
  | cons e es ih =>
    intro st vs st1 hA h
    simp only [evalAllT] at h
    cases he : st.expr e with
    | error er => simp [he] at h
    | ok r =>
      obtain ⟨v, t, st2⟩ := r
      simp only [he] at h
      cases hr : evalAllT es st2 with
      | error er => simp [hr] at h
      | ok r2 =>
        obtain ⟨vs2, st3⟩ := r2
        simp only [hr, Except.ok.injEq, Prod.mk.injEq] at h
        obtain ⟨_, rfl⟩ := h
        have s1 := expr_step A st e v t st2 he
        have s2 := ih st2 vs2 st3 (fun t ht => Nat.lt_of_lt_of_le (hA t ht) s1.nb_le) hr
        exact s1.trans s2 hA

theorem storeAll_step (A : List Nat) (xs : List String) :
    ∀ (vs : List (Val × Ty)) (st st1 : St), (∀ t ∈ A, t < st.nblocks) →
      storeAll xs vs st = .ok st1 → Step A st st1 := by
  induction xs with
  | nil =>
    intro vs st st1 hA h
    simp only [storeAll, Except.ok.injEq] at h
    subst h
    exact Step.refl A st
  | cons x xs ih =>
    intro vs st st1 hA h
    cases vs with
    | nil =>
      simp only [storeAll, Except.ok.injEq] at h
      subst h
      exact Step.refl A st
    | cons vt vs =>
      obtain ⟨v, t⟩ := vt
      simp only [storeAll] at h
      cases hg : getVariable st x (some t) with
      | error er => simp [hg] at h
      | ok r =>
        obtain ⟨var, st2⟩ := r
        simp only [hg] at h
        have s1 := getVariable_step A st x (some t) var st2 hg
        have s2 : Step A st2 (st2.emit (.store v var.addr)) := Step.emitPlain st2 _ rfl (by simp)
        have hA2 : ∀ t ∈ A, t < (st2.emit (.store v var.addr)).nblocks :=
          fun t ht => Nat.lt_of_lt_of_le (hA t ht) (s1.trans s2 hA).nb_le
        have s3 := ih vs _ st1 hA2 h
        exact (s1.trans s2 hA).trans s3 hA

/-- `break` / `continue` / `return`: one terminator, then a fresh (unreachable) current block -/
theorem leave_step (A : List Nat) (st : St) (i : Instr) (hi : ∀ t ∈ i.targets, t ∈ A) (hp : ∀ d ty, i ≠ .phi d ty)
    (hA : ∀ t ∈ A, t < st.nblocks) :
    Step A st (({ (st.emit i) with nblocks := (st.emit i).nblocks + 1 } : St).setBlock (st.emit i).nblocks) := by
  have s1 : Step A st (st.emit i) := Step.emitJump st i hi hp
  exact s1.trans (Step.noLog rfl (by simp [St.setBlock]) (Nat.le_refl _) rfl) hA


theorem forPre_step (A : List Nat) (st : St) (lo : Option PExpr) (v : Val) (st1 : St)
    (h : forPre st lo = .ok (v, st1)) : Step A st st1 := by
  cases lo with
  | none =>
    simp only [forPre, Except.ok.injEq, Prod.mk.injEq] at h
    obtain ⟨_, rfl⟩ := h
    exact Step.plain [.emit st.cur (.const st.nvals .i64 0)] rfl (by simp [PlainEv, Instr.targets]) rfl (by simp) rfl
  | some e =>
    simp only [forPre] at h
    cases he : st.expr e with
    | error er => simp [he] at h
    | ok r =>
      obtain ⟨v', t', s'⟩ := r
      simp only [he, Except.ok.injEq, Prod.mk.injEq] at h
      obtain ⟨_, rfl⟩ := h
      exact expr_step A st e v' t' s' he

theorem forEnter_log (st3 : St) (iInit n2 : Val) (lv : Var) :
    (forEnter st3 iInit n2 lv).log = st3.log ++
      [Event.emit st3.cur (.jump st3.nblocks), .emit st3.nblocks (.phi st3.nvals .i64),
       .incoming st3.nvals st3.cur iInit,
       .emit st3.nblocks (.cjump (.tmp st3.nvals) "<" n2 (st3.nblocks + 1) (st3.nblocks + 3)),
       .emit (st3.nblocks + 1) (.store (.tmp st3.nvals) lv.addr)] := by
  simp [forEnter, St.emit, St.newBlock, St.setBlock]

theorem forEnter_nblocks (st3 : St) (iInit n2 : Val) (lv : Var) : (forEnter st3 iInit n2 lv).nblocks = st3.nblocks + 4 := by
  simp [forEnter, St.emit, St.newBlock, St.setBlock]

theorem forEnter_nvals (st3 : St) (iInit n2 : Val) (lv : Var) : (forEnter st3 iInit n2 lv).nvals = st3.nvals + 1 := by
  simp [forEnter, St.emit, St.newBlock, St.setBlock]

theorem forEnter_loops (st3 : St) (iInit n2 : Val) (lv : Var) :
    (forEnter st3 iInit n2 lv).loops = (st3.nblocks + 2, st3.nblocks + 3) :: st3.loops := by
  simp [forEnter, St.emit, St.newBlock, St.setBlock]

theorem forLeave_log (st3 st14 : St) :
    (forLeave st3 st14).log = st14.log ++
      [Event.emit st14.cur (.jump (st3.nblocks + 2)), .emit (st3.nblocks + 2) (.const st14.nvals .i64 1),
       .emit (st3.nblocks + 2) (.binop (st14.nvals + 1) .i64 "+" (.tmp st3.nvals) (.tmp st14.nvals)),
       .incoming st3.nvals (st3.nblocks + 2) (.tmp (st14.nvals + 1)),
       .emit (st3.nblocks + 2) (.jump st3.nblocks)] := by
  simp [forLeave, St.emit, St.setBlock]

theorem forLeave_nblocks (st3 st14 : St) : (forLeave st3 st14).nblocks = st14.nblocks := by
  simp [forLeave, St.emit, St.setBlock]

theorem forLeave_nvals (st3 st14 : St) : (forLeave st3 st14).nvals = st14.nvals + 2 := by
  simp [forLeave, St.emit, St.setBlock]

theorem forLeave_loops (st3 st14 : St) : (forLeave st3 st14).loops = st14.loops.tail := by
  simp [forLeave, St.emit, St.setBlock]

/-- **Block structure of everything `gen_statement` emits**, for every statement tree: all jump
    targets are blocks created for the statement or the break/continue targets of the enclosing
    loops; every phi (one per for-loop) sits in a block created for the statement and its inputs come
    from exactly the blocks that jump to it, in that order; the loop stack is restored. -/
theorem genStmt_step (isProc : Bool) (s : PStmt) :
    ∀ (st st' : St), (∀ t ∈ loopTargets st.loops, t < st.nblocks) →
      genStmt isProc s st = .ok st' → Step (loopTargets st.loops) st st' := by
  induction s with
  | pass =>
    intro st st' hA h
    simp only [genStmt, Except.ok.injEq] at h
    subst h; exact Step.refl _ st
  | ret e =>
    intro st st' hA h
    simp only [genStmt] at h
    split at h
    · cases e with
      | some e => simp at h
      | none =>
        simp only [St.newBlock, Except.ok.injEq] at h
        subst h
        exact leave_step _ st .exit (by simp [Instr.targets]) (by simp) hA
    · cases e with
      | none => simp at h
      | some e =>
        simp only at h
        cases he : st.expr e with
        | error er => simp [he] at h
        | ok r =>
          obtain ⟨v, t, st1⟩ := r
          simp only [he, St.newBlock, Except.ok.injEq] at h
          subst h
          have s1 := expr_step (loopTargets st.loops) st e v t st1 he
          have hA1 : ∀ t ∈ loopTargets st.loops, t < st1.nblocks := fun t ht => Nat.lt_of_lt_of_le (hA t ht) s1.nb_le
          exact s1.trans (leave_step _ st1 (.ret v) (by simp [Instr.targets]) (by simp) hA1) hA
  | assign x e =>
    intro st st' hA h
    simp only [genStmt] at h
    cases he : st.expr e with
    | error er => simp [he] at h
    | ok r =>
      obtain ⟨v, t, st1⟩ := r
      simp only [he] at h
      cases hg : getVariable st1 x (some t) with
      | error er => simp [hg] at h
      | ok r2 =>
        obtain ⟨var, st2⟩ := r2
        simp only [hg, Except.ok.injEq] at h
        subst h
        have s1 := expr_step (loopTargets st.loops) st e v t st1 he
        have s2 := getVariable_step (loopTargets st.loops) st1 x (some t) var st2 hg
        have s3 : Step (loopTargets st.loops) st2 (st2.emit (.store v var.addr)) := Step.emitPlain st2 _ rfl (by simp)
        exact (s1.trans s2 hA).trans s3 hA
  | tupleAssign xs es =>
    intro st st' hA h
    simp only [genStmt] at h
    cases he : evalAllT es st with
    | error er => simp [he] at h
    | ok r =>
      obtain ⟨vs, st1⟩ := r
      simp only [he] at h
      have s1 := evalAllT_step (loopTargets st.loops) es st vs st1 hA he
      have s2 := storeAll_step (loopTargets st.loops) xs vs st1 st'
        (fun t ht => Nat.lt_of_lt_of_le (hA t ht) s1.nb_le) h
      exact s1.trans s2 hA
  | aug x op e =>
    intro st st' hA h
    simp only [genStmt] at h
    cases hg : getVariable st x none with
    | error er => simp [hg] at h
    | ok r =>
      obtain ⟨var, st0⟩ := r
      simp only [hg] at h
      cases he : ({ (st0.emit (.load st0.nvals var.ty var.addr)) with nvals := st0.nvals + 1 } : St).expr e with
      | error er => simp [he] at h
      | ok r2 =>
        obtain ⟨rhs, t, st2⟩ := r2
        simp only [he] at h
        cases ha : genArith op var.ty (.tmp st0.nvals) rhs st2.nvals with
        | error er => simp [ha] at h
        | ok r3 =>
          obtain ⟨code, v, n⟩ := r3
          simp only [ha, Except.ok.injEq] at h
          subst h
          obtain ⟨pc, ln⟩ := genArith_plain op var.ty (.tmp st0.nvals) rhs st2.nvals code v n ha
          have s0 := getVariable_step (loopTargets st.loops) st x none var st0 hg
          have s1 : Step (loopTargets st.loops) st0
              ({ (st0.emit (.load st0.nvals var.ty var.addr)) with nvals := st0.nvals + 1 } : St) :=
            Step.plain [.emit st0.cur (.load st0.nvals var.ty var.addr)] rfl (by simp [PlainEv, Instr.targets]) rfl
              (by simp) rfl
          have s2 := expr_step (loopTargets st.loops) _ e rhs t st2 he
          have s3 : Step (loopTargets st.loops) st2 ({ (st2.emitAll code) with nvals := n } : St) :=
            Step.plain (code.map (Event.emit st2.cur)) rfl (plain_map st2.cur code pc) rfl ln rfl
          have s4 : Step (loopTargets st.loops) ({ (st2.emitAll code) with nvals := n } : St)
              (({ (st2.emitAll code) with nvals := n } : St).emit (.store v var.addr)) :=
            Step.emitPlain _ _ rfl (by simp)
          exact (((s0.trans s1 hA).trans s2 hA).trans s3 hA).trans s4 hA
  | expr e =>
    intro st st' hA h
    simp only [genStmt] at h
    cases he : st.expr e with
    | error er => simp [he] at h
    | ok r =>
      obtain ⟨v, t, st1⟩ := r
      simp only [he, Except.ok.injEq] at h
      subst h
      exact expr_step _ st e v t st1 he
  | ifs c body orelse ihb ihe =>
    intro st st' hA h
    simp only [genStmt, St.newBlock] at h
    -- ja = nb, else = nb+1, continue = nb+2
    cases hc : genCond c st.nblocks (st.nblocks + 1)
        ({ st with nblocks := st.nblocks + 1 + 1 + 1 } : St) with
    | error er => simp [hc] at h
    | ok st4 =>
      simp only [hc] at h
      cases hb : genStmt isProc body (st4.setBlock st.nblocks) with
      | error er => simp [hb] at h
      | ok st5 =>
        simp only [hb] at h
        cases he : genStmt isProc orelse ((st5.emit (.jump (st.nblocks + 1 + 1))).setBlock (st.nblocks + 1)) with
        | error er => simp [he] at h
        | ok st7 =>
          simp only [he, Except.ok.injEq] at h
          subst h
          let st3 : St := { st with nblocks := st.nblocks + 1 + 1 + 1 }
          let A' := loopTargets st.loops ++ [st.nblocks, st.nblocks + 1, st.nblocks + 1 + 1]
          have hA' : ∀ t ∈ A', t < st3.nblocks := by
            intro t ht
            simp only [A', List.mem_append, List.mem_cons, List.not_mem_nil, or_false] at ht
            rcases ht with ht | rfl | rfl | rfl
            · have := hA t ht; simp [st3]; omega
            · simp [st3]; omega
            · simp [st3]
            · simp [st3]
          have sc := genCond_step c st.nblocks (st.nblocks + 1) st3 st4 (by simp [st3]; omega) (by simp [st3]) hc
          have l4 : st4.loops = st.loops := sc.2
          have n4 := sc.nb_le
          have sb := ihb (st4.setBlock st.nblocks) st5
            (by intro t ht; simp only [St.setBlock] at ht ⊢; rw [l4] at ht; have := hA t ht; simp [st3] at n4; omega) hb
          have l5 : st5.loops = st.loops := by rw [sb.2]; exact l4
          have n5 := sb.nb_le
          have se := ihe ((st5.emit (.jump (st.nblocks + 1 + 1))).setBlock (st.nblocks + 1)) st7
            (by intro t ht; simp only [St.setBlock, St.emit] at ht ⊢; rw [l5] at ht; have := hA t ht
                simp [st3, St.setBlock] at n4 n5; omega) he
          have n7 := se.nb_le
          simp only [St.setBlock, St.emit, st3] at n4 n5 n7
          have c1 : Step A' st3 st4 := sc.mono (by intro t ht; simp at ht; simp [A']; omega)
          have c2 : Step A' st4 (st4.setBlock st.nblocks) := Step.noLog rfl (Nat.le_refl _) (Nat.le_refl _) rfl
          have c3 : Step A' (st4.setBlock st.nblocks) st5 :=
            sb.mono (by intro t ht; simp only [St.setBlock] at ht; rw [l4] at ht; simp [A', ht])
          have c4 : Step A' st5 (st5.emit (.jump (st.nblocks + 1 + 1))) :=
            Step.emitJump st5 _ (by simp [Instr.targets, A']) (by simp)
          have c5 : Step A' (st5.emit (.jump (st.nblocks + 1 + 1)))
              ((st5.emit (.jump (st.nblocks + 1 + 1))).setBlock (st.nblocks + 1)) :=
            Step.noLog rfl (Nat.le_refl _) (Nat.le_refl _) rfl
          have c6 : Step A' ((st5.emit (.jump (st.nblocks + 1 + 1))).setBlock (st.nblocks + 1)) st7 :=
            se.mono (by intro t ht; simp only [St.setBlock, St.emit] at ht; rw [l5] at ht; simp [A', ht])
          have c7 : Step A' st7 (st7.emit (.jump (st.nblocks + 1 + 1))) :=
            Step.emitJump st7 _ (by simp [Instr.targets, A']) (by simp)
          have c8 : Step A' (st7.emit (.jump (st.nblocks + 1 + 1)))
              ((st7.emit (.jump (st.nblocks + 1 + 1))).setBlock (st.nblocks + 1 + 1)) :=
            Step.noLog rfl (Nat.le_refl _) (Nat.le_refl _) rfl
          have chain := ((((((c1.trans c2 hA').trans c3 hA').trans c4 hA').trans c5 hA').trans c6 hA').trans c7 hA').trans c8 hA'
          exact chain.close rfl (by simp only [st3]; omega) (Nat.le_refl _) rfl (by
            intro t ht
            simp only [A', List.mem_append, List.mem_cons, List.not_mem_nil, or_false] at ht
            simp only [St.setBlock, St.emit]
            rcases ht with ht | rfl | rfl | rfl
            · left; exact ht
            · right; omega
            · right; omega
            · right; omega)
  | whiles c body ihb =>
    intro st st' hA h
    simp only [genStmt, St.newBlock] at h
    -- test = nb, body = nb+1, final = nb+2
    let st3 : St := { st with nblocks := st.nblocks + 1 + 1 + 1 }
    cases hc : genCond c (st.nblocks + 1) (st.nblocks + 1 + 1) ((st3.emit (.jump st.nblocks)).setBlock st.nblocks) with
    | error er => simp [st3, hc] at h
    | ok st5 =>
      simp only [st3, hc] at h
      cases hb : genStmt isProc body
          ({ (st5.setBlock (st.nblocks + 1)) with loops := (st.nblocks, st.nblocks + 1 + 1) :: st5.loops } : St) with
      | error er => simp [hb] at h
      | ok st7 =>
        simp only [hb, Except.ok.injEq] at h
        subst h
        let A' := loopTargets st.loops ++ [st.nblocks, st.nblocks + 1, st.nblocks + 1 + 1]
        have hA' : ∀ t ∈ A', t < st3.nblocks := by
          intro t ht
          simp only [A', List.mem_append, List.mem_cons, List.not_mem_nil, or_false] at ht
          rcases ht with ht | rfl | rfl | rfl
          · have := hA t ht; simp [st3]; omega
          · simp [st3]; omega
          · simp [st3]
          · simp [st3]
        have sc := genCond_step c (st.nblocks + 1) (st.nblocks + 1 + 1) _ st5
          (by simp [st3, St.setBlock, St.emit]) (by simp [st3, St.setBlock, St.emit]) hc
        have l5 : st5.loops = st.loops := sc.2
        have n5 := sc.nb_le
        simp only [St.setBlock, St.emit, st3] at n5
        have sb := ihb _ st7
          (by intro t ht
              simp only [St.setBlock, loopTargets_cons, List.mem_append, List.mem_cons, List.not_mem_nil, or_false] at ht ⊢
              rcases ht with (rfl | rfl) | ht
              · omega
              · omega
              · rw [l5] at ht; have := hA t ht; omega) hb
        have n7 := sb.nb_le
        simp only [St.setBlock] at n7
        have l7 : st7.loops = (st.nblocks, st.nblocks + 1 + 1) :: st.loops := by rw [sb.2]; simp [St.setBlock, l5]
        have c1 : Step0 A' st3 (st3.emit (.jump st.nblocks)) :=
          (Step.emitJump st3 _ (by simp [Instr.targets, A']) (by simp)).zero
        have c2 : Step0 A' (st3.emit (.jump st.nblocks)) ((st3.emit (.jump st.nblocks)).setBlock st.nblocks) :=
          Step0.noLog rfl (Nat.le_refl _) (Nat.le_refl _)
        have c3 : Step0 A' ((st3.emit (.jump st.nblocks)).setBlock st.nblocks) st5 :=
          sc.zero.mono (by intro t ht; simp at ht; simp [A']; omega)
        have c4 : Step0 A' st5
            ({ (st5.setBlock (st.nblocks + 1)) with loops := (st.nblocks, st.nblocks + 1 + 1) :: st5.loops } : St) :=
          Step0.noLog rfl (Nat.le_refl _) (Nat.le_refl _)
        have c5 : Step0 A'
            ({ (st5.setBlock (st.nblocks + 1)) with loops := (st.nblocks, st.nblocks + 1 + 1) :: st5.loops } : St) st7 :=
          sb.zero.mono (by
            intro t ht
            simp only [St.setBlock, loopTargets_cons, List.mem_append, List.mem_cons, List.not_mem_nil, or_false] at ht
            rw [l5] at ht
            simp only [A', List.mem_append, List.mem_cons, List.not_mem_nil, or_false]
            rcases ht with (rfl | rfl) | ht
            · right; left; rfl
            · right; right; right; rfl
            · left; exact ht)
        have c6 : Step0 A' st7 (st7.emit (.jump st.nblocks)) :=
          (Step.emitJump st7 _ (by simp [Instr.targets, A']) (by simp)).zero
        have c7 : Step0 A' (st7.emit (.jump st.nblocks))
            (({ (st7.emit (.jump st.nblocks)) with loops := (st7.emit (.jump st.nblocks)).loops.tail } : St).setBlock
              (st.nblocks + 1 + 1)) :=
          Step0.noLog rfl (Nat.le_refl _) (Nat.le_refl _)
        have chain := (((((c1.trans c2 hA').trans c3 hA').trans c4 hA').trans c5 hA').trans c6 hA').trans c7 hA'
        refine ⟨chain.close rfl (by simp only [st3]; omega) (Nat.le_refl _) (by
          intro t ht
          simp only [A', List.mem_append, List.mem_cons, List.not_mem_nil, or_false] at ht
          simp only [St.setBlock, St.emit]
          rcases ht with ht | rfl | rfl | rfl
          · left; exact ht
          · right; omega
          · right; omega
          · right; omega), ?_⟩
        simp [St.setBlock, St.emit, l7]
  | fors x lo hi body ihb =>
    intro st st' hA h
    simp only [genStmt] at h
    cases h1 : forPre st lo with
    | error er => simp [h1] at h
    | ok r1 =>
      obtain ⟨iInit, st1⟩ := r1
      simp only [h1] at h
      cases h2 : st1.expr hi with
      | error er => simp [h2] at h
      | ok r2 =>
        obtain ⟨n2, t2, st2⟩ := r2
        simp only [h2] at h
        cases h3 : getVariable st2 x (some .i64) with
        | error er => simp [h3] at h
        | ok r3 =>
          obtain ⟨lv, st3⟩ := r3
          simp only [h3] at h
          cases h4 : genStmt isProc body (forEnter st3 iInit n2 lv) with
          | error er => simp [h4] at h
          | ok st14 =>
            simp only [h4, Except.ok.injEq] at h
            subst h
            have s1 := forPre_step (loopTargets st.loops) st lo iInit st1 h1
            have s2 := expr_step (loopTargets st.loops) st1 hi n2 t2 st2 h2
            have s3 := getVariable_step (loopTargets st.loops) st2 x (some .i64) lv st3 h3
            have spre := (s1.trans s2 hA).trans s3 hA
            have l3 : st3.loops = st.loops := spre.2
            have n3 := spre.nb_le
            have hL3 : ∀ t ∈ loopTargets st.loops, t < st3.nblocks := fun t ht => Nat.lt_of_lt_of_le (hA t ht) n3
            have sb := ihb (forEnter st3 iInit n2 lv) st14 (by
              intro t ht
              rw [forEnter_loops, loopTargets_cons] at ht
              rw [forEnter_nblocks]
              simp only [List.mem_append, List.mem_cons, List.not_mem_nil, or_false] at ht
              rcases ht with (rfl | rfl) | ht
              · omega
              · omega
              · rw [l3] at ht; have := hL3 t ht; omega) h4
            obtain ⟨⟨segB, lB, pB⟩, loB⟩ := sb
            rw [forEnter_loops, loopTargets_cons, forEnter_nblocks, forEnter_nvals, l3] at pB
            have key := SegP.forLoop (loopTargets st.loops) st3.nblocks st3.nvals st3.cur iInit n2 lv.addr segB
              st14.nblocks st14.nvals st14.cur pB hL3
            have sfor : Step0 (loopTargets st.loops) st3 (forLeave st3 st14) := by
              refine ⟨?w, ?hl, ?hp⟩
              case hp => rw [forLeave_nblocks, forLeave_nvals]; exact key
              case hl => rw [forLeave_log, lB, forEnter_log]; simp [List.append_assoc]
            refine ⟨spre.zero.trans sfor hA, ?_⟩
            rw [forLeave_loops, loB, forEnter_loops]; simpa using l3
  | brk =>
    intro st st' hA h
    simp only [genStmt] at h
    cases hl : st.loops with
    | nil => simp [hl] at h
    | cons cb rest =>
      obtain ⟨c, b⟩ := cb
      simp only [hl, St.newBlock, Except.ok.injEq] at h
      subst h
      have := leave_step (loopTargets st.loops) st (.jump b) (by simp [Instr.targets, hl, loopTargets_cons]) (by simp) hA
      rw [hl] at this
      exact this
  | cont =>
    intro st st' hA h
    simp only [genStmt] at h
    cases hl : st.loops with
    | nil => simp [hl] at h
    | cons cb rest =>
      obtain ⟨c, b⟩ := cb
      simp only [hl, St.newBlock, Except.ok.injEq] at h
      subst h
      have := leave_step (loopTargets st.loops) st (.jump c) (by simp [Instr.targets, hl, loopTargets_cons]) (by simp) hA
      rw [hl] at this
      exact this
  | seq a b iha ihb =>
    intro st st' hA h
    simp only [genStmt] at h
    cases h1 : genStmt isProc a st with
    | error er => simp [h1] at h
    | ok st1 =>
      simp only [h1] at h
      have s1 := iha st st1 hA h1
      have s2 := ihb st1 st' (by intro t ht; rw [s1.2] at ht; exact Nat.lt_of_lt_of_le (hA t ht) s1.nb_le) h
      rw [s1.2] at s2
      exact s1.trans s2 hA


/-! ### whole functions -/

theorem genParams_step (ps : List (String × Ty)) :
    ∀ (i : Nat) (st st' : St), genParams ps i st = .ok st' → Step [] st st' := by
  induction ps with
  | nil =>
    intro i st st' h
    simp only [genParams, Except.ok.injEq] at h
    subst h; exact Step.refl [] st
  | cons p ps ih =>
    intro i st st' h
    obtain ⟨x, t⟩ := p
    simp only [genParams] at h
    cases hg : getVariable st x (some t) with
    | error er => simp [hg] at h
    | ok r =>
      obtain ⟨var, st1⟩ := r
      simp only [hg] at h
      have s1 := getVariable_step [] st x (some t) var st1 hg
      have s2 : Step [] st1 (st1.emit (.store (.param i) var.addr)) := Step.emitPlain st1 _ rfl (by simp)
      have s3 := ih (i + 1) _ st' h
      exact (s1.trans s2 (by simp)).trans s3 (by simp)

/-- the complete event log of a generated function -/
theorem genFunctionSt_step (params : List (String × Ty)) (ret : Option Ty) (body : PStmt) (st : St)
    (h : genFunctionSt params ret body = .ok st) : SegP [] 1 0 st.nblocks st.nvals st.log := by
  simp only [genFunctionSt] at h
  cases hp : genParams params 0 initSt with
  | error er => simp [hp] at h
  | ok st0 =>
    simp only [hp] at h
    cases hb : genStmt ret.isNone body st0 with
    | error er => simp [hb] at h
    | ok st1 =>
      simp only [hb] at h
      have s0 := genParams_step params 0 initSt st0 hp
      have l0 : st0.loops = [] := s0.2
      have s1 := genStmt_step ret.isNone body st0 st1 (by rw [l0]; simp [loopTargets]) hb
      rw [l0] at s1
      have s01 : Step [] initSt st1 := s0.trans (by simpa [loopTargets] using s1) (by simp)
      have fin : ∀ st2, Step [] st1 st2 → SegP [] 1 0 st2.nblocks st2.nvals st2.log := by
        intro st2 s2
        obtain ⟨⟨seg, hl, hs⟩, _⟩ := s01.trans s2 (by simp)
        simp only [initSt, List.nil_append] at hl hs
        rw [hl]; exact hs
      split at h
      · simp only [Except.ok.injEq] at h; subst h; exact fin st1 (Step.refl [] st1)
      · split at h
        · split at h
          · simp only [Except.ok.injEq] at h; subst h; exact fin st1 (Step.refl [] st1)
          · simp at h
        · simp only [Except.ok.injEq] at h; subst h
          exact fin _ (Step.emitPlain st1 .exit rfl (by simp))

end Proofs.Py2IrCFG
