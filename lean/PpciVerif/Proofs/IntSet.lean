import PpciVerif.Model.IntSet
import PpciVerif.Spec.IntSet
/-! Helper lemmas for C33 (integer range sets). -/
namespace Proofs.IntSet
open Model.IntSet Spec.IntSet

/-! ### denotation -/

theorem mem_nil (v : Int) : ¬ Mem [] v := by simp [Mem]

theorem mem_cons (r : Int × Int) (t : List (Int × Int)) (v : Int) :
    Mem (r :: t) v ↔ InR r v ∨ Mem t v := by simp [Mem]

theorem mem_append (a b : List (Int × Int)) (v : Int) :
    Mem (a ++ b) v ↔ Mem a v ∨ Mem b v := by
  simp only [Mem, List.mem_append]
  constructor
  · rintro ⟨r, h | h, hv⟩
    · exact Or.inl ⟨r, h, hv⟩
    · exact Or.inr ⟨r, h, hv⟩
  · rintro (⟨r, h, hv⟩ | ⟨r, h, hv⟩)
    · exact ⟨r, Or.inl h, hv⟩
    · exact ⟨r, Or.inr h, hv⟩

theorem mem_singleton (r : Int × Int) (v : Int) : Mem [r] v ↔ InR r v := by simp [Mem]

theorem memB_iff (rs : List (Int × Int)) (v : Int) : memB rs v = true ↔ Mem rs v := by
  simp [memB, Mem, InR]

/-! ### canonical form -/

theorem canonB_iff : ∀ rs : List (Int × Int), canonB rs = true ↔ Canon rs
  | [] => by simp [canonB, Canon]
  | [r] => by simp [canonB, Canon]
  | r :: s :: t => by
    have ih := canonB_iff (s :: t)
    simp only [canonB, Canon, Bool.and_eq_true, decide_eq_true_eq, ih, and_assoc]

theorem canon_tail {r : Int × Int} {t : List (Int × Int)} (h : Canon (r :: t)) : Canon t := by
  cases t with
  | nil => trivial
  | cons s t => exact h.2.2

theorem canon_head {r : Int × Int} {t : List (Int × Int)} (h : Canon (r :: t)) : r.1 ≤ r.2 := by
  cases t with
  | nil => exact h
  | cons s t => exact h.1

theorem canon_nonempty : ∀ {rs : List (Int × Int)}, Canon rs → ∀ x ∈ rs, x.1 ≤ x.2
  | [], _, x, hx => by simp at hx
  | r :: t, h, x, hx => by
    rcases List.mem_cons.1 hx with rfl | hx
    · exact canon_head h
    · exact canon_nonempty (canon_tail h) x hx

/-- every later range starts beyond `r.2 + 1` -/
theorem canon_lb : ∀ {t : List (Int × Int)} {r : Int × Int}, Canon (r :: t) → ∀ x ∈ t, r.2 + 1 < x.1
  | [], _, _, x, hx => by simp at hx
  | s :: t, r, h, x, hx => by
    have h1 : r.2 + 1 < s.1 := h.2.1
    rcases List.mem_cons.1 hx with rfl | hx
    · exact h1
    · have := canon_lb (r := s) h.2.2 x hx
      have := canon_head h.2.2
      omega

theorem canon_mem_lb {t : List (Int × Int)} {r : Int × Int} (h : Canon (r :: t)) (v : Int)
    (hv : Mem t v) : r.2 + 1 < v := by
  obtain ⟨x, hx, hxv⟩ := hv
  have := canon_lb h x hx
  have := hxv.1
  omega

theorem canon_cons {r : Int × Int} {t : List (Int × Int)} (hr : r.1 ≤ r.2) (ht : Canon t)
    (hlb : ∀ x ∈ t, r.2 + 1 < x.1) : Canon (r :: t) := by
  cases t with
  | nil => exact hr
  | cons s t => exact ⟨hr, hlb s (by simp), ht⟩

/-! ### sorting -/

theorem mem_insertSorted (x : Int × Int) : ∀ (l : List (Int × Int)) (y : Int × Int),
    y ∈ insertSorted x l ↔ y = x ∨ y ∈ l
  | [], y => by simp [insertSorted]
  | z :: t, y => by
    unfold insertSorted
    split
    · simp
    · simp only [List.mem_cons, mem_insertSorted x t y]
      constructor
      · rintro (h | h | h) <;> simp [h]
      · rintro (h | h | h) <;> simp [h]

theorem mem_sort : ∀ (l : List (Int × Int)) (y : Int × Int), y ∈ sort l ↔ y ∈ l
  | [], y => by simp [sort]
  | x :: t, y => by
    simp only [sort, mem_insertSorted, mem_sort t y, List.mem_cons]

/-- ascending in the first component -/
def SortedFst (l : List (Int × Int)) : Prop := List.Pairwise (fun a b => a.1 ≤ b.1) l

theorem sortedFst_insert (x : Int × Int) : ∀ (l : List (Int × Int)), SortedFst l → SortedFst (insertSorted x l)
  | [], _ => by simp [insertSorted, SortedFst]
  | y :: t, h => by
    unfold SortedFst at h
    rw [List.pairwise_cons] at h
    unfold insertSorted
    split
    · rename_i hle
      simp only [lexLe, Bool.or_eq_true, Bool.and_eq_true, decide_eq_true_eq] at hle
      have hxy : x.1 ≤ y.1 := by omega
      unfold SortedFst
      refine List.pairwise_cons.2 ⟨?_, List.pairwise_cons.2 h⟩
      intro z hz
      rcases List.mem_cons.1 hz with rfl | hz
      · exact hxy
      · have := h.1 z hz; omega
    · rename_i hle
      simp only [lexLe, Bool.or_eq_true, Bool.and_eq_true, decide_eq_true_eq] at hle
      have hyx : y.1 ≤ x.1 := by omega
      unfold SortedFst
      refine List.pairwise_cons.2 ⟨?_, sortedFst_insert x t h.2⟩
      intro z hz
      rcases (mem_insertSorted x t z).1 hz with rfl | hz
      · exact hyx
      · exact h.1 z hz

theorem sortedFst_sort : ∀ (l : List (Int × Int)), SortedFst (sort l)
  | [] => by simp [sort, SortedFst]
  | x :: t => sortedFst_insert x _ (sortedFst_sort t)

/-! ### merge_overlapping_intervals -/

theorem mergeLoop_spec : ∀ (t : List (Int × Int)) (r : Int × Int), r.1 ≤ r.2 →
    (∀ x ∈ t, r.1 ≤ x.1 ∧ x.1 ≤ x.2) → SortedFst t →
    Canon (mergeLoop r t) ∧ (∀ x ∈ mergeLoop r t, r.1 ≤ x.1) ∧
      (∀ v, Mem (mergeLoop r t) v ↔ Mem (r :: t) v)
  | [], r, hr, _, _ => by
    simp only [mergeLoop]
    exact ⟨hr, by simp, by simp⟩
  | s :: t, r, hr, hall, hs => by
    have hs' := List.pairwise_cons.1 hs
    have hsr := hall s (by simp)
    unfold mergeLoop
    split
    · rename_i hgap
      have ih := mergeLoop_spec t s hsr.2
        (fun x hx => ⟨hs'.1 x hx, (hall x (by simp [hx])).2⟩) hs'.2
      refine ⟨canon_cons hr ih.1 (fun x hx => ?_), ?_, fun v => ?_⟩
      · have := ih.2.1 x hx; omega
      · intro x hx
        rcases List.mem_cons.1 hx with rfl | hx
        · omega
        · have := ih.2.1 x hx; omega
      · rw [mem_cons, ih.2.2 v, mem_cons r]
    · rename_i hgap
      have ih := mergeLoop_spec t (r.1, max r.2 s.2) (by simp only; omega)
        (fun x hx => by simpa using hall x (by simp [hx])) hs'.2
      refine ⟨ih.1, fun x hx => by simpa using ih.2.1 x hx, fun v => ?_⟩
      rw [ih.2.2 v, mem_cons, mem_cons r, mem_cons s, ← or_assoc]
      have : InR (r.1, max r.2 s.2) v ↔ InR r v ∨ InR s v := by
        simp only [InR]; omega
      rw [this]

theorem merge_spec (l : List (Int × Int)) (hne : ∀ x ∈ l, x.1 ≤ x.2) (hs : SortedFst l) :
    Canon (merge l) ∧ ∀ v, Mem (merge l) v ↔ Mem l v := by
  cases l with
  | nil => exact ⟨trivial, fun v => Iff.rfl⟩
  | cons r t =>
    have hs' := List.pairwise_cons.1 hs
    have := mergeLoop_spec t r (hne r (by simp))
      (fun x hx => ⟨hs'.1 x hx, hne x (by simp [hx])⟩) hs'.2
    exact ⟨this.1, this.2.2⟩

theorem mk_spec (xs : List (Int × Int)) : Canon (mk xs) ∧ ∀ v, Mem (mk xs) v ↔ Mem xs v := by
  have h := merge_spec (sort (xs.filter (fun r => decide (r.1 ≤ r.2))))
    (fun x hx => by
      have := (mem_sort _ x).1 hx
      simpa using (List.mem_filter.1 this).2)
    (sortedFst_sort _)
  refine ⟨h.1, fun v => ?_⟩
  rw [show mk xs = merge (sort (xs.filter (fun r => decide (r.1 ≤ r.2)))) from rfl, h.2 v]
  simp only [Mem, mem_sort, List.mem_filter, decide_eq_true_eq]
  constructor
  · rintro ⟨r, ⟨hr, _⟩, hv⟩; exact ⟨r, hr, hv⟩
  · rintro ⟨r, hr, hv⟩; exact ⟨r, ⟨hr, by have := hv.1; have := hv.2; omega⟩, hv⟩

/-! ### intersection / difference loops -/

theorem mem_out (c : Prop) [Decidable c] (r : Int × Int) (v : Int) :
    Mem (if c then [r] else []) v ↔ c ∧ InR r v := by
  split <;> simp [Mem, *]

/-- case split on the two opaque tail memberships, then linear arithmetic -/
macro "split_mem " i:term ", " j:term : tactic => `(tactic|
  (by_cases hi : $i <;> by_cases hj : $j <;>
   simp only [hi, hj, true_implies, false_implies, and_true, and_false, or_true, or_false,
     true_and, false_and, true_or, false_or, not_true_eq_false, not_false_eq_true, true_iff, iff_true, false_iff, iff_false] at * <;> omega))

theorem interLoop_spec (a b : List (Int × Int)) (ha : Canon a) (hb : Canon b) (v : Int) :
    Mem (interLoop a b) v ↔ Mem a v ∧ Mem b v := by
  fun_induction interLoop a b with
  | case1 b => simp [mem_nil]
  | case2 r i => simp [mem_nil]
  | case3 r i s j x y out h1 h2 ih =>
    have ih := ih (canon_tail ha) (canon_tail hb)
    have la := canon_mem_lb ha v
    have lb := canon_mem_lb hb v
    have ra := canon_head ha
    have rb := canon_head hb
    have hout : Mem out v ↔ x ≤ y ∧ InR (x, y) v := mem_out _ _ _
    rw [mem_append, ih, mem_cons, mem_cons, hout]
    simp only [InR, x, y] at *
    split_mem Mem i v, Mem j v
  | case4 r i s j x y out h1 h2 ih =>
    have ih := ih (canon_tail ha) hb
    have la := canon_mem_lb ha v
    have lb := canon_mem_lb hb v
    have ra := canon_head ha
    have rb := canon_head hb
    have hout : Mem out v ↔ x ≤ y ∧ InR (x, y) v := mem_out _ _ _
    rw [mem_append, ih, mem_cons, mem_cons, hout]
    simp only [InR, x, y] at *
    split_mem Mem i v, Mem j v
  | case5 r i s j x y out h1 h2 ih =>
    have ih := ih ha (canon_tail hb)
    have la := canon_mem_lb ha v
    have lb := canon_mem_lb hb v
    have ra := canon_head ha
    have rb := canon_head hb
    have hout : Mem out v ↔ x ≤ y ∧ InR (x, y) v := mem_out _ _ _
    rw [mem_append, ih, mem_cons, mem_cons, hout]
    simp only [InR, x, y] at *
    split_mem Mem i v, Mem j v
  | case6 r i s j x y out h1 h2 ih =>
    simp only [y] at h1 h2; omega

theorem diffLoop_spec (a b : List (Int × Int)) (ha : Canon a) (hb : Canon b) (v : Int) :
    Mem (diffLoop a b) v ↔ Mem a v ∧ ¬ Mem b v := by
  fun_induction diffLoop a b with
  | case1 b => simp [mem_nil]
  | case2 r i ih =>
    have ih := ih (canon_tail ha) trivial
    rw [mem_cons, ih, mem_cons]
    simp [mem_nil]
  | case3 r i s j h1 ih =>
    have ih := ih ha (canon_tail hb)
    have la := canon_mem_lb ha v
    have lb := canon_mem_lb hb v
    have ra := canon_head ha
    have rb := canon_head hb
    rw [ih, mem_cons, mem_cons]
    simp only [InR] at *
    split_mem Mem i v, Mem j v
  | case4 r i s j h1 h2 ih =>
    have ih := ih (canon_tail ha) hb
    have la := canon_mem_lb ha v
    have lb := canon_mem_lb hb v
    have ra := canon_head ha
    have rb := canon_head hb
    rw [mem_cons, ih, mem_cons, mem_cons]
    simp only [InR] at *
    split_mem Mem i v, Mem j v
  | case5 r i s j h1 h2 out h3 ih =>
    have la := canon_mem_lb ha v
    have lb := canon_mem_lb hb v
    have ra := canon_head ha
    have rb := canon_head hb
    have hc : Canon ((s.2 + 1, r.2) :: i) :=
      canon_cons (by simp only; omega) (canon_tail ha) (fun x hx => canon_lb ha x hx)
    have ih := ih hc (canon_tail hb)
    have hout : Mem out v ↔ r.1 < s.1 ∧ InR (r.1, s.1 - 1) v := mem_out _ _ _
    rw [mem_append, ih, mem_cons, mem_cons, mem_cons, hout]
    simp only [InR] at *
    split_mem Mem i v, Mem j v
  | case6 r i s j h1 h2 out h3 ih =>
    have la := canon_mem_lb ha v
    have lb := canon_mem_lb hb v
    have ra := canon_head ha
    have rb := canon_head hb
    have ih := ih (canon_tail ha) hb
    have hout : Mem out v ↔ r.1 < s.1 ∧ InR (r.1, s.1 - 1) v := mem_out _ _ _
    rw [mem_append, ih, mem_cons, mem_cons, hout]
    simp only [InR] at *
    split_mem Mem i v, Mem j v

/-! ### uniqueness of the canonical form -/

theorem canon_mem_ge {s : Int × Int} {j : List (Int × Int)} (h : Canon (s :: j)) {v : Int}
    (hv : Mem (s :: j) v) : s.1 ≤ v := by
  rcases (mem_cons s j v).1 hv with hv | hv
  · exact hv.1
  · have := canon_mem_lb h v hv
    have := canon_head h
    omega

theorem canon_unique : ∀ (a b : List (Int × Int)), Canon a → Canon b →
    (∀ v, Mem a v ↔ Mem b v) → a = b
  | [], [], _, _, _ => rfl
  | [], s :: j, _, hb, h => by
    have : Mem (s :: j) s.1 := (mem_cons s j _).2 (Or.inl ⟨Int.le_refl _, canon_head hb⟩)
    exact absurd ((h _).2 this) (mem_nil _)
  | r :: i, [], ha, _, h => by
    have : Mem (r :: i) r.1 := (mem_cons r i _).2 (Or.inl ⟨Int.le_refl _, canon_head ha⟩)
    exact absurd ((h _).1 this) (mem_nil _)
  | r :: i, s :: j, ha, hb, h => by
    have ra := canon_head ha
    have rb := canon_head hb
    have hr1 : Mem (r :: i) r.1 := (mem_cons r i _).2 (Or.inl ⟨Int.le_refl _, ra⟩)
    have hs1 : Mem (s :: j) s.1 := (mem_cons s j _).2 (Or.inl ⟨Int.le_refl _, rb⟩)
    have e1 : r.1 = s.1 := by
      have := canon_mem_ge hb ((h _).1 hr1)
      have := canon_mem_ge ha ((h _).2 hs1)
      omega
    have e2 : r.2 = s.2 := by
      by_cases hlt : r.2 < s.2
      · have hm : Mem (s :: j) (r.2 + 1) := (mem_cons s j _).2 (Or.inl ⟨by omega, by omega⟩)
        rcases (mem_cons r i _).1 ((h _).2 hm) with hv | hv
        · have := hv.2; omega
        · have := canon_mem_lb ha _ hv; omega
      · by_cases hgt : s.2 < r.2
        · have hm : Mem (r :: i) (s.2 + 1) := (mem_cons r i _).2 (Or.inl ⟨by omega, by omega⟩)
          rcases (mem_cons s j _).1 ((h _).1 hm) with hv | hv
          · have := hv.2; omega
          · have := canon_mem_lb hb _ hv; omega
        · omega
    have ers : r = s := Prod.ext e1 e2
    subst ers
    have : i = j := canon_unique i j (canon_tail ha) (canon_tail hb) (fun v => by
      constructor
      · intro hv
        have hl := canon_mem_lb ha v hv
        rcases (mem_cons r j v).1 ((h v).1 ((mem_cons r i v).2 (Or.inr hv))) with hx | hx
        · have := hx.2; omega
        · exact hx
      · intro hv
        have hl := canon_mem_lb hb v hv
        rcases (mem_cons r i v).1 ((h v).2 ((mem_cons r j v).2 (Or.inr hv))) with hx | hx
        · have := hx.2; omega
        · exact hx)
    rw [this]

/-- the constructor leaves canonical lists unchanged -/
theorem mk_canon_id (a : List (Int × Int)) (h : Canon a) : mk a = a :=
  canon_unique _ _ (mk_spec a).1 h (mk_spec a).2

/-! ### iteration and cardinality -/

theorem mem_rangeFrom : ∀ (n : Nat) (a v : Int), v ∈ rangeFrom a n ↔ a ≤ v ∧ v < a + n
  | 0, a, v => by simp [rangeFrom]
  | n + 1, a, v => by
    simp only [rangeFrom, List.mem_cons, mem_rangeFrom n (a + 1) v]
    omega

theorem length_rangeFrom : ∀ (n : Nat) (a : Int), (rangeFrom a n).length = n
  | 0, _ => rfl
  | n + 1, a => by simp [rangeFrom, length_rangeFrom n]

theorem sorted_rangeFrom : ∀ (n : Nat) (a : Int), List.Pairwise (· < ·) (rangeFrom a n)
  | 0, _ => by simp [rangeFrom]
  | n + 1, a => by
    simp only [rangeFrom, List.pairwise_cons]
    refine ⟨fun v hv => ?_, sorted_rangeFrom n (a + 1)⟩
    have := (mem_rangeFrom n (a + 1) v).1 hv
    omega

theorem mem_pyRange (a b v : Int) : v ∈ pyRange a b ↔ a ≤ v ∧ v < b := by
  unfold pyRange
  rw [mem_rangeFrom]
  omega

theorem mem_iter : ∀ (rs : List (Int × Int)) (v : Int), v ∈ iter rs ↔ Mem rs v
  | [], v => by simp [iter, mem_nil]
  | r :: t, v => by
    simp only [iter, List.mem_append, mem_pyRange, mem_iter t v, mem_cons, InR]
    by_cases hm : Mem t v <;> simp only [hm, or_true, or_false] <;> omega

theorem iter_sorted : ∀ (rs : List (Int × Int)), Canon rs → List.Pairwise (· < ·) (iter rs)
  | [], _ => by simp [iter]
  | r :: t, h => by
    simp only [iter, List.pairwise_append]
    refine ⟨sorted_rangeFrom _ _, iter_sorted t (canon_tail h), fun x hx y hy => ?_⟩
    have := (mem_pyRange _ _ _).1 hx
    have := canon_mem_lb h y ((mem_iter t y).1 hy)
    omega

theorem cardinality_eq_length : ∀ (rs : List (Int × Int)), Canon rs →
    cardinality rs = ((iter rs).length : Int)
  | [], _ => by simp [cardinality, iter]
  | r :: t, h => by
    have := canon_head h
    simp only [cardinality, iter, List.length_append, pyRange, length_rangeFrom,
      cardinality_eq_length t (canon_tail h)]
    omega

/-- two strictly ascending lists with the same members are equal -/
theorem sorted_ext : ∀ (l₁ l₂ : List Int), List.Pairwise (· < ·) l₁ → List.Pairwise (· < ·) l₂ →
    (∀ v, v ∈ l₁ ↔ v ∈ l₂) → l₁ = l₂
  | [], [], _, _, _ => rfl
  | [], y :: t, _, _, h => by have := (h y).2 (by simp); simp at this
  | x :: t, [], _, _, h => by have := (h x).1 (by simp); simp at this
  | x :: t₁, y :: t₂, h₁, h₂, h => by
    rw [List.pairwise_cons] at h₁ h₂
    have exy : x = y := by
      have hx := (h x).1 (by simp)
      have hy := (h y).2 (by simp)
      rcases List.mem_cons.1 hx with hx | hx
      · exact hx
      · rcases List.mem_cons.1 hy with hy | hy
        · exact hy.symm
        · have := h₁.1 y hy; have := h₂.1 x hx; omega
    subst exy
    have : t₁ = t₂ := sorted_ext t₁ t₂ h₁.2 h₂.2 (fun v => by
      constructor
      · intro hv
        rcases List.mem_cons.1 ((h v).1 (List.mem_cons_of_mem _ hv)) with e | e
        · have := h₁.1 v hv; omega
        · exact e
      · intro hv
        rcases List.mem_cons.1 ((h v).2 (List.mem_cons_of_mem _ hv)) with e | e
        · have := h₂.1 v hv; omega
        · exact e)
    rw [this]

/-! ### bisect / contains -/

theorem getD_eq (rs : List (Int × Int)) (d : Int × Int) (k : Nat) (hk : k < rs.length) :
    rs.getD k d = rs[k] := by
  simp [List.getD, hk]

theorem getD_mem (rs : List (Int × Int)) (d : Int × Int) (k : Nat) (hk : k < rs.length) :
    rs.getD k d ∈ rs := by
  rw [getD_eq rs d k hk]
  exact List.getElem_mem hk

theorem canon_idx (d : Int × Int) : ∀ (rs : List (Int × Int)), Canon rs → ∀ i j, i < j → j < rs.length →
    (rs.getD i d).2 + 1 < (rs.getD j d).1
  | [], _, _, _, _, hj => by simp at hj
  | r :: t, h, i, j, hij, hj => by
    cases j with
    | zero => omega
    | succ j =>
      simp only [List.length_cons] at hj
      cases i with
      | zero =>
        simp only [List.getD_cons_zero, List.getD_cons_succ]
        exact canon_lb h _ (getD_mem t d j (by omega))
      | succ i =>
        simp only [List.getD_cons_succ]
        exact canon_idx d t (canon_tail h) i j (by omega) (by omega)

theorem canon_idx_ne (d : Int × Int) (rs : List (Int × Int)) (h : Canon rs) (k : Nat) (hk : k < rs.length) :
    (rs.getD k d).1 ≤ (rs.getD k d).2 := canon_nonempty h _ (getD_mem rs d k hk)

theorem fst_lt (rs : List (Int × Int)) (h : Canon rs) (i j : Nat) (hij : i < j) (hj : j < rs.length) :
    (rs.getD i (0, 0)).1 < (rs.getD j (0, 0)).1 := by
  have := canon_idx (0, 0) rs h i j hij hj
  have := canon_idx_ne (0, 0) rs h i (by omega)
  omega

theorem bisectLoop_spec (rs : List (Int × Int)) (hc : Canon rs) (v : Int) (lo hi : Nat)
    (hlh : lo ≤ hi) (hhi : hi ≤ rs.length)
    (hlo : ∀ k, k < lo → (rs.getD k (0, 0)).1 < v)
    (hup : ∀ k, hi ≤ k → k < rs.length → v ≤ (rs.getD k (0, 0)).1) :
    bisectLoop rs v lo hi ≤ rs.length ∧
    (∀ k, k < bisectLoop rs v lo hi → (rs.getD k (0, 0)).1 < v) ∧
    (∀ k, bisectLoop rs v lo hi ≤ k → k < rs.length → v ≤ (rs.getD k (0, 0)).1) := by
  fun_induction bisectLoop rs v lo hi with
  | case1 lo hi h mid hle ih =>
    apply ih (by omega) (by omega) hlo
    intro k hk hkl
    by_cases e : k = mid
    · subst e; exact hle
    · have := fst_lt rs hc mid k (by omega) hkl
      omega
  | case2 lo hi h mid hle ih =>
    apply ih (by omega) (by omega) _ hup
    intro k hk
    by_cases e : k = mid
    · subst e; omega
    · have := fst_lt rs hc k mid (by omega) (by omega)
      omega
  | case3 lo hi h =>
    have : lo = hi := by omega
    subst this
    exact ⟨hhi, hlo, hup⟩

theorem bisect_spec (rs : List (Int × Int)) (hc : Canon rs) (v : Int) :
    bisect rs v ≤ rs.length ∧
    (∀ k, k < bisect rs v → (rs.getD k (0, 0)).1 < v) ∧
    (∀ k, bisect rs v ≤ k → k < rs.length → v ≤ (rs.getD k (0, 0)).1) :=
  bisectLoop_spec rs hc v 0 rs.length (by omega) (Nat.le_refl _) (fun k hk => by omega)
    (fun k h1 h2 => by omega)

theorem mem_iff_idx (rs : List (Int × Int)) (v : Int) :
    Mem rs v ↔ ∃ k, k < rs.length ∧ InR (rs.getD k (0, 0)) v := by
  constructor
  · rintro ⟨r, hr, hv⟩
    obtain ⟨k, hk, e⟩ := List.mem_iff_getElem.1 hr
    exact ⟨k, hk, by rw [getD_eq rs _ k hk, e]; exact hv⟩
  · rintro ⟨k, hk, hv⟩
    exact ⟨_, getD_mem rs _ k hk, hv⟩

theorem contains_iff (rs : List (Int × Int)) (hc : Canon rs) (v : Int) :
    contains rs v = true ↔ Mem rs v := by
  obtain ⟨hlen, hlow, hupp⟩ := bisect_spec rs hc v
  rw [mem_iff_idx]
  simp only [contains, Bool.or_eq_true, Bool.and_eq_true, decide_eq_true_eq]
  generalize bisect rs v = idx at *
  constructor
  · rintro (⟨h1, h2⟩ | ⟨⟨h1, h2⟩, h3⟩)
    · refine ⟨idx, h1, ?_, ?_⟩
      · omega
      · have := canon_idx_ne (0, 0) rs hc idx h1; omega
    · exact ⟨idx - 1, by omega, h2, h3⟩
  · rintro ⟨k, hk, hv1, hv2⟩
    by_cases hki : idx ≤ k
    · left
      have h1 := hupp k hki hk
      have hidx : idx < rs.length := by omega
      have h2 := hupp idx (Nat.le_refl _) hidx
      by_cases e : k = idx
      · subst e; exact ⟨hk, by omega⟩
      · have := fst_lt rs hc idx k (by omega) hk
        omega
    · right
      have hp := hlow (idx - 1) (by omega)
      by_cases e : k = idx - 1
      · subst e; exact ⟨⟨by omega, hv1⟩, hv2⟩
      · have := canon_idx (0, 0) rs hc k (idx - 1) (by omega) (by omega)
        omega

/-! ### every object reachable through the API -/

/-- expressions over the public API: constructor calls combined with `| & - ^` -/
inductive SetExpr
  | lit (xs : List (Int × Int))
  | union (a b : SetExpr)
  | inter (a b : SetExpr)
  | diff (a b : SetExpr)
  | sym (a b : SetExpr)

/-- what the code computes (the `ranges` of the resulting object) -/
def SetExpr.eval : SetExpr → List (Int × Int)
  | .lit xs => mk xs
  | .union a b => Model.IntSet.union a.eval b.eval
  | .inter a b => Model.IntSet.inter a.eval b.eval
  | .diff a b => Model.IntSet.diff a.eval b.eval
  | .sym a b => Model.IntSet.symDiff a.eval b.eval

/-- what it means as a set of integers -/
def SetExpr.sem : SetExpr → Int → Prop
  | .lit xs, v => Mem xs v
  | .union a b, v => a.sem v ∨ b.sem v
  | .inter a b, v => a.sem v ∧ b.sem v
  | .diff a b, v => a.sem v ∧ ¬ b.sem v
  | .sym a b, v => (a.sem v ∧ ¬ b.sem v) ∨ (b.sem v ∧ ¬ a.sem v)

theorem setExpr_spec : ∀ e : SetExpr, Canon e.eval ∧ ∀ v, Mem e.eval v ↔ e.sem v
  | .lit xs => mk_spec xs
  | .union a b => by
    have ha := setExpr_spec a; have hb := setExpr_spec b
    refine ⟨(mk_spec _).1, fun v => ?_⟩
    simp only [SetExpr.eval, SetExpr.sem, Model.IntSet.union]
    rw [(mk_spec _).2 v, mem_append, ha.2 v, hb.2 v]
  | .inter a b => by
    have ha := setExpr_spec a; have hb := setExpr_spec b
    refine ⟨(mk_spec _).1, fun v => ?_⟩
    simp only [SetExpr.eval, SetExpr.sem, Model.IntSet.inter]
    rw [(mk_spec _).2 v, interLoop_spec _ _ ha.1 hb.1 v, ha.2 v, hb.2 v]
  | .diff a b => by
    have ha := setExpr_spec a; have hb := setExpr_spec b
    refine ⟨(mk_spec _).1, fun v => ?_⟩
    simp only [SetExpr.eval, SetExpr.sem, Model.IntSet.diff]
    rw [(mk_spec _).2 v, diffLoop_spec _ _ ha.1 hb.1 v, ha.2 v, hb.2 v]
  | .sym a b => by
    have ha := setExpr_spec a; have hb := setExpr_spec b
    refine ⟨(mk_spec _).1, fun v => ?_⟩
    simp only [SetExpr.eval, SetExpr.sem, Model.IntSet.symDiff, Model.IntSet.union, Model.IntSet.diff]
    rw [(mk_spec _).2 v, mem_append, (mk_spec _).2 v, (mk_spec _).2 v,
      diffLoop_spec _ _ ha.1 hb.1 v, diffLoop_spec _ _ hb.1 ha.1 v, ha.2 v, hb.2 v]

end Proofs.IntSet
