import PpciVerif.Proofs.ElfW
/-!
C17, second layer: the section header table, the symbol table and the RELA tables of a written file.

* `Ext`   : every writer step only appends to the file body, to `section_headers` and to the string table
* `Inv`   : the name dictionary agrees with the string table (`StrWF`) and every entry of `section_numbers`
            is the 1-based index of a header whose `sh_name` resolves to that name
* `Step`  : `Ext` + preservation of `Inv`; proved for every step function of the writer
-/
namespace Proofs.ElfW
open Spec.Elf Model.ElfW

/-! ### monotone state -/

structure Ext (s s' : St) : Prop where
  base : s'.base = s.base
  body : ∃ m, s'.body = s.body ++ m
  shdrs : ∃ m, s'.shdrs = s.shdrs ++ m
  strtab : ∃ m, s'.strtab = s.strtab ++ m

theorem Ext.refl (s : St) : Ext s s := ⟨rfl, ⟨[], by simp⟩, ⟨[], by simp⟩, ⟨[], by simp⟩⟩

theorem Ext.trans {a b c : St} (h1 : Ext a b) (h2 : Ext b c) : Ext a c := by
  obtain ⟨b1, ⟨m1, e1⟩, ⟨n1, f1⟩, ⟨k1, g1⟩⟩ := h1
  obtain ⟨b2, ⟨m2, e2⟩, ⟨n2, f2⟩, ⟨k2, g2⟩⟩ := h2
  exact ⟨b2.trans b1, ⟨m1 ++ m2, by rw [e2, e1]; simp⟩, ⟨n1 ++ n2, by rw [f2, f1]; simp⟩,
    ⟨k1 ++ k2, by rw [g2, g1]; simp⟩⟩

theorem Ext.grow {s s' : St} (h : Ext s s') : Grow s s' := ⟨h.base, h.body⟩

theorem Ext.strAt {s s' : St} (h : Ext s s') {off : Nat} {n : List Nat} (hs : strAt s.strtab off = some n) :
    strAt s'.strtab off = some n := by
  obtain ⟨m, hm⟩ := h.strtab
  rw [hm]; exact strAt_mono _ _ _ _ hs

theorem Ext.getElem {s s' : St} (h : Ext s s') {i : Nat} {hd : Hdr} (hs : s.shdrs[i]? = some hd) :
    s'.shdrs[i]? = some hd := by
  obtain ⟨m, hm⟩ := h.shdrs
  rw [hm]
  have hi : i < s.shdrs.length := (List.getElem?_eq_some_iff.mp hs).1
  rw [List.getElem?_append_left hi]; exact hs

/-! ### invariant -/

/-- every entry of `section_numbers` is the 1-based index of a header whose name resolves to the key -/
def NumsOK (s : St) : Prop :=
  ∀ name n, assoc name s.secnums = some n →
    1 ≤ n ∧ ∃ hd nm, s.shdrs[n - 1]? = some hd ∧ hd.get .sh_name = ((nm : Nat) : Int) ∧ strAt s.strtab nm = some name

structure Inv (s : St) : Prop where
  strwf : StrWF s
  nums : NumsOK s

def Step (s s' : St) : Prop := Ext s s' ∧ (Inv s → Inv s')

theorem Step.refl (s : St) : Step s s := ⟨Ext.refl s, id⟩

theorem Step.trans {a b c : St} (h1 : Step a b) (h2 : Step b c) : Step a c :=
  ⟨h1.1.trans h2.1, fun i => h2.2 (h1.2 i)⟩

/-- a state change that touches neither the string table nor the headers nor `section_numbers` -/
theorem step_of_frame {s s' : St} (hb : s'.base = s.base) (hbody : ∃ m, s'.body = s.body ++ m)
    (h1 : s'.shdrs = s.shdrs) (h2 : s'.strtab = s.strtab) (h3 : s'.names = s.names) (h4 : s'.secnums = s.secnums) :
    Step s s' := by
  refine ⟨⟨hb, hbody, ⟨[], by simp [h1]⟩, ⟨[], by simp [h2]⟩⟩, fun i => ⟨?_, ?_⟩⟩
  · intro n off h; rw [h3] at h; rw [h2]; exact i.strwf n off h
  · intro name n h; rw [h4] at h; rw [h1, h2]; exact i.nums name n h

theorem write_step (s : St) (bs : List Nat) : Step s (s.write bs) :=
  step_of_frame rfl ⟨bs, rfl⟩ rfl rfl rfl rfl

theorem alignTo_step {s s' : St} {a : Nat} (h : s.alignTo a = .ok s') : Step s s' := by
  have := (alignTo_spec h).2.1
  subst this
  exact write_step _ _

theorem getString_frame2 (s : St) (t : List Nat) :
    (s.getString t).1.shdrs = s.shdrs ∧ (s.getString t).1.secnums = s.secnums ∧ (s.getString t).1.body = s.body ∧
    (s.getString t).1.base = s.base := by
  have := getString_frame s t
  exact ⟨this.2.2.2.1, this.2.2.2.2.1, this.2.1, this.1⟩

theorem getString_strtab (s : St) (t : List Nat) : ∃ m, (s.getString t).1.strtab = s.strtab ++ m := by
  unfold St.getString
  split
  · exact ⟨[], by simp⟩
  · exact ⟨t ++ [0], by simp⟩

theorem getString_ext (s : St) (t : List Nat) : Ext s (s.getString t).1 := by
  have hf := getString_frame2 s t
  exact ⟨hf.2.2.2, ⟨[], by simp [hf.2.2.1]⟩, ⟨[], by simp [hf.1]⟩, getString_strtab s t⟩

theorem NumsOK.ext {s s' : St} (e : Ext s s') (hsn : s'.secnums = s.secnums) (h : NumsOK s) : NumsOK s' := by
  intro name n hn
  rw [hsn] at hn
  obtain ⟨h1, hd, nm, h2, h3, h4⟩ := h name n hn
  exact ⟨h1, hd, nm, e.getElem h2, h3, e.strAt h4⟩

theorem getString_step (s : St) (t : List Nat) (hn : NoNul t) : Step s (s.getString t).1 := by
  refine ⟨getString_ext s t, fun i => ⟨(getString_spec s t hn i.strwf).1, ?_⟩⟩
  exact i.nums.ext (getString_ext s t) (getString_frame2 s t).2.1

/-- `addHeader`: the new header is the last one, its name resolves, and (when registered) its number is recorded -/
theorem addHeader_spec (s : St) (name : List Nat) (mk : Nat → Hdr) (reg : Bool) (hn : NoNul name) (hw : StrWF s) :
    ∃ nm, (s.addHeader name mk reg).shdrs = s.shdrs ++ [mk nm] ∧
      strAt (s.addHeader name mk reg).strtab nm = some name ∧
      (s.addHeader name mk reg).secnums = (if reg then (name, s.shdrs.length + 1) :: s.secnums else s.secnums) ∧
      (s.addHeader name mk reg).strtab = (s.getString name).1.strtab ∧
      (s.addHeader name mk reg).names = (s.getString name).1.names := by
  unfold St.addHeader
  have hf := getString_frame2 s name
  have hs := getString_spec s name hn hw
  rcases hg : s.getString name with ⟨s1, nm⟩
  rw [hg] at hf hs
  simp only at hf hs ⊢
  refine ⟨nm, by rw [hf.1], hs.2.1, ?_, trivial, trivial⟩
  cases reg <;> simp [hf.1, hf.2.1]

theorem addHeader_step (s : St) (name : List Nat) (mk : Nat → Hdr) (reg : Bool) (hn : NoNul name)
    (hmk : ∀ nm, (mk nm).get .sh_name = ((nm : Nat) : Int)) : Step s (s.addHeader name mk reg) := by
  have hfr := addHeader_frame s name mk reg
  have hge := getString_ext s name
  refine ⟨⟨hfr.1, ⟨[], by simp [hfr.2.1]⟩, ?_, ?_⟩, fun i => ?_⟩
  · unfold St.addHeader
    have hf := getString_frame2 s name
    rcases hg : s.getString name with ⟨s1, nm⟩
    rw [hg] at hf
    exact ⟨[mk nm], by simp only; rw [hf.1]⟩
  · unfold St.addHeader
    have hf := getString_strtab s name
    rcases hg : s.getString name with ⟨s1, nm⟩
    rw [hg] at hf
    exact hf
  · obtain ⟨nm, h1, h2, h3, h4, h5⟩ := addHeader_spec s name mk reg hn i.strwf
    have i1 := (getString_step s name hn).2 i
    refine ⟨?_, ?_⟩
    · intro n off h
      rw [h5] at h; rw [h4]; exact i1.strwf n off h
    · intro nme n hnn
      rw [h3] at hnn
      have old : ∀ n, assoc nme s.secnums = some n → 1 ≤ n ∧ ∃ hd nm', (s.addHeader name mk reg).shdrs[n - 1]? = some hd ∧
          hd.get .sh_name = ((nm' : Nat) : Int) ∧ strAt (s.addHeader name mk reg).strtab nm' = some nme := by
        intro n hh
        obtain ⟨a, hd, nm', b, c, d⟩ := i.nums nme n hh
        refine ⟨a, hd, nm', ?_, c, ?_⟩
        · rw [h1]
          have hi : n - 1 < s.shdrs.length := (List.getElem?_eq_some_iff.mp b).1
          rw [List.getElem?_append_left hi]; exact b
        · rw [h4]; exact hge.strAt d
      cases reg
      · simp at hnn; exact old n hnn
      · simp only [if_true, assoc] at hnn
        split at hnn
        · rename_i heq
          injection hnn with hnn
          subst hnn
          refine ⟨by omega, mk nm, nm, ?_, hmk nm, ?_⟩
          · rw [h1]; simp
          · rw [← heq]; exact h2
        · exact old n hnn

/-! ### every writer step is a `Step` -/

theorem noNul_symtab : NoNul symtabName := by intro b hb; simp [symtabName] at hb; omega
theorem noNul_strtab : NoNul strtabName := by intro b hb; simp [strtabName] at hb; omega
theorem noNul_rela {n : List Nat} (h : NoNul n) : NoNul (relaPrefix ++ n) := by
  intro b hb
  simp [relaPrefix] at hb
  rcases hb with hb | hb | hb | hb | hb | hb
  · omega
  · omega
  · omega
  · omega
  · omega
  · exact h b hb

theorem genSectionHeader_step (s : St) (sec : Sec) (off : Int) (hn : NoNul sec.name) :
    Step s (s.genSectionHeader sec off) :=
  addHeader_step s sec.name _ true hn (fun _ => rfl)

theorem genImageSectionHeaders_step (fo ia : Nat) : ∀ (secs : List Sec) (s : St), (∀ sec ∈ secs, NoNul sec.name) →
    Step s (genImageSectionHeaders fo ia s secs) := by
  intro secs
  induction secs with
  | nil => intro s _; exact Step.refl s
  | cons sec rest ih =>
    intro s hn
    simp only [genImageSectionHeaders]
    exact Step.trans (genSectionHeader_step _ _ _ (hn sec (by simp))) (ih _ (fun x hx => hn x (by simp [hx])))

theorem writeImage_step {s s' : St} {img : Img} (h : s.writeImage {} img = .ok s') (hn : ∀ sec ∈ img.sections, NoNul sec.name) :
    Step s s' := by
  obtain ⟨s1, d, h1, hd, he⟩ := writeImage_eq h
  have p1 := alignTo_step h1
  have p2 := write_step s1 (zeros (img.address % pageSize))
  have p3 := genImageSectionHeaders_step (St.tell (s1.write (zeros (img.address % pageSize)))) img.address img.sections
    (s1.write (zeros (img.address % pageSize))) hn
  have p4 := write_step (genImageSectionHeaders (St.tell (s1.write (zeros (img.address % pageSize)))) img.address
    (s1.write (zeros (img.address % pageSize))) img.sections) d
  have p5 : Step (St.write (genImageSectionHeaders (St.tell (s1.write (zeros (img.address % pageSize)))) img.address
    (s1.write (zeros (img.address % pageSize))) img.sections) d) s' := by
    rw [he]; exact step_of_frame rfl ⟨[], by simp⟩ rfl rfl rfl rfl
  exact Step.trans p1 (Step.trans p2 (Step.trans p3 (Step.trans p4 p5)))

theorem writeImages_step : ∀ (imgs : List Img) (s s' : St), writeImages {} s imgs = .ok s' →
    (∀ img ∈ imgs, ∀ sec ∈ img.sections, NoNul sec.name) → Step s s' := by
  intro imgs
  induction imgs with
  | nil => intro s s' h _; simp [writeImages] at h; subst h; exact Step.refl s
  | cons img rest ih =>
    intro s s' h hn
    simp only [writeImages] at h
    split at h
    · cases h
    · rename_i s1 h1
      exact Step.trans (writeImage_step h1 (hn img (by simp))) (ih _ _ h (fun x hx => hn x (by simp [hx])))

theorem writeSections_step : ∀ (secs : List Sec) (s s' : St), writeSections s secs = .ok s' →
    (∀ sec ∈ secs, NoNul sec.name) → Step s s' := by
  intro secs
  induction secs with
  | nil => intro s s' h _; simp [writeSections] at h; subst h; exact Step.refl s
  | cons sec rest ih =>
    intro s s' h hn
    have hr : ∀ x ∈ rest, NoNul x.name := fun x hx => hn x (by simp [hx])
    simp only [writeSections] at h
    split at h
    · exact ih _ _ h hr
    · split at h
      · cases h
      · rename_i s1 h1
        exact Step.trans (alignTo_step h1)
          (Step.trans (Step.trans (write_step _ _) (genSectionHeader_step _ _ _ (hn sec (by simp)))) (ih _ _ h hr))

theorem writeSymbol_step {q : Quirks} {L : Layouts} {o : Obj} {s s' : St} {nr : Nat} {sy : Sym}
    (h : s.writeSymbol q L o nr sy = .ok s') (hn : NoNul sy.name) : Step s s' := by
  unfold St.writeSymbol at h
  simp only at h
  have p0 : Step s { s with symIds := (sy.id, nr) :: s.symIds } := step_of_frame rfl ⟨[], by simp⟩ rfl rfl rfl rfl
  have p1 := getString_step { s with symIds := (sy.id, nr) :: s.symIds } sy.name hn
  rcases hg : St.getString { s with symIds := (sy.id, nr) :: s.symIds } sy.name with ⟨s1, nm⟩
  rw [hg] at h p1
  simp only at h p1
  split at h
  · cases h
  · split at h
    · cases h
    · injection h with h
      subst h
      exact Step.trans p0 (Step.trans p1 (write_step _ _))

theorem writeSymbols_step {q : Quirks} {L : Layouts} {o : Obj} : ∀ (syms : List Sym) (s s' : St) (nr : Nat),
    writeSymbols q L o s nr syms = .ok s' → (∀ sy ∈ syms, NoNul sy.name) → Step s s' := by
  intro syms
  induction syms with
  | nil => intro s s' nr h _; simp [writeSymbols] at h; subst h; exact Step.refl s
  | cons sy rest ih =>
    intro s s' nr h hn
    simp only [writeSymbols] at h
    split at h
    · cases h
    · rename_i s1 h1
      exact Step.trans (writeSymbol_step h1 (hn sy (by simp))) (ih _ _ _ h (fun x hx => hn x (by simp [hx])))

theorem mem_orderSymbols {syms : List Sym} {sy : Sym} (h : sy ∈ orderSymbols syms) : sy ∈ syms := by
  unfold orderSymbols at h
  simp at h
  rcases h with h | h <;> exact h.1

theorem writeSymbolTable_step {q : Quirks} {L : Layouts} {o : Obj} {s s' : St}
    (h : writeSymbolTable q L o s = .ok s') (hn : ∀ sy ∈ o.symbols, NoNul sy.name) : Step s s' := by
  unfold writeSymbolTable at h
  simp only at h
  split at h
  · cases h
  · rename_i s1 h1
    split at h
    · cases h
    · rename_i s2 h2
      injection h with h
      subst h
      exact Step.trans (alignTo_step h1) (Step.trans (write_step _ _)
        (Step.trans (writeSymbols_step _ _ _ _ h2 (fun sy hs => hn sy (mem_orderSymbols hs)))
          (addHeader_step _ _ _ _ noNul_symtab (fun _ => rfl))))

theorem writeRela_step {L : Layouts} {c : Cls} {s s' : St} {r : Rel} (h : s.writeRela L c r = .ok s') : Step s s' := by
  unfold St.writeRela at h
  split at h
  · cases h
  · split at h
    · cases h
    · cases h
    · split at h
      · cases h
      · injection h with h; subst h; exact write_step _ _

theorem writeRelas_step {L : Layouts} {c : Cls} : ∀ (rs : List Rel) (s s' : St), writeRelas L c s rs = .ok s' → Step s s' := by
  intro rs
  induction rs with
  | nil => intro s s' h; simp [writeRelas] at h; subst h; exact Step.refl s
  | cons r rest ih =>
    intro s s' h
    simp only [writeRelas] at h
    split at h
    · cases h
    · rename_i s1 h1
      exact Step.trans (writeRela_step h1) (ih _ _ h)

theorem writeRelaGroup_step {L : Layouts} {o : Obj} {s s' : St} {n : List Nat}
    (h : s.writeRelaGroup L o n = .ok s') (hn : NoNul n) : Step s s' := by
  unfold St.writeRelaGroup at h
  simp only at h
  split at h
  · cases h
  · rename_i s1 h1
    split at h
    · cases h
    · rename_i s2 h2
      split at h
      · cases h
      · injection h with h
        subst h
        exact Step.trans (alignTo_step h1) (Step.trans (writeRelas_step _ _ _ h2)
          (addHeader_step _ _ _ _ (noNul_rela hn) (fun _ => rfl)))

theorem writeRelaGroups_step {L : Layouts} {o : Obj} : ∀ (ns : List (List Nat)) (s s' : St),
    writeRelaGroups L o s ns = .ok s' → (∀ n ∈ ns, NoNul n) → Step s s' := by
  intro ns
  induction ns with
  | nil => intro s s' h _; simp [writeRelaGroups] at h; subst h; exact Step.refl s
  | cons n rest ih =>
    intro s s' h hn
    simp only [writeRelaGroups] at h
    split at h
    · cases h
    · rename_i s1 h1
      exact Step.trans (writeRelaGroup_step h1 (hn n (by simp))) (ih _ _ h (fun x hx => hn x (by simp [hx])))

theorem mem_insertName {n x : List Nat} : ∀ {l : List (List Nat)}, x ∈ insertName n l → x = n ∨ x ∈ l := by
  intro l
  induction l with
  | nil => intro h; simp [insertName] at h; exact Or.inl h
  | cons m ms ih =>
    intro h
    simp only [insertName] at h
    split at h
    · exact Or.inr h
    · split at h
      · simp at h
        rcases h with h | h | h
        · exact Or.inl h
        · exact Or.inr (by simp [h])
        · exact Or.inr (by simp [h])
      · simp at h
        rcases h with h | h
        · exact Or.inr (by simp [h])
        · rcases ih h with h | h
          · exact Or.inl h
          · exact Or.inr (by simp [h])

theorem mem_relocSectionNames {rels : List Rel} {x : List Nat} (h : x ∈ relocSectionNames rels) :
    ∃ r ∈ rels, r.sect = x := by
  unfold relocSectionNames at h
  have gen : ∀ (rs : List Rel) (acc : List (List Nat)),
      x ∈ rs.foldl (fun acc r => insertName r.sect acc) acc → x ∈ acc ∨ ∃ r ∈ rs, r.sect = x := by
    intro rs
    induction rs with
    | nil => intro acc h; exact Or.inl h
    | cons r rest ih =>
      intro acc h
      simp only [List.foldl_cons] at h
      rcases ih _ h with h | ⟨r', hr', e⟩
      · rcases mem_insertName h with h | h
        · exact Or.inr ⟨r, by simp, h.symm⟩
        · exact Or.inl h
      · exact Or.inr ⟨r', by simp [hr'], e⟩
  rcases gen rels [] h with h | h
  · simp at h
  · exact h

theorem writeRelaTable_step {L : Layouts} {o : Obj} {s s' : St} (h : writeRelaTable L o s = .ok s')
    (hn : ∀ r ∈ o.relocs, NoNul r.sect) : Step s s' :=
  writeRelaGroups_step _ _ _ h (fun n hm => by
    obtain ⟨r, hr, e⟩ := mem_relocSectionNames hm
    rw [← e]; exact hn r hr)

theorem writeHeaders_step {L : Layouts} {sn : List (List Nat × Nat)} : ∀ (hs : List Hdr) (s s' : St),
    writeHeaders L sn s hs = .ok s' → Step s s' := by
  intro hs
  induction hs with
  | nil => intro s s' h; simp [writeHeaders] at h; subst h; exact Step.refl s
  | cons hd rest ih =>
    intro s s' h
    simp only [writeHeaders] at h
    split at h
    · cases h
    · split at h
      · cases h
      · exact Step.trans (write_step _ _) (ih _ _ h)

theorem writeSectionHeaders_step {L : Layouts} {s s' : St} (h : writeSectionHeaders L s = .ok s') : Step s s' := by
  unfold writeSectionHeaders at h
  split at h
  · cases h
  · rename_i s1 h1
    simp only at h
    have p3 : Step s1 (St.write { s1 with shoff := s1.tell } (zeros (hsize L.shdr))) :=
      step_of_frame rfl ⟨_, rfl⟩ rfl rfl rfl rfl
    exact Step.trans (alignTo_step h1) (Step.trans p3 (writeHeaders_step _ _ _ h))

/-! ### (1) object sections: header, name, address, size, file bytes -/

/-- object section `sec` has a PROGBITS header in `s` (address, size, alignment of `sec`) whose name resolves to the
    section's name and whose file range `[sh_offset, sh_offset + sh_size)` holds exactly the section's data -/
def SecPlaced (s : St) (sec : Sec) : Prop :=
  ∃ (i nm off : Nat), s.shdrs[i]? = some (secHdr nm sec ((off : Nat) : Int)) ∧ strAt s.strtab nm = some sec.name ∧
    InBody s off sec.data

theorem SecPlaced.ext {s s' : St} {sec : Sec} (e : Ext s s') (h : SecPlaced s sec) : SecPlaced s' sec := by
  obtain ⟨i, nm, off, h1, h2, h3⟩ := h
  exact ⟨i, nm, off, e.getElem h1, e.strAt h2, h3.grow e.grow⟩

theorem write_secnums (s : St) (bs : List Nat) : (s.write bs).secnums = s.secnums := rfl

theorem alignTo_secnums {s s' : St} {a : Nat} (h : s.alignTo a = .ok s') : s'.secnums = s.secnums := by
  have := (alignTo_spec h).2.1
  subst this; rfl

theorem writeSections_places : ∀ (secs : List Sec) (s s' : St), writeSections s secs = .ok s' → Inv s →
    (∀ sec ∈ secs, NoNul sec.name) → (∀ a ∈ secs, ∀ b ∈ secs, a.name = b.name → a = b) →
    ∀ sec ∈ secs, assoc sec.name s.secnums = none → SecPlaced s' sec := by
  intro secs
  induction secs with
  | nil => intro s s' _ _ _ _ sec hs; simp at hs
  | cons a rest ih =>
    intro s s' h inv hn hinj sec hsec hnone
    have hr : ∀ x ∈ rest, NoNul x.name := fun x hx => hn x (by simp [hx])
    have hinjr : ∀ x ∈ rest, ∀ y ∈ rest, x.name = y.name → x = y :=
      fun x hx y hy => hinj x (by simp [hx]) y (by simp [hy])
    simp only [writeSections] at h
    split at h
    · rename_i n hsome
      simp at hsec
      rcases hsec with hsec | hsec
      · subst hsec; rw [hnone] at hsome; cases hsome
      · exact ih _ _ h inv hr hinjr sec hsec hnone
    · rename_i hnone_a
      split at h
      · cases h
      · rename_i s1 h1
        have st1 := alignTo_step h1
        have st2 := write_step s1 a.data
        have inv2 := st2.2 (st1.2 inv)
        have st3 := genSectionHeader_step (s1.write a.data) a (s1.tell : Int) (hn a (by simp))
        have inv3 := st3.2 inv2
        have strest := writeSections_step _ _ _ h hr
        obtain ⟨nm, e1, e2, e3, _, _⟩ := addHeader_spec (s1.write a.data) a.name (fun nm => secHdr nm a (s1.tell : Int)) true
          (hn a (by simp)) inv2.strwf
        have placed_a : SecPlaced ((s1.write a.data).genSectionHeader a (s1.tell : Int)) a := by
          refine ⟨(s1.write a.data).shdrs.length, nm, s1.tell, ?_, e2, ?_⟩
          · show (St.addHeader _ _ _ _).shdrs[_]? = _
            rw [e1]; simp
          · have : InBody (s1.write a.data) s1.tell a.data := ⟨s1.body, [], by simp [St.write], rfl⟩
            exact this.grow st3.1.grow
        simp at hsec
        rcases hsec with hsec | hsec
        · subst hsec; exact placed_a.ext strest.1
        · by_cases hname : sec.name = a.name
          · have : sec = a := hinj sec (by simp [hsec]) a (by simp) hname
            subst this; exact placed_a.ext strest.1
          · refine ih _ _ h inv3 hr hinjr sec hsec ?_
            show assoc sec.name (St.addHeader _ _ _ _).secnums = none
            rw [e3]
            simp only [if_true, assoc]
            rw [if_neg (fun hh => hname hh.symm)]
            rw [write_secnums, alignTo_secnums h1]; exact hnone

/-- `Image.data`: every section of the image lies in it at `section.address - image.address` -/
theorem imageDataFrom_mem : ∀ (secs : List Sec) (cur : Nat) (d : List Nat), imageDataFrom cur secs = .ok d →
    ∀ sec ∈ secs, cur ≤ sec.address ∧ ∃ a b, d = a ++ sec.data ++ b ∧ a.length = sec.address - cur := by
  intro secs
  induction secs with
  | nil => intro cur d _ sec hs; simp at hs
  | cons x rest ih =>
    intro cur d h sec hsec
    simp only [imageDataFrom] at h
    split at h
    · cases h
    · rename_i hlt
      split at h
      · cases h
      · rename_i r hr
        injection h with h
        subst h
        simp at hsec
        rcases hsec with hsec | hsec
        · subst hsec
          exact ⟨by omega, zeros (sec.address - cur), r, rfl, by simp [zeros]⟩
        · obtain ⟨c1, a, b, e, l⟩ := ih _ _ hr sec hsec
          refine ⟨by omega, zeros (x.address - cur) ++ x.data ++ a, b, by rw [e]; simp, ?_⟩
          simp [zeros, l]; omega

theorem genImageSectionHeaders_hdrs (fo ia : Nat) : ∀ (secs : List Sec) (s : St), Inv s → (∀ sec ∈ secs, NoNul sec.name) →
    (∀ sec ∈ secs, ∃ (i nm : Nat), (genImageSectionHeaders fo ia s secs).shdrs[i]? =
        some (secHdr nm sec ((fo : Int) + ((sec.address : Int) - ia))) ∧
      strAt (genImageSectionHeaders fo ia s secs).strtab nm = some sec.name) ∧
    (∀ name n, assoc name (genImageSectionHeaders fo ia s secs).secnums = some n →
      (∃ sec ∈ secs, sec.name = name) ∨ assoc name s.secnums = some n) := by
  intro secs
  induction secs with
  | nil => intro s _ _; exact ⟨fun sec hs => by simp at hs, fun _ _ h => Or.inr h⟩
  | cons x rest ih =>
    intro s inv hn
    have hr : ∀ y ∈ rest, NoNul y.name := fun y hy => hn y (by simp [hy])
    simp only [genImageSectionHeaders]
    have st := genSectionHeader_step s x ((fo : Int) + ((x.address : Int) - ia)) (hn x (by simp))
    obtain ⟨nm, e1, e2, e3, _, _⟩ := addHeader_spec s x.name (fun nm => secHdr nm x ((fo : Int) + ((x.address : Int) - ia))) true
      (hn x (by simp)) inv.strwf
    have ⟨i1, i2⟩ := ih (s.genSectionHeader x ((fo : Int) + ((x.address : Int) - ia))) (st.2 inv) hr
    have strest := genImageSectionHeaders_step fo ia rest (s.genSectionHeader x ((fo : Int) + ((x.address : Int) - ia))) hr
    refine ⟨?_, ?_⟩
    · intro sec hsec
      simp at hsec
      rcases hsec with hsec | hsec
      · subst hsec
        refine ⟨s.shdrs.length, nm, strest.1.getElem ?_, strest.1.strAt e2⟩
        show (St.addHeader _ _ _ _).shdrs[_]? = _
        rw [e1]; simp
      · exact i1 sec hsec
    · intro name n h
      rcases i2 name n h with ⟨sec, hs, e⟩ | h
      · exact Or.inl ⟨sec, by simp [hs], e⟩
      · have h' : assoc name (St.addHeader s x.name (fun nm => secHdr nm x ((fo : Int) + ((x.address : Int) - ia))) true).secnums = some n := h
        rw [e3] at h'
        simp only [if_true, assoc] at h'
        split at h'
        · rename_i heq; exact Or.inl ⟨x, by simp, heq⟩
        · exact Or.inr h'

/-- (4) section `sec` of image `img`: its header's file range lies inside the file range of the image's segment, at the
    same distance from the segment's start as `sec.address` from `img.address` (so `sh_offset - p_offset = sh_addr - p_vaddr`),
    and holds the section's data -/
def ImgSecOK (s : St) (img : Img) (sec : Sec) : Prop :=
  ∃ (pOff : Nat) (d : List Nat), img.data = .ok d ∧ InBody s pOff d ∧ pOff % pageSize = img.address % pageSize ∧
    img.address ≤ sec.address ∧ sec.address + sec.data.length ≤ img.address + d.length ∧
    ∃ (i nm : Nat), s.shdrs[i]? = some (secHdr nm sec ((pOff + (sec.address - img.address) : Nat) : Int)) ∧
      strAt s.strtab nm = some sec.name ∧ InBody s (pOff + (sec.address - img.address)) sec.data

theorem ImgSecOK.ext {s s' : St} {img : Img} {sec : Sec} (e : Ext s s') (h : ImgSecOK s img sec) : ImgSecOK s' img sec := by
  obtain ⟨p, d, h1, h2, h3, h4, h5, i, nm, h6, h7, h8⟩ := h
  exact ⟨p, d, h1, h2.grow e.grow, h3, h4, h5, i, nm, e.getElem h6, e.strAt h7, h8.grow e.grow⟩

theorem ImgSecOK.placed {s : St} {img : Img} {sec : Sec} (h : ImgSecOK s img sec) : SecPlaced s sec := by
  obtain ⟨p, d, _, _, _, _, _, i, nm, h6, h7, h8⟩ := h
  exact ⟨i, nm, _, h6, h7, h8⟩

theorem writeImage_secs {s s' : St} {img : Img} (h : s.writeImage {} img = .ok s') (inv : Inv s)
    (hn : ∀ sec ∈ img.sections, NoNul sec.name) :
    (∀ sec ∈ img.sections, ImgSecOK s' img sec) ∧
    (∀ name n, assoc name s'.secnums = some n → (∃ sec ∈ img.sections, sec.name = name) ∨ assoc name s.secnums = some n) := by
  obtain ⟨s1, d, h1, hd, he⟩ := writeImage_eq h
  have ha := alignTo_spec h1
  have st1 := alignTo_step h1
  generalize hs2 : s1.write (zeros (img.address % pageSize)) = s2 at he
  have st2 : Step s1 s2 := by rw [← hs2]; exact write_step _ _
  have inv2 := st2.2 (st1.2 inv)
  have hh := genImageSectionHeaders_hdrs s2.tell img.address img.sections s2 inv2 hn
  have b3 := genImageSectionHeaders_body s2.tell img.address img.sections s2
  have st3 := genImageSectionHeaders_step s2.tell img.address img.sections s2 hn
  generalize hs3 : genImageSectionHeaders s2.tell img.address s2 img.sections = s3 at he hh b3 st3
  have e4 : Ext s3 s' := by
    rw [he]
    exact ⟨rfl, ⟨d, rfl⟩, ⟨[], by simp [St.write]⟩, ⟨[], by simp [St.write]⟩⟩
  have hsn : s'.secnums = s3.secnums := by rw [he]; rfl
  have hcong : s2.tell % pageSize = img.address % pageSize := by
    have h0 := ha.2.2
    rw [← hs2]
    simp only [St.tell, St.write, List.length_append, zeros, List.length_replicate] at h0 ⊢
    have : pageSize = 4096 := rfl
    rw [this] at h0 ⊢
    omega
  have hbody : s'.body = s2.body ++ d := by rw [he]; simp [St.write, b3.1]
  have hbase : s'.base = s2.base := by rw [he]; simp [St.write, b3.2]
  have hseg : InBody s' s2.tell d := ⟨s2.body, [], by simp [hbody], by simp [St.tell, hbase]⟩
  refine ⟨?_, ?_⟩
  · intro sec hsec
    obtain ⟨i, nm, g1, g2⟩ := hh.1 sec hsec
    obtain ⟨c1, a, b, ed, la⟩ := imageDataFrom_mem img.sections img.address d hd sec hsec
    have hend : sec.address + sec.data.length ≤ img.address + d.length := by
      rw [ed]; simp; omega
    refine ⟨s2.tell, d, hd, hseg, hcong, c1, hend, i, nm, ?_, e4.strAt g2, ?_⟩
    · have := e4.getElem g1
      have ecast : ((s2.tell : Int) + ((sec.address : Int) - img.address)) = ((s2.tell + (sec.address - img.address) : Nat) : Int) := by
        omega
      rw [← ecast]; exact this
    · refine ⟨s2.body ++ a, b, by rw [hbody, ed]; simp, ?_⟩
      simp [St.tell, hbase, la]; omega
  · intro name n hnn
    rw [hsn] at hnn
    rcases hh.2 name n hnn with h | h
    · exact Or.inl h
    · refine Or.inr ?_
      have e2 : s2.secnums = s.secnums := by rw [← hs2, write_secnums, alignTo_secnums h1]
      rw [← e2]; exact h

theorem writeImages_secs : ∀ (imgs : List Img) (s s' : St), writeImages {} s imgs = .ok s' → Inv s →
    (∀ img ∈ imgs, ∀ sec ∈ img.sections, NoNul sec.name) →
    (∀ img ∈ imgs, ∀ sec ∈ img.sections, ImgSecOK s' img sec) ∧
    (∀ name n, assoc name s'.secnums = some n →
      (∃ img ∈ imgs, ∃ sec ∈ img.sections, sec.name = name) ∨ assoc name s.secnums = some n) := by
  intro imgs
  induction imgs with
  | nil =>
    intro s s' h _ _
    simp [writeImages] at h
    subst h
    exact ⟨fun img hi => by simp at hi, fun _ _ h => Or.inr h⟩
  | cons img rest ih =>
    intro s s' h inv hn
    simp only [writeImages] at h
    split at h
    · cases h
    · rename_i s1 h1
      have hn1 := hn img (by simp)
      have hnr : ∀ x ∈ rest, ∀ sec ∈ x.sections, NoNul sec.name := fun x hx => hn x (by simp [hx])
      have ⟨a1, a2⟩ := writeImage_secs h1 inv hn1
      have st1 := writeImage_step h1 hn1
      have ⟨b1, b2⟩ := ih _ _ h (st1.2 inv) hnr
      have strest := writeImages_step _ _ _ h hnr
      refine ⟨?_, ?_⟩
      · intro x hx sec hsec
        simp at hx
        rcases hx with hx | hx
        · subst hx; exact (a1 sec hsec).ext strest.1
        · exact b1 x hx sec hsec
      · intro name n hnn
        rcases b2 name n hnn with ⟨x, hx, sec, hs, e⟩ | hh
        · exact Or.inl ⟨x, by simp [hx], sec, hs, e⟩
        · rcases a2 name n hh with ⟨sec, hs, e⟩ | hh
          · exact Or.inl ⟨img, by simp, sec, hs, e⟩
          · exact Or.inr hh

/-! ### the string table section and the frame of `write_section_headers` -/

theorem writeStringTable_spec (s : St) (hw : StrWF s) :
    ∃ nm, (writeStringTable s).shdrs = s.shdrs ++ [strtabHdr nm s.tell (writeStringTable s).strtab.length] ∧
      strAt (writeStringTable s).strtab nm = some strtabName ∧
      (writeStringTable s).secnums = (strtabName, s.shdrs.length + 1) :: s.secnums ∧
      InBody (writeStringTable s) s.tell (writeStringTable s).strtab ∧
      (writeStringTable s).strtab = (s.getString strtabName).1.strtab ∧
      (writeStringTable s).names = (s.getString strtabName).1.names ∧
      (writeStringTable s).base = s.base ∧
      (writeStringTable s).body = s.body ++ (writeStringTable s).strtab := by
  unfold writeStringTable
  have hf := getString_frame2 s strtabName
  have hs := getString_spec s strtabName noNul_strtab hw
  rcases hg : s.getString strtabName with ⟨s1, nm⟩
  rw [hg] at hf hs
  simp only at hf hs ⊢
  refine ⟨nm, by simp [St.write, hf.1], by simpa [St.write] using hs.2.1, by simp [St.write, hf.1, hf.2.1], ?_,
    by simp [St.write], by simp [St.write], by simp [St.write, hf.2.2.2], by simp [St.write, hf.2.2.1]⟩
  exact ⟨s.body, [], by simp [St.write, hf.2.2.1], by simp [St.tell, St.write, hf.2.2.2]⟩

theorem writeStringTable_step (s : St) : Step s (writeStringTable s) := by
  have hge := getString_ext s strtabName
  refine ⟨?_, fun i => ?_⟩
  · obtain ⟨m, hm⟩ := hge.strtab
    have hfr : (writeStringTable s).base = s.base ∧ (∃ m, (writeStringTable s).body = s.body ++ m) ∧
        (∃ m, (writeStringTable s).shdrs = s.shdrs ++ m) ∧ (writeStringTable s).strtab = (s.getString strtabName).1.strtab := by
      unfold writeStringTable
      have hf := getString_frame2 s strtabName
      rcases hg : s.getString strtabName with ⟨s1, nm⟩
      rw [hg] at hf
      simp only at hf ⊢
      exact ⟨by simp [St.write, hf.2.2.2], ⟨s1.strtab, by simp [St.write, hf.2.2.1]⟩, ⟨_, by simp [St.write, hf.1]; rfl⟩,
        by simp [St.write]⟩
    exact ⟨hfr.1, hfr.2.1, hfr.2.2.1, ⟨m, by rw [hfr.2.2.2, hm]⟩⟩
  · obtain ⟨nm, h1, h2, h3, _, h4, h5, _, _⟩ := writeStringTable_spec s i.strwf
    have i1 := (getString_step s strtabName noNul_strtab).2 i
    refine ⟨?_, ?_⟩
    · intro n off h
      rw [h5] at h; rw [h4]; exact i1.strwf n off h
    · intro nme n hnn
      rw [h3] at hnn
      simp only [assoc] at hnn
      split at hnn
      · rename_i heq
        injection hnn with hnn
        subst hnn
        refine ⟨by omega, strtabHdr nm s.tell (writeStringTable s).strtab.length, nm, ?_, rfl, ?_⟩
        · rw [h1]; simp
        · rw [← heq]; exact h2
      · obtain ⟨a, hd, nm', b, c, d⟩ := i.nums nme n hnn
        refine ⟨a, hd, nm', ?_, c, ?_⟩
        · rw [h1]
          have hi : n - 1 < s.shdrs.length := (List.getElem?_eq_some_iff.mp b).1
          rw [List.getElem?_append_left hi]; exact b
        · rw [h4]; exact hge.strAt d

theorem writeHeaders_frame {L : Layouts} {sn : List (List Nat × Nat)} : ∀ (hs : List Hdr) (s s' : St),
    writeHeaders L sn s hs = .ok s' → s'.shdrs = s.shdrs ∧ s'.strtab = s.strtab ∧ s'.secnums = s.secnums ∧
      s'.shoff = s.shoff ∧ s'.symIds = s.symIds := by
  intro hs
  induction hs with
  | nil => intro s s' h; simp [writeHeaders] at h; subst h; exact ⟨rfl, rfl, rfl, rfl, rfl⟩
  | cons hd rest ih =>
    intro s s' h
    simp only [writeHeaders] at h
    split at h
    · cases h
    · split at h
      · cases h
      · exact ih (s.write _) s' h

theorem writeSectionHeaders_frame {L : Layouts} {s s' : St} (h : writeSectionHeaders L s = .ok s') :
    s'.shdrs = s.shdrs ∧ s'.strtab = s.strtab ∧ s'.secnums = s.secnums := by
  unfold writeSectionHeaders at h
  split at h
  · cases h
  · rename_i s1 h1
    simp only at h
    have f := writeHeaders_frame _ _ _ h
    have e1 := (alignTo_spec h1).2.1
    subst e1
    exact ⟨f.1, f.2.1, f.2.2.1⟩

/-! ### all intermediate states of a successful `export_object` -/

/-- the names of the object can be stored in a string table -/
structure NamesOK (o : Obj) : Prop where
  secs : ∀ sec ∈ o.sections, NoNul sec.name
  imgs : ∀ img ∈ o.images, ∀ sec ∈ img.sections, NoNul sec.name
  syms : ∀ sy ∈ o.symbols, NoNul sy.name
  rels : ∀ r ∈ o.relocs, NoNul r.sect

theorem inv_init (L : Layouts) (o : Obj) (t : EType) : Inv (initState L o t) :=
  ⟨fun n off h => by simp [initState, assoc] at h, fun n k h => by simp [initState, assoc] at h⟩

theorem export_states {L : Layouts} {o : Obj} {t : EType} {file : List Nat}
    (h : exportObject {} L o t = .ok file) (hn : NamesOK o) :
    ∃ (s1 s2 s3 s4 s6 : St) (entry : Int) (shstrndx : Nat) (ehb phb : List Nat),
      (if withImages o t then writeImages {} (initState L o t) o.images else .ok (initState L o t)) = .ok s1 ∧
      writeSections s1 o.sections = .ok s2 ∧
      writeSymbolTable {} L o s2 = .ok s3 ∧
      (if t == .rel then writeRelaTable L o s3 else .ok s3) = .ok s4 ∧
      writeSectionHeaders L (writeStringTable s4) = .ok s6 ∧
      assoc strtabName s6.secnums = some shstrndx ∧
      serialize L.ehdr (elfHeader L o t s6 entry shstrndx) = .ok ehb ∧
      file = ident o.arch ++ ehb ++ phb ++ s6.body ∧
      Inv s1 ∧ Inv s2 ∧ Inv s3 ∧ Inv s4 ∧ Inv (writeStringTable s4) ∧ Inv s6 ∧
      Ext s1 s2 ∧ Ext s2 s3 ∧ Ext s3 s4 ∧ Ext s4 (writeStringTable s4) ∧ Ext (writeStringTable s4) s6 ∧
      s6.phdrs.length = phnum o t ∧ serializeAll L.phdr s6.phdrs = .ok phb ∧ s6.base = (initState L o t).base ∧
      entryValue o t = .ok entry := by
  obtain ⟨s1, s2, s3, s4, s6, entry, shstrndx, ehb, phb, h1, h2, h3, h4, h6, h7, h8, h9, h10, h11, hfile⟩ :=
    exportObject_inv h
  have st1 : Step (initState L o t) s1 := by
    split at h1
    · exact writeImages_step _ _ _ h1 hn.imgs
    · injection h1 with h1; subst h1; exact Step.refl _
  have st2 := writeSections_step _ _ _ h2 hn.secs
  have st3 := writeSymbolTable_step h3 hn.syms
  have st4 : Step s3 s4 := by
    split at h4
    · exact writeRelaTable_step h4 hn.rels
    · injection h4 with h4; subst h4; exact Step.refl _
  have st5 := writeStringTable_step s4
  have st6 := writeSectionHeaders_step h6
  have i1 := st1.2 (inv_init L o t)
  have i2 := st2.2 i1
  have i3 := st3.2 i2
  have i4 := st4.2 i3
  have i5 := st5.2 i4
  have i6 := st6.2 i5
  have hb : s6.base = (initState L o t).base :=
    (st6.1.base.trans (st5.1.base.trans (st4.1.base.trans (st3.1.base.trans (st2.1.base.trans st1.1.base)))))
  exact ⟨s1, s2, s3, s4, s6, entry, shstrndx, ehb, phb, h1, h2, h3, h4, h6, h8, h9, hfile, i1, i2, i3, i4, i5, i6,
    st2.1, st3.1, st4.1, st5.1, st6.1, h10, h11, hb, h7⟩

/-- (1)+(4), state level: every object section is placed; sections of images lie inside their segment -/
theorem sections_placed_of_states {L : Layouts} {o : Obj} {t : EType} {s1 s2 s6 : St}
    (h1 : (if withImages o t then writeImages {} (initState L o t) o.images else .ok (initState L o t)) = .ok s1)
    (h2 : writeSections s1 o.sections = .ok s2) (i1 : Inv s1) (e16 : Ext s1 s6) (e26 : Ext s2 s6) (hn : NamesOK o)
    (hinj : ∀ a ∈ o.sections, ∀ b ∈ o.sections, a.name = b.name → a = b)
    (himg : ∀ img ∈ o.images, ∀ sec ∈ img.sections, sec ∈ o.sections) :
    (∀ sec ∈ o.sections, SecPlaced s6 sec) ∧
    (withImages o t = true → ∀ img ∈ o.images, ∀ sec ∈ img.sections, ImgSecOK s6 img sec) := by
  have himgs : (withImages o t = true → ∀ img ∈ o.images, ∀ sec ∈ img.sections, ImgSecOK s1 img sec) ∧
      (∀ name n, assoc name s1.secnums = some n → ∃ img ∈ o.images, ∃ sec ∈ img.sections, sec.name = name) := by
    split at h1
    · have ⟨a, b⟩ := writeImages_secs _ _ _ h1 (inv_init L o t) hn.imgs
      refine ⟨fun _ => a, fun name n hh => ?_⟩
      rcases b name n hh with hh | hh
      · exact hh
      · simp [initState, assoc] at hh
    · rename_i hw
      injection h1 with h1
      subst h1
      exact ⟨fun hh => absurd hh hw, fun name n hh => by simp [initState, assoc] at hh⟩
  refine ⟨?_, fun hw img hi sec hs => (himgs.1 hw img hi sec hs).ext e16⟩
  intro sec hsec
  cases hc : assoc sec.name s1.secnums with
  | none => exact (writeSections_places _ _ _ h2 i1 hn.secs hinj sec hsec hc).ext e26
  | some n =>
    obtain ⟨img, hi, sec', hs', e⟩ := himgs.2 sec.name n hc
    have : sec' = sec := hinj sec' (himg img hi sec' hs') sec hsec e
    subst this
    have hw : withImages o t = true := by
      cases hw : withImages o t with
      | true => rfl
      | false =>
        rw [hw] at h1
        simp at h1
        subst h1
        simp [initState, assoc] at hc
    exact ((himgs.1 hw img hi sec' hs').ext e16).placed

/-! ### the section header table in the file -/

theorem leVal_zeros (n : Nat) : leVal (zeros n) = 0 := by
  induction n with
  | zero => rfl
  | succ n ih => simp only [zeros, List.replicate_succ, leVal] at ih ⊢; rw [ih]

theorem uval_zeros (e : End) (n : Nat) : uval e (zeros n) = 0 := by
  cases e
  · exact leVal_zeros n
  · simp only [uval, zeros, List.reverse_replicate]; exact leVal_zeros n

/-- the all-zero record (section header 0, symbol 0) -/
def zeroRec (fs : List Field) : Rec := fs.map (fun f => (f.name, 0))

theorem readRec_zeros (e : End) : ∀ (fs : List Field) (rest : List Nat),
    readRec e fs (zeros (recSize fs) ++ rest) = some (zeroRec fs) := by
  intro fs
  induction fs with
  | nil => intro rest; simp [readRec, zeroRec]
  | cons f fs ih =>
    intro rest
    have e1 : zeros (recSize (f :: fs)) ++ rest = zeros f.fmt.size ++ (zeros (recSize fs) ++ rest) := by
      simp only [recSize, zeros]
      rw [← List.append_assoc, List.replicate_append_replicate]
    rw [e1]
    simp only [readRec]
    have hlen : ¬ (zeros f.fmt.size ++ (zeros (recSize fs) ++ rest)).length < f.fmt.size := by simp [zeros]
    rw [if_neg hlen]
    have hd : (zeros f.fmt.size ++ (zeros (recSize fs) ++ rest)).drop f.fmt.size = zeros (recSize fs) ++ rest := by
      have hl : (zeros f.fmt.size).length = f.fmt.size := by simp [zeros]
      exact List.drop_left' hl
    have ht : (zeros f.fmt.size ++ (zeros (recSize fs) ++ rest)).take f.fmt.size = zeros f.fmt.size := by
      have hl : (zeros f.fmt.size).length = f.fmt.size := by simp [zeros]
      exact List.take_left' hl
    rw [hd, ht, ih, uval_zeros]
    simp [zeroRec]

theorem zeroRec_get (fs : List Field) (n : FName) : Rec.get (zeroRec fs) n = 0 := by
  induction fs with
  | nil => rfl
  | cons f fs ih => simp only [zeroRec, List.map_cons, Rec.get] at ih ⊢; split <;> simp [ih]

theorem writeHeaders_spec {L : Layouts} {sn : List (List Nat × Nat)} : ∀ (hs : List Hdr) (s s' : St),
    writeHeaders L sn s hs = .ok s' →
    ∃ phs bytes, All2 (fun h h' => patchLink sn h = .ok h') hs phs ∧ serializeAll L.shdr phs = .ok bytes ∧
      s'.body = s.body ++ bytes ∧ s'.base = s.base := by
  intro hs
  induction hs with
  | nil => intro s s' h; simp [writeHeaders] at h; subst h; exact ⟨[], [], .nil, rfl, by simp, rfl⟩
  | cons hd rest ih =>
    intro s s' h
    simp only [writeHeaders] at h
    split at h
    · cases h
    · rename_i hd' hp
      split at h
      · cases h
      · rename_i bs hser
        obtain ⟨phs, bytes, a, b, c, d⟩ := ih (s.write bs) s' h
        refine ⟨hd' :: phs, bs ++ bytes, .cons hp a, ?_, ?_, d⟩
        · simp [serializeAll, hser, b]
        · rw [c]; simp [St.write]

theorem writeSectionHeaders_spec {L : Layouts} {s s' : St} (h : writeSectionHeaders L s = .ok s') :
    ∃ pad phs bytes, All2 (fun h h' => patchLink s.secnums h = .ok h') s.shdrs phs ∧
      serializeAll L.shdr phs = .ok bytes ∧
      s'.body = s.body ++ pad ++ zeros (hsize L.shdr) ++ bytes ∧ s'.base = s.base ∧
      s'.shoff = s.base + (s.body ++ pad).length := by
  unfold writeSectionHeaders at h
  split at h
  · cases h
  · rename_i s1 h1
    simp only at h
    have e1 := (alignTo_spec h1).2.1
    obtain ⟨phs, bytes, a, b, c, d⟩ := writeHeaders_spec _ _ _ h
    have f := writeHeaders_frame _ _ _ h
    subst e1
    refine ⟨zeros ((8 - s.tell % 8) % 8), phs, bytes, a, b, ?_, ?_, ?_⟩
    · rw [c]; simp [St.write]
    · rw [d]; rfl
    · rw [f.2.2.2.1]; simp [St.write, St.tell]

/-- `patchLink` only touches `sh_link` -/
theorem patchLink_get {sn : List (List Nat × Nat)} {h h' : Hdr} (hp : patchLink sn h = .ok h') (n : FName)
    (hn : n ≠ .sh_link) : h'.get n = h.get n := by
  unfold patchLink at hp
  split at hp
  · split at hp
    · cases hp
    · injection hp with hp; subst hp; simp [Hdr.get, Ne.symm hn]
  · split at hp
    · split at hp
      · cases hp
      · injection hp with hp; subst hp; simp [Hdr.get, Ne.symm hn]
    · injection hp with hp; subst hp; rfl

theorem All2.getElem {α β : Type} {R : α → β → Prop} {as : List α} {bs : List β} (h : All2 R as bs) {i : Nat} {a : α}
    (ha : as[i]? = some a) : ∃ b, bs[i]? = some b ∧ R a b := by
  induction h generalizing i with
  | nil => simp at ha
  | cons h1 _ ih =>
    cases i with
    | zero => simp at ha; subst ha; exact ⟨_, by simp, h1⟩
    | succ i => simp at ha; obtain ⟨b, hb, r⟩ := ih ha; exact ⟨b, by simp [hb], r⟩

/-! ### the ELF header and the section header table as the reader sees them -/

/-- length of the file prefix (ident, ELF header, program headers) = the writer's `base` -/
theorem prefix_length {o : Obj} {t : EType} {s6 : St} {ehb phb : List Nat}
    (hel : ehb.length = recSize (ehdr o.arch.cls))
    (hphn : s6.phdrs.length = phnum o t)
    (hser : serializeAll ((phdr o.arch.cls).map (toP o.arch.en)) s6.phdrs = .ok phb)
    (hb : s6.base = (initState (gabiLayouts o.arch.cls o.arch.en) o t).base) :
    (ident o.arch ++ ehb ++ phb).length = s6.base := by
  have ⟨_, t2, _⟩ := serializeAll_read o.arch.en (phdr o.arch.cls) s6.phdrs phb [] [] hser
  rw [hb]
  simp only [List.length_append, ident_length, hel, t2, hphn, initState]
  unfold phentsize phnum
  split
  · simp [gabiLayouts, hsize_map]
  · simp [gabiLayouts, hsize_map]

/-- everything later theorems need about the header and the section header table of a written file -/
structure ShTab (o : Obj) (t : EType) (file : List Nat) (s6 : St) (hd : Rec) (phs : List Hdr) (pre : List Nat) : Prop where
  file_eq : file = pre ++ s6.body
  pre_len : pre.length = s6.base
  ident : readIdent file = .ok (o.arch.cls, o.arch.en)
  ehdr : readEhdr file o.arch.cls o.arch.en = .ok hd
  shentsize : hd.get .e_shentsize = recSize (shdr o.arch.cls)
  shnum : hd.get .e_shnum = s6.shdrs.length + 1
  shstrndx : assoc strtabName s6.secnums = some (hd.get .e_shstrndx)
  patched : All2 (fun h h' => patchLink s6.secnums h = .ok h') s6.shdrs phs
  table : readTable file o.arch.en (shdr o.arch.cls) (recSize (shdr o.arch.cls)) (hd.get .e_shoff) (hd.get .e_shnum) =
    some (zeroRec (shdr o.arch.cls) :: phs.map (recOf (shdr o.arch.cls)))
  table_in_file : hd.get .e_shoff + hd.get .e_shnum * recSize (shdr o.arch.cls) ≤ file.length
  fits : ∀ h ∈ phs, ∀ f ∈ shdr o.arch.cls, fits f.fmt (h.get f.name) = true

theorem shtab_of_states {o : Obj} {t : EType} {file ehb phb : List Nat} {s5 s6 : St} {entry : Int} {shstrndx : Nat}
    (h6 : writeSectionHeaders (gabiLayouts o.arch.cls o.arch.en) s5 = .ok s6)
    (h8 : assoc strtabName s6.secnums = some shstrndx)
    (h9 : serialize (gabiLayouts o.arch.cls o.arch.en).ehdr
      (elfHeader (gabiLayouts o.arch.cls o.arch.en) o t s6 entry shstrndx) = .ok ehb)
    (hfile : file = ident o.arch ++ ehb ++ phb ++ s6.body)
    (hphn : s6.phdrs.length = phnum o t)
    (hser : serializeAll (gabiLayouts o.arch.cls o.arch.en).phdr s6.phdrs = .ok phb)
    (hb : s6.base = (initState (gabiLayouts o.arch.cls o.arch.en) o t).base) :
    ∃ hd phs, ShTab o t file s6 hd phs (ident o.arch ++ ehb ++ phb) := by
  have ⟨r1, r2, r3⟩ := serialize_read o.arch.en (ehdr o.arch.cls) _ ehb (phb ++ s6.body) h9
  have ⟨hid, hrd⟩ := readEhdr_of_facts hfile r1 r3
  have hpl := prefix_length (o := o) (t := t) r2 hphn hser hb
  obtain ⟨pad, phs, bytes, a, b, c, d, e⟩ := writeSectionHeaders_spec h6
  have fr := writeSectionHeaders_frame h6
  have ⟨t1, t2, t3⟩ := serializeAll_read o.arch.en (shdr o.arch.cls) phs bytes
    (ident o.arch ++ ehb ++ phb ++ (s5.body ++ pad ++ zeros (recSize (shdr o.arch.cls)))) [] b
  have hsz : hsize (gabiLayouts o.arch.cls o.arch.en).shdr = recSize (shdr o.arch.cls) := by simp [gabiLayouts, hsize_map]
  rw [hsz] at c
  have g_shoff := ehdr_field (c := o.arch.cls) .e_shoff ⟨.e_shoff, wordFmt o.arch.cls⟩ (by cases o.arch.cls <;> rfl)
    (by cases o.arch.cls <;> rfl) r3
  have g_shnum := ehdr_field (c := o.arch.cls) .e_shnum ⟨.e_shnum, .H⟩ (by cases o.arch.cls <;> rfl) rfl r3
  have g_shent := ehdr_field (c := o.arch.cls) .e_shentsize ⟨.e_shentsize, .H⟩ (by cases o.arch.cls <;> rfl) rfl r3
  have g_shstr := ehdr_field (c := o.arch.cls) .e_shstrndx ⟨.e_shstrndx, .H⟩ (by cases o.arch.cls <;> rfl) rfl r3
  have v1 : (elfHeader (gabiLayouts o.arch.cls o.arch.en) o t s6 entry shstrndx).get .e_shoff = ((s6.shoff : Nat) : Int) := by
    simp [elfHeader, Hdr.get]
  have v2 : (elfHeader (gabiLayouts o.arch.cls o.arch.en) o t s6 entry shstrndx).get .e_shnum
      = ((s6.shdrs.length + 1 : Nat) : Int) := by simp [elfHeader, Hdr.get]
  have v3 : (elfHeader (gabiLayouts o.arch.cls o.arch.en) o t s6 entry shstrndx).get .e_shentsize
      = ((hsize (gabiLayouts o.arch.cls o.arch.en).shdr : Nat) : Int) := by simp [elfHeader, Hdr.get]
  have v4 : (elfHeader (gabiLayouts o.arch.cls o.arch.en) o t s6 entry shstrndx).get .e_shstrndx = ((shstrndx : Nat) : Int) := by
    simp [elfHeader, Hdr.get]
  rw [v1] at g_shoff; rw [v2] at g_shnum; rw [v3] at g_shent; rw [v4] at g_shstr
  have e_shoff := Int.ofNat_inj.mp g_shoff
  have e_shnum := Int.ofNat_inj.mp g_shnum
  have e_shent := Int.ofNat_inj.mp g_shent
  have e_shstr := Int.ofNat_inj.mp g_shstr
  rw [hsz] at e_shent
  have hlenphs : phs.length = s6.shdrs.length := by rw [fr.1]; exact a.length.symm
  have hfile2 : file = (ident o.arch ++ ehb ++ phb ++ (s5.body ++ pad)) ++ (zeros (recSize (shdr o.arch.cls)) ++ bytes) := by
    rw [hfile, c]; simp
  have hoff : s6.shoff = (ident o.arch ++ ehb ++ phb ++ (s5.body ++ pad)).length := by
    rw [e, ← d, ← hpl]; simp; omega
  refine ⟨_, phs, ⟨by rw [hfile], hpl, hid, hrd, e_shent, e_shnum, by rw [e_shstr]; exact h8, by rw [fr.1, fr.2.2]; exact a, ?_, ?_, t3⟩⟩
  · rw [e_shoff, e_shnum, hoff, ← hlenphs]
    simp only [readTable]
    have hd0 : file.drop (ident o.arch ++ ehb ++ phb ++ (s5.body ++ pad)).length = zeros (recSize (shdr o.arch.cls)) ++ bytes := by
      rw [hfile2]; simp
    rw [hd0, readRec_zeros]
    have hfile3 : file = (ident o.arch ++ ehb ++ phb ++ (s5.body ++ pad ++ zeros (recSize (shdr o.arch.cls)))) ++ bytes ++ [] := by
      rw [hfile2]; simp
    have hl3 : (ident o.arch ++ ehb ++ phb ++ (s5.body ++ pad)).length + recSize (shdr o.arch.cls) =
        (ident o.arch ++ ehb ++ phb ++ (s5.body ++ pad ++ zeros (recSize (shdr o.arch.cls)))).length := by
      simp [zeros]; omega
    rw [hl3, hfile3, t1]
  · rw [e_shoff, e_shnum, hoff, hfile2]
    simp only [List.length_append, t2, zeros, List.length_replicate, hlenphs]
    rw [Nat.add_mul]; omega

/-! ### (1) reader level: the section header table of the written file -/

/-- what the gABI reader's primitives return for object section `sec`: a section header record `r` of the table at
    `e_shoff` with the section's type / address / size / alignment, whose file range holds the section's data and whose
    name index resolves, in the section-name string table `strtab`, to the section's name -/
def SecRecOK (file strtab : List Nat) (sec : Sec) (r : Rec) : Prop :=
  r.get .sh_type = 1 ∧ r.get .sh_addr = sec.address ∧ r.get .sh_size = sec.data.length ∧
  r.get .sh_addralign = sec.alignment ∧ slice file (r.get .sh_offset) (r.get .sh_size) = some sec.data ∧
  strAt strtab (r.get .sh_name) = some sec.name

theorem secRec_of_placed {c : Cls} {file pre : List Nat} {s : St} {sec : Sec} {h' : Hdr} {nm off : Nat}
    (hpre : pre.length = s.base) (hfile : file = pre ++ s.body)
    (hget : ∀ n, n ≠ FName.sh_link → h'.get n = (secHdr nm sec ((off : Nat) : Int)).get n)
    (hfits : ∀ f ∈ shdr c, fits f.fmt (h'.get f.name) = true)
    (hname : strAt s.strtab nm = some sec.name) (hin : InBody s off sec.data) :
    SecRecOK file s.strtab sec (recOf (shdr c) h') := by
  have g_name := get_recOf_unsigned (fs := shdr c) (n := .sh_name) (f := ⟨.sh_name, .I⟩) (by cases c <;> rfl) rfl hfits
  have g_type := get_recOf_unsigned (fs := shdr c) (n := .sh_type) (f := ⟨.sh_type, .I⟩) (by cases c <;> rfl) rfl hfits
  have g_addr := get_recOf_unsigned (fs := shdr c) (n := .sh_addr) (f := ⟨.sh_addr, wordFmt c⟩) (by cases c <;> rfl)
    (by cases c <;> rfl) hfits
  have g_off := get_recOf_unsigned (fs := shdr c) (n := .sh_offset) (f := ⟨.sh_offset, wordFmt c⟩) (by cases c <;> rfl)
    (by cases c <;> rfl) hfits
  have g_size := get_recOf_unsigned (fs := shdr c) (n := .sh_size) (f := ⟨.sh_size, wordFmt c⟩) (by cases c <;> rfl)
    (by cases c <;> rfl) hfits
  have g_al := get_recOf_unsigned (fs := shdr c) (n := .sh_addralign) (f := ⟨.sh_addralign, wordFmt c⟩) (by cases c <;> rfl)
    (by cases c <;> rfl) hfits
  rw [hget _ (by decide)] at g_name g_type g_addr g_off g_size g_al
  simp only [secHdr, Hdr.get, reduceCtorEq, if_false, if_true] at g_name g_type g_addr g_off g_size g_al
  have e1 := Int.ofNat_inj.mp g_name
  have e2 : Rec.get (recOf (shdr c) h') .sh_type = 1 := Int.ofNat_inj.mp (show ((_ : Nat) : Int) = ((1 : Nat) : Int) from g_type)
  have e3 := Int.ofNat_inj.mp g_addr
  have e4 := Int.ofNat_inj.mp g_off
  have e5 := Int.ofNat_inj.mp g_size
  have e6 := Int.ofNat_inj.mp g_al
  refine ⟨e2, e3, e5, e6, ?_, by rw [e1]; exact hname⟩
  rw [e4, e5, hfile]
  exact hin.slice pre hpre

/-- the record of the section-name string table -/
theorem strtabRec_of {c : Cls} {file pre : List Nat} {s : St} {h' : Hdr} {nm off : Nat}
    (hpre : pre.length = s.base) (hfile : file = pre ++ s.body)
    (hget : ∀ n, n ≠ FName.sh_link → h'.get n = (strtabHdr nm off s.strtab.length).get n)
    (hfits : ∀ f ∈ shdr c, fits f.fmt (h'.get f.name) = true) (hin : InBody s off s.strtab) :
    Rec.get (recOf (shdr c) h') .sh_type = 3 ∧
    slice file (Rec.get (recOf (shdr c) h') .sh_offset) (Rec.get (recOf (shdr c) h') .sh_size) = some s.strtab := by
  have g_type := get_recOf_unsigned (fs := shdr c) (n := .sh_type) (f := ⟨.sh_type, .I⟩) (by cases c <;> rfl) rfl hfits
  have g_off := get_recOf_unsigned (fs := shdr c) (n := .sh_offset) (f := ⟨.sh_offset, wordFmt c⟩) (by cases c <;> rfl)
    (by cases c <;> rfl) hfits
  have g_size := get_recOf_unsigned (fs := shdr c) (n := .sh_size) (f := ⟨.sh_size, wordFmt c⟩) (by cases c <;> rfl)
    (by cases c <;> rfl) hfits
  rw [hget _ (by decide)] at g_type g_off g_size
  simp only [strtabHdr, Hdr.get, reduceCtorEq, if_false, if_true] at g_type g_off g_size
  have e2 : Rec.get (recOf (shdr c) h') .sh_type = 3 := Int.ofNat_inj.mp (show ((_ : Nat) : Int) = ((3 : Nat) : Int) from g_type)
  have e4 := Int.ofNat_inj.mp g_off
  have e5 := Int.ofNat_inj.mp g_size
  refine ⟨e2, ?_⟩
  rw [e4, e5, hfile]
  exact hin.slice pre hpre

/-- (1) + (4): for every written file the section header table read at `e_shoff` contains, for every object section, a
    record with its address / size / alignment whose file bytes are the section's data and whose name resolves in the
    string table selected by `e_shstrndx`; sections of images lie inside their segment. -/
theorem export_sections_read {o : Obj} {t : EType} {file : List Nat}
    (h : exportObject {} (gabiLayouts o.arch.cls o.arch.en) o t = .ok file) (hn : NamesOK o)
    (hinj : ∀ a ∈ o.sections, ∀ b ∈ o.sections, a.name = b.name → a = b)
    (himg : ∀ img ∈ o.images, ∀ sec ∈ img.sections, sec ∈ o.sections) :
    ∃ (s6 : St) (hd : Rec) (phs : List Hdr) (pre : List Nat), ShTab o t file s6 hd phs pre ∧
      (1 ≤ hd.get .e_shstrndx ∧ ∃ hs, phs[hd.get .e_shstrndx - 1]? = some hs ∧
        Rec.get (recOf (shdr o.arch.cls) hs) .sh_type = 3 ∧
        slice file (Rec.get (recOf (shdr o.arch.cls) hs) .sh_offset) (Rec.get (recOf (shdr o.arch.cls) hs) .sh_size)
          = some s6.strtab) ∧
      (∀ sec ∈ o.sections, ∃ (i : Nat) (h' : Hdr), phs[i]? = some h' ∧ SecRecOK file s6.strtab sec (recOf (shdr o.arch.cls) h')) ∧
      (withImages o t = true → ∀ img ∈ o.images, ∀ sec ∈ img.sections, ImgSecOK s6 img sec) := by
  obtain ⟨s1, s2, s3, s4, s6, entry, shstrndx, ehb, phb, h1, h2, h3, h4, h6, h8, h9, hfile, i1, i2, i3, i4, i5, i6,
    e2, e3, e4, e5, e6, hphn, hser, hb, _⟩ := export_states h hn
  obtain ⟨hd, phs, T⟩ := shtab_of_states h6 h8 h9 hfile hphn hser hb
  have e26 : Ext s2 s6 := e3.trans (e4.trans (e5.trans e6))
  have ⟨pl, im⟩ := sections_placed_of_states h1 h2 i1 (e2.trans e26) e26 hn hinj himg
  have fr := writeSectionHeaders_frame h6
  refine ⟨s6, hd, phs, _, T, ?_, ?_, im⟩
  · obtain ⟨nm, a1, a2, a3, a4, a5, _, _, _⟩ := writeStringTable_spec s4 i4.strwf
    have hndx : hd.get .e_shstrndx = s4.shdrs.length + 1 := by
      have := T.shstrndx
      rw [fr.2.2, a3] at this
      simp [assoc] at this
      exact this.symm
    have hlast : s6.shdrs[s4.shdrs.length]? = some (strtabHdr nm s4.tell s6.strtab.length) := by
      rw [fr.1, a1, fr.2.1]; simp
    obtain ⟨h', b1, b2⟩ := T.patched.getElem hlast
    refine ⟨by omega, h', by rw [hndx]; simpa using b1, ?_⟩
    have hin : InBody s6 s4.tell s6.strtab := by rw [fr.2.1]; exact a4.grow e6.grow
    exact strtabRec_of T.pre_len T.file_eq (fun n hne => patchLink_get b2 n hne) (T.fits h' (List.mem_of_getElem? b1)) hin
  · intro sec hsec
    obtain ⟨i, nm, off, c1, c2, c3⟩ := pl sec hsec
    obtain ⟨h', b1, b2⟩ := T.patched.getElem c1
    exact ⟨i, h', b1, secRec_of_placed T.pre_len T.file_eq (fun n hne => patchLink_get b2 n hne)
      (T.fits h' (List.mem_of_getElem? b1)) c2 c3⟩

end Proofs.ElfW
