import PpciVerif.Proofs.CEvalTree
/-!
The main induction of C27: for every expression tree that C types, ppci's semantics
(`Model.CEval.elaborate` on the rendered tree) produces a typed tree of the same type, and
wherever C defines a value the evaluator returns it.
-/
set_option linter.unusedSimpArgs false
namespace Proofs.CEval
open Model.CEval Model.CSyntax
open Spec.CInt (Expr Base Suffix UnOp BinOp inRange convert uac typeOf arith toU ofU litType)

/-- literal leaves carry a value of their type (what `on_number`/`on_char` guarantee) -/
def RootOK : TExpr → Prop
  | .num τ v => InRangeM τ v
  | .chr τ v => InRangeM τ v
  | _ => True

theorem ofBool_inRange (τ : Ty) (b : Bool) : InRangeM τ (Model.CEval.ofBool b) := by
  cases τ <;> cases b <;> simp [InRangeM, Model.CEval.ofBool, limitMax, Ty.isSigned, Ty.size]

theorem zero_inRange (τ : Ty) : InRangeM τ 0 := ofBool_inRange τ false
theorem one_inRange (τ : Ty) : InRangeM τ 1 := ofBool_inRange τ true

/-- every value the evaluator returns lies in the range of the node's type -/
theorem eval_inRangeM {t : TExpr} (hroot : RootOK t) {v : Int} (h : eval t = .ok v) : InRangeM t.ty v := by
  cases t with
  | num τ x => simp [eval] at h; subst h; exact hroot
  | chr τ x => simp [eval] at h; subst h; exact hroot
  | cast τ a =>
    simp only [eval] at h
    cases ha : eval a with
    | error e => simp [ha] at h
    | ok x => simp [ha] at h; subst h; exact toIntegerType_inRange _ _
  | un op τ a =>
    simp only [eval] at h
    split at h
    · cases ha : eval a with
      | error e => simp [ha] at h
      | ok x => simp [ha, fit] at h; subst h; exact toIntegerType_inRange _ _
    · cases h
  | tern τ c a b =>
    simp only [eval] at h
    cases hc : eval c with
    | error e => simp [hc] at h
    | ok x =>
      simp only [hc, bind_ok] at h
      split at h
      · cases ha : eval a with
        | error e => simp [ha] at h
        | ok y => simp [ha, fit] at h; subst h; exact toIntegerType_inRange _ _
      · cases hb : eval b with
        | error e => simp [hb] at h
        | ok y => simp [hb, fit] at h; subst h; exact toIntegerType_inRange _ _
  | bin op τ a b =>
    simp only [eval] at h
    split at h
    · cases ha : eval a with
      | error e => simp [ha] at h
      | ok x =>
        simp only [ha, bind_ok] at h
        split at h
        · simp at h; subst h; exact zero_inRange _
        · cases hb : eval b with
          | error e => simp [hb] at h
          | ok y => simp [hb] at h; subst h; exact ofBool_inRange _ _
    · split at h
      · cases ha : eval a with
        | error e => simp [ha] at h
        | ok x =>
          simp only [ha, bind_ok] at h
          split at h
          · simp at h; subst h; exact one_inRange _
          · cases hb : eval b with
            | error e => simp [hb] at h
            | ok y => simp [hb] at h; subst h; exact ofBool_inRange _ _
      · cases ha : eval a with
        | error e => simp [ha] at h
        | ok x =>
          cases hb : eval b with
          | error e => simp [ha, hb] at h
          | ok y =>
            simp only [ha, hb, bind_ok] at h
            split at h
            · simp [fit] at h; subst h; exact toIntegerType_inRange _ _
            · split at h
              · split at h
                · cases h
                · split at h
                  · split at h
                    · cases h
                    · simp [fit] at h; subst h; exact toIntegerType_inRange _ _
                  · simp [fit] at h; subst h; exact toIntegerType_inRange _ _
              · cases h

theorem eval_inRange {t : TExpr} {σ : Spec.CInt.Ty} (ht : t.ty = M σ) (hroot : RootOK t) {v : Int}
    (h : eval t = .ok v) : inRange σ v = true := by
  have := eval_inRangeM hroot h
  rw [ht] at this
  exact (inRangeM_iff σ v).mp this

/-- what the main induction establishes for a subtree `e` elaborated to `t` -/
structure Sound (e : Expr) (σ : Spec.CInt.Ty) (t : TExpr) : Prop where
  elab_ok : elaborate (render e) = .ok t
  ty : t.ty = M σ
  root : RootOK t
  value : ∀ v, Spec.CInt.eval e = some v → eval t = .ok v

theorem Sound.inRange {e σ t} (h : Sound e σ t) {v : Int} (hv : Spec.CInt.eval e = some v) : inRange σ v = true :=
  eval_inRange h.ty h.root (h.value v hv)

/-! ### leaves, casts, unary operators -/

theorem sound_lit (b : Base) (s : Suffix) (v : Nat) (σ : Spec.CInt.Ty) (h : typeOf (.lit b s v) = some σ) :
    ∃ t, Sound (.lit b s v) σ t := by
  simp only [typeOf] at h
  refine ⟨.num (M σ) v, ?_, rfl, ?_, ?_⟩
  · simp only [render, elaborate]; exact onNumber_spec b s v σ h
  · show InRangeM (M σ) v
    rw [inRangeM_iff, inRange_nat]
    exact List.find?_some (find_candidates b s v σ h)
  · intro x hx; simp only [Spec.CInt.eval, h, Option.map_some, Option.some.injEq] at hx; subst hx; rfl

theorem sound_chr (v : Nat) (σ : Spec.CInt.Ty) (h : typeOf (.chr v) = some σ) : ∃ t, Sound (.chr v) σ t := by
  simp only [typeOf] at h
  split at h
  · rename_i hv
    injection h with h; subst h
    refine ⟨onChar v, rfl, rfl, ?_, ?_⟩
    · show InRangeM .int (toIntegerType .char v)
      have := toIntegerType_inRange .char v
      simp only [InRangeM, limitMax, Ty.isSigned, Ty.size, if_true, Nat.reduceMul, Nat.reduceSub, Int.reducePow,
        Int.reduceNeg, Int.reduceSub] at this ⊢
      omega
    · intro x hx
      simp only [Spec.CInt.eval, hv, if_true, Option.some.injEq] at hx; subst hx
      simp only [onChar, eval]
      exact congrArg Except.ok (toIntegerType_eq_convert .char v)
  · cases h

theorem sound_cast (τ : Spec.CInt.Ty) (a : Expr) (sa : Spec.CInt.Ty) (ta : TExpr) (ha : Sound a sa ta) :
    Sound (.cast τ a) τ (.cast (M τ) ta) := by
  refine ⟨?_, rfl, trivial, ?_⟩
  · simp only [render, elaborate, ha.elab_ok, bind_ok, pure_eq_ok]
  · intro v hv
    simp only [Spec.CInt.eval, Option.map_eq_some_iff] at hv
    obtain ⟨x, hx, rfl⟩ := hv
    simp only [eval, ha.value x hx, bind_ok, pure_eq_ok, toIntegerType_eq_convert]

theorem promote_root {t : TExpr} (h : RootOK t) : RootOK (Model.CEval.promote t) := by
  unfold Model.CEval.promote coerce; split
  · exact h
  · trivial

theorem sound_un (op : UnOp) (a : Expr) (sa : Spec.CInt.Ty) (ta : TExpr) (ha : Sound a sa ta)
    (hta : typeOf a = some sa) :
    ∃ t, Sound (.un op a) (if op = .lnot then .int else Spec.CInt.promote sa) t := by
  have hp := promote_ty ha.ty
  cases op
  · -- neg
    refine ⟨.un .minus (M (Spec.CInt.promote sa)) (Model.CEval.promote ta), ?_, rfl, trivial, ?_⟩
    · simp only [render, elaborate, ha.elab_ok, bind_ok, unSym, onUnop, hp]
    · intro v hv
      simp only [Spec.CInt.eval, hta, reduceCtorEq, if_false] at hv
      cases hx : Spec.CInt.eval a with
      | none => simp [hx] at hv
      | some x =>
        simp only [hx, Spec.CInt.evalUn] at hv
        have hr := ha.inRange hx
        simp only [eval, lookup_unary, eval_promote ha.ty (ha.value x hx) hr, bind_ok, pure_eq_ok, Fn.apply1, fit]
        rw [convert_of_inRange (inRange_promote hr)] at hv
        rw [arith_fit hv]
  · -- bnot
    refine ⟨.un .tilde (M (Spec.CInt.promote sa)) (Model.CEval.promote ta), ?_, rfl, trivial, ?_⟩
    · simp only [render, elaborate, ha.elab_ok, bind_ok, unSym, onUnop, hp]
    · intro v hv
      simp only [Spec.CInt.eval, hta, reduceCtorEq, if_false] at hv
      cases hx : Spec.CInt.eval a with
      | none => simp [hx] at hv
      | some x =>
        simp only [hx, Spec.CInt.evalUn, Option.some.injEq] at hv
        have hr := ha.inRange hx
        simp only [eval, lookup_unary, eval_promote ha.ty (ha.value x hx) hr, bind_ok, pure_eq_ok, Fn.apply1, fit]
        rw [convert_of_inRange (inRange_promote hr)] at hv
        rw [bnot_fit, hv]
  · -- lnot
    refine ⟨.un .bang .int ta, ?_, rfl, trivial, ?_⟩
    · simp only [render, elaborate, ha.elab_ok, bind_ok, unSym, onUnop]
    · intro v hv
      simp only [Spec.CInt.eval, hta, if_true] at hv
      cases hx : Spec.CInt.eval a with
      | none => simp [hx] at hv
      | some x =>
        simp only [hx, Spec.CInt.evalUn, Option.some.injEq] at hv
        simp only [eval, lookup_unary, ha.value x hx, bind_ok, pure_eq_ok, Fn.apply1, fit, fit_ofBool, hv]
  · -- plus
    refine ⟨Model.CEval.promote ta, ?_, hp, promote_root ha.root, ?_⟩
    · simp only [render, elaborate, ha.elab_ok, bind_ok, unSym, onUnop]
    · intro v hv
      simp only [Spec.CInt.eval, hta, reduceCtorEq, if_false] at hv
      cases hx : Spec.CInt.eval a with
      | none => simp [hx] at hv
      | some x =>
        simp only [hx, Spec.CInt.evalUn, Option.some.injEq] at hv
        have hr := ha.inRange hx
        rw [convert_of_inRange (inRange_promote hr)] at hv
        subst hv
        exact eval_promote ha.ty (ha.value x hx) hr

/-! ### binary operators -/

def BinOp.isCmp : BinOp → Bool
  | .lt | .gt | .le | .ge | .eq | .ne => true
  | _ => false

theorem onBinop_arith {op : BinOp} (hop : op.isArith = true) (a b : TExpr) :
    onBinop (binSym op) a b =
      .ok (.bin (binSym op) (arithOperands a b).1 (arithOperands a b).2.1 (arithOperands a b).2.2) := by
  cases op <;> simp [BinOp.isArith] at hop <;> rfl

theorem onBinop_cmp {op : BinOp} (hop : BinOp.isCmp op = true) (a b : TExpr) :
    onBinop (binSym op) a b = .ok (.bin (binSym op) .int (arithOperands a b).2.1 (arithOperands a b).2.2) := by
  cases op <;> simp [BinOp.isCmp] at hop <;> rfl

theorem spec_eval_arith {op : BinOp} (hop : op.isArith = true) {a b : Expr} {sa sb : Spec.CInt.Ty}
    (hta : typeOf a = some sa) (htb : typeOf b = some sb) :
    Spec.CInt.eval (.bin op a b) =
      match Spec.CInt.eval a, Spec.CInt.eval b with
      | some x, some y => Spec.CInt.evalArith op (uac sa sb) (convert (uac sa sb) x) (convert (uac sa sb) y)
      | _, _ => none := by
  cases op <;> simp [BinOp.isArith] at hop <;> simp only [Spec.CInt.eval, hta, htb, BinOp.isArith, if_true] <;>
    (cases Spec.CInt.eval a <;> cases Spec.CInt.eval b <;> rfl)

theorem spec_eval_shift {op : BinOp} (hop : op.isShift = true) {a b : Expr} {sa sb : Spec.CInt.Ty}
    (hta : typeOf a = some sa) (htb : typeOf b = some sb) :
    Spec.CInt.eval (.bin op a b) =
      match Spec.CInt.eval a, Spec.CInt.eval b with
      | some x, some y => Spec.CInt.evalShift op (Spec.CInt.promote sa) (convert (Spec.CInt.promote sa) x) y
      | _, _ => none := by
  cases op <;> simp [BinOp.isShift] at hop <;>
    simp only [Spec.CInt.eval, hta, htb, BinOp.isArith, BinOp.isShift, if_true, if_false, Bool.false_eq_true] <;>
    (cases Spec.CInt.eval a <;> cases Spec.CInt.eval b <;> rfl)

theorem spec_eval_cmp {op : BinOp} (hop : BinOp.isCmp op = true) {a b : Expr} {sa sb : Spec.CInt.Ty}
    (hta : typeOf a = some sa) (htb : typeOf b = some sb) :
    Spec.CInt.eval (.bin op a b) =
      match Spec.CInt.eval a, Spec.CInt.eval b with
      | some x, some y => Spec.CInt.evalCmp op (convert (uac sa sb) x) (convert (uac sa sb) y)
      | _, _ => none := by
  cases op <;> simp [BinOp.isCmp] at hop <;>
    simp only [Spec.CInt.eval, hta, htb, BinOp.isArith, BinOp.isShift, if_true, if_false, Bool.false_eq_true] <;>
    (cases Spec.CInt.eval a <;> cases Spec.CInt.eval b <;> rfl)

theorem sound_bin_arith {op : BinOp} (hop : op.isArith = true) (a b : Expr) (sa sb : Spec.CInt.Ty) (ta tb : TExpr)
    (ha : Sound a sa ta) (hb : Sound b sb tb) (hta : typeOf a = some sa) (htb : typeOf b = some sb) :
    ∃ t, Sound (.bin op a b) (uac sa sb) t := by
  obtain ⟨h1, h2, h3⟩ := arithOperands_ty (a := ta) (b := tb) ha.ty hb.ty
  refine ⟨.bin (binSym op) (arithOperands ta tb).1 (arithOperands ta tb).2.1 (arithOperands ta tb).2.2,
    ?_, ?_, trivial, ?_⟩
  · simp only [render, elaborate, ha.elab_ok, hb.elab_ok, bind_ok]; exact onBinop_arith hop ta tb
  · exact h1
  · intro v hv
    rw [spec_eval_arith hop hta htb] at hv
    cases hx : Spec.CInt.eval a with
    | none => simp [hx] at hv
    | some x =>
      cases hy : Spec.CInt.eval b with
      | none => simp [hx, hy] at hv
      | some y =>
        simp only [hx, hy] at hv
        rw [h1]
        exact eval_bin_arith hop (arithOperands_evalL ha.ty hb.ty (ha.value x hx) (ha.inRange hx))
          (arithOperands_evalR ha.ty hb.ty (hb.value y hy) (hb.inRange hy)) (convert_inRange _ _) hv

theorem sound_bin_cmp {op : BinOp} (hop : BinOp.isCmp op = true) (a b : Expr) (sa sb : Spec.CInt.Ty) (ta tb : TExpr)
    (ha : Sound a sa ta) (hb : Sound b sb tb) (hta : typeOf a = some sa) (htb : typeOf b = some sb) :
    ∃ t, Sound (.bin op a b) .int t := by
  refine ⟨.bin (binSym op) .int (arithOperands ta tb).2.1 (arithOperands ta tb).2.2, ?_, ?_, trivial, ?_⟩
  · simp only [render, elaborate, ha.elab_ok, hb.elab_ok, bind_ok]; exact onBinop_cmp hop ta tb
  · rfl
  · intro v hv
    rw [spec_eval_cmp hop hta htb] at hv
    cases hx : Spec.CInt.eval a with
    | none => simp [hx] at hv
    | some x =>
      cases hy : Spec.CInt.eval b with
      | none => simp [hx, hy] at hv
      | some y =>
        simp only [hx, hy] at hv
        exact eval_bin_cmp (arithOperands_evalL ha.ty hb.ty (ha.value x hx) (ha.inRange hx))
          (arithOperands_evalR ha.ty hb.ty (hb.value y hy) (hb.inRange hy)) hv

theorem commonType_self (τ : Ty) : commonType τ τ = τ := by cases τ <;> rfl

theorem onBinop_shift {op : BinOp} (hop : op.isShift = true) (a b : TExpr) :
    onBinop (binSym op) a b =
      .ok (.bin (binSym op) (Model.CEval.promote a).ty
        (coerce (Model.CEval.promote a) (Model.CEval.promote a).ty)
        (coerce (Model.CEval.promote b) (Model.CEval.promote a).ty)) := by
  cases op <;> simp [BinOp.isShift] at hop <;> simp only [binSym, onBinop, commonType_self]

theorem evalShift_count {op : BinOp} {σ : Spec.CInt.Ty} {x c v : Int} (h : Spec.CInt.evalShift op σ x c = some v) :
    0 ≤ c ∧ c < σ.bits := by
  unfold Spec.CInt.evalShift at h
  split at h
  · cases h
  · omega

theorem sound_bin_shift {op : BinOp} (hop : op.isShift = true) (a b : Expr) (sa sb : Spec.CInt.Ty) (ta tb : TExpr)
    (ha : Sound a sa ta) (hb : Sound b sb tb) (hta : typeOf a = some sa) (htb : typeOf b = some sb) :
    ∃ t, Sound (.bin op a b) (Spec.CInt.promote sa) t := by
  have hpa := promote_ty ha.ty
  have hpb := promote_ty hb.ty
  refine ⟨.bin (binSym op) (Model.CEval.promote ta).ty
        (coerce (Model.CEval.promote ta) (Model.CEval.promote ta).ty)
        (coerce (Model.CEval.promote tb) (Model.CEval.promote ta).ty), ?_, ?_, trivial, ?_⟩
  · simp only [render, elaborate, ha.elab_ok, hb.elab_ok, bind_ok]; exact onBinop_shift hop ta tb
  · exact hpa
  · intro v hv
    rw [spec_eval_shift hop hta htb] at hv
    cases hx : Spec.CInt.eval a with
    | none => simp [hx] at hv
    | some x =>
      cases hy : Spec.CInt.eval b with
      | none => simp [hx, hy] at hv
      | some y =>
        simp only [hx, hy] at hv
        obtain ⟨hc0, hc1⟩ := evalShift_count hv
        have hrx := ha.inRange hx
        have hry := hb.inRange hy
        rw [hpa]
        refine eval_bin_shift hop ?_ ?_ (convert_inRange _ _) hv
        · exact eval_coerce_M hpa (eval_promote ha.ty (ha.value x hx) hrx) (inRange_promote hrx)
        · have := eval_coerce_M (σ' := Spec.CInt.promote sa) hpb (eval_promote hb.ty (hb.value y hy) hry)
            (inRange_promote hry)
          rw [convert_count hc0 hc1] at this
          exact this

/-! ### `&&`, `||`, `?:` -/

theorem sound_land (a b : Expr) (sa sb : Spec.CInt.Ty) (ta tb : TExpr)
    (ha : Sound a sa ta) (hb : Sound b sb tb) (hta : typeOf a = some sa) (htb : typeOf b = some sb) :
    ∃ t, Sound (.bin .land a b) .int t := by
  refine ⟨.bin .andand .int ta tb, ?_, rfl, trivial, ?_⟩
  · simp only [render, elaborate, ha.elab_ok, hb.elab_ok, bind_ok, binSym, onBinop]
  · intro v hv
    simp only [Spec.CInt.eval, hta, htb] at hv
    cases hx : Spec.CInt.eval a with
    | none => simp [hx] at hv
    | some x =>
      simp only [hx] at hv
      simp only [eval, if_true, ha.value x hx, bind_ok]
      split at hv
      · rename_i h0; injection hv with hv; subst hv; simp [h0]
      · rename_i h0
        simp only [h0, if_false]
        cases hy : Spec.CInt.eval b with
        | none => simp [hy] at hv
        | some y =>
          simp only [hy, Option.map_some, Option.some.injEq] at hv
          subst hv
          simp only [hb.value y hy, bind_ok, pure_eq_ok]; rfl

theorem sound_lor (a b : Expr) (sa sb : Spec.CInt.Ty) (ta tb : TExpr)
    (ha : Sound a sa ta) (hb : Sound b sb tb) (hta : typeOf a = some sa) (htb : typeOf b = some sb) :
    ∃ t, Sound (.bin .lor a b) .int t := by
  refine ⟨.bin .oror .int ta tb, ?_, rfl, trivial, ?_⟩
  · simp only [render, elaborate, ha.elab_ok, hb.elab_ok, bind_ok, binSym, onBinop]
  · intro v hv
    simp only [Spec.CInt.eval, hta, htb] at hv
    cases hx : Spec.CInt.eval a with
    | none => simp [hx] at hv
    | some x =>
      simp only [hx] at hv
      simp only [eval, reduceCtorEq, if_false, if_true, ha.value x hx, bind_ok]
      split at hv
      · rename_i h0; injection hv with hv; subst hv; simp [h0]
      · rename_i h0
        simp only [h0, if_false]
        cases hy : Spec.CInt.eval b with
        | none => simp [hy] at hv
        | some y =>
          simp only [hy, Option.map_some, Option.some.injEq] at hv
          subst hv
          simp only [hb.value y hy, bind_ok, pure_eq_ok]; rfl

theorem onTernop_eq (c a b : TExpr) :
    onTernop c a b = .tern (arithOperands a b).1 c (arithOperands a b).2.1 (arithOperands a b).2.2 := rfl

theorem fit_convert (σ : Spec.CInt.Ty) (v : Int) : fit (M σ) (convert σ v) = convert σ v := by
  rw [fit, toIntegerType_eq_convert, convert_of_inRange (convert_inRange σ v)]

theorem sound_cond (c a b : Expr) (sc sa sb : Spec.CInt.Ty) (tc ta tb : TExpr)
    (hc : Sound c sc tc) (ha : Sound a sa ta) (hb : Sound b sb tb)
    (htc : typeOf c = some sc) (hta : typeOf a = some sa) (htb : typeOf b = some sb) :
    ∃ t, Sound (.cond c a b) (uac sa sb) t := by
  obtain ⟨h1, h2, h3⟩ := arithOperands_ty (a := ta) (b := tb) ha.ty hb.ty
  refine ⟨onTernop tc ta tb, ?_, ?_, trivial, ?_⟩
  · simp only [render, elaborate, hc.elab_ok, ha.elab_ok, hb.elab_ok, bind_ok, pure_eq_ok]
  · rw [onTernop_eq]; exact h1
  · intro v hv
    simp only [Spec.CInt.eval, htc, hta, htb] at hv
    cases hx : Spec.CInt.eval c with
    | none => simp [hx] at hv
    | some x =>
      simp only [hx] at hv
      rw [onTernop_eq]
      simp only [eval, hc.value x hx, bind_ok, h1]
      split at hv
      · rename_i h0
        rw [if_pos h0]
        cases hy : Spec.CInt.eval a with
        | none => simp [hy] at hv
        | some y =>
          simp only [hy, Option.map_some, Option.some.injEq] at hv; subst hv
          simp only [arithOperands_evalL ha.ty hb.ty (ha.value y hy) (ha.inRange hy), bind_ok, pure_eq_ok, fit_convert]
      · rename_i h0
        rw [if_neg h0]
        cases hy : Spec.CInt.eval b with
        | none => simp [hy] at hv
        | some y =>
          simp only [hy, Option.map_some, Option.some.injEq] at hv; subst hv
          simp only [arithOperands_evalR ha.ty hb.ty (hb.value y hy) (hb.inRange hy), bind_ok, pure_eq_ok, fit_convert]

/-! ### the main induction -/

theorem binop_cases (op : BinOp) :
    op.isArith = true ∨ op.isShift = true ∨ BinOp.isCmp op = true ∨ op = .land ∨ op = .lor := by
  cases op <;> simp [BinOp.isArith, BinOp.isShift, BinOp.isCmp]

theorem elab_sound : ∀ (e : Expr) (σ : Spec.CInt.Ty), typeOf e = some σ → ∃ t, Sound e σ t := by
  intro e
  induction e with
  | lit b s v => exact sound_lit b s v
  | chr v => exact sound_chr v
  | cast τ a ih =>
    intro σ h
    simp only [typeOf, Option.map_eq_some_iff] at h
    obtain ⟨sa, hsa, rfl⟩ := h
    obtain ⟨ta, hta⟩ := ih sa hsa
    exact ⟨_, sound_cast τ a sa ta hta⟩
  | un op a ih =>
    intro σ h
    cases hsa : typeOf a with
    | none => cases op <;> simp [typeOf, hsa] at h
    | some sa =>
      obtain ⟨ta, hta⟩ := ih sa hsa
      obtain ⟨t, ht⟩ := sound_un op a sa ta hta hsa
      have : σ = if op = .lnot then .int else Spec.CInt.promote sa := by
        cases op <;> simp [typeOf, hsa] at h <;> simp [h]
      subst this
      exact ⟨t, ht⟩
  | bin op a b iha ihb =>
    intro σ h
    cases hsa : typeOf a with
    | none => simp [typeOf, hsa] at h
    | some sa =>
      cases hsb : typeOf b with
      | none => simp [typeOf, hsa, hsb] at h
      | some sb =>
        obtain ⟨ta, hta⟩ := iha sa hsa
        obtain ⟨tb, htb⟩ := ihb sb hsb
        simp only [typeOf, hsa, hsb] at h
        rcases binop_cases op with hop | hop | hop | hop | hop
        · simp only [hop, if_true, Option.some.injEq] at h; subst h
          exact sound_bin_arith hop a b sa sb ta tb hta htb hsa hsb
        · have h' : op.isArith = false := by cases op <;> simp_all [BinOp.isArith, BinOp.isShift]
          simp only [h', hop, if_true, Bool.false_eq_true, if_false, Option.some.injEq] at h; subst h
          exact sound_bin_shift hop a b sa sb ta tb hta htb hsa hsb
        · have h' : op.isArith = false := by cases op <;> simp_all [BinOp.isArith, BinOp.isCmp]
          have h'' : op.isShift = false := by cases op <;> simp_all [BinOp.isShift, BinOp.isCmp]
          simp only [h', h'', Bool.false_eq_true, if_false, Option.some.injEq] at h; subst h
          exact sound_bin_cmp hop a b sa sb ta tb hta htb hsa hsb
        · subst hop
          simp only [BinOp.isArith, BinOp.isShift, Bool.false_eq_true, if_false, Option.some.injEq] at h; subst h
          exact sound_land a b sa sb ta tb hta htb hsa hsb
        · subst hop
          simp only [BinOp.isArith, BinOp.isShift, Bool.false_eq_true, if_false, Option.some.injEq] at h; subst h
          exact sound_lor a b sa sb ta tb hta htb hsa hsb
  | cond c a b ihc iha ihb =>
    intro σ h
    cases hsc : typeOf c with
    | none => simp [typeOf, hsc] at h
    | some sc =>
      cases hsa : typeOf a with
      | none => simp [typeOf, hsc, hsa] at h
      | some sa =>
        cases hsb : typeOf b with
        | none => simp [typeOf, hsc, hsa, hsb] at h
        | some sb =>
          obtain ⟨tc, htc⟩ := ihc sc hsc
          obtain ⟨ta, hta⟩ := iha sa hsa
          obtain ⟨tb, htb⟩ := ihb sb hsb
          simp only [typeOf, hsc, hsa, hsb, Option.some.injEq] at h; subst h
          exact sound_cond c a b sc sa sb tc ta tb htc hta htb hsc hsa hsb

end Proofs.CEval
