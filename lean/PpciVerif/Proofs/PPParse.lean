import PpciVerif.Proofs.PPExpr
/-!
C26, parsing: precedence climbing over `OP_MAP` builds, for every sentence of C's grammar of `#if`
expressions, the tree that C's precedence and associativity prescribe.
-/
set_option linter.unusedSimpArgs false
namespace Proofs.PPExpr
open Model.PPExpr
open Spec.PPInt (Tree PTree UnOp BinOp Sym Tok Deriv yield erase)

/-! ### more fuel never changes a successful parse -/

theorem parse_mono : ∀ f : Nat,
    (∀ p toks r, parseExpr f p toks = .ok r → ∀ f', f ≤ f' → parseExpr f' p toks = .ok r) ∧
    (∀ p lhs toks r, parseLoop f p lhs toks = .ok r → ∀ f', f ≤ f' → parseLoop f' p lhs toks = .ok r) := by
  intro f
  induction f with
  | zero =>
    constructor
    · intro p toks r h; simp [parseExpr] at h
    · intro p lhs toks r h; simp [parseLoop] at h
  | succ f ih =>
    obtain ⟨ihe, ihl⟩ := ih
    constructor
    · intro p toks r h f' hf
      obtain ⟨g, rfl⟩ : ∃ g, f' = g + 1 := ⟨f' - 1, by omega⟩
      have hg : f ≤ g := by omega
      cases toks with
      | nil => simp [parseExpr] at h
      | cons tok rest =>
        cases tok with
        | num v s d =>
          simp only [parseExpr] at h ⊢
          exact ihl _ _ _ _ h g hg
        | sym s =>
          simp only [parseExpr] at h ⊢
          by_cases h1 : s = .bang ∨ s = .minus ∨ s = .tilde
          · simp only [h1, if_true] at h ⊢
            cases hq : parseExpr f 11 rest with
            | error e => simp [hq] at h
            | ok ar =>
              obtain ⟨a, r'⟩ := ar
              simp only [hq] at h
              simp only [ihe _ _ _ hq g hg]
              exact ihl _ _ _ _ h g hg
          · simp only [h1, if_false] at h ⊢
            by_cases h2 : s = .plus
            · simp only [h2, if_true] at h ⊢
              cases hq : parseExpr f 11 rest with
              | error e => simp [hq] at h
              | ok ar =>
                obtain ⟨a, r'⟩ := ar
                simp only [hq] at h
                simp only [ihe _ _ _ hq g hg]
                exact ihl _ _ _ _ h g hg
            · simp only [h2, if_false] at h ⊢
              by_cases h3 : s = .lp
              · simp only [h3, if_true] at h ⊢
                cases hq : parseExpr f 0 rest with
                | error e => simp [hq] at h
                | ok ar =>
                  obtain ⟨a, r'⟩ := ar
                  simp only [hq] at h
                  simp only [ihe _ _ _ hq g hg]
                  split at h
                  · exact ihl _ _ _ _ h g hg
                  · cases h
              · simp only [h3, if_false] at h
                cases h
    · intro p lhs toks r h f' hf
      obtain ⟨g, rfl⟩ : ∃ g, f' = g + 1 := ⟨f' - 1, by omega⟩
      have hg : f ≤ g := by omega
      cases toks with
      | nil => simpa [parseLoop] using h
      | cons tok rest =>
        simp only [parseLoop] at h ⊢
        cases hs : symOf tok with
        | none => simpa [hs] using h
        | some op =>
          simp only [hs] at h ⊢
          by_cases ht : binopTake op p = true
          · simp only [ht, if_true] at h ⊢
            cases hlk : opMap.lookup op with
            | none => simp [hlk] at h
            | some e =>
              obtain ⟨prio, ra, func⟩ := e
              simp only [hlk] at h ⊢
              by_cases hq : op = .quest
              · simp only [hq, if_true] at h ⊢
                cases hm : parseExpr f 0 rest with
                | error e => simp [hm] at h
                | ok mr =>
                  obtain ⟨mid, r1⟩ := mr
                  simp only [hm] at h
                  simp only [ihe _ _ _ hm g hg]
                  split at h
                  · rename_i r2
                    cases hr : parseExpr f prio r2 with
                    | error e => simp [hr] at h
                    | ok rr =>
                      obtain ⟨rhs, r3⟩ := rr
                      simp only [hr] at h
                      simp only [ihe _ _ _ hr g hg]
                      exact ihl _ _ _ _ h g hg
                  · cases h
              · simp only [hq, if_false] at h ⊢
                cases hr : parseExpr f prio rest with
                | error e => simp [hr] at h
                | ok rr =>
                  obtain ⟨rhs, r3⟩ := rr
                  simp only [hr] at h
                  simp only [ihe _ _ _ hr g hg]
                  cases func with
                  | none => simp at h
                  | some fn =>
                    simp only at h ⊢
                    exact ihl _ _ _ _ h g hg
          · simp only [ht, Bool.false_eq_true, if_false] at h ⊢
            exact h

theorem parseExpr_mono {f p toks r} (h : parseExpr f p toks = .ok r) {f'} (hf : f ≤ f') :
    parseExpr f' p toks = .ok r := (parse_mono f).1 p toks r h f' hf

theorem parseLoop_mono {f p lhs toks r} (h : parseLoop f p lhs toks = .ok r) {f'} (hf : f ≤ f') :
    parseLoop f' p lhs toks = .ok r := (parse_mono f).2 p lhs toks r h f' hf

theorem parseLoop_fuel_pos {f p lhs toks r} (h : parseLoop f p lhs toks = .ok r) : 1 ≤ f := by
  cases f with
  | zero => simp [parseLoop] at h
  | succ f => omega

/-! ### the grammar side -/

/-- the tree `parse_expression` is expected to build for a derivation tree -/
def tr (t : PTree) : MTree := ofTree (erase t)

/-- the loop at threshold `k` does not take the first token of `rest` -/
def NoTake (k : Nat) (rest : List Tok) : Prop :=
  ∀ tok tl s, rest = tok :: tl → symOf tok = some s → binopTake s k = false

/-- thresholds at which a level-`k` tree is parsed (its top operator is taken) -/
def Adm (p k : Nat) : Prop := (k = 1 ∧ p ≤ 1) ∨ (2 ≤ k ∧ p < k)

theorem adm_up {p k : Nat} (h : Adm p k) : Adm p (k + 1) := by
  rcases h with ⟨rfl, h⟩ | ⟨h1, h2⟩
  · right; omega
  · right; omega

theorem binopTake_mono {s : Sym} {k : Nat} (h : binopTake s k = false) : binopTake s (k + 1) = false := by
  unfold binopTake at h ⊢
  rw [lookup_opMap] at h ⊢
  cases s <;> simp at h ⊢ <;> omega

theorem noTake_up {k : Nat} {rest : List Tok} (h : NoTake k rest) : NoTake (k + 1) rest :=
  fun tok tl s e hs => binopTake_mono (h tok tl s e hs)

theorem binopTake_11 (s : Sym) : binopTake s 11 = false := by
  unfold binopTake; rw [lookup_opMap]; cases s <;> rfl

theorem noTake_11 (rest : List Tok) : NoTake 11 rest := fun _ _ s _ _ => binopTake_11 s

theorem noTake_nil (k : Nat) : NoTake k [] := fun _ _ _ e _ => by cases e

theorem noTake_cons {k : Nat} {tok : Tok} {tl : List Tok} (h : ∀ s, symOf tok = some s → binopTake s k = false) :
    NoTake k (tok :: tl) := fun tok' tl' s e hs => by
  injection e with e1 e2; subst e1; exact h s hs

theorem loop_stop {k : Nat} {rest : List Tok} (h : NoTake k rest) (f : Nat) (lhs : MTree) :
    parseLoop (f + 1) k lhs rest = .ok (lhs, rest) := by
  cases rest with
  | nil => simp [parseLoop]
  | cons tok r =>
    simp only [parseLoop]
    cases hs : symOf tok with
    | none => simp
    | some s => simp [h tok r s rfl hs]

theorem level_ge_two (op : BinOp) : 2 ≤ op.level := by cases op <;> decide

theorem level_le (op : BinOp) : op.level ≤ 11 := by cases op <;> decide

theorem lookup_binop (op : BinOp) : opMap.lookup op.sym = some (op.level, false, some (fnOf op)) := by
  cases op <;> rfl

theorem binSym_ne_quest (op : BinOp) : op.sym ≠ Sym.quest := by cases op <;> decide

theorem binopTake_bin {op : BinOp} {p : Nat} (h : p < op.level) : binopTake op.sym p = true := by
  unfold binopTake; rw [lookup_binop]; simp [h]

theorem binopTake_self (op : BinOp) : binopTake op.sym op.level = false := by
  unfold binopTake; rw [lookup_binop]; simp

theorem binopTake_quest {p : Nat} (h : p ≤ 1) : binopTake .quest p = true := by
  unfold binopTake; rw [lookup_opMap]; simp [h]

theorem binopTake_quest_2 : binopTake .quest 2 = false := by decide

theorem binopTake_nonop {s : Sym} (h : opMap.lookup s = none) (k : Nat) : binopTake s k = false := by
  unfold binopTake; rw [h]

theorem tr_bin (op : BinOp) (a b : PTree) : tr (.bin op a b) = .bin op.sym (tr a) (tr b) := rfl
theorem tr_cond (c a b : PTree) : tr (.cond c a b) = .tern (tr c) (tr a) (tr b) := rfl
theorem tr_paren (a : PTree) : tr (.paren a) = tr a := rfl
theorem tr_num (v : Nat) (s d : Bool) : tr (.num v s d) = .num v := rfl

/-- **Precedence climbing.**  Parsing the yield of a level-`k` derivation tree at an admissible threshold
    `p`, followed by tokens whose first is not taken at level `k`, reaches the loop with the prescribed
    tree as left operand; `2·|yield|` extra fuel suffices. -/
theorem parse_deriv : ∀ {k : Nat} {t : PTree}, Deriv k t →
    ∀ (p : Nat) (rest : List Tok) (f : Nat) (r : MTree × List Tok), Adm p k → NoTake k rest →
      parseLoop f p (tr t) rest = .ok r →
      ∀ f', f + 2 * (yield t).length ≤ f' → parseExpr f' p (yield t ++ rest) = .ok r := by
  intro k t d
  induction d with
  | num v s dd =>
    intro p rest f r _ _ h f' hf
    obtain ⟨g, rfl⟩ : ∃ g, f' = g + 1 := ⟨f' - 1, by simp [yield] at hf; omega⟩
    simp only [yield, List.cons_append, List.nil_append, parseExpr]
    exact parseLoop_mono h (by simp [yield] at hf; omega)
  | @paren t' d' ih =>
    intro p rest f r _ _ h f' hf
    have hf1 := parseLoop_fuel_pos h
    simp only [yield, List.length_append, List.length_cons, List.length_nil] at hf
    obtain ⟨g, rfl⟩ : ∃ g, f' = g + 1 := ⟨f' - 1, by omega⟩
    have hinner : parseExpr g 0 (yield t' ++ (Tok.sym .rp :: rest)) = .ok (tr t', Tok.sym .rp :: rest) := by
      refine ih 0 _ 1 _ (Or.inl ⟨rfl, by omega⟩) ?_ (loop_stop ?_ 0 _) g (by omega)
      · exact noTake_cons (fun s hs => by simp [symOf] at hs; subst hs; exact binopTake_nonop (by decide) _)
      · exact noTake_cons (fun s hs => by simp [symOf] at hs; subst hs; exact binopTake_nonop (by decide) _)
    simp only [yield, List.cons_append, List.nil_append, List.append_assoc, parseExpr, reduceCtorEq, or_self,
      if_false, if_true, hinner, tr_paren] at h ⊢
    exact parseLoop_mono h (by omega)
  | @un op t' d' ih =>
    intro p rest f r _ _ h f' hf
    have hf1 := parseLoop_fuel_pos h
    simp only [yield, List.length_cons] at hf
    obtain ⟨g, rfl⟩ : ∃ g, f' = g + 1 := ⟨f' - 1, by omega⟩
    have hinner : parseExpr g 11 (yield t' ++ rest) = .ok (tr t', rest) :=
      ih 11 rest 1 _ (Or.inr ⟨by omega, by omega⟩) (noTake_up (noTake_11 rest)) (loop_stop (noTake_11 rest) 0 _) g
        (by omega)
    cases op <;>
      simp only [yield, List.cons_append, parseExpr, Spec.PPInt.UnOp.sym, reduceCtorEq, or_self, or_true, true_or,
        or_false, false_or, if_false, if_true, hinner] <;>
      exact parseLoop_mono h (by omega)
  | @bin op a b da db iha ihb =>
    intro p rest f r hadm hnt h f' hf
    have hf1 := parseLoop_fuel_pos h
    have hk := level_ge_two op
    have hp : p < op.level := by
      rcases hadm with ⟨h1, _⟩ | ⟨_, h2⟩
      · omega
      · exact h2
    simp only [yield, List.length_append, List.length_cons, List.length_nil] at hf
    have hb' : parseExpr (f + 2 * (yield b).length) op.level (yield b ++ rest) = .ok (tr b, rest) :=
      ihb op.level rest 1 _ (Or.inr ⟨by omega, by omega⟩) (noTake_up hnt) (loop_stop hnt 0 _) _ (by omega)
    have hloop : parseLoop (f + 2 * (yield b).length + 1) p (tr a) (Tok.sym op.sym :: (yield b ++ rest)) = .ok r := by
      simp only [parseLoop, symOf, binopTake_bin hp, if_true, lookup_binop, binSym_ne_quest op, if_false, hb']
      rw [tr_bin] at h
      exact parseLoop_mono h (by omega)
    have := iha p _ _ r hadm
      (noTake_cons (fun s hs => by simp [symOf] at hs; subst hs; exact binopTake_self op)) hloop f' (by omega)
    simpa [yield, List.append_assoc] using this
  | @cond c a b dc da db ihc iha ihb =>
    intro p rest f r hadm hnt h f' hf
    have hf1 := parseLoop_fuel_pos h
    have hp : p ≤ 1 := by
      rcases hadm with ⟨_, h2⟩ | ⟨h1, _⟩
      · exact h2
      · omega
    simp only [yield, List.length_append, List.length_cons, List.length_nil] at hf
    -- fuel handed to the loop that sees `?`
    let g := f + 2 * (yield a).length + 2 * (yield b).length
    have ha' : parseExpr g 0 (yield a ++ (Tok.sym .colon :: (yield b ++ rest))) =
        .ok (tr a, Tok.sym .colon :: (yield b ++ rest)) := by
      refine iha 0 _ 1 _ (Or.inl ⟨rfl, by omega⟩) ?_ (loop_stop ?_ 0 _) g (by omega)
      · exact noTake_cons (fun s hs => by simp [symOf] at hs; subst hs; exact binopTake_nonop (by decide) _)
      · exact noTake_cons (fun s hs => by simp [symOf] at hs; subst hs; exact binopTake_nonop (by decide) _)
    have hb' : parseExpr g 1 (yield b ++ rest) = .ok (tr b, rest) :=
      ihb 1 rest 1 _ (Or.inl ⟨rfl, by omega⟩) hnt (loop_stop hnt 0 _) g (by omega)
    have hloop : parseLoop (g + 1) p (tr c)
        (Tok.sym .quest :: (yield a ++ (Tok.sym .colon :: (yield b ++ rest)))) = .ok r := by
      simp only [parseLoop, symOf, binopTake_quest hp, if_true, lookup_opMap, ha', hb']
      rw [tr_cond] at h
      exact parseLoop_mono h (by omega)
    have := ihc p _ _ r (Or.inr ⟨by omega, by omega⟩)
      (noTake_cons (fun s hs => by simp [symOf] at hs; subst hs; exact binopTake_quest_2)) hloop f' (by omega)
    simpa [yield, List.append_assoc] using this
  | @up k' t' d' ih =>
    intro p rest f r hadm hnt h f' hf
    exact ih p rest f r (adm_up hadm) (noTake_up hnt) h f' hf

/-- every sentence of the grammar is parsed to its prescribed tree, the whole line is consumed, with the
    fuel that `evalIf` passes -/
theorem parse_sentence {t : PTree} (d : Deriv 1 t) :
    parseExpr (2 * (yield t).length + 2) 0 (yield t) = .ok (tr t, []) := by
  have := parse_deriv d 0 [] 1 (tr t, []) (Or.inl ⟨rfl, by omega⟩) (noTake_nil 1) (loop_stop (noTake_nil 0) 0 _)
    (2 * (yield t).length + 2) (by omega)
  simpa using this

theorem evalIf_signed {t : PTree} (d : Deriv 1 t) (hs : SignedOnly (erase t)) {b : Bool}
    (h : Spec.PPInt.taken (erase t) = some b) : evalIf (yield t) = .ok b := by
  simp only [Spec.PPInt.taken, Option.map_eq_some_iff] at h
  obtain ⟨x, hx, rfl⟩ := h
  obtain ⟨_, _, hev⟩ := eval_signed (erase t) hs x hx
  unfold evalIf
  rw [parse_sentence d]
  simp only [tr] at *
  rw [hev]; rfl

/-! ### totality of the evaluator on parsed trees (C28) -/

/-- `_eval_tree` on the tree of any abstract syntax tree ends with a value or a diagnostic -/
theorem evalTree_graceful : ∀ (T : Tree), (∃ v, evalTree (ofTree T) = .ok v) ∨ evalTree (ofTree T) = .error .CompilerError := by
  intro T
  induction T with
  | num v s d => left; exact ⟨v, rfl⟩
  | un op a ih =>
    rcases ih with ⟨v, hv⟩ | he
    · left
      cases op <;> simp [ofTree, evalTree, unSym, Spec.PPInt.UnOp.sym, hv]
    · cases op
      · right; simp [ofTree, evalTree, unSym, Spec.PPInt.UnOp.sym, he]
      · right; simp [ofTree, evalTree, unSym, Spec.PPInt.UnOp.sym, he]
      · right; simp [ofTree, evalTree, unSym, Spec.PPInt.UnOp.sym, he]
      · right; simpa [ofTree] using he
  | bin op a b iha ihb =>
    by_cases hl : op = .land
    · subst hl
      rcases iha with ⟨x, hx⟩ | he
      · by_cases h0 : x = 0
        · left; exact ⟨0, by simp [ofTree, evalTree, binSym, Spec.PPInt.BinOp.sym, hx, h0]⟩
        · rcases ihb with ⟨y, hy⟩ | he
          · left; exact ⟨_, by simp [ofTree, evalTree, binSym, Spec.PPInt.BinOp.sym, hx, h0, hy]; rfl⟩
          · right; simp [ofTree, evalTree, binSym, Spec.PPInt.BinOp.sym, hx, h0, he]
      · right; simp [ofTree, evalTree, binSym, Spec.PPInt.BinOp.sym, he]
    · by_cases hr : op = .lor
      · subst hr
        rcases iha with ⟨x, hx⟩ | he
        · by_cases h0 : x = 0
          · rcases ihb with ⟨y, hy⟩ | he
            · left; exact ⟨_, by simp [ofTree, evalTree, binSym, Spec.PPInt.BinOp.sym, hx, h0, hy]; rfl⟩
            · right; simp [ofTree, evalTree, binSym, Spec.PPInt.BinOp.sym, hx, h0, he]
          · left; exact ⟨1, by simp [ofTree, evalTree, binSym, Spec.PPInt.BinOp.sym, hx, h0]⟩
        · right; simp [ofTree, evalTree, binSym, Spec.PPInt.BinOp.sym, he]
      · rcases iha with ⟨x, hx⟩ | he
        · rcases ihb with ⟨y, hy⟩ | he
          · have := evalTree_bin hl hr hx hy
            simp only [ofTree]
            rw [this]
            split
            · right; rfl
            · split
              · right; rfl
              · left; exact ⟨_, rfl⟩
          · right
            cases op <;> first
              | exact absurd rfl hl
              | exact absurd rfl hr
              | simp [ofTree, evalTree, binSym, Spec.PPInt.BinOp.sym, lookup_opMap, hx, he]
        · right
          cases op <;> first
            | exact absurd rfl hl
            | exact absurd rfl hr
            | simp [ofTree, evalTree, binSym, Spec.PPInt.BinOp.sym, lookup_opMap, he]
  | cond c a b ihc iha ihb =>
    rcases ihc with ⟨x, hx⟩ | he
    · by_cases h0 : x = 0
      · rcases ihb with ⟨y, hy⟩ | he
        · left; exact ⟨y, by simp [ofTree, evalTree, hx, h0, hy]⟩
        · right; simp [ofTree, evalTree, hx, h0, he]
      · rcases iha with ⟨y, hy⟩ | he
        · left; exact ⟨y, by simp [ofTree, evalTree, hx, h0, hy]⟩
        · right; simp [ofTree, evalTree, hx, h0, he]
    · right; simp [ofTree, evalTree, he]

/-- `#if` on any sentence of the grammar: kept / skipped / diagnostic, never another exception -/
theorem evalIf_graceful {t : PTree} (d : Deriv 1 t) :
    (∃ b, evalIf (yield t) = .ok b) ∨ evalIf (yield t) = .error .CompilerError := by
  unfold evalIf
  rw [parse_sentence d]
  rcases evalTree_graceful (erase t) with ⟨v, hv⟩ | he
  · left; simp only [tr]; rw [hv]; exact ⟨_, rfl⟩
  · right; simp only [tr]; rw [he]; rfl

end Proofs.PPExpr
