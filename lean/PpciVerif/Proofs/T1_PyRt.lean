import PpciVerif.Model.PyRt
import PpciVerif.Proofs.PyInt
/-!
T1 (py2lean): facts about the translator's runtime `Model.PyRt`, used to normalise
generated definitions (`Gen/Py_*.lean`) into plain `Int` arithmetic so that
`omega`/`simp` can compare them with the hand models.  The lemmas named
`*_lit` justify the translator's only optimisation (a literal divisor / shift
count / exponent is translated without the exception check).
-/
namespace Proofs.T1
open Model Model.PyRt Spec.Bits Proofs.Bits Proofs.PyInt

@[simp] theorem bind_ok {α β : Type} (a : α) (f : α → Except PyErr β) : PyRt.bind (.ok a) f = f a := rfl
@[simp] theorem bind_error {α β : Type} (e : PyErr) (f : α → Except PyErr β) :
    PyRt.bind (.error e : Except PyErr α) f = .error e := rfl

theorem bind_eq_ok {α β : Type} {x : Except PyErr α} {a : α} (f : α → Except PyErr β) (h : x = .ok a) :
    PyRt.bind x f = f a := by subst h; rfl

/-! ### the literal optimisation is sound -/
theorem mod_lit (a b : Int) (h : b ≠ 0) : PyRt.mod a b = .ok (Int.fmod a b) := by simp [PyRt.mod, h]
theorem floordiv_lit (a b : Int) (h : b ≠ 0) : PyRt.floordiv a b = .ok (Int.fdiv a b) := by simp [PyRt.floordiv, h]
theorem shl_lit (a : Int) (k : Nat) : PyRt.shl a (k : Int) = .ok (PyRt.shlN a k) := by
  simp [PyRt.shl]
theorem shr_lit (a : Int) (k : Nat) : PyRt.shr a (k : Int) = .ok (PyRt.shrN a k) := by
  simp [PyRt.shr]
theorem pow_lit (a : Int) (k : Nat) : PyRt.pow a (k : Int) = .ok (a ^ k) := by
  simp [PyRt.pow]

/-! ### monadic operators on arguments known to be in their domain -/
theorem shl_of_nonneg (a : Int) {b : Int} (h : 0 ≤ b) : PyRt.shl a b = .ok (a * 2 ^ b.toNat) := by
  simp [PyRt.shl, PyRt.shlN, Int.not_lt.2 h]
theorem shr_of_nonneg (a : Int) {b : Int} (h : 0 ≤ b) : PyRt.shr a b = .ok (a / 2 ^ b.toNat) := by
  simp [PyRt.shr, PyRt.shrN, Int.not_lt.2 h]
theorem shl_of_neg (a : Int) {b : Int} (h : b < 0) : PyRt.shl a b = .error .ValueError := by
  simp [PyRt.shl, h]
theorem shr_of_neg (a : Int) {b : Int} (h : b < 0) : PyRt.shr a b = .error .ValueError := by
  simp [PyRt.shr, h]
theorem pow_of_nonneg (a : Int) {b : Int} (h : 0 ≤ b) : PyRt.pow a b = .ok (a ^ b.toNat) := by
  simp [PyRt.pow, Int.not_lt.2 h]
theorem pow_of_neg (a : Int) {b : Int} (h : b < 0) : PyRt.pow a b = .error .OutsideFragment := by
  simp [PyRt.pow, h]
theorem mod_of_pos (a : Int) {b : Int} (h : 0 < b) : PyRt.mod a b = .ok (a % b) := by
  have : b ≠ 0 := by omega
  simp [PyRt.mod, this, Int.fmod_eq_emod_of_nonneg a (Int.le_of_lt h)]
theorem mod_zero (a : Int) : PyRt.mod a 0 = .error .ZeroDivisionError := by simp [PyRt.mod]
theorem floordiv_of_pos (a : Int) {b : Int} (h : 0 < b) : PyRt.floordiv a b = .ok (a / b) := by
  have : b ≠ 0 := by omega
  simp [PyRt.floordiv, this, Int.fdiv_eq_ediv_of_nonneg a (Int.le_of_lt h)]

theorem shl_natCast (a : Int) (k : Nat) : PyRt.shl a (k : Int) = .ok (a * 2 ^ k) := by
  simp [PyRt.shl, PyRt.shlN]
theorem shr_natCast (a : Int) (k : Nat) : PyRt.shr a (k : Int) = .ok (a / 2 ^ k) := by
  simp [PyRt.shr, PyRt.shrN]
theorem pow_natCast (a : Int) (k : Nat) : PyRt.pow a (k : Int) = .ok (a ^ k) := pow_lit a k

/-! ### pure operators with literal right operands, as `/` and `%` -/
theorem fmod_pos (a : Int) {b : Int} (h : 0 < b) : Int.fmod a b = a % b :=
  Int.fmod_eq_emod_of_nonneg a (Int.le_of_lt h)
theorem fdiv_pos (a : Int) {b : Int} (h : 0 < b) : Int.fdiv a b = a / b :=
  Int.fdiv_eq_ediv_of_nonneg a (Int.le_of_lt h)

theorem and_127 (x : Int) : PyInt.and x 127 = x % 128 := by simpa using and_mask x 7
theorem and_1 (x : Int) : PyInt.and x 1 = x % 2 := and_one x
theorem and_0xFF (x : Int) : PyInt.and x 255 = x % 256 := and_255 x
theorem and_0xFFFFFFFF (x : Int) : PyInt.and x 4294967295 = x % 4294967296 := by simpa using and_mask x 32

/-- a single-bit mask tests one binary digit -/
theorem and_bit (x : Int) (k : Nat) : PyInt.and x (2 ^ k) = (x / 2 ^ k % 2) * 2 ^ k := by
  rw [and_pow]
  unfold testBit
  have h := Int.emod_two_eq (x / 2 ^ k)
  by_cases h1 : x / 2 ^ k % 2 = 1
  · simp [h1]
  · have h0 : x / 2 ^ k % 2 = 0 := by omega
    simp [h0]
theorem and_64 (x : Int) : PyInt.and x 64 = (x / 64 % 2) * 64 := by simpa using and_bit x 6
theorem and_128 (x : Int) : PyInt.and x 128 = (x / 128 % 2) * 128 := by simpa using and_bit x 7

/-- `b | 0x80` on a 7-bit value -/
theorem or_128 {b : Int} (h0 : 0 ≤ b) (h1 : b < 128) : PyInt.or b 128 = b + 128 := by
  have := or_eq_add_of_lt 1 (k := 7) (b := b) ⟨h0, by simpa using h1⟩
  rw [Proofs.PyInt.or_comm]; simp at this; rw [this]; omega

theorem abs_eq (x : Int) : PyRt.abs x = if x < 0 then -x else x := by
  unfold PyRt.abs; split <;> omega

end Proofs.T1
