import PpciVerif.Model.PyRt
/-!
T1 (py2lean): facts about the translator's runtime `Model.PyRt`, used to normalise
generated definitions (`Gen/Py_*.lean`) into plain `Int` arithmetic so that
`omega`/`simp` can compare them with the hand models.  Core Lean only (facts about literal bit
masks, which need `Proofs.PyInt`, are in `T1_PyMask.lean`).  The lemmas named
`*_lit` justify the translator's only optimisation (a literal divisor / shift
count / exponent is translated without the exception check).
-/
namespace Proofs.T1
open Model Model.PyRt

@[simp] theorem bind_ok {α β : Type} (a : α) (f : α → Except PyErr β) : PyRt.bind (.ok a) f = f a := rfl
@[simp] theorem bind_error {α β : Type} (e : PyErr) (f : α → Except PyErr β) :
    PyRt.bind (.error e : Except PyErr α) f = .error e := rfl

theorem bind_eq_ok {α β : Type} {x : Except PyErr α} {a : α} (f : α → Except PyErr β) (h : x = .ok a) :
    PyRt.bind x f = f a := by subst h; rfl

/-! ### the literal optimisation is sound -/
theorem mod_lit (a b : Int) (h : b ≠ 0) : PyRt.mod a b = .ok (Int.fmod a b) := by simp [PyRt.mod, h]
theorem floordiv_lit (a b : Int) (h : b ≠ 0) : PyRt.floordiv a b = .ok (Int.fdiv a b) := by simp [PyRt.floordiv, h]
theorem shl_lit (a : Int) (k : Nat) : PyRt.shl a (k : Int) = .ok (PyRt.shlN a k) := by
  simp [PyRt.shl]
theorem shr_lit (a : Int) (k : Nat) : PyRt.shr a (k : Int) = .ok (PyRt.shrN a k) := by
  simp [PyRt.shr]
theorem pow_lit (a : Int) (k : Nat) : PyRt.pow a (k : Int) = .ok (a ^ k) := by
  simp [PyRt.pow]

/-! ### monadic operators on arguments known to be in their domain -/
theorem shl_of_nonneg (a : Int) {b : Int} (h : 0 ≤ b) : PyRt.shl a b = .ok (a * 2 ^ b.toNat) := by
  simp [PyRt.shl, PyRt.shlN, Int.not_lt.2 h]
theorem shr_of_nonneg (a : Int) {b : Int} (h : 0 ≤ b) : PyRt.shr a b = .ok (a / 2 ^ b.toNat) := by
  simp [PyRt.shr, PyRt.shrN, Int.not_lt.2 h]
theorem shl_of_neg (a : Int) {b : Int} (h : b < 0) : PyRt.shl a b = .error .ValueError := by
  simp [PyRt.shl, h]
theorem shr_of_neg (a : Int) {b : Int} (h : b < 0) : PyRt.shr a b = .error .ValueError := by
  simp [PyRt.shr, h]
theorem pow_of_nonneg (a : Int) {b : Int} (h : 0 ≤ b) : PyRt.pow a b = .ok (a ^ b.toNat) := by
  simp [PyRt.pow, Int.not_lt.2 h]
theorem pow_of_neg (a : Int) {b : Int} (h : b < 0) : PyRt.pow a b = .error .OutsideFragment := by
  simp [PyRt.pow, h]
theorem mod_of_pos (a : Int) {b : Int} (h : 0 < b) : PyRt.mod a b = .ok (a % b) := by
  have : b ≠ 0 := by omega
  simp [PyRt.mod, this, Int.fmod_eq_emod_of_nonneg a (Int.le_of_lt h)]
theorem mod_zero (a : Int) : PyRt.mod a 0 = .error .ZeroDivisionError := by simp [PyRt.mod]
theorem floordiv_of_pos (a : Int) {b : Int} (h : 0 < b) : PyRt.floordiv a b = .ok (a / b) := by
  have : b ≠ 0 := by omega
  simp [PyRt.floordiv, this, Int.fdiv_eq_ediv_of_nonneg a (Int.le_of_lt h)]

theorem shl_natCast (a : Int) (k : Nat) : PyRt.shl a (k : Int) = .ok (a * 2 ^ k) := by
  simp [PyRt.shl, PyRt.shlN]
theorem shr_natCast (a : Int) (k : Nat) : PyRt.shr a (k : Int) = .ok (a / 2 ^ k) := by
  simp [PyRt.shr, PyRt.shrN]
theorem pow_natCast (a : Int) (k : Nat) : PyRt.pow a (k : Int) = .ok (a ^ k) := pow_lit a k

/-! ### pure operators with literal right operands, as `/` and `%` -/
theorem fmod_pos (a : Int) {b : Int} (h : 0 < b) : Int.fmod a b = a % b :=
  Int.fmod_eq_emod_of_nonneg a (Int.le_of_lt h)
theorem fdiv_pos (a : Int) {b : Int} (h : 0 < b) : Int.fdiv a b = a / b :=
  Int.fdiv_eq_ediv_of_nonneg a (Int.le_of_lt h)

theorem abs_eq (x : Int) : PyRt.abs x = if x < 0 then -x else x := by
  unfold PyRt.abs; split <;> omega

end Proofs.T1
