import PpciVerif.Model.X64CC
import PpciVerif.Spec.SysV
/-!
Helper lemmas for C40: the loop invariant of `determine_arg_locations`, and symbolic execution of
push/pop sequences on the abstract stack machine.
-/
namespace Proofs.X64CC
open Model.X64CC
open Spec.SysV (Ty Class classify countClass memCount inMemory argLocAfter argLoc argLocs memSlot)

/-! ### counting -/

theorem countClass_snoc (c : Class) (before : List Ty) (t : Ty) :
    countClass c (before ++ [t]) = countClass c before + (if classify t = c then 1 else 0) := by
  unfold countClass
  rw [List.filter_append, List.length_append]
  by_cases h : classify t = c <;> simp [h]

theorem countClass_nil (c : Class) : countClass c [] = 0 := rfl

theorem isIntTy_iff (t : Ty) : isIntTy t = true ↔ classify t = .INTEGER := by
  cases t <;> simp [isIntTy, classify]

theorem classify_sse_of_not_int (t : Ty) (h : isIntTy t = false) : classify t = .SSE := by
  cases t <;> simp_all [isIntTy, classify]

/-! ### the loop invariant of `determine_arg_locations` -/

/-- the loop state after the arguments `before` have been placed -/
def stAfter (before : List Ty) : ALState :=
  ⟨intRegs.drop (countClass .INTEGER before), floatRegs.drop (countClass .SSE before), 16 + 8 * memCount before⟩

theorem stAfter_nil : stAfter [] = initState := by
  simp [stAfter, initState, countClass_nil, memCount]

theorem int_reg_spec : ∀ k, k < 6 → ∀ b : Bool,
    (Loc.reg (if b then (intRegs.getD k default).2 else (intRegs.getD k default).1)).toSpec
      = some (.gpr (Spec.SysV.intArgRegs.getD k .rax)) := by decide

theorem float_reg_spec : ∀ k, k < 8 → ∀ b : Bool,
    (Loc.reg (if b then (floatRegs.getD k default).1 else (floatRegs.getD k default).2)).toSpec
      = some (.xmm (Spec.SysV.sseArgRegs.getD k 0)) := by decide

theorem drop_cons_getD {α} [Inhabited α] (l : List α) (k : Nat) (h : k < l.length) :
    l.drop k = l.getD k default :: l.drop (k + 1) := by
  rw [List.drop_eq_getElem_cons h]
  simp [List.getD_eq_getElem?_getD, List.getElem?_eq_getElem h]

theorem intRegs_length : intRegs.length = 6 := rfl
theorem floatRegs_length : floatRegs.length = 8 := rfl
theorem specInt_length : Spec.SysV.intArgRegs.length = 6 := rfl
theorem specSse_length : Spec.SysV.sseArgRegs.length = 8 := rfl

/-- one loop iteration keeps the invariant and yields the psABI location; stack slots are eightbytes -/
theorem argStep_spec (before : List Ty) (t : Ty) :
    (argStep (stAfter before) t).1 = stAfter (before ++ [t]) ∧
    (argStep (stAfter before) t).2.toSpec = some (argLocAfter before t) ∧
    (∀ o s, (argStep (stAfter before) t).2 = .stack o s → s = 8) := by
  by_cases hi : isIntTy t = true
  · have hc : classify t = .INTEGER := (isIntTy_iff t).1 hi
    have hcI : countClass .INTEGER (before ++ [t]) = countClass .INTEGER before + 1 := by
      rw [countClass_snoc]; simp [hc]
    have hcS : countClass .SSE (before ++ [t]) = countClass .SSE before := by
      rw [countClass_snoc]; simp [hc]
    by_cases hk : countClass .INTEGER before < 6
    · have hd := drop_cons_getD intRegs (countClass .INTEGER before) (by rw [intRegs_length]; exact hk)
      have hm : inMemory before t = false := by
        have h6 := specInt_length; simp [inMemory, hc]; omega
      have hmc : memCount (before ++ [t]) = memCount before := by
        simp only [memCount, hcI, hcS, specInt_length]; omega
      refine ⟨?_, ?_, ?_⟩
      · simp only [argStep, hi, stAfter, if_true]
        rw [hd]
        simp only [hcI, hcS, hmc]
      · simp only [argStep, hi, stAfter, if_true]
        rw [hd]
        simp only [argLocAfter, hm, hc]
        exact int_reg_spec _ hk (is32 t)
      · intro o s h
        simp only [argStep, hi, stAfter, if_true] at h
        rw [hd] at h
        simp at h
    · have hd : intRegs.drop (countClass .INTEGER before) = [] :=
        List.drop_eq_nil_of_le (by rw [intRegs_length]; omega)
      have hd' : intRegs.drop (countClass .INTEGER before + 1) = [] :=
        List.drop_eq_nil_of_le (by rw [intRegs_length]; omega)
      have hm : inMemory before t = true := by
        have h6 := specInt_length; simp [inMemory, hc]; omega
      have hmc : memCount (before ++ [t]) = memCount before + 1 := by
        simp only [memCount, hcI, hcS, specInt_length]; omega
      refine ⟨?_, ?_, ?_⟩
      · simp only [argStep, hi, stAfter, if_true]
        rw [hd]
        simp only [hcI, hcS, hmc, hd']
        congr 1
      · simp only [argStep, hi, stAfter, if_true]
        rw [hd]
        simp [argLocAfter, hm, Loc.toSpec, memSlot]; omega
      · intro o s h
        simp only [argStep, hi, stAfter, if_true] at h
        rw [hd] at h
        simp at h; omega
  · have hi' : isIntTy t = false := by simpa using hi
    have hc : classify t = .SSE := classify_sse_of_not_int t hi'
    have hcI : countClass .INTEGER (before ++ [t]) = countClass .INTEGER before := by
      rw [countClass_snoc]; simp [hc]
    have hcS : countClass .SSE (before ++ [t]) = countClass .SSE before + 1 := by
      rw [countClass_snoc]; simp [hc]
    by_cases hk : countClass .SSE before < 8
    · have hd := drop_cons_getD floatRegs (countClass .SSE before) (by rw [floatRegs_length]; exact hk)
      have hm : inMemory before t = false := by
        have h8 := specSse_length; simp [inMemory, hc]; omega
      have hmc : memCount (before ++ [t]) = memCount before := by
        simp only [memCount, hcI, hcS, specSse_length]; omega
      refine ⟨?_, ?_, ?_⟩
      · simp only [argStep, hi', stAfter]
        rw [hd]
        simp only [hcI, hcS, hmc]
        simp
      · simp only [argStep, hi', stAfter]
        rw [hd]
        simp only [argLocAfter, hm, hc]
        have := float_reg_spec _ hk (decide (t = .f32))
        simpa using this
      · intro o s h
        simp only [argStep, hi', stAfter] at h
        rw [hd] at h
        simp at h
    · have hd : floatRegs.drop (countClass .SSE before) = [] :=
        List.drop_eq_nil_of_le (by rw [floatRegs_length]; omega)
      have hd' : floatRegs.drop (countClass .SSE before + 1) = [] :=
        List.drop_eq_nil_of_le (by rw [floatRegs_length]; omega)
      have hm : inMemory before t = true := by
        have h8 := specSse_length; simp [inMemory, hc]; omega
      have hmc : memCount (before ++ [t]) = memCount before + 1 := by
        simp only [memCount, hcI, hcS, specSse_length]; omega
      refine ⟨?_, ?_, ?_⟩
      · simp only [argStep, hi', stAfter]
        rw [hd]
        simp only [hcI, hcS, hmc, hd']
        simp; omega
      · simp only [argStep, hi', stAfter]
        rw [hd]
        simp [argLocAfter, hm, Loc.toSpec, memSlot]; omega
      · intro o s h
        simp only [argStep, hi', stAfter] at h
        rw [hd] at h
        simp at h; omega

/-- the psABI locations of `rest` when `before` precedes it, left to right -/
def specFrom (before : List Ty) : List Ty → List Spec.SysV.Loc
  | [] => []
  | t :: ts => argLocAfter before t :: specFrom (before ++ [t]) ts

theorem argLoop_spec (rest : List Ty) : ∀ before : List Ty,
    (argLoop (stAfter before) rest).map Loc.toSpec = (specFrom before rest).map some ∧
    (∀ o s, Loc.stack o s ∈ argLoop (stAfter before) rest → s = 8) := by
  induction rest with
  | nil => intro before; simp [argLoop, specFrom]
  | cons t ts ih =>
    intro before
    obtain ⟨h1, h2, h3⟩ := argStep_spec before t
    obtain ⟨ih1, ih2⟩ := ih (before ++ [t])
    constructor
    · simp only [argLoop, specFrom, List.map_cons, h1, h2, ih1]
    · intro o s hmem
      simp only [argLoop, List.mem_cons] at hmem
      rcases hmem with hmem | hmem
      · exact h3 o s hmem.symm
      · rw [h1] at hmem; exact ih2 o s hmem

theorem specFrom_eq (rest : List Ty) : ∀ before : List Ty,
    specFrom before rest
      = (List.range rest.length).map (fun j => argLoc (before ++ rest) (before.length + j)) := by
  induction rest with
  | nil => intro before; simp [specFrom]
  | cons t ts ih =>
    intro before
    simp only [specFrom, List.length_cons, List.range_succ_eq_map, List.map_cons, List.map_map]
    congr 1
    · simp [argLoc, List.getD_eq_getElem?_getD]
    · rw [ih (before ++ [t])]
      apply List.map_congr_left
      intro j _
      simp only [Function.comp, List.append_assoc, List.singleton_append, List.length_append, List.length_singleton]
      congr 1; omega

theorem specFrom_nil (sig : List Ty) : specFrom [] sig = argLocs sig := by
  rw [specFrom_eq]; simp [argLocs]

theorem specFrom_length (rest : List Ty) : ∀ before, (specFrom before rest).length = rest.length := by
  induction rest with
  | nil => intro _; rfl
  | cons t ts ih => intro b; simp [specFrom, ih]

/-! ### the stack machine -/

@[simp] theorem run_nil (s : MState) : run [] s = s := rfl
@[simp] theorem run_cons (i : Instr) (is : List Instr) (s : MState) : run (i :: is) s = run is (step s i) := rfl
theorem run_append (a b : List Instr) (s : MState) : run (a ++ b) s = run b (run a s) := by
  simp [run, List.foldl_append]

@[simp] theorem upd_same {α} [DecidableEq α] (f : α → Int) (k : α) (v : Int) : upd f k v k = v := by simp [upd]
theorem upd_other {α} [DecidableEq α] (f : α → Int) (k x : α) (v : Int) (h : x ≠ k) : upd f k v x = f x := by
  simp [upd, h]

/-- effect of pushing the registers `saved` (none of them `rsp`) -/
theorem pushes_spec (saved : List Nat) (h4 : 4 ∉ saved) : ∀ s : MState,
    (run (saved.map .push) s).reg 4 = s.reg 4 - 8 * saved.length ∧
    (∀ r, r ≠ 4 → (run (saved.map .push) s).reg r = s.reg r) ∧
    (∀ a, s.reg 4 ≤ a → (run (saved.map .push) s).mem a = s.mem a) ∧
    (∀ (k : Nat) r, saved[k]? = some r → (run (saved.map .push) s).mem (s.reg 4 - 8 * ((k : Int) + 1)) = s.reg r) := by
  induction saved with
  | nil => intro s; simp
  | cons a rest ih =>
    intro s
    have ha : a ≠ 4 := fun h => h4 (by simp [h])
    have hr : 4 ∉ rest := fun h => h4 (by simp [h])
    obtain ⟨i1, i2, i3, i4⟩ := ih hr (step s (.push a))
    have e4 : (step s (.push a)).reg 4 = s.reg 4 - 8 := by simp [step]
    simp only [List.map_cons, run_cons]
    refine ⟨?_, ?_, ?_, ?_⟩
    · rw [i1, e4]; simp only [List.length_cons]; push_cast; omega
    · intro r hr4; rw [i2 r hr4]; simp [step, upd_other _ _ _ _ hr4]
    · intro x hx
      rw [i3 x (by rw [e4]; omega)]
      simp only [step]; rw [upd_other]; omega
    · intro k r hk
      cases k with
      | zero =>
        simp at hk; subst hk
        rw [i3 _ (by rw [e4]; omega)]
        simp [step]
      | succ k =>
        simp at hk
        have := i4 k r hk
        rw [e4] at this
        have e : s.reg 4 - 8 * ((k : Int) + 1 + 1) = s.reg 4 - 8 - 8 * ((k : Int) + 1) := by omega
        push_cast
        rw [e, this]
        have hr4 : r ≠ 4 := fun h => hr (by rw [← h]; exact List.mem_of_getElem? hk)
        simp [step, upd_other _ _ _ _ hr4]

/-- pushing `saved`, then anything that keeps `rsp` and the save slots, then popping in reverse order
    restores `rsp` and every saved register and touches nothing else -/
theorem save_restore (saved : List Nat) (h4 : 4 ∉ saved) : ∀ (s s2 : MState),
    s2.reg 4 = (run (saved.map .push) s).reg 4 →
    (∀ k, k < saved.length → s2.mem (s.reg 4 - 8 * ((k : Int) + 1)) = (run (saved.map .push) s).mem (s.reg 4 - 8 * ((k : Int) + 1))) →
    (run (saved.reverse.map .pop) s2).reg 4 = s.reg 4 ∧
    (run (saved.reverse.map .pop) s2).mem = s2.mem ∧
    (∀ r ∈ saved, (run (saved.reverse.map .pop) s2).reg r = s.reg r) ∧
    (∀ r, r ∉ saved → r ≠ 4 → (run (saved.reverse.map .pop) s2).reg r = s2.reg r) := by
  induction saved with
  | nil => intro s s2 h _; simpa using h
  | cons a rest ih =>
    intro s s2 hrsp hmem
    have ha : a ≠ 4 := fun h => h4 (by simp [h])
    have hr : 4 ∉ rest := fun h => h4 (by simp [h])
    have e4 : (step s (.push a)).reg 4 = s.reg 4 - 8 := by simp [step]
    simp only [List.map_cons, run_cons] at hrsp hmem
    obtain ⟨p1, p2, p3, p4⟩ := pushes_spec rest hr (step s (.push a))
    have ih' := ih hr (step s (.push a)) s2 hrsp (by
      intro k hk
      have := hmem (k + 1) (by simp; omega)
      rw [e4]
      have e : s.reg 4 - 8 - 8 * ((k : Int) + 1) = s.reg 4 - 8 * (((k + 1 : Nat) : Int) + 1) := by push_cast; omega
      rw [e]; exact this)
    obtain ⟨q1, q2, q3, q4⟩ := ih'
    simp only [List.reverse_cons, List.map_append, List.map_cons, List.map_nil, run_append, run_cons, run_nil]
    generalize hs3 : run (List.map Instr.pop rest.reverse) s2 = s3 at q1 q2 q3 q4
    have hval : s3.mem (s3.reg 4) = s.reg a := by
      rw [q1, e4, q2]
      have := hmem 0 (by simp)
      simp at this
      rw [this, p3 _ (by rw [e4]; omega)]
      simp [step]
    refine ⟨?_, ?_, ?_, ?_⟩
    · simp only [step]; rw [upd_other _ _ _ _ (Ne.symm ha), upd_same, q1, e4]; omega
    · simp [step, q2]
    · intro r hrm
      by_cases hra : r = a
      · subst hra; simp only [step, upd_same]; exact hval
      · have hrr : r ∈ rest := by simpa [hra] using hrm
        have hr4 : r ≠ 4 := fun h => hr (h ▸ hrr)
        simp only [step]; rw [upd_other _ _ _ _ hra, upd_other _ _ _ _ hr4, q3 r hrr]
        simp [step, upd_other _ _ _ _ hr4]
    · intro r hrm hr4
      have hra : r ≠ a := fun h => hrm (by simp [h])
      have hrr : r ∉ rest := fun h => hrm (by simp [h])
      simp only [step]; rw [upd_other _ _ _ _ hra, upd_other _ _ _ _ hr4, q4 r hrr hr4]

theorem subs_spec (adj : List Nat) : ∀ s : MState,
    (run (adj.map .sub) s).reg 4 = s.reg 4 - (adj.sum : Nat) ∧
    (∀ r, r ≠ 4 → (run (adj.map .sub) s).reg r = s.reg r) ∧
    (run (adj.map .sub) s).mem = s.mem := by
  induction adj with
  | nil => intro s; simp
  | cons a rest ih =>
    intro s
    obtain ⟨i1, i2, i3⟩ := ih (step s (.sub a))
    simp only [List.map_cons, run_cons, List.sum_cons]
    refine ⟨?_, ?_, ?_⟩
    · rw [i1]; simp [step]; omega
    · intro r hr; rw [i2 r hr]; simp [step, upd_other _ _ _ _ hr]
    · rw [i3]; simp [step]

theorem adds_spec (adj : List Nat) : ∀ s : MState,
    (run (adj.map .add) s).reg 4 = s.reg 4 + (adj.sum : Nat) ∧
    (∀ r, r ≠ 4 → (run (adj.map .add) s).reg r = s.reg r) ∧
    (run (adj.map .add) s).mem = s.mem := by
  induction adj with
  | nil => intro s; simp
  | cons a rest ih =>
    intro s
    obtain ⟨i1, i2, i3⟩ := ih (step s (.add a))
    simp only [List.map_cons, run_cons, List.sum_cons]
    refine ⟨?_, ?_, ?_⟩
    · rw [i1]; simp [step]; omega
    · intro r hr; rw [i2 r hr]; simp [step, upd_other _ _ _ _ hr]
    · rw [i3]; simp [step]

/-! ### prologue / epilogue, for an arbitrary list of saved registers and adjustment -/

def proOf (ids adj : List Nat) : List Instr := [.push 5, .mov 5 4] ++ adj.map .sub ++ ids.map .push
def epiOf (ids adj : List Nat) : List Instr := ids.reverse.map .pop ++ adj.map .add ++ [.pop 5]

theorem pro_spec (ids adj : List Nat) (h4 : 4 ∉ ids) (s0 : MState) :
    (run (proOf ids adj) s0).reg 4 = s0.reg 4 - 8 - (adj.sum : Nat) - 8 * ids.length ∧
    (run (proOf ids adj) s0).reg 5 = s0.reg 4 - 8 ∧
    (∀ r, r ≠ 4 → r ≠ 5 → (run (proOf ids adj) s0).reg r = s0.reg r) ∧
    (∀ a, s0.reg 4 ≤ a → (run (proOf ids adj) s0).mem a = s0.mem a) := by
  obtain ⟨b1, b2, b3⟩ := subs_spec adj (step (step s0 (.push 5)) (.mov 5 4))
  obtain ⟨p1, p2, p3, _⟩ := pushes_spec ids h4 (run (adj.map .sub) (step (step s0 (.push 5)) (.mov 5 4)))
  have ea4 : (step (step s0 (.push 5)) (.mov 5 4)).reg 4 = s0.reg 4 - 8 := by simp [step, upd]
  have ea5 : (step (step s0 (.push 5)) (.mov 5 4)).reg 5 = s0.reg 4 - 8 := by simp [step, upd]
  simp only [proOf, List.cons_append, List.nil_append, run_cons, run_append]
  refine ⟨?_, ?_, ?_, ?_⟩
  · rw [p1, b1, ea4]
  · rw [p2 5 (by decide), b2 5 (by decide), ea5]
  · intro r h4' h5'
    rw [p2 r h4', b2 r h4']
    simp [step, upd, h4', h5']
  · intro a ha
    rw [p3 a (by rw [b1, ea4]; omega), b3]
    simp only [step]; rw [upd_other]; omega

/-- the discipline: `epiOf ∘ body ∘ proOf` for a body that keeps rsp, the save slots and the saved-rbp slot -/
theorem frame_core (ids adj : List Nat) (h4 : 4 ∉ ids) (h5 : 5 ∉ ids) (s0 s2 : MState)
    (hrsp : s2.reg 4 = (run (proOf ids adj) s0).reg 4)
    (hsave : ∀ a, (run (proOf ids adj) s0).reg 4 ≤ a → a < (run (proOf ids adj) s0).reg 4 + 8 * ids.length →
        s2.mem a = (run (proOf ids adj) s0).mem a)
    (hslot : s2.mem (s0.reg 4 - 8) = (run (proOf ids adj) s0).mem (s0.reg 4 - 8)) :
    (run (epiOf ids adj) s2).reg 4 = s0.reg 4 ∧
    (run (epiOf ids adj) s2).reg 5 = s0.reg 5 ∧
    (∀ r ∈ ids, (run (epiOf ids adj) s2).reg r = s0.reg r) ∧
    (∀ r, r ∉ ids → r ≠ 4 → r ≠ 5 → (run (epiOf ids adj) s2).reg r = s2.reg r) := by
  -- name the intermediate states of the prologue
  have hpro : run (proOf ids adj) s0
      = run (ids.map .push) (run (adj.map .sub) (step (step s0 (.push 5)) (.mov 5 4))) := by
    simp [proOf, run_append]
  generalize hsa : step (step s0 (.push 5)) (.mov 5 4) = sa at hpro
  have ea4 : sa.reg 4 = s0.reg 4 - 8 := by rw [← hsa]; simp [step, upd]
  have ear : ∀ r, r ≠ 4 → r ≠ 5 → sa.reg r = s0.reg r := by
    intro r h h'; rw [← hsa]; simp [step, upd, h, h']
  have eam : sa.mem (s0.reg 4 - 8) = s0.reg 5 := by rw [← hsa]; simp [step, upd]
  obtain ⟨b1, b2, b3⟩ := subs_spec adj sa
  generalize hsb : run (adj.map .sub) sa = sb at hpro b1 b2 b3
  obtain ⟨p1, p2, p3, _⟩ := pushes_spec ids h4 sb
  rw [hpro] at hrsp hsave hslot
  obtain ⟨q1, q2, q3, q4⟩ := save_restore ids h4 sb s2 hrsp (by
    intro k hk
    apply hsave
    · rw [p1]; omega
    · rw [p1]; omega)
  simp only [epiOf, run_append, run_cons, run_nil]
  generalize hs3a : run (ids.reverse.map .pop) s2 = s3a at q1 q2 q3 q4
  obtain ⟨c1, c2, c3⟩ := adds_spec adj s3a
  generalize hs3b : run (adj.map .add) s3a = s3b at c1 c2 c3
  have e3b4 : s3b.reg 4 = s0.reg 4 - 8 := by rw [c1, q1, b1, ea4]; omega
  refine ⟨?_, ?_, ?_, ?_⟩
  · simp only [step]; rw [upd_other _ _ _ _ (by decide), upd_same, e3b4]; omega
  · simp only [step, upd_same]
    rw [e3b4, c3, q2, hslot, p3 _ (by rw [b1, ea4]; omega), b3, eam]
  · intro r hr
    have hr4 : r ≠ 4 := fun h => h4 (h ▸ hr)
    have hr5 : r ≠ 5 := fun h => h5 (h ▸ hr)
    simp only [step]; rw [upd_other _ _ _ _ hr5, upd_other _ _ _ _ hr4, c2 r hr4, q3 r hr, b2 r hr4, ear r hr4 hr5]
  · intro r hr hr4 hr5
    simp only [step]; rw [upd_other _ _ _ _ hr5, upd_other _ _ _ _ hr4, c2 r hr4, q4 r hr hr4]

/-! ### gen_call -/

theorem argStep_stack (st : ALState) (t : Ty) (o sz : Nat) (h : (argStep st t).2 = .stack o sz) :
    o = st.offset ∧ sz = 8 ∧ (argStep st t).1.offset = st.offset + 8 := by
  unfold argStep at h ⊢
  split at h <;> split at h <;> simp_all

theorem argStep_reg (st : ALState) (t : Ty) (r : Reg) (h : (argStep st t).2 = .reg r) :
    (argStep st t).1.offset = st.offset := by
  unfold argStep at h ⊢
  split at h <;> split at h <;> simp_all

/-- every stack location of the result is a member of `mem_args`, and its offset is 16 + 8·(its
    position in `mem_args`) when the loop starts with `offset = 16` -/
theorem memArgs_offsets (sig : List Ty) : ∀ (st : ALState) (i j o sz : Nat),
    (argLoop st sig)[j]? = some (.stack o sz) →
    ∃ k t, (memArgsFrom i sig (argLoop st sig))[k]? = some (i + j, t) ∧ o = st.offset + 8 * k := by
  induction sig with
  | nil => intro st i j o sz h; simp [argLoop] at h
  | cons t0 ts ih =>
    intro st i j o sz h
    simp only [argLoop] at h ⊢
    cases j with
    | zero =>
      simp at h
      refine ⟨0, t0, ?_, ?_⟩
      · rw [h]; simp [memArgsFrom]
      · have := (argStep_stack st t0 o sz h).1; omega
    | succ j =>
      simp at h
      obtain ⟨k, t, hk, ho⟩ := ih (argStep st t0).1 (i + 1) j o sz h
      cases hl : (argStep st t0).2 with
      | stack o0 sz0 =>
        obtain ⟨_, _, e3⟩ := argStep_stack st t0 o0 sz0 hl
        refine ⟨k + 1, t, ?_, ?_⟩
        · simp only [memArgsFrom]
          rw [List.getElem?_cons_succ, hk]; congr 2; omega
        · rw [ho, e3]; omega
      | reg r =>
        have e3 := argStep_reg st t0 r hl
        refine ⟨k, t, ?_, ?_⟩
        · simp only [memArgsFrom]
          rw [hk]; congr 2; omega
        · rw [ho, e3]

/-- registers that can appear in a location -/
def argRegIds : List Nat := [7, 6, 2, 1, 8, 9, 16, 17, 18, 19, 20, 21, 22, 23]

def goodPairs (l : List (Reg × Reg)) : Prop := ∀ p ∈ l, p.1.parent ∈ argRegIds ∧ p.2.parent ∈ argRegIds

theorem argLoop_regs (sig : List Ty) : ∀ (st : ALState), goodPairs st.ints → goodPairs st.floats →
    ∀ r, Loc.reg r ∈ argLoop st sig → r.parent ∈ argRegIds := by
  induction sig with
  | nil => intro st _ _ r h; simp [argLoop] at h
  | cons t ts ih =>
    intro st hi hf r h
    simp only [argLoop, List.mem_cons] at h
    rcases h with h | h
    · unfold argStep at h
      split at h <;> split at h
      · rename_i p rest hp
        have := hi p (by rw [hp]; simp)
        simp at h; split at h <;> (subst h; simp [this])
      · simp at h
      · rename_i p rest hp
        have := hf p (by rw [hp]; simp)
        simp at h; split at h <;> (subst h; simp [this])
      · simp at h
    · apply ih (argStep st t).1 ?_ ?_ r h
      · unfold argStep
        split <;> split
        · rename_i p rest hp; intro q hq; exact hi q (by rw [hp]; simp [hq])
        · exact hi
        · exact hi
        · exact hi
      · unfold argStep
        split <;> split
        · exact hf
        · exact hf
        · rename_i p rest hp; intro q hq; exact hf q (by rw [hp]; simp [hq])
        · exact hf

theorem init_good : goodPairs initState.ints ∧ goodPairs initState.floats := by
  constructor <;> (intro p hp; simp [initState, intRegs, floatRegs] at hp; rcases hp with rfl | rfl | rfl | rfl | rfl | rfl | rfl | rfl <;> decide)

theorem regArgsFrom_mem (sig : List Ty) : ∀ (locs : List Loc) (i j : Nat) (t : Ty) (r : Reg),
    (j, t, r) ∈ regArgsFrom i sig locs → Loc.reg r ∈ locs := by
  induction sig with
  | nil => intro locs i j t r h; simp [regArgsFrom] at h
  | cons t0 ts ih =>
    intro locs i j t r h
    cases locs with
    | nil => simp [regArgsFrom] at h
    | cons l ls =>
      cases l with
      | reg x =>
        simp only [regArgsFrom, List.mem_cons] at h
        rcases h with h | h
        · simp at h; simp [h.2.2]
        · simp [ih ls (i + 1) j t r h]
      | stack o sz =>
        simp only [regArgsFrom] at h
        simp [ih ls (i + 1) j t r h]

/-- a list of moves whose destinations satisfy `P` leaves memory and every register outside `P` alone -/
theorem movs_preserve (P : Nat → Prop) (is : List Instr) (hd : ∀ x ∈ is, ∃ d r, x = .mov d r ∧ P d) :
    ∀ s : MState, (run is s).mem = s.mem ∧ ∀ r, ¬ P r → (run is s).reg r = s.reg r := by
  induction is with
  | nil => intro s; simp
  | cons x rest ih =>
    intro s
    obtain ⟨d, r0, rfl, hP⟩ := hd x (by simp)
    obtain ⟨i1, i2⟩ := ih (fun y hy => hd y (by simp [hy])) (step s (.mov d r0))
    simp only [run_cons]
    refine ⟨by rw [i1]; simp [step], fun r hr => ?_⟩
    rw [i2 r hr]
    have : r ≠ d := fun h => hr (h ▸ hP)
    simp [step, upd_other _ _ _ _ this]

theorem moveArg_dests (i : Nat) (t : Ty) (l : Reg) :
    ∀ x ∈ moveArg i t l, ∃ d r, x = .mov d r ∧ (d = 0 ∨ d = l.parent) := by
  intro x hx
  unfold moveArg at hx
  split at hx <;> simp at hx
  · rcases hx with rfl | rfl | rfl
    · exact ⟨_, _, rfl, Or.inl rfl⟩
    · exact ⟨_, _, rfl, Or.inl rfl⟩
    · exact ⟨_, _, rfl, Or.inr (by simp [Reg.parent])⟩
  · rcases hx with rfl | rfl | rfl
    · exact ⟨_, _, rfl, Or.inl rfl⟩
    · exact ⟨_, _, rfl, Or.inl rfl⟩
    · exact ⟨_, _, rfl, Or.inr (by simp [Reg.parent])⟩
  · subst hx; exact ⟨_, _, rfl, Or.inr rfl⟩

/-- the register-argument moves of `gen_call` write only `rax` and argument registers -/
theorem callMoves_preserve (sig : List Ty) (s : MState) :
    (run ((regArgs sig).flatMap (fun (i, t, l) => moveArg i t l)) s).mem = s.mem ∧
    ∀ r, r ≠ 0 → r ∉ argRegIds → (run ((regArgs sig).flatMap (fun (i, t, l) => moveArg i t l)) s).reg r = s.reg r := by
  have := movs_preserve (fun d => d = 0 ∨ d ∈ argRegIds) ((regArgs sig).flatMap (fun (i, t, l) => moveArg i t l)) (by
    intro x hx
    simp only [List.mem_flatMap] at hx
    obtain ⟨⟨i, t, l⟩, hmem, hx⟩ := hx
    obtain ⟨d, r, rfl, hd⟩ := moveArg_dests i t l x hx
    refine ⟨d, r, rfl, ?_⟩
    rcases hd with hd | hd
    · exact Or.inl hd
    · right; rw [hd]
      exact argLoop_regs sig initState init_good.1 init_good.2 l (regArgsFrom_mem sig _ 0 i t l hmem)) s
  exact ⟨this.1, fun r h0 hr => this.2 r (by simp [h0, hr])⟩

/-- effect of "Push arguments in reverse order" on a list `mr` of (index, type) in pushing order -/
theorem pushArgs_spec (mr : List (Nat × Ty)) : ∀ (p : List Instr) (s : MState), pushArgs mr = .ok p →
    (run p s).reg 4 = s.reg 4 - 8 * mr.length ∧
    (∀ r, r ≠ 4 → r ≠ 0 → (run p s).reg r = s.reg r) ∧
    (∀ a, s.reg 4 ≤ a → (run p s).mem a = s.mem a) ∧
    (∀ (k : Nat) i t, mr[k]? = some (i, t) → (run p s).mem (s.reg 4 - 8 * ((k : Int) + 1)) = s.reg (vreg i)) := by
  induction mr with
  | nil => intro p s h; simp [pushArgs] at h; subst h; simp
  | cons a rest ih =>
    intro p s h
    obtain ⟨i0, t0⟩ := a
    simp only [pushArgs] at h
    split at h <;> try (simp at h)
    rename_i pa pr hpa hpr
    subst h
    have hv4 : vreg i0 ≠ 4 := by simp [vreg]; omega
    have hv0 : vreg i0 ≠ 0 := by simp [vreg]
    -- state after pushing argument i0
    have hone : (run pa s).reg 4 = s.reg 4 - 8 ∧ (∀ r, r ≠ 4 → r ≠ 0 → (run pa s).reg r = s.reg r) ∧
        (∀ a, s.reg 4 ≤ a → (run pa s).mem a = s.mem a) ∧ (run pa s).mem (s.reg 4 - 8) = s.reg (vreg i0) := by
      unfold pushArg at hpa
      split at hpa <;> simp at hpa
      · subst hpa
        refine ⟨by simp [step], ?_, ?_, by simp [step]⟩
        · intro r h4 _; simp [step, upd_other _ _ _ _ h4]
        · intro a ha; simp only [run_cons, run_nil, step]; rw [upd_other]; omega
      · subst hpa
        refine ⟨by simp [step, upd], ?_, ?_, by simp [step, upd]⟩
        · intro r h4 h0; simp [step, upd, h4, h0]
        · intro a ha; simp only [run_cons, run_nil, step]; rw [upd_other]; simp [upd]; omega
    obtain ⟨o1, o2, o3, o4⟩ := hone
    obtain ⟨i1, i2, i3, i4⟩ := ih pr (run pa s) hpr
    rw [run_append]
    refine ⟨?_, ?_, ?_, ?_⟩
    · rw [i1, o1]; simp only [List.length_cons]; push_cast; omega
    · intro r h4 h0; rw [i2 r h4 h0, o2 r h4 h0]
    · intro a ha; rw [i3 a (by rw [o1]; omega), o3 a ha]
    · intro k i t hk
      cases k with
      | zero =>
        simp at hk
        rw [i3 _ (by rw [o1]; omega)]
        rw [show s.reg 4 - 8 * (((0 : Nat) : Int) + 1) = s.reg 4 - 8 by simp, o4, hk.1]
      | succ k =>
        simp at hk
        have := i4 k i t hk
        rw [o1] at this
        have e : s.reg 4 - 8 * (((k + 1 : Nat) : Int) + 1) = s.reg 4 - 8 - 8 * ((k : Int) + 1) := by push_cast; omega
        rw [e, this]
        exact o2 _ (by simp [vreg]; omega) (by simp [vreg])

/-! ### gen_function_enter -/

/-- the value found at a ppci location in state `s` (stack locations are `rbp`-relative) -/
def locVal (s : MState) : Loc → Int
  | .reg r => s.reg r.parent
  | .stack o _ => s.mem (s.reg 5 + (o : Int))

/-- what `enterArg` copies: a register, or the stack word at `stack_offset + 16` -/
def enterSrc (s : MState) (so : Nat) : Loc → Int
  | .reg r => s.reg r.parent
  | .stack _ _ => s.mem (s.reg 5 + ((so : Int) + 16))

def soNext (so : Nat) : Loc → Nat
  | .reg _ => so
  | .stack _ sz => so + sz

theorem enterArg_spec (i : Nat) (t : Ty) (l : Loc) (so : Nat) (a : List Instr) (so' : Nat)
    (h : enterArg i t l so = .ok (a, so'))
    (hgood : ∀ r, l = .reg r → r.parent ∈ argRegIds) (s : MState) :
    (run a s).mem = s.mem ∧
    (∀ r, r ≠ 0 → r ≠ vreg i → (run a s).reg r = s.reg r) ∧
    (run a s).reg (vreg i) = enterSrc s so l ∧
    so' = soNext so l := by
  have hv : vreg i ≠ 0 := by simp [vreg]
  cases l with
  | stack o sz =>
    simp only [enterArg] at h
    split at h <;> simp at h
    all_goals
      obtain ⟨rfl, rfl⟩ := h
      refine ⟨by simp [step], ?_, by simp [step, RBP, enterSrc], rfl⟩
      intro r _ hr; simp [step, upd_other _ _ _ _ hr]
  | reg r =>
    have hg := hgood r rfl
    cases r with
    | r64 n =>
      have hn0 : n ≠ 0 := by intro h0; subst h0; simp [Reg.parent, argRegIds] at hg
      simp only [enterArg] at h
      split at h <;> simp at h
      · obtain ⟨rfl, rfl⟩ := h
        refine ⟨by simp [step], ?_, by simp [step, Reg.parent, enterSrc], rfl⟩
        intro r _ hr; simp [step, upd_other _ _ _ _ hr]
      all_goals
        obtain ⟨rfl, rfl⟩ := h
        refine ⟨by simp [step], ?_, by simp [step, Reg.parent, upd, enterSrc], rfl⟩
        intro r h0 hr; simp [step, upd, h0, hr]
    | r32 n =>
      simp only [enterArg] at h
      split at h <;> simp at h
      obtain ⟨rfl, rfl⟩ := h
      refine ⟨by simp [step], ?_, by simp [step, Reg.parent, enterSrc], rfl⟩
      intro r _ hr; simp [step, upd_other _ _ _ _ hr]
    | xmmD n =>
      simp [enterArg] at h
      obtain ⟨rfl, rfl⟩ := h
      refine ⟨by simp [step], ?_, by simp [step, Reg.parent, enterSrc], rfl⟩
      intro r _ hr; simp [step, upd_other _ _ _ _ hr]
    | xmmS n =>
      simp [enterArg] at h
      obtain ⟨rfl, rfl⟩ := h
      refine ⟨by simp [step], ?_, by simp [step, Reg.parent, enterSrc], rfl⟩
      intro r _ hr; simp [step, upd_other _ _ _ _ hr]
    | r16 n => simp [enterArg] at h
    | r8 n => simp [enterArg] at h

theorem argStep_good (st : ALState) (t : Ty) (hi : goodPairs st.ints) (hf : goodPairs st.floats) :
    goodPairs (argStep st t).1.ints ∧ goodPairs (argStep st t).1.floats ∧
    (∀ r, (argStep st t).2 = .reg r → r.parent ∈ argRegIds) := by
  refine ⟨?_, ?_, ?_⟩
  · unfold argStep
    split <;> split
    · rename_i p rest hp; intro q hq; exact hi q (by rw [hp]; simp [hq])
    · exact hi
    · exact hi
    · exact hi
  · unfold argStep
    split <;> split
    · exact hf
    · exact hf
    · rename_i p rest hp; intro q hq; exact hf q (by rw [hp]; simp [hq])
    · exact hf
  · intro r h
    have : Loc.reg r ∈ argLoop st [t] := by simp [argLoop, h]
    exact argLoop_regs [t] st hi hf r this

/-- `gen_function_enter`: the loop, started with `stack_offset + 16 = offset` of the location loop -/
theorem enterLoop_spec (sig : List Ty) : ∀ (st : ALState) (i0 so : Nat) (is : List Instr) (s : MState),
    goodPairs st.ints → goodPairs st.floats → so + 16 = st.offset →
    enterLoop i0 so (sig.zip (argLoop st sig)) = .ok is →
    (run is s).mem = s.mem ∧
    (∀ r, r ≠ 0 → r < 100 → (run is s).reg r = s.reg r) ∧
    (∀ r, 100 ≤ r → r < 100 + i0 → (run is s).reg r = s.reg r) ∧
    (∀ j l, (argLoop st sig)[j]? = some l → (run is s).reg (vreg (i0 + j)) = locVal s l) := by
  induction sig with
  | nil =>
    intro st i0 so is s _ _ _ h
    simp [argLoop, enterLoop] at h; subst h; simp [argLoop]
  | cons t ts ih =>
    intro st i0 so is s hi hf hso h
    simp only [argLoop, List.zip_cons_cons, enterLoop] at h
    split at h
    · simp at h
    rename_i a so' ha
    split at h
    · simp at h
    rename_i r hr
    simp only [Except.ok.injEq] at h
    subst h
    obtain ⟨g1, g2, g3⟩ := argStep_good st t hi hf
    obtain ⟨e1, e2, e3, e4⟩ := enterArg_spec i0 t _ so a so' ha g3 s
    have hso' : so' + 16 = (argStep st t).1.offset := by
      rw [e4]
      cases hl : (argStep st t).2 with
      | reg x => simp only [soNext]; rw [argStep_reg st t x hl]; exact hso
      | stack o sz =>
        obtain ⟨_, rfl, e⟩ := argStep_stack st t o sz hl
        simp only [soNext]; rw [e]; omega
    obtain ⟨i1, i2, i3, i4⟩ := ih (argStep st t).1 (i0 + 1) so' r (run a s) g1 g2 hso' hr
    have hvi : vreg i0 ≠ 0 := by simp [vreg]
    rw [run_append]
    refine ⟨by rw [i1, e1], ?_, ?_, ?_⟩
    · intro x h0 hlt
      rw [i2 x h0 hlt, e2 x h0 (by simp [vreg]; omega)]
    · intro x h1 h2
      rw [i3 x h1 (by omega), e2 x (by omega) (by simp [vreg]; omega)]
    · intro j l hj
      cases j with
      | zero =>
        simp only [argLoop, List.getElem?_cons_zero, Option.some.injEq] at hj
        rw [Nat.add_zero, i3 (vreg i0) (by simp [vreg]) (by simp [vreg]), e3, hj.symm]
        cases hl : (argStep st t).2 with
        | reg x => simp [locVal, enterSrc]
        | stack o sz =>
          obtain ⟨rfl, _, _⟩ := argStep_stack st t o sz hl
          simp only [locVal, enterSrc]; congr 2; omega
      | succ j =>
        simp only [argLoop, List.getElem?_cons_succ] at hj
        have := i4 j l hj
        rw [show i0 + (j + 1) = i0 + 1 + j by omega, this]
        -- the location is read in the state after `a`; `a` changed only rax and vreg i0
        cases l with
        | reg x =>
          have hx : x.parent ∈ argRegIds :=
            argLoop_regs ts (argStep st t).1 g1 g2 x (List.mem_of_getElem? hj)
          simp only [locVal]
          apply e2
          · intro h0; rw [h0] at hx; simp [argRegIds] at hx
          · intro h0; rw [h0] at hx; simp [argRegIds, vreg] at hx; omega
        | stack o sz =>
          simp only [locVal]
          rw [e1, e2 5 (by decide) (by simp [vreg]; omega)]

/-! ### gen_call: the register arguments -/

/-- one `moveArg`: the argument register receives the virtual register's value; only `rax` and
    that argument register are written -/
theorem moveArg_spec (i : Nat) (t : Ty) (l : Reg) (hl : l.parent ≠ 0) (s : MState) :
    (run (moveArg i t l) s).reg l.parent = s.reg (vreg i) ∧
    (∀ r, r ≠ 0 → r ≠ l.parent → (run (moveArg i t l) s).reg r = s.reg r) ∧
    (run (moveArg i t l) s).mem = s.mem := by
  have hv : vreg i ≠ 0 := by simp [vreg]
  unfold moveArg
  split
  · rename_i n _ _
    have hn : n ≠ 0 := by simpa [Reg.parent] using hl
    refine ⟨by simp [step, upd, Reg.parent], ?_, by simp [step]⟩
    intro r h0 hr; simp [Reg.parent] at hr; simp [step, upd, h0, hr]
  · rename_i n _ _
    have hn : n ≠ 0 := by simpa [Reg.parent] using hl
    refine ⟨by simp [step, upd, Reg.parent], ?_, by simp [step]⟩
    intro r h0 hr; simp [Reg.parent] at hr; simp [step, upd, h0, hr]
  · refine ⟨by simp [step], ?_, by simp [step]⟩
    intro r _ hr; simp [step, upd_other _ _ _ _ hr]

/-- a list of register arguments with pairwise different argument registers: every one ends up
    holding its value -/
theorem moves_spec (L : List (Nat × Ty × Reg))
    (H1 : ∀ x ∈ L, x.2.2.parent ∈ argRegIds)
    (H2 : L.Pairwise (fun x y => x.2.2.parent ≠ y.2.2.parent)) : ∀ s : MState,
    ∀ x ∈ L, (run (L.flatMap (fun (i, t, l) => moveArg i t l)) s).reg x.2.2.parent = s.reg (vreg x.1) := by
  induction L with
  | nil => intro s x hx; simp at hx
  | cons x0 rest ih =>
    intro s x hx
    obtain ⟨i0, t0, l0⟩ := x0
    have hl0 : l0.parent ∈ argRegIds := H1 (i0, t0, l0) (by simp)
    have hl00 : l0.parent ≠ 0 := by intro h; rw [h] at hl0; simp [argRegIds] at hl0
    have hl0lt : l0.parent < 100 := by simp [argRegIds] at hl0; omega
    obtain ⟨a1, a2, a3⟩ := moveArg_spec i0 t0 l0 hl00 s
    rw [List.pairwise_cons] at H2
    simp only [List.flatMap_cons, run_append]
    simp only [List.mem_cons] at hx
    rcases hx with hx | hx
    · subst hx
      -- the remaining moves do not write l0.parent
      have := movs_preserve (fun d => d = 0 ∨ ∃ y ∈ rest, d = y.2.2.parent)
        (rest.flatMap (fun (i, t, l) => moveArg i t l)) (by
          intro z hz
          simp only [List.mem_flatMap] at hz
          obtain ⟨⟨i, t, l⟩, hmem, hz⟩ := hz
          obtain ⟨d, r, rfl, hd⟩ := moveArg_dests i t l z hz
          exact ⟨d, r, rfl, hd.elim Or.inl (fun h => Or.inr ⟨(i, t, l), hmem, h⟩)⟩) (run (moveArg i0 t0 l0) s)
      rw [this.2 l0.parent (by
        rintro (h | ⟨y, hy, h⟩)
        · exact hl00 h
        · exact H2.1 y hy h)]
      exact a1
    · rw [ih (fun y hy => H1 y (by simp [hy])) H2.2 (run (moveArg i0 t0 l0) s) x hx]
      exact a2 _ (by simp [vreg]) (by simp [vreg]; omega)

/-- the registers still to be handed out all have different hardware identities -/
def distinctRegs (st : ALState) : Prop :=
  ((st.ints ++ st.floats).map (fun p => p.1.parent)).Nodup ∧ ∀ p ∈ st.ints ++ st.floats, p.2.parent = p.1.parent

theorem init_distinct : distinctRegs initState := by
  constructor
  · decide
  · intro p hp
    simp [initState, intRegs, floatRegs] at hp
    rcases hp with rfl | rfl | rfl | rfl | rfl | rfl | rfl | rfl | rfl | rfl | rfl | rfl | rfl | rfl <;> rfl

theorem argStep_cases (st : ALState) (t : Ty) :
    (∃ p rest, st.ints = p :: rest ∧ argStep st t = ({ st with ints := rest }, .reg (if is32 t then p.2 else p.1))) ∨
    (∃ p rest, st.floats = p :: rest ∧ argStep st t = ({ st with floats := rest }, .reg (if t = .f32 then p.1 else p.2))) ∨
    (argStep st t = ({ st with offset := st.offset + 8 }, .stack st.offset 8)) := by
  unfold argStep
  split
  · split
    · rename_i p rest hp; exact Or.inl ⟨p, rest, hp, rfl⟩
    · exact Or.inr (Or.inr rfl)
  · split
    · rename_i p rest hp; exact Or.inr (Or.inl ⟨p, rest, hp, rfl⟩)
    · exact Or.inr (Or.inr rfl)

theorem argStep_distinct (st : ALState) (t : Ty) (h : distinctRegs st) :
    distinctRegs (argStep st t).1 ∧
    (∀ p ∈ (argStep st t).1.ints ++ (argStep st t).1.floats, p ∈ st.ints ++ st.floats) ∧
    (∀ r, (argStep st t).2 = .reg r →
      (∃ p ∈ st.ints ++ st.floats, r.parent = p.1.parent) ∧
      ∀ p ∈ (argStep st t).1.ints ++ (argStep st t).1.floats, p.1.parent ≠ r.parent) := by
  obtain ⟨hn, he⟩ := h
  rcases argStep_cases st t with ⟨p, rest, hp, e⟩ | ⟨p, rest, hp, e⟩ | e
  · rw [e]; simp only
    rw [hp] at hn he
    simp only [List.cons_append, List.map_cons, List.nodup_cons] at hn
    have hsub : ∀ q ∈ rest ++ st.floats, q ∈ p :: rest ++ st.floats := fun q hq => by
      simp only [List.cons_append, List.mem_cons]; exact Or.inr hq
    refine ⟨⟨hn.2, fun q hq => he q (hsub q hq)⟩, fun q hq => by rw [hp]; exact hsub q hq, ?_⟩
    intro r hr
    simp only [Loc.reg.injEq] at hr
    have hrp : r.parent = p.1.parent := by
      rw [← hr]; split
      · exact he p (by simp)
      · rfl
    refine ⟨⟨p, by rw [hp]; simp, hrp⟩, fun q hq hqp => hn.1 ?_⟩
    rw [← hrp, ← hqp]
    exact List.mem_map.2 ⟨q, hq, rfl⟩
  · rw [e]; simp only
    rw [hp] at hn he
    have hsub : ∀ q ∈ st.ints ++ rest, q ∈ st.ints ++ p :: rest := fun q hq => by
      simp only [List.mem_append, List.mem_cons] at hq ⊢
      rcases hq with hq | hq
      · exact Or.inl hq
      · exact Or.inr (Or.inr hq)
    have hn' : ((st.ints ++ rest).map (fun p => p.1.parent)).Nodup ∧ p.1.parent ∉ (st.ints ++ rest).map (fun p => p.1.parent) := by
      simp only [List.map_append, List.map_cons] at hn ⊢
      obtain ⟨h1, h2, h3⟩ := List.nodup_append.1 hn
      rw [List.nodup_cons] at h2
      refine ⟨List.nodup_append.2 ⟨h1, h2.2, fun a ha b hb => h3 a ha b (by simp [hb])⟩, ?_⟩
      simp only [List.mem_append, not_or]
      exact ⟨fun hm => h3 _ hm _ (by simp) rfl, h2.1⟩
    refine ⟨⟨hn'.1, fun q hq => he q (hsub q hq)⟩, fun q hq => by rw [hp]; exact hsub q hq, ?_⟩
    intro r hr
    simp only [Loc.reg.injEq] at hr
    have hrp : r.parent = p.1.parent := by
      rw [← hr]; split
      · rfl
      · exact he p (by simp)
    refine ⟨⟨p, by rw [hp]; simp, hrp⟩, fun q hq hqp => hn'.2 ?_⟩
    rw [← hrp, ← hqp]
    exact List.mem_map.2 ⟨q, hq, rfl⟩
  · rw [e]; simp only
    exact ⟨⟨hn, he⟩, fun q hq => hq, fun r hr => by simp at hr⟩

/-- `reg_args` of a location list produced by the loop: destinations come from the remaining
    registers and are pairwise different; every register location is a member -/
theorem regArgs_spec (sig : List Ty) : ∀ (st : ALState) (i : Nat), distinctRegs st →
    (∀ x ∈ regArgsFrom i sig (argLoop st sig), ∃ p ∈ st.ints ++ st.floats, x.2.2.parent = p.1.parent) ∧
    (regArgsFrom i sig (argLoop st sig)).Pairwise (fun x y => x.2.2.parent ≠ y.2.2.parent) ∧
    (∀ j r, (argLoop st sig)[j]? = some (.reg r) → ∃ t, (i + j, t, r) ∈ regArgsFrom i sig (argLoop st sig)) := by
  induction sig with
  | nil => intro st i _; simp [argLoop, regArgsFrom]
  | cons t0 ts ih =>
    intro st i hd
    obtain ⟨d1, d2, d3⟩ := argStep_distinct st t0 hd
    obtain ⟨i1, i2, i3⟩ := ih (argStep st t0).1 (i + 1) d1
    simp only [argLoop]
    cases hl : (argStep st t0).2 with
    | stack o sz =>
      simp only [regArgsFrom]
      refine ⟨fun x hx => ?_, i2, ?_⟩
      · obtain ⟨p, hp, e⟩ := i1 x hx; exact ⟨p, d2 p hp, e⟩
      · intro j r hj
        cases j with
        | zero => simp at hj
        | succ j =>
          simp only [List.getElem?_cons_succ] at hj
          obtain ⟨t, ht⟩ := i3 j r hj
          exact ⟨t, by rw [show i + (j + 1) = i + 1 + j by omega]; exact ht⟩
    | reg r0 =>
      obtain ⟨⟨p0, hp0, e0⟩, hne⟩ := d3 r0 hl
      simp only [regArgsFrom]
      refine ⟨?_, ?_, ?_⟩
      · intro x hx
        simp only [List.mem_cons] at hx
        rcases hx with rfl | hx
        · exact ⟨p0, hp0, e0⟩
        · obtain ⟨p, hp, e⟩ := i1 x hx; exact ⟨p, d2 p hp, e⟩
      · rw [List.pairwise_cons]
        refine ⟨fun y hy => ?_, i2⟩
        obtain ⟨p, hp, e⟩ := i1 y hy
        simp only
        rw [e]; exact fun h => hne p hp h.symm
      · intro j r hj
        cases j with
        | zero => simp at hj; subst hj; exact ⟨t0, by simp⟩
        | succ j =>
          simp only [List.getElem?_cons_succ] at hj
          obtain ⟨t, ht⟩ := i3 j r hj
          exact ⟨t, by rw [show i + (j + 1) = i + 1 + j by omega]; simp [ht]⟩

end Proofs.X64CC
