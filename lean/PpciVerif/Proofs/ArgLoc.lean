import PpciVerif.Model.ArgLoc
/-!
# Lemmas about `Model.ArgLoc` (core Lean only)

Invariant of both loops, with the remaining register lists and the offset generalised: every
location produced is a register from the remaining list, or a stack slot at or above the current
offset with a non-negative size; the remaining lists have no duplicates.  Hence the head location
is distinct from everything produced later.
-/
namespace Proofs.ArgLoc
open Model.ArgLoc Spec.StackSlots

/-- `l` only uses integer registers from `regs`, float registers from `fregs`, stack at or above `off` -/
def Within (regs fregs : List Nat) (off : Int) : Loc → Prop
  | .reg n => n ∈ regs
  | .freg n => n ∈ fregs
  | .stack o _ => off ≤ o

theorem Within.mono {regs regs' fregs fregs' : List Nat} {off off' : Int} {l : Loc}
    (h : Within regs' fregs' off' l) (hr : ∀ n, n ∈ regs' → n ∈ regs) (hf : ∀ n, n ∈ fregs' → n ∈ fregs)
    (ho : off ≤ off') : Within regs fregs off l := by
  cases l with
  | reg n => exact hr n h
  | freg n => exact hf n h
  | stack o sz => exact Int.le_trans ho h

/-- a fresh register is distinct from everything that only uses the remaining ones -/
theorem reg_distinct {r : Nat} {rs fregs : List Nat} {off : Int} (hr : r ∉ rs) {l : Loc}
    (h : Within rs fregs off l) : Loc.Distinct (.reg r) l := by
  cases l with
  | reg n => intro e; exact hr (e ▸ h)
  | freg n => trivial
  | stack o sz => trivial

theorem freg_distinct {r : Nat} {regs fs : List Nat} {off : Int} (hr : r ∉ fs) {l : Loc}
    (h : Within regs fs off l) : Loc.Distinct (.freg r) l := by
  cases l with
  | reg n => trivial
  | freg n => intro e; exact hr (e ▸ h)
  | stack o sz => trivial

/-- a slot ending at or below `off'` is disjoint from everything at or above `off'` -/
theorem stack_distinct {off : Int} {sz : Int} {regs fregs : List Nat} {off' : Int} (ho : off + sz ≤ off') {l : Loc}
    (h : Within regs fregs off' l) : Loc.Distinct (.stack off sz) l := by
  cases l with
  | reg n => trivial
  | freg n => trivial
  | stack o n => exact Or.inl (Int.le_trans ho h)

theorem riscvGo_sound (rvf : Bool) (tys : List ATy) : ∀ (regs fregs : List Nat) (off : Int),
    regs.Nodup → fregs.Nodup →
    (∀ l ∈ riscvGo rvf tys regs fregs off, Within regs fregs off l) ∧
    List.Pairwise Loc.Distinct (riscvGo rvf tys regs fregs off) := by
  induction tys with
  | nil => intro regs fregs off _ _; simp [riscvGo]
  | cons t rest ih =>
    intro regs fregs off hr hf
    have sz1 : (0 : Int) ≤ (t.tsize : Int) := Int.natCast_nonneg _
    have sz2 : (0 : Int) ≤ (t.isize : Int) := Int.natCast_nonneg _
    -- the three shapes of one iteration
    have stackCase : ∀ (slot adv : Nat) (regs' fregs' : List Nat), slot ≤ adv →
        (∀ n, n ∈ regs' → n ∈ regs) → (∀ n, n ∈ fregs' → n ∈ fregs) → regs'.Nodup → fregs'.Nodup →
        (∀ l ∈ Loc.stack off slot :: riscvGo rvf rest regs' fregs' (off + adv), Within regs fregs off l) ∧
        List.Pairwise Loc.Distinct (Loc.stack off slot :: riscvGo rvf rest regs' fregs' (off + adv)) := by
      intro slot adv regs' fregs' hsa h1 h2 n1 n2
      have IH := ih regs' fregs' (off + adv) n1 n2
      have hadv : (0 : Int) ≤ (adv : Int) := Int.natCast_nonneg _
      refine ⟨?_, ?_⟩
      · intro l hl
        rcases List.mem_cons.mp hl with rfl | hl
        · exact Int.le_refl _
        · exact (IH.1 l hl).mono h1 h2 (by omega)
      · refine List.Pairwise.cons ?_ IH.2
        intro l hl
        exact stack_distinct (by have : (slot : Int) ≤ adv := by exact_mod_cast hsa
                                 omega) (IH.1 l hl)
    have regCase : ∀ (r : Nat) (rs : List Nat), regs = r :: rs →
        (∀ l ∈ Loc.reg r :: riscvGo rvf rest rs fregs off, Within regs fregs off l) ∧
        List.Pairwise Loc.Distinct (Loc.reg r :: riscvGo rvf rest rs fregs off) := by
      intro r rs e
      subst e
      have hn := List.nodup_cons.mp hr
      have IH := ih rs fregs off hn.2 hf
      refine ⟨?_, ?_⟩
      · intro l hl
        rcases List.mem_cons.mp hl with rfl | hl
        · exact List.mem_cons_self
        · exact (IH.1 l hl).mono (fun n h => List.mem_cons_of_mem _ h) (fun _ h => h) (Int.le_refl _)
      · exact List.Pairwise.cons (fun l hl => reg_distinct hn.1 (IH.1 l hl)) IH.2
    have fregCase : ∀ (r : Nat) (fs : List Nat), fregs = r :: fs →
        (∀ l ∈ Loc.freg r :: riscvGo rvf rest regs fs off, Within regs fregs off l) ∧
        List.Pairwise Loc.Distinct (Loc.freg r :: riscvGo rvf rest regs fs off) := by
      intro r fs e
      subst e
      have hn := List.nodup_cons.mp hf
      have IH := ih regs fs off hr hn.2
      refine ⟨?_, ?_⟩
      · intro l hl
        rcases List.mem_cons.mp hl with rfl | hl
        · exact List.mem_cons_self
        · exact (IH.1 l hl).mono (fun _ h => h) (fun n h => List.mem_cons_of_mem _ h) (Int.le_refl _)
      · exact List.Pairwise.cons (fun l hl => freg_distinct hn.1 (IH.1 l hl)) IH.2
    unfold riscvGo
    cases hk : t.kind with
    | blob => simpa using stackCase t.tsize t.tsize regs fregs (Nat.le_refl _) (fun _ h => h) (fun _ h => h) hr hf
    | flt =>
      simp only
      cases rvf with
      | true =>
        simp only [if_true]
        cases fregs with
        | nil => simpa using stackCase t.isize t.isize regs [] (Nat.le_refl _) (fun _ h => h) (fun _ h => h) hr hf
        | cons r fs => exact fregCase r fs rfl
      | false =>
        simp only [Bool.false_eq_true, if_false]
        cases regs with
        | nil => simpa using stackCase t.isize t.isize [] fregs (Nat.le_refl _) (fun _ h => h) (fun _ h => h) hr hf
        | cons r rs => exact regCase r rs rfl
    | int =>
      simp only
      cases regs with
      | nil => simpa using stackCase t.isize t.isize [] fregs (Nat.le_refl _) (fun _ h => h) (fun _ h => h) hr hf
      | cons r rs => exact regCase r rs rfl

theorem armGo_sound (tys : List ATy) : ∀ (regs : List Nat) (off : Int), regs.Nodup →
    (∀ l ∈ armGo tys regs off, Within regs [] off l) ∧ List.Pairwise Loc.Distinct (armGo tys regs off) := by
  induction tys with
  | nil => intro regs off _; simp [armGo]
  | cons t rest ih =>
    intro regs off hr
    have stackCase : ∀ (slot : Nat) (regs' : List Nat), (∀ n, n ∈ regs' → n ∈ regs) → regs'.Nodup →
        (∀ l ∈ Loc.stack off slot :: armGo rest regs' (off + slot), Within regs [] off l) ∧
        List.Pairwise Loc.Distinct (Loc.stack off slot :: armGo rest regs' (off + slot)) := by
      intro slot regs' h1 n1
      have IH := ih regs' (off + slot) n1
      have hs : (0 : Int) ≤ (slot : Int) := Int.natCast_nonneg _
      refine ⟨?_, ?_⟩
      · intro l hl
        rcases List.mem_cons.mp hl with rfl | hl
        · exact Int.le_refl _
        · exact (IH.1 l hl).mono h1 (fun _ h => h) (by omega)
      · exact List.Pairwise.cons (fun l hl => stack_distinct (Int.le_refl _) (IH.1 l hl)) IH.2
    have regCase : ∀ (r : Nat) (rs : List Nat), regs = r :: rs →
        (∀ l ∈ Loc.reg r :: armGo rest rs off, Within regs [] off l) ∧
        List.Pairwise Loc.Distinct (Loc.reg r :: armGo rest rs off) := by
      intro r rs e
      subst e
      have hn := List.nodup_cons.mp hr
      have IH := ih rs off hn.2
      refine ⟨?_, ?_⟩
      · intro l hl
        rcases List.mem_cons.mp hl with rfl | hl
        · exact List.mem_cons_self
        · exact (IH.1 l hl).mono (fun n h => List.mem_cons_of_mem _ h) (fun _ h => h) (Int.le_refl _)
      · exact List.Pairwise.cons (fun l hl => reg_distinct hn.1 (IH.1 l hl)) IH.2
    unfold armGo
    cases hk : t.kind with
    | blob => simpa using stackCase t.tsize regs (fun _ h => h) hr
    | flt =>
      simp only
      cases regs with
      | nil => simpa using stackCase t.isize [] (fun _ h => h) hr
      | cons r rs => exact regCase r rs rfl
    | int =>
      simp only
      cases regs with
      | nil => simpa using stackCase t.isize [] (fun _ h => h) hr
      | cons r rs => exact regCase r rs rfl

end Proofs.ArgLoc
