import PpciVerif.Gen.Py_ir2py_helpers
import PpciVerif.Model.IrPy
import PpciVerif.Proofs.T1_PyRt
/-!
T1 translation tie for the arithmetic helpers that `IrToPythonCompiler.generate_builtins` EMITS
(`correct / idiv / irem / ishl / ishr`): the emitted text of the checked tree is translated by
`py2lean` on every run (`Gen.Py_ir2py_helpers`) and equals the hand model `Model.IrPy.*` that the
theorems of C24 are about, for every argument (no loops: `fuel` is irrelevant).
-/
set_option linter.unusedSimpArgs false
namespace Proofs.T1.IrPy
open Model Model.PyRt Model.IrPy Gen.Py_ir2py_helpers Proofs.T1

def errOf : Model.IrPy.PyErr → Model.PyRt.PyErr
  | .ZeroDivisionError => .ZeroDivisionError | .TypeError => .TypeError | .ValueError => .ValueError
  | .KeyError => .KeyError | .NotImplementedError => .NotImplementedError
  | .SyntaxError => .RuntimeError      -- never produced by the helpers

def liftI : Except Model.IrPy.PyErr Int → Except Model.PyRt.PyErr Int
  | .ok v => .ok v
  | .error e => .error (errOf e)

theorem gen_correct_eq_model (fuel : Nat) (value : Int) (bits : Nat) (signed : Bool) :
    Gen.Py_ir2py_helpers.correct fuel value (bits : Int) (PyRt.ofBool signed) = .ok (Model.IrPy.correct value bits signed) := by
  unfold Gen.Py_ir2py_helpers.correct Model.IrPy.correct
  have hpos : (0 : Int) < 2 ^ bits := Int.pow_pos (by decide)
  simp only [shl_natCast, pow_natCast, bind_ok, Int.one_mul]
  simp only [mod_of_pos _ hpos, bind_ok, PyRt.bitLength, PyRt.ofBool]
  cases signed
  · simp
  · by_cases hbl : PyInt.bitLength (value % 2 ^ bits) = bits
    · simp [hbl]
    · have : ¬ ((PyInt.bitLength (value % 2 ^ bits) : Int) = (bits : Int)) := by omega
      simp [hbl, this]

theorem gen_idiv_eq_model (fuel : Nat) (x y : Int) :
    Gen.Py_ir2py_helpers.idiv fuel x y = liftI (Model.IrPy.idiv x y) := by
  unfold Gen.Py_ir2py_helpers.idiv Model.IrPy.idiv PyRt.floordiv
  by_cases hx : x < 0 <;> by_cases hy : y < 0 <;> by_cases h0 : y = 0 <;>
    simp [hx, hy, h0, liftI, errOf] <;> omega

theorem gen_irem_eq_model (fuel : Nat) (x y : Int) :
    Gen.Py_ir2py_helpers.irem fuel x y = liftI (Model.IrPy.irem x y) := by
  unfold Gen.Py_ir2py_helpers.irem Model.IrPy.irem PyRt.mod
  by_cases hx : x < 0 <;> by_cases hy : y < 0 <;> by_cases h0 : y = 0 <;>
    simp [hx, hy, h0, liftI, errOf] <;> omega

theorem model_ishl (x amount : Int) (bits : Nat) : Model.IrPy.ishl x amount bits =
    if bits = 0 then .error .ZeroDivisionError else .ok (x * 2 ^ (amount % (bits : Int)).toNat) := by
  unfold Model.IrPy.ishl pyModNat
  split <;> rfl

theorem model_ishr (x amount : Int) (bits : Nat) : Model.IrPy.ishr x amount bits =
    if bits = 0 then .error .ZeroDivisionError else .ok (x / 2 ^ (amount % (bits : Int)).toNat) := by
  unfold Model.IrPy.ishr pyModNat
  split <;> rfl

theorem gen_ishl_eq_model (fuel : Nat) (x amount : Int) (bits : Nat) :
    Gen.Py_ir2py_helpers.ishl fuel x amount (bits : Int) = liftI (Model.IrPy.ishl x amount bits) := by
  rw [model_ishl]
  unfold Gen.Py_ir2py_helpers.ishl
  by_cases hb : bits = 0
  · subst hb; simp [mod_zero, liftI, errOf]
  · have hpos : (0 : Int) < bits := by omega
    have c0 := Int.emod_nonneg amount (show (bits : Int) ≠ 0 by omega)
    simp [mod_of_pos _ hpos, hb, shl_of_nonneg _ c0, liftI]

theorem gen_ishr_eq_model (fuel : Nat) (x amount : Int) (bits : Nat) :
    Gen.Py_ir2py_helpers.ishr fuel x amount (bits : Int) = liftI (Model.IrPy.ishr x amount bits) := by
  rw [model_ishr]
  unfold Gen.Py_ir2py_helpers.ishr
  by_cases hb : bits = 0
  · subst hb; simp [mod_zero, liftI, errOf]
  · have hpos : (0 : Int) < bits := by omega
    have c0 := Int.emod_nonneg amount (show (bits : Int) ≠ 0 by omega)
    simp [mod_of_pos _ hpos, hb, shr_of_nonneg _ c0, liftI]

end Proofs.T1.IrPy
