import PpciVerif.Spec.OrderedSet
/-! C30: list-level facts about `Spec.OrderedSet` (no model involved). -/
namespace Proofs.OrderedSet.SpecL
open Spec.OrderedSet

theorem mem_add (l : List Int) (v x : Int) : x ∈ add l v ↔ x ∈ l ∨ x = v := by
  unfold add; split
  · constructor
    · exact Or.inl
    · rintro (h | rfl) <;> assumption
  · simp

theorem mem_foldl_add (it l : List Int) (x : Int) : x ∈ it.foldl add l ↔ x ∈ l ∨ x ∈ it := by
  induction it generalizing l with
  | nil => simp
  | cons a as ih => simp [ih, mem_add, or_assoc]

theorem mem_ofList (it : List Int) (x : Int) : x ∈ ofList it ↔ x ∈ it := by
  simp [ofList, mem_foldl_add]

theorem foldl_add_of_subset (it l : List Int) (h : ∀ x ∈ it, x ∈ l) : it.foldl add l = l := by
  induction it with
  | nil => rfl
  | cons a as ih =>
    have : add l a = l := by simp [add, h a (by simp)]
    simp [this, ih (fun x hx => h x (by simp [hx]))]

theorem foldl_discard (it l : List Int) :
    it.foldl Spec.OrderedSet.discard l = l.filter (· ∉ it) := by
  induction it generalizing l with
  | nil =>
    simp only [List.foldl_nil]
    rw [List.filter_eq_self.mpr]; intro x _; simp
  | cons a as ih =>
    simp only [List.foldl_cons, ih, Spec.OrderedSet.discard, List.filter_filter]
    apply List.filter_congr
    intro x _
    by_cases h1 : x = a <;> by_cases h2 : x ∈ as <;> simp [h1, h2]

theorem discard_head (v : Int) (rest : List Int) (h : (v :: rest).Nodup) :
    Spec.OrderedSet.discard (v :: rest) v = rest := by
  have hv : v ∉ rest := (List.nodup_cons.mp h).1
  simp only [Spec.OrderedSet.discard, List.filter_cons]
  simp
  intro x hx e; exact hv (e ▸ hx)

theorem foldl_add_firstOcc (vs acc : List Int) :
    vs.foldl add acc = acc ++ (firstOccurrences vs).filter (· ∉ acc) := by
  induction vs generalizing acc with
  | nil => simp [firstOccurrences]
  | cons x xs ih =>
    simp only [List.foldl_cons, firstOccurrences]
    by_cases hx : x ∈ acc
    · have : add acc x = acc := by simp [add, hx]
      rw [this, ih]
      simp only [List.filter_cons, hx, not_true_eq_false, decide_false, List.filter_filter]
      congr 1
      apply List.filter_congr
      intro y _
      by_cases hy : y ∈ acc
      · simp [hy]
      · have : y ≠ x := fun e => hy (e ▸ hx)
        simp [hy, this]
    · have : add acc x = acc ++ [x] := by simp [add, hx]
      rw [this, ih]
      simp only [List.filter_cons, hx, not_false_eq_true, decide_true, List.filter_filter, if_true,
        List.append_assoc, List.singleton_append]
      congr 2
      apply List.filter_congr
      intro y _
      by_cases h1 : y = x <;> by_cases h2 : y ∈ acc <;> simp [h1, h2]

/-- add-only histories: iteration order = order of first occurrence -/
theorem ofList_firstOcc (vs : List Int) : ofList vs = firstOccurrences vs := by
  have := foldl_add_firstOcc vs []
  simp only [List.nil_append] at this
  rw [ofList, this, List.filter_eq_self.mpr]
  intro x _; simp

end Proofs.OrderedSet.SpecL
