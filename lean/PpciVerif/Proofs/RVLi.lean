import PpciVerif.Model.RVLi
/-!
# Lemmas about `Model.RVLi` (core Lean only)

`li_split`: the arithmetic core — upper 20-bit field times 4096 plus the sign-extended lower
12-bit field is the constant modulo 2^32, for every integer.  `run_li` etc.: executing the
emitted instructions with `Spec.RV32.step` leaves the constant in `rd` and nothing else changed.
-/
namespace Proofs.RVLi
open Spec.RV32 Model.RVLi

theorem lo12_cast (v : Int) : ((lo12 v : Nat) : Int) = v % 4096 := by
  unfold lo12
  exact Int.toNat_of_nonneg (Int.emod_nonneg _ (by decide))

theorem hi20_cast (v : Int) : ((hi20 v : Nat) : Int) = (v / 4096) % 1048576 := by
  unfold hi20
  exact Int.toNat_of_nonneg (Int.emod_nonneg _ (by decide))

theorem sext12_lo (v : Int) : sext 12 (lo12 v) = if v % 4096 < 2048 then v % 4096 else v % 4096 - 4096 := by
  unfold sext
  have h := lo12_cast v
  have : (lo12 v < 2 ^ (12 - 1)) ↔ (v % 4096 < 2048) := by
    constructor <;> intro h' <;> omega
  by_cases hc : v % 4096 < 2048
  · simp [hc, this.mpr hc, h]
  · have : ¬ lo12 v < 2 ^ (12 - 1) := fun h' => hc (this.mp h')
    simp [hc, this, h]

/-- `(hi << 12) + signext12(lo) ≡ v (mod 2^32)` for EVERY integer `v` -/
theorem li_split (v : Int) :
    ((hi20 (adjust v) : Int) * 4096 + sext 12 (lo12 (adjust v))) % 4294967296 = v % 4294967296 := by
  rw [hi20_cast, sext12_lo]
  unfold adjust bit11
  by_cases hb : (v / 2048) % 2 = 0
  · simp [hb]; split <;> omega
  · simp [hb]; split <;> omega

/-- a 12-bit constant is its own sign-extended low part -/
theorem sext12_small (v : Int) (h : -2048 ≤ v ∧ v < 2048) : sext 12 (lo12 v) = v := by
  rw [sext12_lo]; split <;> omega

/-! ### register file facts -/

theorem get_set_same (s : State) (r v : Nat) (hr : r ≠ 0) : (s.set r v).get r = v % W := by
  simp [State.set, State.get, hr]

theorem get_set_other (s : State) (r q v : Nat) (hq : q ≠ r) : (s.set r v).get q = s.get q := by
  unfold State.set State.get
  by_cases hr : r = 0
  · simp [hr]
  · by_cases hq0 : q = 0
    · simp [hq0]
    · simp [hr, hq0, hq]

theorem set_mem (s : State) (r v : Nat) : (s.set r v).mem = s.mem := by
  unfold State.set; split <;> rfl

theorem set_pc (s : State) (r v : Nat) : (s.set r v).pc = s.pc := by
  unfold State.set; split <;> rfl

/-- what "the instructions only wrote `rd`" means -/
structure OnlyWrote (s s' : State) (rd : Nat) (nbytes : Nat) : Prop where
  others : ∀ q, q ≠ rd → s'.get q = s.get q
  mem : s'.mem = s.mem
  pc : s'.pc = (s.pc + nbytes) % W

theorem W_eq : W = 4294967296 := by decide

theorem ofInt_lt (z : Int) : ofInt z < W := by
  unfold ofInt
  have h1 : z % 2 ^ 32 < 2 ^ 32 := Int.emod_lt_of_pos _ (by decide)
  have h0 : 0 ≤ z % 2 ^ 32 := Int.emod_nonneg _ (by decide)
  rw [W_eq]; omega

/-- the state after `lui rd, hi` (of length `len1`) followed by `addi rd, rd, lo` -/
def afterLui (s : State) (rd hi len1 : Nat) : State :=
  { s.set rd (hi * 4096 % W) with pc := (s.pc + len1) % W }

def afterAddi (s : State) (rd rs : Nat) (imm : Int) (len : Nat := 4) : State :=
  { s.set rd (immOp .addi (s.get rs) imm) with pc := (s.pc + len) % W }

theorem step_lui (s : State) (rd hi len : Nat) : step s (.lui rd hi) len = some (afterLui s rd hi len) := rfl

theorem step_addi (s : State) (rd rs : Nat) (imm : Int) (len : Nat) :
    step s (.alui .addi rd rs imm) len = some (afterAddi s rd rs imm len) := rfl

theorem afterLui_get (s : State) (rd hi len : Nat) (hrd : rd ≠ 0) :
    (afterLui s rd hi len).get rd = hi * 4096 % W := by
  have := get_set_same s rd (hi * 4096 % W) hrd
  simp only [afterLui, State.get, hrd, if_false] at *
  rw [this]; exact Nat.mod_mod _ _

theorem afterAddi_get (s : State) (rd rs : Nat) (imm : Int) (hrd : rd ≠ 0) (len : Nat := 4) :
    (afterAddi s rd rs imm len).get rd = ofInt ((s.get rs : Int) + imm) := by
  have := get_set_same s rd (immOp .addi (s.get rs) imm) hrd
  simp only [afterAddi, State.get, hrd, if_false] at *
  rw [this]
  exact Nat.mod_eq_of_lt (ofInt_lt _)

theorem afterLui_other (s : State) (rd hi len q : Nat) (hq : q ≠ rd) : (afterLui s rd hi len).get q = s.get q := by
  have := get_set_other s rd q (hi * 4096 % W) hq
  simpa [afterLui, State.get] using this

theorem afterAddi_other (s : State) (rd rs q : Nat) (imm : Int) (hq : q ≠ rd) (len : Nat := 4) :
    (afterAddi s rd rs imm len).get q = s.get q := by
  have := get_set_other s rd q (immOp .addi (s.get rs) imm) hq
  simpa [afterAddi, State.get] using this

theorem afterLui_mem (s : State) (rd hi len : Nat) : (afterLui s rd hi len).mem = s.mem := set_mem _ _ _
theorem afterAddi_mem (s : State) (rd rs : Nat) (imm : Int) (len : Nat := 4) : (afterAddi s rd rs imm len).mem = s.mem := set_mem _ _ _
theorem afterLui_pc (s : State) (rd hi len : Nat) : (afterLui s rd hi len).pc = (s.pc + len) % W := rfl
theorem afterAddi_pc (s : State) (rd rs : Nat) (imm : Int) (len : Nat := 4) : (afterAddi s rd rs imm len).pc = (s.pc + len) % W := rfl

/-- `lui rd, hi ; addi rd, rd, lo` -/
theorem lui_addi_facts (s : State) (rd hi lo len1 : Nat) (hrd : rd ≠ 0) :
    let s' := afterAddi (afterLui s rd hi len1) rd rd (sext 12 lo)
    s'.get rd = ofInt ((hi : Int) * 4096 + sext 12 lo) ∧ OnlyWrote s s' rd (len1 + 4) := by
  intro s'
  refine ⟨?_, ?_, ?_, ?_⟩
  · simp only [s', afterAddi_get _ _ _ _ hrd, afterLui_get _ _ _ _ hrd]
    unfold ofInt
    simp only [W_eq]
    congr 1
    omega
  · intro q hq
    simp only [s', afterAddi_other _ _ _ _ _ hq, afterLui_other _ _ _ _ _ hq]
  · simp only [s', afterAddi_mem, afterLui_mem]
  · simp only [s', afterAddi_pc, afterLui_pc, W_eq]; omega

/-- a single `addi rd, x0, v` (also `c.li`) -/
theorem addi_zero_facts (s : State) (rd : Nat) (v : Int) (len : Nat) (hrd : rd ≠ 0) :
    let s' := afterAddi s rd 0 v len
    s'.get rd = ofInt v ∧ OnlyWrote s s' rd len := by
  intro s'
  refine ⟨?_, ?_, ?_, ?_⟩
  · simp only [s', afterAddi_get _ _ _ _ hrd len]
    simp [State.get]
  · intro q hq; simp only [s', afterAddi_other _ _ _ _ _ hq len]
  · simp only [s', afterAddi_mem _ _ _ _ len]
  · simp only [s', afterAddi_pc _ _ _ _ len]

/-- a value that fits the signed 6-bit field of `c.lui` is read back unchanged -/
theorem hi6_fits (h : Int) (hh : -32 ≤ h ∧ h < 32) : hi6 h = h := by
  unfold hi6 sext
  have e : (((h % 64).toNat : Nat) : Int) = h % 64 := Int.toNat_of_nonneg (Int.emod_nonneg _ (by decide))
  split <;> omega

/-- the pattern condition says exactly that the upper part fits `c.lui`'s non-zero signed 6-bit field -/
theorem cluiCond_iff (v : Int) :
    cluiCond v = true ↔ (-32 ≤ adjust v / 4096 ∧ adjust v / 4096 < 32 ∧ adjust v / 4096 ≠ 0) := by
  unfold cluiCond adjust bit11
  simp only [decide_eq_true_eq]
  by_cases hb : (v / 2048) % 2 = 0
  · simp [hb]; omega
  · simp [hb]; omega

theorem clui_field (v : Int) (h : cluiCond v = true) :
    ((hi6 (adjust v / 4096) % 2 ^ 20).toNat) = hi20 (adjust v) := by
  have hc := (cluiCond_iff v).mp h
  rw [hi6_fits _ ⟨hc.1, hc.2.1⟩]
  rfl

end Proofs.RVLi
